import WcModel.Proofs.WcWalk
/-
  C14 — WcMatch returns exactly the files a filtered directory walk selects.

  The walk model is `Model/WcWalk.lean` (`run`: `on_reset`, `os.walk` with in-place pruning, the four
  poll sites, `_valid_folder` / `_valid_file`, hidden rule, RECURSIVE / HIDDEN / SYMLINKS).  The pattern
  decisions are parameters of the model: `cfg.fileDec`, `cfg.dirExcl` (the check feeds them from an
  independent formulation through `fnmatch.fnmatch` / `glob.globmatch`).  The specification is
  `specResults` / `reachable` / `selected` / `enterable` (same file).

  All theorems quantify over ALL trees, ALL decision functions, ALL flag records.
  `cfg.NoRaise`: the two comparisons return a Boolean (they are the library's own regex matches; a
  raising comparison is a user override and belongs to C15's routing clause).
  The uninterrupted run is the run under the oracle that never reports an abort.
-/
namespace WcModel.C14
open WcModel.WcWalk

/-- **C14 main.**  `match()` with the base-class hooks returns, in walk order, exactly the files of the
    reachable directories (`enterable`: RECURSIVE, not accepted by the exclude pattern, not hidden unless
    HIDDEN, not a link unless SYMLINKS) that the file decision selects (`selected`: file pattern on the
    name / on the root-relative path under FILEPATHNAME, hidden files dropped unless HIDDEN). -/
theorem C14_main (cfg : Cfg) (hn : cfg.NoRaise) (t : Tree) :
    results (run (fun _ => false) cfg Hooks.default t) = specResults cfg t := by
  rw [results_default_eq _ (routed_run _ cfg Hooks.default t), run_false, fileVisits_pureRun_default hn]
  unfold specResults
  generalize reachable cfg t = l
  induction l with
  | nil => rfl
  | cons x l ih =>
    cases h : selected cfg x.1 x.2 <;> simp [h] at ih ⊢ <;> exact ih

/-- the files *visited* (handed to on_match or on_skip) are the files of the reachable directories -/
theorem C14_visited (cfg : Cfg) (hn : cfg.NoRaise) (t : Tree) :
    visitPaths (run (fun _ => false) cfg Hooks.default t) = (reachable cfg t).map (fun x => x.1 ++ [x.2]) := by
  unfold visitPaths
  rw [run_false, fileVisits_pureRun_default hn, List.map_map]
  rfl

/-- **C14 skipped.**  `get_skipped()` = number of files visited and not returned. -/
theorem C14_skipped (cfg : Cfg) (t : Tree) :
    skippedOf (run (fun _ => false) cfg Hooks.default t)
      = (visitPaths (run (fun _ => false) cfg Hooks.default t)).length
        - (results (run (fun _ => false) cfg Hooks.default t)).length := by
  rw [skippedOf_eq, results_default_eq _ (routed_run _ cfg Hooks.default t)]
  unfold visitPaths
  rw [List.length_map, List.length_map]
  have := length_filter_not (fun x : RelPath × Bool => x.2) (fileVisits (run (fun _ => false) cfg Hooks.default t))
  omega

/-- the same, against the specification: `get_skipped()` = |reachable files| − |selected files| -/
theorem C14_skipped_spec (cfg : Cfg) (hn : cfg.NoRaise) (t : Tree) :
    skippedOf (run (fun _ => false) cfg Hooks.default t) = specSkipped cfg t := by
  rw [C14_skipped cfg t, C14_visited cfg hn t, C14_main cfg hn t]
  unfold specSkipped
  rw [List.length_map]

/-- **No file is yielded twice** (names inside one directory are pairwise different: `t.WF`). -/
theorem C14_nodup (cfg : Cfg) (t : Tree) (hwf : t.WF) :
    (results (run (fun _ => false) cfg Hooks.default t)).Nodup := by
  rw [results_default_eq _ (routed_run _ cfg Hooks.default t)]
  have h := nodup_visitPaths_run (fun _ => false) cfg Hooks.default t hwf
  unfold visitPaths at h
  exact h.sublist (List.Sublist.map _ List.filter_sublist)

/-- each selected reachable file is returned, and nothing else -/
theorem C14_mem_iff (cfg : Cfg) (hn : cfg.NoRaise) (t : Tree) (p : RelPath) :
    p ∈ results (run (fun _ => false) cfg Hooks.default t) ↔
      ∃ x ∈ reachable cfg t, selected cfg x.1 x.2 = true ∧ p = x.1 ++ [x.2] := by
  rw [C14_main cfg hn t]
  unfold specResults
  simp only [List.mem_map, List.mem_filter]
  constructor
  · rintro ⟨x, ⟨hx, hs⟩, rfl⟩; exact ⟨x, hx, hs, rfl⟩
  · rintro ⟨x, hx, hs, rfl⟩; exact ⟨x, ⟨hx, hs⟩, rfl⟩

/-- **An empty file pattern selects every file** (`_compile`: the regex `^.*$`), up to the hidden rule. -/
theorem C14_empty_pattern_all (flags : Nat) (xe : Bool) (ft dt : RelPath → Res Bool) (rel : RelPath) (n : Name) :
    selected (Cfg.ofFlags flags true xe ft dt) rel n
      = ((Cfg.ofFlags flags true xe ft dt).hidden || !isHidden n) := by
  simp [selected, Cfg.ofFlags]

/-- **An empty exclude pattern excludes nothing**: which directories are entered does not depend on the
    directory table at all. -/
theorem C14_empty_exclude_none (flags : Nat) (fe : Bool) (ft dt : RelPath → Res Bool) (rel : RelPath) (n : Name)
    (k : Kind) :
    enterable (Cfg.ofFlags flags fe true ft dt) rel n k
      = ((Cfg.ofFlags flags fe true ft dt).recursive && ((Cfg.ofFlags flags fe true ft dt).hidden || !isHidden n)
          && k.walkable (Cfg.ofFlags flags fe true ft dt).symlinks) := by
  simp [enterable, Cfg.ofFlags]

/-- Without SYMLINKS the result does not depend on what directory links point to (so a link to an
    ancestor cannot make the walk loop): termination is structural on the real tree. -/
theorem C14_nolinks_indep (o : Oracle) (cfg : Cfg) (hsl : cfg.symlinks = false) (t : Tree) :
    run o cfg Hooks.default (eraseLinks t) = run o cfg Hooks.default t :=
  run_eraseLinks o Hooks.default hsl t

/-! ### tie to the source: generated facts about `_parse_flags` / `_compile_wildcard` -/

/-- `_parse_flags` forces exactly NEGATE | DOTMATCH | NEGATEALL | SPLIT (read from the ast) -/
theorem C14_forced_flags :
    Gen.wcmForcedFlags = (Gen.FNEGATE ||| Gen.FDOTMATCH ||| Gen.FNEGATEALL ||| Gen.FSPLIT) := by decide

/-- the path modes add exactly PATHNAME | _ANCHOR, and MATCHBASE only when the user asked for it -/
theorem C14_pathname_flags :
    Gen.wcmPathnameFlags = (Gen.FPATHNAME ||| Gen.F_ANCHOR) ∧
    Gen.wcmMatchbaseRule = ["self.matchbase", "MATCHBASE"] ∧
    Gen.wcmParseMasks = ["_wcparse.FLAG_MASK ^ MATCHBASE"] := by decide

/-- which public flag feeds which switch of the walk, and `os.walk(followlinks=self.follow_links)` -/
theorem C14_field_flags :
    Gen.wcmFieldFlags = [("follow_links", "SYMLINKS"), ("show_hidden", "HIDDEN"), ("recursive", "RECURSIVE"),
      ("dir_pathname", "DIRPATHNAME"), ("file_pathname", "FILEPATHNAME"), ("matchbase", "MATCHBASE")] ∧
    Gen.wcmWalkFollowlinks = true ∧ Gen.wcmPollSites = 4 := by decide

/-- the five walk flags are distinct bits inside the public mask, and `Cfg.ofFlags` reads them -/
theorem C14_flag_bits :
    (Cfg.ofFlags Gen.wcmRECURSIVE false false (fun _ => .ret false) (fun _ => .ret false)).recursive = true ∧
    (Cfg.ofFlags Gen.wcmHIDDEN false false (fun _ => .ret false) (fun _ => .ret false)).hidden = true ∧
    (Cfg.ofFlags Gen.wcmSYMLINKS false false (fun _ => .ret false) (fun _ => .ret false)).symlinks = true ∧
    (Cfg.ofFlags Gen.wcmFILEPATHNAME false false (fun _ => .ret false) (fun _ => .ret false)).filePathname = true ∧
    (Cfg.ofFlags Gen.wcmDIRPATHNAME false false (fun _ => .ret false) (fun _ => .ret false)).dirPathname = true ∧
    (Cfg.ofFlags (Gen.wcmRECURSIVE ||| Gen.wcmHIDDEN) false false (fun _ => .ret false) (fun _ => .ret false)).symlinks = false := by
  decide

/-! ### non-vacuity: a concrete tree, evaluated by the kernel -/

/-- root: `a`, `.h`, `d/` (x, `.hid`), `lnk -> …/` (y), `skip/` (z), `dang` -/
def demoTree : Tree :=
  .cons "a".toList .file .nil <|
  .cons ".h".toList .file .nil <|
  .cons "d".toList .dir (.cons "x".toList .file .nil (.cons ".hid".toList .file .nil .nil)) <|
  .cons "lnk".toList .linkDir (.cons "y".toList .file .nil .nil) <|
  .cons "skip".toList .dir (.cons "z".toList .file .nil .nil) <|
  .cons "dang".toList .dangling .nil .nil

def demoCfg (symlinks hidden : Bool) : Cfg :=
  { recursive := true, hidden := hidden, symlinks := symlinks, filePathname := false, dirPathname := false,
    hasExclude := true, fileDec := fun p => .ret (p != ["dang".toList]),
    dirExcl := fun p => .ret (p == ["skip".toList]) }

example : (demoCfg true false).NoRaise := ⟨fun _ h => (by cases h), fun _ h => (by cases h)⟩

example : demoTree.WF := by
  simp [demoTree, Tree.WF, names]

/-- witness: hidden file and hidden entry dropped, excluded directory pruned, link not followed -/
theorem demo_nolinks :
    results (run (fun _ => false) (demoCfg false false) Hooks.default demoTree)
      = [["a".toList], ["d".toList, "x".toList]] ∧
    skippedOf (run (fun _ => false) (demoCfg false false) Hooks.default demoTree) = 3 := by
  decide +kernel

/-- witness: SYMLINKS and HIDDEN change the result as the specification says -/
theorem demo_links_hidden :
    results (run (fun _ => false) (demoCfg true true) Hooks.default demoTree)
      = [["a".toList], [".h".toList], ["d".toList, "x".toList], ["d".toList, ".hid".toList],
         ["lnk".toList, "y".toList]] ∧
    specResults (demoCfg true true) demoTree
      = [["a".toList], [".h".toList], ["d".toList, "x".toList], ["d".toList, ".hid".toList],
         ["lnk".toList, "y".toList]] := by
  decide +kernel

end WcModel.C14

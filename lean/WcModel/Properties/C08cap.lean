import WcModel.Properties.C04cap
import WcModel.Properties.C08all
/-
  C08, third clause — "outside negated groups it captures the text consumed by the whole group".

  For EVERY pattern string and every configuration (translate mode included), with the real drive
  scanner: whatever `re.fullmatch` reports for the regex the faithful port of `WcParse` returns
  (`Re.fullmatchCap`, the back-tracking matcher in Python's priority order, proved sound and complete
  against `Re.M` in `Proofs/RegexCap.lean`) has one entry per capturing group, and every reported
  span `(st, en)` of group `i + 1` satisfies `st ≤ en ≤ |s|` and is a piece of the subject on which the
  BODY of that group (`Re.groupAt`: the regex between the parentheses of the `(i+1)`-th capturing group
  in order of opening) matches in place, in the mode in effect at the group.  Together with
  `translate_capture_exact` (the capturing groups of the translate regex are exactly the extended
  groups of the pattern, one each) this is the clause: the group captures text that the whole
  extended group consumed.  (Inside `!(…)` the group sits in a look-ahead; `runCap` drops captures made
  inside look-aheads exactly as `sre` does, so nothing is claimed there.)
-/
namespace WcModel.C08

open WcModel.C04cap

/-- **C08_capture_text** -/
theorem translate_capture_text (cfg : Cfg) (p : List Char) (parsed : Parsed) (r : Re)
    (h : parseItems cfg (winDrive cfg) p = .ok parsed) (hr : parsed.toRe = some r)
    (s : List Char) (spans : List (Option (Nat × Nat))) (hm : r.fullmatchCap s = some spans) :
    spans.length = r.ncaps ∧
    ∀ i st en, spans[i]? = some (some (st, en)) →
      st ≤ en ∧ en ≤ s.length ∧
      ∃ md' r', r.groupAt ⟨false, false⟩ 0 (i + 1) = some (md', r') ∧
        Re.M md' r' ⟨decide (st = 0), s.drop st⟩ ⟨decide (en = 0), s.drop en⟩ :=
  Re.fullmatchCap_spans r s (parse_repOK cfg p parsed r h hr) spans hm

/-- … and a match is reported exactly when the regex fully matches (so the spans exist for every accepted name) -/
theorem translate_capture_reported (cfg : Cfg) (p : List Char) (parsed : Parsed) (r : Re)
    (h : parseItems cfg (winDrive cfg) p = .ok parsed) (hr : parsed.toRe = some r) (s : List Char) :
    (r.fullmatchCap s).isSome = true ↔ r.FullMatch s :=
  Re.fullmatchCap_isSome_iff r s (parse_repOK cfg p parsed r h hr)

end WcModel.C08

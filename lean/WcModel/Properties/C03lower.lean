import WcModel.Proofs.HiddenLower
import WcModel.Proofs.HiddenLowerPath
import WcModel.Proofs.HiddenLowerScan
import WcModel.Proofs.HiddenLowerRead
import WcModel.Properties.C01read
import WcModel.Properties.C02read
import WcModel.Properties.C02negfaithful
import WcModel.Properties.C03faithful
/-
  C03 — LOWER bound ("whenever the dot can be consumed by a written `.` with no wildcard standing
  at that position the match is granted").

  (1) fnmatch mode, FAITHFUL port, every accepted spelling: `C03_lower_faithful`.
      For every string `p` the strict reader accepts (`parsePat true p = some g`, `g` in C01's scope)
      whose first token is a written character — in particular a written `.`, spelled `.` or `\.` —
      the regex the faithful port produces accepts a name `s` exactly when `g.Lang ci s`:
      for EVERY `s` (hidden, empty, …), DOTMATCH on or off, str or bytes, both case modes.
      Compared with `C01_read`, three hypotheses are GONE (`s ≠ []`, `dot ∨ s.head? ≠ '.'`, and the
      D1 hypothesis `startSafe`): literal text at the start carries no guard.  Only D3 is left.

  (2) path mode: THE SANDWICH FOR WHOLE PATTERNS, hidden pieces allowed in the subject.
      The C02 theorems (`C02path_glob`, `C02_read_glob`, …) carry `hvis : every piece of s is visible`;
      here that hypothesis is gone.  For every path pattern `pp`, EVERY subject `s`:

          pathLangR ctx .must pp s = true  →  r.FullMatch s  →  pathLangR ctx .may pp s = true

      * tidy compiler `compPath` : `C03_path_must`, `C03_path_may` (Proofs/HiddenLower{Spec,Seg,Glob,Gstar,Path}.lean);
      * FAITHFUL port, every accepted spelling (through `PRP.pass_read_path`): `C03_read_must`,
        `C03_read_may`, `C03_read_sandwich`; executable form `C03_read_code_sandwich`.
      Scope (each hypothesis carries a `decide +kernel` witness that it is forced):
        lower bound: segments negation-free, no `/`, `startSafe false` (D1p) — `Seg.mustScope`; `Pat.solid`
                     is NOT needed; the newline hypothesis (D3) only under DOTGLOB;
        upper bound: `Seg.scope` (as `C02path_glob`) plus `Pat.hiddenSafe` (a syntactic scan of the segment
                     pattern, Proofs/HiddenLowerSeg.lean).  It holds whenever the first token is not a
                     group (D5, `C03.flatHead`) and `d4Trigger` is off (`mayScope_of_triggers`), and — the
                     triggers being over-approximations — also for a first group whose alternatives all
                     begin with a written character (`mayScope_beyond_triggers`).  D3 only if the pattern
                     has a globstar; D8 (`**/` vs the empty subject).
      D15 (`!(.)` …) and D6 (MATCHBASE) are outside: segments are negation-free, `ctx.matchbase = false`
      on the faithful side (the tidy theorems do not read `ctx.matchbase` at all).
      On subjects whose pieces are all visible the three rules coincide (`pathLangR_vis`), so the sandwich
      gives back `C02path_glob` (`C02path_glob_again`).
      No finding: on no accepted pattern in scope does the port violate the sandwich (searched
      beforehand by enumeration — 1.9k patterns × 121..364 subjects × {DOTGLOB on, off} — then proved).

  (3) MATCHBASE: the implicit `**/` prefix (`compPathMB`, what the port emits for a slash-less pattern)
      never consumes a hidden piece, and the last piece is matched under the same sandwich:
      `C03_matchbase_must`, `C03_matchbase_may` (tidy), `C03_matchbase_faithful` (faithful port, printed
      slash-less patterns: `PPN.pass_print_matchbase`), `matchbase_rule` (what the two bounds say).
      D6 (the pattern is itself `**`) is outside by construction (`g` is a file-name pattern);
      `D6_outside` is the witness that it has to be.
-/
namespace WcModel.C03L
open PP PR WcModel.C01

/-- tidy compiler: **a pattern of C01's scope whose first token is a written character means its
    documented language on every name** (generalises `C03.C03_lower_fn`) -/
theorem C03_lower_fn_scope (isBytes dot ci : Bool) (g : Pat) (hscope : g.c01Scope = true)
    (hslash : g.noSlash = true) (c : Char) (hhead : g.headTok = some (.lit c)) (s : List Char)
    (hD3 : g.negFree = true ∨ s.getLast? ≠ some '\n') :
    (C01.wrap ci (comp isBytes dot true g)).FullMatch s ↔ g.Lang ci s := by
  rw [wrap_fullmatch]
  unfold Pat.Lang
  constructor
  · rintro ⟨f, h⟩
    exact ⟨f, (HL.comp_headLit_sem isBytes dot ci g hscope hslash c hhead ⟨true, s⟩ ⟨f, []⟩ rfl hD3).mp h⟩
  · rintro ⟨f, h⟩
    exact ⟨f, (HL.comp_headLit_sem isBytes dot ci g hscope hslash c hhead ⟨true, s⟩ ⟨f, []⟩ rfl hD3).mpr h⟩

/-- **C03 lower bound on the faithful port, fnmatch mode, every accepted spelling.**
    `p` is read by the strict reader as `g`; the first token of `g` is a written `.`; then the
    regex of the faithful port accepts `s` iff `s` is in the documented language of `g` — the match
    on a hidden name is granted (and a non-match is refused) exactly as documented. -/
theorem C03_lower_faithful (cfg : Cfg) (h : FnX cfg) (hg0 : cfg.globstar0 = false) (drive : List Char → DriveInfo)
    (p : List Char) (g : Pat)
    (hread : Grammar.parsePat true p = some g)  -- the strict reader accepts `p` and reads it as `g`
    (hscope : g.c01Scope = true)                -- `!(…)` negation-free, followed only by literal text
    (hslash : g.noSlash = true)                 -- `/` has no meaning in a file-name pattern
    (hhead : g.headTok = some (.lit '.'))       -- the first token is a written `.` (`.` or `\.`)
    (s : List Char)                             -- ANY name: hidden or not, even empty
    (hD3 : g.negFree = true ∨ s.getLast? ≠ some '\n') :     -- `$` before a final newline (D3)
    ∃ parsed r, parseItems cfg drive p = .ok parsed ∧ parsed.toRe = some r ∧
      (r.FullMatch s ↔ g.Lang (!cfg.caseSensitive) s) := by
  obtain ⟨parsed, r, h1, h2, h3⟩ := pass_read cfg h hg0 drive p g hread hscope
  exact ⟨parsed, r, h1, h2, (h3.fullMatch s).trans
    (C03_lower_fn_scope cfg.isBytes cfg.dot (!cfg.caseSensitive) g hscope hslash '.' hhead s hD3)⟩

/-- the same for any written first character (the dot plays no special role in the proof) -/
theorem C03_lower_faithful_lit (cfg : Cfg) (h : FnX cfg) (hg0 : cfg.globstar0 = false) (drive : List Char → DriveInfo)
    (p : List Char) (g : Pat) (hread : Grammar.parsePat true p = some g) (hscope : g.c01Scope = true)
    (hslash : g.noSlash = true) (c : Char) (hhead : g.headTok = some (.lit c)) (s : List Char)
    (hD3 : g.negFree = true ∨ s.getLast? ≠ some '\n') :
    ∃ parsed r, parseItems cfg drive p = .ok parsed ∧ parsed.toRe = some r ∧
      (r.FullMatch s ↔ g.Lang (!cfg.caseSensitive) s) := by
  obtain ⟨parsed, r, h1, h2, h3⟩ := pass_read cfg h hg0 drive p g hread hscope
  exact ⟨parsed, r, h1, h2, (h3.fullMatch s).trans
    (C03_lower_fn_scope cfg.isBytes cfg.dot (!cfg.caseSensitive) g hscope hslash c hhead s hD3)⟩

/-- the same with the hypothesis on the pattern TEXT (the condition `C03_upper_faithful` concludes):
    the pattern begins with `.` or `\\.` — then the strict reader's `g` begins with the written dot
    (`HL.headTok_of_firstTokIsDot`).  Upper and lower bound meet: for an accepted pattern in scope, a
    hidden name is matched only if the text begins with a written dot (or a group: D5), and if it
    does, matching is exactly the documented language. -/
theorem C03_lower_faithful_text (cfg : Cfg) (h : FnX cfg) (hg0 : cfg.globstar0 = false) (drive : List Char → DriveInfo)
    (p : List Char) (g : Pat) (hread : Grammar.parsePat true p = some g) (hscope : g.c01Scope = true)
    (hslash : g.noSlash = true)
    (hdot : C03F.FirstTokIsDot p)               -- the pattern text begins with `.` or `\\.`
    (s : List Char) (hD3 : g.negFree = true ∨ s.getLast? ≠ some '\n') :
    ∃ parsed r, parseItems cfg drive p = .ok parsed ∧ parsed.toRe = some r ∧
      (r.FullMatch s ↔ g.Lang (!cfg.caseSensitive) s) :=
  C03_lower_faithful cfg h hg0 drive p g hread hscope hslash (HL.headTok_of_firstTokIsDot p g hread hdot) s hD3

/-- **executable form**: code (faithful port) = specification (strict reader + documented language)
    on every name, for every accepted pattern that begins with a written `.` -/
theorem C03_lower_faithful_spec (dot : Bool) (p : List Char) (g : Pat) (hread : Grammar.parsePat true p = some g)
    (hscope : g.c01Scope = true) (hslash : g.noSlash = true) (hhead : g.headTok = some (.lit '.'))
    (s : List Char) (hD3 : g.negFree = true ∨ s.getLast? ≠ some '\n') :
    codeMatchL dot p s = specMatchL p s := by
  have hc : (!(Cfg.ofFlags false (Flags.ofNat (fnFlags dot))).caseSensitive) = false := by cases dot <;> decide
  obtain ⟨parsed, r, h1, h2, h3⟩ := C03_lower_faithful _ (fnX_ofFlags false dot) (ofFlags_globstar0 false dot)
    (fun _ => default) p g hread hscope hslash hhead s hD3
  rw [hc] at h3
  have hcode : codeMatchL dot p s = true ↔ g.Lang false s := by
    unfold codeMatchL
    simp only [h1, h2]
    exact (Re.fullmatch_iff r s).trans h3
  have hspec : specMatchL p s = true ↔ g.Lang false s := by
    unfold specMatchL
    rw [hread]
    exact oracle_is_spec false g s
  cases hc : codeMatchL dot p s <;> cases hs : specMatchL p s <;> simp_all

/-! ### non-vacuity (fnmatch mode) -/

/-- `\.a*[!x]+(?|y)!(d|e*).t` — an escaped dot first, then wildcards, a repeated group whose body has
    a wildcard at its start (outside `startSafe`-free reasoning: here it is NOT at the start), `!(…)`
    with a literal tail -/
def pDot : List Char := "\\.a*[!x]+(?|y)!(d|e*).t".toList

def gDot : Pat :=
  .seq (.lit '.') (.seq (.lit 'a') (.seq .star (.seq (.cls true [.chr 'x'])
    (.seq (.ext .plus (.alt .any (.lit 'y')))
    (.seq (.ext .neg (.alt (.lit 'd') (.seq (.lit 'e') .star))) (.seq (.lit '.') (.lit 't')))))))

/-- the strict reader accepts `pDot` as `gDot`; every hypothesis of `C03_lower_faithful` holds; the
    hidden name `.abcyq.t` is granted by code and specification, the hidden name `.axxd.t` is refused
    by both; `.*` grants `.a`, `*` refuses it -/
theorem lower_nonvacuous :
    Grammar.parsePat true pDot = some gDot ∧
    (gDot.c01Scope && gDot.noSlash) = true ∧ gDot.headTok = some (.lit '.') ∧
    codeMatchL false pDot ".abcyq.t".toList = true ∧ gDot.langB false ".abcyq.t".toList = true ∧
    codeMatchL false pDot ".axxd.t".toList = false ∧ gDot.langB false ".axxd.t".toList = false ∧
    codeMatchL false ".*".toList ".a".toList = true ∧ codeMatchL false "*".toList ".a".toList = false := by
  decide +kernel

example (s : List Char) (hD3 : s.getLast? ≠ some '\n') : codeMatchL false pDot s = specMatchL pDot s :=
  C03_lower_faithful_spec false pDot gDot lower_nonvacuous.1 (by decide +kernel) (by decide +kernel)
    lower_nonvacuous.2.2.1 s (Or.inr hD3)

/-- D3 is still forced (it lives in the look-ahead of `!(…)`, not at the start): `.!(a)` vs `.a⏎` -/
theorem lower_D3_needed :
    specMatchL ".!(a)".toList ".a\n".toList = true ∧ codeMatchL false ".!(a)".toList ".a\n".toList = false := by
  decide +kernel

/-- D1 is NOT forced here: `.+(?)` is outside `startSafe`-style reasoning only at the start; after
    a written dot the repeated group is compiled without guards and matches `.a.b` -/
theorem lower_D1_not_needed :
    specMatchL ".+(?)".toList ".a.b".toList = true ∧ codeMatchL false ".+(?)".toList ".a.b".toList = true := by
  decide +kernel

/-! ## (2) path mode: the sandwich for whole patterns -/

open WcModel.HL WcModel.C02path PPP PRP

/-- **C03 lower bound, whole path patterns, tidy compiler**: what the specification admits under
    the rule `.must` (a hidden piece is matched whenever the segment pattern's first token is a written
    dot and the rest matches), the compiled pattern matches — EVERY subject, hidden pieces allowed. -/
theorem C03_path_must (ctx : PCtx) (pp : PathPat)
    (hsegs : pp.segs.all Seg.mustScope = true)             -- negation-free, no `/`, D1p-safe
    (hgg : noGG pp.segs = true) (hwf : pp.segs = [] → pp.abs = true)
    (s : List Char)                                        -- ANY subject
    (hD3 : ctx.dot = false ∨ s.getLast? ≠ some '\n')       -- `$` in `_NO_DIR` (D3): only under DOTGLOB
    (h : pathLangR ctx .must pp s = true) :
    (wrapRe ctx.ci (compPath ctx.dot pp)).FullMatch s :=
  compPath_must ctx pp hsegs hgg hwf s hD3 h

/-- **C03 upper bound, whole path patterns, tidy compiler**: whatever the compiled pattern matches,
    the specification admits under the rule `.may` (a leading dot of a piece — and `.`/`..` whatever
    DOTGLOB says — is never consumed by `*`, `?`, a bracket or `**`) — EVERY subject. -/
theorem C03_path_may (ctx : PCtx) (pp : PathPat)
    (hsegs : pp.segs.all Seg.mayScope = true)              -- `Seg.scope` ∧ `hiddenSafe` (D4, D5)
    (hgg : noGG pp.segs = true) (hwf : pp.segs = [] → pp.abs = true)
    (s : List Char)                                        -- ANY subject
    (hD3 : (∀ sg ∈ pp.segs, sg ≠ Seg.glob) ∨ s.getLast? ≠ some '\n')   -- `$` in `_GLOBSTAR_DIV` (D3)
    (hD8 : pp.segs = [.glob] → pp.abs = false → pp.trailing = true → s ≠ [])  -- `**/` vs the empty subject
    (h : (wrapRe ctx.ci (compPath ctx.dot pp)).FullMatch s) :
    pathLangR ctx .may pp s = true :=
  compPath_may ctx pp hsegs hgg hwf s hD3 hD8 h

/-- the scope of the upper bound contains every `Seg.scope` segment on which neither recorded
    trigger fires: first token not a group (D5, `C03.flatHead`), no D4 trigger -/
theorem mayScope_of_triggers (g : Pat) (hg : g.segScope = true) (h5 : C03.flatHead g = true)
    (h4 : g.d4Trigger = false) : (Seg.pat g).mayScope = true := by
  simp only [Seg.mayScope, Bool.and_eq_true]
  exact ⟨hg, hiddenSafe_of_triggers g h5 h4⟩

/-- … and, the triggers being over-approximations, it contains more: a first group all of whose
    alternatives begin with a written character (`@(.git|.hg)`, `+(.)x`), an optional such group
    followed by written text (`?(a).b`), a first `*` followed by such a group (`*@(.a)b`) -/
theorem mayScope_beyond_triggers :
    (["@(.git|.hg)", "+(.)x", "?(a).b", "*@(.a)b"].all fun p =>
      match Grammar.parsePat true p.toList with
      | some g => (Seg.pat g).mayScope && (g.d5Trigger || g.d4Trigger)
      | none => false) = true := by decide +kernel

theorem mayScope_mustScope {segs : List Seg} (h : segs.all Seg.mayScope = true) : segs.all Seg.mustScope = true := by
  rw [List.all_eq_true] at h ⊢
  intro sg hs
  have := h sg hs
  cases sg with
  | glob => rfl
  | pat g =>
    simp only [Seg.mayScope, Pat.segScope, Bool.and_eq_true] at this
    simp only [Seg.mustScope, Pat.mustScope, Bool.and_eq_true]
    exact this.1.1

theorem scope_mustScope {segs : List Seg} (h : segs.all Seg.scope = true) : segs.all Seg.mustScope = true := by
  rw [List.all_eq_true] at h ⊢
  exact fun sg hs => Seg.mustScope_of_scope (h sg hs)

theorem mustScope_negFree {segs : List Seg} (h : segs.all Seg.mustScope = true) :
    ∀ gp, Seg.pat gp ∈ segs → gp.negFree = true := by
  intro gp hg
  have := List.all_eq_true.mp h _ hg
  simp only [Seg.mustScope, Pat.mustScope, Bool.and_eq_true] at this
  exact this.1.1

/-! ### on visible subjects the three rules coincide: the sandwich contains C02 -/

theorem segsMatch_vis (ctx : PCtx) (rl : DotRule) : ∀ (segs : List Seg) (xs : List (List Char)) (pt ptr as : Bool),
    (∀ x ∈ xs, visible ctx.dot x = true) →
    segsMatch ctx rl segs xs pt ptr as = segsMatch ctx .free segs xs pt ptr as := by
  intro segs
  induction segs with
  | nil => intro xs pt ptr as _; simp [segsMatch]
  | cons sg rest ih =>
    intro xs pt ptr as hv
    cases sg with
    | pat g =>
      cases xs with
      | nil => simp [segsMatch]
      | cons x xs =>
        rw [segsMatch_pat_cons, segsMatch_pat_cons, segMatch_vis ctx rl g x (hv x List.mem_cons_self),
          segMatch_vis ctx .free g x (hv x List.mem_cons_self),
          ih xs pt ptr true (fun y hy => hv y (List.mem_cons_of_mem _ hy))]
    | glob =>
      cases rest with
      | nil => rw [segsMatch_glob_last, segsMatch_glob_last]
      | cons s2 ss =>
        rw [segsMatch_glob_cons, segsMatch_glob_cons]
        congr 1
        funext k
        rw [ih (xs.drop k) pt ptr true (fun y hy => hv y (List.mem_of_mem_drop hy))]

/-- on a subject all of whose pieces are visible, `.must`, `.may` and `.free` say the same -/
theorem pathLangR_vis (ctx : PCtx) (rl : DotRule) (pp : PathPat) (s : List Char)
    (hvis : ∀ q ∈ pieces s, visible ctx.dot q = true) :
    pathLangR ctx rl pp s = pathLangR ctx .free pp s := by
  unfold pathLangR
  simp only
  rw [segsMatch_vis ctx rl pp.segs _ _ _ _ (by simpa [pieces] using hvis)]

/-- `C02path_glob` (for the patterns in the scope of the upper bound) is the sandwich on a visible subject -/
theorem C02path_glob_again (ctx : PCtx) (pp : PathPat) (hsegs : pp.segs.all Seg.mayScope = true)
    (hgg : noGG pp.segs = true) (hwf : pp.segs = [] → pp.abs = true) (s : List Char)
    (hvis : ∀ p ∈ pieces s, visible ctx.dot p = true) (hD3 : s.getLast? ≠ some '\n')
    (hD8 : pp.segs = [.glob] → pp.abs = false → pp.trailing = true → s ≠ []) :
    (wrapRe ctx.ci (compPath ctx.dot pp)).FullMatch s ↔ pathLangR ctx .free pp s = true := by
  constructor
  · intro h
    rw [← pathLangR_vis ctx .may pp s hvis]
    exact C03_path_may ctx pp hsegs hgg hwf s (Or.inr hD3) hD8 h
  · intro h
    rw [← pathLangR_vis ctx .must pp s hvis] at h
    exact C03_path_must ctx pp (mayScope_mustScope hsegs) hgg hwf s (Or.inr hD3) h

/-! ### the faithful port, every accepted spelling -/

/-- **C03 lower bound on the faithful port, path mode, every accepted spelling** -/
theorem C03_read_must (cfg : Cfg) (h : PathX cfg) (drive : List Char → DriveInfo) (ctx : PCtx)
    (hext : ctx.ext = true) (hmb : ctx.matchbase = false)
    (hgs : (ctx.globstar || ctx.globstarlong) = cfg.globstar0) (hgl : ctx.globstarlong = cfg.globstarlong)
    (hdot : ctx.dot = cfg.dot) (hci : ctx.ci = !cfg.caseSensitive)
    (p : List Char) (pp : PathPat)
    (hread : parsePath ctx p = some pp)                    -- the strict path reader accepts `p` as `pp`
    (hsegs : pp.segs.all Seg.mustScope = true)
    (s : List Char)                                        -- ANY subject
    (hD3 : ctx.dot = false ∨ s.getLast? ≠ some '\n') :
    ∃ parsed r, parseItems cfg drive p = .ok parsed ∧ parsed.toRe = some r ∧
      (pathLangR ctx .must pp s = true → r.FullMatch s) := by
  obtain ⟨parsed, r, h1, h2, h3⟩ := pass_read_path cfg h drive ctx hext hmb hgs hgl p pp hread
    (mustScope_negFree hsegs)
  refine ⟨parsed, r, h1, h2, fun hm => (h3.fullMatch s).mpr ?_⟩
  rw [← hdot, ← hci]
  exact C03_path_must ctx pp hsegs (parsePath_noGG ctx hmb p pp hread) (parsePath_wf ctx hmb p pp hread) s hD3 hm

/-- **C03 upper bound on the faithful port, path mode, every accepted spelling** -/
theorem C03_read_may (cfg : Cfg) (h : PathX cfg) (drive : List Char → DriveInfo) (ctx : PCtx)
    (hext : ctx.ext = true) (hmb : ctx.matchbase = false)
    (hgs : (ctx.globstar || ctx.globstarlong) = cfg.globstar0) (hgl : ctx.globstarlong = cfg.globstarlong)
    (hdot : ctx.dot = cfg.dot) (hci : ctx.ci = !cfg.caseSensitive)
    (p : List Char) (pp : PathPat)
    (hread : parsePath ctx p = some pp)
    (hsegs : pp.segs.all Seg.mayScope = true)
    (s : List Char)                                        -- ANY subject
    (hD3 : (∀ sg ∈ pp.segs, sg ≠ Seg.glob) ∨ s.getLast? ≠ some '\n')
    (hD8 : pp.segs = [.glob] → pp.abs = false → pp.trailing = true → s ≠ []) :
    ∃ parsed r, parseItems cfg drive p = .ok parsed ∧ parsed.toRe = some r ∧
      (r.FullMatch s → pathLangR ctx .may pp s = true) := by
  obtain ⟨parsed, r, h1, h2, h3⟩ := pass_read_path cfg h drive ctx hext hmb hgs hgl p pp hread
    (mustScope_negFree (mayScope_mustScope hsegs))
  refine ⟨parsed, r, h1, h2, fun hm => ?_⟩
  have := (h3.fullMatch s).mp hm
  rw [← hdot, ← hci] at this
  exact C03_path_may ctx pp hsegs (parsePath_noGG ctx hmb p pp hread) (parsePath_wf ctx hmb p pp hread) s hD3 hD8 this

/-- **the C03 sandwich on the faithful port**: `Must ⊆ globmatch ⊆ May`, for every accepted
    spelling in scope and EVERY subject -/
theorem C03_read_sandwich (cfg : Cfg) (h : PathX cfg) (drive : List Char → DriveInfo) (ctx : PCtx)
    (hext : ctx.ext = true) (hmb : ctx.matchbase = false)
    (hgs : (ctx.globstar || ctx.globstarlong) = cfg.globstar0) (hgl : ctx.globstarlong = cfg.globstarlong)
    (hdot : ctx.dot = cfg.dot) (hci : ctx.ci = !cfg.caseSensitive)
    (p : List Char) (pp : PathPat) (hread : parsePath ctx p = some pp)
    (hsegs : pp.segs.all Seg.mayScope = true) (s : List Char)
    (hD3 : s.getLast? ≠ some '\n')
    (hD8 : pp.segs = [.glob] → pp.abs = false → pp.trailing = true → s ≠ []) :
    ∃ parsed r, parseItems cfg drive p = .ok parsed ∧ parsed.toRe = some r ∧
      (pathLangR ctx .must pp s = true → r.FullMatch s) ∧
      (r.FullMatch s → pathLangR ctx .may pp s = true) := by
  obtain ⟨parsed, r, h1, h2, h3⟩ := C03_read_must cfg h drive ctx hext hmb hgs hgl hdot hci p pp hread
    (mayScope_mustScope hsegs) s (Or.inr hD3)
  obtain ⟨parsed', r', h1', h2', h3'⟩ := C03_read_may cfg h drive ctx hext hmb hgs hgl hdot hci p pp hread
    hsegs s (Or.inr hD3) hD8
  rw [h1] at h1'
  injection h1' with hp
  subst hp
  rw [h2] at h2'
  injection h2' with hr
  subst hr
  exact ⟨parsed, r, h1, h2, h3, h3'⟩

/-- **executable form** (what the driver and the harness run): for every accepted pattern in scope,
    `Must ≤ code ≤ May` on every subject -/
theorem C03_read_code_sandwich (dot gs : Bool) (p : List Char) (pp : PathPat)
    (hread : parsePath (PathTidy.ctxOf dot true gs) p = some pp)
    (hsegs : pp.segs.all Seg.mayScope = true) (s : List Char) (hD3 : s.getLast? ≠ some '\n')
    (hD8 : pp.segs = [.glob] → pp.abs = false → pp.trailing = true → s ≠ []) :
    (pathLangR (PathTidy.ctxOf dot true gs) .must pp s = true → C02path.codeMatchL dot gs p s = true) ∧
    (C02path.codeMatchL dot gs p s = true → pathLangR (PathTidy.ctxOf dot true gs) .may pp s = true) := by
  obtain ⟨r, h1, h2⟩ := faithful_read dot gs p pp hread (mustScope_negFree (mayScope_mustScope hsegs))
  have hc : C02path.codeMatchL dot gs p s = true ↔ (wrapRe false (compPath dot pp)).FullMatch s := by
    unfold C02path.codeMatchL
    simp only [h1]
    exact (Re.fullmatch_iff r s).trans (h2.fullMatch s)
  have hgg := parsePath_noGG _ rfl p pp hread
  have hwf := parsePath_wf _ rfl p pp hread
  exact ⟨fun hm => hc.mpr (C03_path_must (PathTidy.ctxOf dot true gs) pp (mayScope_mustScope hsegs) hgg hwf s
            (Or.inr hD3) hm),
         fun hcm => C03_path_may (PathTidy.ctxOf dot true gs) pp hsegs hgg hwf s (Or.inr hD3) hD8 (hc.mp hcm)⟩

/-! ### non-vacuity, with hidden pieces on both sides -/

/-- one line of verdicts: (must, tidy, code, may) for pattern `p` on subject `s` under
    PATHNAME|EXTGLOB(+DOTGLOB)(+GLOBSTAR) -/
def verdicts (dot gs : Bool) (p s : String) : Option (Bool × Bool × Bool × Bool) :=
  let ctx := PathTidy.ctxOf dot true gs
  (parsePath ctx p.toList).map fun pp =>
    (pathLangR ctx .must pp s.toList, (wrapRe false (compPath dot pp)).fullmatch s.toList,
     C02path.codeMatchL dot gs p.toList s.toList, pathLangR ctx .may pp s.toList)

def inMayScope (dot gs : Bool) (p : String) : Bool :=
  match parsePath (PathTidy.ctxOf dot true gs) p.toList with
  | some pp => pp.segs.all Seg.mayScope
  | none => false

def inMustScope (dot gs : Bool) (p : String) : Bool :=
  match parsePath (PathTidy.ctxOf dot true gs) p.toList with
  | some pp => pp.segs.all Seg.mustScope
  | none => false

/-- a GRANTED match with a hidden piece (`.a/b` for `.a/*`), a REFUSED one (`.a/b` for `*/b`: the
    rule `.free` would accept), the gap between the bounds (`*.a` vs `.a`: must refuses, the code
    accepts, may accepts), a globstar that stops in front of a hidden directory, `.`/`..` under
    DOTGLOB (`.*` is granted `..`; `*` is refused it), hidden directories named by a group
    (`**/@(.git|.hg)/?(x).c*`) — all patterns in the scope of both theorems -/
theorem sandwich_nonvacuous :
    ((["*/b", ".a/*", "*.a", "**/.h/*.c", "\\.[a-c]*/**/.x?", "**/@(.git|.hg)/?(x).c*"].all (inMayScope false true)) &&
     (verdicts false true "**/@(.git|.hg)/?(x).c*" "a/.git/x.cfg" == some (true, true, true, true)) &&
     (verdicts false true "**/@(.git|.hg)/?(x).c*" "a/.git/.cfg" == some (false, true, true, true)) &&
     (verdicts false true "**/@(.git|.hg)/?(x).c*" ".a/.git/.cfg" == some (false, false, false, false)) &&
     (verdicts false true ".a/*" ".a/b" == some (true, true, true, true)) &&
     (verdicts false true "*/b" ".a/b" == some (false, false, false, false)) &&
     (verdicts false true "*.a" ".a" == some (false, true, true, true)) &&
     (verdicts false true "**/.h/*.c" "x/y/.h/m.c" == some (true, true, true, true)) &&
     (verdicts false true "**/.h/*.c" "x/.y/.h/m.c" == some (false, false, false, false)) &&
     (verdicts false true "\\.[a-c]*/**/.x?" ".bq//m/n/.xz/" == some (true, true, true, true)) &&
     (verdicts false true "\\.[a-c]*/**/.x?" ".bq//m/.n/.xz/" == some (false, false, false, false)) &&
     (verdicts true true ".*" ".." == some (true, true, true, true)) &&
     (verdicts true true "*" ".." == some (false, false, false, false)) &&
     (verdicts true true "*/.." "a/.." == some (true, true, true, true))) = true := by
  decide +kernel

/-- the theorems apply to `**/.h/*.c` (read by the strict reader; three segments, one a globstar) -/
example (s : List Char) (hD3 : s.getLast? ≠ some '\n') :
    ∃ pp, parsePath (PathTidy.ctxOf false true true) "**/.h/*.c".toList = some pp ∧
      (pathLangR (PathTidy.ctxOf false true true) .must pp s = true → C02path.codeMatchL false true "**/.h/*.c".toList s = true) ∧
      (C02path.codeMatchL false true "**/.h/*.c".toList s = true → pathLangR (PathTidy.ctxOf false true true) .may pp s = true) := by
  cases hr : parsePath (PathTidy.ctxOf false true true) "**/.h/*.c".toList with
  | none =>
    have : (parsePath (PathTidy.ctxOf false true true) "**/.h/*.c".toList).isSome = true := by decide +kernel
    rw [hr] at this; cases this
  | some pp =>
    have hsc : ((parsePath (PathTidy.ctxOf false true true) "**/.h/*.c".toList).map fun q =>
        q.segs.all Seg.mayScope && !(q.segs == [.glob])) = some true := by decide +kernel
    rw [hr] at hsc
    simp only [Option.map_some, Option.some.injEq, Bool.and_eq_true, Bool.not_eq_eq_eq_not, Bool.not_true] at hsc
    exact ⟨pp, rfl, C03_read_code_sandwich false true _ pp hr hsc.1 s hD3 (fun e => by rw [e] at hsc; simp at hsc)⟩

/-! ### every hypothesis is forced -/

/-- D4: a segment-initial `*` followed by a wildcard un-guards it: `*?a` matches `.a`; in `Seg.scope`,
    excluded by `hiddenSafe` only -/
theorem D4_forced :
    verdicts false true "*?a" ".a" = some (false, true, true, false) ∧
    inMustScope false true "*?a" = true ∧ inMayScope false true "*?a" = false ∧
    (match Grammar.parsePat true "*?a".toList with
     | some g => g.segScope && g.d4Trigger && C03.flatHead g | none => false) = true := by decide +kernel

/-- D5: a group as the first token resets the start state: `?(x)*a` matches `.a`; in `Seg.scope`,
    excluded by `hiddenSafe` only -/
theorem D5_forced :
    verdicts false true "?(x)*a" ".a" = some (false, true, true, false) ∧
    inMustScope false true "?(x)*a" = true ∧ inMayScope false true "?(x)*a" = false ∧
    (match Grammar.parsePat true "?(x)*a".toList with
     | some g => g.segScope && g.d5Trigger && !g.d4Trigger | none => false) = true := by decide +kernel

/-- D8 (upper bound): `**/` matches the empty subject -/
theorem D8_forced : verdicts false true "**/" "" = some (false, true, true, false) ∧
    inMayScope false true "**/" = true := by decide +kernel

/-- D3 (upper bound, patterns with a globstar): `$` in the divider accepts before a final newline -/
theorem D3_forced_may : verdicts false true "**/?" "a\n" = some (false, true, true, false) ∧
    inMayScope false true "**/?" = true := by decide +kernel

/-- D3 (lower bound, DOTGLOB only): `$` in `_NO_DIR` — `?*` refuses `.⏎`, a visible piece under DOTGLOB -/
theorem D3_forced_must : verdicts true true "?*" ".\n" = some (true, false, false, true) ∧
    inMustScope true true "?*" = true := by decide +kernel

/-- D1p (lower bound): `+(?)` under DOTGLOB re-tests `_NO_DIR` inside `a.` -/
theorem D1p_forced_must : verdicts true true "+(?)" "a." = some (true, false, false, true) ∧
    inMustScope true true "+(?)" = false := by decide +kernel

/-- `Pat.solid` (upper bound): a segment that can match the empty string matches between two separators -/
theorem solid_forced_may : verdicts false true "x/?(a)/y" "x//y" = some (false, true, true, false) ∧
    inMustScope false true "x/?(a)/y" = true ∧ inMayScope false true "x/?(a)/y" = false := by decide +kernel

/-- … and `Pat.solid` is not needed for the lower bound: the theorem applies to `x/?(a)/y` -/
theorem solid_not_needed_must : verdicts false true "x/?(a)/y" "x/a/y" = some (true, true, true, true) := by
  decide +kernel

/-! ## (3) MATCHBASE: the implicit `**/` prefix -/

open WcModel.C02neg PPN in
/-- what the specification of `**/g` says under a dot rule: the pieces in front of the last one are
    all visible (the implicit prefix never stands for a hidden piece, `.` or `..`), and `g` matches
    the LAST piece under the rule -/
theorem matchbase_rule (ctx : PCtx) (rl : DotRule) (g : Pat) (s : List Char) :
    pathLangR ctx rl ⟨false, [.glob, .pat g], false⟩ s = true ↔
      ∃ init x, pieces s = init ++ [x] ∧ init.all (visible ctx.dot) = true ∧ segMatch ctx rl g x = true := by
  unfold pathLangR
  simp only [Bool.false_eq_true, ite_false, Bool.or_true]
  rw [show (cutAtSlash s).filter (fun p => !p.isEmpty) = pieces s from rfl, segsMatch_glob_cons]
  simp only [decide_true, Bool.true_and]
  rw [List.any_eq_true]
  constructor
  · rintro ⟨k, _, hk⟩
    simp only [Bool.and_eq_true] at hk
    obtain ⟨hvis, hm⟩ := hk
    cases hd : (pieces s).drop k with
    | nil => rw [hd, segsMatch_pat_nil] at hm; exact absurd hm (by simp)
    | cons x xs =>
      rw [hd, segsMatch_pat_cons, segsMatch_nil] at hm
      simp only [Bool.and_eq_true, List.isEmpty_iff, Bool.not_false, Bool.true_or, and_true] at hm
      obtain ⟨hl, rfl⟩ := hm
      refine ⟨(pieces s).take k, x, ?_, hvis, hl⟩
      rw [← hd, List.take_append_drop]
  · rintro ⟨init, x, e, hvis, hl⟩
    refine ⟨init.length, List.mem_range.mpr (by rw [e]; simp; omega), ?_⟩
    rw [e, List.take_left, List.drop_left, segsMatch_pat_cons, segsMatch_nil, hl, hvis]
    rfl

/-- **C03 lower bound under MATCHBASE** (tidy form of what the port emits) -/
theorem C03_matchbase_must (ctx : PCtx) (g : Pat) (hg : g.mustScope = true) (s : List Char)
    (hD3 : ctx.dot = false ∨ s.getLast? ≠ some '\n')
    (h : pathLangR ctx .must ⟨false, [.glob, .pat g], false⟩ s = true) :
    (wrapRe ctx.ci (compPathMB ctx.dot [.pat g])).FullMatch s := by
  rw [compPathMB_fullmatch]
  exact C03_path_must ctx ⟨false, [.glob, .pat g], false⟩ (by simp [Seg.mustScope, hg]) (by simp [noGG])
    (by intro h; simp at h) s hD3 h

/-- **C03 upper bound under MATCHBASE**: the implicit prefix never consumes a hidden piece -/
theorem C03_matchbase_may (ctx : PCtx) (g : Pat) (hg : (Seg.pat g).mayScope = true) (s : List Char)
    (hD3 : s.getLast? ≠ some '\n')
    (h : (wrapRe ctx.ci (compPathMB ctx.dot [.pat g])).FullMatch s) :
    pathLangR ctx .may ⟨false, [.glob, .pat g], false⟩ s = true := by
  rw [compPathMB_fullmatch] at h
  exact C03_path_may ctx ⟨false, [.glob, .pat g], false⟩ (by simp [Seg.mayScope] at hg ⊢; exact hg)
    (by simp [noGG]) (by intro h; simp at h) s (Or.inr hD3) (by intro h; simp at h) h

open WcModel.C02neg PPN in
/-- **the sandwich under MATCHBASE on the faithful port** (printed slash-less patterns in the printable
    scope `PPN.segOKN`, GLOBSTAR arbitrary): the regex the port returns grants what `.must` grants for
    `**/g`, and whatever it accepts has only visible pieces in front of the last one, the last one
    admitted by `.may` -/
theorem C03_matchbase_faithful (cfg : Cfg) (h : PathXM cfg) (drive : List Char → DriveInfo)
    (ctx : PCtx) (hdot : ctx.dot = cfg.dot) (hci : ctx.ci = !cfg.caseSensitive) (g : Pat)
    (hpr : segOKN (.pat g) = true)                          -- the printable scope
    (hg : (Seg.pat g).mayScope = true)
    (s : List Char) (hD3 : s.getLast? ≠ some '\n') :
    ∃ parsed r, parseItems cfg drive (PP.print g) = .ok parsed ∧ parsed.toRe = some r ∧
      (pathLangR ctx .must ⟨false, [.glob, .pat g], false⟩ s = true → r.FullMatch s) ∧
      (r.FullMatch s → ∃ init x, pieces s = init ++ [x] ∧ init.all (visible ctx.dot) = true ∧
          segMatch ctx .may g x = true) := by
  obtain ⟨parsed, r, h1, h2, h3⟩ := pass_print_matchbase cfg h drive g hpr
  have hm : g.mustScope = true := by
    have := mayScope_mustScope (segs := [.pat g]) (by simpa using hg)
    simpa [Seg.mustScope] using this
  refine ⟨parsed, r, h1, h2, fun hmu => (h3.fullMatch s).mpr ?_, fun hr => ?_⟩
  · rw [← hdot, ← hci]
    exact C03_matchbase_must ctx g hm s (Or.inr hD3) hmu
  · have := (h3.fullMatch s).mp hr
    rw [← hdot, ← hci] at this
    exact (matchbase_rule ctx .may g s).mp (C03_matchbase_may ctx g hg s hD3 this)

/-- non-vacuity under MATCHBASE (faithful port `codeMatchMB`): `.a*` is granted `x/y/.ab`, refused
    `x/.y/.ab` (the prefix does not enter `.y`); `*a` is refused `x/.a`; `*.a` is in the gap -/
theorem matchbase_nonvacuous :
    ((match Grammar.parsePat true ".a*".toList with
      | some g => (Seg.pat g).mayScope && PPN.segOKN (.pat g) && (PP.print g == ".a*".toList) | none => false) &&
     (C02neg.codeMatchMB false false ".a*" "x/y/.ab" == some true) &&
     (C02neg.codeMatchMB false false ".a*" "x/.y/.ab" == some false) &&
     (C02neg.codeMatchMB false false "*a" "x/.a" == some false) &&
     (C02neg.codeMatchMB false false "*.a" "x/.a" == some true) &&
     ((parsePath (C02neg.ctxMB false true false) ".a*".toList).map fun pp =>
        (pathLangR (C02neg.ctxMB false true false) .must pp "x/y/.ab".toList,
         pathLangR (C02neg.ctxMB false true false) .may pp "x/.y/.ab".toList)) == some (true, false) &&
     ((parsePath (C02neg.ctxMB false true false) "*.a".toList).map fun pp =>
        (pathLangR (C02neg.ctxMB false true false) .must pp "x/.a".toList,
         pathLangR (C02neg.ctxMB false true false) .may pp "x/.a".toList)) == some (false, true)) = true := by
  decide +kernel

/-- D6 has to stay outside: when the pattern is itself `**` the port emits two globstar runs
    (`compPathMBglob`), and `d/.hid` is accepted although the reader's `[.glob]` refuses it under `.may` -/
theorem D6_outside :
    (wrapRe false (compPathMBglob false)).fullmatch "d/.hid".toList = true ∧
    C02neg.codeMatchMB false true "**" "d/.hid" = some true ∧
    ((parsePath (C02neg.ctxMB false true true) "**".toList).map fun pp =>
       (pp.segs == [.glob], pathLangR (C02neg.ctxMB false true true) .may pp "d/.hid".toList)) = some (true, false) := by
  decide +kernel

end WcModel.C03L

import WcModel.Proofs.EscapeList
import WcModel.Properties.C04cap
import WcModel.Properties.C17
/-
  C09 end to end through the list layer — `fnmatch(s, escape(s), flags)` and
  `globmatch(s, escape(s), flags)` on the API models (`EscapeList.fnmatchApi`,
  `EscapeList.globmatchApi`: flag transform → `compile_pattern` list loop with the real
  normaliser / splitter / sign test / tilde test → `_compile` on the faithful port →
  `WcRegexp.match`), Unix rules, for EVERY string, EVERY user flag word and EVERY limit,
  INCLUDING the flags that act before the parser:

    RAWCHARS   `EscapeList.norm_escape`        the normaliser returns `escape(s)` unchanged
    SPLIT      `EscapeList.wcSplit_escape`     the splitter returns `[escape(s)]`
    NEGATE / MINUSNEGATE / NEGATEALL
               `EscapeList.isNegative_escape`  `escape(s)` is not an exclusion; with one inclusion
                                               and no exclusion NEGATEALL adds nothing
    GLOBTILDE  `EscapeList.tildePos_escape`    `tilde_pos` is -1
    BRACE      hypothesis `hbrace`             `bracex.iexpand(escape(s), keep_escapes=True,
                                               limit=limit)` yields `escape(s)` alone (external
                                               component; this is its `keep_escapes` contract on a
                                               text whose `{ } , \` are all escaped)

  Main theorems
    * `C09_escape_fn_api`        `fnmatch(name, escape(s), flags=uf, limit=L)` is
                                 `name != "" and name == s up to the case rule`, as an equation;
    * `C09_escape_fn_api_self`   … hence True for `name = s ≠ ""` (and False for `s = ""`: the
                                 empty file name never matches, `fn_api_empty`);
    * `C09_escape_fn_api_only`   … and in case-sensitive mode True for nothing but `s`;
    * `C09_escape_fn_api_bracex` the same equation under the contract the real bracex meets for the
                                 EMPTY text too (`iexpand("")` yields nothing, not `[""]`);
    * `C09_escape_glob_api`      `globmatch(name, escape(s), flags=uf, limit=L)` is True exactly for
                                 the names of `C09path.PathLitEq` (no MATCHBASE / NODIR / REALPATH);
    * `C09_escape_glob_api_nodir` … NODIR included: `PathLitEq` and not refused by `RE_NO_DIR`;
    * `C09_escape_glob_api_real` the same with REALPATH (the only setting where GLOBTILDE acts):
                                 existing names whose directory-normalised form is in `PathLitEq`.
  Scope, as in `C09.lean` / `C09path.lean`: Unix rules (`FnWordUnix` / `GlobWordOK`), no MATCHBASE.
  For every flag word whatsoever `EscapeList.wcCompile_escape` (and
  `wcCompile_escape_eq_compileMatch`) still reduce the call to `_compile(escape(s), flags)`.
-/
namespace WcModel.C09list
open WcModel.EscapeList

/-! ### fnmatch -/

/-- the parser configuration `fnmatch.fnmatch(…, flags=uf)` runs with -/
def fnCfg (uf : Nat) (isBytes : Bool) : Cfg := Cfg.ofFlags isBytes (Flags.ofNat (fnFlagTransform uf))

/-- Unix rules on this (POSIX) host: not "FORCEWIN alone" (FORCEWIN|FORCEUNIX cancel out) -/
def FnWordUnix (uf : Nat) : Prop := hasBit uf Gen.FFORCEWIN = true → hasBit uf Gen.FFORCEUNIX = true

theorem hasBit_mask_out (n m v : Nat) (h : m &&& v = 0) : hasBit (n &&& m) v = false := by
  unfold hasBit
  show ((n &&& m) &&& v != 0) = false
  rw [Nat.and_assoc, h]; simp

/-- a bit outside `fnmatch.FLAG_MASK` never reaches the loop -/
theorem fn_bit_out (uf v : Nat) (h : Gen.fnmatchFlagMask &&& v = 0) : hasBit (fnFlagTransform uf) v = false := by
  unfold fnFlagTransform
  exact hasBit_mask_out _ _ _ h

theorem fn_forcewin (uf : Nat) (h : FnWordUnix uf) : hasBit (fnFlagTransform uf) Gen.FFORCEWIN = false := by
  by_cases hw : hasBit uf Gen.FFORCEWIN = true
  · exact (C17.fn_force_both_cancel uf hw (h hw)).1
  · have hw' : hasBit uf Gen.FFORCEWIN = false := by simpa using hw
    rw [(C17.fn_single_platform_kept uf (by simp [hw'])).1, hw']

theorem fn_unix (uf : Nat) (h : FnWordUnix uf) : isUnixStyle (Flags.ofNat (fnFlagTransform uf)) = true := by
  have hw : (Flags.ofNat (fnFlagTransform uf)).forcewin = false := fn_forcewin uf h
  simp [isUnixStyle, hw, gen_host_not_windows]

/-- **`Cfg.ofFlags` gives `FnEntry` for every fnmatch flag word under Unix rules** -/
theorem fnEntry_fnWord (uf : Nat) (isBytes : Bool) (h : FnWordUnix uf) : FnEntry (fnCfg uf isBytes) := by
  have hu := fn_unix uf h
  have hp : (Flags.ofNat (fnFlagTransform uf)).pathname = false := fn_bit_out uf _ (by decide)
  have hr : (Flags.ofNat (fnFlagTransform uf)).realpath = false := fn_bit_out uf _ (by decide)
  have ha : (Flags.ofNat (fnFlagTransform uf)).anchor = false := fn_bit_out uf _ (by decide)
  have hm : (Flags.ofNat (fnFlagTransform uf)).matchbase = false := fn_bit_out uf _ (by decide)
  have he : (Flags.ofNat (fnFlagTransform uf)).extmatchbase = false := fn_bit_out uf _ (by decide)
  refine ⟨⟨?_, ?_, ?_, ?_, ?_⟩, ?_, ?_, ?_⟩ <;> simp [fnCfg, Cfg.ofFlags, hu, hp, hr, ha, hm, he]

/-- the case rule of `fnmatch` under Unix rules on this host: CASE wins, else IGNORECASE decides -/
theorem fnCfg_case (uf : Nat) (isBytes : Bool) (h : FnWordUnix uf) :
    (fnCfg uf isBytes).caseSensitive = (hasBit uf Gen.FCASE || !hasBit uf Gen.FIGNORECASE) := by
  have hw : (Flags.ofNat (fnFlagTransform uf)).forcewin = false := fn_forcewin uf h
  have hc : (Flags.ofNat (fnFlagTransform uf)).case_ = hasBit uf Gen.FCASE := by
    show hasBit (fnFlagTransform uf) Gen.FCASE = _
    unfold fnFlagTransform
    split
    · rw [hasBit_mask _ _ _ (by decide)]
      show hasBit (uf ^^^ (Gen.FFORCEWIN ||| Gen.FFORCEUNIX)) (2 ^ 0) = hasBit uf (2 ^ 0)
      rw [hasBit_pow, hasBit_pow, tb_xor (by decide)]
    · rw [hasBit_mask _ _ _ (by decide)]
  have hi : (Flags.ofNat (fnFlagTransform uf)).ignorecase = hasBit uf Gen.FIGNORECASE := by
    show hasBit (fnFlagTransform uf) Gen.FIGNORECASE = _
    unfold fnFlagTransform
    split
    · rw [hasBit_mask _ _ _ (by decide)]
      show hasBit (uf ^^^ (Gen.FFORCEWIN ||| Gen.FFORCEUNIX)) (2 ^ 1) = hasBit uf (2 ^ 1)
      rw [hasBit_pow, hasBit_pow, tb_xor (by decide)]
    · rw [hasBit_mask _ _ _ (by decide)]
  have hh : Gen.hostCaseSensitive = true := by decide
  simp only [fnCfg, Cfg.ofFlags, getCase, isCaseSensitiveFlags, hw, hc, hi, hh]
  cases hasBit uf Gen.FCASE <;> cases hasBit uf Gen.FIGNORECASE <;>
    cases (Flags.ofNat (fnFlagTransform uf)).forceunix <;> rfl

/-- BRACE reaches the loop unchanged -/
theorem fn_brace (uf : Nat) : hasBit (fnFlagTransform uf) Gen.FBRACE = hasBit uf Gen.FBRACE := by
  unfold fnFlagTransform
  split
  · rw [hasBit_mask _ _ _ (by decide)]
    show hasBit (uf ^^^ (Gen.FFORCEWIN ||| Gen.FFORCEUNIX)) (2 ^ 9) = hasBit uf (2 ^ 9)
    rw [hasBit_pow, hasBit_pow, tb_xor (by decide)]
  · rw [hasBit_mask _ _ _ (by decide)]

/-- `fnmatch` never builds a REALPATH matcher: the file system is not consulted -/
theorem fnmatchApi_not_real (isBytes : Bool) (w : World) (uf : Nat) (L : Int) (pats : List Compile.Pat)
    (excl : Option (List Compile.Pat)) (o : MatchObj)
    (h : wcCompile isBytes w (fnFlagTransform uf) L pats excl = .ok o) : o.real = false := by
  unfold wcCompile at h
  split at h
  · cases h
  · split at h
    · cases h; exact fn_bit_out uf _ (by decide)
    · cases h
    · cases h

/-- `_compile(escape(s), flags)` in fnmatch mode: the literal regex of C09 -/
theorem compileOne_escape_fn (uf : Nat) (isBytes : Bool) (h : FnWordUnix uf) (s : List Char) :
    ∃ r, compileOne (fnFlagTransform uf) isBytes (escapeUnix s) = .ok r ∧
      ∀ name, r.fullmatch name = litEq (!(fnCfg uf isBytes).caseSensitive) s name := by
  obtain ⟨parsed, r, h1, h2, h3⟩ := C09.C09_escape (fnCfg uf isBytes) (fnEntry_fnWord uf isBytes h)
    (winDrive (fnCfg uf isBytes)) s
  refine ⟨r, ?_, ?_⟩
  · rw [compileOne_eq]
    unfold compilePart Driver.parsePattern
    rw [Flags.ofNat_toNat]
    unfold fnCfg at h1
    simp only [h1, h2]
  · intro name
    rw [Bool.eq_iff_iff, Re.fullmatch_iff]
    exact h3 name

/-- **C09 through the list layer, fnmatch** — for every string `s`, every user flag word `uf`
    with Unix rules (RAWCHARS, SPLIT, NEGATE, MINUSNEGATE, NEGATEALL, BRACE, EXTMATCH, DOTMATCH,
    CASE, IGNORECASE, FORCEUNIX, … in any combination, and any bits outside the public set), every
    `limit`, str or bytes:
        `fnmatch(name, escape(s), flags=uf, limit=L)  ==  (name != "" and name ≈ s)`
    where `≈` is equality, or equality up to ASCII case when the case rule says so. -/
theorem C09_escape_fn_api (isBytes : Bool) (w : World) (uf : Nat) (L : Int) (fs : FS) (s : List Char)
    (hunix : FnWordUnix uf)
    (hbrace : hasBit uf Gen.FBRACE = true → w.brace (escapeUnix s) L = ⟨[escapeUnix s], false⟩)
    (name : List Char) :
    fnmatchApi isBytes w uf L [escapeUnix s] none fs name =
      .ok (!name.isEmpty && litEq (!(fnCfg uf isBytes).caseSensitive) s name) := by
  obtain ⟨r, hr, hlang⟩ := compileOne_escape_fn uf isBytes hunix s
  unfold fnmatchApi
  rw [wcCompile_escape isBytes w _ L s (fun hb => hbrace (by rw [← fn_brace]; exact hb)), hr]
  have hreal : hasBit (fnFlagTransform uf) Gen.FREALPATH = false := fn_bit_out uf _ (by decide)
  have hnodir : hasBit (fnFlagTransform uf) Gen.FNODIR = false := fn_bit_out uf _ (by decide)
  simp only [singleObj, hreal, hnodir, matchReal, Bool.false_eq_true, if_false, List.any_cons, List.any_nil,
    Bool.or_false, Bool.not_false, Bool.and_true, hlang]
  cases name <;> simp

/-- `fnmatch(s, escape(s), flags)` is True — every non-empty string, every flag word (Unix rules) -/
theorem C09_escape_fn_api_self (isBytes : Bool) (w : World) (uf : Nat) (L : Int) (fs : FS) (s : List Char)
    (hunix : FnWordUnix uf)
    (hbrace : hasBit uf Gen.FBRACE = true → w.brace (escapeUnix s) L = ⟨[escapeUnix s], false⟩)
    (hs : s ≠ []) :
    fnmatchApi isBytes w uf L [escapeUnix s] none fs s = .ok true := by
  rw [C09_escape_fn_api isBytes w uf L fs s hunix hbrace s, C09.litEq_refl]
  cases s with
  | nil => exact absurd rfl hs
  | cons _ _ => rfl

/-- … and in case-sensitive mode (CASE, or no IGNORECASE) it matches nothing but `s` -/
theorem C09_escape_fn_api_only (isBytes : Bool) (w : World) (uf : Nat) (L : Int) (fs : FS) (s name : List Char)
    (hunix : FnWordUnix uf)
    (hbrace : hasBit uf Gen.FBRACE = true → w.brace (escapeUnix s) L = ⟨[escapeUnix s], false⟩)
    (hcs : (hasBit uf Gen.FCASE || !hasBit uf Gen.FIGNORECASE) = true)
    (hm : fnmatchApi isBytes w uf L [escapeUnix s] none fs name = .ok true) : name = s := by
  rw [C09_escape_fn_api isBytes w uf L fs s hunix hbrace name, fnCfg_case uf isBytes hunix, hcs] at hm
  injection hm with hm
  simp only [Bool.not_true, Bool.and_eq_true] at hm
  exact C09.litEq_cs s name hm.2

/-- the empty file name never matches (`WcRegexp.match`: `if not filename: return False`), so
    `fnmatch("", escape(""))` is False although `^(?s:)$` matches `""` -/
theorem fn_api_empty (isBytes : Bool) (w : World) (uf : Nat) (L : Int) (fs : FS) (s : List Char)
    (hunix : FnWordUnix uf)
    (hbrace : hasBit uf Gen.FBRACE = true → w.brace (escapeUnix s) L = ⟨[escapeUnix s], false⟩) :
    fnmatchApi isBytes w uf L [escapeUnix s] none fs [] = .ok false := by
  rw [C09_escape_fn_api isBytes w uf L fs s hunix hbrace []]; rfl

/-- What the real `bracex` does (checked on the library: `list(bracex.iexpand("",
    keep_escapes=True)) == []`): the EMPTY text yields no item at all, every other escaped text
    yields itself.  Under this (weaker, and for `s = ""` the true) contract the equation of
    `C09_escape_fn_api` still holds: for `s = ""` both sides are False for every name — the
    pattern list is empty, and `^(?s:)$` would only match the name that `WcRegexp.match` refuses. -/
theorem C09_escape_fn_api_bracex (isBytes : Bool) (w : World) (uf : Nat) (L : Int) (fs : FS) (s : List Char)
    (hunix : FnWordUnix uf)
    (hbrace : hasBit uf Gen.FBRACE = true →
      w.brace (escapeUnix s) L = ⟨[escapeUnix s], false⟩ ∨ (s = [] ∧ w.brace [] L = ⟨[], false⟩))
    (name : List Char) :
    fnmatchApi isBytes w uf L [escapeUnix s] none fs name =
      .ok (!name.isEmpty && litEq (!(fnCfg uf isBytes).caseSensitive) s name) := by
  by_cases hb : hasBit uf Gen.FBRACE = true
  · rcases hbrace hb with h1 | ⟨rfl, h2⟩
    · exact C09_escape_fn_api isBytes w uf L fs s hunix (fun _ => h1) name
    · have hb' : (Flags.ofNat (fnFlagTransform uf)).brace = true := by
        show hasBit (fnFlagTransform uf) Gen.FBRACE = true
        rw [fn_brace, hb]
      have hreal : hasBit (fnFlagTransform uf) Gen.FREALPATH = false := fn_bit_out uf _ (by decide)
      unfold fnmatchApi wcCompile
      rw [compilePattern_no_items (apiExt isBytes w) _ L (escapeUnix []) (norm_escape _ []) hb' h2]
      simp only [seqE, matchReal, hreal, List.any_nil, Bool.false_and, Bool.false_eq_true, if_false]
      cases name <;> simp [litEq]
  · exact C09_escape_fn_api isBytes w uf L fs s hunix (fun h => absurd h hb) name

/-! ### globmatch -/

theorem gen_BRACE : Gen.FBRACE = 2 ^ 9 := by decide

/-- BRACE reaches the loop unchanged -/
theorem gft_brace (uf : Nat) : hasBit (globFlagTransform uf) Gen.FBRACE = hasBit uf Gen.FBRACE := by
  rw [gen_BRACE, hasBit_pow, hasBit_pow, gft_bit uf 9 (by decide) (by decide) (by decide)]
  have : Gen.globFlagMask.testBit 9 = true := by decide
  rw [this, Bool.and_true]

theorem globmatchApi_escape (isBytes : Bool) (w : World) (uf : Nat) (L : Int) (fs : FS) (s name : List Char)
    (hbrace : hasBit uf Gen.FBRACE = true → w.brace (escapeUnix s) L = ⟨[escapeUnix s], false⟩) :
    globmatchApi isBytes w uf L [escapeUnix s] none fs name =
      match compileMatch uf isBytes [escapeUnix s] none with
      | .error e => .error (.compile e)
      | .ok o => .ok (matchReal fs o name) := by
  unfold globmatchApi
  rw [wcCompile_escape_eq_compileMatch isBytes w uf L s (fun hb => hbrace (by rw [← gft_brace]; exact hb))]
  cases compileMatch uf isBytes [escapeUnix s] none <;> rfl

/-- `_compile(escape(s), flags)` in path mode: the literal path regex of `C09path` -/
theorem compileOne_escape_glob (uf : Nat) (isBytes : Bool) (h : C09path.GlobWordOK uf) (s : List Char) :
    compileOne (globFlagTransform uf) isBytes (escapeUnix s) = .ok (pathLitRe (C09path.globCfg uf isBytes) s) := by
  have hentry := C09path.pathEntry_globWord uf isBytes h
  unfold compileOne compilePart Driver.parsePattern
  rw [Flags.ofNat_toNat]
  have := C09path.C09_escape_path_items (C09path.globCfg uf isBytes) hentry (winDrive (C09path.globCfg uf isBytes)) s
  unfold C09path.globCfg at this
  simp only [this, toRe_pathItems]
  rfl

theorem pathLitRe_language (uf : Nat) (isBytes : Bool) (h : C09path.GlobWordOK uf) (s name : List Char) :
    (pathLitRe (C09path.globCfg uf isBytes) s).fullmatch name = true ↔
      C09path.PathLitEq (C09path.globCfg uf isBytes) s name := by
  have hentry := C09path.pathEntry_globWord uf isBytes h
  obtain ⟨parsed, r, h1, h2, h3⟩ :=
    C09path.C09_escape_path_language (C09path.globCfg uf isBytes) hentry (fun _ => default) s
  have hr : r = pathLitRe (C09path.globCfg uf isBytes) s := by
    rw [C09path.C09_escape_path_items _ hentry] at h1
    injection h1 with h1
    rw [← h1, toRe_pathItems] at h2
    injection h2 with h2
    exact h2.symm
  subst hr
  rw [Re.fullmatch_iff]; exact h3 name

/-- a non-empty string's escape does not match the empty name -/
theorem pathLitEq_nil (cfg : Cfg) (s : List Char) (hs : s ≠ []) : ¬ C09path.PathLitEq cfg s [] := by
  intro this
  unfold C09path.PathLitEq at this
  simp only [hs, ite_false] at this
  have hp := this.2.2.1
  cases hx : pieces s with
  | nil =>
    have hall := (allSl_iff_pieces_nil s).mpr hx
    obtain ⟨p', rfl⟩ := allSl_ne_nil hs hall
    have := this.1.mpr rfl
    simp at this
  | cons a b => rw [hx, pieces_nil] at hp; simp [piecesEq] at hp

theorem gft_unix (uf : Nat) (h : C09path.GlobWordOK uf) :
    isUnixStyle (Flags.ofNat (globFlagTransform uf)) = true := by
  have h16 : uf.testBit 16 = false := by rw [← hasBit_pow, ← gen_FORCEWIN]; exact h.forcewin
  have hw : (Flags.ofNat (globFlagTransform uf)).forcewin = false := by
    simp only [Flags.ofNat]
    rw [gen_FORCEWIN, hasBit_pow, gft_forcewin uf h16]
  simp [isUnixStyle, hw, gen_host_not_windows]

theorem gft_nodir (uf : Nat) : hasBit (globFlagTransform uf) Gen.FNODIR = hasBit uf Gen.FNODIR := by
  rw [gen_NODIR, hasBit_pow, hasBit_pow, gft_bit uf 14 (by decide) (by decide) (by decide)]
  have : Gen.globFlagMask.testBit 14 = true := by decide
  rw [this, Bool.and_true]

theorem gft_realpath (uf : Nat) : hasBit (globFlagTransform uf) Gen.FREALPATH = hasBit uf Gen.FREALPATH := by
  rw [gen_REALPATH, hasBit_pow, hasBit_pow, gft_bit uf 10 (by decide) (by decide) (by decide)]
  have : Gen.globFlagMask.testBit 10 = true := by decide
  rw [this, Bool.and_true]

/-- **C09 through the list layer, globmatch, NODIR included** — every non-empty string, every user
    flag word with Unix rules and without MATCHBASE / REALPATH, every limit: True exactly for the
    names of `PathLitEq` that, under NODIR, the directory filter `RE_NO_DIR` does not refuse. -/
theorem C09_escape_glob_api_nodir (isBytes : Bool) (w : World) (uf : Nat) (L : Int) (fs : FS) (s : List Char)
    (h : C09path.GlobWordOK uf) (hrp : hasBit uf Gen.FREALPATH = false) (hs : s ≠ [])
    (hbrace : hasBit uf Gen.FBRACE = true → w.brace (escapeUnix s) L = ⟨[escapeUnix s], false⟩)
    (name : List Char) :
    ∃ b, globmatchApi isBytes w uf L [escapeUnix s] none fs name = .ok b ∧
      (b = true ↔ C09path.PathLitEq (C09path.globCfg uf isBytes) s name ∧
        (hasBit uf Gen.FNODIR = true → Frag.noNixDir.fullmatch name = false)) := by
  unfold globmatchApi
  rw [wcCompile_escape isBytes w _ L s (fun hb => hbrace (by rw [← gft_brace]; exact hb)),
    compileOne_escape_glob uf isBytes h s]
  refine ⟨_, rfl, ?_⟩
  have hreal : hasBit (globFlagTransform uf) Gen.FREALPATH = false := by rw [gft_realpath, hrp]
  simp only [singleObj, matchReal, hreal, gft_nodir, gft_unix uf h, Bool.false_eq_true, if_false, if_true,
    List.any_cons, List.any_nil, Bool.or_false]
  by_cases hn : name = []
  · subst hn
    simp only [List.isEmpty_nil, if_true, Bool.false_eq_true, false_iff, not_and]
    intro hp; exact absurd hp (pathLitEq_nil _ s hs)
  · have hne : name.isEmpty = false := by cases name <;> simp_all
    simp only [hne, Bool.false_eq_true, if_false, Bool.and_eq_true, pathLitRe_language uf isBytes h]
    cases hnd : hasBit uf Gen.FNODIR <;> simp

/-- **C09 through the list layer, globmatch (pure matcher)** — for every non-empty string `s`,
    every user flag word in the scope of `C09path` (Unix rules, no MATCHBASE / REALPATH / NODIR;
    RAWCHARS, SPLIT, NEGATE, MINUSNEGATE, NEGATEALL, BRACE, GLOBTILDE, EXTMATCH, GLOBSTAR, DOTMATCH,
    NODOTDIR, … in any combination), every `limit`:
    `globmatch(name, escape(s), flags=uf, limit=L)` is True exactly for the names of `PathLitEq`
    (same leading-separator status, same pieces up to the case rule, duplicate separators
    equivalent, trailing ones one way, D3 under NODOTDIR); in particular for `s` itself. -/
theorem C09_escape_glob_api (isBytes : Bool) (w : World) (uf : Nat) (L : Int) (fs : FS) (s : List Char)
    (h : C09path.GlobMatchWord uf) (hs : s ≠ [])
    (hbrace : hasBit uf Gen.FBRACE = true → w.brace (escapeUnix s) L = ⟨[escapeUnix s], false⟩) :
    (∀ name, ∃ b, globmatchApi isBytes w uf L [escapeUnix s] none fs name = .ok b ∧
        (b = true ↔ C09path.PathLitEq (C09path.globCfg uf isBytes) s name)) ∧
    ((hasBit uf Gen.FNODOTDIR = true → dotNlTail true s = false) →
        globmatchApi isBytes w uf L [escapeUnix s] none fs s = .ok true) := by
  obtain ⟨o, ho, hiff, hself⟩ := C09path.C09_escape_path_globmatch uf isBytes h fs s hs
  refine ⟨fun name => ⟨matchReal fs o name, ?_, hiff name⟩, fun hD3 => ?_⟩
  · rw [globmatchApi_escape isBytes w uf L fs s name hbrace, ho]
  · rw [globmatchApi_escape isBytes w uf L fs s s hbrace, ho]
    show Except.ok (matchReal fs o s) = _
    rw [hself hD3]

/-- **C09 through the list layer, globmatch with REALPATH** (the setting in which GLOBTILDE is
    read): True exactly for the non-empty names that exist and whose directory-normalised form
    (`/` appended to a directory written without one) is in `PathLitEq`; in particular for `s`
    itself when it exists. -/
theorem C09_escape_glob_api_real (isBytes : Bool) (w : World) (uf : Nat) (L : Int) (fs : FS) (s : List Char)
    (h : C09path.GlobWordOK uf) (hnd : hasBit uf Gen.FNODIR = false) (hrp : hasBit uf Gen.FREALPATH = true)
    (hs : s ≠ [])
    (hbrace : hasBit uf Gen.FBRACE = true → w.brace (escapeUnix s) L = ⟨[escapeUnix s], false⟩) :
    (∀ name, ∃ b, globmatchApi isBytes w uf L [escapeUnix s] none fs name = .ok b ∧
        (b = true ↔ name ≠ [] ∧ fs.lexists name = true ∧
          C09path.PathLitEq (C09path.globCfg uf isBytes) s (C04cap.realName fs name))) ∧
    (fs.lexists s = true → (hasBit uf Gen.FNODOTDIR = true → dotNlTail true s = false) →
        globmatchApi isBytes w uf L [escapeUnix s] none fs s = .ok true) := by
  obtain ⟨o, ho, _, hiff, hself⟩ := C04cap.C09_escape_path_globmatch_real uf isBytes h hnd hrp fs s hs
  refine ⟨fun name => ⟨matchReal fs o name, ?_, hiff name⟩, fun hex hD3 => ?_⟩
  · rw [globmatchApi_escape isBytes w uf L fs s name hbrace, ho]
  · rw [globmatchApi_escape isBytes w uf L fs s s hbrace, ho]
    show Except.ok (matchReal fs o s) = _
    rw [hself hex hD3]

/-! ### non-vacuity and evaluation witnesses (`decide +kernel` runs the whole API model) -/

/-- a toy `bracex`: expands `{a,b}`, leaves every other text alone -/
def toyBrace (p : Compile.Pat) (_ : Int) : Compile.BraceOut :=
  if p = "{a,b}".toList then ⟨["a".toList, "b".toList], false⟩ else ⟨[p], false⟩

/-- a world in which every un-modelled stage visibly acts: `{a,b}` expands, `~…` becomes `/home/u` -/
def w0 : World := { lookup := fun _ => none, brace := toyBrace, home := fun _ _ => "/home/u".toList }

/-- `r/ = { "~a*!", "-d{x}"/ { "g|h" }, home/ { u/ } }` -/
def tW : FS := ⟨.dir [("~a*!".toList, .file), ("-d{x}".toList, .dir [("g|h".toList, .file)]),
   ("home".toList, .dir [("u".toList, .dir [])])], []⟩

/-- every public fnmatch flag that acts before the parser, plus EXTMATCH and FORCEUNIX -/
def allFn : Nat := Gen.FRAWCHARS + Gen.FSPLIT + Gen.FNEGATE + Gen.FMINUSNEGATE + Gen.FNEGATEALL + Gen.FBRACE +
  Gen.FEXTMATCH + Gen.FFORCEUNIX
/-- the same with `!` as the exclusion sign, and IGNORECASE -/
def allFnBang : Nat := Gen.FRAWCHARS + Gen.FSPLIT + Gen.FNEGATE + Gen.FNEGATEALL + Gen.FBRACE + Gen.FEXTMATCH +
  Gen.FIGNORECASE
/-- every public glob flag that acts before the parser, plus EXTGLOB, GLOBSTAR, NODOTDIR, FORCEUNIX -/
def allGl : Nat := Gen.FRAWCHARS + Gen.FSPLIT + Gen.FNEGATE + Gen.FNEGATEALL + Gen.FBRACE + Gen.FEXTMATCH +
  Gen.FGLOBTILDE + Gen.FGLOBSTAR + Gen.FNODOTDIR + Gen.FFORCEUNIX

/-- `-` first, every magic character, `|`, `{`, backslash+digit, backslash+`x41`, `+(`, `@(` -/
def S1 : List Char := "-a!~*?()[]|{}\\1\\x41+(b|c)@(d)".toList
/-- `!` first, then `(`; a top-level `|`; a brace list -/
def S2 : List Char := "!(a)|{b,c}".toList
/-- `~` first; backslash + three octal digits -/
def S3 : List Char := "~/\\101".toList

theorem hyps_witness : FnWordUnix allFn ∧ FnWordUnix allFnBang ∧ FnWordUnix (Gen.FFORCEWIN + Gen.FFORCEUNIX) ∧
    ¬ FnWordUnix Gen.FFORCEWIN ∧ C09path.GlobMatchWord allGl ∧ C09path.GlobWordOK (allGl + Gen.FREALPATH) := by
  refine ⟨?_, ?_, ?_, ?_, ⟨⟨?_, ?_, ?_, ?_⟩, ?_, ?_⟩, ⟨?_, ?_, ?_, ?_⟩⟩ <;> (try unfold FnWordUnix) <;> decide +kernel

/-- the toy bracex meets `hbrace` on EVERY escaped text: an escaped text never equals `{a,b}`
    (it does not start with `{`) -/
theorem toyBrace_escape (s : List Char) (L : Int) : w0.brace (escapeUnix s) L = ⟨[escapeUnix s], false⟩ := by
  have h : escapeUnix s ≠ "{a,b}".toList := fun e => escape_head_ne s '{' (by decide) (by rw [e]; rfl)
  show toyBrace (escapeUnix s) L = _
  unfold toyBrace; rw [if_neg h]

/-- the API model evaluated: `escape(s)` matches `s` under all pre-parser flags at once (str and
    bytes, `limit = 1` included), matches a case variant under IGNORECASE, refuses another name -/
theorem fn_eval_witness :
    fnmatchApi false w0 allFn 1000 [escapeUnix S1] none tW S1 = .ok true ∧
    fnmatchApi true w0 allFn 1 [escapeUnix S1] none tW S1 = .ok true ∧
    fnmatchApi false w0 allFnBang 1000 [escapeUnix S2] none tW S2 = .ok true ∧
    fnmatchApi false w0 allFnBang 1000 [escapeUnix S2] none tW "!(A)|{B,c}".toList = .ok true ∧
    fnmatchApi false w0 allFn 1000 [escapeUnix S2] none tW "!(A)|{B,c}".toList = .ok false ∧
    fnmatchApi false w0 allFn 1000 [escapeUnix S3] none tW S3 = .ok true ∧
    fnmatchApi false w0 allFn 1000 [escapeUnix S3] none tW "~/A".toList = .ok false ∧
    fnmatchApi false w0 allFn 1000 [escapeUnix []] none tW [] = .ok false := by decide +kernel

/-- the stages that `escape` neutralises are LIVE in this model (so the theorems are not about a
    model in which RAWCHARS / SPLIT / BRACE / NEGATE / GLOBTILDE / the limit do nothing):
    unescaped, each of them changes the answer -/
theorem stages_live_witness :
    fnmatchApi false w0 Gen.FRAWCHARS 1000 ["\\x41".toList] none tW "A".toList = .ok true ∧
    fnmatchApi false w0 0 1000 ["\\x41".toList] none tW "A".toList = .ok false ∧
    fnmatchApi false w0 Gen.FSPLIT 1000 ["a|b".toList] none tW "b".toList = .ok true ∧
    fnmatchApi false w0 0 1000 ["a|b".toList] none tW "b".toList = .ok false ∧
    fnmatchApi false w0 Gen.FSPLIT 1 ["a|b".toList] none tW "b".toList = .error (.list .patternLimit) ∧
    fnmatchApi false w0 Gen.FBRACE 1000 ["{a,b}".toList] none tW "b".toList = .ok true ∧
    fnmatchApi false w0 0 1000 ["{a,b}".toList] none tW "b".toList = .ok false ∧
    fnmatchApi false w0 (Gen.FNEGATE + Gen.FNEGATEALL) 1000 ["!a".toList] none tW "b".toList = .ok true ∧
    fnmatchApi false w0 (Gen.FNEGATE + Gen.FNEGATEALL) 1000 ["!a".toList] none tW "a".toList = .ok false ∧
    fnmatchApi false w0 (Gen.FNEGATE + Gen.FMINUSNEGATE + Gen.FNEGATEALL) 1000 ["-a".toList] none tW "a".toList = .ok false ∧
    globmatchApi false w0 (Gen.FGLOBTILDE + Gen.FREALPATH) 1000 ["~".toList] none tW "/home/u".toList = .ok true ∧
    globmatchApi false w0 Gen.FGLOBTILDE 1000 ["~".toList] none tW "/home/u".toList = .ok false := by decide +kernel

/-- `globmatch` evaluated: pure matcher and REALPATH (existing file with magic characters in its
    name, a directory written without `/`, duplicate separators, a missing path), NODIR -/
theorem glob_eval_witness :
    globmatchApi false w0 allGl 1000 [escapeUnix "~a*!".toList] none tW "~a*!".toList = .ok true ∧
    globmatchApi false w0 (allGl + Gen.FREALPATH) 1000 [escapeUnix "~a*!".toList] none tW "~a*!".toList = .ok true ∧
    globmatchApi false w0 (allGl + Gen.FREALPATH) 1000 [escapeUnix "-d{x}/g|h".toList] none tW "-d{x}//g|h".toList = .ok true ∧
    globmatchApi false w0 (allGl + Gen.FREALPATH) 1000 [escapeUnix "-d{x}".toList] none tW "-d{x}".toList = .ok true ∧
    globmatchApi false w0 (allGl + Gen.FREALPATH) 1000 [escapeUnix "nope".toList] none tW "nope".toList = .ok false ∧
    globmatchApi false w0 Gen.FNODIR 1000 [escapeUnix "a/".toList] none tW "a/".toList = .ok false ∧
    globmatchApi false w0 Gen.FNODIR 1000 [escapeUnix "a".toList] none tW "a".toList = .ok true := by decide +kernel

/-- (a) on the strings of the task: backslash+digit and backslash+`x41` under RAWCHARS, str and bytes,
    with and without the Windows normalisation -/
theorem norm_witness :
    Norm.normPattern C20.cfgRaw (escapeUnix "\\1\\x41\\N{DIGIT ONE}\\/".toList) = .ok "\\\\1\\\\x41\\\\N\\{DIGIT ONE\\}\\\\/".toList ∧
    Norm.normPattern C20.cfgRawB (escapeUnix S1) = .ok (escapeUnix S1) ∧
    Norm.normPattern C20.cfgWinRaw (escapeUnix S1) = .ok (escapeUnix S1) ∧
    -- unescaped, the same text IS decoded
    Norm.normPattern C20.cfgRaw "\\1\\x41".toList = .ok [Char.ofNat 1, 'A'] := by decide +kernel

/-- (b) on the strings of the task, with EXTMATCH (unescaped `+(b|c)` would protect its `|`;
    escaped, nothing needs protection), path mode and Windows rules -/
theorem split_witness :
    Split.wcSplit ⟨true, true, true⟩ (escapeUnix S1) = [escapeUnix S1] ∧
    Split.wcSplit ⟨false, false, false⟩ (escapeUnix S2) = [escapeUnix S2] ∧
    Split.wcSplit ⟨false, true, false⟩ S2 = ["!(a)".toList, "{b,c}".toList] := by decide +kernel

/-- the main theorems applied to concrete inputs: hypotheses satisfied, conclusions non-trivial -/
example : fnmatchApi false w0 allFn 1000 [escapeUnix S1] none tW S1 = .ok true :=
  C09_escape_fn_api_self false w0 allFn 1000 tW S1 hyps_witness.1
    (fun _ => toyBrace_escape S1 1000) (by decide)

example : fnmatchApi true w0 allFnBang 1 [escapeUnix S2] none tW "!(A)|{B,c}".toList = .ok true := by
  rw [C09_escape_fn_api true w0 allFnBang 1 tW S2 hyps_witness.2.1
    (fun _ => toyBrace_escape S2 1)]
  decide +kernel

example (name : List Char)
    (h : fnmatchApi false w0 allFn 1000 [escapeUnix S3] none tW name = .ok true) : name = S3 :=
  C09_escape_fn_api_only false w0 allFn 1000 tW S3 name hyps_witness.1
    (fun _ => toyBrace_escape S3 1000) (by decide +kernel) h

example : globmatchApi false w0 allGl 1000 [escapeUnix "~a*!/.b".toList] none tW "~a*!/.b".toList = .ok true :=
  (C09_escape_glob_api false w0 allGl 1000 tW "~a*!/.b".toList hyps_witness.2.2.2.2.1 (by simp)
    (fun _ => toyBrace_escape _ 1000)).2 (fun _ => by decide +kernel)

example : globmatchApi false w0 (allGl + Gen.FREALPATH) 1000 [escapeUnix "-d{x}/g|h".toList] none tW
    "-d{x}/g|h".toList = .ok true :=
  (C09_escape_glob_api_real false w0 (allGl + Gen.FREALPATH) 1000 tW "-d{x}/g|h".toList hyps_witness.2.2.2.2.2
    (by decide +kernel) (by decide +kernel) (by simp)
    (fun _ => toyBrace_escape _ 1000)).2 (by decide +kernel) (fun _ => by decide +kernel)

end WcModel.C09list

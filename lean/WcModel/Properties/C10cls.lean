import WcModel.Proofs.SeqWF
import WcModel.Proofs.ParseClsWF
import WcModel.Model.WinDrive
/-
  C10 (bracket expressions) — "a bracket expression never becomes an invalid character class".

  Python's `re` rejects `[z-a]` ("bad character range") and `[]`.  `_sequence` defends against
  both; the model of its output is `Re.cls neg items`.  `Re.ClsWF r` says that every class in `r`
  has at least one member and no reversed range.

  * `sequence_clsWF` : for EVERY cfg / parser state / iterator, the regex `sequence` returns is
                       `ClsWF`.
  * `parse_clsWF`    : for every pattern, the regex of the whole pass is `ClsWF` (all other
                       classes are constants of `Frag` or come from the Windows drive code).
  * `seqLoop_base_kept` : the loop never pops the `[` / `^` at the bottom of its stack.
  * `D29_fixed_witness` : the inputs on which the pinned code produced `[a-0]` etc. (finding D29,
                       repaired by a `fix:` commit) — fails again if the defect returns.
-/
namespace WcModel.C10cls

/-- **C10 for `_sequence`: every cfg, every state, every text.** -/
theorem sequence_clsWF (cfg : Cfg) (ps : PS) (it : It) (r : Re) (ps' : PS) (it' : It)
    (h : sequence cfg ps it = some (r, ps', it')) : Re.ClsWF r := by
  rw [← sequenceG_true] at h
  exact (sequenceG_clsWF true cfg ps it r ps' it' (.inl rfl) h).1

/-- The loop never pops the `[` / `^` at the bottom of the stack (the pinned code did:
    `[b-\a-A]` → `]`): whatever `base` the loop is started on (with a settled member stack `m`
    above it) is still there, untouched, at the end, and nothing above it is `[`-open or caret. -/
theorem seqLoop_base_kept (cfg : Cfg) (base : List CTok) (fuel : Nat) (c : Char) (it : It)
    (st : SeqSt) (m : List CTok) (hinv : Inv true cfg.isBytes base c it st m)
    (it' : It) (st' : SeqSt) (h : seqLoop cfg fuel c it st = some (it', st')) :
    ∃ m', st'.res = m' ++ base ∧ ∀ t ∈ m', t ≠ .opn ∧ t ≠ .caret := by
  rw [← seqLoopG_true] at h
  obtain ⟨m', hres, hfin, _, _⟩ := seqLoopG_final true cfg base fuel c it st m hinv it' st' h
  refine ⟨m', hres, ?_⟩
  have hgood : ∀ {s}, GoodS cfg.isBytes s → ∀ t ∈ s, t ≠ .opn ∧ t ≠ .caret := by
    intro s hs
    induction hs with
    | nil => intro t ht; cases ht
    | @free z s hz _ ih =>
      intro t ht
      rcases List.mem_cons.1 ht with rfl | ht
      · cases t <;> simp_all [CTok.isMem]
      · exact ih t ht
    | @rng y x s hx hy _ _ ih =>
      intro t ht
      simp only [List.mem_cons] at ht
      rcases ht with rfl | rfl | rfl | ht
      · cases t <;> simp_all [CTok.isRS]
      · simp
      · cases t <;> simp_all [CTok.isRS]
      · exact ih t ht
  rcases hfin with hg | ⟨x, s, rfl, hx, hs⟩
  · exact hgood hg
  · intro t ht
    simp only [List.mem_cons] at ht
    rcases ht with rfl | rfl | ht
    · simp
    · cases t <;> simp_all [CTok.isRS]
    · exact hgood hs t ht

/-! ### witnesses -/

def ucfg : Cfg := Cfg.ofFlags false (Flags.ofNat Gen.FFORCEUNIX)

/-- the iterator just after the opening `[` of `s` -/
def afterOpen (s : String) : It := ⟨1, s.toList.drop 1⟩

def clsOf (o : Option (Re × PS × It)) : Option Re := o.map (·.1)

/-- D29 (repaired by a `fix:` commit): `[a-\z-b0]` used to become `[a-0]`, `[a-\b-a[:alpha:]]`
    `[a-A-Za-z]` (both `re.error`), `[b-\a-A]` a bare `]`.  These are the texts the repaired code
    prints; the witness fails again if the defect returns. -/
theorem D29_fixed_witness :
    ([("[a-\\z-b0]", "[a-z\\-b0]"), ("[a-\\b-a[:alpha:]]", "[a-b\\-aA-Za-z]"),
      ("[b-\\a-A]", "[\\-A]"), ("[!b-\\a-A]", "[^\\-A]"), ("[a-\\z-b]", "[a-z\\-b]")].all fun p =>
      (clsOf (sequence ucfg {} (afterOpen p.1))).map Re.render == some p.2.toList) = true := by
  decide +kernel

/-- the loop BEFORE the repair on the first of them: `[a-0]` (kept as a regression anchor for
    `seqLoopG false`, the pre-repair loop) -/
theorem D29_before :
    clsOf (sequenceG false ucfg {} (afterOpen "[a-\\z-b0]")) =
      some (.cls false [.range 'a' false '0' false]) := by decide +kernel

/-- non-vacuity of `sequence_clsWF`: ordinary classes, escapes, ranges whose ends are escapes,
    dropped reversed ranges, POSIX classes, and the D29 inputs all produce a class -/
example :
    (["[a-z]", "[!a-c-e]", "[z-a]", "[\\a-\\z]", "[a-\\zb-c]", "[[:alpha:]-z]", "[]-a]", "[a-]",
      "[a-\\z-b0]"].all fun p => (sequence ucfg {} (afterOpen p)).isSome) = true := by
  decide +kernel

/-- the initial state of `sequence` satisfies `Inv` (hypothesis of `seqLoop_base_kept`) -/
example : Inv true false [.opn] 'a' ⟨2, "-z]".toList⟩ ⟨[.opn], 0, -1, false, false⟩ [] :=
  Inv.init (by decide) .nil (.inl (by decide)) (.inr (by decide)) ⟨'[', .inl rfl⟩

/-! ### the whole pass -/

/-- what the pass needs from `sequence` -/
theorem hseq (cfg : Cfg) : HSeq true cfg := by
  intro ps it r ps' it' hi h
  rw [← sequenceG_true] at h
  exact sequenceG_clsWF true cfg ps it r ps' it' hi h

/-- **C10 for the whole pass.**  `ClsDriveOK drive`: the drive items handed to the parser are well
    formed — true for the real `winDrive` (`winDrive_clsOk`) and for every `drive` that returns no
    items. -/
theorem parse_clsWF (cfg : Cfg) (drive : List Char → DriveInfo) (p : List Char)
    (parsed : Parsed) (r : Re) (hd : ClsDriveOK drive)
    (h : parseItems cfg drive p = .ok parsed) (hr : parsed.toRe = some r) : Re.ClsWF r :=
  toRe_wf parsed r (parseItems_wf true cfg (hseq cfg) drive hd p (.inl rfl) parsed h) hr

/-- the same with the real drive function -/
theorem parse_clsWF_winDrive (cfg : Cfg) (p : List Char) (parsed : Parsed) (r : Re)
    (h : parseItems cfg (winDrive cfg) p = .ok parsed) (hr : parsed.toRe = some r) : Re.ClsWF r :=
  parse_clsWF cfg (winDrive cfg) p parsed r (winDrive_clsOk cfg) h hr

def noDrive : List Char → DriveInfo := fun _ => default

theorem noDrive_ok : ClsDriveOK noDrive := by
  intro q items h
  cases h

def parseRe (cfg : Cfg) (p : String) : Option Re :=
  match parseItems cfg noDrive p.toList with
  | .ok parsed => parsed.toRe
  | .error _ => none

def Re.clsWFb (r : Re) : Bool := decide r.ClsWF

/-- non-vacuity of `parse_clsWF` (and D29 at the level of the whole pass) -/
example :
    (["[a-z]*.txt", "[!\\a-\\z][[:digit:]-x]", "@([z-a]|\\[b-])", "[a-\\zb-c]?", "[a-\\z-b0]"].all
      fun p =>
        (parseRe (Cfg.ofFlags false (Flags.ofNat (Gen.FFORCEUNIX + Gen.FEXTMATCH))) p).map Re.clsWFb
          == some true) = true := by
  decide +kernel

end WcModel.C10cls

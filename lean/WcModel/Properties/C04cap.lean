import WcModel.Proofs.RegexCap
import WcModel.Proofs.ParseLift
import WcModel.Proofs.GlobMatch
import WcModel.Properties.C09path
import WcModel.Proofs.CompPathGlob
import WcModel.Properties.C04
/-
  C04 / C06 / C09 — REALPATH matching, through the capture matcher.

  `Proofs/RegexCap.lean` proves that `Re.fullmatchCap` (the matcher `_fs_match` is modelled
  with) succeeds exactly when `Re.M` has a full match, and that the spans it reports are those
  of one accepting run.  Consequences for `Model/Match.lean` (`matchReal`, `matchRealCore`,
  `fsMatch`), for every file tree, every matcher object whose regexes have well-formed repeats
  (`Re.repOK`; `compileMatch_repOK`: everything `compileMatch` builds — through the faithful
  port of `WcParse`, for every pattern list and flag word — does):

    * `fsMatch_iff`            `_fs_match` = "the regex matches, and (FOLLOW or the link loop
                               accepts the spans)";
    * `fsMatch_fullMatch`      an accepted path is fully matched by the regex (`M`);
    * `fsMatch_run`            … and the spans the link loop saw are those of ONE run (`Re.MC`);
    * `fsMatch_follow_iff`, `fsMatch_nocap_iff`   with FOLLOW / for a regex without capture
                               group, `_fs_match` IS `FullMatch`;
    * `matchReal_pure_iff`     non-REALPATH branch = `FullMatch` (inclusion ∧ no exclusion);
    * `matchReal_real_iff`     REALPATH branch = `lexists ∧ (some inclusion regex: fsMatch) ∧
                               no exclusion regex fully matches`, on the name with `/` appended
                               when it is a directory written without one;
    * `matchReal_fullMatch`    (C04 side clause) a path the inclusion regexes do not fully
                               match is never accepted, under REALPATH or not;
    * `matchReal_real_nocap`   (C04 side clause) with FOLLOW, or when no inclusion regex has a
                               capture group, REALPATH matching = `lexists ∧ FullMatch …`;
    * `fsGroups_all`, `real_link_rule_all`  (C06_real) EVERY non-empty `**` group: its
                               body matches the captured segment in place, and none of the
                               tested pieces under the path before the segment is a link
                               (`fsGroups_first`, `real_link_rule_first`: the first such group —
                               all that held before the G3 repair, when later groups were tested
                               under the base the first one had left);
    * `C09_escape_path_globmatch_real`   `C09_escape_path_globmatch` extended to REALPATH:
                               `globmatch(name, escape(s), flags)` for every flag word in scope,
                               REALPATH included = `name ≠ "" ∧ lexists name ∧ PathLitEq s name'`.
-/
namespace WcModel.C04cap

open C09path

/-! ### `_fs_match` -/

theorem fsMatch_iff (fs : FS) (r : Re) (p : List Char) (follow : Bool) :
    fsMatch fs r p follow = true ↔
      ∃ spans, r.fullmatchCap p = some spans ∧ (follow = true ∨ fsGroups fs p spans = true) := by
  unfold fsMatch
  cases r.fullmatchCap p with
  | none => simp
  | some spans => cases follow <;> simp

/-- an accepted path is fully matched by the regex -/
theorem fsMatch_fullMatch (fs : FS) (r : Re) (p : List Char) (follow : Bool) (hok : r.repOK = true)
    (h : fsMatch fs r p follow = true) : r.FullMatch p := by
  obtain ⟨spans, hs, _⟩ := (fsMatch_iff fs r p follow).mp h
  exact (Re.fullmatchCap_isSome_iff r p hok).mp (by rw [hs]; rfl)

/-- a path the regex does not fully match is never accepted -/
theorem fsMatch_false_of_not_fullMatch (fs : FS) (r : Re) (p : List Char) (follow : Bool)
    (hok : r.repOK = true) (h : ¬ r.FullMatch p) : fsMatch fs r p follow = false := by
  cases hf : fsMatch fs r p follow with
  | false => rfl
  | true => exact absurd (fsMatch_fullMatch fs r p follow hok hf) h

/-- the spans the link loop is run on are those of ONE accepting run of the regex -/
theorem fsMatch_run (fs : FS) (r : Re) (p : List Char) (follow : Bool) (hok : r.repOK = true)
    (h : fsMatch fs r p follow = true) :
    ∃ b cs, Re.MC ⟨false, false⟩ r 0 ⟨true, p⟩ [] ⟨b, []⟩ cs ∧
      (follow = true ∨ fsGroups fs p (Re.spansOf r.ncaps p.length cs) = true) := by
  obtain ⟨spans, hs, hg⟩ := (fsMatch_iff fs r p follow).mp h
  obtain ⟨b, cs, m, rfl⟩ := Re.fullmatchCap_MC r p hok spans hs
  exact ⟨b, cs, m, hg⟩

/-- with FOLLOW (and for every exclusion pattern) `_fs_match` is the regex -/
theorem fsMatch_follow_iff (fs : FS) (r : Re) (p : List Char) (hok : r.repOK = true) :
    fsMatch fs r p true = true ↔ r.FullMatch p := by
  rw [fsMatch_follow, Re.fullmatchCap_isSome_iff r p hok]

/-- a regex without capture group: nothing to link-test, `_fs_match` is the regex -/
theorem fsMatch_nocap_iff (fs : FS) (r : Re) (p : List Char) (follow : Bool) (hok : r.repOK = true)
    (hn : r.ncaps = 0) : fsMatch fs r p follow = true ↔ r.FullMatch p := by
  rw [← Re.fullmatchCap_isSome_iff r p hok, fsMatch_iff]
  constructor
  · rintro ⟨spans, hs, _⟩; rw [hs]; rfl
  · intro h
    cases hs : r.fullmatchCap p with
    | none => rw [hs] at h; cases h
    | some spans =>
      refine ⟨spans, rfl, Or.inr ?_⟩
      have hl := (Re.fullmatchCap_spans r p hok spans hs).1
      rw [hn] at hl
      have : spans = [] := List.eq_nil_of_length_eq_zero hl
      subst this
      rfl

/-! ### `_Match.match` -/

/-- the name `_match_real` hands to the regexes: `/` is appended to a directory written without -/
def realName (fs : FS) (name : List Char) : List Char :=
  if !(name.getLast? == some '/') && fs.isdir name then name ++ ['/'] else name

theorem matchRealCore_eq (fs : FS) (o : MatchObj) (name : List Char) :
    matchRealCore fs o name =
      (o.incl.any (fun r => fsMatch fs r (realName fs name) o.follow) &&
        !(o.excl.any (fun r => fsMatch fs r (realName fs name) true))) := rfl

/-- **the non-REALPATH branch is `FullMatch`** -/
theorem matchReal_pure_iff (fs : FS) (o : MatchObj) (name : List Char) (hr : o.real = false) :
    matchReal fs o name = true ↔
      name ≠ [] ∧ (∃ r ∈ o.incl, r.FullMatch name) ∧ ∀ r ∈ o.excl, ¬ r.FullMatch name := by
  unfold matchReal
  cases name with
  | nil => simp
  | cons c name =>
    simp only [List.isEmpty_cons, Bool.false_eq_true, if_false, hr, Bool.and_eq_true, List.any_eq_true,
      Bool.not_eq_true', List.any_eq_false, Re.fullmatch_iff, ne_eq, reduceCtorEq, not_false_eq_true, true_and]

/-- **the REALPATH branch**: the path exists, some inclusion regex passes `_fs_match` (regex ∧
    link rule on its spans, see `fsMatch_iff` / `fsMatch_run`), no exclusion regex fully matches -/
theorem matchReal_real_iff (fs : FS) (o : MatchObj) (name : List Char) (hr : o.real = true)
    (hex : ∀ r ∈ o.excl, r.repOK = true) :
    matchReal fs o name = true ↔
      name ≠ [] ∧ fs.lexists name = true ∧
      (∃ r ∈ o.incl, fsMatch fs r (realName fs name) o.follow = true) ∧
      ∀ r ∈ o.excl, ¬ r.FullMatch (realName fs name) := by
  unfold matchReal
  cases name with
  | nil => simp
  | cons c name =>
    simp only [List.isEmpty_cons, Bool.false_eq_true, if_false, hr, if_true, ne_eq, reduceCtorEq,
      not_false_eq_true, true_and]
    cases hl : fs.lexists (c :: name) with
    | false => simp
    | true =>
      simp only [if_true, true_and, matchRealCore_eq, Bool.and_eq_true, List.any_eq_true, Bool.not_eq_true',
        List.any_eq_false]
      constructor
      · rintro ⟨h1, h2⟩
        refine ⟨h1, fun r hr' hm => ?_⟩
        have := h2 r hr'
        rw [(fsMatch_follow_iff fs r _ (hex r hr')).mpr hm] at this
        exact this rfl
      · rintro ⟨h1, h2⟩
        refine ⟨h1, fun r hr' hf => ?_⟩
        exact h2 r hr' ((fsMatch_follow_iff fs r _ (hex r hr')).mp hf)

/-- the name the regexes see: as written, or (REALPATH) with the directory slash -/
def seenName (fs : FS) (o : MatchObj) (name : List Char) : List Char :=
  if o.real then realName fs name else name

/-- **C04 side clause**: whatever the tree, an accepted name is non-empty, fully matched by one
    of the inclusion regexes and by none of the exclusion regexes — REALPATH or not.  Contrapositive:
    a path the regexes do not fully match is never accepted. -/
theorem matchReal_fullMatch (fs : FS) (o : MatchObj) (name : List Char)
    (hin : ∀ r ∈ o.incl, r.repOK = true) (hex : ∀ r ∈ o.excl, r.repOK = true)
    (h : matchReal fs o name = true) :
    name ≠ [] ∧ (∃ r ∈ o.incl, r.FullMatch (seenName fs o name)) ∧
      ∀ r ∈ o.excl, ¬ r.FullMatch (seenName fs o name) := by
  unfold seenName
  cases hr : o.real with
  | false =>
    simp only [Bool.false_eq_true, if_false]
    exact (matchReal_pure_iff fs o name hr).mp h
  | true =>
    simp only [if_true]
    obtain ⟨h1, _, ⟨r, hr', hf⟩, h4⟩ := (matchReal_real_iff fs o name hr hex).mp h
    exact ⟨h1, ⟨r, hr', fsMatch_fullMatch fs r _ _ (hin r hr') hf⟩, h4⟩

theorem matchReal_false_of_not_fullMatch (fs : FS) (o : MatchObj) (name : List Char)
    (hin : ∀ r ∈ o.incl, r.repOK = true) (hex : ∀ r ∈ o.excl, r.repOK = true)
    (h : ∀ r ∈ o.incl, ¬ r.FullMatch (seenName fs o name)) : matchReal fs o name = false := by
  cases hm : matchReal fs o name with
  | false => rfl
  | true =>
    obtain ⟨_, ⟨r, hr, hf⟩, _⟩ := matchReal_fullMatch fs o name hin hex hm
    exact absurd hf (h r hr)

/-- **C04 side clause**: with FOLLOW (∧ ¬GLOBSTARLONG), or when no inclusion regex has a capture
    group, REALPATH matching is existence plus the pure matcher on the name `_match_real` builds -/
theorem matchReal_real_nocap (fs : FS) (o : MatchObj) (name : List Char) (hr : o.real = true)
    (hin : ∀ r ∈ o.incl, r.repOK = true) (hex : ∀ r ∈ o.excl, r.repOK = true)
    (hcap : o.follow = true ∨ ∀ r ∈ o.incl, r.ncaps = 0) :
    matchReal fs o name = true ↔
      name ≠ [] ∧ fs.lexists name = true ∧
      (∃ r ∈ o.incl, r.FullMatch (realName fs name)) ∧ ∀ r ∈ o.excl, ¬ r.FullMatch (realName fs name) := by
  rw [matchReal_real_iff fs o name hr hex]
  have key : ∀ r ∈ o.incl, (fsMatch fs r (realName fs name) o.follow = true ↔ r.FullMatch (realName fs name)) := by
    intro r hr'
    rcases hcap with hf | hn
    · rw [hf]; exact fsMatch_follow_iff fs r _ (hin r hr')
    · exact fsMatch_nocap_iff fs r _ _ (hin r hr') (hn r hr')
  constructor
  · rintro ⟨h1, h2, ⟨r, hr', hf⟩, h4⟩; exact ⟨h1, h2, ⟨r, hr', (key r hr').mp hf⟩, h4⟩
  · rintro ⟨h1, h2, ⟨r, hr', hf⟩, h4⟩; exact ⟨h1, h2, ⟨r, hr', (key r hr').mpr hf⟩, h4⟩

/-- … so that REALPATH then only ADDS the existence test and the directory slash to the pure matcher -/
theorem matchReal_real_eq_pure (fs : FS) (o : MatchObj) (name : List Char) (hr : o.real = true)
    (hin : ∀ r ∈ o.incl, r.repOK = true) (hex : ∀ r ∈ o.excl, r.repOK = true)
    (hcap : o.follow = true ∨ ∀ r ∈ o.incl, r.ncaps = 0) (hn : name ≠ []) :
    matchReal fs o name = (fs.lexists name && matchReal fs { o with real := false } (realName fs name)) := by
  have hne : realName fs name ≠ [] := by
    unfold realName; split
    · simp
    · exact hn
  rw [Bool.eq_iff_iff, matchReal_real_nocap fs o name hr hin hex hcap, Bool.and_eq_true,
    matchReal_pure_iff fs { o with real := false } _ rfl]
  simp only [hn, hne, ne_eq, not_false_eq_true, true_and]

/-! ### everything the pass emits has well-formed repeats -/

def RepOK (r : Re) : Prop := r.repOK = true

theorem liftRepOK : Lift RepOK where
  eps := rfl
  lit := fun _ => rfl
  eos := rfl
  cat := fun ha hb => by unfold RepOK at *; simp only [Re.repOK, ha, hb, Bool.and_self]
  alt := fun ha hb => by unfold RepOK at *; simp only [Re.repOK, ha, hb, Bool.and_self]
  grp := fun h => h
  cap := fun h => h
  gcap := fun h => h
  opt := fun h => h
  star := fun h => h
  plus := fun h => h
  lookNeg := fun h => h
  sep := fun w => by cases w <;> rfl
  pathEop := fun w => by cases w <;> rfl
  noDir := fun w => by cases w <;> rfl
  seqPath := fun w => by cases w <;> rfl
  seqPathDot := fun w => by cases w <;> rfl
  pathStar := fun w => by cases w <;> rfl
  pathStarDot1 := fun w => by cases w <;> rfl
  pathStarDot2 := fun w => by cases w <;> rfl
  pathGstarDot1 := fun w => by cases w <;> rfl
  pathGstarDot2 := fun w => by cases w <;> rfl
  noDot := rfl
  fstar := rfl
  qmark := rfl
  needCharPath := fun w => by cases w <;> rfl
  needChar := rfl
  needSep := fun w => by cases w <;> rfl
  globstarDiv := fun w => by cases w <;> rfl
  pathTrail := fun w => by cases w <;> rfl
  sepPlus := fun w => by cases w <;> rfl
  noRoot := rfl
  noWinRoot := rfl
  guardedDot := fun w => by cases w <;> rfl

theorem winDrive_repOK (cfg : Cfg) : DriveP RepOK (winDrive cfg) :=
  winDrive_lift liftRepOK cfg (by rfl) (fun s => by
    unfold Win.escapeDrive
    split
    · exact litsOf_lift liftRepOK s
    · exact litsOf_lift liftRepOK s)

/-- **every regex the faithful port of `WcParse` returns has well-formed repeats** — every
    pattern string, every configuration, the real Windows drive scanner -/
theorem parse_repOK (cfg : Cfg) (p : List Char) (parsed : Parsed) (r : Re)
    (h : parseItems cfg (winDrive cfg) p = .ok parsed) (hr : parsed.toRe = some r) : r.repOK = true := by
  obtain ⟨inner, rfl, hi⟩ := parse_lift_cls liftRepOK (fun _ _ => rfl) cfg (winDrive cfg) (winDrive_repOK cfg)
    p parsed r h hr
  unfold RepOK at hi
  simp only [Re.repOK, hi, Bool.and_self]

theorem compileOne_repOK (flags : Nat) (isBytes : Bool) (p : List Char) (r : Re)
    (h : compileOne flags isBytes p = .ok r) : r.repOK = true := by
  unfold compileOne compilePart Driver.parsePattern at h
  simp only at h
  split at h
  · cases h
  · rename_i parsed hp
    split at h
    · rename_i r' hr
      cases h
      exact parse_repOK _ _ parsed _ hp hr
    · cases h

def AllOK (l : List Re) : Prop := ∀ r ∈ l, r.repOK = true

theorem AllOK.append {a b : List Re} (ha : AllOK a) (hb : AllOK b) : AllOK (a ++ b) := by
  intro r hr
  rcases List.mem_append.mp hr with h | h
  · exact ha r h
  · exact hb r h

theorem compileSeq_repOK (flags : Nat) (isBytes : Bool) :
    ∀ (exps seen : List (List Char)) (pos neg : List Re) (out : List Re × List Re),
      AllOK pos → AllOK neg → compileSeq flags isBytes exps seen pos neg = .ok out →
      AllOK out.1 ∧ AllOK out.2 := by
  intro exps
  induction exps with
  | nil =>
    intro seen pos neg out hp hn h
    simp only [compileSeq] at h
    cases h
    exact ⟨hp, hn⟩
  | cons e rest ih =>
    intro seen pos neg out hp hn h
    simp only [compileSeq] at h
    split at h
    · exact ih _ _ _ _ hp hn h
    · split at h
      · split at h
        · cases h
        · rename_i re hre
          exact ih _ _ _ _ hp (hn.append (fun r hr => by
            rw [List.mem_singleton] at hr; subst hr; exact compileOne_repOK _ _ _ _ hre)) h
      · split at h
        · cases h
        · rename_i re hre
          exact ih _ _ _ _ (hp.append (fun r hr => by
            rw [List.mem_singleton] at hr; subst hr; exact compileOne_repOK _ _ _ _ hre)) hn h

theorem compilePattern_repOK (flags : Nat) (isBytes : Bool) (exps : List (List Char))
    (excl : Option (List (List Char))) (out : List Re × List Re)
    (h : compilePattern flags isBytes exps excl = .ok out) : AllOK out.1 ∧ AllOK out.2 := by
  unfold compilePattern at h
  simp only at h
  generalize (if excl.isSome = true then noNegateFlags flags else flags) = fl at h
  split at h
  · cases h
  · rename_i neg0 hneg0
    have hn0 : AllOK neg0 := by
      cases excl with
      | none => simp only at hneg0; cases hneg0; intro r hr; cases hr
      | some ex =>
        simp only at hneg0
        cases hc : compileSeq (fl ||| Gen.FDOTMATCH ||| Gen.F_NO_GLOBSTAR_CAPTURE) isBytes ex [] [] [] with
        | error x => rw [hc] at hneg0; cases hneg0
        | ok o =>
          rw [hc] at hneg0
          cases hneg0
          exact (compileSeq_repOK _ _ _ _ _ _ _ (fun _ h => by cases h) (fun _ h => by cases h) hc).1
    split at h
    · cases h
    · rename_i pos neg hseq
      obtain ⟨hp, hn⟩ := compileSeq_repOK _ _ _ _ _ _ _ (fun _ h => by cases h) hn0 hseq
      simp only at hp hn
      have hfin : ∀ pos' : List Re, AllOK pos' →
          AllOK (if (!pos'.isEmpty && hasBit fl Gen.FNODIR) = true then
            neg ++ [if isUnixStyle (Flags.ofNat fl) = true then Frag.noNixDir else Frag.noWinDir] else neg) := by
        intro pos' _
        split
        · refine hn.append (fun r hr => ?_)
          rw [List.mem_singleton] at hr
          subst hr
          split <;> rfl
        · exact hn
      by_cases hc : (!neg.isEmpty && pos.isEmpty && hasBit fl Gen.FNEGATEALL) = true
      · rw [if_pos hc] at h
        cases hone : compileOne (fl ||| if hasBit fl Gen.FPATHNAME = true then Gen.FGLOBSTAR else 0) isBytes
            ['*', '*'] with
        | error x => rw [hone] at h; cases h
        | ok r =>
          rw [hone] at h
          cases h
          have hr : AllOK [r] := fun r' hr' => by
            rw [List.mem_singleton] at hr'; subst hr'; exact compileOne_repOK _ _ _ _ hone
          exact ⟨hr, hfin _ hr⟩
      · rw [if_neg hc] at h
        cases h
        exact ⟨hp, hfin _ hp⟩

/-- **every regex of the matcher object `glob.globmatch` compiles has well-formed repeats** —
    every pattern list, exclusion list and flag word -/
theorem compileMatch_repOK (uf : Nat) (isBytes : Bool) (exps : List (List Char))
    (excl : Option (List (List Char))) (o : MatchObj) (h : compileMatch uf isBytes exps excl = .ok o) :
    (∀ r ∈ o.incl, r.repOK = true) ∧ (∀ r ∈ o.excl, r.repOK = true) := by
  unfold compileMatch at h
  simp only at h
  cases hc : compilePattern (globFlagTransform uf) isBytes exps excl with
  | error x => simp [hc] at h
  | ok pn =>
    obtain ⟨pos, neg⟩ := pn
    simp only [hc] at h
    cases h
    exact compilePattern_repOK _ _ _ _ _ hc

/-- **C04 side clause, end to end**: for the matcher object `glob.globmatch` compiles from any
    pattern list, exclusion list and flag word, on any tree: an accepted name is non-empty, fully
    matched (`Re.M`) by an inclusion regex and by no exclusion regex — REALPATH or not -/
theorem globmatch_fullMatch (uf : Nat) (isBytes : Bool) (exps : List (List Char))
    (excl : Option (List (List Char))) (o : MatchObj) (hc : compileMatch uf isBytes exps excl = .ok o)
    (fs : FS) (name : List Char) (h : matchReal fs o name = true) :
    name ≠ [] ∧ (∃ r ∈ o.incl, r.FullMatch (seenName fs o name)) ∧
      ∀ r ∈ o.excl, ¬ r.FullMatch (seenName fs o name) :=
  matchReal_fullMatch fs o name (compileMatch_repOK _ _ _ _ _ hc).1 (compileMatch_repOK _ _ _ _ _ hc).2 h

/-- … and under REALPATH it exists -/
theorem globmatch_real_exists (fs : FS) (o : MatchObj) (name : List Char) (hr : o.real = true)
    (h : matchReal fs o name = true) : fs.lexists name = true := by
  cases hl : fs.lexists name with
  | true => rfl
  | false => rw [matchReal_nonexistent fs o name hr hl] at h; cases h

/-! ### C06_real: the link rule on every non-empty `**` group -/

/-- a group that did not participate, or captured the empty string, is skipped by `_fs_match` -/
def emptyGroup (filename : List Char) : Option (Nat × Nat) → Bool
  | none => true
  | some (st, en) => ((filename.take en).drop st).isEmpty

theorem fsGroups_skip (fs : FS) (filename : List Char) (rest : List (Option (Nat × Nat))) :
    ∀ pre : List (Option (Nat × Nat)), (∀ g ∈ pre, emptyGroup filename g = true) →
      fsGroups fs filename (pre ++ rest) = fsGroups fs filename rest := by
  intro pre
  induction pre with
  | nil => intro _; rfl
  | cons g pre ih =>
    intro h
    have hg := h g (List.mem_cons_self ..)
    have ih' := ih (fun g' hg' => h g' (List.mem_cons_of_mem _ hg'))
    cases g with
    | none => simp only [List.cons_append, fsGroups]; exact ih'
    | some se =>
      obtain ⟨st, en⟩ := se
      simp only [emptyGroup] at hg
      simp only [List.cons_append, fsGroups, hg, if_true]
      exact ih'

/-- an accepted list of groups: every suffix of it is accepted (the loop keeps no state from one
    group to the next — the G3 repair) -/
theorem fsGroups_suffix (fs : FS) (filename : List Char) (rest : List (Option (Nat × Nat))) :
    ∀ pre : List (Option (Nat × Nat)), fsGroups fs filename (pre ++ rest) = true →
      fsGroups fs filename rest = true := by
  intro pre
  induction pre with
  | nil => intro h; exact h
  | cons g pre ih =>
    intro h
    cases g with
    | none => simp only [List.cons_append, fsGroups] at h; exact ih h
    | some se =>
      obtain ⟨st, en⟩ := se
      simp only [List.cons_append, fsGroups] at h
      split at h
      · exact ih h
      · split at h
        · exact ih h
        · cases h

/-- EVERY group that captured something: its pieces are link-tested under the path before it;
    the group is "at the end" when it reaches the last character of the path or its very end -/
theorem fsGroups_all (fs : FS) (filename : List Char) (pre rest : List (Option (Nat × Nat))) (st en : Nat)
    (hne : ((filename.take en).drop st).isEmpty = false)
    (h : fsGroups fs filename (pre ++ some (st, en) :: rest) = true) :
    (fsPieces fs (decide ((en : Int) ≥ (filename.length : Int) - 1))
      (splitSlash (stripSlash ((filename.take en).drop st))) 1
      (splitSlash (stripSlash ((filename.take en).drop st))).length (filename.take st)).2 = true := by
  have h := fsGroups_suffix fs filename _ pre h
  simp only [fsGroups, hne, Bool.false_eq_true, if_false] at h
  split at h
  · rename_i hp; exact hp
  · cases h

/-- the first group that captured something (a case of `fsGroups_all`) -/
theorem fsGroups_first (fs : FS) (filename : List Char) (pre rest : List (Option (Nat × Nat))) (st en : Nat)
    (_hpre : ∀ g ∈ pre, emptyGroup filename g = true)
    (hne : ((filename.take en).drop st).isEmpty = false)
    (h : fsGroups fs filename (pre ++ some (st, en) :: rest) = true) :
    (fsPieces fs (decide ((en : Int) ≥ (filename.length : Int) - 1))
      (splitSlash (stripSlash ((filename.take en).drop st))) 1
      (splitSlash (stripSlash ((filename.take en).drop st))).length (filename.take st)).2 = true :=
  fsGroups_all fs filename pre rest st en hne h

/-- **C06_real, with the capture matcher proved, for EVERY group.**  If `_fs_match` accepts `p`
    for `r` without FOLLOW, then for every group `g` that captured a non-empty segment `p[st:en]`:
    (i) the body of group `g` matches that segment in place (declarative semantics), and
    (ii) none of the tested pieces of the segment, joined under `p[:st]`, is a symbolic link
    (every piece; the last one is exempt when the segment reaches the last character of `p` or
    its very end).
    (Before the G3 repair this held for the first such group only: later groups were tested
    under the base the first one left — `C04.G3_fixed_witness`.) -/
theorem real_link_rule_all (fs : FS) (r : Re) (p : List Char) (hok : r.repOK = true)
    (h : fsMatch fs r p false = true) :
    ∃ spans, r.fullmatchCap p = some spans ∧
      ∀ (pre rest : List (Option (Nat × Nat))) (st en : Nat), spans = pre ++ some (st, en) :: rest →
        ((p.take en).drop st).isEmpty = false →
        (∃ md' r', r.groupAt ⟨false, false⟩ 0 (pre.length + 1) = some (md', r') ∧
          Re.M md' r' ⟨decide (st = 0), p.drop st⟩ ⟨decide (en = 0), p.drop en⟩) ∧
        ∀ k, k < (splitSlash (stripSlash ((p.take en).drop st))).length →
          (!(decide ((en : Int) ≥ (p.length : Int) - 1)) ||
            1 + k != (splitSlash (stripSlash ((p.take en).drop st))).length) = true →
          fs.islink (((splitSlash (stripSlash ((p.take en).drop st))).take (k + 1)).foldl pjoin (p.take st)) = false := by
  obtain ⟨spans, hs, hg⟩ := (fsMatch_iff fs r p false).mp h
  have hg : fsGroups fs p spans = true := by
    rcases hg with hg | hg
    · cases hg
    · exact hg
  refine ⟨spans, hs, ?_⟩
  intro pre rest st en he hne
  subst he
  refine ⟨?_, ?_⟩
  · have := (Re.fullmatchCap_spans r p hok _ hs).2 pre.length st en (by simp)
    obtain ⟨_, _, md', r', h1, h2⟩ := this
    exact ⟨md', r', h1, h2⟩
  · intro k hk hc
    exact fsPieces_ok fs _ _ 1 _ _ (fsGroups_all fs p pre rest st en hne hg) k hk hc

/-- the first non-empty group (the statement that held before the G3 repair; a case of
    `real_link_rule_all`) -/
theorem real_link_rule_first (fs : FS) (r : Re) (p : List Char) (hok : r.repOK = true)
    (h : fsMatch fs r p false = true) :
    ∃ spans, r.fullmatchCap p = some spans ∧
      ∀ (pre rest : List (Option (Nat × Nat))) (st en : Nat), spans = pre ++ some (st, en) :: rest →
        (∀ g ∈ pre, emptyGroup p g = true) → ((p.take en).drop st).isEmpty = false →
        (∃ md' r', r.groupAt ⟨false, false⟩ 0 (pre.length + 1) = some (md', r') ∧
          Re.M md' r' ⟨decide (st = 0), p.drop st⟩ ⟨decide (en = 0), p.drop en⟩) ∧
        ∀ k, k < (splitSlash (stripSlash ((p.take en).drop st))).length →
          (!(decide ((en : Int) ≥ (p.length : Int) - 1)) ||
            1 + k != (splitSlash (stripSlash ((p.take en).drop st))).length) = true →
          fs.islink (((splitSlash (stripSlash ((p.take en).drop st))).take (k + 1)).foldl pjoin (p.take st)) = false := by
  obtain ⟨spans, hs, hall⟩ := real_link_rule_all fs r p hok h
  exact ⟨spans, hs, fun pre rest st en he _ hne => hall pre rest st en he hne⟩

/-! ### C09 (c) extended to REALPATH -/

theorem ncaps_catE' (a b : Re) : (catE' a b).ncaps = a.ncaps + b.ncaps := by
  unfold catE'
  split
  · rename_i h; subst h; simp [Re.ncaps]
  · split
    · rename_i h; subst h; simp [Re.ncaps]
    · simp [Re.ncaps]

theorem ncaps_seqRe : ∀ l : List Re, (∀ r ∈ l, r.ncaps = 0) → (seqRe l).ncaps = 0
  | [], _ => rfl
  | r :: rs, h => by
    rw [seqRe, ncaps_catE', h r (List.mem_cons_self ..),
      ncaps_seqRe rs (fun x hx => h x (List.mem_cons_of_mem _ hx))]

theorem ncaps_pathRes (cfg : Cfg) : ∀ (s : List Char) (st : LPos), ∀ r ∈ pathRes cfg st s, r.ncaps = 0 := by
  intro s
  induction s with
  | nil => intro st r hr; simp [pathRes] at hr
  | cons c s ih =>
    intro st r hr
    simp only [pathRes] at hr
    split at hr
    · split at hr
      · exact ih _ r hr
      · rcases List.mem_cons.mp hr with rfl | hr
        · rfl
        · exact ih _ r hr
    · split at hr
      · rcases List.mem_cons.mp hr with rfl | hr
        · unfold dotRe; split <;> rfl
        · exact ih _ r hr
      · rcases List.mem_cons.mp hr with rfl | hr
        · rfl
        · exact ih _ r hr

/-- the regex of `escape(s)` has no capture group -/
theorem ncaps_pathLitRe (cfg : Cfg) (s : List Char) : (pathLitRe cfg s).ncaps = 0 := by
  unfold pathLitRe
  simp only [Re.ncaps, Nat.zero_add, Nat.add_zero]
  apply ncaps_seqRe
  intro r hr
  unfold pathReList at hr
  split at hr
  · cases hr
  · rcases List.mem_append.mp hr with hr | hr
    · rcases List.mem_append.mp hr with hr | hr
      · split at hr
        · rw [List.mem_singleton] at hr; subst hr; rfl
        · cases hr
      · exact ncaps_pathRes cfg s _ r hr
    · rw [List.mem_singleton] at hr; subst hr; rfl

/-- what `globmatch` needs beyond `GlobWordOK` when REALPATH may be set: no NODIR filter -/
theorem compileMatch_escape_real (uf : Nat) (isBytes : Bool) (h : GlobWordOK uf)
    (hnd : hasBit uf Gen.FNODIR = false) (s : List Char) :
    compileMatch uf isBytes [escapeUnix s] none =
      .ok { incl := [pathLitRe (globCfg uf isBytes) s], excl := [], real := hasBit uf Gen.FREALPATH,
            follow := hasBit (globFlagTransform uf) Gen.FFOLLOW && !hasBit (globFlagTransform uf) Gen.FGLOBSTARLONG } := by
  have hentry := pathEntry_globWord uf isBytes h
  have hreal : hasBit (globFlagTransform uf) Gen.FREALPATH = hasBit uf Gen.FREALPATH := by
    rw [gen_REALPATH, hasBit_pow, gft_bit uf 10 (by decide) (by decide) (by decide), ← hasBit_pow]
    have : Gen.globFlagMask.testBit 10 = true := by decide
    rw [this, Bool.and_true]
  have hnodir : hasBit (globFlagTransform uf) Gen.FNODIR = false := by
    rw [gen_NODIR, hasBit_pow, gft_bit uf 14 (by decide) (by decide) (by decide), ← hasBit_pow, ← gen_NODIR,
      hnd]
    rfl
  have hone : compileOne (globFlagTransform uf) isBytes (escapeUnix s) = .ok (pathLitRe (globCfg uf isBytes) s) := by
    unfold compileOne compilePart Driver.parsePattern
    rw [Flags.ofNat_toNat]
    have := C09_escape_path_items (globCfg uf isBytes) hentry (winDrive (globCfg uf isBytes)) s
    unfold globCfg at this
    simp only [this, toRe_pathItems]
    rfl
  unfold compileMatch compilePattern
  simp only [Option.isSome_none, Bool.false_eq_true, ite_false, compileSeq, List.not_mem_nil, isNegative_escape, hone,
    List.nil_append, List.isEmpty_nil, Bool.not_true, Bool.false_and, List.isEmpty_cons, Bool.not_false, hnodir,
    Bool.and_false, hreal]

theorem pathLitEq_dirSlash (cfg : Cfg) (s : List Char) (hs : s ≠ []) :
    PathLitEq cfg s (s ++ ['/']) := by
  unfold PathLitEq
  simp only [hs, if_false]
  refine ⟨?_, ?_, ?_, ?_⟩
  · cases s with
    | nil => exact absurd rfl hs
    | cons c s => simp
  · intro _; simp
  · have : pieces (s ++ ['/']) = pieces s := by
      rw [pieces_append_slash s [], pieces_nil, List.append_nil]
    rw [this]; exact piecesEq_refl _ _
  · intro _
    cases hd : dotNlTail true (s ++ ['/']) with
    | false => rfl
    | true =>
      exfalso
      obtain ⟨pre, _, he | he⟩ := (dotNlTail_iff true _).mp hd
      · have := congrArg List.getLast? he
        simp at this
      · have := congrArg List.getLast? he
        simp at this

/-- **C09 path mode (c), REALPATH included** — `globmatch(name, escape(s), flags=uf)` on the model,
    for every user flag word in scope (REALPATH set): True exactly for the non-empty names that
    exist and that — with `/` appended when the name is a directory written without one — are in
    the language `PathLitEq` of `escape(s)`; in particular for `s` itself when it exists (under
    the D3 hypothesis, which a directory written without a trailing separator does not even need:
    the appended `/` hides the final newline from `$`). -/
theorem C09_escape_path_globmatch_real (uf : Nat) (isBytes : Bool) (h : GlobWordOK uf)
    (hnd : hasBit uf Gen.FNODIR = false) (hrp : hasBit uf Gen.FREALPATH = true) (fs : FS) (s : List Char)
    (hs : s ≠ []) :
    ∃ o, compileMatch uf isBytes [escapeUnix s] none = .ok o ∧ o.real = true ∧
      (∀ name, matchReal fs o name = true ↔
        name ≠ [] ∧ fs.lexists name = true ∧ PathLitEq (globCfg uf isBytes) s (realName fs name)) ∧
      (fs.lexists s = true → (hasBit uf Gen.FNODOTDIR = true → dotNlTail true s = false) →
        matchReal fs o s = true) := by
  have hentry := pathEntry_globWord uf isBytes h
  refine ⟨_, compileMatch_escape_real uf isBytes h hnd s, hrp, ?_⟩
  have hlang : ∀ name, (pathLitRe (globCfg uf isBytes) s).FullMatch name ↔ PathLitEq (globCfg uf isBytes) s name := by
    intro name
    obtain ⟨parsed, r, h1, h2, h3⟩ := C09_escape_path_language (globCfg uf isBytes) hentry (fun _ => default) s
    have hr : r = pathLitRe (globCfg uf isBytes) s := by
      rw [C09_escape_path_items _ hentry] at h1
      injection h1 with h1
      rw [← h1, toRe_pathItems] at h2
      injection h2 with h2
      exact h2.symm
    subst hr
    exact h3 name
  have hrepOK : (pathLitRe (globCfg uf isBytes) s).repOK = true := by
    have := (compileMatch_repOK _ _ _ _ _ (compileMatch_escape_real uf isBytes h hnd s)).1
    exact this _ (List.mem_singleton.mpr rfl)
  have hiff : ∀ name, matchReal fs
      { incl := [pathLitRe (globCfg uf isBytes) s], excl := [], real := hasBit uf Gen.FREALPATH,
        follow := hasBit (globFlagTransform uf) Gen.FFOLLOW && !hasBit (globFlagTransform uf) Gen.FGLOBSTARLONG } name = true ↔
      name ≠ [] ∧ fs.lexists name = true ∧ PathLitEq (globCfg uf isBytes) s (realName fs name) := by
    intro name
    rw [matchReal_real_nocap fs _ name hrp
      (fun r hr => by rw [List.mem_singleton] at hr; subst hr; exact hrepOK)
      (fun r hr => by cases hr)
      (Or.inr (fun r hr => by rw [List.mem_singleton] at hr; subst hr; exact ncaps_pathLitRe _ _))]
    simp only [List.mem_singleton, exists_eq_left, List.not_mem_nil, false_implies, implies_true, and_true, hlang]
  refine ⟨hiff, fun hex hD3 => (hiff s).mpr ⟨hs, hex, ?_⟩⟩
  unfold realName
  split
  · exact pathLitEq_dirSlash _ s hs
  · refine (PathLitEq_self _ s).mpr ?_
    rw [globCfg_nodotdir]
    exact hD3

/-! ### non-vacuity and evaluation witnesses (`decide +kernel` runs the model) -/

/-- the single inclusion regex `compileMatch` builds for one pattern under GLOBSTAR|REALPATH -/
def reOf (p : String) : Re :=
  match compileMatch C04.RP false [p.toList] none with
  | .ok o => o.incl.headD .eps
  | .error _ => .eps

/-- the regex of `**` under REALPATH is `^(?s:(?!/)((?:(?!(?:[/]|^)\.).)*?)(?:^|$|[/])+[/]*?)$`:
    one capture group, a lazy star, a `+` over a NULLABLE body (`^`, `$`) — the shape for which the
    progress check of the matcher had to be shown harmless -/
theorem reOf_globstar :
    (reOf "**").render = "^(?s:(?!/)((?:(?!(?:[/]|^)\\.).)*?)(?:^|$|[/])+[/]*?)$".toList ∧
    (reOf "**").ncaps = 1 ∧ (reOf "**").repOK = true := by decide +kernel

/-- hypotheses of `real_link_rule_first` / `fsMatch_run` hold on `d/g` in `C04.t1`
    (`r/ = { f, lf -> f, dang, d/ { g }, ld -> d }`), with the span `(0, 3)`; `ld/g` is fully
    matched by the regex (span `(0, 4)`) and refused by the link rule -/
theorem fsMatch_witness :
    fsMatch C04.t1 (reOf "**") "d/g".toList false = true ∧
    (reOf "**").fullmatchCap "d/g".toList = some [some (0, 3)] ∧
    fsMatch C04.t1 (reOf "**") "ld/g".toList false = false ∧
    (reOf "**").fullmatchCap "ld/g".toList = some [some (0, 4)] ∧
    fsMatch C04.t1 (reOf "**") "ld/g".toList true = true := by decide +kernel

/-- `real_link_rule_first` applied: the body of group 1 of `**`'s regex matches `d/g` in place, and
    `d` (the tested piece; `g`, the last one, is exempt: the group reaches the end) is not a link -/
example :
    (∃ md' r', (reOf "**").groupAt ⟨false, false⟩ 0 1 = some (md', r') ∧
      Re.M md' r' ⟨true, "d/g".toList⟩ ⟨false, []⟩) ∧
    C04.t1.islink "d".toList = false := by
  obtain ⟨spans, hs, hrule⟩ := real_link_rule_first C04.t1 (reOf "**") "d/g".toList reOf_globstar.2.2
    fsMatch_witness.1
  rw [fsMatch_witness.2.1] at hs
  cases hs
  obtain ⟨h1, h2⟩ := hrule [] [] 0 3 rfl (fun _ h => by cases h) (by decide)
  refine ⟨h1, ?_⟩
  have := h2 0 (by decide +kernel) (by decide +kernel)
  have e : ((splitSlash (stripSlash (("d/g".toList.take 3).drop 0))).take (0 + 1)).foldl pjoin ("d/g".toList.take 0)
      = "d".toList := by decide +kernel
  rw [e] at this
  exact this

/-- `fsMatch_follow_iff` / `fsMatch_fullMatch` applied: `ld/g` is in the regex's language -/
example : (reOf "**").FullMatch "ld/g".toList :=
  (fsMatch_follow_iff C04.t1 _ _ reOf_globstar.2.2).mp fsMatch_witness.2.2.2.2

/-- `matchReal_real_iff` on a compiled object: hypotheses hold (`real`, `repOK` through
    `compileMatch_repOK`), both sides true for `d/g`, both false for `ld/g` and for a missing path -/
example : ∀ o, compileMatch C04.RP false ["**".toList] none = .ok o →
    o.real = true ∧ (∀ r ∈ o.excl, r.repOK = true) ∧
    matchReal C04.t1 o "d/g".toList = true ∧ matchReal C04.t1 o "ld/g".toList = false ∧
    matchReal C04.t1 o "nope".toList = false := by
  intro o hc
  have hw : (match compileMatch C04.RP false ["**".toList] none with
      | .ok o => o.real && matchReal C04.t1 o "d/g".toList && !matchReal C04.t1 o "ld/g".toList &&
          !matchReal C04.t1 o "nope".toList
      | .error _ => false) = true := by decide +kernel
  rw [hc] at hw
  simp only [Bool.and_eq_true, Bool.not_eq_true'] at hw
  exact ⟨hw.1.1.1, (compileMatch_repOK _ _ _ _ _ hc).2, hw.1.1.2, hw.1.2, hw.2⟩

/-- the flag word NODOTDIR|EXTMATCH|FORCEUNIX|REALPATH is in scope of `C09_escape_path_globmatch_real` -/
theorem globWordOK_real_example :
    GlobWordOK (Gen.FNODOTDIR + Gen.FEXTMATCH + Gen.FFORCEUNIX + Gen.FREALPATH) ∧
    hasBit (Gen.FNODOTDIR + Gen.FEXTMATCH + Gen.FFORCEUNIX + Gen.FREALPATH) Gen.FNODIR = false ∧
    hasBit (Gen.FNODOTDIR + Gen.FEXTMATCH + Gen.FFORCEUNIX + Gen.FREALPATH) Gen.FREALPATH = true := by
  refine ⟨⟨?_, ?_, ?_, ?_⟩, ?_, ?_⟩ <;> decide +kernel

/-- `globmatch("d", escape("d"), NODOTDIR|EXTMATCH|FORCEUNIX|REALPATH)` on `C04.t1`: the directory
    `d` exists and is matched as `d/` -/
example : ∃ o, compileMatch (Gen.FNODOTDIR + Gen.FEXTMATCH + Gen.FFORCEUNIX + Gen.FREALPATH) false
      [escapeUnix "d".toList] none = .ok o ∧ o.real = true ∧ matchReal C04.t1 o "d".toList = true := by
  obtain ⟨o, h1, h2, _, h4⟩ := C09_escape_path_globmatch_real _ false globWordOK_real_example.1
    globWordOK_real_example.2.1 globWordOK_real_example.2.2 C04.t1 "d".toList (by simp)
  exact ⟨o, h1, h2, h4 (by decide +kernel) (fun _ => by decide +kernel)⟩

/-- … and the same evaluated by the model: `d`, `d/` accepted, the file `f` and a missing path refused -/
example : (match compileMatch (Gen.FNODOTDIR + Gen.FEXTMATCH + Gen.FFORCEUNIX + Gen.FREALPATH) false
      [escapeUnix "d".toList] none with
    | .ok o => o.real && matchReal C04.t1 o "d".toList && matchReal C04.t1 o "d/".toList &&
        !matchReal C04.t1 o "f".toList && !matchReal C04.t1 o "nope".toList
    | .error _ => false) = true := by decide +kernel

end WcModel.C04cap

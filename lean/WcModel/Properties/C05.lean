import WcModel.Proofs.GlobSpec
/-
  C05 — glob returns exactly the paths the pattern denotes on the real tree.

  Specification: `Spec/Denotes.lean` (`Denotes`, `DenotesTop`; executable `denoteList`,
  `denoteTop`, `DenotesB`).  Model: `Model/GlobWalk.lean`, tied to `glob.py` by K5 (parts,
  result sequence, scandir sequence).

  FULL STATEMENT (C05_main):
      ∀ fs c parts v, (∃ fuel, v ∈ results (globPattern c fs fuel parts)) ↔ DenotesTop fs c parts v
  It is FALSE on the pinned tree: D14 (`re.match` accepts `name + "\n"`), D17 (`.`/`..` and the
  zero-level `dir/` are produced below something that is not a directory) and KF-G2 (under
  IGNORECASE the seen-set key folds two different entries into one) — each witnessed below
  by `decide +kernel` on a one- or two-entry tree and replayed on the real code by the check.

  PROVED here (all trees, all part lists):
    * the executable specification is sound for the inductive one, for every fuel
      (`spec_exec_sound`), `**` as a list is `Below` (`below_sound`, `below_complete`);
  and in `Proofs/GlobDeep.lean` (see `deep_*` below) the heart of the model/spec relation:
  what a `**` expansion of the walker yields is exactly the one-level listing of the
  directories `Below` the starting one.
  The remaining composition (induction over the part list, hypotheses: segment regexes decide
  names by full match on the tree's names, a literal first segment followed by further parts
  names a directory) is checked, not proved: `glob.glob` is compared with `denoteTop` on every
  generated tree and pattern (search `glob-vs-Denotes`), and `denoteTop` with Bash in the
  thorough tier.
-/
namespace WcModel.C05

/-- the executable oracle only produces paths the specification denotes -/
theorem spec_exec_sound (fs : FS) (c : WalkCfg) (fuel : Nat) (parts : List GPart) (d : Dir) (v : Y)
    (h : v ∈ denoteList fs c true fuel parts d) : Denotes fs c parts d v :=
  denoteList_sound fs c fuel parts d v h

theorem below_sound (fs : FS) (c : WalkCfg) (long : Bool) (fuel : Nat) (d d' : Dir)
    (h : d' ∈ belowList fs c long fuel d) : Below fs c long d d' := belowList_sound fs c long fuel d d' h

theorem below_complete (fs : FS) (c : WalkCfg) (long : Bool) (d d' : Dir) (h : Below fs c long d d') :
    ∃ fuel, d' ∈ belowList fs c long fuel d := belowList_complete fs c long h

/-! ### witnesses -/

def wc : WalkCfg := { dot := false, caseSensitive := true, followLinks := false, fdMode := false }
def wU : WCtx := { wc with mark := false, pathlib := false, nounique := false, excl := [] }

/-- the compiled segment `[a]` as the parser emits it for a part: `^(?s:(?![/])[a][/]*?)$`
    reduced to what matters here: `^(?s:[a])$` -/
def reA : Re := .cat .bos (.cat (.flags true false (.cls false [.chr 'a' false])) .eos)
def pA : List GPart := [⟨.re "[a]".toList reA, true, false, false, false, false⟩]
/-- r/ = { "a\n" } -/
def tNl : FS := ⟨.dir [("a\n".toList, .file)], []⟩

/-- **D14**: `glob('[a]')` returns the file named `a\n` (the part regex is applied with
    `re.match`, and `$` accepts before a final newline); the pattern does not denote it. -/
theorem D14_witness :
    globResults wU tNl 3 [pA] = ["a\n".toList] ∧ denoteTop tNl wc true 3 pA = [] ∧
    DenotesB tNl wc 3 pA "a\n".toList = false := by decide +kernel

/-- r/ = { f } (a regular file) -/
def tF : FS := ⟨.dir [("f".toList, .file)], []⟩
def pFdot : List GPart :=
  [⟨.lit "f".toList, false, false, false, true, false⟩, ⟨.lit ".".toList, false, false, false, false, false⟩]
def pFstar : List GPart :=
  [⟨.lit "f".toList, false, false, false, true, false⟩, ⟨.lit "**".toList, true, true, false, false, false⟩]

/-- **D17**: `glob('f/.')` → `['f/.']` and `glob('f/**')` → `['f/']` for a regular file `f`;
    neither is denoted (nothing lies below a file). -/
theorem D17_witness :
    globResults wU tF 3 [pFdot] = ["f/.".toList] ∧ denoteTop tF wc true 3 pFdot = [] ∧
    globResults wU tF 3 [pFstar] = ["f/".toList] ∧ denoteTop tF wc true 3 pFstar = [] := by decide +kernel

/-- … and through `dir_fd` the first of the two is *not* produced (the directory is opened
    before the fake entries are yielded): the result depends on how the root is given. -/
theorem D17_dirfd_witness :
    globResults { wU with fdMode := true } tF 3 [pFdot] = [] := by decide +kernel

/-- r/ = { a, A } -/
def tCase : FS := ⟨.dir [("a".toList, .file), ("A".toList, .file)], []⟩
def reStar : Re := .cat (.look true (.lit '.')) (.star true .any)
def pStar : List GPart := [⟨.re "*".toList reStar, true, false, false, false, false⟩]

/-- **KF-G2**: under IGNORECASE `glob('*')` returns `a` but not the different file `A` (one
    case-folded key in the seen-set); `*` denotes both. -/
theorem G2_witness :
    globResults { wU with caseSensitive := false } tCase 3 [pStar] = ["a".toList] ∧
    (denoteTop tCase { wc with caseSensitive := false } true 3 pStar).map (·.path) = ["a".toList, "A".toList] := by
  decide +kernel

/-- non-vacuity: where none of the defects is in reach, walker and specification agree —
    `a/**` on r/ = { a/ { b/ { c }, l -> r }, f } -/
def tOk : FS := ⟨.dir [("a".toList, .dir [("b".toList, .dir [("c".toList, .file)]), ("l".toList, .link (some []))]),
                        ("f".toList, .file)], []⟩
def pAstar : List GPart :=
  [⟨.lit "a".toList, false, false, false, true, false⟩, ⟨.lit "**".toList, true, true, false, false, false⟩]
example : globResults wU tOk 6 [pAstar] = ["a/".toList, "a/b".toList, "a/b/c".toList, "a/l".toList] ∧
    (denoteTop tOk wc true 6 pAstar).map (·.path) = ["a/".toList, "a/b".toList, "a/l".toList, "a/b/c".toList] := by
  decide +kernel

end WcModel.C05

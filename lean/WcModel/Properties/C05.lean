import WcModel.Proofs.GlobTop
import WcModel.Proofs.GlobFollow
import WcModel.Proofs.GlobList
/-
  C05 — glob returns exactly the paths the pattern denotes on the real tree.

  Specification: `Spec/Denotes.lean` (`Denotes`, `DenotesTop`; executable `denoteList`,
  `denoteTop`, `DenotesB`).  Model: `Model/GlobWalk.lean`, tied to `glob.py` by K5 (parts,
  result sequence, scandir sequence).

  FULL STATEMENT (C05_full), for every tree, walk configuration and part list:
      ∀ v, (∃ fuel, v ∈ results (globPattern c fs fuel parts)) ↔ DenotesTop fs c parts v
  It is FALSE on the pinned tree: D17 (`.`/`..` and the zero-level `dir/` are produced below
  something that is not a directory) and — one level up, in the seen set — KF-G2 (under
  IGNORECASE two different entries share one key).  Each is witnessed below by
  `decide +kernel` and replayed on the real code by the check.  A third defect, D14 (`re.match`
  accepted `name + "\n"`), is REPAIRED (`_get_matcher` uses `fullmatch`): `D14_fixed_witness`
  states the repaired behaviour on the old witness input.

  PROVED (`C05_partial`, `C05_partial_results`): the full statement for every tree and every
  part list under exactly the hypotheses that exclude those defects —
    * `SegAgree`  : on the names the tree offers, the walker's per-part matcher agrees with
                    the segment language (full match).  It excluded D14; since the repair it
                    is a THEOREM (`segAgree_all`: every tree, configuration and part list),
                    and `C05_main_walk` / `C05_main_results` / `C05_main_follow`
                    (`C05_main_split*` in `C05split.lean`) are the same statements WITHOUT it
    * `TopOK`     : the root is a directory, its entry names contain no `/`, a literal first
                    name followed by further parts names directories only      [excludes D17]
                    (+ two shape facts every `_GlobSplit` output has)
    * `WFParts`   : only the last part may lack `dir_only` (every `_GlobSplit` output)
    * no FOLLOW, no `***`, fuel above the tree height (then the fuel is immaterial: C06).
  The proof is by induction on the part list (`Proofs/GlobParts.lean`) and, inside `**`, on the
  tree: `deep_iff_below` — what a `**` expansion yields is exactly the one-level listing of the
  directories `Below` the starting one (`Proofs/GlobDeep.lean`; this lemma holds with FOLLOW
  and `***` too, as "some fuel").
  Also proved: executable = declarative for the specification (`spec_exec_iff`,
  `spec_exec_top_iff`: `denoteList` / `denoteTop` with a large enough `**` depth enumerate
  exactly `Denotes` / `DenotesTop`), so the oracle of the failing-input search IS the spec.
  With FOLLOW / `***` (`C05_partial_follow`): the same equivalence below a directory, as
  "for some fuel" — the walker's results grow with the fuel (`globParts_mono`), so the fuels of
  nested expansions merge; on a cyclic tree no single fuel serves every path, which is why the
  statement cannot fix one.  (The first-part plumbing of `C05_partial` is not repeated for it.)
  `_GlobSplit` output satisfies `WFParts` and the two shape facts in `TopOK` for EVERY pattern
  string and flag word: proved in `Properties/C05split.lean` (`split_WFParts`, `split_drive`,
  `split_litText`, and `C05_partial_split` = this theorem with those hypotheses discharged for
  parts produced by `globSplit`; the model of `_GlobSplit` is tied to glob.py by the K5 split stream).
  The Bash clause is validated in the thorough tier (`denoteTop` vs bash 5.2), not proved.
-/
namespace WcModel.C05

/-- the executable oracle only produces paths the specification denotes -/
theorem spec_exec_sound (fs : FS) (c : WalkCfg) (fuel : Nat) (parts : List GPart) (d : Dir) (v : Y)
    (h : v ∈ denoteList fs c true fuel parts d) : Denotes fs c parts d v :=
  denoteList_sound fs c fuel parts d v h

/-- **executable = declarative**, below a directory … -/
theorem spec_exec_iff (fs : FS) (c : WalkCfg) (parts : List GPart) (d : Dir) (v : Y) :
    (∃ fuel, v ∈ denoteList fs c true fuel parts d) ↔ Denotes fs c parts d v := denoteList_iff fs c parts d v

/-- … and for whole patterns -/
theorem spec_exec_top_iff (fs : FS) (c : WalkCfg) (parts : List GPart) (v : Y) :
    (∃ fuel, v ∈ denoteTop fs c true fuel parts) ↔ DenotesTop fs c parts v := denoteTop_iff fs c parts v

theorem below_sound (fs : FS) (c : WalkCfg) (long : Bool) (fuel : Nat) (d d' : Dir)
    (h : d' ∈ belowList fs c long fuel d) : Below fs c long d d' := belowList_sound fs c long fuel d d' h

theorem below_complete (fs : FS) (c : WalkCfg) (long : Bool) (d d' : Dir) (h : Below fs c long d d') :
    ∃ fuel, d' ∈ belowList fs c long fuel d := belowList_complete fs c long h

/-- **C05_partial**: the candidates the walker finds for a pattern are exactly the paths the
    pattern denotes (hypotheses: see the file header). -/
theorem C05_partial (c : WalkCfg) (fs : FS) (hc : c.followLinks = false) (fuel : Nat) (hf : fs.top.height < fuel)
    (parts : List GPart) (hl : NoLong parts) (hwf : WFParts parts) (hag : SegAgree fs c parts)
    (ht : TopOK fs c parts) (v : Y) :
    v ∈ results (globPattern c fs fuel parts) ↔ DenotesTop fs c parts v :=
  globPattern_iff_denotesTop c fs hc fuel hf parts hl hwf hag ht v

/-- … and so the strings `glob()` returns for that pattern are exactly the denoted paths that
    no exclusion matches, formatted (`dir_only` / MARK). -/
theorem C05_partial_results (w : WCtx) (fs : FS) (hc : w.followLinks = false) (fuel : Nat)
    (hf : fs.top.height < fuel) (parts : List GPart) (hl : NoLong parts) (hwf : WFParts parts)
    (hag : SegAgree fs w.toWalkCfg parts) (ht : TopOK fs w.toWalkCfg parts) (x : List Char) :
    x ∈ perPattern w fs fuel parts ↔
      ∃ v, DenotesTop fs w.toWalkCfg parts v ∧ isExcluded w v = false ∧ x = formatPath w (dirOnlyOf parts) v := by
  rw [perPattern_eq]
  simp only [List.mem_map, List.mem_filter, Bool.not_eq_true']
  constructor
  · rintro ⟨v, ⟨hv, he⟩, rfl⟩
    exact ⟨v, (C05_partial w.toWalkCfg fs hc fuel hf parts hl hwf hag ht v).1 hv, he, rfl⟩
  · rintro ⟨v, hv, he, rfl⟩
    exact ⟨v, ⟨(C05_partial w.toWalkCfg fs hc fuel hf parts hl hwf hag ht v).2 hv, he⟩, rfl⟩

/-- **C05_partial with FOLLOW / `***`**, below a directory: for some fuel, the walker returns
    `v` iff the part list denotes it there (no hypothesis on links, long stars or tree height). -/
theorem C05_partial_follow (c : WalkCfg) (fs : FS) (absPat : Bool) (parts : List GPart) (d : Dir)
    (hwf : WFParts parts) (hag : SegAgree fs c parts) (hd : fs.locIsDir d.loc = true) (v : Y) :
    (∃ fuel, v ∈ results (globParts c fs absPat fuel parts d.path d.loc)) ↔ Denotes fs c parts d v :=
  globParts_iff_denotes_follow c fs absPat parts d.path d.loc hwf hag hd v

/-- **`SegAgree` is a theorem** (since the D14 repair): the matcher the walker applies to a
    compiled part (`fullmatch`) is the segment language, on every name -/
theorem segAgree_all (fs : FS) (c : WalkCfg) (parts : List GPart) : SegAgree fs c parts :=
  WcModel.segAgree_all fs c parts

/-- **C05_partial without `SegAgree`**: the candidates the walker finds are exactly the denoted
    paths — remaining hypotheses: no FOLLOW / `***`, fuel above the tree height, `WFParts`
    (every `_GlobSplit` output), `TopOK` (excludes D17). -/
theorem C05_main_walk (c : WalkCfg) (fs : FS) (hc : c.followLinks = false) (fuel : Nat) (hf : fs.top.height < fuel)
    (parts : List GPart) (hl : NoLong parts) (hwf : WFParts parts) (ht : TopOK fs c parts) (v : Y) :
    v ∈ results (globPattern c fs fuel parts) ↔ DenotesTop fs c parts v :=
  C05_partial c fs hc fuel hf parts hl hwf (segAgree_all fs c parts) ht v

/-- **C05_partial_results without `SegAgree`** -/
theorem C05_main_results (w : WCtx) (fs : FS) (hc : w.followLinks = false) (fuel : Nat)
    (hf : fs.top.height < fuel) (parts : List GPart) (hl : NoLong parts) (hwf : WFParts parts)
    (ht : TopOK fs w.toWalkCfg parts) (x : List Char) :
    x ∈ perPattern w fs fuel parts ↔
      ∃ v, DenotesTop fs w.toWalkCfg parts v ∧ isExcluded w v = false ∧ x = formatPath w (dirOnlyOf parts) v :=
  C05_partial_results w fs hc fuel hf parts hl hwf (segAgree_all fs w.toWalkCfg parts) ht x

/-- **C05_partial_follow without `SegAgree`**: FOLLOW / `***` included, below a directory, for
    some fuel — the only hypothesis left on the parts is `WFParts` -/
theorem C05_main_follow (c : WalkCfg) (fs : FS) (absPat : Bool) (parts : List GPart) (d : Dir)
    (hwf : WFParts parts) (hd : fs.locIsDir d.loc = true) (v : Y) :
    (∃ fuel, v ∈ results (globParts c fs absPat fuel parts d.path d.loc)) ↔ Denotes fs c parts d v :=
  C05_partial_follow c fs absPat parts d hwf (segAgree_all fs c parts) hd v

/-- the heart of it: a `**` expansion (any matcher, with or without FOLLOW / `***`) yields
    exactly the one-level listings of the directories `Below` the starting one -/
theorem star_is_below (c : WalkCfg) (fs : FS) (absPat : Bool) (m : Matcher) (dirOnly long : Bool) (d : Dir) (v : Y) :
    (∃ fuel, v ∈ results (globDir c fs absPat m dirOnly true long fuel d.path d.loc)) ↔
      ∃ d', Below fs c long d d' ∧ v ∈ shallow c fs absPat m dirOnly long d' :=
  deep_iff_below c fs absPat m dirOnly long d v

/-! ### witnesses -/

def wc : WalkCfg := { dot := false, caseSensitive := true, followLinks := false, fdMode := false }
def wU : WCtx := { wc with mark := false, pathlib := false, nounique := false, excl := [] }

/-- the compiled segment `[a]` as the parser emits it for a part: `^(?s:(?![/])[a][/]*?)$`
    reduced to what matters here: `^(?s:[a])$` -/
def reA : Re := .cat .bos (.cat (.flags true false (.cls false [.chr 'a' false])) .eos)
def pA : List GPart := [⟨.re "[a]".toList reA, true, false, false, false, false⟩]
/-- r/ = { "a\n" } -/
def tNl : FS := ⟨.dir [("a\n".toList, .file)], []⟩

/-- r/ = { "a\n", a } -/
def tNl2 : FS := ⟨.dir [("a\n".toList, .file), ("a".toList, .file)], []⟩

/-- **D14, repaired**: `glob('[a]')` used to return the file named `a\n` (the part regex was
    applied with `re.match`, and `$` accepts before a final newline — `reA.prefixmatch` below)
    although the pattern does not denote it.  With `fullmatch` the walker returns exactly the
    denoted names: nothing on `tNl`, only `a` on `tNl2`.  Fails again if the defect returns. -/
theorem D14_fixed_witness :
    globResults wU tNl 3 [pA] = [] ∧ denoteTop tNl wc true 3 pA = [] ∧
    DenotesB tNl wc 3 pA "a\n".toList = false ∧
    globResults wU tNl2 3 [pA] = ["a".toList] ∧ (denoteTop tNl2 wc true 3 pA).map (·.path) = ["a".toList] ∧
    reA.prefixmatch "a\n".toList = true ∧ reA.fullmatch "a\n".toList = false := by decide +kernel

/-- r/ = { f } (a regular file) -/
def tF : FS := ⟨.dir [("f".toList, .file)], []⟩
def pFdot : List GPart :=
  [⟨.lit "f".toList, false, false, false, true, false⟩, ⟨.lit ".".toList, false, false, false, false, false⟩]
def pFstar : List GPart :=
  [⟨.lit "f".toList, false, false, false, true, false⟩, ⟨.lit "**".toList, true, true, false, false, false⟩]

/-- **D17**: `glob('f/.')` → `['f/.']` and `glob('f/**')` → `['f/']` for a regular file `f`;
    neither is denoted (nothing lies below a file). -/
theorem D17_witness :
    globResults wU tF 3 [pFdot] = ["f/.".toList] ∧ denoteTop tF wc true 3 pFdot = [] ∧
    globResults wU tF 3 [pFstar] = ["f/".toList] ∧ denoteTop tF wc true 3 pFstar = [] := by decide +kernel

/-- … and through `dir_fd` the first of the two is *not* produced (the directory is opened
    before the fake entries are yielded): the result depends on how the root is given. -/
theorem D17_dirfd_witness :
    globResults { wU with fdMode := true } tF 3 [pFdot] = [] := by decide +kernel

/-- r/ = { a, A } -/
def tCase : FS := ⟨.dir [("a".toList, .file), ("A".toList, .file)], []⟩
/-- `*` as a compiled part, reduced to what matters here: `^(?s:(?!\.).*?)$` -/
def reStar : Re := .cat .bos (.cat (.flags true false (.cat (.look true (.lit '.')) (.star true .any))) .eos)
def pStar : List GPart := [⟨.re "*".toList reStar, true, false, false, false, false⟩]

/-- r/ = { b → (a link that cannot be resolved: to itself, or through a regular file), ok } -/
def tLoop : FS := ⟨.dir [("b".toList, .link none), ("ok".toList, .file)], []⟩

/-- **D32, repaired**: `glob('*')` used to omit a symlink whose `is_dir()` raises `OSError` (ELOOP, ENOTDIR) although the
    entry exists; the model (a link without a resolvable target is `.link none`, like a dangling one) always listed it —
    the disagreement surfaced while proving C16's match / rglob equivalence.  With the repair the walker returns what is
    denoted.  (K5 generates such links on real trees; this theorem pins the model side.) -/
theorem D32_fixed_witness :
    globResults wU tLoop 3 [pStar] = ["b".toList, "ok".toList] ∧
    (denoteTop tLoop wc true 3 pStar).map (·.path) = ["b".toList, "ok".toList] := by decide +kernel

/-- **KF-G2**: under IGNORECASE `glob('*')` returns `a` but not the different file `A` (one
    case-folded key in the seen-set); `*` denotes both. -/
theorem G2_witness :
    globResults { wU with caseSensitive := false } tCase 3 [pStar] = ["a".toList] ∧
    (denoteTop tCase { wc with caseSensitive := false } true 3 pStar).map (·.path) = ["a".toList, "A".toList] := by
  decide +kernel

/-- non-vacuity: where none of the defects is in reach, walker and specification agree —
    `a/**` on r/ = { a/ { b/ { c }, l -> r }, f } -/
def tOk : FS := ⟨.dir [("a".toList, .dir [("b".toList, .dir [("c".toList, .file)]), ("l".toList, .link (some []))]),
                        ("f".toList, .file)], []⟩
def pAstar : List GPart :=
  [⟨.lit "a".toList, false, false, false, true, false⟩, ⟨.lit "**".toList, true, true, false, false, false⟩]
example : globResults wU tOk 6 [pAstar] = ["a/".toList, "a/b".toList, "a/b/c".toList, "a/l".toList] ∧
    (denoteTop tOk wc true 6 pAstar).map (·.path) = ["a/".toList, "a/b".toList, "a/l".toList, "a/b/c".toList] := by
  decide +kernel

/-- non-vacuity of `C05_partial`: its hypotheses hold for `a/**` on `tOk` (all parts are
    literal or `**`), giving the equivalence for every `v` -/
example (v : Y) : v ∈ results (globPattern wc tOk 6 pAstar) ↔ DenotesTop tOk wc pAstar v := by
  apply C05_main_walk wc tOk rfl 6 (by decide +kernel) pAstar
  · intro p hp; simp [pAstar] at hp; rcases hp with rfl | rfl <;> rfl
  · exact ⟨rfl, trivial⟩
  · refine ⟨by decide +kernel, by decide +kernel, ?_, ?_, ?_⟩
    · intro p rest h; simp [pAstar] at h; obtain ⟨rfl, _⟩ := h; decide +kernel
    · intro p q rest h _ _; simp [pAstar] at h; obtain ⟨rfl, _, _⟩ := h; decide +kernel
    · intro p rest h _; simp [pAstar] at h; obtain ⟨rfl, _⟩ := h; rfl

end WcModel.C05

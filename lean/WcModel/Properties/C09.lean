import WcModel.Proofs.LiteralLang
import WcModel.Model.WinDrive
/-
  C09 — `escape` makes any string literal; non-magic patterns are literal.

  Proved on the FAITHFUL port of `WcParse` (the one tied to the code by regex-text equality),
  fnmatch mode with Unix rules, for EVERY string and EVERY flag record that `fnmatch` can pass:
    * `C09_escape` — the pattern `escape(s)` compiles to a regex whose full matches are exactly
      the strings equal to `s` character by character under the case rule in force
      (so it matches `s`, and nothing else up to case folding);
    * `C09_not_magic` — if `is_magic(p, flags)` is False, `p` itself is such a pattern.
  Both are instances of `literal_language` (a run of literal units becomes a run of literal
  items, by induction over the string through `rootLoop` / `parse_extend` / `_references`).
  The model of `escape` / `is_magic` is tied to the code by stream K3 (exhaustive short strings).
  Path mode with Unix rules (duplicate / trailing separators, NODOTDIR, REALPATH's `_NO_ROOT`) is proved in
  `Properties/C09path.lean` (`C09_escape_path_items`, `_language`, `_globmatch`, `C09_not_magic_path`).
  Not proved (partial): the Windows drive/UNC carve-out of `escape(unix=False)`; searched through the API.
-/
namespace WcModel.C09

def tokOf (c : Char) : LTok := ⟨c, c = '\\' ∨ c ∈ magicEscapeChars⟩

theorem escape_is_print (s : List Char) : escapeUnix s = printToks (s.map tokOf) := by
  induction s with
  | nil => rfl
  | cons c cs ih =>
    simp only [escapeUnix, List.flatMap_cons, List.map_cons, printToks] at ih ⊢
    rw [← ih]
    congr 1
    unfold escapeChar tokOf LTok.print
    by_cases h1 : c = '\\'
    · simp [h1]
    · by_cases h2 : c ∈ magicEscapeChars
      · simp [h1, h2]
      · simp [h1, h2]

theorem escape_ok (cfg : Cfg) (s : List Char) : okToks cfg (s.map tokOf) := by
  induction s with
  | nil => exact trivial
  | cons c cs ih =>
    refine ⟨?_, ih⟩
    unfold okTok
    by_cases he : (tokOf c).esc = true
    · exact Or.inl he
    · right
      have hne : c ≠ '\\' ∧ c ∉ magicEscapeChars := by
        simp only [tokOf, decide_eq_true_eq, not_or] at he; exact he
      have hm : ∀ x ∈ magicEscapeChars, c ≠ x := fun x hx hcx => hne.2 (hcx ▸ hx)
      refine ⟨hm '*' (by decide), hm '?' (by decide), hm '[' (by decide), hne.1, ?_⟩
      intro _ _
      cases cs with
      | nil => exact trivial
      | cons d ds =>
        show (tokOf d).esc = true ∨ (tokOf d).c ≠ '('
        by_cases hd : d = '('
        · left; subst hd; simp [tokOf, magicEscapeChars]
        · right; exact hd

/-- **C09, escape** (fnmatch mode, Unix rules; every string, every flag record) -/
theorem C09_escape (cfg : Cfg) (h : FnEntry cfg) (drive : List Char → DriveInfo) (s : List Char) :
    ∃ parsed r, parseItems cfg drive (escapeUnix s) = .ok parsed ∧ parsed.toRe = some r ∧
      ∀ s', r.FullMatch s' ↔ litEq (!cfg.caseSensitive) s s' = true := by
  obtain ⟨parsed, r, h1, h2, h3⟩ := literal_language cfg h drive (s.map tokOf) (escape_ok cfg s)
  refine ⟨parsed, r, by rw [escape_is_print]; exact h1, h2, ?_⟩
  intro s'
  rw [h3 s']
  have : List.map (fun x => x.c) (List.map tokOf s) = s := by
    clear h1 h3
    induction s with
    | nil => rfl
    | cons c cs ih => simp [tokOf, Function.comp] at ih ⊢; exact ih
  rw [this]

/-- in particular `escape(s)` matches `s` -/
theorem litEq_refl (ci : Bool) (s : List Char) : litEq ci s s = true := by
  induction s with
  | nil => rfl
  | cons c cs ih =>
    simp only [litEq, ih, Bool.and_true, litP]
    split
    · simp [*]
    · simp [charEq]

theorem C09_escape_matches_itself (cfg : Cfg) (h : FnEntry cfg) (drive : List Char → DriveInfo) (s : List Char) :
    ∃ parsed r, parseItems cfg drive (escapeUnix s) = .ok parsed ∧ parsed.toRe = some r ∧ r.FullMatch s := by
  obtain ⟨parsed, r, h1, h2, h3⟩ := C09_escape cfg h drive s
  exact ⟨parsed, r, h1, h2, (h3 s).mpr (litEq_refl _ s)⟩

/-- … and in case-sensitive mode nothing but `s` -/
theorem litEq_cs (s s' : List Char) (h : litEq false s s' = true) : s' = s := by
  induction s generalizing s' with
  | nil => cases s' with
    | nil => rfl
    | cons d ds => simp [litEq] at h
  | cons c cs ih =>
    cases s' with
    | nil => simp [litEq] at h
    | cons d ds =>
      simp only [litEq, Bool.and_eq_true] at h
      have := ih ds h.2
      have hc : d = c := by
        have h1 := h.1
        unfold litP at h1
        split at h1
        · rename_i hs; simp at h1; rw [h1, hs]
        · simp [charEq] at h1; exact h1.symm
      rw [hc, this]

/-- **C09, non-magic patterns** — for the flag record `f` (fnmatch mode, Unix rules):
    if no character of `p` is one of `is_magic`'s symbols, `p` is a literal pattern -/
theorem C09_not_magic (isBytes : Bool) (f : Flags) (drive : List Char → DriveInfo) (p : List Char)
    (hentry : FnEntry (Cfg.ofFlags isBytes f)) (hm : isMagicUnix f p = false) :
    ∃ parsed r, parseItems (Cfg.ofFlags isBytes f) drive p = .ok parsed ∧ parsed.toRe = some r ∧
      ∀ s', r.FullMatch s' ↔ litEq (!(Cfg.ofFlags isBytes f).caseSensitive) p s' = true := by
  have hno : ∀ c ∈ p, c ∉ magicSymbols f := by
    intro c hc hmem
    have : isMagicUnix f p = true := List.any_eq_true.mpr ⟨c, hc, by simpa using hmem⟩
    rw [hm] at this; cases this
  have hdef : ∀ c ∈ p, c ≠ '*' ∧ c ≠ '?' ∧ c ≠ '[' ∧ c ≠ '\\' := by
    intro c hc
    have := hno c hc
    have hd : ∀ x ∈ Gen.cMAGIC_DEF.toList, c ≠ x := by
      intro x hx hcx
      apply this
      unfold magicSymbols
      simp only [List.mem_append]
      exact Or.inl (Or.inl (Or.inl (Or.inl (Or.inl (hcx ▸ hx)))))
    exact ⟨hd '*' (by decide), hd '?' (by decide), hd '[' (by decide), hd '\\' (by decide)⟩
  have hparen : (Cfg.ofFlags isBytes f).extend = true → ∀ c ∈ p, c ≠ '(' := by
    intro he c hc hcx
    have hext : f.extmatch = true := by simpa [Cfg.ofFlags] using he
    apply hno c hc
    unfold magicSymbols
    simp only [List.mem_append, hext, ite_true]
    exact Or.inl (Or.inr (by subst hcx; decide))
  have hprint : p = printToks (p.map (fun c => (⟨c, false⟩ : LTok))) := by
    clear hm hno hdef hparen
    induction p with
    | nil => rfl
    | cons c cs ih => rw [List.map_cons, printToks_cons, ← ih]; simp [LTok.print]
  have hok : okToks (Cfg.ofFlags isBytes f) (p.map (fun c => (⟨c, false⟩ : LTok))) := by
    clear hm hno hprint
    induction p with
    | nil => exact trivial
    | cons c cs ih =>
      refine ⟨?_, ih (fun x hx => hdef x (List.mem_cons_of_mem _ hx))
        (fun he x hx => hparen he x (List.mem_cons_of_mem _ hx))⟩
      right
      have := hdef c List.mem_cons_self
      refine ⟨this.1, this.2.1, this.2.2.1, this.2.2.2, ?_⟩
      intro he _
      cases cs with
      | nil => exact trivial
      | cons d ds =>
        right
        exact hparen he d (List.mem_cons_of_mem _ List.mem_cons_self)
  obtain ⟨parsed, r, h1, h2, h3⟩ := literal_language _ hentry drive _ hok
  refine ⟨parsed, r, by rw [hprint]; exact h1, h2, ?_⟩
  intro s'
  rw [h3 s']
  have : List.map (fun x => x.c) (List.map (fun c => (⟨c, false⟩ : LTok)) p) = p := by
    clear hm hno hdef hparen hprint hok h1 h3
    induction p with
    | nil => rfl
    | cons c cs ih => simp [Function.comp] at ih ⊢; exact ih
  rw [this]

/-! ### non-vacuity and evaluation witnesses -/

def fnCfg (flags : Nat) : Cfg := Cfg.ofFlags false (Flags.ofNat (flags + Gen.FFORCEUNIX))

/-- the entry conditions hold for every fnmatch flag combination on Unix rules -/
theorem fnEntry_example : FnEntry (fnCfg (Gen.FEXTMATCH + Gen.FDOTMATCH + Gen.FIGNORECASE)) := by
  refine ⟨⟨?_, ?_, ?_, ?_, ?_⟩, ?_, ?_, ?_⟩ <;> decide +kernel

/-- a string made of every metacharacter: its escape, run through the faithful port, matches it -/
theorem metachar_witness :
    (match parseItems (fnCfg Gen.FEXTMATCH) (fun _ => default) (escapeUnix "a*?[]!(|)+@{}~-\\.b".toList) with
     | .ok parsed => (match parsed.toRe with
        | some r => r.fullmatch "a*?[]!(|)+@{}~-\\.b".toList && !r.fullmatch "a*?[]!(|)+@{}~-\\.c".toList
        | none => false)
     | .error _ => false) = true := by decide +kernel

end WcModel.C09

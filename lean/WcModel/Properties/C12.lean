import WcModel.Proofs.GlobExists
import WcModel.Proofs.GlobFlags
/-
  C12 — glob results are well-formed and independent of how the root is given.

  Output invariants of `GlobWalk.globResults`, for every tree, part list and flag record:

  * `iglob_eq_glob` — definitional (`iglob` is `yield from Glob(…).glob()`, `glob` is `list(iglob(…))`).
  * trailing separator (`_format_path`, 807-812): `sep_forced` — a result ends in a separator
    when the pattern ended with one or MARK is set and the candidate was flagged a directory;
    `sep_raw` — otherwise the candidate's path is returned as the walk spelled it (which ends
    in a separator only for the zero-level result `dir/` of a final `**` and for a bare `/`).
    NOTE (what the code really does): the separator is appended when `dir_only` holds
    *regardless of `is_dir`* — harmless for real entries (with `dir_only` the listing keeps
    directories only) but it is how `f/**/` would spell `f//`… see D17.
  * NODIR (`nodir_wired`, `nodir_excludes_dirs`): whenever NODIR is set the (POSIX)
    no-directory regex is among the exclusions, and it rejects EVERY candidate flagged a
    directory.  Two defects are repaired here: D18 (the regex had no `(?s:`, so a directory
    whose path contains a newline survived — the "no newline" hypothesis is gone) and D16 (the
    Windows variant was used on every host and also rejected a *file* whose name ends in a
    backslash); `D18_D16_fixed_witness` states the repaired behaviour on the old witness input.
  * `exists_partial` — **every result exists** (`lexists`, resolved at string level from
    scratch, as the OS does) **and ends with a separator only if it is a directory**, for every
    well-formed tree and every part list, under the hypotheses of `C05_main_walk` (they exclude
    D17; no FOLLOW / `***`; the `SegAgree` hypothesis that excluded D14 is discharged).  `flag_is_fs` — the `is_dir` flag the walker carries is
    what the file system says.  These go through the specification: a result is a denoted
    path (C05_partial), and every denoted path is well formed (`Proofs/GlobExists.lean`, which
    also proves that path resolution is compositional for the model's string-level resolver —
    the justification of the location-carrying walker model).
  * FALSE on the pinned tree without those hypotheses: `C12_exists` — D17 witness in C05
    (`f/.`, `f/`), and root independence — through `dir_fd` the fake `.`/`..` are not produced
    for a non-directory (witness `dirfd_differs`, KF-G4).

  Root independence (`root_dir` str / bytes / PathLike, `dir_fd`, cwd) is OS behaviour: one
  model run is compared with five real runs (K5), a checked, not proved, clause.
-/
namespace WcModel.C12

/-- **C12_iglob_eq_glob** -/
theorem iglob_eq_glob (w : WCtx) (fs : FS) (fuel : Nat) (ps : List (List GPart)) :
    iglobResults w fs fuel ps = globResults w fs fuel ps := rfl

/-- **C12_trailing_sep (⇐)**: pattern ended with a separator, or MARK and flagged a directory
    ⇒ the result ends with a separator -/
theorem sep_forced (w : WCtx) (dirOnly : Bool) (v : Y) (hv : v.path ≠ [])
    (h : dirOnly = true ∨ (w.mark = true ∧ v.isDir = true)) : endsWithSep (formatPath w dirOnly v) = true :=
  formatPath_sep w dirOnly v hv h

/-- **C12_trailing_sep (⇒)**: otherwise the path is returned exactly as the walk spelled it -/
theorem sep_raw (w : WCtx) (dirOnly : Bool) (v : Y)
    (h : dirOnly = false ∧ (w.mark = false ∨ v.isDir = false)) : formatPath w dirOnly v = v.path :=
  formatPath_raw w dirOnly v h

/-- every result is some candidate of the walk, not excluded, formatted -/
theorem result_shape (w : WCtx) (fs : FS) (fuel : Nat) (ps : List (List GPart)) (x : List Char)
    (hx : x ∈ globResults w fs fuel ps) :
    ∃ p ∈ ps, ∃ v ∈ results (globPattern w.toWalkCfg fs fuel p),
      isExcluded w v = false ∧ x = formatPath w (dirOnlyOf p) v := by
  have h1 := mem_results_uniqEv w _ [] hx
  rw [results_patterns] at h1
  obtain ⟨p, hp, hxp⟩ := List.mem_flatMap.1 h1
  rw [perPattern_eq] at hxp
  obtain ⟨v, hv, rfl⟩ := List.mem_map.1 hxp
  obtain ⟨hv1, hv2⟩ := List.mem_filter.1 hv
  exact ⟨p, hp, v, hv1, by simpa using hv2, rfl⟩

/-- **C12_nodir, wiring**: NODIR ⇒ the no-directory regex is an exclusion of the built object -/
theorem nodir_wired (g : GInit) (exps : List (List (List Char))) (excl : Option (List (List (List Char))))
    (o : GlobObj) (hn : g.nodir = true) (h : GlobObj.build g (some exps) excl = .ok o) :
    Frag.noNixDir ∈ (GlobObj.wctx g o).excl := build_nodir g exps excl o hn h

/-- **C12_nodir**: under NODIR no result comes from a candidate flagged a directory — with no
    exception (the "unless its path contains a newline" clause of D18 is gone) -/
theorem nodir_excludes_dirs (w : WCtx) (fs : FS) (fuel : Nat) (ps : List (List GPart)) (x : List Char)
    (hin : Frag.noNixDir ∈ w.excl) (hx : x ∈ globResults w fs fuel ps) :
    ∃ p ∈ ps, ∃ v ∈ results (globPattern w.toWalkCfg fs fuel p), x = formatPath w (dirOnlyOf p) v ∧
      v.isDir = false := by
  obtain ⟨p, hp, v, hv, hex, rfl⟩ := result_shape w fs fuel ps x hx
  refine ⟨p, hp, v, hv, rfl, ?_⟩
  cases hd : v.isDir with
  | false => rfl
  | true =>
    rw [noNixDir_excludes w v hin hd] at hex
    cases hex

/-- the same from the constructor: for whatever `Glob.__init__` builds under NODIR -/
theorem nodir_excludes_dirs_built (g : GInit) (exps : List (List (List Char))) (excl : Option (List (List (List Char))))
    (o : GlobObj) (hn : g.nodir = true) (h : GlobObj.build g (some exps) excl = .ok o)
    (fs : FS) (fuel : Nat) (ps : List (List GPart)) (x : List Char)
    (hx : x ∈ globResults (GlobObj.wctx g o) fs fuel ps) :
    ∃ p ∈ ps, ∃ v ∈ results (globPattern (GlobObj.wctx g o).toWalkCfg fs fuel p),
      x = formatPath (GlobObj.wctx g o) (dirOnlyOf p) v ∧ v.isDir = false :=
  nodir_excludes_dirs _ fs fuel ps x (nodir_wired g exps excl o hn h) hx

/-- **C12_exists_partial / C12_trailing_sep (only-if)**: every path `glob()` returns for a
    pattern exists and, if it ends with a separator, is a directory. -/
theorem exists_partial (w : WCtx) (fs : FS) (htree : fs.WFTree) (hc : w.followLinks = false) (fuel : Nat)
    (hf : fs.top.height < fuel) (parts : List GPart) (hl : NoLong parts) (hwf : WFParts parts)
    (ht : TopOK fs w.toWalkCfg parts) (x : List Char)
    (hx : x ∈ perPattern w fs fuel parts) :
    fs.lexists x = true ∧ (endsWithSep x = true → fs.isdir x = true) := by
  obtain ⟨v, hv, _, rfl⟩ :=
    (perPattern_iff_denotesTop w fs hc fuel hf parts hl hwf (segAgree_all fs w.toWalkCfg parts) ht x).1 hx
  exact format_good w fs (dirOnlyOf parts) v (denotesTop_good htree ht.rootDir hv) (denotesTop_dirOnly hv)

/-- the `is_dir` flag of every candidate is what the file system says about its path -/
theorem flag_is_fs (c : WalkCfg) (fs : FS) (htree : fs.WFTree) (hc : c.followLinks = false) (fuel : Nat)
    (hf : fs.top.height < fuel) (parts : List GPart) (hl : NoLong parts) (hwf : WFParts parts)
    (ht : TopOK fs c parts) (v : Y) (hv : v ∈ results (globPattern c fs fuel parts)) :
    v.isDir = fs.isdir v.path := by
  have g := denotesTop_good htree ht.rootDir
    ((globPattern_iff_denotesTop c fs hc fuel hf parts hl hwf (segAgree_all fs c parts) ht v).1 hv)
  unfold FS.isdir
  rw [g.resolves]; exact g.isDir

/-! ### witnesses -/

def wc : WalkCfg := { dot := false, caseSensitive := true, followLinks := false, fdMode := false }
def wN : WCtx := { wc with mark := false, pathlib := false, nounique := false, excl := [Frag.noNixDir] }
/-- `*` as a compiled part, reduced to what matters here: `^(?s:(?!\.).*?)$` (applied with `fullmatch`) -/
def reStar : Re := .cat .bos (.cat (.flags true false (.cat (.look true (.lit '.')) (.star true .any))) .eos)
def pStar : List GPart := [⟨.re "*".toList reStar, true, false, false, false, false⟩]

/-- r/ = { d/, "a\nb"/, f, "x\\" } -/
def tN : FS := ⟨.dir [("d".toList, .dir []), ("a\nb".toList, .dir []), ("f".toList, .file), ("x\\".toList, .file)], []⟩

/-- non-vacuity of `nodir_excludes_dirs`, and **D18** and **D16** repaired, at once:
    `glob('*', NODIR)` used to return `a\nb` and `f` — the directory `a\nb` survived NODIR (the
    regex had no DOTALL: D18) and the file `x\` was dropped (Windows regex on Linux: D16).  Now
    it returns exactly the two files `f` and `x\`, and neither directory.  Fails again if
    either defect returns. -/
theorem D18_D16_fixed_witness :
    globResults wN tN 3 [pStar] = ["f".toList, "x\\".toList] ∧
    -- (without NODIR the pattern does return the two directories: the exclusion is what removes them)
    globResults { wN with excl := [] } tN 3 [pStar] = ["d".toList, "a\nb".toList, "f".toList, "x\\".toList] := by
  decide +kernel

/-- the regex facts behind the two: `(?s:` — both variants cross a newline; a backslash counts
    as a separator for the Windows variant only (which `Glob` holds under FORCEWIN only) -/
theorem nodir_regex_facts :
    Frag.noNixDir.fullmatch "a\nb/".toList = true ∧ Frag.noWinDir.fullmatch "a\nb/".toList = true ∧
    Frag.noNixDir.fullmatch "ab/".toList = true ∧ Frag.noNixDir.fullmatch "a\nb".toList = false ∧
    Frag.noWinDir.fullmatch "x\\".toList = true ∧ Frag.noNixDir.fullmatch "x\\".toList = false := by
  decide +kernel

/-- MARK: directories get a separator, files do not -/
example : globResults { wN with excl := [], mark := true } tN 3 [pStar] =
    ["d/".toList, "a\nb/".toList, "f".toList, "x\\".toList] := by decide +kernel

def tF : FS := ⟨.dir [("f".toList, .file)], []⟩
def pFdot : List GPart :=
  [⟨.lit "f".toList, false, false, false, true, false⟩, ⟨.lit ".".toList, false, false, false, false, false⟩]

/-- **dirfd_differs** (KF-G4, a face of D17): `glob('f/.')` for a regular file `f` yields
    `['f/.']` when the root is given as `root_dir`/cwd and `[]` when it is given as `dir_fd` —
    the directory is opened *before* the fake entries are yielded only on the `dir_fd` path
    (glob.py 629-645). -/
theorem dirfd_differs :
    globResults { wN with excl := [] } tF 3 [pFdot] = ["f/.".toList] ∧
    globResults { wN with excl := [], fdMode := true } tF 3 [pFdot] = [] := by decide +kernel

/-- r/ = { a/ { b/ { c }, l -> r }, f } and the pattern `a/**` -/
def tOk : FS := ⟨.dir [("a".toList, .dir [("b".toList, .dir [("c".toList, .file)]), ("l".toList, .link (some []))]),
                        ("f".toList, .file)], []⟩
def pAstar : List GPart :=
  [⟨.lit "a".toList, false, false, false, true, false⟩, ⟨.lit "**".toList, true, true, false, false, false⟩]

/-- non-vacuity of `exists_partial`: all its hypotheses hold for `a/**` on `tOk` (a tree with a
    symlink cycle), so each of `a/`, `a/b`, `a/b/c`, `a/l` exists and `a/` is a directory -/
example (x : List Char) (hx : x ∈ perPattern { wN with excl := [] } tOk 6 pAstar) :
    tOk.lexists x = true ∧ (endsWithSep x = true → tOk.isdir x = true) := by
  apply exists_partial { wN with excl := [] } tOk (wfTree_of_wfB tOk (by decide +kernel)) rfl 6 (by decide +kernel)
    pAstar _ _ _ x hx
  · intro p hp; simp [pAstar] at hp; rcases hp with rfl | rfl <;> rfl
  · exact ⟨rfl, trivial⟩
  · refine ⟨by decide +kernel, by decide +kernel, ?_, ?_, ?_⟩
    · intro p rest h; simp [pAstar] at h; obtain ⟨rfl, _⟩ := h; decide +kernel
    · intro p q rest h _ _; simp [pAstar] at h; obtain ⟨rfl, _, _⟩ := h; decide +kernel
    · intro p rest h _; simp [pAstar] at h; obtain ⟨rfl, _⟩ := h; rfl

example : perPattern { wN with excl := [] } tOk 6 pAstar =
    ["a/".toList, "a/b".toList, "a/b/c".toList, "a/l".toList] := by decide +kernel

end WcModel.C12

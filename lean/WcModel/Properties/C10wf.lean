import WcModel.Properties.C10
import WcModel.Proofs.ParseWF
/-
  C10 — every string compiles to a WELL-FORMED regex (the part C10.lean left open).

  Proved on the faithful port of `WcParse` for every configuration and every string:
  the item list the pass returns is "closed well formed" (`WF false`): no `InvPlaceholder` is
  left, every `(?:(?!(?:…)` opening is directly followed by its closing `…)STAR)` item, no
  closing item is stray — recursively in group bodies and look-ahead tails — hence
  `Parsed.toRe` (fuel `2 * size + 4`) succeeds.  Together with `C10.parse_ok_of_not_noabs`
  the only way not to get a regex is the documented `ValueError` under `_NOABSOLUTE`.
-/
namespace WcModel.C10

/-- **C10wf** — generic form (any drive function whose items are plain fragments / closed
    groups, `DriveOK`). -/
theorem parse_wellformed (cfg : Cfg) (drive : List Char → DriveInfo)
    (hdrive : ∀ s, DriveOK (drive s)) (p : List Char) (parsed : Parsed)
    (h : parseItems cfg drive p = .ok parsed) : parsed.toRe.isSome = true :=
  parse_toRe_isSome cfg drive hdrive p parsed h

/-- **C10wf** — what the driver runs (`Driver.parsePattern`): for every flag word, `str` or
    `bytes`, and every string, the pass either raises the `_NOABSOLUTE` `ValueError` (and then
    `_NOABSOLUTE` is set) or returns items that form a well-formed regex AST. -/
theorem every_string_compiles (flags : Nat) (isBytes : Bool) (p : List Char) :
    match parseItems (Cfg.ofFlags isBytes (Flags.ofNat flags))
        (winDrive (Cfg.ofFlags isBytes (Flags.ofNat flags))) p with
    | .ok parsed => ∃ r, parsed.toRe = some r
    | .error e => e = .noAbsolute ∧ (Cfg.ofFlags isBytes (Flags.ofNat flags)).noAbs = true := by
  generalize Cfg.ofFlags isBytes (Flags.ofNat flags) = cfg
  cases h : parseItems cfg (winDrive cfg) p with
  | ok parsed =>
    exact Option.isSome_iff_exists.mp (parse_toRe_isSome_winDrive cfg p parsed h)
  | error e =>
    cases e
    refine ⟨rfl, ?_⟩
    cases hn : cfg.noAbs with
    | true => rfl
    | false =>
      obtain ⟨r, hr⟩ := parse_ok_of_not_noabs cfg (winDrive cfg) p hn
      rw [hr] at h; cases h

/-- without `_NOABSOLUTE` every string yields a regex AST -/
theorem every_string_compiles_of_not_noabs (cfg : Cfg) (p : List Char) (hn : cfg.noAbs = false) :
    ∃ parsed r, parseItems cfg (winDrive cfg) p = .ok parsed ∧ parsed.toRe = some r := by
  obtain ⟨parsed, hp⟩ := parse_ok_of_not_noabs cfg (winDrive cfg) p hn
  obtain ⟨r, hr⟩ := Option.isSome_iff_exists.mp (parse_toRe_isSome_winDrive cfg p parsed hp)
  exact ⟨parsed, r, hp, hr⟩

/-- non-vacuity: a pattern that leaves three placeholders open at top level (closed by the
    final `clean_up_inverse`) and nests `!(` in lists, on Windows path rules with a drive. -/
example :
    (match parseItems (Cfg.ofFlags false (Flags.ofNat (Gen.FEXTMATCH + Gen.FPATHNAME + Gen.FFORCEWIN)))
        (winDrive (Cfg.ofFlags false (Flags.ofNat (Gen.FEXTMATCH + Gen.FPATHNAME + Gen.FFORCEWIN))))
        "c:/!(a)!(b|+(!(c)))!(d)".toList with
      | .ok parsed => parsed.toRe.isSome && (parsed.items.length == 10)
      | .error _ => false) = true := by decide +kernel

end WcModel.C10

import WcModel.Proofs.CompPathNeg
import WcModel.Properties.C02path
/-
  C02 (continued) — `!(…)` inside path segments, and MATCHBASE.

  Chain, as in `C02path.lean`:
          toRe (parse p)  ≈  wrapRe (compPath (parsePath p))          (`tidyPathAgrees`, TESTED;
                                                                        under MATCHBASE: `agreesMB`, TESTED)
          FullMatch (wrapRe (compPath pp)) s ↔ pathLangR ctx .free pp s     (THIS FILE: proved, for
                                                                        segments in `Pat.segScopeN`)

  (a) one segment in the scope C01 states for `!(…)` — one top-level `!(body)` with a
      negation-free body, followed only by literal text — consumes exactly the separator-free
      texts of its documented language, FOR A MATCH THAT ENDS AT A PIECE BOUNDARY: the look-ahead
      `(?!(?:body)tail(?:$|[/]))` sees to the end of the piece.  (`segment_neg_sem`,
      `segment_neg_takes_one_piece`.)
  (b) `C02neg_globfree`, `C02neg_glob`: `C02path_globfree` / `C02path_glob` with segments in
      that scope.  `Pat.segScope ⊆ Pat.segScopeN` (`scope_extends`).  One hypothesis is
      stronger than in `C02path_globfree`: the subject must not end in a newline whatever
      DOTGLOB says — the `$` of `_PATH_EOP` inside the look-ahead accepts before a final
      newline (D3p once more; `D3p_neg_needed`).
  (c) MATCHBASE: `compPathMB` is what the port emits for a slash-less pattern (TESTED against
      the faithful port with and without GLOBSTAR); `C02_matchbase`: it accepts exactly the
      paths whose LAST piece is in the documented language of the pattern.  D6 (the pattern is
      itself `**`) is excluded by hypothesis there; `C02_matchbase_glob` shows that shape (two
      globstars, `compPathMBglob`, tested) is harmless on subjects with visible pieces.
-/
namespace WcModel.C02neg
open WcModel.C02path

/-! ### the tidy path compiler agrees with the faithful port on `!(…)` segments — TEST -/

/-- `C02path.testPatterns` already contains `!(a)`, `!(a)b`, `x!(a)b`, `!(a|b)/c`, `a/!(*.txt)`,
    `!(.a)`, `!(?(.)a)`, `!(a)/!(b)/`, `**/!(a)/**`; some more, all in `Pat.segScopeN` -/
def negTestPatterns : List String :=
  ["x!(a|b*)c", "src/!(*.c|*.h)/x!(y).o", "?(y)!(a)", "[ab]!(c)d", "!(+(?))", "/a/**/!(*.d)/x!(y|z).o",
   "!(.a)/x!(y)", "*!(a)", "!(a|?(b)c).txt/", "@(a)!([!x]*)"]

set_option maxRecDepth 100000 in
/-- TEST: 10 patterns × {no flags, DOTGLOB} × {no GLOBSTAR, GLOBSTAR}, with EXTGLOB -/
theorem tidyPath_agrees_neg_test :
    ([false, true].all fun dot => [false, true].all fun gs => negTestPatterns.all fun p =>
      tidyPathAgrees dot true gs p.toList == some true) = true := by decide +kernel

/-! ### (a) one segment -/

/-- **one compiled segment in the C01 scope, at the start of a visible piece, for a match that
    ends at a piece boundary**: it consumes exactly a separator-free text in the documented
    language of its pattern.  (`Pat.c01Scope`: one top-level `!(body)`, negation-free body,
    followed only by literals — or no negation at all.) -/
theorem segment_neg_sem (dot ci : Bool) (g : Pat) (hsc : g.c01Scope = true) (hs : g.noSlash = true)
    (hD1 : g.startSafe false = true) (a y : St) (hps : PStart dot ⟨true, ci⟩ a)
    (hy : AtSep y.rest)                               -- the match ends at a `/` or at the end
    (hD3 : a.rest.getLast? ≠ some '\n') :             -- `$` in `_PATH_EOP` (D3p)
    Re.M ⟨true, ci⟩ (compSeg dot true g) a y ↔ (Pat.L ci g a y ∧ NoSl a y) :=
  compSeg_scope_sem dot ci g hsc hs true a y (fun _ => ⟨hps, hD1⟩) hy (Or.inr hD3)

/-- the same away from the segment start (no condition on the piece, none on repeated groups) -/
theorem segment_neg_sem_inner (dot ci : Bool) (g : Pat) (hsc : g.c01Scope = true) (hs : g.noSlash = true)
    (a y : St) (hy : AtSep y.rest) (hD3 : a.rest.getLast? ≠ some '\n') :
    Re.M ⟨true, ci⟩ (compSeg dot false g) a y ↔ (Pat.L ci g a y ∧ NoSl a y) :=
  compSeg_scope_sem dot ci g hsc hs false a y (fun h => absurd h (by simp)) hy (Or.inr hD3)

/-- **continuation form**: followed by the rest `K` of a compiled pattern (anything that can only
    start at a separator or at the end: `RTail`), a segment in `Pat.segScopeN` takes exactly one
    non-empty piece, in its documented language -/
theorem segment_neg_takes_one_piece (dot ci : Bool) (g : Pat) (hg : g.segScopeN = true) (K : Re)
    (hK : RTail ⟨true, ci⟩ K) (a : St)
    (hvis : ∀ p ∈ pieces a.rest, visible dot p = true) (hD3 : a.rest.getLast? ≠ some '\n') :
    (∃ y, y.rest = [] ∧ Re.M ⟨true, ci⟩ (.cat (compSeg dot true g) K) a y) ↔
      ∃ p r, a.rest = p ++ r ∧ p ≠ [] ∧ '/' ∉ p ∧ AtSep r ∧ g.Lang ci p ∧
        ∃ y, y.rest = [] ∧ Re.M ⟨true, ci⟩ K ⟨false, r⟩ y :=
  M_segThen_iffN dot ci g hg K hK a ⟨hvis, hD3⟩

/-- the continuations that occur: `[/]+ …`, and the end of the pattern (`[/]+`? then `[/]*?`) -/
example (ci : Bool) (R : Re) : RTail ⟨true, ci⟩ (.cat (Frag.sepPlus false) R) := RTail_sep _ R
example (ci tr : Bool) : RTail ⟨true, ci⟩ (sepIf tr (Frag.pathTrail false)) := RTail_end _ tr

/-- executable view of one segment: (in scope?, remainders the compiled segment can leave,
    remainders the documented language can leave) -/
def segEnds (dot : Bool) (p s : String) : Option (Bool × List String × List String) :=
  (Grammar.parsePat true p.toList).map fun g =>
    (g.segScopeN && !g.negFree,
     (Re.ends ⟨true, false⟩ (compSeg dot true g) ⟨true, s.toList⟩).map (fun e => String.ofList e.rest),
     (Pat.ends false g ⟨true, s.toList⟩).map (fun e => String.ofList e.rest))

/-- non-vacuity: `x!(a*|?b).c` is in scope and contains a negation; the start condition holds
    at the beginning of `xzz.c/d`; the compiled segment consumes exactly `xzz.c`; and it refuses
    `xab.c` (`ab` is matched by `a*`) -/
example : PStart false ⟨true, false⟩ ⟨true, "xzz.c/d".toList⟩ :=
  pstart_of_piece _ false _ "xzz.c".toList "/d".toList rfl (by decide) (by decide) (Or.inr ⟨_, rfl⟩)
    (by decide) (Or.inl rfl)

theorem segment_nonvacuous :
    segEnds false "x!(a*|?b).c" "xzz.c/d" = some (true, ["/d"], ["/d"]) ∧
    segEnds false "x!(a*|?b).c" "xab.c/d" = some (true, [], []) := by decide +kernel

/-- the piece-boundary hypothesis is needed: from the start of `ab` the compiled `!(a)` can stop
    after `a` (the look-ahead only fails on `a` followed by `$` or `/`), the documented language
    cannot.  At a boundary (`a/b`) both refuse to stop after `a`. -/
theorem boundary_needed :
    segEnds false "!(a)" "ab" = some (true, ["ab", "b", ""], ["ab", ""]) ∧
    segEnds false "!(a)" "a/b" = some (true, [], ["a/b", "b", ""]) := by decide +kernel

/-! ### (b) whole patterns -/

/-- the new scope contains the old one -/
theorem scope_extends (g : Pat) (h : g.segScope = true) : g.segScopeN = true := segScopeN_of_segScope g h

/-- **C02, globstar-free patterns with `!(…)` segments (partial: minus D1p, D3p, non-solid
    segments; subjects with visible pieces only)**.  Every segment is in `Pat.segScopeN`: the scope
    C01 states (`Pat.c01Scope`), no `/`, repeated groups at the segment start have wildcard-free
    start positions (D1p), cannot succeed on an empty piece (`Pat.solidN`). -/
theorem C02neg_globfree (ctx : PCtx) (pp : PathPat)
    (hsegs : pp.segs.all Seg.patScopeN = true)
    (hwf : pp.segs = [] → pp.abs = true)
    (s : List Char)
    (hvis : ∀ p ∈ pieces s, visible ctx.dot p = true)
    (hD3 : s.getLast? ≠ some '\n') :                    -- `$` in `_PATH_EOP` / `_NO_DIR` (D3p)
    (wrapRe ctx.ci (compPath ctx.dot pp)).FullMatch s ↔ pathLangR ctx .free pp s = true :=
  compPath_globfree_semN ctx pp hsegs hwf s ⟨hvis, hD3⟩

/-- **C02, patterns with globstars and `!(…)` segments** (same hypotheses as `C02path_glob`,
    file-name segments in `Pat.segScopeN`) -/
theorem C02neg_glob (ctx : PCtx) (pp : PathPat)
    (hsegs : pp.segs.all Seg.scopeN = true)
    (hgg : noGG pp.segs = true)
    (hwf : pp.segs = [] → pp.abs = true)
    (s : List Char)
    (hvis : ∀ p ∈ pieces s, visible ctx.dot p = true)
    (hD3 : s.getLast? ≠ some '\n')
    (hD8 : pp.segs = [.glob] → pp.abs = false → pp.trailing = true → s ≠ []) :
    (wrapRe ctx.ci (compPath ctx.dot pp)).FullMatch s ↔ pathLangR ctx .free pp s = true :=
  compPath_glob_semN ctx pp hsegs hgg hwf s ⟨hvis, hD3⟩ hD8

/-- one row of a non-vacuity table: (pieces visible and no final newline, regex, specification) -/
def row (ctx : PCtx) (pp : PathPat) (s : String) : Bool × Bool × Bool :=
  ((pieces s.toList).all (visible ctx.dot) && (s.toList.getLast? != some '\n'),
   (wrapRe false (compPath ctx.dot pp)).fullmatch s.toList, pathLangR ctx .free pp s.toList)

def table (ctx : PCtx) (p : String) (ss : List String) : Option (Bool × Bool × Bool × List (Bool × Bool × Bool)) :=
  (parsePath ctx p.toList).map fun pp =>
    (pp.segs.all Seg.scopeN, pp.segs.all Seg.patScopeN, noGG pp.segs, ss.map (row ctx pp))

/-- non-vacuity: an absolute pattern with a globstar, a segment that is a bare negation with two
    alternatives and a segment `x!(y|z).o` meets every hypothesis of `C02neg_glob`; three subjects
    are accepted by both sides, three rejected by both (one because `m.d` is excluded, one because
    `xy.o` is, one because it is relative) -/
theorem nonvacuous_glob :
    (table (ctxG false) "/a/**/!(*.d)/x!(y|z).o"
      ["/a/m.c/xq.o", "//a/b/c/m.c//xyy.o", "/a/q/r/xw.o/x.o", "/a/m.d/xq.o", "/a/m.c/xy.o", "a/m.c/xq.o"] ==
    some (true, false, true,
      [(true, true, true), (true, true, true), (true, true, true),
       (true, false, false), (true, false, false), (true, false, false)])) = true := by decide +kernel

/-- … and a globstar-free one under DOTGLOB, on subjects with dot-pieces (`!(.a)` sets
    `match_dot_dir`: its star is the plain `[^/]*?`) -/
theorem nonvacuous_globfree_dotglob :
    (table (ctx0 true) "!(.a)/x!(y)" [".b/x", ".a/x", "q/xy", ".b//x.y/"] ==
    some (true, true, true,
      [(true, true, true), (true, false, false), (true, false, false), (true, true, true)])) = true := by
  decide +kernel

/-! ### every hypothesis is needed -/

/-- is every segment of the strictly-read pattern in the extended scope? -/
def inScope (dot : Bool) (p : String) : Option Bool :=
  (parsePath (ctx0 dot) p.toList).map fun pp => pp.segs.all Seg.patScopeN

/-- D3p through `_PATH_EOP`: the `$` inside the look-ahead of `!(a)` accepts before a final newline,
    so `a⏎` is taken for `a` and refused — without DOTGLOB, without a globstar (this is why
    `C02neg_globfree` asks more of the subject than `C02path_globfree`) -/
theorem D3p_neg_needed :
    tidyMatch false "!(a)" "a\n" = some false ∧ codeMatch false "!(a)" "a\n" = some false ∧
    specMatch false "!(a)" "a\n" = some true ∧ inScope false "!(a)" = some true ∧
    (pieces "a\n".toList).all (visible false) = true := by decide +kernel

/-- hidden pieces (C03): the star of `!(a)` refuses a leading dot, `.free` does not ask -/
theorem visible_needed_neg :
    tidyMatch false "!(a)" ".b" = some false ∧ codeMatch false "!(a)" ".b" = some false ∧
    specMatch false "!(a)" ".b" = some true := by decide +kernel

/-- D1p under a negation works the other way round: `+(?)` re-tests its guard before the last
    character of `a.` and fails, so `!(+(?))` ACCEPTS `a.`, which the documentation excludes -/
theorem D1p_neg_needed :
    tidyMatch false "!(+(?))" "a." = some true ∧ codeMatch false "!(+(?))" "a." = some true ∧
    specMatch false "!(+(?))" "a." = some false ∧ (pieces "a.".toList).all (visible false) = true ∧
    (match parsePath (ctx0 false) "!(+(?))".toList with
     | some pp => pp.segs.all fun s => match s with
        | .pat g => g.c01Scope && g.noSlash && g.solidN true && !g.startSafe false
        | .glob => false
     | none => false) = true := by decide +kernel

/-- a segment that is not solid matches between two separators: a `!(…)` that does not stand at
    the segment start has no `(?=[^/])` -/
theorem solidN_needed :
    tidyMatch false "x/?(y)!(a)/z" "x//z" = some true ∧ codeMatch false "x/?(y)!(a)/z" "x//z" = some true ∧
    specMatch false "x/?(y)!(a)/z" "x//z" = some false ∧ inScope false "x/?(y)!(a)/z" = some false ∧
    (pieces "x//z".toList).all (visible false) = true := by decide +kernel

/-- "followed only by literal text" is needed (as in C01): after `!(a)*` the look-ahead contains
    the `*`, so `a` is refused although `a` = (empty text, not `a`) + (`a`, matched by `*`) -/
theorem litTail_needed :
    tidyMatch false "!(a)*" "a" = some false ∧ codeMatch false "!(a)*" "a" = some false ∧
    specMatch false "!(a)*" "a" = some true ∧ inScope false "!(a)*" = some false := by decide +kernel

/-! ### (c) MATCHBASE -/

def flagWordMB (dot ext gs : Bool) : Nat := PathTidy.flagWord dot ext gs + Gen.FMATCHBASE

/-- the faithful port's regex AST under PATHNAME|FORCEUNIX|MATCHBASE (+DOTGLOB, +EXTGLOB, +GLOBSTAR) -/
def faithfulMB (dot ext gs : Bool) (p : List Char) : Option Re :=
  match parseItems (Cfg.ofFlags false (Flags.ofNat (flagWordMB dot ext gs))) (fun _ => default) p with
  | .error _ => none
  | .ok parsed => parsed.toRe

def ctxMB (dot ext gs : Bool) : PCtx := { PathTidy.ctxOf dot ext gs with matchbase := true }

/-- the tidy form: the strict reader under MATCHBASE yields `**/g`; compile `g` with `compPathMB` -/
def tidyMB (dot ext gs : Bool) (p : List Char) : Option Re :=
  (parsePath (ctxMB dot ext gs) p).bind fun pp =>
    match pp.segs with
    | [.glob, .pat g] => some (wrapRe false (compPathMB dot [.pat g]))
    | _ => none

/-- `some true`: both exist and agree modulo `PathTidy.canon` -/
def agreesMB (dot ext gs : Bool) (p : List Char) : Option Bool :=
  match tidyMB dot ext gs p, faithfulMB dot ext gs p with
  | some a, some b => some (PathTidy.canon a == PathTidy.canon b)
  | _, _ => none

def mbTestPatterns : List String :=
  ["a", "*", "?", "*.txt", "!(a)", "!(a)b", "x!(a|b)c", "+(a|b)", "[ab]?", ".a", "***", "**a", "a**",
   "@(a|?(b)c)[!x]!(d|e*).txt", "\\*a", "!(.a)", "*(a|b)*"]

set_option maxRecDepth 100000 in
/-- TEST: `compPathMB` is what the faithful port emits under MATCHBASE for slash-less patterns:
    17 patterns × {no flags, DOTGLOB} × {MATCHBASE alone, MATCHBASE|GLOBSTAR}, with EXTGLOB -/
theorem matchbase_agrees_test :
    ([false, true].all fun dot => [false, true].all fun gs => mbTestPatterns.all fun p =>
      agreesMB dot true gs p.toList == some true) = true := by decide +kernel

/-- without GLOBSTAR the pattern `**` is an ordinary `*` and is covered -/
theorem matchbase_agrees_starstar : agreesMB false true false "**".toList = some true := by decide +kernel

/-- **C02, MATCHBASE clause** ("with MATCHBASE a slash-less pattern matches the last segment of any
    path").  For a slash-less pattern `p` that the strict reader accepts under MATCHBASE and that
    is not itself a globstar (D6): the reader yields `**/g`, where `g` is what it reads without
    MATCHBASE; and if `g` is in `Pat.segScopeN`, then on every subject with visible pieces and no
    final newline (D3) the regex the port emits (`compPathMB`, tested above) accepts `s`
      ⟺ the specification of the MATCHBASE pattern accepts `s`
      ⟺ the LAST piece of `s` is in the documented language of `g`. -/
theorem C02_matchbase (ctx : PCtx) (p : List Char) (hsl : '/' ∉ p) (pp : PathPat)
    (hparse : parsePath {ctx with matchbase := true} p = some pp)
    (hD6 : pp.segs ≠ [.glob]) :
    ∃ g, parsePath {ctx with matchbase := false} p = some ⟨false, [.pat g], false⟩ ∧
      pp = ⟨false, [.glob, .pat g], false⟩ ∧
      (g.segScopeN = true → ∀ s : List Char, (∀ x ∈ pieces s, visible ctx.dot x = true) → s.getLast? ≠ some '\n' →
        ((wrapRe ctx.ci (compPathMB ctx.dot [.pat g])).FullMatch s ↔
            pathLangR {ctx with matchbase := true} .free pp s = true) ∧
        (pathLangR {ctx with matchbase := true} .free pp s = true ↔
            ∃ init x, pieces s = init ++ [x] ∧ g.Lang ctx.ci x)) := by
  obtain ⟨g, rfl, h0⟩ := parsePath_matchbase_pat ctx p hsl pp hparse hD6
  refine ⟨g, h0, rfl, fun hg s hvis hD3 => ⟨?_, ?_⟩⟩
  · exact compPathMB_sem {ctx with matchbase := true} g hg s ⟨hvis, hD3⟩
  · rw [pathLangR_matchbase]
    constructor
    · rintro ⟨init, x, e, _, hl⟩
      exact ⟨init, x, e, hl⟩
    · rintro ⟨init, x, e, hl⟩
      refine ⟨init, x, e, ?_, hl⟩
      rw [List.all_eq_true]
      intro q hq
      exact hvis q (by rw [e]; exact List.mem_append_left _ hq)

/-- the MATCHBASE form is the written `**/` form with one more `[/]*?`, which changes nothing -/
theorem matchbase_is_globstar_prefix (ci dot : Bool) (segs : List Seg) (s : List Char) :
    (wrapRe ci (compPathMB dot segs)).FullMatch s ↔
      (wrapRe ci (compPath dot ⟨false, .glob :: segs, false⟩)).FullMatch s :=
  compPathMB_fullmatch ci dot segs s

def tidyMatchMB (dot gs : Bool) (p s : String) : Option Bool :=
  (tidyMB dot true gs p.toList).map fun r => r.fullmatch s.toList
def specMatchMB (dot gs : Bool) (p s : String) : Option Bool :=
  (parsePath (ctxMB dot true gs) p.toList).map fun pp => pathLangR (ctxMB dot true gs) .free pp s.toList
def codeMatchMB (dot gs : Bool) (p s : String) : Option Bool :=
  (faithfulMB dot true gs p.toList).map fun r => r.fullmatch s.toList

/-- non-vacuity: `x!(a|b).c` is slash-less, accepted under MATCHBASE, in scope; on four subjects
    with visible pieces the port's regex, the tidy regex and the specification agree (two
    accepted: the last piece matches; two rejected: it does not / only an inner piece does) -/
theorem nonvacuous_matchbase :
    (match parsePath (ctxMB false true false) "x!(a|b).c".toList with
     | some pp => (pp.segs != [.glob]) && (pp.segs.all Seg.scopeN) && !("x!(a|b).c".toList.contains '/')
     | none => false) = true ∧
    (["xq.c", "/u//v/xab.c/", "xa.c", "xq.c/v"].map fun s =>
      ((pieces s.toList).all (visible false), tidyMatchMB false false "x!(a|b).c" s,
        codeMatchMB false false "x!(a|b).c" s, specMatchMB false false "x!(a|b).c" s)) =
      [(true, some true, some true, some true), (true, some true, some true, some true),
       (true, some false, some false, some false), (true, some false, some false, some false)] := by
  decide +kernel

/-- D6: when the pattern is itself `**` (MATCHBASE|GLOBSTAR) the port emits TWO globstars; the second
    one's guard `(?:[/]|^)\.` cannot see the `/` the first divider consumed, so the hidden `d/.hid`
    is accepted; the specification (one globstar) refuses it.  `compPathMB` does not model this
    shape (`tidyMB` = `none`): excluded by `hD6`. -/
theorem D6_witness :
    codeMatchMB false true "**" "d/.hid" = some true ∧ specMatchMB false true "**" "d/.hid" = some false ∧
    tidyMB false true true "**".toList = none ∧
    (parsePath (ctxMB false true true) "**".toList).map (·.segs) = some [.glob] := by decide +kernel

/-- TEST: … and `compPathMBglob` (two globstars) is what it emits for the pattern `**` under
    MATCHBASE|GLOBSTAR -/
theorem matchbase_glob_agrees_test :
    ([false, true].all fun dot =>
      (faithfulMB dot true true "**".toList).map (fun r => PathTidy.canon r ==
        PathTidy.canon (wrapRe false (compPathMBglob dot))) == some true) = true := by decide +kernel

/-- D6 only bites on hidden pieces: on subjects with visible pieces (and no final newline) the
    two-globstar regex and the specification of `**` under MATCHBASE both accept everything -/
theorem C02_matchbase_glob (ctx : PCtx) (s : List Char)
    (hvis : ∀ x ∈ pieces s, visible ctx.dot x = true) (hD3 : s.getLast? ≠ some '\n') :
    (wrapRe ctx.ci (compPathMBglob ctx.dot)).FullMatch s ∧
      pathLangR {ctx with matchbase := true} .free ⟨false, [.glob], false⟩ s = true :=
  have h := pathLangR_glob_alone {ctx with matchbase := true} s hvis
  ⟨(compPathMBglob_sem {ctx with matchbase := true} s ⟨hvis, hD3⟩).mpr h, h⟩

/-- D3 through `_GLOBSTAR_DIV`, under MATCHBASE: the pattern `?` matches `a⏎` — the implicit
    globstar swallows `a`, the divider's `$` accepts before the final newline, `?` takes the
    newline -/
theorem D3_matchbase_needed :
    codeMatchMB false false "?" "a\n" = some true ∧ tidyMatchMB false false "?" "a\n" = some true ∧
    specMatchMB false false "?" "a\n" = some false ∧ (pieces "a\n".toList).all (visible false) = true := by
  decide +kernel

end WcModel.C02neg

import WcModel.Properties.C03faithful
import WcModel.Properties.C03path
import WcModel.Properties.C17win

/-!
# C03 under Windows rules — hidden names in fnmatch mode with FORCEWIN

`C03faithful` proves, for the faithful port of `WcParse` under **Unix** rules, that a pattern which
matches a name beginning with a dot must begin with a written dot or with a leaky extended group.
`C17win` proves that matching under Windows rules is matching under Unix rules of the name with
every `\` replaced by `/`.  Normalising separators never touches a leading dot, so the first
theorem transfers: **under FORCEWIN (fnmatch mode, no DOTMATCH) hidden names are still refused**,
for every pattern text that contains neither a backslash nor a bracket (the hypotheses of
`win_eq_unix_ci`; `C17win.need_*` show each is needed there) and does not begin like a drive.

Nothing is assumed about the name: it may contain either separator.

* `C03_upper_win` — configuration form (Unix configuration `c`, its Windows twin `c.toWin`);
  `FnNoDot c` already contains the Unix-rules facts `win_eq_unix_ci` needs;
* `C03_hidden_never_win` — the contrapositive, as used in practice;
* `C03_forcewin_fn` — flag form: every fnmatch flag word with FORCEWIN and without DOTMATCH;
* `applied_*`, `nonvacuous` — all hypotheses discharged on concrete patterns; what the model says
  about the names in question (`decide +kernel`, witnesses).
-/
namespace WcModel.C03win
open WcModel WcModel.C03F WcModel.C17win

theorem normName_cons_dot (t : List Char) : normName ('.' :: t) = '.' :: normName t := by
  simp [normName]

/-- **C03 upper bound under Windows rules** (fnmatch mode, no DOTMATCH): a pattern whose Windows
    regex matches a name beginning with a dot begins with a written dot or a leaky group -/
theorem C03_upper_win {c : Cfg} (h : FnNoDot c) (p : List Char)
    (hp : JWs c.pathname p) (hd : NoWinDrive c p) {pW : Parsed} {rW : Re}
    (hW : parseItems c.toWin (winDrive c.toWin) p = .ok pW) (hrW : pW.toRe = some rW)
    (t : List Char) (hm : rW.FullMatch ('.' :: t)) :
    FirstTokIsDot p ∨ StartsWithLeakyGroup c p := by
  have hc : UnixCfg c := ⟨h.unix, h.wdd, h.bslash, h.realpath⟩
  obtain ⟨pU, hU⟩ := (win_ok_iff hc p hp.toJW hd).mp ⟨pW, hW⟩
  obtain ⟨rU, hrU⟩ := Option.isSome_iff_exists.mp (parse_toRe_isSome_winDrive c p pU hU)
  have hmU := (win_eq_unix_ci hc p hp hd hW hU hrW hrU ('.' :: t)).mp hm
  rw [normName_cons_dot] at hmU
  exact C03_upper_faithful_sharp c h (winDrive c) p _ rfl pU rU hU hrU hmU

/-- contrapositive: no written dot first, no leaky first group ⇒ no hidden name is matched under
    Windows rules either -/
theorem C03_hidden_never_win {c : Cfg} (h : FnNoDot c) (p : List Char)
    (hp : JWs c.pathname p) (hd : NoWinDrive c p) (h1 : ¬ FirstTokIsDot p)
    (h2 : ¬ StartsWithLeakyGroup c p) {pW : Parsed} {rW : Re}
    (hW : parseItems c.toWin (winDrive c.toWin) p = .ok pW) (hrW : pW.toRe = some rW)
    (t : List Char) : ¬ rW.FullMatch ('.' :: t) := fun hm =>
  (C03_upper_win h p hp hd hW hrW t hm).elim h1 h2

theorem isUnixStyle_unixTwin (f : Flags) : isUnixStyle (unixTwin f) = true := by
  unfold isUnixStyle unixTwin; simp [host_not_windows]

/-- **flag form**: every fnmatch-mode flag word with FORCEWIN and without DOTMATCH -/
theorem C03_forcewin_fn (isBytes : Bool) (f : Flags) (hw : f.forcewin = true)
    (h1 : f.pathname = false) (h2 : f.dotmatch = false) (h4 : f.anchor = false)
    (h5 : f.matchbase = false) (h6 : f.extmatchbase = false) (p : List Char)
    (hb : '\\' ∉ p) (hk : '[' ∉ p) (hpre : NoDrivePrefix p) {pW : Parsed} {rW : Re}
    (hW : parseItems (Cfg.ofFlags isBytes f) (winDrive (Cfg.ofFlags isBytes f)) p = .ok pW)
    (hrW : pW.toRe = some rW) (t : List Char) (hm : rW.FullMatch ('.' :: t)) :
    FirstTokIsDot p ∨ StartsWithLeakyGroup (Cfg.ofFlags isBytes (unixTwin f)) p := by
  have hfn : FnNoDot (Cfg.ofFlags isBytes (unixTwin f)) :=
    fnNoDot_ofFlags isBytes (unixTwin f) (by simpa [unixTwin] using h1) (by simpa [unixTwin] using h2)
      (isUnixStyle_unixTwin f) (by simpa [unixTwin] using h4) (by simpa [unixTwin] using h5)
      (by simpa [unixTwin] using h6)
  rw [ofFlags_forcewin isBytes f hw] at hW
  exact C03_upper_win hfn p ⟨hb, fun _ => hk⟩
    (noWinDrive_of_prefix (c := Cfg.ofFlags isBytes (unixTwin f)) (by simpa [Cfg.ofFlags, unixTwin] using h4)
      p hb hpre) hW hrW t hm

/-! ### non-vacuity and witnesses -/

/-- the flag hypotheses hold for `FORCEWIN | EXTMATCH`; on the model, `*a` and `?a` refuse `.a`
    and `.\a` under FORCEWIN, a written dot accepts them, and the non-hidden names `xa`, `x\a`
    are accepted (so the refusal is the dot rule, not the separator) -/
theorem nonvacuous :
    fnWin.forcewin = true ∧ fnWin.pathname = false ∧ fnWin.dotmatch = false ∧
    '\\' ∉ "*a".toList ∧ '[' ∉ "*a".toList ∧ NoDrivePrefix "*a".toList ∧
    codeMatch fnWin "*a" ".a" = some false ∧ codeMatch fnWin "*a" ".\\a" = some false ∧
    codeMatch fnWin "*a" "xa" = some true ∧ codeMatch fnWin "*a" "x\\a" = some true ∧
    codeMatch fnWin "?a" ".a" = some false ∧ codeMatch fnWin ".*a" ".\\a" = some true ∧
    codeMatch fnWin "@(|.)a" ".a" = some true :=
  ⟨rfl, rfl, rfl, by decide, by decide, noDrivePrefix_of_B (by decide), by decide +kernel,
    by decide +kernel, by decide +kernel, by decide +kernel, by decide +kernel, by decide +kernel,
    by decide +kernel⟩

/-- the theorem applied to `*a` (all hypotheses discharged): whatever regex the FORCEWIN run
    produces, it refuses every name `.t` unless the pattern begins with a dot or a leaky group —
    and `*a` begins with neither -/
theorem applied_star_a : ∀ rW, codeRe fnWin "*a" = some rW → ∀ t, ¬ rW.FullMatch ('.' :: t) := by
  intro rW h t hm
  unfold codeRe at h
  dsimp only at h
  split at h
  · rename_i pW hW
    have := C03_forcewin_fn false fnWin rfl rfl rfl rfl rfl rfl "*a".toList (by decide) (by decide)
      (noDrivePrefix_of_B (by decide)) hW h t hm
    rcases this with hdot | hleak
    · rcases hdot with ⟨t', e⟩ | ⟨t', e⟩ <;> simp at e
    · have hco := hleak.coarse
      obtain ⟨_, c, rest, e, _, _⟩ := hco
      simp at e
  · cases h

/-! ### path mode: hidden pieces and `.` / `..` after EITHER separator -/

open WcModel.C03P in
/-- **C03 upper bound, path mode under Windows rules, any piece**: if the Windows regex accepts a
    subject whose separator-normalised form has a hidden piece (a dot at the start or after `/`
    or `\`), then some segment of the pattern starts with a written dot or with one of the recorded
    leak shapes — the conclusion of `C03_upper_path_sharp`, on the items of the Unix run, of which
    the Windows run is the separator twin -/
theorem C03_upper_path_win (cfg : Cfg) (h : PathNoDot cfg) (hrp : cfg.realpath = false)
    (p s : List Char) (hb : '\\' ∉ p) (hd : NoWinDrive cfg p)
    (hh : HP.HasHidden (normName s)) {pW : Parsed} {rW : Re}
    (hW : parseItems cfg.toWin (winDrive cfg.toWin) p = .ok pW) (hrW : pW.toRe = some rW)
    (hm : rW.FullMatch s) :
    ∃ pU, parseItems cfg (winDrive cfg) p = .ok pU ∧ pW = pU.ms ∧
      HP.segScanG HP.grpSafe true pU.items = false ∧
      ∃ k, HP.kscan false HP.grpSafe ⟨true, false, false⟩ pU.items = .error k ∧
        (k = .dot ∨ k = .group ∨ k = .afterStar) := by
  have hc : UnixCfg cfg := ⟨h.unix, h.wdd, h.bslash, hrp⟩
  have hp : JWs cfg.pathname p := ⟨hb, fun e => by rw [h.pathname] at e; cases e⟩
  obtain ⟨pU, hU⟩ := (win_ok_iff hc p hp.toJW hd).mp ⟨pW, hW⟩
  obtain ⟨rU, hrU⟩ := Option.isSome_iff_exists.mp (parse_toRe_isSome_winDrive cfg p pU hU)
  have hmU := (win_eq_unix_ci hc p hp hd hW hU hrW hrU s).mp hm
  have htw := (win_toRe_twin hc p hp.toJW hd hW hU hrW hrU).1
  exact ⟨pU, hU, htw, C03_upper_path_sharp cfg h (winDrive cfg) p (normName s) hh pU rU hU hrU hmU⟩

open WcModel.C03P in
/-- … and the special directories under DOTGLOB: a subject whose normalised form has a piece
    `.` or `..` (between either separators) is accepted only if a segment start is unguarded -/
theorem C03_dotdir_path_win (cfg : Cfg) (h : PathGlob cfg) (hdot : cfg.dot = true) (hrp : cfg.realpath = false)
    (p s : List Char) (hb : '\\' ∉ p) (hd : NoWinDrive cfg p)
    (hh : HP.HasDotDir (normName s)) {pW : Parsed} {rW : Re}
    (hW : parseItems cfg.toWin (winDrive cfg.toWin) p = .ok pW) (hrW : pW.toRe = some rW)
    (hm : rW.FullMatch s) :
    ∃ pU, parseItems cfg (winDrive cfg) p = .ok pU ∧ pW = pU.ms ∧ HP.dirScan true pU.items = false := by
  have hc : UnixCfg cfg := ⟨h.unix, h.wdd, h.bslash, hrp⟩
  have hp : JWs cfg.pathname p := ⟨hb, fun e => by rw [h.pathname] at e; cases e⟩
  obtain ⟨pU, hU⟩ := (win_ok_iff hc p hp.toJW hd).mp ⟨pW, hW⟩
  obtain ⟨rU, hrU⟩ := Option.isSome_iff_exists.mp (parse_toRe_isSome_winDrive cfg p pU hU)
  have hmU := (win_eq_unix_ci hc p hp hd hW hU hrW hrU s).mp hm
  have htw := (win_toRe_twin hc p hp.toJW hd hW hU hrW hrU).1
  exact ⟨pU, hU, htw, C03_dotdir_path cfg h hdot (winDrive cfg) p (normName s) hh pU rU hU hrU hmU⟩

/-- witnesses on the model (`globWin` = FORCEWIN | PATHNAME | GLOBSTAR | EXTMATCH): `a/*` and
    `**/x` refuse a hidden piece after a backslash, a written dot accepts it -/
theorem path_nonvacuous :
    codeMatch globWin "a/*" "a\\.h" = some false ∧ codeMatch globWin "a/*" "a\\h" = some true ∧
    codeMatch globWin "**/x" "a\\.d\\x" = some false ∧ codeMatch globWin "**/x" "a\\d\\x" = some true ∧
    codeMatch globWin "a/.*" "a\\.h" = some true := by
  decide +kernel

end WcModel.C03win

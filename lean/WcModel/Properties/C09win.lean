import WcModel.Proofs.EscapeWinPath
import WcModel.Proofs.EscapeWinLetter
import WcModel.Proofs.EscapeWinNoDrive
import WcModel.Proofs.EscapeWinDevice
import WcModel.Properties.C09path
import WcModel.Model.WinDrive
/-
  C09 under WINDOWS RULES (FORCEWIN) — `escape` makes any string literal — on the FAITHFUL port
  of `WcParse`, for EVERY string and every flag record of the mode.

  (1) fnmatch mode (`fnmatch.escape` = the Unix escape on every platform: `pathname=False`
      switches the drive carve-out off):
        `C09_escape_fn_win`   language of `escape(s)` = { s' | WinLitEq ci s s' } — character by
                              character, `/` and `\` interchangeable, ASCII case folded unless CASE.
  (2) path mode, no drive (`glob.escape(s, unix=False)` = the Unix escape when `RE_WIN_DRIVE` does
      not match; the parser's `_get_win_drive` finds no drive either):
        `C09_escape_path_win` language of `escape(s)` = { name | WinPathLitEq cfg s name } — the Unix
                              statement `PathLitEq` on both sides normalised (`\` ↦ `/`): `[\\/]+`
                              for a run of separators, trailing separators, pieces under the case
                              rule, the NODOTDIR guard (D3).
        `C09_escape_path_win_noDrive`  the same through the model of `escape(unix=False)`
                              (`EscW.escapeWin`) and the real drive scanner, under `NoDriveAgree`;
        `C09_escape_path_win_prefix`   … for every `s` that starts neither with `x:` nor with two
                              separators (`NoDrivePrefixW`), no other hypothesis.
  (3) path mode, the drive / UNC carve-out: `s = drive ++ rest`,
        `C09_escape_drive_win`  under the decidable hypothesis `DriveAgree cfg drive rest` ("escape's
                              drive regex `RE_WIN_DRIVE` and the parser's `_get_win_drive` agree on
                              `s`"): language of `escape(s, unix=False)` =
                              { d' ++ t | DriveEq core d' ∧ DTail cfg slash rest t } — the drive text
                              literally, ALWAYS case-insensitively (also under CASE), `/` ≈ `\` in the
                              UNC forms; then (if the drive ends with a separator) `[\\/]+` and the rest
                              as in (2) from "just after a separator".  REALPATH is allowed here.
        `C09_escape_drive_letter_*`  the hypothesis PROVED for the drive-letter forms `l:/…`, `l:\…`,
                              `l:`, `l:\n` — every ASCII letter, every rest, every flag record.
        `C09_escape_drive_unc_sep`, `_end`  … and for the plain UNC forms `sep sep host sep share [sep rest]`
                              — all separators, every separator-free host (other than `?` / `.`) and share
                              (metacharacters included: only `{ } |` are escaped, and un-escaped by the
                              parser), every rest, every flag record.
                              Also proved (Proofs/EscapeWinUnc.lean, EscapeWinDevice.lean): the device forms
                              `//?/c:[/rest]` (`driveAgree_devLetter_sep/_end`) and `//?/UNC/h/s[/rest]` for
                              every spelling of the keyword (`driveAgree_devUnc_sep/_end`).  The `GLOBAL`
                              device forms are covered by evaluation only (`driveAgree_shapes`).
        `driveAgree_shapes`   `decide +kernel`: the hypothesis holds on the standard shapes
                              (`c:/`, `//host/share/`, `\\\\host\\share\\`, `//?/c:/`, `//?/UNC/h/s/`,
                              `//./GLOBAL/GLOBAL/c:/`, `//?/GLOBAL/UNC/h/s/`, metacharacters in the drive);
        `kf_d28_*`            … and fails on the KF-D28 witness `//?/UNC/file` for EVERY split, where the
                              conclusion fails too (`//q/UNC/file` is matched);
        `unc_double_sep_*`    a second disagreement found here (not in known_findings): `//a//b` — escape
                              carves nothing, the parser finds the drive `//a/b` (its `finditer` skips the
                              extra separator), and `escape(s)` does NOT match `s`.
-/
set_option linter.unusedSimpArgs false
namespace WcModel.C09win

open WcModel

/-! ## (1) fnmatch mode -/

/-- **C09, escape, fnmatch mode under Windows rules** (every string, every flag record):
    `escape(s)` compiles to a regex whose full matches are exactly the strings equal to `s`
    character by character, where `/` and `\` are interchangeable and ASCII case is folded unless
    CASE is given -/
theorem C09_escape_fn_win (cfg : Cfg) (h : FnWinEntry cfg) (drive : List Char → DriveInfo) (s : List Char) :
    ∃ parsed r, parseItems cfg drive (escapeUnix s) = .ok parsed ∧ parsed.toRe = some r ∧
      ∀ s', r.FullMatch s' ↔ WinLitEq (!cfg.caseSensitive) s s' = true := by
  obtain ⟨parsed, r, h1, h2, h3⟩ := literal_language_win cfg h drive (s.map C09.tokOf) (C09.escape_ok cfg s)
  refine ⟨parsed, r, by rw [C09.escape_is_print]; exact h1, h2, ?_⟩
  intro s'
  rw [h3 s']
  have : List.map (fun x => x.c) (List.map C09.tokOf s) = s := by
    clear h1 h3
    induction s with
    | nil => rfl
    | cons c cs ih => simp [C09.tokOf, Function.comp] at ih ⊢; exact ih
  rw [this]

/-- `WinLitEq`, both directions spelled out: same length and position by position either both
    are separators or (the pattern's character is not a separator and) they are equal under the
    case rule -/
theorem WinLitEq_iff (ci : Bool) (s s' : List Char) :
    WinLitEq ci s s' = true ↔
      s.length = s'.length ∧ ∀ i (h : i < s.length) (h' : i < s'.length),
        (isSepW s[i] = true ∧ isSepW s'[i] = true) ∨ (isSepW s[i] = false ∧ charEq ci s[i] s'[i] = true) := by
  induction s generalizing s' with
  | nil => cases s' <;> simp [WinLitEq]
  | cons c cs ih =>
    cases s' with
    | nil => simp [WinLitEq]
    | cons d ds =>
      simp only [WinLitEq, Bool.and_eq_true, ih, List.length_cons, Nat.add_right_cancel_iff]
      constructor
      · rintro ⟨h0, hl, hi⟩
        refine ⟨hl, fun i h h' => ?_⟩
        cases i with
        | zero =>
          simp only [List.getElem_cons_zero]
          unfold litPW at h0
          cases hc : isSepW c <;> simp_all
        | succ j => simpa using hi j (by simpa using h) (by simpa using h')
      · rintro ⟨hl, hi⟩
        refine ⟨?_, hl, fun i h h' => by
          have := hi (i + 1) (by simpa using h) (by simpa using h')
          simp only [List.getElem_cons_succ] at this
          exact this⟩
        have := hi 0 (by simp) (by simp)
        simp only [List.getElem_cons_zero] at this
        unfold litPW
        rcases this with ⟨a, b⟩ | ⟨a, b⟩ <;> simp [a, b]

/-- it is the Unix relation `litEq` on both sides normalised (`\` ↦ `/`) -/
theorem WinLitEq_eq_nrm (ci : Bool) (s s' : List Char) :
    WinLitEq ci s s' = litEq ci (nrmL s) (nrmL s') := by
  induction s generalizing s' with
  | nil => cases s' <;> rfl
  | cons c cs ih =>
    cases s' with
    | nil => rfl
    | cons d ds =>
      simp only [WinLitEq, nrmL_cons, litEq, ih]
      congr 1
      unfold litPW litP
      by_cases hc : isSepW c = true
      · have : nrm c = '/' := (nrm_eq_slash c).mpr ((isSepW_iff c).mp hc).symm
        simp only [hc, this, ite_true]
        rw [Bool.eq_iff_iff]
        simp only [isSepW_iff, beq_iff_eq, nrm_eq_slash]
        exact Or.comm
      · have hc' : isSepW c = false := by simpa using hc
        obtain ⟨n1, n2, n3⟩ := nrm_nonsep hc'
        simp only [hc', n1, n2, Bool.false_eq_true, ite_false]
        exact nrm_lit_plain ci n2 n3 d

theorem WinLitEq_refl (ci : Bool) (s : List Char) : WinLitEq ci s s = true := by
  induction s with
  | nil => rfl
  | cons c cs ih =>
    simp only [WinLitEq, ih, Bool.and_true, litPW]
    split
    · assumption
    · simp [charEq]

/-- `escape(s)` matches `s`, and `s` with its separators swapped -/
theorem C09_escape_fn_win_matches_itself (cfg : Cfg) (h : FnWinEntry cfg) (drive : List Char → DriveInfo)
    (s : List Char) :
    ∃ parsed r, parseItems cfg drive (escapeUnix s) = .ok parsed ∧ parsed.toRe = some r ∧ r.FullMatch s := by
  obtain ⟨parsed, r, h1, h2, h3⟩ := C09_escape_fn_win cfg h drive s
  exact ⟨parsed, r, h1, h2, (h3 s).mpr (WinLitEq_refl _ s)⟩

/-- in case-sensitive mode (CASE) nothing but `s` up to the separators -/
theorem WinLitEq_cs (s s' : List Char) (h : WinLitEq false s s' = true) : nrmL s' = nrmL s := by
  rw [WinLitEq_eq_nrm] at h
  exact C09.litEq_cs _ _ h

/-- `Cfg.ofFlags` gives `FnWinEntry` for every flag record with FORCEWIN and without PATHNAME /
    MATCHBASE / the internal bits (what `fnmatch.FLAG_MASK` lets through) -/
theorem fnWinEntry_ofFlags (isBytes : Bool) (f : Flags) (hw : f.forcewin = true) (hp : f.pathname = false)
    (hm : f.matchbase = false) (ha : f.anchor = false) (he : f.extmatchbase = false) :
    FnWinEntry (Cfg.ofFlags isBytes f) := by
  have hu : isUnixStyle f = false := by simp [isUnixStyle, hw]
  refine ⟨⟨?_, ?_, ?_, ?_, ?_⟩, ?_, ?_, ?_⟩ <;> simp [Cfg.ofFlags, hp, hu, hm, ha, he]

/-! ### non-vacuity and evaluation witnesses, fnmatch mode -/

def fnWinCfg (flags : Nat) : Cfg := Cfg.ofFlags false (Flags.ofNat (flags + Gen.FFORCEWIN))

theorem fnWinEntry_example : FnWinEntry (fnWinCfg (Gen.FEXTMATCH + Gen.FDOTMATCH)) := by
  refine ⟨⟨?_, ?_, ?_, ?_, ?_⟩, ?_, ?_, ?_⟩ <;> decide +kernel

/-- a string made of every metacharacter and both separators: its escape, run through the faithful
    port under FORCEWIN, matches it, matches it with the separators swapped and the case changed,
    and does not match a different string -/
theorem metachar_witness_win :
    (match parseItems (fnWinCfg Gen.FEXTMATCH) (fun _ => default) (escapeUnix "a/*?[]!(|)+@{}~-\\.b".toList) with
     | .ok parsed => (match parsed.toRe with
        | some r => r.fullmatch "a/*?[]!(|)+@{}~-\\.b".toList && r.fullmatch "A\\*?[]!(|)+@{}~-/.B".toList
            && !r.fullmatch "a/*?[]!(|)+@{}~-\\.c".toList && !r.fullmatch "a/*?[]!(|)+@{}~-.b".toList
        | none => false)
     | .error _ => false) = true := by decide +kernel

/-- under CASE only the separators stay interchangeable -/
theorem case_witness_win :
    (match parseItems (fnWinCfg Gen.FCASE) (fun _ => default) (escapeUnix "a/b".toList) with
     | .ok parsed => (match parsed.toRe with
        | some r => r.fullmatch "a\\b".toList && !r.fullmatch "A/b".toList
        | none => false)
     | .error _ => false) = true := by decide +kernel

/-! ## (2) path mode, no drive -/

/-- **the language of `escape(s)` in path mode under Windows rules**: the Unix statement on both
    sides normalised (`\` ↦ `/`) — i.e. (for `s ≠ ""`) same leading-separator status, a trailing
    separator of `s` must be present, the non-empty pieces between runs of `[\\/]` agree one by one
    under the case rule, and (NODOTDIR) the name does not end in a segment `.\n` / `..\n` -/
def WinPathLitEq (cfg : Cfg) (s name : List Char) : Prop := C09path.PathLitEq cfg (nrmL s) (nrmL name)

/-- the Unix regex of a literal and `PathLitEq` (the last step of `literal_language_path`, for
    any configuration: `pathLitRe` reads only `realpath`, `caseSensitive`, `nodotdir`) -/
theorem pathLitRe_language (cfg : Cfg) (s name : List Char) :
    (pathLitRe cfg s).FullMatch name ↔ C09path.PathLitEq cfg s name := by
  rw [pathLitRe_fullMatch]
  unfold C09path.PathLitEq
  by_cases hs : s = []
  · simp [hs]
  · simp only [hs, ite_false]
    rw [PM_split, PM0_start_spec _ _ name hs]
    simp only [LPos.after, and_assoc]

/-- **the language of a literal pattern in path mode, Windows rules, no drive** -/
theorem literal_language_path_win (cfg : Cfg) (h : PathWinEntry cfg) (drive : List Char → DriveInfo)
    (ts : List LTok) (hok : pokToks cfg ts) (hnd : (drive (printToks ts)).drive = none) :
    ∃ parsed r, parseItems cfg drive (printToks ts) = .ok parsed ∧ parsed.toRe = some r ∧
      ∀ name, r.FullMatch name ↔ WinPathLitEq cfg (tokChars ts) name := by
  refine ⟨_, pathLitReW cfg (tokChars ts), parseItems_plitsW cfg h drive ts hok hnd,
    toRe_pathItemsW cfg h.realpath _, ?_⟩
  intro name
  rw [pathLitReW_fullMatch, pathLitRe_language]
  rfl

/-- **C09 path mode under Windows rules, no drive (a): the items** -/
theorem C09_escape_path_win_items (cfg : Cfg) (h : PathWinEntry cfg) (drive : List Char → DriveInfo)
    (s : List Char) (hnd : (drive (escapeUnix s)).drive = none) :
    parseItems cfg drive (escapeUnix s) = .ok { items := pathItemsW cfg s, ci := !cfg.caseSensitive } := by
  rw [C09.escape_is_print] at hnd
  have := parseItems_plitsW cfg h drive (s.map C09.tokOf) (C09path.escape_pok cfg s) hnd
  rw [← C09.escape_is_print, C09path.tokChars_tokOf] at this
  exact this

/-- **C09 path mode under Windows rules, no drive (b): the language** — for every string `s` in
    which the parser's drive scanner finds no drive (`noDrive_of_prefix`: `s` starts neither with
    `x:` nor with two separators), every flag record of path mode with FORCEWIN (no MATCHBASE, no
    REALPATH) -/
theorem C09_escape_path_win (cfg : Cfg) (h : PathWinEntry cfg) (drive : List Char → DriveInfo)
    (s : List Char) (hnd : (drive (escapeUnix s)).drive = none) :
    ∃ parsed r, parseItems cfg drive (escapeUnix s) = .ok parsed ∧ parsed.toRe = some r ∧
      ∀ name, r.FullMatch name ↔ WinPathLitEq cfg s name := by
  rw [C09.escape_is_print] at hnd
  have := literal_language_path_win cfg h drive (s.map C09.tokOf) (C09path.escape_pok cfg s) hnd
  rw [← C09.escape_is_print, C09path.tokChars_tokOf] at this
  exact this

/-- `escape(s)` matches `s` (except the D3 strings under NODOTDIR) … -/
theorem C09_escape_path_win_self (cfg : Cfg) (h : PathWinEntry cfg) (drive : List Char → DriveInfo)
    (s : List Char) (hnd : (drive (escapeUnix s)).drive = none)
    (hD3 : cfg.nodotdir = true → dotNlTail true (nrmL s) = false) :
    ∃ parsed r, parseItems cfg drive (escapeUnix s) = .ok parsed ∧ parsed.toRe = some r ∧ r.FullMatch s := by
  obtain ⟨parsed, r, h1, h2, h3⟩ := C09_escape_path_win cfg h drive s hnd
  exact ⟨parsed, r, h1, h2, (h3 s).mpr ((C09path.PathLitEq_self cfg (nrmL s)).mpr hD3)⟩

/-- … and every name that differs from a matched one only in the choice of `/` or `\` -/
theorem C09_escape_path_win_sep (cfg : Cfg) (h : PathWinEntry cfg) (drive : List Char → DriveInfo)
    (s : List Char) (hnd : (drive (escapeUnix s)).drive = none) (name name' : List Char)
    (hn : nrmL name = nrmL name') :
    ∃ parsed r, parseItems cfg drive (escapeUnix s) = .ok parsed ∧ parsed.toRe = some r ∧
      (r.FullMatch name ↔ r.FullMatch name') := by
  obtain ⟨parsed, r, h1, h2, h3⟩ := C09_escape_path_win cfg h drive s hnd
  refine ⟨parsed, r, h1, h2, ?_⟩
  rw [h3, h3]
  unfold WinPathLitEq
  rw [hn]

theorem pathWinEntry_ofFlags (isBytes : Bool) (f : Flags) (hw : f.forcewin = true) (hp : f.pathname = true)
    (hm : f.matchbase = false) (ha : f.anchor = false) (he : f.extmatchbase = false)
    (hn : f.noabsolute = false) (hr : f.realpath = false) : PathWinEntry (Cfg.ofFlags isBytes f) := by
  have hu : isUnixStyle f = false := by simp [isUnixStyle, hw]
  refine ⟨⟨?_, ?_, ?_, ?_⟩, ?_, ?_, ?_, ?_, ?_⟩ <;> simp [Cfg.ofFlags, hp, hu, hm, ha, he, hn, hr]

/-! ### (2') through the model of `escape(unix=False)` and the real drive scanner -/

open EscW in
/-- **C09 path mode under Windows rules, no drive**, for `glob.escape(s, unix=False)` and the real
    `_get_win_drive`: under "neither scanner finds a drive" -/
theorem C09_escape_path_win_noDrive (cfg : Cfg) (h : PathWinEntry cfg) (s : List Char)
    (hag : NoDriveAgree cfg s = true) :
    ∃ parsed r, parseItems cfg (winDrive cfg) (escapeWin s) = .ok parsed ∧ parsed.toRe = some r ∧
      ∀ name, r.FullMatch name ↔ WinPathLitEq cfg s name := by
  unfold NoDriveAgree at hag
  simp only [Bool.and_eq_true, beq_iff_eq, Option.isNone_iff_eq_none] at hag
  rw [escapeWin_noCarve s hag.1]
  exact C09_escape_path_win cfg h (winDrive cfg) s hag.2

open EscW in
/-- … in particular for every string that starts neither with `x:` nor with two separators -/
theorem C09_escape_path_win_prefix (cfg : Cfg) (h : PathWinEntry cfg) (s : List Char) (hp : NoDrivePrefixW s) :
    ∃ parsed r, parseItems cfg (winDrive cfg) (escapeWin s) = .ok parsed ∧ parsed.toRe = some r ∧
      ∀ name, r.FullMatch name ↔ WinPathLitEq cfg s name :=
  C09_escape_path_win_noDrive cfg h s (noDriveAgree_of_prefixW cfg s hp).1

/-! ### non-vacuity and evaluation witnesses, path mode without a drive -/

/-- `glob`-style flags: FORCEWIN | PATHNAME | GLOBSTAR | EXTMATCH (+ extra bits) -/
def globWinCfg (extra : Nat) : Cfg :=
  Cfg.ofFlags false (Flags.ofNat (Gen.FFORCEWIN + Gen.FPATHNAME + Gen.FGLOBSTAR + Gen.FEXTMATCH + extra))

theorem pathWinEntry_example : PathWinEntry (globWinCfg 0) ∧ PathWinEntry (globWinCfg (Gen.FCASE + Gen.FNODOTDIR)) := by
  refine ⟨⟨⟨?_, ?_, ?_, ?_⟩, ?_, ?_, ?_, ?_, ?_⟩, ⟨⟨?_, ?_, ?_, ?_⟩, ?_, ?_, ?_, ?_, ?_⟩⟩ <;> decide +kernel

theorem noDrivePrefixW_example : NoDrivePrefixW "a\\b/*?[]!(|)+@{}~-\\.c/".toList := by
  constructor
  · intro l r e; simp at e
  · intro a b r e; simp at e; obtain ⟨rfl, rfl, _⟩ := e; decide

/-- the regex of the faithful port with the real drive scanner, on `escape(s, unix=False)` -/
def escRe (cfg : Cfg) (s : String) : Option Re :=
  match parseItems cfg (winDrive cfg) (EscW.escapeWin s.toList) with
  | .ok parsed => parsed.toRe
  | .error _ => none

def escMatch (cfg : Cfg) (s name : String) : Option Bool := (escRe cfg s).map (fun r => r.fullmatch name.toList)

/-- a string with every metacharacter and both separators: its escape matches it, matches it with the
    separators swapped / doubled / trailing and the case changed, and not a different string -/
theorem path_witness_win :
    escMatch (globWinCfg 0) "a\\b/*?[]!(|)+@{}~-\\.c" "a\\b/*?[]!(|)+@{}~-\\.c" = some true ∧
    escMatch (globWinCfg 0) "a\\b/*?[]!(|)+@{}~-\\.c" "A/b\\\\*?[]!(|)+@{}~-/.C//" = some true ∧
    escMatch (globWinCfg 0) "a\\b/*?[]!(|)+@{}~-\\.c" "a\\b/*?[]!(|)+@{}~-\\.d" = some false ∧
    escMatch (globWinCfg 0) "a\\b/*?[]!(|)+@{}~-\\.c" "a\\b*?[]!(|)+@{}~-\\.c" = some false ∧
    escMatch (globWinCfg Gen.FCASE) "a\\b" "a/b" = some true ∧ escMatch (globWinCfg Gen.FCASE) "a\\b" "A/b" = some false := by
  decide +kernel

/-- `WinPathLitEq`, spelled out for a non-empty `s` (`nrmL` replaces every `\\` by `/`) -/
theorem WinPathLitEq_iff (cfg : Cfg) (s name : List Char) (hs : s ≠ []) :
    WinPathLitEq cfg s name ↔
      ((nrmL name).head? = some '/' ↔ (nrmL s).head? = some '/') ∧
      ((nrmL s).getLast? = some '/' → (nrmL name).getLast? = some '/') ∧
      piecesEq (!cfg.caseSensitive) (pieces (nrmL s)) (pieces (nrmL name)) = true ∧
      (cfg.nodotdir = true → dotNlTail true (nrmL name) = false) := by
  have : nrmL s ≠ [] := fun e => hs ((nrmL_eq_nil s).mp e)
  unfold WinPathLitEq C09path.PathLitEq
  simp only [this, ite_false]

/-- why REALPATH is excluded in (2): for a relative pattern the pass puts `_NO_WIN_ROOT`
    `(?!(?:[\\/]|[a-zA-Z]:))` in front, which also refuses a leading `x:` — the regex of
    `escape("c:x")` (no drive: `c:` is not followed by a separator) does not match `c:x` under
    REALPATH, and does without it (the same regex text is emitted by the real `WcParse`) -/
theorem realpath_letter_colon :
    NoDriveAgree (globWinCfg Gen.FREALPATH) "c:x".toList = true ∧
    (escRe (globWinCfg Gen.FREALPATH) "c:x").map Re.render = some "^(?si:(?!(?:[\\\\/]|[a-zA-Z]:))c:x[\\\\/]*?)$".toList ∧
    escMatch (globWinCfg Gen.FREALPATH) "c:x" "c:x" = some false ∧
    escMatch (globWinCfg 0) "c:x" "c:x" = some true ∧
    escMatch (globWinCfg Gen.FREALPATH) "c:/x" "c:/x" = some true := by
  decide +kernel

/-! ## (3) the drive / UNC carve-out -/

open EscW in
/-- **C09 path mode under Windows rules, with a drive**: for `s = drive ++ rest` on which escape's
    drive regex and the parser's drive detection agree (`DriveAgree`, decidable),
    `escape(s, unix=False)` compiles (real `_get_win_drive`) to a regex whose full matches are exactly

        d' ++ t   with   DriveEq (driveCore drive) d'   and   DTail cfg (endsSepW drive) rest t

    — `d'` is the drive text literally, case-insensitively whatever the flags, `/` ≈ `\` for the
    UNC forms; `t` is what (2) allows for `rest` after one or more separators (`DTail_slash_iff`),
    or, when the drive does not end with a separator, for `rest` itself (`DTail_noslash_iff`). -/
theorem C09_escape_drive_win (cfg : Cfg) (h : PathWinDriveEntry cfg) (drive rest : List Char)
    (hag : DriveAgree cfg drive rest = true) :
    ∃ parsed r, parseItems cfg (winDrive cfg) (escapeWin (drive ++ rest)) = .ok parsed ∧
      parsed.toRe = some r ∧
      ∀ name, r.FullMatch name ↔
        ∃ d' t, name = d' ++ t ∧ DriveEq (driveCore drive) d' = true ∧ DTail cfg (endsSepW drive) rest t :=
  escape_drive_language cfg h drive rest hag

/-- what the agreement gives about `escape` itself: the drive text keeps all its characters (only
    `{`, `}`, `|` get a backslash), the rest is escaped as usual -/
theorem C09_escape_drive_text (cfg : Cfg) (drive rest : List Char) (hag : DriveAgree cfg drive rest = true) :
    EscW.escapeWin (drive ++ rest) = EscW.driveMagicSub (EscW.dbl drive) ++ escapeUnix rest :=
  escapeWin_carve drive rest (DriveAgree.toP hag).carve

/-- **the drive-letter forms, no hypothesis on the string**: `l:/rest`, `l:\rest` -/
theorem C09_escape_drive_letter_sep (cfg : Cfg) (h : PathWinDriveEntry cfg) (l : Char) (hl : Win.isLetter l = true)
    (sc : Char) (hs : isSepW sc = true) (rest : List Char) :
    ∃ parsed r, parseItems cfg (winDrive cfg) (EscW.escapeWin (l :: ':' :: sc :: rest)) = .ok parsed ∧
      parsed.toRe = some r ∧
      ∀ name, r.FullMatch name ↔
        ∃ d' t, name = d' ++ t ∧ ciEq true [l, ':'] d' = true ∧ DTail cfg true rest t := by
  have hag : DriveAgree cfg [l, ':', sc] rest = true := by
    rcases (isSepW_iff sc).mp hs with rfl | rfl
    · exact driveAgree_letter_slash cfg l hl rest
    · exact driveAgree_letter_bs cfg l hl rest
  obtain ⟨parsed, r, h1, h2, h3⟩ := C09_escape_drive_win cfg h [l, ':', sc] rest hag
  have e1 : endsSepW [l, ':', sc] = true := by simp [endsSepW, hs]
  have e2 : driveCore [l, ':', sc] = [l, ':'] := by simp [driveCore, e1]
  have e3 : ∀ d', DriveEq [l, ':'] d' = ciEq true [l, ':'] d' := by
    intro d'
    have : isSepW l = false := by
      obtain ⟨a, b, _⟩ := isLetter_props hl
      exact isSepW_false_of a b
    simp [DriveEq, this]
  refine ⟨parsed, r, h1, h2, fun name => ?_⟩
  rw [h3 name, e1, e2]
  simp only [e3]

/-- … and the bare `l:` (also `l:` followed by a final newline) -/
theorem C09_escape_drive_letter_bare (cfg : Cfg) (h : PathWinDriveEntry cfg) (l : Char) (hl : Win.isLetter l = true)
    (rest : List Char) (hr : rest = [] ∨ rest = ['\n']) :
    ∃ parsed r, parseItems cfg (winDrive cfg) (EscW.escapeWin (l :: ':' :: rest)) = .ok parsed ∧
      parsed.toRe = some r ∧
      ∀ name, r.FullMatch name ↔
        ∃ d' t, name = d' ++ t ∧ ciEq true [l, ':'] d' = true ∧ DTail cfg false rest t := by
  have hag : DriveAgree cfg [l, ':'] rest = true := by
    rcases hr with rfl | rfl
    · exact driveAgree_letter_end cfg l hl
    · exact driveAgree_letter_nl cfg l hl
  obtain ⟨parsed, r, h1, h2, h3⟩ := C09_escape_drive_win cfg h [l, ':'] rest hag
  have e1 : endsSepW [l, ':'] = false := by simp [endsSepW, isSepW]
  have e3 : ∀ d', DriveEq [l, ':'] d' = ciEq true [l, ':'] d' := by
    intro d'
    have : isSepW l = false := by
      obtain ⟨a, b, _⟩ := isLetter_props hl
      exact isSepW_false_of a b
    simp [DriveEq, this]
  refine ⟨parsed, r, h1, h2, fun name => ?_⟩
  rw [h3 name, e1, driveCore_letter]
  simp only [e3]

/-! ### `escape(s)` matches `s` -/

theorem DriveEq_refl (core : List Char) : DriveEq core core = true := by
  unfold DriveEq
  split
  · split
    · exact WinLitEq_refl _ _
    · exact C09path.ciEq_refl _ _
  · exact C09path.ciEq_refl _ _

/-- a text matches itself from the start position — up to the NODOTDIR guard (D3) -/
theorem PM_start_self (cfg : Cfg) (ci : Bool) (s : List Char) (hs : s ≠ [])
    (hD3 : cfg.nodotdir = true → dotNlTail true s = false) : PM cfg ci .start s s := by
  rw [PM_split, PM0_start_spec _ _ _ hs]
  exact ⟨⟨Iff.rfl, id, C09path.piecesEq_refl _ _⟩, hD3⟩

theorem PM_sep_self (cfg : Cfg) (ci : Bool) (s : List Char) (hh : s.head? ≠ some '/')
    (hD3 : cfg.nodotdir = true → dotNlTail true s = false) : PM cfg ci .sep s s := by
  rw [PM_split, PM0_sep_spec _ _ _ (Nat.le_refl _)]
  exact ⟨⟨C09path.piecesEq_refl _ _, fun _ => hh, fun _ h => h⟩, hD3⟩

/-- **under the agreement, `escape(drive ++ rest)` matches `drive ++ rest`** — except, under NODOTDIR,
    when the part behind the drive ends in a segment `.\n` / `..\n` (D3, as under Unix rules) -/
theorem C09_escape_drive_win_self (cfg : Cfg) (h : PathWinDriveEntry cfg) (drive rest : List Char)
    (hag : DriveAgree cfg drive rest = true)
    (hns : endsSepW drive = false → (nrmL rest).head? ≠ some '/')
    (hD3 : cfg.nodotdir = true →
      dotNlTail true (nrmL ((drive ++ rest).drop (driveCore drive).length)) = false) :
    ∃ parsed r, parseItems cfg (winDrive cfg) (EscW.escapeWin (drive ++ rest)) = .ok parsed ∧
      parsed.toRe = some r ∧ r.FullMatch (drive ++ rest) := by
  obtain ⟨parsed, r, h1, h2, h3⟩ := C09_escape_drive_win cfg h drive rest hag
  refine ⟨parsed, r, h1, h2, (h3 _).mpr ?_⟩
  cases hs : endsSepW drive with
  | false =>
    have hc : driveCore drive = drive := by simp [driveCore, hs]
    rw [hc] at hD3 ⊢
    refine ⟨drive, rest, rfl, DriveEq_refl _, ?_⟩
    simp only [List.drop_left] at hD3
    unfold DTail
    simp only [Bool.false_eq_true, ite_false]
    exact PM_sep_self cfg _ _ (hns hs) hD3
  | true =>
    have hc : driveCore drive = drive.dropLast := by simp [driveCore, hs]
    obtain ⟨sc, hl, hsc⟩ : ∃ sc, drive.getLast? = some sc ∧ isSepW sc = true := by
      unfold endsSepW at hs
      split at hs
      · rename_i c e; exact ⟨c, e, hs⟩
      · cases hs
    have hd : drive = drive.dropLast ++ [sc] := by
      have hne : drive ≠ [] := by rintro rfl; simp at hl
      have := List.dropLast_concat_getLast hne
      rw [List.getLast?_eq_some_getLast hne] at hl
      simp only [Option.some.injEq] at hl
      rw [hl] at this
      exact this.symm
    rw [hc] at hD3 ⊢
    refine ⟨drive.dropLast, sc :: rest, by conv => lhs; rw [hd]; simp, DriveEq_refl _, ?_⟩
    have e : (drive ++ rest).drop drive.dropLast.length = sc :: rest := by
      conv => lhs; rw [hd]
      simp
    rw [e] at hD3
    have hn : nrm sc = '/' := (nrm_eq_slash sc).mpr ((isSepW_iff sc).mp hsc).symm
    unfold DTail
    simp only [ite_true, nrmL_cons, hn] at hD3 ⊢
    exact PM_start_self cfg _ _ (by simp) hD3

/-! ### the plain UNC forms, no hypothesis on the strings -/

theorem DriveEq_unc {x1 x2 : Char} (hx1 : isSepW x1 = true) (hx2 : isSepW x2 = true) (body d' : List Char) :
    DriveEq (x1 :: x2 :: body) d' = WinLitEq true (x1 :: x2 :: body) d' := by
  simp [DriveEq, hx1, hx2]

/-- **`sep sep host sep share sep rest`** : every choice of separators, every non-empty separator-free
    `host` (not `?` / `.`) and `share`, every `rest` -/
theorem C09_escape_drive_unc_sep (cfg : Cfg) (h : PathWinDriveEntry cfg) (x1 x2 y z : Char)
    (hx1 : isSepW x1 = true) (hx2 : isSepW x2 = true) (hy : isSepW y = true) (hz : isSepW z = true)
    (host share : List Char) (hh : host ≠ []) (hs : share ≠ [])
    (hhf : ∀ c ∈ host, isSepW c = false) (hsf : ∀ c ∈ share, isSepW c = false)
    (hsp : host ≠ ['.'] ∧ host ≠ ['?']) (rest : List Char) :
    ∃ parsed r, parseItems cfg (winDrive cfg)
        (EscW.escapeWin (x1 :: x2 :: (host ++ y :: (share ++ [z])) ++ rest)) = .ok parsed ∧
      parsed.toRe = some r ∧
      ∀ name, r.FullMatch name ↔
        ∃ d' t, name = d' ++ t ∧ WinLitEq true (x1 :: x2 :: (host ++ y :: share)) d' = true ∧
          DTail cfg true rest t := by
  have hag := driveAgree_unc_sep cfg x1 x2 y z hx1 hx2 hy hz host share hh hs hhf hsf hsp rest
  obtain ⟨parsed, r, h1, h2, h3⟩ := C09_escape_drive_win cfg h _ rest hag
  have e1 : x1 :: x2 :: (host ++ y :: (share ++ [z])) = (x1 :: x2 :: (host ++ y :: share)) ++ [z] := by simp
  have e2 : endsSepW (x1 :: x2 :: (host ++ y :: (share ++ [z]))) = true := by
    rw [e1, endsSepW_append_single, hz]
  have e3 : driveCore (x1 :: x2 :: (host ++ y :: (share ++ [z]))) = x1 :: x2 :: (host ++ y :: share) := by
    unfold driveCore
    rw [e2, e1]
    simp only [ite_true, List.dropLast_concat]
  refine ⟨parsed, r, h1, h2, fun name => ?_⟩
  rw [h3 name, e2, e3]
  simp only [DriveEq_unc hx1 hx2]

/-- **`sep sep host sep share`** (nothing behind the share) -/
theorem C09_escape_drive_unc_end (cfg : Cfg) (h : PathWinDriveEntry cfg) (x1 x2 y : Char)
    (hx1 : isSepW x1 = true) (hx2 : isSepW x2 = true) (hy : isSepW y = true)
    (host share : List Char) (hh : host ≠ []) (hs : share ≠ [])
    (hhf : ∀ c ∈ host, isSepW c = false) (hsf : ∀ c ∈ share, isSepW c = false)
    (hsp : host ≠ ['.'] ∧ host ≠ ['?']) :
    ∃ parsed r, parseItems cfg (winDrive cfg) (EscW.escapeWin (x1 :: x2 :: (host ++ y :: share))) = .ok parsed ∧
      parsed.toRe = some r ∧
      ∀ name, r.FullMatch name ↔
        ∃ d' t, name = d' ++ t ∧ WinLitEq true (x1 :: x2 :: (host ++ y :: share)) d' = true ∧
          allSl (nrmL t) = true := by
  have hag := driveAgree_unc_end cfg x1 x2 y hx1 hx2 hy host share hh hs hhf hsf hsp
  obtain ⟨parsed, r, h1, h2, h3⟩ := C09_escape_drive_win cfg h _ [] hag
  have e1 : x1 :: x2 :: (host ++ y :: share) = (x1 :: x2 :: (host ++ [y])) ++ share := by simp
  have e2 : endsSepW (x1 :: x2 :: (host ++ y :: share)) = false := by
    rw [e1, endsSepW_sepfree_tail _ share hs hsf]
  have e3 : driveCore (x1 :: x2 :: (host ++ y :: share)) = x1 :: x2 :: (host ++ y :: share) := by
    unfold driveCore
    rw [e2]
    simp
  refine ⟨parsed, r, by simpa using h1, h2, fun name => ?_⟩
  rw [h3 name, e2, e3]
  simp only [DriveEq_unc hx1 hx2]
  unfold DTail
  simp [PM, nrmL]

/-! ### the agreement hypothesis on the standard shapes -/

theorem pathWinDriveEntry_example :
    PathWinDriveEntry (globWinCfg 0) ∧ PathWinDriveEntry (globWinCfg (Gen.FCASE + Gen.FREALPATH)) := by
  refine ⟨⟨⟨?_, ?_, ?_, ?_⟩, ?_, ?_, ?_, ?_⟩, ⟨⟨?_, ?_, ?_, ?_⟩, ?_, ?_, ?_, ?_⟩⟩ <;> decide +kernel

theorem pathWinDriveEntry_ofFlags (isBytes : Bool) (f : Flags) (hw : f.forcewin = true) (hp : f.pathname = true)
    (hm : f.matchbase = false) (ha : f.anchor = false) (he : f.extmatchbase = false)
    (hn : f.noabsolute = false) : PathWinDriveEntry (Cfg.ofFlags isBytes f) := by
  have hu : isUnixStyle f = false := by simp [isUnixStyle, hw]
  refine ⟨⟨?_, ?_, ?_, ?_⟩, ?_, ?_, ?_, ?_⟩ <;> simp [Cfg.ofFlags, hp, hu, hm, ha, he, hn]

def agreeS (cfg : Cfg) (drive rest : String) : Bool := DriveAgree cfg drive.toList rest.toList

set_option maxRecDepth 8000 in
/-- **`DriveAgree` holds on the standard shapes** (case-insensitive and CASE configurations) -/
theorem driveAgree_shapes :
    ∀ cfg ∈ [globWinCfg 0, globWinCfg Gen.FCASE],
      agreeS cfg "c:/" "a*" = true ∧ agreeS cfg "C:\\" "a" = true ∧ agreeS cfg "c:" "" = true ∧
      agreeS cfg "//host/share/" "x*" = true ∧ agreeS cfg "//host/share" "" = true ∧
      agreeS cfg "\\\\host\\share\\" "x" = true ∧
      agreeS cfg "//?/c:/" "x" = true ∧ agreeS cfg "//./c:" "" = true ∧
      agreeS cfg "//?/UNC/h/s/" "x" = true ∧ agreeS cfg "//?/unc/h/s" "" = true ∧
      agreeS cfg "//./GLOBAL/GLOBAL/c:/" "x" = true ∧ agreeS cfg "//?/GLOBAL/UNC/h/s/" "x" = true ∧
      agreeS cfg "//?/global/dev/" "x" = true ∧
      agreeS cfg "//ho{st/sh|re/" "x" = true ∧ agreeS cfg "//h*t/sh?re/" "[x]" = true := by
  decide +kernel

/-- the theorem applied to a concrete UNC string (every hypothesis discharged): the regex of
    `escape("//Host/sh{re/a*")` matches exactly `d' ++ t` with `d' ≈ //Host/sh{re` … -/
theorem applied_unc : ∃ r, escRe (globWinCfg 0) "//Host/sh{re/a*" = some r ∧
    ∀ name, r.FullMatch name ↔ ∃ d' t, name = d' ++ t ∧
      WinLitEq true "//Host/sh{re".toList d' = true ∧ DTail (globWinCfg 0) true "a*".toList t := by
  obtain ⟨parsed, r, h1, h2, h3⟩ := C09_escape_drive_win (globWinCfg 0) pathWinDriveEntry_example.1
    "//Host/sh{re/".toList "a*".toList (by decide +kernel)
  refine ⟨r, ?_, ?_⟩
  · unfold escRe
    have : "//Host/sh{re/a*".toList = "//Host/sh{re/".toList ++ "a*".toList := by decide
    rw [this, h1]; exact h2
  · intro name
    rw [h3 name]
    have e1 : driveCore "//Host/sh{re/".toList = "//Host/sh{re".toList := by decide
    have e2 : endsSepW "//Host/sh{re/".toList = true := by decide
    rw [e1, e2]
    rfl

/-- … evaluated: it matches the string itself, the backslash spelling in another case, and not a
    text in which the brace (literal inside the drive) is missing -/
theorem applied_unc_eval :
    EscW.escapeWin "//Host/sh{re/a*".toList = "//Host/sh\\{re/a\\*".toList ∧
    escMatch (globWinCfg 0) "//Host/sh{re/a*" "//Host/sh{re/a*" = some true ∧
    escMatch (globWinCfg 0) "//Host/sh{re/a*" "\\\\HOST\\SH{RE\\\\A*" = some true ∧
    escMatch (globWinCfg Gen.FCASE) "//Host/sh{re/a*" "\\\\HOST\\SH{RE\\a*" = some true ∧
    escMatch (globWinCfg Gen.FCASE) "//Host/sh{re/a*" "\\\\HOST\\SH{RE\\A*" = some false ∧
    escMatch (globWinCfg 0) "//Host/sh{re/a*" "//Host/shre/a*" = some false ∧
    escMatch (globWinCfg 0) "//Host/sh{re/a*" "//Host//sh{re/a*" = some false := by
  decide +kernel

/-- the task's cross-check: `escape('c:/a*', unix=False)` is `c:/a\*` and matches `C:\a*` -/
theorem applied_letter_eval :
    EscW.escapeWin "c:/a*".toList = "c:/a\\*".toList ∧
    escMatch (globWinCfg 0) "c:/a*" "C:\\a*" = some true ∧ escMatch (globWinCfg 0) "c:/a*" "c:a*" = some false ∧
    escMatch (globWinCfg Gen.FCASE) "c:/a*" "C:\\a*" = some true ∧
    escMatch (globWinCfg Gen.FCASE) "c:/A*" "C:\\a*" = some false := by
  decide +kernel

/-! ### KF-D28 : the excluded case -/

/-- every way of cutting a string into `drive ++ rest` -/
def splits (s : List Char) : List (List Char × List Char) :=
  (List.range (s.length + 1)).map (fun k => (s.take k, s.drop k))

/-- "the two scanners agree on `s`" with the split left open -/
def AgreeSome (cfg : Cfg) (s : List Char) : Bool :=
  NoDriveAgree cfg s || (splits s).any (fun p => DriveAgree cfg p.1 p.2)

set_option maxRecDepth 8000 in
/-- **KF-D28** (incomplete device prefix): the scanners disagree on `//?/UNC/file` — escape's
    `RE_WIN_DRIVE` falls back to the plain UNC form and carves `//?/UNC/`, the parser recognises no
    drive (`//?/UNC/` needs two more parts) — for EVERY split, in both case modes; likewise for
    `//?/GLOBAL/UNC/x` -/
theorem kf_d28_disagree :
    ∀ cfg ∈ [globWinCfg 0, globWinCfg Gen.FCASE],
      AgreeSome cfg "//?/UNC/file".toList = false ∧ AgreeSome cfg "//?/GLOBAL/UNC/x".toList = false := by
  decide +kernel

/-- … and there the conclusion fails: escape leaves the `?` unescaped (it is inside what escape
    takes for the drive), the parser reads it as a wildcard: `//q/UNC/file` is matched -/
theorem kf_d28_witness :
    EscW.escapeWin "//?/UNC/file".toList = "//?/UNC/file".toList ∧
    escMatch (globWinCfg 0) "//?/UNC/file" "//?/UNC/file" = some true ∧
    escMatch (globWinCfg 0) "//?/UNC/file" "//q/UNC/file" = some true ∧
    escMatch (globWinCfg 0) "//?/GLOBAL/UNC/x" "//q/GLOBAL/UNC/x" = some true := by
  decide +kernel

/-- whereas the complete device prefixes next to it agree -/
theorem kf_d28_neighbours :
    AgreeSome (globWinCfg 0) "//?/UNC/h/file".toList = true ∧ AgreeSome (globWinCfg 0) "//x/UNC/file".toList = true ∧
    escMatch (globWinCfg 0) "//?/UNC/h/file" "//q/UNC/h/file" = some false := by
  decide +kernel

/-! ### a second disagreement: a doubled separator inside a UNC prefix -/

set_option maxRecDepth 8000 in
/-- `//a//b` : `RE_WIN_DRIVE` does not match (it wants exactly one separator between host and share),
    so escape carves nothing; `_get_win_drive` reads the parts with `finditer`, which skips the
    extra separator, and reports the drive `//a/b` — whose regex `[\\/]{2}a[\\/]b` admits exactly one
    separator: `escape(s)` does NOT match `s` (observed on the real library:
    `globmatch('//a//b', escape('//a//b', unix=False), flags=FORCEWIN)` is False) -/
theorem unc_double_sep_disagree :
    AgreeSome (globWinCfg 0) "//a//b".toList = false ∧
    EscW.reWinDrive (EscW.dbl "//a//b".toList) = none ∧
    (winDrive (globWinCfg 0) (EscW.escapeWin "//a//b".toList)).endIdx = 6 ∧
    escMatch (globWinCfg 0) "//a//b" "//a//b" = some false ∧
    escMatch (globWinCfg 0) "//a//b" "//a/b" = some true ∧
    escMatch (globWinCfg 0) "//host//share/x*" "//host//share/x*" = some false := by
  decide +kernel

end WcModel.C09win

import WcModel.Model.Regex
import WcModel.Generated
/-
  The regex fragments `WcParse` assembles, as ASTs.  `Proofs/FragRender.lean` proves that
  each of them prints to exactly the text the translator read from the source
  (`Gen.c_*`, `Gen.iU_*`, `Gen.iW_*`), so a changed constant breaks a proof obligation.
-/
namespace WcModel
namespace Frag

/-- members of `[...]` naming the separators: `/` or `\\/` -/
def sepItems (win : Bool) : List ClsItem :=
  if win then [.chr '\\' true, .chr '/' false] else [.chr '/' false]

/-- `self.sep` : `[/]` or `[\\/]` -/
def sep (win : Bool) : Re := .cls false (sepItems win)

/-- `_PATH_EOP` : `(?:$|[/])` -/
def pathEop (win : Bool) : Re := .grp (.alt .eos (sep win))

/-- `_NO_DIR` : `(?!(?:\.{1,2})(?:$|[/]))` -/
def noDir (win : Bool) : Re :=
  .look true (.cat (.grp (.rep 1 2 (.lit '.'))) (pathEop win))

/-- `_PATH_NO_SLASH` : `(?![/])` -/
def seqPath (win : Bool) : Re := .look true (sep win)
/-- `_PATH_NO_SLASH_DOT` : `(?![/.])` -/
def seqPathDot (win : Bool) : Re := .look true (.cls false (sepItems win ++ [.chr '.' false]))

/-- `_PATH_STAR` : `[^/]*?` -/
def pathStar (win : Bool) : Re := .star true (.cls true (sepItems win))
/-- `_PATH_STAR_DOTMATCH` -/
def pathStarDot1 (win : Bool) : Re := .cat (noDir win) (pathStar win)
/-- `_PATH_STAR_NO_DOTMATCH` : `_NO_DIR + (?:(?!\.)[^/]*?)?` -/
def pathStarDot2 (win : Bool) : Re :=
  .cat (noDir win) (.opt (.grp (.cat (.look true (.lit '.')) (pathStar win))))

/-- `_PATH_GSTAR_DOTMATCH` : `(?:(?!(?:[/]|^)(?:\.{1,2})(?:$|[/])).)*?` -/
def pathGstarDot1 (win : Bool) : Re :=
  .star true (.grp (.cat
    (.look true (.cat (.cat (.grp (.alt (sep win) .bos)) (.grp (.rep 1 2 (.lit '.'))))
                      (pathEop win)))
    .any))
/-- `_PATH_GSTAR_NO_DOTMATCH` : `(?:(?!(?:[/]|^)\.).)*?` -/
def pathGstarDot2 (win : Bool) : Re :=
  .star true (.grp (.cat (.look true (.cat (.grp (.alt (sep win) .bos)) (.lit '.'))) .any))

/-- `_NO_DOT` : `(?![.])` -/
def noDot : Re := .look true (.cls false [.chr '.' false])
/-- `_STAR` : `.*?` -/
def star : Re := .star true .any
/-- `_QMARK` : `.` -/
def qmark : Re := .any
/-- `_NEED_CHAR_PATH` : `(?=[^/])` -/
def needCharPath (win : Bool) : Re := .look false (.cls true (sepItems win))
/-- `_NEED_CHAR` : `(?=.)` -/
def needChar : Re := .look false .any
/-- `_NEED_SEP` : `(?=[/])` -/
def needSep (win : Bool) : Re := .look false (sep win)
/-- `_GLOBSTAR_DIV` : `(?:^|$|[/])+` -/
def globstarDiv (win : Bool) : Re := .plus (.grp (.alt .bos (.alt .eos (sep win))))
/-- `_PATH_TRAIL` : `[/]*?` -/
def pathTrail (win : Bool) : Re := .star true (sep win)
/-- `self.sep + _ONE_OR_MORE` : `[/]+` -/
def sepPlus (win : Bool) : Re := .plus (sep win)
/-- `_NO_ROOT` : `(?!/)` -/
def noRoot : Re := .look true (.lit '/')
/-- `_NO_WIN_ROOT` : `(?!(?:[\\/]|[a-zA-Z]:))` -/
def noWinRoot : Re :=
  .look true (.grp (.alt (sep true)
    (.cat (.cls false [.range 'a' false 'z' false, .range 'A' false 'Z' false]) (.lit ':'))))
/-- the guarded dot of `_handle_dot` : `(?!\.[.]?(?:$|[/]))\.` -/
def guardedDot (win : Bool) : Re :=
  .cat (.look true (.cat (.cat (.lit '.') (.opt (.cls false [.chr '.' false]))) (pathEop win)))
       (.lit '.')

/-- `_NO_NIX_DIR` / `RE_NO_DIR` : `^(?s:.*?(?:/\.{1,2}/*|/)|\.{1,2}/*)$` (compiled with no flags;
    the scoped `(?s:` — so that `.*?` crosses a newline — is the D18 repair) -/
def noNixDir : Re :=
  .cat .bos (.cat (.flags true false (.alt
      (.cat (.star true .any)
        (.grp (.alt (.cat (.cat (.lit '/') (.rep 1 2 (.lit '.'))) (.star false (.lit '/'))) (.lit '/'))))
      (.cat (.rep 1 2 (.lit '.')) (.star false (.lit '/')))))
    .eos)
/-- `_NO_WIN_DIR` / `RE_WIN_NO_DIR` : `^(?s:.*?(?:[\\/]\.{1,2}[\\/]*|[\\/])|\.{1,2}[\\/]*)$` -/
def noWinDir : Re :=
  .cat .bos (.cat (.flags true false (.alt
      (.cat (.star true .any)
        (.grp (.alt (.cat (.cat (sep true) (.rep 1 2 (.lit '.'))) (.star false (sep true))) (sep true))))
      (.cat (.rep 1 2 (.lit '.')) (.star false (sep true)))))
    .eos)

end Frag
end WcModel

import WcModel.Generated
import WcModel.Model.Flags
/-
  Model of `wcmatch/pathlib.py` (260 lines) and of the three `Glob` methods it relies on for
  its uniqueness clause (`glob.py` `_is_unique`, `_pathlib_norm`, `_format_path`).

  * `translateFlags`  — `PurePath._translate_flags` (89-103), line by line, on the *integer*
    flag word (Python `&`, `|` are `&&&`, `|||` on `Nat`); the constants are the ones
    `pathlib.py` itself names (`Gen.pl*`, `Gen.pathlibFlagMask`), read by the translator.
  * `translatePath`   — `PurePath._translate_path` (105-113).
  * `Path.glob` / `Path.rglob` / `PurePath.globmatch` / `full_match` / `match` — the five
    public methods.  `glob.iglob` and `glob.globmatch` are **parameters** (`Env.iglob`,
    `Env.globmatch`): the walker model is somebody else's; here they are *given functions*.
    pathlib's own operations (`str(self)`, `is_dir()`, `joinpath`) are parameters too.
  * `dotNorm` / `pathlibNorm` / `seenKey` / `formatPaths` — `Glob._pathlib_norm`,
    `_is_unique`, `_format_path` over an arbitrary candidate stream (the walker's output is a
    parameter again).

  No Mathlib; everything here is executable and is driven by `Driver/Pathlib.lean`.
-/
namespace WcModel.Pathlib

/-- The four instantiable classes (`PurePath(...)` / `Path(...)` pick one of them in `__new__`). -/
inductive PathClass
  | purePosix | pureWindows | posix | windows
  deriving DecidableEq, Repr, Inhabited

/-- `isinstance(self, PureWindowsPath)` — true for `PureWindowsPath` *and* `WindowsPath`. -/
def PathClass.isWindows : PathClass → Bool
  | .pureWindows | .windows => true
  | _ => false

/-- `isinstance(self, Path)` — the concrete classes. -/
def PathClass.isConcrete : PathClass → Bool
  | .posix | .windows => true
  | _ => false

/-- `Path.__new__` (174-193): a concrete class of the foreign platform raises
    `NotImplementedError`; pure classes are always available. -/
def PathClass.instantiable (hostWin : Bool) (c : PathClass) : Bool :=
  !c.isConcrete || (c.isWindows == hostWin)

def PathClass.all : List PathClass := [.purePosix, .pureWindows, .posix, .windows]

inductive Err
  | winForcedPosix    -- ValueError("Windows pathlike objects cannot be forced to behave like a Posix path")
  | posixForcedWin    -- ValueError("Posix pathlike objects cannot be forced to behave like a Windows path")
  deriving DecidableEq, Repr, Inhabited

/-- the error of a result, if any (for witnesses: `Except` has no `DecidableEq`) -/
def errOf {ε α : Type} : Except ε α → Option ε
  | .error e => some e
  | .ok _ => none

/-- `PurePath._translate_flags` (89-103). `hostWin` is `os.name == 'nt'`. -/
def translateFlags (hostWin : Bool) (cls : PathClass) (flags : Nat) : Except Err Nat :=
  -- flags = (flags & FLAG_MASK) | _PATHNAME
  let flags := (flags &&& Gen.pathlibFlagMask) ||| Gen.plPATHNAME
  -- if flags & REALPATH: flags |= _FORCEWIN if os.name == 'nt' else _FORCEUNIX
  let flags := if flags &&& Gen.plREALPATH ≠ 0 then
      flags ||| (if hostWin then Gen.plFORCEWIN else Gen.plFORCEUNIX) else flags
  if cls.isWindows then
    -- if flags & _FORCEUNIX: raise ValueError(...)
    if flags &&& Gen.plFORCEUNIX ≠ 0 then .error .winForcedPosix
    -- flags |= _FORCEWIN
    else .ok (flags ||| Gen.plFORCEWIN)
  else
    if flags &&& Gen.plFORCEWIN ≠ 0 then .error .posixForcedWin
    else .ok (flags ||| Gen.plFORCEUNIX)

/-- the flag word `Path.glob` hands to `glob.iglob` (210-214) -/
def globFlags (hostWin : Bool) (cls : PathClass) (flags : Nat) : Except Err Nat :=
  -- scandotdir = flags & SCANDOTDIR
  let scandotdir := flags &&& Gen.plSCANDOTDIR
  -- flags = self._translate_flags(flags | _NOABSOLUTE) | ((_PATHLIB | SCANDOTDIR) if scandotdir else _PATHLIB)
  match translateFlags hostWin cls (flags ||| Gen.plNOABSOLUTE) with
  | .error e => .error e
  | .ok f => .ok (f ||| (if scandotdir ≠ 0 then Gen.plPATHLIB ||| Gen.plSCANDOTDIR else Gen.plPATHLIB))

/-- `rglob` = `glob` with `flags | _EXTMATCHBASE` (236) -/
def rglobFlags (hostWin : Bool) (cls : PathClass) (flags : Nat) : Except Err Nat :=
  globFlags hostWin cls (flags ||| Gen.plEXTMATCHBASE)

/-- `match` = `globmatch` with `flags | _EXTMATCHBASE` (130) -/
def matchFlags (hostWin : Bool) (cls : PathClass) (flags : Nat) : Except Err Nat :=
  translateFlags hostWin cls (flags ||| Gen.plEXTMATCHBASE)

/-! ### the method level: `glob.iglob` / `glob.globmatch` are parameters -/

/-- What the methods are given.
    `Pth`  — path objects; `Args` — the `(patterns, limit, exclude)` bundle that every method
    passes through untouched; `GErr` — whatever `wcmatch.glob` may raise.
    `iglob a flags root` is `list(glob.iglob(patterns, flags=flags, root_dir=root, limit=…, exclude=…))`
    (`Glob.__init__` does all the parsing and raises before the first result, so
    "error or list" loses nothing); `globmatch name a flags` likewise. -/
structure Env (Pth Args GErr : Type) where
  hostWin : Bool
  iglob : Args → Nat → List Char → Except GErr (List (List Char))
  globmatch : List Char → Args → Nat → Except GErr Bool
  str : Pth → List Char                  -- `str(self)`
  isDir : Pth → Bool                     -- `self.is_dir()`
  joinpath : Pth → List Char → Pth       -- `self.joinpath(filename)`

inductive MErr (GErr : Type)
  | value (e : Err)      -- raised by pathlib.py itself
  | glob (e : GErr)      -- raised inside `wcmatch.glob`
  deriving Repr

variable {Pth Args GErr : Type}

/-- the separator of the class (`self.parser.sep` / `self._flavour.sep`) -/
def PathClass.sep (c : PathClass) : Char := if c.isWindows then '\\' else '/'

/-- `PurePath._translate_path` (105-113) -/
def translatePath (env : Env Pth Args GErr) (cls : PathClass) (self : Pth) : List Char :=
  let name := env.str self
  -- if isinstance(self, Path) and name and self.is_dir(): sep = …
  let sep := if cls.isConcrete && !name.isEmpty && env.isDir self then [cls.sep] else []
  name ++ sep

/-- `Path.glob` (195-216) -/
def pathGlob (env : Env Pth Args GErr) (cls : PathClass) (self : Pth) (a : Args) (flags : Nat) :
    Except (MErr GErr) (List Pth) :=
  if env.isDir self then
    match globFlags env.hostWin cls flags with
    | .error e => .error (.value e)
    | .ok f =>
      match env.iglob a f (env.str self) with
      | .error e => .error (.glob e)
      | .ok names => .ok (names.map (env.joinpath self))
  else .ok []

/-- `Path.rglob` (218-236) -/
def pathRglob (env : Env Pth Args GErr) (cls : PathClass) (self : Pth) (a : Args) (flags : Nat) :
    Except (MErr GErr) (List Pth) :=
  pathGlob env cls self a (flags ||| Gen.plEXTMATCHBASE)

/-- `PurePath.globmatch` (132-148) -/
def pureGlobmatch (env : Env Pth Args GErr) (cls : PathClass) (self : Pth) (a : Args) (flags : Nat) :
    Except (MErr GErr) Bool :=
  match translateFlags env.hostWin cls flags with
  | .error e => .error (.value e)
  | .ok f =>
    match env.globmatch (translatePath env cls self) a f with
    | .error e => .error (.glob e)
    | .ok b => .ok b

/-- `PurePath.full_match` (150-166) — a second copy of the same call in the source -/
def pureFullMatch (env : Env Pth Args GErr) (cls : PathClass) (self : Pth) (a : Args) (flags : Nat) :
    Except (MErr GErr) Bool :=
  match translateFlags env.hostWin cls flags with
  | .error e => .error (.value e)
  | .ok f =>
    match env.globmatch (translatePath env cls self) a f with
    | .error e => .error (.glob e)
    | .ok b => .ok b

/-- `PurePath.match` (115-130) -/
def pureMatch (env : Env Pth Args GErr) (cls : PathClass) (self : Pth) (a : Args) (flags : Nat) :
    Except (MErr GErr) Bool :=
  pureGlobmatch env cls self a (flags ||| Gen.plEXTMATCHBASE)

/-! ### `Glob._pathlib_norm`, `_is_unique`, `_format_path` -/

def isSep (win : Bool) (c : Char) : Bool := c == '/' || (win && c == '\\')

/-- `re_pathlib_norm.sub('', path)` for `(?:((?<=^)|(?<=SEP))\.(?:SEP|$))+`, hand-ported.
    `b` = "the look-behind holds here" (start of the string, or the previous character *of
    the original string* is a separator).  `$` is Python's `$`: the end, or just before a
    final newline.  A match removes `.` plus the separator after it (if any); after a removed
    separator the look-behind holds again, which is all the outer `+` adds. -/
def dotNormGo (win : Bool) : Bool → List Char → List Char
  | _, [] => []
  | b, [c] => if b && c == '.' then [] else [c]
  | b, c :: d :: rest =>
    if b && c == '.' then
      if isSep win d then dotNormGo win true rest
      else if d == '\n' && rest.isEmpty then [d]
      else c :: dotNormGo win false (d :: rest)
    else c :: dotNormGo win (isSep win c) (d :: rest)

def dotNorm (win : Bool) (s : List Char) : List Char := dotNormGo win true s

/-- `Glob._pathlib_norm` (801-805). `reWin` = which of the two regexes the instance holds,
    `sepsWin` = whether `self.seps` is `('/', '\\')` (FORCEWIN) or `('/',)`. -/
def pathlibNorm (reWin sepsWin : Bool) (path : List Char) : List Char :=
  let p := dotNorm reWin path
  -- return path[:-1] if len(path) > 1 and path[-1:] in self.seps else path
  match p.getLast? with
  | some c => if p.length > 1 && isSep sepsWin c then p.dropLast else p
  | none => p

/-- Which regex a `Glob` instance holds on this host: read from a live instance by the
    translator.  Since the D16 repair `glob.py` 457, 467 assign `_RE_WIN_PATHLIB_DOT_NORM` only
    under FORCEWIN (which `_flag_transform` clears on POSIX), so this is `false` here — it was
    `true` on every host; `Properties/C16.lean` (`norm_regex_pinned`) pins the value. -/
def codeReWin : Bool := Gen.globInstPathlibNorm == Gen.rRE_WIN_PATHLIB_DOT_NORM

/-- ASCII `str.lower` (names in case-insensitive theorems are ASCII, DESIGN §7) -/
def lowerChar (c : Char) : Char := if 'A' ≤ c && c ≤ 'Z' then Char.ofNat (c.toNat + 32) else c

def lowerAscii (s : List Char) : List Char := s.map lowerChar

/-- configuration of the de-duplication step of one `Glob` instance -/
structure UCfg where
  nounique : Bool
  caseSensitive : Bool
  pathlib : Bool
  mark : Bool
  reWin : Bool := codeReWin
  sepsWin : Bool := false
  deriving Repr, Inhabited

/-- the key `_is_unique` looks up and (since the D12 repair) stores -/
def seenKey (u : UCfg) (path : List Char) : List Char :=
  let p := if u.pathlib then pathlibNorm u.reWin u.sepsWin path else path
  if u.caseSensitive then p else lowerAscii p

/-- `os.path.join(path, '')` on POSIX / with the instance separator -/
def joinEmpty (sep : Char) (path : List Char) : List Char :=
  match path.getLast? with
  | none => []
  | some c => if c == sep then path else path ++ [sep]

/-- first-occurrence filter through a seen-set: the loop "`if key not in seen: seen.add(key); yield`" -/
def seenFilter {α κ : Type} [DecidableEq κ] (key : α → κ) : List κ → List α → List α
  | _, [] => []
  | seen, x :: xs =>
    if key x ∈ seen then seenFilter key seen xs
    else x :: seenFilter key (key x :: seen) xs

/-- one candidate of the walker: `(path, is_dir, dir_only)` as passed to `_format_path` -/
structure Cand where
  path : List Char
  isDir : Bool
  dirOnly : Bool
  deriving Repr, Inhabited, DecidableEq

/-- the string `_format_path` would yield for a candidate (810) -/
def Cand.formatted (u : UCfg) (sep : Char) (c : Cand) : List Char :=
  if c.dirOnly || (u.mark && c.isDir) then joinEmpty sep c.path else c.path

/-- `_format_path` over the whole candidate stream of one `Glob.glob()` run (807-812) -/
def formatPaths (u : UCfg) (sep : Char) (cands : List Cand) : List (List Char) :=
  let out := cands.map (Cand.formatted u sep)
  if u.nounique then out else seenFilter (seenKey u) [] out

end WcModel.Pathlib

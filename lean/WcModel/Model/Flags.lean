import WcModel.Generated
/-
  Flags as a record of Booleans, decoded from the integer bit-mask with the bit values the
  translator read from the source (`Gen.F*`).
-/
namespace WcModel

structure Flags where
  case_ : Bool := false
  ignorecase : Bool := false
  rawchars : Bool := false
  negate : Bool := false
  minusnegate : Bool := false
  pathname : Bool := false
  dotmatch : Bool := false
  extmatch : Bool := false
  globstar : Bool := false
  brace : Bool := false
  realpath : Bool := false
  follow : Bool := false
  split : Bool := false
  matchbase : Bool := false
  nodir : Bool := false
  negateall : Bool := false
  forcewin : Bool := false
  forceunix : Bool := false
  globtilde : Bool := false
  nounique : Bool := false
  nodotdir : Bool := false
  globstarlong : Bool := false
  translate : Bool := false
  anchor : Bool := false
  extmatchbase : Bool := false
  noabsolute : Bool := false
  noGlobstarCapture : Bool := false
  deriving DecidableEq, Repr, Inhabited

def hasBit (n v : Nat) : Bool := Nat.land n v != 0

def Flags.ofNat (n : Nat) : Flags where
  case_ := hasBit n Gen.FCASE
  ignorecase := hasBit n Gen.FIGNORECASE
  rawchars := hasBit n Gen.FRAWCHARS
  negate := hasBit n Gen.FNEGATE
  minusnegate := hasBit n Gen.FMINUSNEGATE
  pathname := hasBit n Gen.FPATHNAME
  dotmatch := hasBit n Gen.FDOTMATCH
  extmatch := hasBit n Gen.FEXTMATCH
  globstar := hasBit n Gen.FGLOBSTAR
  brace := hasBit n Gen.FBRACE
  realpath := hasBit n Gen.FREALPATH
  follow := hasBit n Gen.FFOLLOW
  split := hasBit n Gen.FSPLIT
  matchbase := hasBit n Gen.FMATCHBASE
  nodir := hasBit n Gen.FNODIR
  negateall := hasBit n Gen.FNEGATEALL
  forcewin := hasBit n Gen.FFORCEWIN
  forceunix := hasBit n Gen.FFORCEUNIX
  globtilde := hasBit n Gen.FGLOBTILDE
  nounique := hasBit n Gen.FNOUNIQUE
  nodotdir := hasBit n Gen.FNODOTDIR
  globstarlong := hasBit n Gen.FGLOBSTARLONG
  translate := hasBit n Gen.F_TRANSLATE
  anchor := hasBit n Gen.F_ANCHOR
  extmatchbase := hasBit n Gen.F_EXTMATCHBASE
  noabsolute := hasBit n Gen.F_NOABSOLUTE
  noGlobstarCapture := hasBit n Gen.F_NO_GLOBSTAR_CAPTURE

def bitIf (b : Bool) (v : Nat) : Nat := if b then v else 0

def Flags.toNat (f : Flags) : Nat :=
  bitIf f.case_ Gen.FCASE + bitIf f.ignorecase Gen.FIGNORECASE + bitIf f.rawchars Gen.FRAWCHARS +
  bitIf f.negate Gen.FNEGATE + bitIf f.minusnegate Gen.FMINUSNEGATE + bitIf f.pathname Gen.FPATHNAME +
  bitIf f.dotmatch Gen.FDOTMATCH + bitIf f.extmatch Gen.FEXTMATCH + bitIf f.globstar Gen.FGLOBSTAR +
  bitIf f.brace Gen.FBRACE + bitIf f.realpath Gen.FREALPATH + bitIf f.follow Gen.FFOLLOW +
  bitIf f.split Gen.FSPLIT + bitIf f.matchbase Gen.FMATCHBASE + bitIf f.nodir Gen.FNODIR +
  bitIf f.negateall Gen.FNEGATEALL + bitIf f.forcewin Gen.FFORCEWIN + bitIf f.forceunix Gen.FFORCEUNIX +
  bitIf f.globtilde Gen.FGLOBTILDE + bitIf f.nounique Gen.FNOUNIQUE + bitIf f.nodotdir Gen.FNODOTDIR +
  bitIf f.globstarlong Gen.FGLOBSTARLONG + bitIf f.translate Gen.F_TRANSLATE + bitIf f.anchor Gen.F_ANCHOR +
  bitIf f.extmatchbase Gen.F_EXTMATCHBASE + bitIf f.noabsolute Gen.F_NOABSOLUTE +
  bitIf f.noGlobstarCapture Gen.F_NO_GLOBSTAR_CAPTURE

/-- host facts the code reads through `util.platform()` / `util.is_case_sensitive()` -/
def hostIsWindows : Bool := Gen.hostPlatform == "windows"

/-- `_wcparse.is_unix_style` -/
def isUnixStyle (f : Flags) : Bool :=
  ((!hostIsWindows) || (!f.realpath && f.forceunix)) && !f.forcewin

/-- `_wcparse.is_case_sensitive` -/
def isCaseSensitiveFlags (f : Flags) : Bool :=
  if f.forcewin then false else if f.forceunix then true else Gen.hostCaseSensitive

/-- `_wcparse.get_case` -/
def getCase (f : Flags) : Bool :=
  if !(f.case_ || f.ignorecase) then isCaseSensitiveFlags f
  else if f.case_ then true else false

end WcModel

import WcModel.Model.Regex
/-
  `Re.strip` removes everything `Re.M` cannot see: non-capturing and capturing group
  wrappers, laziness marks, and re-associates nothing else.  Two regexes with equal `strip`
  accept the same subjects (Proofs/Strip.lean) — a per-pattern *certificate* of language
  equality for all names, used by the translate-vs-match (C08) and bytes-vs-str (C18) ties.
-/
namespace WcModel

/-- forget how a class member is spelt (escaped or not, POSIX table text) -/
def ClsItem.canon : ClsItem → ClsItem
  | .chr c _ => .chr c false
  | .range lo _ hi _ => .range lo false hi false
  | .posix n _ rs => .posix n [] rs

def Re.strip : Re → Re
  | .cls n items => .cls n (items.map ClsItem.canon)
  | .grp r => r.strip
  | .cap r => r.strip
  | .gcap r => r.strip
  | .cat a b => .cat a.strip b.strip
  | .alt a b => .alt a.strip b.strip
  | .opt r => .opt r.strip
  | .star _ r => .star false r.strip
  | .plus r => .plus r.strip
  | .rep lo hi r => .rep lo hi r.strip
  | .look n r => .look n r.strip
  | .flags s i r => .flags s i r.strip
  | r => r

/-- every inline flag scope *inside* the top-level `(?s…:…)` wrapper is case-insensitive
    (the wrapper itself carries the pattern's own case mode) -/
def Re.allCi' : Re → Bool
  | .flags _ i r => i && r.allCi'
  | .cat a b => a.allCi' && b.allCi'
  | .alt a b => a.allCi' && b.allCi'
  | .grp r => r.allCi'
  | .cap r => r.allCi'
  | .gcap r => r.allCi'
  | .opt r => r.allCi'
  | .star _ r => r.allCi'
  | .plus r => r.allCi'
  | .rep _ _ r => r.allCi'
  | .look _ r => r.allCi'
  | _ => true

/-- for `^(?s[i]:inner)$`: `allCi'` of `inner` -/
def Re.allCiTop : Re → Bool
  | .cat .bos (.cat (.flags _ _ inner) .eos) => inner.allCi'
  | _ => false

end WcModel

import WcModel.Spec.Lang
import WcModel.Spec.Scope
import WcModel.Model.Frag
import WcModel.Model.Posix
/-
  The *tidy compiler*: structural recursion on the documented grammar `Pat`, with the guard
  placement of `WcParse` written as an explicit function of "am I at the start of the
  name" (`as`).  fnmatch mode (no PATHNAME), Unix rules.

  Link to the faithful port: for every pattern the strict grammar reader accepts,
  `canon (comp dot true (parsePat p)) = canon (toRe (parse p))` is checked by stream K1'
  (driver command `tidy`); the semantic theorems about `comp` are in `Proofs/Comp.lean`.
-/
namespace WcModel

def SCls.toClsItem (isBytes : Bool) : SCls → ClsItem
  | .chr c => .chr c false
  | .range lo hi => .range lo false hi false
  | .posix n => posixItem isBytes n

/-- the star of a `!(…)` group (1484-1498, fn mode) -/
def negStar (dot as : Bool) : Re :=
  let s := if !as || dot then Frag.star else .cat Frag.noDot Frag.star
  if as then .cat Frag.needChar s else s

def litRe (c : Char) : Re := if c = '/' then Frag.sep false else .lit c

def quantRe (k : ExtKind) (inner : Re) : Re :=
  match k with
  | .opt => .opt (.grp inner)
  | .star => .star false (.grp inner)
  | .plus => .plus (.grp inner)
  | .one => .grp inner
  | .neg => .grp inner   -- not used: negation is compiled with its tail

def comp (isBytes dot : Bool) : Bool → Pat → Re
  | _, .eps => .eps
  | _, .lit c => litRe c
  | as, .any => if as && !dot then .cat Frag.noDot Frag.qmark else Frag.qmark
  | as, .star =>
    let s := if as && !dot then .cat Frag.noDot Frag.star else Frag.star
    if as then .cat Frag.needChar s else s
  | as, .cls neg items =>
    let c : Re := .cls neg (items.map (SCls.toClsItem isBytes))
    if as && !dot then .cat Frag.noDot c else c
  | as, .seq (.ext .neg body) rest =>
    let t := comp isBytes dot false rest
    .cat (.grp (.cat (.look true (.cat (.grp (comp isBytes dot as body)) (.cat t .eos))) (negStar dot as))) t
  | as, .seq p q => .cat (comp isBytes dot as p) (comp isBytes dot (as && p.isEmpty) q)
  | as, .alt p q => .alt (comp isBytes dot as p) (comp isBytes dot as q)
  | as, .ext .neg body =>
    .grp (.cat (.look true (.cat (.grp (comp isBytes dot as body)) .eos)) (negStar dot as))
  | as, .ext k body => quantRe k (comp isBytes dot as body)

end WcModel

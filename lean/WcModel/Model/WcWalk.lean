import WcModel.Generated
/-
  Executable model of `wcmatch.wcmatch.WcMatch` (wcmatch/wcmatch.py:68-318): `os.walk` top-down
  with in-place pruning, `_valid_folder`, `_valid_file`, the hidden test, the flags
  RECURSIVE / HIDDEN / SYMLINKS / FILEPATHNAME / DIRPATHNAME, the four `is_aborted()` poll sites,
  the `on_*` hooks, the skipped counter and the object-level operations
  `match / imatch+next / kill / reset / is_aborted / get_skipped`.

  What is a PARAMETER (not modelled here): the pattern decisions
    `fileDec : RelPath → Res Bool`  — does the compiled file pattern accept this name / this
                                       root-relative path (`compare_file`), or does it raise;
    `dirExcl : RelPath → Res Bool`  — does the exclude pattern accept this directory name / path
                                       (`folder_exclude_check.match`), or does it raise;
  so this file is about the walk logic only.  Core Lean only (no Mathlib).

  File tree.  What `os.walk` can observe: for every directory its entries in `scandir` order, and for
  every entry `is_dir()` (following links) and `islink()`.  A directory's entry list is the type

      Tree ::= nil | cons name kind sub rest

  i.e. the first-order rendering of
      inductive Node | file | dir (entries : List (Name × Node)) | linkFile
                     | linkDir (target entries) | dangling
  (`kind` is the constructor, `sub` the entries of the directory — for `linkDir` the entries of the
  link's target, a finite unfolding computed by the harness by querying the OS; it is consulted only
  under SYMLINKS — and `rest` the following entries of the same directory).  Every function below is
  structurally recursive on `Tree`: the walk terminates because the tree is finite, and without
  SYMLINKS it never looks at the `sub` of a `linkDir` (`walk_nolinks_indep` in Proofs/WcWalk.lean),
  which is the formal content of "termination without SYMLINKS is structural": a symlink cycle
  cannot even be written down as a `Tree`, and is not needed unless SYMLINKS is set.
-/
namespace WcModel.WcWalk

abbrev Name := List Char
/-- root-relative path, outermost component first; the root itself is `[]` -/
abbrev RelPath := List Name

inductive Kind | file | dir | linkFile | linkDir | dangling
  deriving DecidableEq, Repr, Inhabited

inductive Tree
  | nil
  | cons (name : Name) (kind : Kind) (sub : Tree) (rest : Tree)
  deriving Repr, Inhabited

/-- `entry.is_dir()` (follows links): what `os.walk` puts into `dirs` -/
def Kind.dirLike : Kind → Bool
  | .dir | .linkDir => true
  | _ => false

/-- `os.walk` descends into it: a real directory, or a link to one under `followlinks` -/
def Kind.walkable (followlinks : Bool) : Kind → Bool
  | .dir => true
  | .linkDir => followlinks
  | _ => false

def dirNames : Tree → List Name
  | .nil => []
  | .cons n k _ rest => if k.dirLike then n :: dirNames rest else dirNames rest

def fileNames : Tree → List Name
  | .nil => []
  | .cons n k _ rest => if k.dirLike then fileNames rest else n :: fileNames rest

def names : Tree → List Name
  | .nil => []
  | .cons n _ _ rest => n :: names rest

/-- file-system invariant: the names inside one directory are pairwise different -/
def Tree.WF : Tree → Prop
  | .nil => True
  | .cons n _ sub rest => n ∉ names rest ∧ sub.WF ∧ rest.WF

/-- outcome of a user hook / of a comparison: a value or an exception -/
inductive Res (α : Type) | ret (v : α) | raise
  deriving DecidableEq, Repr

/-- the four `is_aborted()` poll sites of `_walk` (wcmatch.py:263, 277, 281, 304): at the top of a
    directory, after each validated folder, AFTER THE FOLDER LOOP (`mid`, added by the repair of D20:
    an abort seen while validating folders ends the walk before the files of that directory are
    looked at), after each file -/
inductive Site | top | folder | mid | file
  deriving DecidableEq, Repr

/-- observable events of one run, in program order -/
inductive Ev (V : Type)
  | poll (s : Site) (b : Bool)   -- `is_aborted()` called, returned `b`
  | reset                        -- `on_reset()`
  | vdir (p : RelPath)           -- `on_validate_directory(base, name)`
  | vfile (p : RelPath)          -- `on_validate_file(base, name)`
  | hmatch (p : RelPath)         -- `on_match(base, name)`
  | hskip (p : RelPath)          -- `_skipped += 1; on_skip(base, name)`
  | herror (p : RelPath)         -- `on_error(base, name)`
  | yield (v : V)                -- a value handed to the consumer
  deriving DecidableEq, Repr

/-- what the poll oracle may look at: how many polls, hook invocations, yielded values and
    skip-counter increments have happened so far in this run -/
structure Ctr where
  polls : Nat := 0
  hooks : Nat := 0
  yields : Nat := 0
  skipped : Nat := 0
  deriving DecidableEq, Repr

/-- The abort flag is *read* only at the four poll sites and *written* only by `kill`/`reset`, so
    every interleaving — a hook, the consumer between two `next`s, another thread — is represented
    by the values the polls observe.  `o c` is the answer of the poll issued at clock `c`.
    (`fun c => c.polls ≥ k`: abort from the k-th poll on;  `fun c => c.hooks ≥ k`: `kill()` called
    inside the k-th hook invocation;  `fun c => c.yields ≥ k`: the consumer kills after k values.) -/
abbrev Oracle := Ctr → Bool

def Ctr.tick {V} (c : Ctr) : Ev V → Ctr
  | .poll _ _ => { c with polls := c.polls + 1 }
  | .yield _ => { c with yields := c.yields + 1 }
  | .hskip _ => { c with hooks := c.hooks + 1, skipped := c.skipped + 1 }
  | _ => { c with hooks := c.hooks + 1 }

def advance {V} (c : Ctr) (evs : List (Ev V)) : Ctr := evs.foldl Ctr.tick c

structure Cfg where
  recursive : Bool       -- RECURSIVE
  hidden : Bool          -- HIDDEN  (`show_hidden`)
  symlinks : Bool        -- SYMLINKS (`follow_links`)
  filePathname : Bool    -- FILEPATHNAME
  dirPathname : Bool     -- DIRPATHNAME
  hasExclude : Bool      -- `bool(self.folder_exclude_check)`: the exclude pattern is not empty
  fileDec : RelPath → Res Bool
  dirExcl : RelPath → Res Bool

structure Hooks (V : Type) where
  validateDir : RelPath → Res Bool
  validateFile : RelPath → Res Bool
  onMatch : RelPath → V
  onSkip : RelPath → Option V
  onError : RelPath → Option V

/-- the hooks of the base class: validate = True, on_match = the path, on_skip/on_error = None -/
def Hooks.default : Hooks RelPath :=
  { validateDir := fun _ => .ret true, validateFile := fun _ => .ret true,
    onMatch := fun p => p, onSkip := fun _ => none, onError := fun _ => none }

/-- `util.is_hidden` on this host: the base name starts with a dot -/
def isHidden (n : Name) : Bool :=
  match n with
  | '.' :: _ => true
  | _ => false

def yieldOpt {V} : Option V → List (Ev V)
  | some v => [.yield v]
  | none => []

/-- argument of `compare_file` / `compare_directory` (wcmatch.py:171, 196) -/
def cmpArg (pathname : Bool) (rel : RelPath) (n : Name) : RelPath :=
  if pathname then rel ++ [n] else [n]

/-- `_valid_folder` (wcmatch.py:187-202): hook-call events and the outcome -/
def validFolder {V} (cfg : Cfg) (hk : Hooks V) (rel : RelPath) (n : Name) : List (Ev V) × Res Bool :=
  if !cfg.recursive then ([], .ret false)
  else
    match (if cfg.hasExclude then cfg.dirExcl (cmpArg cfg.dirPathname rel n) else .ret false) with
    | .raise => ([], .raise)
    | .ret true => ([], .ret false)
    | .ret false =>
      if !cfg.hidden && isHidden n then ([], .ret false)
      else ([.vdir (rel ++ [n])], hk.validateDir (rel ++ [n]))

/-- `_valid_file` (wcmatch.py:166-175) -/
def validFile {V} (cfg : Cfg) (hk : Hooks V) (rel : RelPath) (n : Name) : List (Ev V) × Res Bool :=
  match cfg.fileDec (cmpArg cfg.filePathname rel n) with
  | .raise => ([], .raise)
  | .ret false => ([], .ret false)
  | .ret true =>
    if !cfg.hidden && isHidden n then ([], .ret false)
    else ([.vfile (rel ++ [n])], hk.validateFile (rel ++ [n]))

/-- body of the folder loop for one name, without the poll (wcmatch.py:268-275):
    events and "the name stays in `dirs`" -/
def dirStep {V} (cfg : Cfg) (hk : Hooks V) (rel : RelPath) (n : Name) : List (Ev V) × Bool :=
  match validFolder cfg hk rel n with
  | (e, .ret keep) => (e, keep)
  | (e, .raise) => (e ++ .herror (rel ++ [n]) :: yieldOpt (hk.onError (rel ++ [n])), false)

/-- body of the file loop for one name, without the poll (wcmatch.py:288-302) -/
def fileStep {V} (cfg : Cfg) (hk : Hooks V) (rel : RelPath) (n : Name) : List (Ev V) :=
  let p := rel ++ [n]
  match validFile cfg hk rel n with
  | (e, .ret true) => e ++ [.hmatch p, .yield (hk.onMatch p)]
  | (e, .ret false) => e ++ .hskip p :: yieldOpt (hk.onSkip p)
  | (e, .raise) => e ++ (.herror p :: yieldOpt (hk.onError p)) ++ (.hskip p :: yieldOpt (hk.onSkip p))

/-- the folder loop `for name in dirs[:]` (wcmatch.py:267-278): events and what is left in `dirs`.
    On a poll that returns true the loop is left: the names not yet looked at STAY in `dirs`. -/
def dirLoop {V} (o : Oracle) (cfg : Cfg) (hk : Hooks V) (rel : RelPath) :
    List Name → Ctr → List (Ev V) × List Name
  | [], _ => ([], [])
  | n :: ns, c =>
    let s := dirStep cfg hk rel n
    let c1 := advance c s.1
    let kept0 := if s.2 then [n] else []
    if o c1 then (s.1 ++ [.poll .folder true], kept0 ++ ns)
    else
      let r := dirLoop o cfg hk rel ns (c1.tick (.poll .folder false : Ev V))
      (s.1 ++ .poll .folder false :: r.1, kept0 ++ r.2)

/-- the file loop (wcmatch.py:287-305) -/
def fileLoop {V} (o : Oracle) (cfg : Cfg) (hk : Hooks V) (rel : RelPath) :
    List Name → Ctr → List (Ev V)
  | [], _ => []
  | n :: ns, c =>
    let e := fileStep cfg hk rel n
    let c1 := advance c e
    if o c1 then e ++ [.poll .file true]
    else e ++ .poll .file false :: fileLoop o cfg hk rel ns (c1.tick (.poll .file false : Ev V))

structure Run (V : Type) where
  evs : List (Ev V)
  /-- the `for … in os.walk(…)` loop was left by a `break` of its own body: poll site `top` or poll
      site `mid` (the `break`s of the folder and file sites only leave the inner loops) -/
  stop : Bool
  deriving Repr

/-- one iteration of `for base, dirs, files in os.walk(…)` for the directory `rel` with entries `t`:
    poll `top`, the folder loop, poll `mid`, the file loop; followed by `os.walk`'s descent into what
    is left in `dirs` (`subs kept clock`) -/
def dirBody {V} (o : Oracle) (cfg : Cfg) (hk : Hooks V) (rel : RelPath) (t : Tree) (c : Ctr)
    (subs : List Name → Ctr → Run V) : Run V :=
  if o c then ⟨[.poll .top true], true⟩
  else
    let c1 := c.tick (.poll .top false : Ev V)
    let d := dirLoop o cfg hk rel (dirNames t) c1
    let c2 := advance c1 d.1
    -- wcmatch.py:280-282 (repair of D20): `if self.is_aborted(): break` after the folder loop — the
    -- files of this directory are not looked at, and `os.walk` is not resumed (so what the interrupted
    -- folder loop left in `dirs` is never descended into)
    if o c2 then ⟨.poll .top false :: (d.1 ++ [.poll .mid true]), true⟩
    else
      let c2' := c2.tick (.poll .mid false : Ev V)
      let f := fileLoop o cfg hk rel (fileNames t) c2'
      let c3 := advance c2' f
      let s := subs d.2 c3
      ⟨.poll .top false :: (d.1 ++ (.poll .mid false :: (f ++ s.evs))), s.stop⟩

/-- `os.walk` descends into a name iff it is still in `dirs` and (`followlinks` or not a link) -/
def enters (cfg : Cfg) (kept : List Name) (n : Name) (k : Kind) : Bool :=
  kept.contains n && k.walkable cfg.symlinks

/-- `os.walk`'s descent into the sub-directories of `rel` (entries `t`) that are left in `kept` -/
def walkSubs {V} (o : Oracle) (cfg : Cfg) (hk : Hooks V) :
    RelPath → List Name → Tree → Ctr → Run V
  | _, _, .nil, _ => ⟨[], false⟩
  | rel, kept, .cons n k sub rest, c =>
    if enters cfg kept n k then
      let r := dirBody o cfg hk (rel ++ [n]) sub c (fun kept' c' => walkSubs o cfg hk (rel ++ [n]) kept' sub c')
      if r.stop then r
      else
        let r2 := walkSubs o cfg hk rel kept rest (advance c r.evs)
        ⟨r.evs ++ r2.evs, r2.stop⟩
    else walkSubs o cfg hk rel kept rest c

def walkDir {V} (o : Oracle) (cfg : Cfg) (hk : Hooks V) (rel : RelPath) (t : Tree) (c : Ctr) : Run V :=
  dirBody o cfg hk rel t c (fun kept c' => walkSubs o cfg hk rel kept t c')

/-- one complete run of `imatch()` consumed to the end: `on_reset()`, `_skipped = 0`, `_walk()` -/
def run {V} (o : Oracle) (cfg : Cfg) (hk : Hooks V) (t : Tree) : List (Ev V) :=
  .reset :: (walkDir o cfg hk [] t (advance {} [(.reset : Ev V)])).evs

def yieldOf {V} : Ev V → Option V
  | .yield v => some v
  | _ => none

/-- the values the consumer receives -/
def results {V} (evs : List (Ev V)) : List V := evs.filterMap yieldOf

/-- the value of `get_skipped()` after the run -/
def skippedOf {V} (evs : List (Ev V)) : Nat := (advance {} evs).skipped

/-! ### configuration from the public flags -/

/-- `WcMatch._parse_flags` (wcmatch.py:123-136) for the five flags the walk itself consumes; bit
    values from `Generated.lean` -/
def Cfg.ofFlags (flags : Nat) (fileEmpty exclEmpty : Bool)
    (fileTab dirTab : RelPath → Res Bool) : Cfg :=
  let fl := flags &&& Gen.wcmatchFlagMask
  { recursive := fl &&& Gen.wcmRECURSIVE != 0
    hidden := fl &&& Gen.wcmHIDDEN != 0
    symlinks := fl &&& Gen.wcmSYMLINKS != 0
    filePathname := fl &&& Gen.wcmFILEPATHNAME != 0
    dirPathname := fl &&& Gen.wcmDIRPATHNAME != 0
    -- `_compile` (wcmatch.py:149-164): an empty file pattern is the regex `^.*$` (DOTALL): every
    -- name is accepted; an empty exclude pattern is an empty (falsy) `WcRegexp`
    hasExclude := !exclEmpty
    fileDec := if fileEmpty then fun _ => .ret true else fileTab
    dirExcl := if exclEmpty then fun _ => .ret false else dirTab }

/-! ### specification: the filtered directory walk (C14) -/

/-- the file decision of the property: the file pattern accepts the name (or the root-relative
    path under FILEPATHNAME), and hidden files are dropped unless HIDDEN -/
def selected (cfg : Cfg) (rel : RelPath) (n : Name) : Bool :=
  (cfg.fileDec (cmpArg cfg.filePathname rel n) == .ret true) && (cfg.hidden || !isHidden n)

/-- a sub-directory is walked into iff RECURSIVE, the exclude pattern does not accept it, it is not
    hidden unless HIDDEN, and it is not a symlink unless SYMLINKS -/
def enterable (cfg : Cfg) (rel : RelPath) (n : Name) (k : Kind) : Bool :=
  cfg.recursive
  && !(cfg.hasExclude && (cfg.dirExcl (cmpArg cfg.dirPathname rel n) == .ret true))
  && (cfg.hidden || !isHidden n)
  && k.walkable cfg.symlinks

/-- the files (as `(directory, name)`) of the directories reachable below `rel`, in `os.walk` order:
    a directory's own files first, then its sub-directories depth-first in `scandir` order -/
def reachSubs (cfg : Cfg) : RelPath → Tree → List (RelPath × Name)
  | _, .nil => []
  | rel, .cons n k sub rest =>
    (if enterable cfg rel n k then
      (fileNames sub).map (fun f => (rel ++ [n], f)) ++ reachSubs cfg (rel ++ [n]) sub
     else []) ++ reachSubs cfg rel rest

/-- every file of every reachable directory (= the files *visited*) -/
def reachable (cfg : Cfg) (t : Tree) : List (RelPath × Name) :=
  (fileNames t).map (fun f => ([], f)) ++ reachSubs cfg [] t

/-- the specification of `WcMatch(...).match()` with the base-class hooks -/
def specResults (cfg : Cfg) (t : Tree) : List RelPath :=
  ((reachable cfg t).filter (fun x => selected cfg x.1 x.2)).map (fun x => x.1 ++ [x.2])

/-- the specification of `get_skipped()`: visited and not returned -/
def specSkipped (cfg : Cfg) (t : Tree) : Nat :=
  (reachable cfg t).length - (specResults cfg t).length

/-! ### object level: `match / imatch / next / kill / reset / is_aborted / get_skipped` -/

/-- Operations on ONE `WcMatch` object.  At most one generator is live: `imatch` closes the previous
    one (closing a suspended generator runs no hook — `_walk` has no `finally`).
    `match killAt`: a full run during which the `killAt`-th hook invocation (1-based, `on_reset` is
    the first) calls `self.kill()`. -/
inductive Op
  | match (killAt : Option Nat)
  | imatch
  | next
  | kill
  | reset
  | isAborted
  | getSkipped
  deriving DecidableEq, Repr

inductive Obs (V : Type)
  | unit
  | bool (b : Bool)
  | nat (n : Nat)
  | list (evs : List (Ev V))      -- `match()`: the complete event sequence of the run
  | value (evs : List (Ev V))     -- `next()` returned: the events of this segment, ending in the yield
  | stopIter (evs : List (Ev V))  -- `next()` raised StopIteration after these events
  | noGen                         -- `next` without a generator
  deriving Repr

/-- a suspended generator: the value of the abort flag during each `next()` so far, and how many
    events have already been delivered -/
structure Gen where
  segs : List Bool
  seen : Nat          -- number of events of the run already executed
  taken : Nat         -- number of values delivered
  done : Bool
  deriving Repr

structure Obj where
  flag : Bool := false      -- `_abort`
  skipped : Nat := 0        -- `_skipped`
  gen : Option Gen := none
  deriving Repr

/-- length of the prefix of `evs` up to and including its `k`-th (0-based) yield; `none` if there is none -/
def uptoYield {V} : List (Ev V) → Nat → Option Nat
  | [], _ => none
  | .yield _ :: _, 0 => some 1
  | .yield _ :: es, k + 1 => (uptoYield es k).map (· + 1)
  | _ :: es, k => (uptoYield es k).map (· + 1)

def countSkips {V} (evs : List (Ev V)) : Nat := (evs.filter (fun e => match e with | .hskip _ => true | _ => false)).length

def Obj.step {V} (cfg : Cfg) (hk : Hooks V) (t : Tree) (st : Obj) : Op → Obj × Obs V
  | .kill => ({ st with flag := true }, .unit)
  | .reset => ({ st with flag := false }, .unit)
  | .isAborted => (st, .bool st.flag)
  | .getSkipped => (st, .nat st.skipped)
  | .match killAt =>
    -- the default `is_aborted()` returns the flag; a hook that kills sets it for good
    let o : Oracle := fun c => st.flag || (match killAt with | some k => decide (k ≤ c.hooks) | none => false)
    let evs := run o cfg hk t
    let c := advance {} evs
    ({ st with flag := o c, skipped := c.skipped }, .list evs)
  | .imatch => ({ st with gen := some ⟨[], 0, 0, false⟩ }, .unit)
  | .next =>
    match st.gen with
    | none => (st, .noGen)
    | some g =>
      if g.done then (st, .stopIter [])
      else
        -- the flag is constant while the generator runs (only the consumer writes it here), so the
        -- poll issued after `y` yields sees the flag of segment `y`
        let segs := g.segs ++ [st.flag]
        let o : Oracle := fun c => segs.getD c.yields true
        let evs := run o cfg hk t
        let base := if g.seen = 0 then 0 else st.skipped   -- first `next`: `_skipped = 0`
        match uptoYield evs g.taken with
        | some n =>
          let seg := (evs.take n).drop g.seen
          ({ st with skipped := base + countSkips seg, gen := some ⟨segs, n, g.taken + 1, false⟩ }, .value seg)
        | none =>
          let seg := evs.drop g.seen
          ({ st with skipped := base + countSkips seg, gen := some ⟨segs, evs.length, g.taken, true⟩ }, .stopIter seg)

def Obj.runOps {V} (cfg : Cfg) (hk : Hooks V) (t : Tree) : Obj → List Op → List (Obs V)
  | _, [] => []
  | st, op :: ops =>
    let r := st.step cfg hk t op
    r.2 :: Obj.runOps cfg hk t r.1 ops

end WcModel.WcWalk

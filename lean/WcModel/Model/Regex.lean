/-
  Regex fragment emitted by wcmatch, its declarative semantics `Re.M`, an executable
  matcher `Re.ends` (all end positions), and the printer `Re.render` that reproduces the
  text Python's `WcParse` writes.  No Mathlib; compiles into the native driver.

  Strings are `List Char`.  A matching state is in *suffix style*: what is left of the
  subject plus whether we are still at its very beginning (`^`).
-/
namespace WcModel

/-- The fourteen POSIX class names accepted by `RE_POSIX`. -/
inductive PosixName
  | alnum | alpha | ascii | blank | cntrl | digit | graph | lower | print | punct
  | space | upper | word | xdigit
  deriving DecidableEq, Repr, Inhabited

/-- One member of a bracket expression.  `esc` records whether the regex text spells the
    character with a backslash (needed only to print the text Python prints). The ranges of
    a POSIX class are carried *in the item* (`rs`), as computed from the table text that
    the translator extracts from `posix.py`. -/
inductive ClsItem
  | chr (c : Char) (esc : Bool)
  | range (lo : Char) (loEsc : Bool) (hi : Char) (hiEsc : Bool)
  | posix (n : PosixName) (text : List Char) (rs : List (Nat × Nat))
  deriving DecidableEq, Repr, Inhabited

inductive Re
  | eps
  | lit (c : Char)                 -- printed as `re.escape c`
  | any                            -- `.`
  | cls (neg : Bool) (items : List ClsItem)
  | cat (a b : Re)
  | alt (a b : Re)                 -- `a|b`
  | grp (r : Re)                   -- `(?:r)`
  | cap (r : Re)                   -- `((?#)r)`, i.e. `(r)` once the comment is stripped
  | gcap (r : Re)                  -- `(r)` (globstar capture under REALPATH)
  | opt (r : Re)                   -- `r?`
  | star (lzy : Bool) (r : Re)     -- `r*` / `r*?`
  | plus (r : Re)                  -- `r+`
  | rep (lo hi : Nat) (r : Re)     -- `r{lo,hi}` (`r{lo}` when equal)
  | look (neg : Bool) (r : Re)     -- `(?=r)` / `(?!r)`
  | bos                            -- `^`
  | eos                            -- Python `$` (no MULTILINE)
  | flags (s i : Bool) (r : Re)    -- `(?s:r)` `(?si:r)` `(?i:r)`
  deriving DecidableEq, Repr, Inhabited

/-- Matching state: `atStart` ⇔ nothing has been consumed yet; `rest` = unread suffix. -/
structure St where
  atStart : Bool
  rest : List Char
  deriving DecidableEq, Repr, Inhabited

structure Mode where
  dotall : Bool
  ci : Bool
  deriving DecidableEq, Repr, Inhabited

/-! ### character tests -/

def asciiLower (c : Char) : Char :=
  if 'A' ≤ c ∧ c ≤ 'Z' then Char.ofNat (c.toNat + 32) else c
def asciiUpper (c : Char) : Char :=
  if 'a' ≤ c ∧ c ≤ 'z' then Char.ofNat (c.toNat - 32) else c

/-- literal comparison under the case mode (ASCII folding only; see trusted base). -/
def charEq (ci : Bool) (c d : Char) : Bool :=
  if ci then asciiLower c == asciiLower d else c == d

def ClsItem.has : ClsItem → Char → Bool
  | .chr c _, d => c == d
  | .range lo _ hi _, d => lo.toNat ≤ d.toNat && d.toNat ≤ hi.toNat
  | .posix _ _ rs, d => rs.any (fun p => p.1 ≤ d.toNat && d.toNat ≤ p.2)

def ClsItem.hasCi (ci : Bool) (it : ClsItem) (d : Char) : Bool :=
  it.has d || (ci && (it.has (asciiLower d) || it.has (asciiUpper d)))

def clsMatch (ci neg : Bool) (items : List ClsItem) (d : Char) : Bool :=
  (items.any (fun it => it.hasCi ci d)) != neg

def anyMatch (dotall : Bool) (d : Char) : Bool := dotall || d != '\n'

/-- Python `$` without MULTILINE: at the end, or just before a final newline. -/
def atEos (s : List Char) : Bool := s == [] || s == ['\n']

/-! ### declarative semantics -/

/-- reflexive–transitive closure -/
inductive Iter (R : St → St → Prop) : St → St → Prop
  | refl (a) : Iter R a a
  | step {a b c} : R a b → Iter R b c → Iter R a c

/-- exactly `n` steps -/
inductive IterN (R : St → St → Prop) : Nat → St → St → Prop
  | zero (a) : IterN R 0 a a
  | succ {n a b c} : R a b → IterN R n b c → IterN R (n+1) a c

def consume1 (p : Char → Bool) (a b : St) : Prop :=
  ∃ d s, a.rest = d :: s ∧ p d = true ∧ b = ⟨false, s⟩

/-- `M md r a b`: `r` can match from state `a` leaving state `b`.  Laziness and capturing
    are ignored: they affect *which* match Python reports, not whether one exists. -/
def Re.M (md : Mode) : Re → St → St → Prop
  | .eps, a, b => b = a
  | .lit c, a, b => consume1 (charEq md.ci c) a b
  | .any, a, b => consume1 (anyMatch md.dotall) a b
  | .cls neg items, a, b => consume1 (clsMatch md.ci neg items) a b
  | .cat r₁ r₂, a, b => ∃ c, Re.M md r₁ a c ∧ Re.M md r₂ c b
  | .alt r₁ r₂, a, b => Re.M md r₁ a b ∨ Re.M md r₂ a b
  | .grp r, a, b => Re.M md r a b
  | .cap r, a, b => Re.M md r a b
  | .gcap r, a, b => Re.M md r a b
  | .opt r, a, b => b = a ∨ Re.M md r a b
  | .star _ r, a, b => Iter (Re.M md r) a b
  | .plus r, a, b => ∃ c, Re.M md r a c ∧ Iter (Re.M md r) c b
  | .rep lo hi r, a, b => ∃ n, lo ≤ n ∧ n ≤ hi ∧ IterN (Re.M md r) n a b
  | .look false r, a, b => b = a ∧ ∃ c, Re.M md r a c
  | .look true r, a, b => b = a ∧ ¬ ∃ c, Re.M md r a c
  | .bos, a, b => b = a ∧ a.atStart = true
  | .eos, a, b => b = a ∧ atEos a.rest = true
  | .flags s i r, a, b => Re.M ⟨s, i⟩ r a b

/-- `re.fullmatch` with no compile flags -/
def Re.FullMatch (r : Re) (s : List Char) : Prop :=
  ∃ b, Re.M ⟨false, false⟩ r ⟨true, s⟩ ⟨b, []⟩
/-- `re.match` (prefix match) with no compile flags -/
def Re.PrefixMatch (r : Re) (s : List Char) : Prop :=
  ∃ e, Re.M ⟨false, false⟩ r ⟨true, s⟩ e

/-! ### executable matcher: the list of all end states -/

def dedup [DecidableEq α] (l : List α) : List α :=
  l.foldr (fun x acc => if x ∈ acc then acc else x :: acc) []

def step1 (p : Char → Bool) (a : St) : List St :=
  match a.rest with
  | [] => []
  | d :: s => if p d then [⟨false, s⟩] else []

/-- one round of closure: everything in `S` plus every successor -/
def closeRound (f : St → List St) (S : List St) : List St := dedup (S ++ S.flatMap f)

def closeN (f : St → List St) : Nat → List St → List St
  | 0, S => S
  | n+1, S => closeN f n (closeRound f S)

/-- all states reachable by ≤ n applications of `f` (exactly n for `iterN`) -/
def iterN (f : St → List St) : Nat → List St → List St
  | 0, S => S
  | n+1, S => iterN f n (dedup (S.flatMap f))

def Re.ends (md : Mode) : Re → St → List St
  | .eps, a => [a]
  | .lit c, a => step1 (charEq md.ci c) a
  | .any, a => step1 (anyMatch md.dotall) a
  | .cls neg items, a => step1 (clsMatch md.ci neg items) a
  | .cat r₁ r₂, a => dedup ((Re.ends md r₁ a).flatMap (fun c => Re.ends md r₂ c))
  | .alt r₁ r₂, a => dedup (Re.ends md r₁ a ++ Re.ends md r₂ a)
  | .grp r, a => Re.ends md r a
  | .cap r, a => Re.ends md r a
  | .gcap r, a => Re.ends md r a
  | .opt r, a => dedup (a :: Re.ends md r a)
  | .star _ r, a => closeN (fun x => Re.ends md r x) (a.rest.length + 1) [a]
  | .plus r, a =>
      dedup ((Re.ends md r a).flatMap
        (fun c => closeN (fun x => Re.ends md r x) (c.rest.length + 1) [c]))
  | .rep lo hi r, a =>
      dedup ((List.range (hi + 1 - lo)).flatMap
        (fun k => iterN (fun x => Re.ends md r x) (lo + k) [a]))
  | .look false r, a => if (Re.ends md r a).isEmpty then [] else [a]
  | .look true r, a => if (Re.ends md r a).isEmpty then [a] else []
  | .bos, a => if a.atStart then [a] else []
  | .eos, a => if atEos a.rest then [a] else []
  | .flags s i r, a => Re.ends ⟨s, i⟩ r a

def Re.fullmatch (r : Re) (s : List Char) : Bool :=
  (Re.ends ⟨false, false⟩ r ⟨true, s⟩).any (fun e => e.rest.isEmpty)
def Re.prefixmatch (r : Re) (s : List Char) : Bool :=
  !(Re.ends ⟨false, false⟩ r ⟨true, s⟩).isEmpty

/-! ### printer -/

def reEscapeSet : List Char :=
  ['\t', '\n', '\x0b', '\x0c', '\r', ' ', '#', '$', '&', '(', ')', '*', '+', '-', '.', '?',
   '[', '\\', ']', '^', '{', '|', '}', '~']

/-- `re.escape` of one character (Python 3.7+) -/
def reEscape (c : Char) : List Char :=
  if c ∈ reEscapeSet then ['\\', c] else [c]

def escChar (c : Char) (esc : Bool) : List Char := if esc then ['\\', c] else [c]

def ClsItem.render : ClsItem → List Char
  | .chr c e => escChar c e
  | .range lo le hi he => escChar lo le ++ ['-'] ++ escChar hi he
  | .posix _ t _ => t

def natDigits (n : Nat) : List Char := (toString n).toList

def Re.render : Re → List Char
  | .eps => []
  | .lit c => reEscape c
  | .any => ['.']
  | .cls neg items =>
      ['['] ++ (if neg then ['^'] else []) ++ items.flatMap ClsItem.render ++ [']']
  | .cat a b => a.render ++ b.render
  | .alt a b => a.render ++ ['|'] ++ b.render
  | .grp r => "(?:".toList ++ r.render ++ [')']
  | .cap r => ['('] ++ r.render ++ [')']
  | .gcap r => ['('] ++ r.render ++ [')']
  | .opt r => r.render ++ ['?']
  | .star lzy r => r.render ++ (if lzy then ['*', '?'] else ['*'])
  | .plus r => r.render ++ ['+']
  | .rep lo hi r =>
      r.render ++ ['{'] ++ natDigits lo ++ (if lo = hi then [] else [','] ++ natDigits hi) ++ ['}']
  | .look neg r => (if neg then "(?!" else "(?=").toList ++ r.render ++ [')']
  | .bos => ['^']
  | .eos => ['$']
  | .flags s i r =>
      "(?".toList ++ (if s then ['s'] else []) ++ (if i then ['i'] else []) ++ [':'] ++
        r.render ++ [')']

/-- remove translate-mode capture markers (the `(?#)` → `?:` rewrite) -/
def Re.eraseCap : Re → Re
  | .cap r => .grp r.eraseCap
  | .cat a b => .cat a.eraseCap b.eraseCap
  | .alt a b => .alt a.eraseCap b.eraseCap
  | .grp r => .grp r.eraseCap
  | .gcap r => .gcap r.eraseCap
  | .opt r => .opt r.eraseCap
  | .star l r => .star l r.eraseCap
  | .plus r => .plus r.eraseCap
  | .rep lo hi r => .rep lo hi r.eraseCap
  | .look n r => .look n r.eraseCap
  | .flags s i r => .flags s i r.eraseCap
  | r => r

end WcModel

/-
  Abstract file tree: what `glob` / `globmatch(REALPATH)` can observe through
  `os.scandir`, `os.lstat` / `os.path.lexists` / `os.path.islink` and `os.stat` /
  `os.path.isdir`.

  * `Node.dir es` lists its entries *in scandir order*.
  * `Node.link t` carries the link's **resolved** target: the canonical real path (from the
    top of the tree, no links in it) of the file or directory the OS reaches through the
    link — computed by the harness by *asking the OS* (`os.stat` + `os.path.realpath`), never
    from the generator's intent.  `none` = the link cannot be followed (dangling, or a loop:
    `stat` fails) — such an entry exists (`lstat`), is not a directory and is a symlink.
  * `FS.cwd` is the real path of the directory `glob` is rooted at (`root_dir`, `dir_fd` or
    the working directory: one abstract root for all three, DESIGN §6 C12).

  Two ways of resolving a path are provided:
  * **string level** (`FS.lexists`, `FS.isdir`, `FS.islink`): the display path is cut at `/` and
    resolved from scratch, following links — what the OS does for `_Match._fs_match`'s
    `os.path.islink(base)` and for `_match_real`'s `lexists`/`isdir`;
  * **location level** (`Loc`, `FS.step`): the walker model carries, next to every display
    path it builds, the location the OS would reach (`some realpath`, or `none` if the path
    does not resolve), extended one component at a time.  That path resolution is
    compositional is the modelling assumption (validated by K5, not proved about the OS);
    `Proofs/GlobFS.lean` proves it for the string-level resolver of this file.

  Everything that can re-enter the tree through a link (`step` on a link, `get` of a link
  target) is *not* structural on `Node`; the deep `**` walk without FOLLOW only moves from a
  directory to a child `Node.dir`, so it is bounded by `Node.height` — the asymmetry that is
  the formal content of C06 (`Proofs/GlobFuel.lean`).
-/
namespace WcModel

abbrev Name := List Char
/-- real path: names from the top of the tree, no links, no `.`/`..` -/
abbrev RPath := List Name

inductive Node
  | file
  | dir (entries : List (Name × Node))
  | link (target : Option RPath)
  deriving Repr, Inhabited

structure FS where
  top : Node
  cwd : RPath
  deriving Repr, Inhabited

def findEntry (n : Name) : List (Name × Node) → Option Node
  | [] => none
  | (m, c) :: r => if m = n then some c else findEntry n r

/-- the node at a real path (descends through real directories only) -/
def Node.get : Node → RPath → Option Node
  | nd, [] => some nd
  | .dir es, n :: r =>
    match findEntry n es with
    | some c => c.get r
    | none => none
  | _, _ :: _ => none

mutual
def Node.height : Node → Nat
  | .dir es => 1 + Node.heightL es
  | _ => 0
def Node.heightL : List (Name × Node) → Nat
  | [] => 0
  | (_, n) :: r => max n.height (Node.heightL r)
end

def Node.isDirNode : Node → Bool
  | .dir _ => true
  | _ => false

def Node.isLinkNode : Node → Bool
  | .link _ => true
  | _ => false

/-- A location: the real path a display path resolves to when every link (including a final
    one) is followed; `none` = it does not resolve (`stat` raises). -/
abbrev Loc := Option RPath

def dot : Name := ['.']
def dotdot : Name := ['.', '.']

/-- entries of the directory at a location (`none`: not a directory / does not resolve) -/
def FS.entries (fs : FS) : Loc → Option (List (Name × Node))
  | none => none
  | some rp =>
    match fs.top.get rp with
    | some (.dir es) => some es
    | _ => none

def FS.locIsDir (fs : FS) (l : Loc) : Bool := (fs.entries l).isSome

/-- where a directory entry leads when followed -/
def childLoc (rp : RPath) (n : Name) : Node → Loc
  | .file => some (rp ++ [n])
  | .dir _ => some (rp ++ [n])
  | .link t => t

/-- extend a location by one path component, following links (`stat` semantics).  From a
    location that is not a directory nothing resolves (ENOTDIR / ENOENT), not even `''`/`.`. -/
def FS.step (fs : FS) (l : Loc) (c : Name) : Loc :=
  match l with
  | none => none
  | some rp =>
    match fs.entries (some rp) with
    | none => none
    | some es =>
      if c = [] ∨ c = dot then some rp
      else if c = dotdot then some rp.dropLast
      else match findEntry c es with
        | some nd => childLoc rp c nd
        | none => none

/-- does the entry itself exist (`lstat` of the last component) -/
def FS.lstep (fs : FS) (l : Loc) (c : Name) : Bool :=
  match fs.entries l with
  | none => false
  | some es =>
    if c = [] ∨ c = dot ∨ c = dotdot then true
    else (findEntry c es).isSome

/-- is the last component itself a symbolic link -/
def FS.linkstep (fs : FS) (l : Loc) (c : Name) : Bool :=
  match fs.entries l with
  | none => false
  | some es =>
    if c = [] ∨ c = dot ∨ c = dotdot then false
    else match findEntry c es with
      | some (.link _) => true
      | _ => false

/-- `s.split('/')` -/
def splitSlash : List Char → List Name
  | [] => [[]]
  | c :: r =>
    if c = '/' then [] :: splitSlash r
    else match splitSlash r with
      | [] => [[c]]
      | a :: as => (c :: a) :: as

def FS.steps (fs : FS) : Loc → List Name → Loc
  | l, [] => l
  | l, c :: cs => FS.steps fs (fs.step l c) cs

/-- the location a display path starts from: the top for an absolute path, else the root -/
def FS.base (fs : FS) (path : List Char) : Loc :=
  match path with
  | '/' :: _ => some []
  | _ => some fs.cwd

/-- `stat`-style resolution of a display path string -/
def FS.resolve (fs : FS) (path : List Char) : Loc :=
  fs.steps (fs.base path) (splitSlash path)

/-- `os.path.isdir(os.path.join(root, path))` -/
def FS.isdir (fs : FS) (path : List Char) : Bool := fs.locIsDir (fs.resolve path)

/-- `os.path.lexists(os.path.join(root, path))` -/
def FS.lexists (fs : FS) (path : List Char) : Bool :=
  let cs := splitSlash path
  fs.lstep (fs.steps (fs.base path) cs.dropLast) (cs.getLast?.getD [])

/-- `os.path.islink(os.path.join(root, path))` -/
def FS.islink (fs : FS) (path : List Char) : Bool :=
  let cs := splitSlash path
  fs.linkstep (fs.steps (fs.base path) cs.dropLast) (cs.getLast?.getD [])

/-- `os.path.join(a, b)` (POSIX) -/
def pjoin (a b : List Char) : List Char :=
  match b with
  | '/' :: _ => b
  | _ => if a = [] ∨ a.getLast? = some '/' then a ++ b else a ++ '/' :: b

/-- one `os.scandir` entry as `Glob._iter` sees it -/
structure DEnt where
  name : Name
  isDir : Bool      -- `f.is_dir()` (follows links)
  isLink : Bool     -- `f.is_symlink()`, looked at only for directories
  loc : Loc         -- where the entry leads when followed
  deriving Repr, Inhabited

def FS.nodeIsDir (fs : FS) (rp : RPath) (n : Name) (nd : Node) : Bool :=
  fs.locIsDir (childLoc rp n nd)

/-- `os.scandir` of a location, in scandir order; `none` when it raises -/
def FS.scandir (fs : FS) (l : Loc) : Option (List DEnt) :=
  match l with
  | none => none
  | some rp =>
    match fs.entries (some rp) with
    | none => none
    | some es => some (es.map (fun e =>
        let d := fs.nodeIsDir rp e.1 e.2
        { name := e.1, isDir := d, isLink := d && e.2.isLinkNode, loc := childLoc rp e.1 e.2 }))

end WcModel

import WcModel.Model.FS
import WcModel.Model.GlobSplit
/-
  Port of `glob.Glob` (glob.py 388-865): `__init__`, `_iter_patterns` (without the limit
  arithmetic, which is C11's), `_parse_patterns`, `_iter`, `_glob_dir`, `_glob`,
  `_get_starting_paths`, `_is_excluded`, `_is_unique`, `_pathlib_norm`, `_format_path`,
  `glob()`.

  The walker produces one **event sequence**: every `os.scandir` attempt (`Ev.scan curdir`,
  with the display path the code hands to `_iter`) interleaved with every value a generator
  yields (`Ev.y`).  A Python generator pipeline `for x in g(): yield from h(x)` is the list
  `bindEv (g) h`, which is exactly its lazy evaluation order, so the interleaving of
  listings and results is part of what K5 compares.

  Fuel: `globDir` takes fuel for its deep (`**`) recursion and emits `Ev.oof` when it runs
  out.  `Proofs/GlobFuel.lean` proves that without FOLLOW / `***` the result does not
  depend on the fuel once it exceeds the height of the tree and contains no `oof`
  (C06: termination); with FOLLOW on a cyclic tree every fuel is exhausted, which is the
  model's rendering of "does not terminate".
-/
namespace WcModel

/-! ### flags (`Glob.__init__`, 403-446) -/

def clearIf (n bit : Nat) : Nat := if hasBit n bit then n ^^^ bit else n

/-- `glob._flag_transform` (105-123), bit level (`if flags & X: flags ^= X` is `clearIf`) -/
def globFlagTransform (n : Nat) : Nat :=
  let n := if hasBit n Gen.FFORCEUNIX && hasBit n Gen.FFORCEWIN then n ^^^ (Gen.FFORCEWIN ||| Gen.FFORCEUNIX) else n
  let n := (n &&& Gen.globFlagMask) ||| Gen.FPATHNAME
  if hasBit n Gen.FREALPATH then
    if hostIsWindows then clearIf n Gen.FFORCEUNIX ||| Gen.FFORCEWIN
    else clearIf n Gen.FFORCEWIN
  else n

/-- `_wcparse.no_negate_flags` -/
def noNegateFlags (n : Nat) : Nat := clearIf (clearIf n Gen.FNEGATE) Gen.FNEGATEALL

/-- the fields `Glob.__init__` computes from the user's flag word -/
structure GInit where
  flags : Flags          -- `self.flags`
  negFlags : Flags       -- `self.negate_flags`
  isBytes : Bool
  nouniqueFlag : Bool    -- `self.nounique` before the single-pattern shortcut
  mark : Bool
  scandotdir : Bool
  negateall : Bool
  nodir : Bool
  pathlib : Bool
  fdMode : Bool          -- a usable `dir_fd` was given
  deriving Repr, Inhabited

/-- 406-407: with `exclude=` NEGATE / NEGATEALL are removed first -/
def initStrip (n : Nat) (hasExclude : Bool) : Nat := if hasExclude then noNegateFlags n else n

/-- 421-432: MARK, NEGATEALL, NODIR, `_PATHLIB` peeled off, then `_flag_transform(flags | REALPATH)` -/
def initWord0 (n0 : Nat) : Nat :=
  globFlagTransform
    (clearIf (clearIf (clearIf (clearIf n0 Gen.globMARK) Gen.FNEGATEALL) Gen.FNODIR) Gen.globPATHLIB ||| Gen.FREALPATH)

/-- 434-435: NODOTDIR is forced unless SCANDOTDIR -/
def initWord (n0 : Nat) : Nat :=
  if !hasBit n0 Gen.globSCANDOTDIR && !hasBit (initWord0 n0) Gen.FNODOTDIR then initWord0 n0 ||| Gen.FNODOTDIR
  else initWord0 n0

def GInit.ofNat (userFlags : Nat) (hasExclude isBytes fdMode : Bool) : GInit :=
  let n0 := initStrip userFlags hasExclude
  let n1 := clearIf n0 Gen.globMARK
  let n2 := clearIf n1 Gen.FNEGATEALL
  let n3 := clearIf n2 Gen.FNODIR
  { flags := Flags.ofNat (initWord n0)
    negFlags := Flags.ofNat (initWord0 n0 ||| Gen.FDOTMATCH ||| Gen.F_NO_GLOBSTAR_CAPTURE)
    isBytes := isBytes
    nouniqueFlag := hasBit n0 Gen.FNOUNIQUE
    mark := hasBit n0 Gen.globMARK
    scandotdir := hasBit n0 Gen.globSCANDOTDIR
    negateall := hasBit n1 Gen.FNEGATEALL
    nodir := hasBit n2 Gen.FNODIR
    pathlib := hasBit n3 Gen.globPATHLIB
    fdMode := fdMode }

def GInit.followLinks (g : GInit) : Bool := g.flags.follow && !g.flags.globstarlong
def GInit.caseSensitive (g : GInit) : Bool := getCase g.flags

/-! ### what the walker itself needs -/

/-- what the directory walk itself depends on -/
structure WalkCfg where
  dot : Bool               -- DOTMATCH: nothing is hidden
  caseSensitive : Bool
  followLinks : Bool
  fdMode : Bool
  deriving Repr, Inhabited

/-- … plus what exclusion, formatting and de-duplication of the results depend on.  That
    the walk (`globPattern`) takes only the `WalkCfg` part makes "exclusions / MARK / NOUNIQUE
    do not change which directories are listed or which candidates are found" true by
    construction. -/
structure WCtx extends WalkCfg where
  mark : Bool
  pathlib : Bool
  nounique : Bool          -- effective (after the shortcut)
  excl : List Re           -- `self.npatterns`
  deriving Repr, Inhabited

inductive Ev (α : Type)
  | scan (path : List Char)
  | y (v : α)
  | oof
  deriving Repr, Inhabited, DecidableEq

def bindEv {α β : Type} (l : List (Ev α)) (f : α → List (Ev β)) : List (Ev β) :=
  l.flatMap (fun e => match e with
    | .scan p => [.scan p]
    | .oof => [.oof]
    | .y v => f v)

/-- a value travelling between the generators: `(path, is_dir)` plus where `path` leads -/
structure Y where
  path : List Char
  isDir : Bool
  loc : Loc
  deriving Repr, Inhabited, DecidableEq

def lowerS (s : List Char) : List Char := s.map asciiLower

abbrev Matcher := Option (Name → Bool)

/-- `_get_matcher` (587-602) with `_match_literal`; compiled parts are applied with
    `fullmatch` (the D14 repair; it was `re.match`, whose `$` accepts before a final newline) -/
def getMatcher (cs : Bool) : Option PPat → Matcher
  | none => none
  | some (.lit s) => some (fun a => if cs then a == s else lowerS a == lowerS s)
  | some (.re _ r) => some (fun a => r.fullmatch a)

def Matcher.test (m : Matcher) (n : Name) : Bool :=
  match m with
  | none => false
  | some f => f n

/-- one item of `_iter`: `(name, is_dir, hidden, is_link)` -/
structure IEnt where
  name : Name
  isDir : Bool
  hidden : Bool
  isLink : Bool
  special : Bool
  loc : Loc
  deriving Repr, Inhabited

def isHidden (dot : Bool) (n : Name) : Bool := !dot && n.head? == some '.'

/-- `_iter` (624-664).  `absCur` = `self.is_abs_pattern and curdir`.  The fake `.`/`..` come
    first and — unless the directory is opened through `dir_fd` — *before* the listing is
    attempted, so they are produced even when `curdir` is not a directory (D17). -/
def iterDir (w : WalkCfg) (fs : FS) (absCur : Bool) (loc : Loc) (dirOnly : Bool) : List IEnt :=
  let fakes : List IEnt :=
    [⟨dot, true, true, false, true, fs.step loc dot⟩, ⟨dotdot, true, true, false, true, fs.step loc dotdot⟩]
  match fs.scandir loc with
  | none => if w.fdMode && !absCur then [] else fakes
  | some es =>
    fakes ++ (es.filter (fun e => !dirOnly || e.isDir)).map
      (fun e => ⟨e.name, e.isDir, isHidden w.dot e.name, e.isLink, false, e.loc⟩)

/-- `_glob_dir` (666-689) -/
def globDir (w : WalkCfg) (fs : FS) (absPat : Bool) (m : Matcher) (dirOnly deep gfollow : Bool) :
    Nat → List Char → Loc → List (Ev Y)
  | 0, _, _ => [.oof]
  | fuel+1, curdir, loc =>
    .scan curdir :: (iterDir w fs (absPat && !curdir.isEmpty) loc dirOnly).flatMap (fun e =>
      if e.special then
        (if m.test e.name then [.y ⟨pjoin curdir e.name, true, e.loc⟩] else [])
      else
        let path := pjoin curdir e.name
        (if (m.isNone && !e.hidden) || m.test e.name then [Ev.y ⟨path, e.isDir, e.loc⟩] else []) ++
        (if deep && !e.hidden && e.isDir && (!e.isLink || w.followLinks || gfollow) then
           globDir w fs absPat m dirOnly deep gfollow fuel path e.loc
         else []))

/-- `_glob` (691-765) -/
def globParts (w : WalkCfg) (fs : FS) (absPat : Bool) (fuel : Nat) :
    List GPart → List Char → Loc → List (Ev Y)
  | [], _, _ => []
  | part :: rest, curdir, loc =>
    if part.isMagic && part.isGlobstar then
      match rest with
      | [] =>
        (if !curdir.isEmpty then [.y ⟨pjoin curdir [], true, loc⟩] else []) ++
          globDir w fs absPat none part.dirOnly true part.isGlobstarLong fuel curdir loc
      | this :: [] =>
        globDir w fs absPat (getMatcher w.caseSensitive (some this.pat)) this.dirOnly true part.isGlobstarLong
          fuel curdir loc
      | this :: this2 :: rest2 =>
        bindEv (globDir w fs absPat (getMatcher w.caseSensitive (some this.pat)) this.dirOnly true
                  part.isGlobstarLong fuel curdir loc)
          (fun v => globParts w fs absPat fuel (this2 :: rest2) v.path v.loc)
    else if !part.dirOnly then
      globDir w fs absPat (getMatcher w.caseSensitive (some part.pat)) false false false (fuel + 1) curdir loc
    else
      match rest with
      | [] => globDir w fs absPat (getMatcher w.caseSensitive (some part.pat)) true false false (fuel + 1) curdir loc
      | this :: rest1 =>
        bindEv (globDir w fs absPat (getMatcher w.caseSensitive (some part.pat)) true false false (fuel + 1) curdir loc)
          (fun v => globParts w fs absPat fuel (this :: rest1) v.path v.loc)

def PPat.text : PPat → List Char
  | .lit s => s
  | .re _ _ => []

/-- `_get_starting_paths` (767-786): scanning events and the `(name, is_dir)` results -/
def startingPaths (w : WalkCfg) (fs : FS) (absPat : Bool) (curdir : List Char) (dirOnly : Bool) :
    List (Ev Y) :=
  if !absPat && curdir != dotdot && curdir != dot && curdir != ['/'] then
    .scan [] :: ((iterDir w fs false (some fs.cwd) dirOnly).filter
      (fun e => !e.special && (getMatcher w.caseSensitive (some (.lit curdir))).test e.name)).map
      (fun e => .y ⟨e.name, e.isDir, e.loc⟩)
  else [.y ⟨curdir, true, fs.resolve curdir⟩]

/-- the body of `glob()`'s loop for one pattern (817-864), before exclusion and formatting -/
def globPattern (w : WalkCfg) (fs : FS) (fuel : Nat) (pattern : List GPart) : List (Ev Y) :=
  match pattern with
  | [] => []
  | p0 :: rest0 =>
    let dirOnly := (pattern.getLast?.map (·.dirOnly)).getD false
    let absPat := p0.isDrive
    if !p0.isMagic then
      let curdir := p0.pat.text
      if curdir.isEmpty || (absPat && !fs.lexists curdir) then []
      else
        let results := startingPaths w fs absPat curdir dirOnly
        if p0.dirOnly then
          bindEv results (fun s =>
            match rest0 with
            | this :: rest => globParts w fs absPat fuel (this :: rest) s.path s.loc
            | [] => [.y s])
        else
          bindEv results (fun s => if fs.lexists s.path then [.y s] else [])
    else
      globParts w fs absPat fuel (p0 :: rest0) [] (some fs.cwd)

/-! ### exclusion, formatting, uniqueness (563-580, 788-812) -/

def exclSubject (v : Y) : List Char :=
  if v.isDir && v.path.getLast? != some '/' then v.path ++ ['/'] else v.path

/-- `_is_excluded` -/
def isExcluded (w : WCtx) (v : Y) : Bool := w.excl.any (fun r => r.fullmatch (exclSubject v))

/-- the path part of `_format_path` -/
def formatPath (w : WCtx) (dirOnly : Bool) (v : Y) : List Char :=
  if dirOnly || (w.mark && v.isDir) then pjoin v.path [] else v.path

/-- `re_pathlib_norm.sub('', path)` with the regex of this host (since the D16 repair the
    Windows one is held only under FORCEWIN, which REALPATH clears on POSIX):
    `(?:((?<=^)|(?<=/))\.(?:/|$))+` — only `/` separates; `$` also holds before a final newline -/
def pathlibDots : Bool → List Char → List Char
  | _, [] => []
  | b, [c] => if b && c = '.' then [] else [c]
  | b, c :: d :: r' =>
    if b && c = '.' then
      if d = '/' then pathlibDots true r'
      else if d = '\n' && r'.isEmpty then [d]
      else c :: pathlibDots false (d :: r')
    else c :: pathlibDots (c = '/') (d :: r')

/-- `_pathlib_norm` (801-805) on this host (`seps = ('/',)`) -/
def pathlibNorm (p : List Char) : List Char :=
  let q := pathlibDots true p
  if q.length > 1 && q.getLast? == some '/' then q.dropLast else q

/-- the key `_is_unique` stores and looks up -/
def uniqKey (w : WCtx) (p : List Char) : List Char :=
  let p := if w.pathlib then pathlibNorm p else p
  if w.caseSensitive then p else lowerS p

/-- the events of one pattern after `_is_excluded` and the path part of `_format_path` -/
def patternOut (w : WCtx) (fs : FS) (fuel : Nat) (pattern : List GPart) : List (Ev (List Char)) :=
  let dirOnly := (pattern.getLast?.map (·.dirOnly)).getD false
  bindEv (globPattern w.toWalkCfg fs fuel pattern)
    (fun v => if isExcluded w v then [] else [.y (formatPath w dirOnly v)])

/-- `_is_unique` threaded through the output (the `seen` set) -/
def uniqEv (w : WCtx) : List (List Char) → List (Ev (List Char)) → List (Ev (List Char))
  | _, [] => []
  | seen, .y p :: r =>
    if w.nounique then .y p :: uniqEv w seen r
    else if uniqKey w p ∈ seen then uniqEv w seen r
    else .y p :: uniqEv w (uniqKey w p :: seen) r
  | seen, e :: r => e :: uniqEv w seen r

/-- `Glob.glob()` as an event sequence -/
def globEvents (w : WCtx) (fs : FS) (fuel : Nat) (patterns : List (List GPart)) : List (Ev (List Char)) :=
  uniqEv w [] (patterns.flatMap (patternOut w fs fuel))

def Ev.result? {α : Type} : Ev α → Option α
  | .y v => some v
  | _ => none
def Ev.scan? {α : Type} : Ev α → Option (List Char)
  | .scan p => some p
  | _ => none
def Ev.isOof {α : Type} : Ev α → Bool
  | .oof => true
  | _ => false

/-- `glob()`'s result list -/
def globResults (w : WCtx) (fs : FS) (fuel : Nat) (patterns : List (List GPart)) : List (List Char) :=
  (globEvents w fs fuel patterns).filterMap Ev.result?
/-- `iglob()` is `yield from Glob(...).glob()` and `glob()` is `list(iglob(...))` (878-899) -/
def iglobResults := @globResults
/-- the `os.scandir` call sequence -/
def globTrace (w : WCtx) (fs : FS) (fuel : Nat) (patterns : List (List GPart)) : List (List Char) :=
  (globEvents w fs fuel patterns).filterMap Ev.scan?

/-! ### pattern lists (`_iter_patterns`, `_parse_patterns`, 482-546) -/

/-- `_iter_patterns` over the already expanded patterns (`expansions[k]` = what
    `_wcparse.expand` yields for the k-th pattern after `norm_pattern`) -/
def iterPatterns (g : GInit) (nounique forceNegate : Bool) :
    List (List Char) → List (List Char) → List (Bool × List Char)
  | _, [] => []
  | seen, e :: r =>
    let isNeg := forceNegate || isNegative g.flags e
    let item := (isNeg, if isNeg && !forceNegate then e.drop 1 else e)
    if !nounique || isNeg then
      if e ∈ seen then iterPatterns g nounique forceNegate seen r
      else item :: iterPatterns g nounique forceNegate (e :: seen) r
    else item :: iterPatterns g nounique forceNegate seen r

/-- the state `_parse_patterns` builds -/
structure GlobObj where
  pattern : List (List GPart) := []
  npatterns : List Re := []
  nounique : Bool := false
  deriving Repr, Inhabited

def parseItemsInto (g : GInit) : List (Bool × List Char) → GlobObj → Except SplitErr GlobObj
  | [], o => .ok o
  | (true, p) :: r, o =>
    match compilePart g.negFlags g.isBytes p with
    | .error e => .error e
    | .ok re => parseItemsInto g r { o with npatterns := o.npatterns ++ [re] }
  | (false, p) :: r, o =>
    match globSplit g.flags g.isBytes p with
    | .error e => .error e
    | .ok parts => parseItemsInto g r { o with pattern := o.pattern ++ [parts] }

/-- `_parse_patterns` (517-546) -/
def parsePatterns (g : GInit) (expansions : List (List (List Char))) (forceNegate : Bool) (o : GlobObj) :
    Except SplitErr GlobObj :=
  match parseItemsInto g (iterPatterns g o.nounique forceNegate [] expansions.flatten) o with
  | .error e => .error e
  | .ok o =>
    match (if o.pattern.isEmpty && !o.npatterns.isEmpty && g.negateall then
            (globSplit { g.flags with globstar := true } g.isBytes ['*', '*']).map (fun ps => { o with pattern := o.pattern ++ [ps] })
           else .ok o) with
    | .error e => .error e
    | .ok o =>
      let o := if g.nodir && !forceNegate then { o with npatterns := o.npatterns ++ [Frag.noNixDir] } else o
      if !forceNegate && o.pattern.length ≤ 1 && !g.flags.nodotdir && !o.nounique && !(g.pathlib && g.scandotdir) then
        .ok { o with nounique := true }
      else .ok o

/-- `Glob.__init__`'s two `_parse_patterns` calls.  `none` for an empty pattern *list*
    (the constructor returns before any field is set and `glob()` yields nothing). -/
def GlobObj.build (g : GInit) (expansions : Option (List (List (List Char))))
    (excl : Option (List (List (List Char)))) : Except SplitErr GlobObj :=
  match expansions with
  | none => .ok {}
  | some exps =>
    match parsePatterns g exps false { nounique := g.nouniqueFlag } with
    | .error e => .error e
    | .ok o =>
      match excl with
      | none => .ok o
      | some ex => parsePatterns g ex true o

def GlobObj.wctx (g : GInit) (o : GlobObj) : WCtx :=
  { dot := g.flags.dotmatch, caseSensitive := g.caseSensitive, followLinks := g.followLinks,
    fdMode := g.fdMode, mark := g.mark, pathlib := g.pathlib, nounique := o.nounique, excl := o.npatterns }

end WcModel

import WcModel.Driver.Parse
/-
  Port of `glob._GlobSplit` (glob.py 132-385) for Unix rules.

  On this host `Glob.__init__` passes `_flag_transform(flags | REALPATH)`, which drops
  FORCEWIN (glob.py 114-121), so `is_unix_style` is always true inside `Glob`
  (`GlobInit.unix_on_this_host` in `Proofs/GlobFlags.lean`); the Windows drive branch
  (313-327) is unreachable from `glob()` here and `split` answers `.error .windows` for it.

  `split` mirrors the scanner branch by branch (the rewind-mark quirk of `parse_extend`, D30, is repaired and mirrored); formerly: `parse_extend`
  overwrites its rewind mark `index` when it meets a `[` (266), so a failed group rewinds
  to just after the last bracket it saw.
-/
namespace WcModel

/-- `_GlobPart.pattern`: a plain string, or the compiled per-part regex -/
inductive PPat
  | lit (s : List Char)
  | re (src : List Char) (r : Re)    -- `src`: the part's glob text (what was compiled)
  deriving Repr, Inhabited

structure GPart where
  pat : PPat
  isMagic : Bool
  isGlobstar : Bool
  isGlobstarLong : Bool
  dirOnly : Bool
  isDrive : Bool
  deriving Repr, Inhabited

inductive SplitErr
  | noAbsolute       -- ValueError('The pattern must be a relative path pattern')
  | reError          -- the part's regex is not well formed (cannot happen after the D9 fix)
  | windows          -- Windows rules: not modelled for the walker on this host
  deriving Repr, DecidableEq, Inhabited

namespace GSplit

/-- `_wcparse._get_magic_symbols(pattern, unix=True, flags)[0]` with NEGATE already removed -/
def magicSymbols (f : Flags) : List Char :=
  Gen.cMAGIC_DEF.toList ++
  (if f.brace then Gen.cMAGIC_BRACE.toList else []) ++
  (if f.split then Gen.cMAGIC_SPLIT.toList else []) ++
  (if f.globtilde then Gen.cMAGIC_TILDE.toList else []) ++
  (if f.extmatch then Gen.cMAGIC_EXTMATCH.toList else []) ++
  (if f.negate then (if f.minusnegate then Gen.cMAGIC_MINUS_NEGATE.toList else Gen.cMAGIC_NEGATE.toList) else [])

def isMagic (f : Flags) (name : List Char) : Bool :=
  (magicSymbols f).any (fun c => name.contains c)

/-- `i.match(_wcparse.RE_POSIX)`: the iterator moves over `:name:]` if that is what comes next,
    and stays where it is otherwise.  The test is the parser's own `matchPosix` (fix: D34) -/
def skipPosix (it : It) : It :=
  match matchPosix it.rest with
  | some (_, len, rest') => ⟨it.idx + len, rest'⟩
  | none => it

/-- `_sequence` (202-226) after its first members: `none` = `StopIteration` -/
def seqLoop : Nat → Char → It → Option It
  | 0, _, _ => none
  | fuel+1, c, it =>
    if c = ']' then some it
    else if c = '\\' then
      -- `_references(i, True)`: `\/` raises PathNameException → StopIteration
      match it.next with
      | none => none
      | some (d, it2) =>
        if d = '/' then none
        else match it2.next with
          | none => none
          | some (c', it3) => seqLoop fuel c' it3
    else if c = '/' then none
    else
      -- a POSIX class is ONE member: its `]` does not end the sequence (fix: D34)
      match (if c = '[' then skipPosix it else it).next with
      | none => none
      | some (c', it') => seqLoop fuel c' it'

/-- `_sequence` (202-226).  The bracket is read the way the parser `WcParse._sequence` reads it
    (fix: D34): negation is `!` or `^`; a first member `[` (a POSIX class if `:name:]` follows),
    `-` or `]` is a literal member -/
def sequence (it : It) : Option It := do
  let (c, it) ← it.next
  let (c, it) ← if c = '!' ∨ c = '^' then it.next else some (c, it)
  let (c, it) ← if c = '[' then (skipPosix it).next else if c = '-' ∨ c = ']' then it.next else some (c, it)
  seqLoop (it.rest.length + 2) c it

mutual
/-- `parse_extend` (243-277), called just after the list-type character; returns success
    and the iterator (rewound to the mark on failure) -/
def parseExtend (extend : Bool) : Nat → It → Bool × It
  | 0, it => (false, it)
  | fuel+1, it =>
    match it.next with
    | none => (false, it)
    | some (c, it1) => if c ≠ '(' then (false, it) else extLoop extend fuel it1 it
/-- the `while c != ')'` loop; `mark` is the variable `index` -/
def extLoop (extend : Bool) : Nat → It → It → Bool × It
  | 0, _, mark => (false, mark)
  | fuel+1, it, mark =>
    match it.next with
    | none => (false, mark)
    | some (c, it1) =>
      if c = ')' then (true, it1)
      else if extend && extTypes.contains c then
        let r := parseExtend extend fuel it1
        -- success: `continue`; failure: `c` is a list-type character, no other branch applies
        extLoop extend fuel r.2 mark
      else if c = '\\' then
        match it1.next with
        | none => extLoop extend fuel it1 mark
        | some (_, it2) => extLoop extend fuel it2 mark
      else if c = '[' then
        -- the bracket has its own rewind mark (fix: D30); the group's mark is kept
        match sequence it1 with
        | some it2 => extLoop extend fuel it2 mark
        | none => extLoop extend fuel it1 mark
      else extLoop extend fuel it1 mark
end

/-- the main scanner of `split` (333-353): the list of `(split, offset)` -/
def scan (extend : Bool) : Nat → It → List (Nat × Nat) → List (Nat × Nat)
  | 0, _, acc => acc.reverse
  | fuel+1, it, acc =>
    match it.next with
    | none => acc.reverse
    | some (c, it1) =>
      let ext := if extend && extTypes.contains c then parseExtend extend (it1.rest.length + 2) it1 else (false, it1)
      if ext.1 then scan extend fuel ext.2 acc
      else
        let it1 := ext.2
        if c = '\\' then
          match it1.next with
          | none => scan extend fuel it1 acc
          | some (d, it2) =>
            if d = '/' then scan extend fuel it2 ((it2.idx - 2, 1) :: acc)
            else scan extend fuel it2 acc
        else if c = '/' then scan extend fuel it1 ((it1.idx - 1, 0) :: acc)
        else if c = '[' then
          match sequence it1 with
          | some it2 => scan extend fuel it2 acc
          | none => scan extend fuel it1 acc
        else scan extend fuel it1 acc

/-- Python slice `s[a:b]` for `0 ≤ a` -/
def slice (s : List Char) (a b : Nat) : List Char := (s.take b).drop a

end GSplit

structure SplitCfg where
  flags : Flags          -- `self.flags` of `_GlobSplit` (NEGATE removed)
  isBytes : Bool
  deriving Repr, Inhabited

/-- `_GlobSplit.__init__`: NEGATE is removed before anything looks at the flags -/
def SplitCfg.ofFlags (f : Flags) (isBytes : Bool) : SplitCfg :=
  { flags := { f with negate := false }, isBytes := isBytes }

def SplitCfg.globstarlong (c : SplitCfg) : Bool := c.flags.globstarlong
def SplitCfg.globstar (c : SplitCfg) : Bool := c.flags.globstarlong || c.flags.globstar

/-- `_wcparse._compile(value, self.flags)` as an AST -/
def compilePart (f : Flags) (isBytes : Bool) (value : List Char) : Except SplitErr Re :=
  match Driver.parsePattern f.toNat isBytes value with
  | .error _ => .error .noAbsolute
  | .ok parsed =>
    match parsed.toRe with
    | some r => .ok r
    | none => .error .reError

/-- `flags & ~(MATCHBASE | _EXTMATCHBASE)` -/
def Flags.noBase (f : Flags) : Flags := { f with matchbase := false, extmatchbase := false }

/-- the flags `store` hands to the part compiler: `self.flags & ~(MATCHBASE | _EXTMATCHBASE)`
    (fix G6: with either flag still set every magic part regex carried the implicit `**/` prefix of
    MATCHBASE / pathlib's right-anchored match; the walker supplies that prefix itself, as
    `basePart`) -/
def SplitCfg.partFlags (c : SplitCfg) : Flags := c.flags.noBase

/-- `store` (279-297) -/
def GSplit.store (c : SplitCfg) (value : List Char) (l : List GPart) (dirOnly : Bool) :
    Except SplitErr (List GPart) :=
  if !l.isEmpty && value.isEmpty then .ok l else
  let globstarlong := c.globstarlong && value == ['*', '*', '*']
  let globstar := globstarlong || (c.globstar && value == ['*', '*'])
  let magic := GSplit.isMagic c.flags value
  match (if magic then (compilePart c.partFlags c.isBytes value).map (PPat.re value) else .ok (PPat.lit value)) with
  | .error e => .error e
  | .ok v =>
    let part : GPart := ⟨v, magic, globstar, globstarlong, dirOnly, false⟩
    if globstar && (l.getLast?.map (·.isGlobstar)).getD false then .ok (l.dropLast ++ [part])
    else .ok (l ++ [part])

def GSplit.storeAll (c : SplitCfg) (pattern : List Char) :
    List (Nat × Nat) → Int → List GPart → Except SplitErr (List GPart × Int)
  | [], start, parts => .ok (parts, start)
  | (split, offset) :: r, start, parts =>
    match GSplit.store c (GSplit.slice pattern (start + 1).toNat split) parts true with
    | .error e => .error e
    | .ok parts' => GSplit.storeAll c pattern r (Int.ofNat (split + offset)) parts'

/-- `_wcparse.is_negative` -/
def isNegative (f : Flags) (p : List Char) : Bool :=
  if f.minusnegate then f.negate && p.head? == some '-'
  else if f.extmatch then f.negate && p.head? == some '!' && p.tail.head? != some '('
  else f.negate && p.head? == some '!'

/-- the implicit leading part of MATCHBASE / `_EXTMATCHBASE` (374-380): `***` exactly when
    GLOBSTARLONG and FOLLOW are both set, else `**` -/
def basePart (c : SplitCfg) : GPart :=
  if c.globstarlong && c.flags.follow then ⟨.lit ['*', '*', '*'], true, true, true, true, false⟩
  else ⟨.lit ['*', '*'], true, true, false, true, false⟩

/-- `_GlobSplit(pattern, flags).split()` for Unix rules -/
def globSplit (f : Flags) (isBytes : Bool) (pattern : List Char) : Except SplitErr (List GPart) :=
  if !isUnixStyle f then .error .windows else
  -- 173-177 (`# pragma: no cover`): a negative pattern is cut to its first character; `Glob`
  -- routes negative patterns to the exclusions before they get here
  let pattern := if isNegative f pattern then pattern.take 1 else pattern
  let c := SplitCfg.ofFlags f isBytes
  let drive : List GPart × Int × It :=
    match pattern with
    | '/' :: r => ([⟨.lit ['/'], false, false, false, true, true⟩], 0, ⟨1, r⟩)
    | _ => ([], -1, ⟨0, pattern⟩)
  let splitIndex := GSplit.scan c.flags.extmatch (pattern.length + 2) drive.2.2 []
  match GSplit.storeAll c pattern splitIndex drive.2.1 drive.1 with
  | .error e => .error e
  | .ok (parts, start) =>
    let tail := pattern.drop (start + 1).toNat
    match (if start < pattern.length ∧ !tail.isEmpty then GSplit.store c tail parts false else .ok parts) with
    | .error e => .error e
    | .ok parts =>
      let parts := if pattern.isEmpty then parts ++ [⟨.lit [], false, false, false, false, false⟩] else parts
      let needBase :=
        (c.flags.extmatchbase && !((parts.head?.map (·.isDrive)).getD false)) ||
        (c.flags.matchbase && parts.length == 1 && !((parts.head?.map (·.dirOnly)).getD false))
      -- inserted only if the pattern does not already start with a globstar part (the RGLOBSTAR
      -- repair: consecutive globstars are one)
      let parts := if needBase && !((parts.head?.map (·.isGlobstar)).getD false) then basePart c :: parts else parts
      if c.flags.noabsolute && (parts.head?.map (·.isDrive)).getD false then .error .noAbsolute
      else .ok parts

end WcModel

import WcModel.Generated
/-
  The one process-wide cache: `functools.lru_cache(maxsize=256, typed=True)` on
  `_wcparse._compile(pattern, flags)`, and the compiled matcher object `WcRegexp`.

  `lru_cache` is modelled at the granularity of its two critical sections:
    `lookup` — under the lock: find the key; a hit moves the entry to the most-recent end;
    (outside the lock, on a miss: call the wrapped function)
    `insert` — under the lock: if the key has appeared meanwhile (another thread), leave it;
               otherwise add it, evicting the least recently used entry when full.
  A call is `lookup; (compute; insert)?`.  Threads interleave at these atomic operations.
-/
namespace WcModel.Cache

/-- cache key: `typed=True` adds the argument types, i.e. str vs bytes for `pattern`
    (`flags` is always `int`) -/
structure Key where
  isBytes : Bool
  pattern : List Char
  flags : Nat
  deriving DecidableEq, Repr

/-- most recently used first -/
abbrev Cache (V : Type) := List (Key × V)

variable {V : Type}

def find (k : Key) : Cache V → Option V
  | [] => none
  | (k', v) :: c => if k' = k then some v else find k c

def remove (k : Key) : Cache V → Cache V
  | [] => []
  | (k', v) :: c => if k' = k then c else (k', v) :: remove k c

/-- critical section 1 -/
def lookup (k : Key) (c : Cache V) : Option V × Cache V :=
  match find k c with
  | some v => (some v, (k, v) :: remove k c)
  | none => (none, c)

/-- critical section 2 (`cap = 0` means unbounded, like `maxsize=None`) -/
def insert (cap : Nat) (k : Key) (v : V) (c : Cache V) : Cache V :=
  match find k c with
  | some _ => c
  | none => if cap ≠ 0 ∧ cap ≤ c.length then (k, v) :: c.dropLast else (k, v) :: c

/-- one sequential call of the cached function -/
def call (cap : Nat) (f : Key → V) (k : Key) (c : Cache V) : V × Cache V :=
  match lookup k c with
  | (some v, c') => (v, c')
  | (none, c') => (f k, insert cap k (f k) c')

/-- a whole history of calls, sequentially -/
def run (cap : Nat) (f : Key → V) : List Key → Cache V → List V × Cache V
  | [], c => ([], c)
  | k :: ks, c =>
    let r := call cap f k c
    let rs := run cap f ks r.2
    (r.1 :: rs.1, rs.2)

/-- hit / miss trace of a history (for the tie with `cache_info()`) -/
def trace (cap : Nat) (f : Key → V) : List Key → Cache V → List Bool
  | [], _ => []
  | k :: ks, c => (find k c).isSome :: trace cap f ks (call cap f k c).2

/-! ### threads -/

inductive Pending (V : Type)
  | idle
  | computed (k : Key) (v : V)      -- missed, computed outside the lock, not yet inserted

structure Thread (V : Type) where
  todo : List Key
  pend : Pending V
  results : List (Key × V)          -- what the thread's calls returned so far

/-- one atomic operation of one thread -/
def step (cap : Nat) (f : Key → V) (c : Cache V) (t : Thread V) : Cache V × Thread V :=
  match t.pend with
  | .computed k v => (insert cap k v c, { t with pend := .idle, results := t.results ++ [(k, v)] })
  | .idle =>
    match t.todo with
    | [] => (c, t)
    | k :: rest =>
      match lookup k c with
      | (some v, c') => (c', { todo := rest, pend := .idle, results := t.results ++ [(k, v)] })
      | (none, c') => (c', { todo := rest, pend := .computed k (f k), results := t.results })

def updateAt {α} : List α → Nat → α → List α
  | [], _, _ => []
  | _ :: xs, 0, y => y :: xs
  | x :: xs, i + 1, y => x :: updateAt xs i y

/-- run a schedule: the i-th entry says which thread performs its next atomic operation -/
def runSched (cap : Nat) (f : Key → V) : List Nat → Cache V × List (Thread V) → Cache V × List (Thread V)
  | [], s => s
  | i :: sched, (c, ts) =>
    match ts[i]? with
    | none => runSched cap f sched (c, ts)
    | some t =>
      let r := step cap f c t
      runSched cap f sched (r.1, updateAt ts i r.2)

/-! ### the compiled matcher object -/

/-- `WcRegexp`: the five stored fields (`_hash` is computed from them in `__init__`) -/
structure WcRegexp (P : Type) where
  include_ : List P
  exclude : Option (List P)
  real : Bool
  path : Bool
  follow : Bool
  deriving DecidableEq, Repr

/-- what the `copyreg` reducer hands to pickle: `(p._include, p._exclude, p._real, p._path, p._follow)` -/
def WcRegexp.reduce {P} (m : WcRegexp P) : List P × Option (List P) × Bool × Bool × Bool :=
  (m.include_, m.exclude, m.real, m.path, m.follow)

/-- `WcRegexp(*args)` -/
def WcRegexp.rebuild {P} (a : List P × Option (List P) × Bool × Bool × Bool) : WcRegexp P :=
  ⟨a.1, a.2.1, a.2.2.1, a.2.2.2.1, a.2.2.2.2⟩

/-- `_hash = hash((type(self), type(include), include, …))`: some function of the five fields -/
def WcRegexp.hash {P} (h : List P × Option (List P) × Bool × Bool × Bool → Nat) (m : WcRegexp P) : Nat := h m.reduce

/-- field names of the model structure, in reducer order, as the source spells them -/
def wcRegexpFields : List String := ["_include", "_exclude", "_real", "_path", "_follow"]

/-- `_Match(...).match` for the non-REALPATH case, over an abstract per-pattern matcher -/
def WcRegexp.matches {P N} (mt : P → N → Bool) (m : WcRegexp P) (n : N) : Bool :=
  m.include_.any (fun p => mt p n) && !((m.exclude.getD []).any (fun p => mt p n))

end WcModel.Cache

import WcModel.Model.RegexCap
import WcModel.Model.GlobWalk
/-
  Port of `_wcmatch._Match.match` / `_match_real` / `_fs_match` (REALPATH) and of the part
  of `_wcparse.compile_pattern` that `glob.globmatch` / `globfilter` go through, for
  already expanded pattern lists (brace / split / tilde expansion is supplied, as for the
  walker).  The host is POSIX (`util.platform() != "windows"`): `/` is the only separator
  `_match_real` and `_fs_match` look at, whatever the pattern flags say.
-/
namespace WcModel

/-- `WcRegexp` -/
structure MatchObj where
  incl : List Re
  excl : List Re
  real : Bool
  follow : Bool          -- `FOLLOW and not GLOBSTARLONG` (`_wcparse.compile`, 782-785)
  deriving Repr, Inhabited

def stripSlash (s : List Char) : List Char :=
  ((s.dropWhile (· == '/')).reverse.dropWhile (· == '/')).reverse

/-- the per-piece link test of one `**` group (`_fs_match` 105-128): returns the base
    reached and whether a link was found -/
def fsPieces (fs : FS) (atEnd : Bool) : List Name → Nat → Nat → List Char → List Char × Bool
  | [], _, _, base => (base, true)
  | part :: r, j, last, base =>
    let base := pjoin base part
    if (!atEnd || j != last) && fs.islink base then (base, false)
    else fsPieces fs atEnd r (j + 1) last base

/-- the loop over `m.groups()`; `base` is recomputed for every non-empty group from the
    group's own start (`base = os.path.join(root, filename[:m.start(i)])`, the G3 repair), and
    a group is "at the end" when it reaches the last character or the very end of the
    path (`at_end = m.end(i) >= end`, the D7 repair) -/
def fsGroups (fs : FS) (filename : List Char) : List (Option (Nat × Nat)) → Bool
  | [] => true
  | none :: r => fsGroups fs filename r
  | some (st, en) :: r =>
    let star := (filename.take en).drop st
    if star.isEmpty then fsGroups fs filename r
    else
      let atEnd := decide ((en : Int) ≥ (filename.length : Int) - 1)
      let parts := splitSlash (stripSlash star)
      let res := fsPieces fs atEnd parts 1 parts.length (filename.take st)
      if res.2 then fsGroups fs filename r else false

/-- `_fs_match` (63-133) -/
def fsMatch (fs : FS) (r : Re) (filename : List Char) (follow : Bool) : Bool :=
  match r.fullmatchCap filename with
  | none => false
  | some groups => if follow then true else fsGroups fs filename groups

/-- `_match_real` (135-184) -/
def matchRealCore (fs : FS) (o : MatchObj) (filename : List Char) : Bool :=
  let isDir := filename.getLast? == some '/'
  let filename := if !isDir && fs.isdir filename then filename ++ ['/'] else filename
  o.incl.any (fun r => fsMatch fs r filename o.follow) &&
    !(o.excl.any (fun r => fsMatch fs r filename true))

/-- `WcRegexp.match` → `_Match.match` (186-246) -/
def matchReal (fs : FS) (o : MatchObj) (filename : List Char) : Bool :=
  if filename.isEmpty then false
  else if o.real then
    if fs.lexists filename then matchRealCore fs o filename else false
  else
    o.incl.any (fun r => r.fullmatch filename) && !(o.excl.any (fun r => r.fullmatch filename))

/-! ### `glob.globmatch`'s compilation (`_flag_transform`, `compile_pattern`) -/

def compileOne (flags : Nat) (isBytes : Bool) (p : List Char) : Except SplitErr Re :=
  compilePart (Flags.ofNat (flags &&& Gen.parseFlagMask)) isBytes p

def compileSeq (flags : Nat) (isBytes : Bool) :
    List (List Char) → List (List Char) → List Re → List Re → Except SplitErr (List Re × List Re)
  | [], _, pos, neg => .ok (pos, neg)
  | e :: r, seen, pos, neg =>
    if e ∈ seen then compileSeq flags isBytes r seen pos neg
    else if isNegative (Flags.ofNat flags) e then
      match compileOne (flags ||| Gen.F_NO_GLOBSTAR_CAPTURE ||| Gen.FDOTMATCH) isBytes (e.drop 1) with
      | .error x => .error x
      | .ok re => compileSeq flags isBytes r (e :: seen) pos (neg ++ [re])
    else
      match compileOne flags isBytes e with
      | .error x => .error x
      | .ok re => compileSeq flags isBytes r (e :: seen) (pos ++ [re]) neg

/-- `_wcparse.compile_pattern` (698-750) without the limit arithmetic -/
def compilePattern (flags : Nat) (isBytes : Bool) (exps : List (List Char))
    (excl : Option (List (List Char))) : Except SplitErr (List Re × List Re) :=
  let flags := if excl.isSome then noNegateFlags flags else flags
  let neg0 : Except SplitErr (List Re) := match excl with
    | none => .ok []
    | some ex =>
      (compileSeq (flags ||| Gen.FDOTMATCH ||| Gen.F_NO_GLOBSTAR_CAPTURE) isBytes ex [] [] []).map (·.1)
  match neg0 with
  | .error x => .error x
  | .ok neg0 =>
    match compileSeq flags isBytes exps [] [] neg0 with
    | .error x => .error x
    | .ok (pos, neg) =>
      let posE : Except SplitErr (List Re) :=
        if !neg.isEmpty && pos.isEmpty && hasBit flags Gen.FNEGATEALL then
          (compileOne (flags ||| (if hasBit flags Gen.FPATHNAME then Gen.FGLOBSTAR else 0)) isBytes ['*', '*']).map (fun r => [r])
        else .ok pos
      match posE with
      | .error x => .error x
      | .ok pos =>
        let neg := if !pos.isEmpty && hasBit flags Gen.FNODIR then
            neg ++ [if isUnixStyle (Flags.ofNat flags) then Frag.noNixDir else Frag.noWinDir]
          else neg
        .ok (pos, neg)

/-- `glob.globmatch(…, flags)`'s matcher object: `_wcparse.compile(patterns, _flag_transform(flags), …)` -/
def compileMatch (userFlags : Nat) (isBytes : Bool) (exps : List (List Char))
    (excl : Option (List (List Char))) : Except SplitErr MatchObj :=
  let flags := globFlagTransform userFlags
  match compilePattern flags isBytes exps excl with
  | .error x => .error x
  | .ok (pos, neg) =>
    .ok { incl := pos, excl := neg, real := hasBit flags Gen.FREALPATH,
          follow := hasBit flags Gen.FFOLLOW && !hasBit flags Gen.FGLOBSTARLONG }

end WcModel

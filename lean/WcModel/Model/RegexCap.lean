import WcModel.Model.Regex
/-
  `Re.runCap`: an executable back-tracking matcher that returns the **capture spans of the
  first match in Python's priority order** (greedy before lazy alternatives as written,
  alternation left to right, look-aheads atomic, captures set inside a negative look-ahead
  discarded, a group inside a repetition keeps its last iteration), for `re.fullmatch`.

  Needed only for REALPATH: `_Match._fs_match` reads `m.groups()` / `m.start(i)` / `m.end(i)`
  of the `**` capture groups.  It is *validated* against CPython's `re` (stream K6 compares
  spans), not proved; theorems use it only where the decomposition of the path into what
  each `**` consumed is unique — every such use says so.

  Zero-width iterations follow `sre`: another iteration of a repeat is attempted only if
  the previous one consumed something.

  Fuel bounds the depth of the continuation chain (regex structure plus one unit per
  repeat iteration); `Re.fullmatchCap` supplies `(size r + 2) * (|s| + 2)`, which is never
  exhausted (each repeat iteration but the last must consume a character).
-/
namespace WcModel

/-- capture bindings, latest first: (group number, rest-length at start, rest-length at end) -/
abbrev Caps := List (Nat × Nat × Nat)

/-- number of capturing groups (`cap`, `gcap`) in a regex, in the order of their `(` -/
def Re.ncaps : Re → Nat
  | .cat a b => a.ncaps + b.ncaps
  | .alt a b => a.ncaps + b.ncaps
  | .grp r => r.ncaps
  | .cap r => 1 + r.ncaps
  | .gcap r => 1 + r.ncaps
  | .opt r => r.ncaps
  | .star _ r => r.ncaps
  | .plus r => r.ncaps
  | .rep _ _ r => r.ncaps
  | .look _ r => r.ncaps
  | .flags _ _ r => r.ncaps
  | _ => 0

def Re.size : Re → Nat
  | .cat a b => 1 + a.size + b.size
  | .alt a b => 1 + a.size + b.size
  | .grp r => 1 + r.size
  | .cap r => 1 + r.size
  | .gcap r => 1 + r.size
  | .opt r => 1 + r.size
  | .star _ r => 1 + r.size
  | .plus r => 1 + r.size
  | .rep _ hi r => 1 + hi + r.size
  | .look _ r => 1 + r.size
  | .flags _ _ r => 1 + r.size
  | _ => 1

def stepC (p : Char → Bool) (a : St) : Option St :=
  match a.rest with
  | [] => none
  | d :: s => if p d then some ⟨false, s⟩ else none

abbrev Kont := St → Caps → Option Caps

/-- `base` = number of capture groups opened before `r` -/
def Re.runCap : Nat → Mode → Re → Nat → St → Caps → Kont → Option Caps
  | 0, _, _, _, _, _, _ => none
  | fuel+1, md, r, base, a, cs, k =>
    match r with
    | .eps => k a cs
    | .lit c => match stepC (charEq md.ci c) a with | some b => k b cs | none => none
    | .any => match stepC (anyMatch md.dotall) a with | some b => k b cs | none => none
    | .cls neg items => match stepC (clsMatch md.ci neg items) a with | some b => k b cs | none => none
    | .cat r₁ r₂ =>
      Re.runCap fuel md r₁ base a cs (fun b cs' => Re.runCap fuel md r₂ (base + r₁.ncaps) b cs' k)
    | .alt r₁ r₂ =>
      match Re.runCap fuel md r₁ base a cs k with
      | some res => some res
      | none => Re.runCap fuel md r₂ (base + r₁.ncaps) a cs k
    | .grp r => Re.runCap fuel md r base a cs k
    | .cap r =>
      Re.runCap fuel md r (base + 1) a cs (fun b cs' => k b ((base + 1, a.rest.length, b.rest.length) :: cs'))
    | .gcap r =>
      Re.runCap fuel md r (base + 1) a cs (fun b cs' => k b ((base + 1, a.rest.length, b.rest.length) :: cs'))
    | .opt r =>
      match Re.runCap fuel md r base a cs k with
      | some res => some res
      | none => k a cs
    | .star lzy r =>
      if lzy then
        match k a cs with
        | some res => some res
        | none =>
          Re.runCap fuel md r base a cs (fun b cs' =>
            if b.rest.length < a.rest.length then Re.runCap fuel md (.star true r) base b cs' k else none)
      else
        match Re.runCap fuel md r base a cs (fun b cs' =>
            if b.rest.length < a.rest.length then Re.runCap fuel md (.star false r) base b cs' k else k b cs') with
        | some res => some res
        | none => k a cs
    | .plus r =>
      Re.runCap fuel md r base a cs (fun b cs' =>
        if b.rest.length < a.rest.length then Re.runCap fuel md (.star false r) base b cs' k else k b cs')
    | .rep lo hi r =>
      if hi = 0 then k a cs
      else
        match Re.runCap fuel md r base a cs (fun b cs' => Re.runCap fuel md (.rep (lo - 1) (hi - 1) r) base b cs' k) with
        | some res => some res
        | none => if lo = 0 then k a cs else none
    | .look false r =>
      match Re.runCap fuel md r base a cs (fun _ cs' => some cs') with
      | some cs' => k a cs'
      | none => none
    | .look true r =>
      match Re.runCap fuel md r base a cs (fun _ cs' => some cs') with
      | some _ => none
      | none => k a cs
    | .bos => if a.atStart then k a cs else none
    | .eos => if atEos a.rest then k a cs else none
    | .flags s i r => Re.runCap fuel ⟨s, i⟩ r base a cs k

/-- `re.fullmatch(r, s)`: `none` = no match; `some spans` = for each group `1 … ncaps`, its
    span `(start, end)` in `s`, or `none` if the group did not participate -/
def Re.fullmatchCap (r : Re) (s : List Char) : Option (List (Option (Nat × Nat))) :=
  let n := s.length
  match Re.runCap ((r.size + 2) * (n + 2)) ⟨false, false⟩ r 0 ⟨true, s⟩ []
      (fun b cs => if b.rest.isEmpty then some cs else none) with
  | none => none
  | some cs =>
    some ((List.range r.ncaps).map (fun i =>
      match cs.find? (fun c => c.1 == i + 1) with
      | some (_, st, en) => some (n - st, n - en)
      | none => none))

end WcModel

import WcModel.Generated
/-
  `util.norm_pattern` — the RAWCHARS decoder / Windows `\/` normaliser.

  The code is `RE_NORM.sub(norm, pattern)` (bytes: `RE_BNORM`).  `re.sub` scans left to right;
  at every position the alternation is tried in the written order, the first alternative that
  matches wins, the callback `norm(m)` produces the replacement and scanning resumes after the
  match; a position where no alternative matches is copied.  The model is exactly that:

    `scan1`    — one position of the alternation, returning which group matched (`NMatch`)
    `callback` — the `norm(m)` closure
    `go`       — the `sub` loop (fuel = remaining length; every match consumes ≥ 1 char)

  Parameter (not modelled, supplied from outside): `lookup` = `unicodedata.lookup`
  (`none` = `KeyError`).  Hex digits are ASCII (`[0-9a-fA-F]`; in RE_BNORM `\d` of a bytes
  regex is ASCII as well).
-/
namespace WcModel.Norm

inductive NormErr
  | syntax      -- SyntaxError: incomplete \x \u \U \N, or \Uhhhhhhhh above 0x10FFFF
  | key         -- KeyError from unicodedata.lookup
  | surrogate   -- value in D800..DFFF: a lone surrogate, outside the model (Lean `Char`)
  deriving DecidableEq, Repr, Inhabited

deriving instance DecidableEq for Except

structure Cfg where
  isBytes : Bool
  normalize : Bool
  raw : Bool
  lookup : List Char → Option Char := fun _ => none

def octVal? (c : Char) : Option Nat :=
  if '0' ≤ c ∧ c ≤ '7' then some (c.toNat - '0'.toNat) else none

def asciiHex? (c : Char) : Option Nat :=
  if '0' ≤ c ∧ c ≤ '9' then some (c.toNat - '0'.toNat)
  else if 'a' ≤ c ∧ c ≤ 'f' then some (c.toNat - 'a'.toNat + 10)
  else if 'A' ≤ c ∧ c ≤ 'F' then some (c.toNat - 'A'.toNat + 10)
  else none

/-- `[0-9a-fA-F]` (RE_NORM) / `[\da-fA-F]` of a bytes regex (RE_BNORM) and the digit value -/
def hexVal? (_cfg : Cfg) (c : Char) : Option Nat := asciiHex? c

/-- exactly `n` hex digits: (value, the digits, rest) -/
def takeHex (cfg : Cfg) : Nat → Nat → List Char → Option (Nat × List Char × List Char)
  | 0, acc, s => some (acc, [], s)
  | _ + 1, _, [] => none
  | n + 1, acc, c :: s =>
    match hexVal? cfg c with
    | some v =>
      match takeHex cfg n (acc * 16 + v) s with
      | some (val, ds, rest) => some (val, c :: ds, rest)
      | none => none
    | none => none

/-- up to `n` further octal digits, greedy: (value, the digits, rest) -/
def takeOct : Nat → Nat → List Char → Nat × List Char × List Char
  | 0, acc, s => (acc, [], s)
  | _ + 1, acc, [] => (acc, [], [])
  | n + 1, acc, c :: s =>
    match octVal? c with
    | some v => let r := takeOct n (acc * 8 + v) s; (r.1, c :: r.2.1, r.2.2)
    | none => (acc, [], c :: s)

/-- `[^}]*?\}` : the text before the first `}` and what follows it -/
def splitBrace : List Char → Option (List Char × List Char)
  | [] => none
  | c :: s => if c = '}' then some ([], s) else
    match splitBrace s with
    | some (n, rest) => some (c :: n, rest)
    | none => none

def simpleSet : List Char := ['a', 'b', 'f', 'n', 'r', 't', 'v', '\\']

/-- which alternative of RE_NORM / RE_BNORM matched, with the groups the callback reads -/
inductive NMatch
  | copy (c : Char)                          -- no alternative matches here: `sub` copies the char
  | sep                                      -- group 1 = "/"
  | escSep                                   -- group 1 = "\/"
  | simple (c : Char)                        -- group 2 = "\" c, c ∈ abfnrtv\
  | code (k : Char) (ds : List Char) (v : Nat)   -- group 3 without group 4: \x.. \u.... \U........
  | oct (ds : List Char) (v : Nat)           -- group 3 with group 4
  | named (n : List Char)                    -- group 5 (str only): \N{n}
  | other (c : Char)                         -- `\\[^NUux]` / `\\[^x]`
  | incomplete (c : Char)                    -- `\\[NUux]` / `\\[x]`
  deriving DecidableEq, Repr

def NMatch.text : NMatch → List Char
  | .copy c => [c]
  | .sep => ['/']
  | .escSep => ['\\', '/']
  | .simple c => ['\\', c]
  | .code k ds _ => '\\' :: k :: ds
  | .oct ds _ => '\\' :: ds
  | .named n => '\\' :: 'N' :: '{' :: (n ++ ['}'])
  | .other c => ['\\', c]
  | .incomplete c => ['\\', c]

/-- the alternation at one position, in the written order -/
def scan1 (cfg : Cfg) : List Char → Option (NMatch × List Char)
  | [] => none
  | '/' :: rest => some (.sep, rest)
  | '\\' :: [] => some (.copy '\\', [])
  | '\\' :: c :: r =>
    if c = '/' then some (.escSep, r)
    else if c ∈ simpleSet then some (.simple c, r)
    else
      -- group 3: U{8} | u{4} | x{2} | [0-7]{1,3}
      let g3 : Option (NMatch × List Char) :=
        if c = 'U' ∧ !cfg.isBytes then (takeHex cfg 8 0 r).map fun (v, ds, rest) => (.code 'U' ds v, rest)
        else if c = 'u' ∧ !cfg.isBytes then (takeHex cfg 4 0 r).map fun (v, ds, rest) => (.code 'u' ds v, rest)
        else if c = 'x' then (takeHex cfg 2 0 r).map fun (v, ds, rest) => (.code 'x' ds v, rest)
        else match octVal? c with
          | some v => let t := takeOct 2 v r; some (.oct (c :: t.2.1) t.1, t.2.2)
          | none => none
      match g3 with
      | some x => some x
      | none =>
        -- group 5 (str): \N{...} — one token only under RAWCHARS; without it `\N` is an ordinary escape and the text after it is
        -- normalised like the rest of the pattern (fix: D38; the code re-runs the substitution on the text after `\N`, which is
        -- the same as not taking the alternative)
        let g5 : Option (NMatch × List Char) :=
          if c = 'N' ∧ !cfg.isBytes ∧ cfg.raw then
            match r with
            | '{' :: r' => (splitBrace r').map fun (n, rest) => (.named n, rest)
            | _ => none
          else none
        match g5 with
        | some x => some x
        | none =>
          let special : Bool := if cfg.isBytes then c == 'x' else (c == 'N' || c == 'U' || c == 'u' || c == 'x')
          if special then some (.incomplete c, r) else some (.other c, r)
  | c :: rest => some (.copy c, rest)

def bs4 : List Char := ['\\', '\\', '\\', '\\']

/-- BACK_SLASH_TRANSLATION -/
def simpleTrans (c : Char) : List Char :=
  if c = 'a' then [Char.ofNat 7] else if c = 'b' then [Char.ofNat 8] else if c = 'f' then [Char.ofNat 12]
  else if c = 'n' then [Char.ofNat 10] else if c = 'r' then [Char.ofNat 13] else if c = 't' then [Char.ofNat 9]
  else if c = 'v' then [Char.ofNat 11] else ['\\', '\\']

/-- `chr(value)` for str -/
def chrOf (v : Nat) : Except NormErr Char :=
  if v.isValidChar then .ok (Char.ofNat v)
  else if v > 0x10FFFF then .error .syntax     -- `value > sys.maxunicode` (only reachable for \U)
  else .error .surrogate

/-- the `norm(m)` closure -/
def callback (cfg : Cfg) : NMatch → Except NormErr (List Char)
  | .copy c => .ok [c]
  | .sep => .ok ['/']
  | .escSep => .ok (if cfg.normalize then bs4 else ['\\', '/'])
  | .simple c => .ok (if cfg.raw then simpleTrans c else ['\\', c])
  | .oct ds v =>
    if cfg.raw then
      if cfg.isBytes then .ok [Char.ofNat (v % 256)] else (chrOf v).map fun c => [c]
    else .ok ('\\' :: ds)
  | .code k ds v =>
    if cfg.raw then (chrOf v).map fun c => [c]
    else .ok ('\\' :: k :: ds)
  | .named n =>
    if cfg.raw then
      match cfg.lookup n with
      | some c => .ok [c]
      | none => .error .key
    else .ok ('\\' :: 'N' :: '{' :: (n ++ ['}']))
  | .other c => .ok ['\\', c]
  | .incomplete c => if cfg.raw then .error .syntax else .ok ['\\', c]

/-- the `sub` loop -/
def go (cfg : Cfg) : Nat → List Char → Except NormErr (List Char)
  | 0, _ => .ok []
  | f + 1, s =>
    match scan1 cfg s with
    | none => .ok []
    | some (m, rest) =>
      match callback cfg m with
      | .error e => .error e
      | .ok a =>
        match go cfg f rest with
        | .error e => .error e
        | .ok b => .ok (a ++ b)

/-- `util.norm_pattern(pattern, normalize, is_raw_chars)` -/
def normPattern (cfg : Cfg) (s : List Char) : Except NormErr (List Char) :=
  if !cfg.normalize && !cfg.raw then .ok s else go cfg s.length s

/-! Ties to the generated facts: the translation table and the two regex texts the scanner was
    written against.  A change of either breaks these. -/

theorem simple_table_ok :
    (Gen.backSlashTranslation.all fun kv =>
      match kv.1.toList with
      | ['\\', c] => decide (c ∈ simpleSet) && (simpleTrans c == kv.2.toList)
      | _ => false) = true ∧ Gen.backSlashTranslation.length = simpleSet.length ∧
    Gen.backSlashTranslation_b = Gen.backSlashTranslation := by decide +kernel

theorem re_norm_pinned :
    Gen.rRE_NORM = "(?x)\n    (/|\\\\/)|\n    (\\\\[abfnrtv\\\\])|\n    (\\\\(?:U[0-9a-fA-F]{8}|u[0-9a-fA-F]{4}|x[0-9a-fA-F]{2}|([0-7]{1,3})))|\n    (\\\\N\\{[^}]*?\\})|\n    (\\\\[^NUux]) |\n    (\\\\[NUux])\n    " := by decide +kernel

theorem re_bnorm_pinned :
    Gen.rRE_BNORM = "(?x)\n    (/|\\\\/)|\n    (\\\\[abfnrtv\\\\])|\n    (\\\\(?:x[\\da-fA-F]{2}|([0-7]{1,3})))|\n    (\\\\[^x]) |\n    (\\\\[x])\n    " := by decide +kernel

end WcModel.Norm

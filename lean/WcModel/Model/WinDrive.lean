import WcModel.Model.Parse
/-
  `_get_win_drive` (wcmatch/_wcparse.py:345-393), regex=True form.  (stub: filled below)
-/
namespace WcModel

def winDrive (_cfg : Cfg) (p : List Char) : DriveInfo :=
  let rootSpec := match p with
    | '\\' :: '\\' :: _ => true
    | '/' :: _ => true
    | _ => false
  { rootSpecified := rootSpec, drive := none, slash := false, endIdx := 0 }

end WcModel

import WcModel.Model.Parse
/-
  `_get_win_drive` (wcmatch/_wcparse.py:345-393), `regex=True` form, with hand-ported
  scanners for RE_WIN_DRIVE_START / RE_WIN_DRIVE_LETTER / RE_WIN_DRIVE_PART /
  RE_WIN_DRIVE_UNESCAPE (their texts are pinned in `Generated.lean`).
-/
namespace WcModel
namespace Win

/-- `(?:\\\\|/)` : two backslashes, or a slash.  Returns the length matched. -/
def sep2 : List Char → Option Nat
  | '\\' :: '\\' :: _ => some 2
  | '/' :: _ => some 1
  | _ => none

/-- `((?:\\\\|/)|$)` : (length, groupNonEmpty) -/
def sepOrEnd (s : List Char) : Option (Nat × Bool) :=
  match sep2 s with
  | some n => some (n, true)
  | none => if atEos s then some (0, false) else none

/-- `(?:\\[^\\/]|[^\\/])+` greedy: the consumed text (raw) and the rest -/
def partChars : List Char → List Char × List Char
  | '\\' :: c :: rest =>
    if c = '\\' || c = '/' then ([], '\\' :: c :: rest)
    else let (a, b) := partChars rest; ('\\' :: c :: a, b)
  | '\\' :: [] => ([], ['\\'])
  | '/' :: rest => ([], '/' :: rest)
  | c :: rest => let (a, b) := partChars rest; (c :: a, b)
  | [] => ([], [])

/-- `RE_WIN_DRIVE_UNESCAPE.sub(r'\1', s)` : `\\(.)` → `\1` (`.` does not match newline) -/
def unescape : List Char → List Char
  | '\\' :: c :: rest => if c = '\n' then '\\' :: unescape (c :: rest) else c :: unescape rest
  | c :: rest => c :: unescape rest
  | [] => []

def lower (s : List Char) : List Char := s.map asciiLower

def isLetter (c : Char) : Bool := ('a' ≤ c && c ≤ 'z') || ('A' ≤ c && c ≤ 'Z')

/-- one anchored attempt of RE_WIN_DRIVE_PART: (group1 raw, total length, slash) -/
def partAt (s : List Char) : Option (List Char × Nat × Bool) :=
  let (g1, rest) := partChars s
  if g1.isEmpty then none else
  match sepOrEnd rest with
  | some (n, b) => some (g1, g1.length + n, b)
  | none => none

/-- `finditer` search for the next part starting at or after the head of `s`;
    returns (skipped, group1 raw, match length, slash) -/
def partSearch : Nat → List Char → Nat → Option (Nat × List Char × Nat × Bool)
  | 0, _, _ => none
  | fuel+1, s, skipped =>
    match partAt s with
    | some (g, n, b) => some (skipped, g, n, b)
    | none =>
      match s with
      | [] => none
      | _ :: rest => partSearch fuel rest (skipped + 1)

structure Scan where
  parts : List (List Char)   -- unescaped parts, in order
  slash : Bool
  endIdx : Nat
  count : Nat
  complete : Nat
  first : Nat

/-- the `for count, m2 in enumerate(finditer…)` loop -/
def partsLoop (isSpecial : Bool) : Nat → List Char → Scan → Scan
  | 0, _, st => st
  | fuel+1, s, st =>
    match partSearch (s.length + 1) s 0 with
    | none => st
    | some (skipped, g, n, b) =>
      let count := st.count + 1
      let p := unescape g
      let st := { st with parts := st.parts ++ [p], slash := b, endIdx := st.endIdx + skipped + n,
                          count := count }
      let st :=
        if isSpecial then
          if count = st.first && lower p = "unc".toList then { st with complete := st.complete + 2 }
          else if count = st.first && lower p = "global".toList then
            { st with first := st.first + 1, complete := st.complete + 1 }
          else st
        else st
      if count = st.complete then st
      else
        -- a zero-length tail cannot match again (group 1 needs a character)
        partsLoop isSpecial fuel (s.drop (skipped + n)) st

def litsOf (s : List Char) : Re :=
  match s with
  | [] => .eps
  | [c] => .lit c
  | c :: rest => .cat (.lit c) (litsOf rest)

/-- `escape_drive` -/
def escapeDrive (s : List Char) (caseSensitive : Bool) : Re :=
  if caseSensitive then .flags false true (litsOf s) else litsOf s

def joinSep : List Re → Re
  | [] => .eps
  | [r] => r
  | r :: rs => .cat r (.cat (Frag.sep true) (joinSep rs))

end Win

open Win in
def winDrive (cfg : Cfg) (p : List Char) : DriveInfo :=
  let none_ (root : Bool) : DriveInfo := { rootSpecified := root, drive := none, slash := false, endIdx := 0 }
  -- alternative (A): two separators then a name
  let altA : Option (List Char × Nat × Bool) :=   -- (group2 raw, end, group4 non-empty)
    match sep2 p with
    | none => none
    | some n1 =>
      match sep2 (p.drop n1) with
      | none => none
      | some n2 =>
        let (g2, rest) := partChars (p.drop (n1 + n2))
        if g2.isEmpty then none else
        match sepOrEnd rest with
        | some (n4, b) => some (g2, n1 + n2 + g2.length + n4, b)
        | none => none
  -- alternative (B): `[\\]?[a-z][\\]?:`
  let altB : Option (List Char × Nat × Bool) :=   -- (group3 raw, end, group4 non-empty)
    let (b1, r1) := match p with
      | '\\' :: r => (['\\'], r)
      | r => ([], r)
    let tryFrom (pre : List Char) (r : List Char) : Option (List Char × Nat × Bool) :=
      match r with
      | l :: r2 =>
        if !isLetter l then none else
        let fin (g3 : List Char) (r3 : List Char) : Option (List Char × Nat × Bool) :=
          match r3 with
          | ':' :: r4 =>
            match sepOrEnd r4 with
            | some (n4, b) => some (g3 ++ [':'], (g3.length + 1) + n4, b)
            | none => none
          | _ => none
        -- optional backslash after the letter (greedy, then without)
        match r2 with
        | '\\' :: r3 =>
          match fin (pre ++ [l, '\\']) r3 with
          | some x => some x
          | none => fin (pre ++ [l]) r2
        | _ => fin (pre ++ [l]) r2
      | [] => none
    match tryFrom b1 r1 with
    | some x => some x
    | none => if b1.isEmpty then none else tryFrom [] p
  match altA with
  | some (g2, end0, _) =>
    let part0 := unescape g2
    let isSpecial := lower part0 = ['.'] || lower part0 = ['?']
    let st := partsLoop isSpecial (p.length + 1) (p.drop end0)
      { parts := [part0], slash := false, endIdx := end0, count := 0, complete := 1, first := 1 }
    if st.count = st.complete then
      let r : Re := .cat (.rep 2 2 (Frag.sep true))
        (joinSep (st.parts.map (fun q => escapeDrive q cfg.caseSensitive)))
      { rootSpecified := true, drive := some [.re r], slash := st.slash, endIdx := st.endIdx }
    else none_ true
  | none =>
    match altB with
    | some (g3, end0, b4) =>
      -- RE_WIN_DRIVE_LETTER on group(0): `[a-z]:` then one `\`, `/`, or end
      let g0 := p.take end0
      let letterOk : Bool :=
        match g0 with
        | l :: ':' :: r => isLetter l && (match r with
            | '\\' :: _ => true
            | '/' :: _ => true
            | r => atEos r)
        | _ => false
      if letterOk then
        let d := (unescape g3).map (fun c => if c = '/' then '\\' else c)
        { rootSpecified := true, drive := some [.re (escapeDrive d cfg.caseSensitive)], slash := b4,
          endIdx := end0 }
      else none_ false
    | none =>
      match p with
      | '\\' :: '\\' :: _ => none_ true
      | '/' :: _ => none_ true
      | _ => none_ false

end WcModel

import WcModel.Model.Flags
/-
  `_wcparse.escape` (Unix rules / `pathname=False`) and `_wcparse.is_magic` (Unix rules).

  escape: `pattern.replace('\\', '\\\\')` then `RE_MAGIC_ESCAPE.sub(r'\\\1', …)`.  After the
  doubling every run of backslashes is even, so the second alternative of RE_MAGIC_ESCAPE (a
  lone backslash) can never fire and the substitution is "put a backslash before every
  character of `[-!~*?()\[\]|{}]`".  (The text of RE_MAGIC_ESCAPE is pinned in Generated.lean;
  the equality with the real function is stream K3.)
-/
namespace WcModel

/-- the character class of the first alternative of RE_MAGIC_ESCAPE -/
def magicEscapeChars : List Char := ['-', '!', '~', '*', '?', '(', ')', '[', ']', '|', '{', '}']

def escapeChar (c : Char) : List Char :=
  if c = '\\' then ['\\', '\\'] else if c ∈ magicEscapeChars then ['\\', c] else [c]

/-- `escape(s)` for Unix rules (and `fnmatch.escape` on every platform) -/
def escapeUnix (s : List Char) : List Char := s.flatMap escapeChar

/-- `_get_magic_symbols(pattern, unix=True, flags)[0]` -/
def magicSymbols (f : Flags) : List Char :=
  Gen.cMAGIC_DEF.toList ++
  (if f.brace then Gen.cMAGIC_BRACE.toList else []) ++
  (if f.split then Gen.cMAGIC_SPLIT.toList else []) ++
  (if f.globtilde then Gen.cMAGIC_TILDE.toList else []) ++
  (if f.extmatch then Gen.cMAGIC_EXTMATCH.toList else []) ++
  (if f.negate then (if f.minusnegate then Gen.cMAGIC_MINUS_NEGATE.toList else Gen.cMAGIC_NEGATE.toList) else [])

/-- `is_magic(pattern, flags)` under Unix rules -/
def isMagicUnix (f : Flags) (p : List Char) : Bool := p.any (fun c => c ∈ magicSymbols f)

end WcModel

import WcModel.Model.Flags
/-
  `fnmatch._flag_transform` (wcmatch/fnmatch.py:79-86).
-/
namespace WcModel

def fnFlagTransform (n : Nat) : Nat :=
  let n := if hasBit n Gen.FFORCEUNIX && hasBit n Gen.FFORCEWIN then n ^^^ (Gen.FFORCEWIN ||| Gen.FFORCEUNIX) else n
  n &&& Gen.fnmatchFlagMask

end WcModel

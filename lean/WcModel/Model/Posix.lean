import WcModel.Model.Regex
import WcModel.Generated
/-
  POSIX character classes: names, table lookup (tables are *generated* from posix.py) and a
  reader for the table text (a bracket-expression body: `a-b`, `\c`, single characters).
-/
namespace WcModel

def PosixName.all : List PosixName :=
  [.alnum, .alpha, .ascii, .blank, .cntrl, .digit, .graph, .lower, .print, .punct, .space,
   .upper, .word, .xdigit]

def PosixName.name : PosixName → String
  | .alnum => "alnum" | .alpha => "alpha" | .ascii => "ascii" | .blank => "blank"
  | .cntrl => "cntrl" | .digit => "digit" | .graph => "graph" | .lower => "lower"
  | .print => "print" | .punct => "punct" | .space => "space" | .upper => "upper"
  | .word => "word" | .xdigit => "xdigit"

def tableLookup (t : List (String × String)) (k : String) : Option String :=
  (t.find? (fun p => p.1 == k)).map (·.2)

/-- `posix.get_posix_property(name, is_bytes)` -/
def posixText (isBytes : Bool) (n : PosixName) : List Char :=
  ((tableLookup (if isBytes then Gen.posixAscii else Gen.posixUnicode) n.name).getD "").toList

/-- atoms of a class body: a character (backslash-escaped or not) -/
def classAtoms : List Char → List Char
  | [] => []
  | '\\' :: c :: rest => c :: classAtoms rest
  | c :: rest => c :: classAtoms rest

/-- Read a class body as Python's `re` does, on *pre-unescaped marks*: to keep `-` as an
    operator distinguishable from an escaped `\-` we work on (char, escaped) pairs. -/
def classPairs : List Char → List (Char × Bool)
  | [] => []
  | '\\' :: c :: rest => (c, true) :: classPairs rest
  | c :: rest => (c, false) :: classPairs rest

def pairsRanges : Nat → List (Char × Bool) → List (Nat × Nat)
  | 0, _ => []
  | _, [] => []
  | fuel+1, (lo, _) :: ('-', false) :: (hi, _) :: rest => (lo.toNat, hi.toNat) :: pairsRanges fuel rest
  | fuel+1, (c, _) :: rest => (c.toNat, c.toNat) :: pairsRanges fuel rest

def classTextRanges (t : List Char) : List (Nat × Nat) :=
  let ps := classPairs t
  pairsRanges (ps.length + 1) ps

def posixItem (isBytes : Bool) (n : PosixName) : ClsItem :=
  let t := posixText isBytes n
  .posix n t (classTextRanges t)

/-- match `:(name):]` at the head of the input (RE_POSIX); returns the name and the rest -/
def matchPosix (s : List Char) : Option (PosixName × Nat × List Char) :=
  match s with
  | ':' :: rest =>
    PosixName.all.findSome? (fun n =>
      let nm := n.name.toList
      if nm.isPrefixOf rest then
        match rest.drop nm.length with
        | ':' :: ']' :: rest' => some (n, nm.length + 3, rest')
        | _ => none
      else none)
  | _ => none

end WcModel

import WcModel.Model.Comp
import WcModel.Model.ToRe
import WcModel.Model.Flags
import WcModel.Spec.PathLang
/-
  The *tidy path-mode compiler*: structural recursion on the documented path grammar
  (`PathPat` = segments separated by `/`, a segment being a file-name pattern `Pat` or a
  globstar), with the guard placement of `WcParse` in PATHNAME mode written as an explicit
  function of "am I at the start of the segment" (`as`).  Unix rules, no NODOTDIR, no REALPATH.

  Executable only; the semantic theorems are in `Proofs/CompPath.lean`, the property
  statements in `Properties/C02path.lean`.  The link to the faithful port (`Model/Parse.lean`)
  is `tidyPathAgrees` below (stream K1' for path mode).
-/
namespace WcModel

/-- `_restrict_sequence` (1016-1027) in path mode: the prefix of `?` and of a bracket -/
def pGuard (dot as : Bool) : Re :=
  if as then
    .cat (Frag.noDir false) (if !dot then Frag.seqPathDot false else Frag.seqPath false)
  else Frag.seqPath false

/-- `_handle_star` (1262-1367) in path mode, not a globstar -/
def pStar (dot as : Bool) : Re :=
  if as then .cat (Frag.needCharPath false) (if !dot then Frag.pathStarDot2 false else Frag.pathStarDot1 false)
  else Frag.pathStar false

/-- some token standing at a start position of `g` is a written `.` (what sets
    `match_dot_dir`, 1436-1437) -/
def Pat.dotAtStart : Pat → Bool
  | .lit c => c == '.'
  | .seq p q => p.dotAtStart || (p.isEmpty && q.dotAtStart)
  | .alt p q => p.dotAtStart || q.dotAtStart
  | .ext _ p => p.dotAtStart
  | _ => false

/-- the star of a `!(…)` group in path mode (1484-1498); `mdd` = `match_dot_dir` -/
def pNegStar (dot as mdd : Bool) : Re :=
  let s := if !as || mdd then Frag.pathStar false
           else if !dot then Frag.pathStarDot2 false else Frag.pathStarDot1 false
  if as then .cat (Frag.needCharPath false) s else s

/-- one segment pattern, compiled as the faithful port emits it in path mode -/
def compSeg (dot : Bool) : Bool → Pat → Re
  | _, .eps => .eps
  | _, .lit c => .lit c
  | as, .any => .cat (pGuard dot as) Frag.qmark
  | as, .star => pStar dot as
  | as, .cls neg items => .cat (pGuard dot as) (.cls neg (items.map (SCls.toClsItem false)))
  | as, .seq (.ext .neg body) rest =>
    let t := compSeg dot false rest
    .cat (.grp (.cat (.look true (.cat (.grp (compSeg dot as body)) (.cat t (Frag.pathEop false))))
                     (pNegStar dot as (dot && body.dotAtStart)))) t
  | as, .seq p q => .cat (compSeg dot as p) (compSeg dot (as && p.isEmpty) q)
  | as, .alt p q => .alt (compSeg dot as p) (compSeg dot as q)
  | as, .ext .neg body =>
    .grp (.cat (.look true (.cat (.grp (compSeg dot as body)) (Frag.pathEop false)))
               (pNegStar dot as (dot && body.dotAtStart)))
  | as, .ext k body => quantRe k (compSeg dot as body)

/-- the segment pattern can match the empty string (over-approximated for `!(…)`); such
    segments are outside the scope of the path theorems: `x/?(a)/y` matches `x//y` -/
def Pat.nullable : Pat → Bool
  | .eps => true
  | .lit _ => false
  | .any => false
  | .star => true
  | .cls _ _ => false
  | .seq p q => p.nullable && q.nullable
  | .alt p q => p.nullable || q.nullable
  | .ext .opt _ => true
  | .ext .star _ => true
  | .ext .neg _ => true
  | .ext .plus p => p.nullable
  | .ext .one p => p.nullable

/-- the compiled segment cannot succeed on an empty piece: every way through the pattern meets a
    literal, a `?`, a bracket, or a `*` standing at the segment start (which carries `(?=[^/])`).
    Weaker than "not nullable": `*`, `*.c`, `*?(a)` are solid; `?(a)`, `?(a)*` (D5: the `*` after
    a group is unguarded) are not — and indeed `x/?(a)*/y` matches `x//y`. -/
def Pat.solid : Bool → Pat → Bool
  | _, .eps => false
  | _, .lit _ => true
  | _, .any => true
  | _, .cls _ _ => true
  | as, .star => as
  | as, .seq p q => p.solid as || q.solid (as && p.isEmpty)
  | as, .alt p q => p.solid as && q.solid as
  | as, .ext .plus p => p.solid as
  | as, .ext .one p => p.solid as
  | _, .ext _ _ => false

/-- the scope of the path theorems for one segment pattern: negation-free, no `/`, repeated
    groups at the start have wildcard-free start positions (D1p), cannot match an empty piece -/
def Pat.segScope (g : Pat) : Bool :=
  g.negFree && g.noSlash && g.startSafe false && g.solid true

/-- a file-name segment in scope (globstars are the business of part (c)) -/
def Seg.patScope : Seg → Bool
  | .pat g => g.segScope
  | .glob => false

/-- a segment in the scope of the globstar theorem -/
def Seg.scope : Seg → Bool
  | .pat g => g.segScope
  | .glob => true

/-- no two adjacent globstars (`parsePath` merges them, like `_handle_star`) -/
def noGG : List Seg → Bool
  | [] => true
  | .pat _ :: rest => noGG rest
  | .glob :: rest => (match rest with | .glob :: _ => false | _ => true) && noGG rest

/-- the non-empty pieces of a path (what `pathLangR` matches the segments against) -/
def pieces (s : List Char) : List (List Char) := (cutAtSlash s).filter (fun p => !p.isEmpty)

/-- the globstar of `_handle_star` (always at a segment start) -/
def pGstar (dot : Bool) : Re := if !dot then Frag.pathGstarDot2 false else Frag.pathGstarDot1 false

def sepIf (sb : Bool) (r : Re) : Re := if sb then .cat (Frag.sepPlus false) r else r
def needSepIf (sb : Bool) (r : Re) : Re := if sb then .cat (Frag.needSep false) r else r

/-- the segments.  `sb` = a separator is written before the current position and has not been
    emitted yet (`[/]+` before a file-name segment; `(?=[/])` before a globstar, whose divider
    `(?:^|$|[/])+` then consumes it together with the separator written after the `**`).
    At the end: the pending separator, then `_PATH_TRAIL`. -/
def pathRe (dot tr : Bool) : List Seg → Bool → Re
  | [], sb => sepIf sb (Frag.pathTrail false)
  | .pat g :: rest, sb =>
    sepIf sb (.cat (compSeg dot true g) (pathRe dot tr rest (if rest.isEmpty then tr else true)))
  | .glob :: rest, sb =>
    needSepIf sb (.cat (pGstar dot) (.cat (Frag.globstarDiv false) (pathRe dot tr rest false)))

/-- a whole path pattern (the part inside `^(?s:…)$`) -/
def compPath (dot : Bool) (pp : PathPat) : Re := pathRe dot pp.trailing pp.segs pp.abs

/-- the `^(?s:…)$` / `^(?si:…)$` wrapper of `_parse` (same as `C01.wrap`) -/
def wrapRe (ci : Bool) (r : Re) : Re := .cat .bos (.cat (.flags true ci r) .eos)

/-! ### K1' for path mode: the tidy compiler against the faithful port -/

namespace PathTidy

def canonItem : ClsItem → ClsItem
  | .chr c _ => .chr c false
  | .range lo _ hi _ => .range lo false hi false
  | .posix n _ rs => .posix n [] rs

/-- a doubled `.*?` or `[^/]*?` is one (`a**` is read as `a*` by the strict reader) -/
def dedupStars : List Re → List Re
  | a :: b :: rest =>
    if (a = Frag.star && b = Frag.star) || (a = Frag.pathStar false && b = Frag.pathStar false)
    then dedupStars (b :: rest) else a :: dedupStars (b :: rest)
  | l => l

def catOf : List Re → Re
  | [] => .eps
  | [r] => r
  | r :: rs => .cat r (catOf rs)

/-- the canonical list of concatenation factors (a total, structurally recursive version of
    `Driver.canon`: association of concatenation, empty units, class member spelling,
    doubled lazy stars — none of which `Re.M` can see) -/
def flat : Re → List Re
  | .cat a b => flat a ++ flat b
  | .eps => []
  | .cls n items => [.cls n (items.map canonItem)]
  | .alt a b => [.alt (catOf (dedupStars (flat a))) (catOf (dedupStars (flat b)))]
  | .grp r => [.grp (catOf (dedupStars (flat r)))]
  | .cap r => [.cap (catOf (dedupStars (flat r)))]
  | .gcap r => [.gcap (catOf (dedupStars (flat r)))]
  | .opt r => [.opt (catOf (dedupStars (flat r)))]
  | .star l r => [.star l (catOf (dedupStars (flat r)))]
  | .plus r => [.plus (catOf (dedupStars (flat r)))]
  | .rep lo hi r => [.rep lo hi (catOf (dedupStars (flat r)))]
  | .look n r => [.look n (catOf (dedupStars (flat r)))]
  | .flags s i r => [.flags s i (catOf (dedupStars (flat r)))]
  | r => [r]

def canon (r : Re) : Re := catOf (dedupStars (flat r))

def flagWord (dot ext gs : Bool) : Nat :=
  Gen.FPATHNAME + Gen.FFORCEUNIX + (if dot then Gen.FDOTMATCH else 0) + (if ext then Gen.FEXTMATCH else 0) +
    (if gs then Gen.FGLOBSTAR else 0)

def ctxOf (dot ext gs : Bool) : PCtx :=
  { ci := false, dot := dot, ext := ext, globstar := gs, globstarlong := false, matchbase := false }

/-- the faithful port's regex AST for `p` under PATHNAME|FORCEUNIX (+DOTGLOB, +EXTGLOB, +GLOBSTAR) -/
def faithful (dot ext gs : Bool) (p : List Char) : Option Re :=
  match parseItems (Cfg.ofFlags false (Flags.ofNat (flagWord dot ext gs))) (fun _ => default) p with
  | .error _ => none
  | .ok parsed => parsed.toRe

/-- the tidy compiler's regex AST for `p` -/
def tidy (dot ext gs : Bool) (p : List Char) : Option Re :=
  (parsePath (ctxOf dot ext gs) p).map (fun pp => wrapRe false (compPath dot pp))

end PathTidy

/-- `some true`: the strict reader accepts `p`, the faithful port produces a regex, and the two
    ASTs agree modulo `PathTidy.canon`; `some false`: they differ; `none`: out of the grammar
    or the port produced no regex. -/
def tidyPathAgrees (dot ext gs : Bool) (p : List Char) : Option Bool :=
  match PathTidy.tidy dot ext gs p, PathTidy.faithful dot ext gs p with
  | some a, some b => some (PathTidy.canon a == PathTidy.canon b)
  | _, _ => none

end WcModel

import WcModel.Model.Flags
import WcModel.Model.Posix
/-
  `_wcparse.WcSplit` — splitting a pattern at top-level unescaped `|` (SPLIT).

  Port of `_split`, `parse_extend`, `_sequence`, `_references` (lines 795-918).  The iterator
  `util.StringIter` is modelled by the unread suffix; "`index = i.index … i.rewind(i.index -
  index)`" is "remember the suffix, restore it".  `StopIteration` (end of text, or raised by
  hand) and `PathNameException` are the `none` results.  All loops take fuel (the remaining
  length suffices; every iteration consumes a character) so that the kernel can evaluate them.

  Faithfulness notes (kept on purpose):
  * `parse_extend` re-uses its local `index` for the `[`-rewind inside the loop, so a later
    failure of the group rewinds only to the position after the last `[` seen, not to the start
    of the group;
  * after a failed `parse_extend` the caller goes on with the *type character* as `c`.
-/
namespace WcModel.Split

structure Cfg where
  pathname : Bool
  extend : Bool
  bslashAbort : Bool       -- `not is_unix_style(flags)`
  deriving DecidableEq, Repr

def Cfg.ofFlags (f : Flags) : Cfg :=
  { pathname := f.pathname, extend := f.extmatch, bslashAbort := !isUnixStyle f }

def extTypes : List Char := ['*', '?', '+', '@', '!']

/-- `_references(i, sequence)`: `none` = an exception (StopIteration at the end of the text, or
    PathNameException), otherwise the suffix after the escaped character -/
def references (cfg : Cfg) (seq : Bool) : List Char → Option (List Char)
  | [] => none
  | c :: r =>
    if c = '\\' then (if seq && cfg.bslashAbort then none else some r)
    else if c = '/' then (if seq && cfg.pathname then none else some r)
    else some r

/-- `i.match(RE_POSIX)`: the unread text after `:name:]` if that is what comes next, else unchanged.
    The test is the parser's own `matchPosix` (fix: D34) -/
def skipPosix (rest : List Char) : List Char :=
  match matchPosix rest with
  | some (_, _, rest') => rest'
  | none => rest

/-- the `while c != ']'` loop of `_sequence` -/
def seqLoop (cfg : Cfg) : Nat → Char → List Char → Option (List Char)
  | 0, _, _ => none
  | fuel + 1, c, rest =>
    if c = ']' then some rest
    else
      let after : Option (List Char) :=
        if c = '\\' then references cfg true rest
        else if c = '/' then (if cfg.pathname then none else some rest)
        else if c = '[' then some (skipPosix rest)   -- a POSIX class is ONE member (fix: D34)
        else some rest
      match after with
      | none => none
      | some [] => none                      -- `c = next(i)` at the end: StopIteration
      | some (c' :: r) => seqLoop cfg fuel c' r

/-- `_sequence(i)`: `none` = StopIteration (the caller rewinds).  The bracket is read the way the
    parser `WcParse._sequence` reads it (fix: D34): negation is `!` or `^`; a first member `[` (a
    POSIX class if `:name:]` follows), `-` or `]` is a literal member -/
def sequence (cfg : Cfg) (rest : List Char) : Option (List Char) :=
  match rest with
  | [] => none
  | c :: r =>
    -- if c in ('!', '^'): c = next(i)
    let s1 : Option (Char × List Char) :=
      if c = '!' ∨ c = '^' then (match r with | [] => none | c' :: r' => some (c', r')) else some (c, r)
    match s1 with
    | none => none
    | some (c1, r1) =>
      -- if c == '[': i.match(RE_POSIX); c = next(i)   elif c in ('-', ']'): c = next(i)
      let s2 : Option (Char × List Char) :=
        if c1 = '[' then (match skipPosix r1 with | [] => none | c' :: r' => some (c', r'))
        else if c1 = '-' ∨ c1 = ']' then (match r1 with | [] => none | c' :: r' => some (c', r'))
        else some (c1, r1)
      match s2 with
      | none => none
      | some (c2, r2) => seqLoop cfg (r2.length + 1) c2 r2

mutual
/-- `parse_extend(c, i)` entered just after the type character: (success, suffix to go on from) -/
def parseExtend (cfg : Cfg) : Nat → List Char → Bool × List Char
  | 0, rest => (false, rest)
  | fuel + 1, rest =>
    match rest with
    | [] => (false, rest)                                  -- next(i): StopIteration; rewind 0
    | c :: r => if c ≠ '(' then (false, rest) else extLoop cfg fuel c r rest

/-- the `while c != ')'` loop; `index` = the suffix a failure rewinds to -/
def extLoop (cfg : Cfg) : Nat → Char → List Char → List Char → Bool × List Char
  | 0, _, _, index => (false, index)
  | fuel + 1, c, rest, index =>
    if c = ')' then (true, rest)
    else
      match rest with
      | [] => (false, index)                               -- next(i): StopIteration → rewind to index
      | c' :: r =>
        let nested : Option (Bool × List Char) :=
          if cfg.extend && extTypes.contains c' then some (parseExtend cfg fuel r) else none
        match nested with
        | some (true, r2) => extLoop cfg fuel c' r2 index  -- continue
        | other =>
          let r2 := match other with
            | some (_, r2) => r2
            | none => r
          if c' = '\\' then
            match references cfg false r2 with
            | some r3 => extLoop cfg fuel c' r3 index
            | none => extLoop cfg fuel c' r2 index          -- StopIteration: pass
          else if c' = '[' then
            match sequence cfg r2 with
            | some r3 => extLoop cfg fuel c' r3 index       -- the bracket has its own rewind mark (fix: D35)
            | none => extLoop cfg fuel c' r2 index          -- rewind to just after the `[`; the group's mark is kept
          else extLoop cfg fuel c' r2 index
end

/-- how many characters a jump from `rest` to its suffix `r2` consumed -/
def consumed (rest r2 : List Char) : Nat := rest.length - r2.length

/-- move `k` characters from the unread text to the current piece (kept reversed) -/
def adv (k : Nat) (rest cur : List Char) : List Char × List Char :=
  (rest.drop k, (rest.take k).reverse ++ cur)

/-- the `for c in i` loop of `_split`; `cur` = characters since the last split, reversed;
    yields the pieces in order.  (`|` is tested first: it is not an extended-group type
    character, so the `parse_extend` attempt that the code makes before it never applies.) -/
def mainLoop (cfg : Cfg) : Nat → List Char → List Char → List (List Char)
  | 0, rest, cur => [cur.reverse ++ rest]
  | fuel + 1, rest, cur =>
    match rest with
    | [] => [cur.reverse]                                  -- `if start < len(pattern)`: always
    | c :: r =>
      if c = '|' then cur.reverse :: mainLoop cfg fuel r []
      else
        let ext : Option (Bool × List Char) :=
          if cfg.extend && extTypes.contains c then some (parseExtend cfg (r.length + 1) r) else none
        match ext with
        | some (true, r2) =>
          let s := adv (consumed r r2) r (c :: cur)
          mainLoop cfg fuel s.1 s.2
        | other =>
          let r2 := match other with
            | some (_, r2) => r2
            | none => r
          let s := adv (consumed r r2) r (c :: cur)
          if c = '\\' then
            match references cfg false s.1 with
            | some r3 => let t := adv (consumed s.1 r3) s.1 s.2; mainLoop cfg fuel t.1 t.2
            | none => mainLoop cfg fuel s.1 s.2
          else if c = '[' then
            match sequence cfg s.1 with
            | some r3 => let t := adv (consumed s.1 r3) s.1 s.2; mainLoop cfg fuel t.1 t.2
            | none => mainLoop cfg fuel s.1 s.2
          else mainLoop cfg fuel s.1 s.2

/-- `WcSplit(pattern, flags).split()` -/
def wcSplit (cfg : Cfg) (p : List Char) : List (List Char) := mainLoop cfg (p.length + 1) p []

end WcModel.Split

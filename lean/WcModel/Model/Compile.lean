import WcModel.Model.Flags
import WcModel.Model.Norm
/-
  The list level: `_wcparse.translate`, `_wcparse.compile_pattern` and
  `glob.Glob._iter_patterns/_parse_patterns` — three copies of one loop

      for pattern in patterns:
          pattern = norm_pattern(pattern)                       (C20)
          count = 0
          for expanded in expand(pattern, flags, current_limit):   braces → split → tilde
              count += 1; total += 1
              if 0 < limit < total: raise PatternLimitException
              if expanded not in seen: seen.add; route to negative / positive
          if limit: current_limit = max(1, current_limit - count)

  with different wrappers (exclude= recursion in the first two, whose main loop starts with
  `used = len(negative)`, `total = used`, `current_limit = max(limit - used, 1) if limit > 0 else
  limit` — the exclusion patterns count against the same limit; a shared `current_limit` AND a
  shared `self.total` but a fresh `seen` per list in `Glob`; NEGATEALL default and NODIR append in
  all three).  The three are modelled by three separate definitions
  (`translate`, `compilePattern`, `globPatterns`) with their own policies and wrappers over one
  engine (`runPatterns`) that is the text of the loop above.

  External components are PARAMETERS (`Ext`): `norm_pattern` (its model is `Norm.normPattern`,
  plugged in by the driver), `bracex.iexpand(p, keep_escapes=True, limit=l)` as a lazy source
  (the items it yields before it ends, and whether it ends with ExpansionLimitException),
  `WcSplit.split` (model: `Split.wcSplit`), `expand_tilde`, the per-pattern compiler
  (`WcParse(..).parse()` / `_compile`), and the NODIR regex.
-/
namespace WcModel.Compile

abbrev Pat := List Char

inductive Err
  | patternLimit
  | norm (e : Norm.NormErr)
  deriving DecidableEq, Repr

/-- what `bracex.iexpand(p, keep_escapes=True, limit=l)` does when iterated to its end -/
structure BraceOut where
  items : List Pat
  raised : Bool      -- ended with ExpansionLimitException
  deriving DecidableEq, Repr

structure Ext (R : Type) where
  norm : Flags → Pat → Except Norm.NormErr Pat
  brace : Pat → Int → BraceOut
  split : Flags → Pat → List Pat
  tilde : Flags → Pat → Pat
  parse : Flags → Pat → R
  noDir : Bool → R

/-- `_wcparse.is_negative` -/
def isNegative (fl : Flags) (p : Pat) : Bool :=
  if fl.minusnegate then fl.negate && p.head? == some '-'
  else if fl.extmatch then fl.negate && p.head? == some '!' && !(p.tail.head? == some '(')
  else fl.negate && p.head? == some '!'

/-- `_wcparse.no_negate_flags` -/
def noNegateFlags (fl : Flags) : Flags := { fl with negate := false, negateall := false }

/-- flags under which an exclusion is compiled: `flags | _NO_GLOBSTAR_CAPTURE | DOTMATCH` -/
def negFlags (fl : Flags) : Flags := { fl with dotmatch := true, noGlobstarCapture := true }

/-- `expand_braces`: without BRACE the pattern itself, no bracex call -/
def expandBraces {R} (x : Ext R) (fl : Flags) (p : Pat) (cl : Int) : BraceOut :=
  if fl.brace then x.brace p cl else ⟨[p], false⟩

/-- `split` then `expand_tilde` of one brace item -/
def splitItem {R} (x : Ext R) (fl : Flags) (e : Pat) : List Pat :=
  (if fl.split then x.split fl e else [e]).map (x.tilde fl)

/-- `expand(pattern, flags, limit)`: one inner list per brace item pulled; the flag says the
    generator ends with ExpansionLimitException -/
def expand {R} (x : Ext R) (fl : Flags) (p : Pat) (cl : Int) : List (List Pat) × Bool :=
  let b := expandBraces x fl p cl
  (b.items.map (splitItem x fl), b.raised)

/-- loop state; `out` is whatever the loop builds (positive / negative lists) -/
structure Acc (O : Type) where
  total : Nat
  pulls : Nat          -- items drawn from expand_braces so far
  seen : List Pat
  out : O

/-- what differs between the loops inside the body -/
structure Policy (O : Type) where
  useSeen : Pat → Bool       -- is the seen-filter applied to this piece
  route : Pat → O → O        -- what a fresh piece appends

/-- the de-dup + routing part of the body -/
def admitPiece {O} (pol : Policy O) (e : Pat) (a : Acc O) : Acc O :=
  if pol.useSeen e then
    if e ∈ a.seen then a else { a with seen := e :: a.seen, out := pol.route e a.out }
  else { a with out := pol.route e a.out }

/-- the pieces of one brace item -/
def runPieces {O} (pol : Policy O) (limit : Int) : List Pat → Acc O → Nat → Except (Err × Nat) (Acc O × Nat)
  | [], a, c => .ok (a, c)
  | e :: es, a, c =>
    let a1 := { a with total := a.total + 1 }
    if 0 < limit ∧ limit < (a1.total : Int) then .error (.patternLimit, a.pulls)
    else runPieces pol limit es (admitPiece pol e a1) (c + 1)

/-- the brace items of one pattern -/
def runItems {O} (pol : Policy O) (limit : Int) : List (List Pat) → Acc O → Nat → Except (Err × Nat) (Acc O × Nat)
  | [], a, c => .ok (a, c)
  | it :: its, a, c =>
    match runPieces pol limit it { a with pulls := a.pulls + 1 } c with
    | .error e => .error e
    | .ok (a', c') => runItems pol limit its a' c'

/-- `if limit: current_limit -= count; if current_limit < 1: current_limit = 1` -/
def nextLimit (limit cl : Int) (count : Nat) : Int :=
  if limit ≠ 0 then (if cl - count < 1 then 1 else cl - count) else cl

/-- `current_limit = max(limit - used, 1) if limit > 0 else limit` — the bracex budget the main
    loop of `translate` / `compile_pattern` starts with after `used` exclusion patterns -/
def startLimit (limit : Int) (used : Nat) : Int :=
  if 0 < limit then (if limit - used < 1 then 1 else limit - used) else limit

/-- the outer loop; returns the state and the final `current_limit` -/
def runPatterns {R O} (x : Ext R) (fl : Flags) (pol : Policy O) (limit : Int) :
    List Pat → Int → Acc O → Except (Err × Nat) (Acc O × Int)
  | [], cl, a => .ok (a, cl)
  | p :: ps, cl, a =>
    match x.norm fl p with
    | .error e => .error (.norm e, a.pulls)
    | .ok q =>
      let ex := expand x fl q cl
      match runItems pol limit ex.1 a 0 with
      | .error e => .error e
      | .ok (a', count) =>
        if ex.2 then .error (.patternLimit, a'.pulls)      -- ExpansionLimitException → PatternLimitException
        else runPatterns x fl pol limit ps (nextLimit limit cl count) a'

/-- The `limit` arguments the loop hands to `expand` — i.e. to `bracex.iexpand(.., limit=…)` when
    BRACE is on — in call order, up to the point where the loop stops (normally or by an
    exception).  Same recursion as `runPatterns`; it only records `(normalised pattern,
    current_limit)`. -/
def braceArgs {R O} (x : Ext R) (fl : Flags) (pol : Policy O) (limit : Int) :
    List Pat → Int → Acc O → List (Pat × Int)
  | [], _, _ => []
  | p :: ps, cl, a =>
    match x.norm fl p with
    | .error _ => []
    | .ok q =>
      let ex := expand x fl q cl
      (q, cl) ::
        (match runItems pol limit ex.1 a 0 with
         | .error _ => []
         | .ok (a', count) =>
           if ex.2 then [] else braceArgs x fl pol limit ps (nextLimit limit cl count) a')

/-! ### `translate` and `compile_pattern` -/

structure PN (R : Type) where
  pos : List R
  neg : List R
  deriving DecidableEq, Repr

structure Out (R : Type) where
  pos : List R
  neg : List R
  pulls : Nat
  deriving DecidableEq, Repr

/-- body routing of `translate` / `compile_pattern` -/
def pnPolicy {R} (x : Ext R) (fl : Flags) : Policy (PN R) where
  useSeen := fun _ => true
  route := fun e o =>
    if isNegative fl e then { o with neg := o.neg ++ [x.parse (negFlags fl) (e.drop 1)] }
    else { o with pos := o.pos ++ [x.parse fl e] }

/-- after the loop: NEGATEALL default, NODIR append -/
def finishPN {R} (x : Ext R) (fl : Flags) (o : PN R) : PN R :=
  let pos := if !o.neg.isEmpty && o.pos.isEmpty && fl.negateall
    then o.pos ++ [x.parse { fl with globstar := fl.globstar || fl.pathname } ['*', '*']] else o.pos
  let neg := if !pos.isEmpty && fl.nodir then o.neg ++ [x.noDir (isUnixStyle fl)] else o.neg
  ⟨pos, neg⟩

/-- the loop of `translate` and what follows it, started with a given negative list, pull count
    and `used = len(negative)` (0 without `exclude=`): `total = used`,
    `current_limit = startLimit limit used` -/
def translateCore {R} (x : Ext R) (fl0 : Flags) (limit : Int) (pats : List Pat) (neg0 : List R) (pulls0 : Nat)
    (used : Nat) : Except (Err × Nat) (Out R) :=
  let fl := { fl0 with translate := true }            -- `(flags | _TRANSLATE) & FLAG_MASK`
  match runPatterns x fl (pnPolicy x fl) limit pats (startLimit limit used) ⟨used, pulls0, [], ⟨[], neg0⟩⟩ with
  | .error e => .error e
  | .ok (a, _) => let o := finishPN x fl a.out; .ok ⟨o.pos, o.neg, a.pulls⟩

/-- `_wcparse.translate(patterns, flags, limit, exclude)` -/
def translate {R} (x : Ext R) (fl0 : Flags) (limit : Int) (pats : List Pat) (excl : Option (List Pat)) :
    Except (Err × Nat) (Out R) :=
  match excl with
  | none => translateCore x fl0 limit pats [] 0 0
  | some ex =>
    let fl1 := noNegateFlags fl0
    match translateCore x (negFlags fl1) limit ex [] 0 0 with
    | .error e => .error e
    | .ok o => translateCore x fl1 limit pats o.pos o.pulls o.pos.length        -- `used = len(negative)`

/-- the loop of `compile_pattern` and what follows it (see `translateCore`) -/
def compileCore {R} (x : Ext R) (fl : Flags) (limit : Int) (pats : List Pat) (neg0 : List R) (pulls0 : Nat)
    (used : Nat) : Except (Err × Nat) (Out R) :=
  match runPatterns x fl (pnPolicy x fl) limit pats (startLimit limit used) ⟨used, pulls0, [], ⟨[], neg0⟩⟩ with
  | .error e => .error e
  | .ok (a, _) => let o := finishPN x fl a.out; .ok ⟨o.pos, o.neg, a.pulls⟩

/-- `_wcparse.compile_pattern(patterns, flags, limit, exclude)` -/
def compilePattern {R} (x : Ext R) (fl0 : Flags) (limit : Int) (pats : List Pat) (excl : Option (List Pat)) :
    Except (Err × Nat) (Out R) :=
  match excl with
  | none => compileCore x fl0 limit pats [] 0 0
  | some ex =>
    let fl1 := noNegateFlags fl0
    match compileCore x (negFlags fl1) limit ex [] 0 0 with
    | .error e => .error e
    | .ok o => compileCore x fl1 limit pats o.pos o.pulls o.pos.length          -- `used = len(negative)`

/-! ### `Glob.__init__` → `_parse_patterns(pats)`, `_parse_patterns(epats, force_negate=True)` -/

/-- a positive glob pattern (text handed to `_GlobSplit`; `gstar` = compiled with `| GLOBSTAR`) -/
structure GPos where
  text : Pat
  gstar : Bool
  deriving DecidableEq, Repr

structure GPN (R : Type) where
  pos : List GPos
  neg : List R
  deriving DecidableEq, Repr

structure GlobCfg where
  flags : Flags          -- `self.flags` (after `_flag_transform`, MARK/NEGATEALL/NODIR/_PATHLIB removed)
  negateall : Bool
  nodir : Bool
  nounique : Bool
  limit : Int

def globPolicy {R} (x : Ext R) (g : GlobCfg) (force : Bool) : Policy (GPN R) where
  useSeen := fun e => !g.nounique || (force || isNegative g.flags e)
  route := fun e o =>
    if force || isNegative g.flags e then
      { o with neg := o.neg ++ [x.parse (negFlags g.flags) (if force then e else e.drop 1)] }
    else { o with pos := o.pos ++ [⟨e, false⟩] }

/-- the tail of `_parse_patterns` -/
def finishGlob {R} (x : Ext R) (g : GlobCfg) (force : Bool) (o : GPN R) : GPN R :=
  let pos := if o.pos.isEmpty && !o.neg.isEmpty && g.negateall then o.pos ++ [⟨['*', '*'], true⟩] else o.pos
  -- `re_no_dir`: the Windows variant only under Windows rules (`forcewin = self.flags & FORCEWIN`, after `_flag_transform`; fix: D16)
  let neg := if g.nodir && !force then o.neg ++ [x.noDir (!g.flags.forcewin)] else o.neg
  ⟨pos, neg⟩

/-- one `_parse_patterns` call: fresh `seen`; `self.current_limit` and `self.total` are shared by
    the two calls (handed in, handed back) -/
def globParse {R} (x : Ext R) (g : GlobCfg) (force : Bool) (pats : List Pat) (cl : Int) (o : GPN R) (pulls : Nat)
    (total : Nat) : Except (Err × Nat) (GPN R × Int × Nat × Nat) :=
  match runPatterns x g.flags (globPolicy x g force) g.limit pats cl ⟨total, pulls, [], o⟩ with
  | .error e => .error e
  | .ok (a, cl') => .ok (finishGlob x g force a.out, cl', a.pulls, a.total)

structure GOut (R : Type) where
  pos : List GPos
  neg : List R
  pulls : Nat
  deriving DecidableEq, Repr

/-- the pattern part of `Glob.__init__` (`g.flags` already has NEGATE/NEGATEALL removed when
    `exclude` is given — `no_negate_flags` — that is the caller's job, see `globCfgOf`) -/
def globPatterns {R} (x : Ext R) (g : GlobCfg) (pats : List Pat) (excl : Option (List Pat)) :
    Except (Err × Nat) (GOut R) :=
  if pats.isEmpty then .ok ⟨[], [], 0⟩          -- `if not pattern: return`
  else
    match globParse x g false pats g.limit ⟨[], []⟩ 0 0 with     -- `self.current_limit = self.limit; self.total = 0`
    | .error e => .error e
    | .ok (o, cl, pulls, total) =>
      match excl with
      | none => .ok ⟨o.pos, o.neg, pulls⟩
      | some ex =>
        match globParse x g true ex cl o pulls total with
        | .error e => .error e
        | .ok (o', _, pulls', _) => .ok ⟨o'.pos, o'.neg, pulls'⟩

/-! ### matching (`_Match.match`, non-REALPATH part) -/

/-- `any(include) and not any(exclude)` -/
def matchPN {R N} (mt : R → N → Bool) (pos neg : List R) (name : N) : Bool :=
  pos.any (fun r => mt r name) && !neg.any (fun r => mt r name)

end WcModel.Compile

import WcModel.Model.Parse
/-
  From the item list the pass produced to one regex AST.  `none` exactly when the text is
  not a well-formed regex (an `!(…)` opening whose placeholder was never closed, D9).
-/
namespace WcModel

def splitBars : List Item → List (List Item)
  | [] => [[]]
  | .bar :: rest => [] :: splitBars rest
  | x :: rest =>
    match splitBars rest with
    | [] => [[x]]
    | a :: as => (x :: a) :: as

def altOfList : List Re → Re
  | [] => .eps
  | [r] => r
  | r :: rs => .alt r (altOfList rs)

def quant (k : GKind) (cap : Capt) (inner : Re) : Re :=
  let q : Re := match k with
    | .q => .opt (.grp inner)
    | .s => .star false (.grp inner)
    | .p => .plus (.grp inner)
    | .a => if cap = .no then .grp inner else inner
  match cap with
  | .no => q
  | .yes => .cap q
  | .erased => .grp q

def catE' (a b : Re) : Re := if b = .eps then a else if a = .eps then b else .cat a b

mutual
/-- a bar-free sequence -/
def Item.seqToRe : Nat → List Item → Option Re
  | 0, _ => none
  | _, [] => some .eps
  | fuel+1, .invOpen cap body :: .closed tail eop star :: rest => do
    let b ← Item.listToRe fuel body
    let la ← Item.listToRe fuel (.re (.grp b) :: tail ++ (match eop with | some e => [.re e] | none => []))
    let r ← Item.seqToRe fuel rest
    let g : Re := .cat (.look true la) star
    pure (catE' (if cap then .cap g else .grp g) r)
  | fuel+1, .re r :: rest => do pure (catE' r (← Item.seqToRe fuel rest))
  | fuel+1, .empty :: rest => Item.seqToRe fuel rest
  | fuel+1, .group k cap body :: rest => do
    let b ← Item.listToRe fuel body
    pure (catE' (quant k cap b) (← Item.seqToRe fuel rest))
  | _, _ => none
/-- a list that may contain bars: alternation of its bar-free pieces -/
def Item.listToRe : Nat → List Item → Option Re
  | 0, _ => none
  | fuel+1, items => do
    let parts ← (splitBars items).mapM (Item.seqToRe fuel)
    pure (altOfList parts)
end

mutual
def Item.size : Item → Nat
  | .group _ _ body => 2 + Item.sizeL body
  | .invOpen _ body => 2 + Item.sizeL body
  | .closed tail _ _ => 3 + Item.sizeL tail
  | _ => 1
def Item.sizeL : List Item → Nat
  | [] => 1
  | x :: xs => Item.size x + Item.sizeL xs
end

def Parsed.toRe (p : Parsed) : Option Re := do
  let inner ← Item.listToRe (2 * Item.sizeL p.items + 4) p.items
  pure (.cat .bos (.cat (.flags true p.ci inner) .eos))

end WcModel

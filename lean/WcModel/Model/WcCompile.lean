import WcModel.Model.Compile
import WcModel.Model.Match
import WcModel.Model.Split
import WcModel.Model.Norm
import WcModel.Model.WinDrive
import WcModel.Model.ToRe
import WcModel.Model.WcWalk
/-
  Executable model of the GLUE of `wcmatch/wcmatch.py` that turns the two pattern strings of
  `WcMatch(root, file_pattern, exclude_pattern, flags, limit)` into the two decisions the walk model
  (`Model/WcWalk.lean`) takes as parameters:

    `WcMatch._parse_flags`      (wcmatch.py:123-136)  → `wcFlags`, `wcMatchbase`, `wcFilePathname`, …
    `WcMatch._compile_wildcard` (wcmatch.py:138-147)  → `wildcardWord`, `compileWildcard`
    `WcMatch._compile`          (wcmatch.py:149-168)  → `compileFile`, `compileExclude`
    `_wcparse.compile`          (_wcparse.py:777-789) → through the list-level model
                                                         `Compile.compilePattern` (`Model/Compile.lean`)
                                                         into a `MatchObj` (`Model/Match.lean`)
    `WcRegexp.match` / `_Match.match` (non-REALPATH)  → `wcRegexpMatch`  (= `matchReal`, see
                                                         `Proofs/WcCompile.lean: wcRegexpMatch_eq_matchReal`)
    `_valid_file` / `compare_file`, `_valid_folder` / `compare_directory` (wcmatch.py:170-213)
                                                       → `fileArg`, `dirArg`, `fileDecOf`, `dirExclOf`
    the whole of it                                    → `Cfg.ofPatterns`

  What stays a PARAMETER (`World`): `bracex.iexpand` (only consulted under BRACE) and
  `unicodedata.lookup` (only consulted under RAWCHARS for `\N{…}`), and whether the strings are
  `bytes` (the model is type-blind: the TypeError for a root / pattern type mix is not modelled).
  `expand_tilde` is the identity here: GLOBTILDE is outside `WcMatch`'s FLAG_MASK
  (`C14e2e.wildcardWord_clean`).  The host is POSIX as far as paths go (`os.sep = '/'`, `_norm_slash` is the
  identity); `_FORCEWIN` on a Windows host is in `wcFlags`.  Core Lean only.
-/
namespace WcModel.WcCompile
open WcModel.Compile (Pat Ext BraceOut Out)
open WcModel.WcWalk (Name RelPath Res)

/-! ### `_parse_flags` -/

/-- `self.flags` after `_parse_flags` (wcmatch.py:126-136):
    `flags & FLAG_MASK`, `|= _NEGATE | _DOTMATCH | _NEGATEALL | _SPLIT`, `|= _FORCEWIN` on a Windows host,
    `& (_wcparse.FLAG_MASK ^ MATCHBASE)` -/
def wcFlags (flags : Nat) : Nat :=
  let fl := flags &&& Gen.wcmatchFlagMask
  let fl := fl ||| Gen.wcmForcedFlags
  let fl := if hostIsWindows then fl ||| Gen.FFORCEWIN else fl
  fl &&& Gen.wcmFinalParseMask

/-- `self.matchbase` / `self.file_pathname` / `self.dir_pathname` (read BEFORE MATCHBASE is cut out) -/
def wcMatchbase (flags : Nat) : Bool := hasBit (flags &&& Gen.wcmatchFlagMask) Gen.wcmMATCHBASE
def wcFilePathname (flags : Nat) : Bool := hasBit (flags &&& Gen.wcmatchFlagMask) Gen.wcmFILEPATHNAME
def wcDirPathname (flags : Nat) : Bool := hasBit (flags &&& Gen.wcmatchFlagMask) Gen.wcmDIRPATHNAME
/-- `self.recursive` / `self.show_hidden` / `self.follow_links` -/
def wcRecursive (flags : Nat) : Bool := hasBit (flags &&& Gen.wcmatchFlagMask) Gen.wcmRECURSIVE
def wcHidden (flags : Nat) : Bool := hasBit (flags &&& Gen.wcmatchFlagMask) Gen.wcmHIDDEN
def wcSymlinks (flags : Nat) : Bool := hasBit (flags &&& Gen.wcmatchFlagMask) Gen.wcmSYMLINKS

/-- the flag word `_compile_wildcard(pattern, pathname)` hands to `_wcparse.compile` (wcmatch.py:141-145):
    `self.flags`, `| _PATHNAME | _ANCHOR` in a path mode, and then `| MATCHBASE` iff the user gave it -/
def wildcardWord (flags : Nat) (pathname : Bool) : Nat :=
  if pathname then
    let fl := wcFlags flags ||| Gen.wcmPathnameFlags
    if wcMatchbase flags then fl ||| Gen.FMATCHBASE else fl
  else wcFlags flags

/-! ### the external world and the list-level `Ext` -/

structure World where
  isBytes : Bool
  /-- `bracex.iexpand(p, keep_escapes=True, limit=l)` iterated to its end -/
  brace : Pat → Int → BraceOut
  /-- `unicodedata.lookup` -/
  lookup : List Char → Option Char

/-- one compiled piece: the regex AST, or `none` when the emitted regex text is not well formed
    (`re.compile` would raise; cannot happen after the repair of D9) or `WcParse` raises -/
abbrev CRe := Option Re

/-- `_wcparse._compile(piece, flags)` -/
def parsePiece (isBytes : Bool) (fl : Flags) (p : Pat) : CRe :=
  let cfg := Cfg.ofFlags isBytes fl
  match parseItems cfg (winDrive cfg) p with
  | .ok parsed => parsed.toRe
  | .error _ => none

/-- the components `compile_pattern` calls, as the real code has them -/
def ext (w : World) : Ext CRe where
  norm := fun fl p =>
    Norm.normPattern { isBytes := w.isBytes, normalize := !isUnixStyle fl, raw := fl.rawchars, lookup := w.lookup } p
  brace := w.brace
  split := fun fl e => Split.wcSplit (Split.Cfg.ofFlags fl) e
  tilde := fun _ e => e
  parse := parsePiece w.isBytes
  noDir := fun unix => some (if unix then Frag.noNixDir else Frag.noWinDir)

/-- the per-piece matcher: `pattern.fullmatch(filename)` -/
def mtRe (r : CRe) (s : List Char) : Bool :=
  match r with
  | some re => re.fullmatch s
  | none => false

inductive Err
  | list (e : Compile.Err)     -- PatternLimitException / the exceptions of `norm_pattern`
  | regex                      -- a piece did not compile
  deriving DecidableEq, Repr

/-- all pieces compiled -/
def allSome {α} : List (Option α) → Option (List α)
  | [] => some []
  | none :: _ => none
  | some a :: r => (allSome r).map (a :: ·)

/-- `_wcparse.compile([pattern], word, limit)` → `WcRegexp(include, exclude, real, path, follow)` -/
def compileWord (w : World) (word : Nat) (limit : Int) (pattern : Pat) : Except Err MatchObj :=
  match Compile.compilePattern (ext w) (Flags.ofNat word) limit [pattern] none with
  | .error (e, _) => .error (.list e)
  | .ok o =>
    match allSome o.pos, allSome o.neg with
    | some pos, some neg =>
      .ok { incl := pos, excl := neg, real := hasBit word Gen.FREALPATH,
            follow := hasBit word Gen.FFOLLOW && !hasBit word Gen.FGLOBSTARLONG }
    | _, _ => .error .regex

/-- `_compile_wildcard(pattern, pathname)` for a non-empty pattern:
    `_wcparse.compile([pattern], flags, self.limit)` with the flag word of the mode -/
def compileWildcard (w : World) (flags : Nat) (limit : Int) (pattern : Pat) (pathname : Bool) : Except Err MatchObj :=
  compileWord w (wildcardWord flags pathname) limit pattern

/-- `WcRegexp.match(filename)` → `_Match.match` for an object that is not REALPATH
    (_wcmatch.py:320-338, 231-246): an empty name never matches; some inclusion and no exclusion -/
def wcRegexpMatch (o : MatchObj) (filename : List Char) : Bool :=
  if filename.isEmpty then false
  else Compile.matchPN (fun (r : Re) (s : List Char) => r.fullmatch s) o.incl o.excl filename

/-- `len(WcRegexp)` ≠ 0 (`bool(self.folder_exclude_check)`) -/
def wcRegexpTruthy (o : MatchObj) : Bool := !(o.incl.isEmpty && o.excl.isEmpty)

/-! ### `_compile`: the two checks -/

/-- `self.file_check`: `none` = the regex `^.*$` (DOTALL) of the empty file pattern -/
def compileFile (w : World) (flags : Nat) (limit : Int) (filePat : Pat) : Except Err (Option MatchObj) :=
  if filePat.isEmpty then .ok none
  else (compileWildcard w flags limit filePat (wcFilePathname flags)).map some

/-- `self.folder_exclude_check`: `none` = the empty `WcRegexp(())` of the empty exclude pattern -/
def compileExclude (w : World) (flags : Nat) (limit : Int) (exclPat : Pat) : Except Err (Option MatchObj) :=
  if exclPat.isEmpty then .ok none
  else (compileWildcard w flags limit exclPat (wcDirPathname flags)).map some

/-! ### the arguments of `compare_file` / `compare_directory` -/

/-- `fullpath[self._base_len:]`: the root-relative path with `os.sep` -/
def joinPath (p : RelPath) : List Char := List.intercalate ['/'] p

/-- what `compare_file` hands to `file_check.match`: the walk model's `cmpArg` is the component list
    (`[name]`, or the root-relative path under FILEPATHNAME), this is its text -/
def fileArg (p : RelPath) : List Char := joinPath p

/-- what `compare_directory` hands to `folder_exclude_check.match`: under DIRPATHNAME the path is
    spelled as a directory (`_add_sep`) -/
def dirArg (dirPathname : Bool) (p : RelPath) : List Char :=
  if dirPathname then joinPath p ++ ['/'] else joinPath p

/-- `compare_file` -/
def fileDecOf (chk : Option MatchObj) (p : RelPath) : Res Bool :=
  match chk with
  | none => .ret true                      -- `^.*$`, DOTALL, on a non-empty name
  | some o => .ret (wcRegexpMatch o (fileArg p))

/-- `folder_exclude_check.match(...)` inside `compare_directory` -/
def dirExclOf (dirPathname : Bool) (chk : Option MatchObj) (p : RelPath) : Res Bool :=
  match chk with
  | none => .ret false
  | some o => .ret (wcRegexpMatch o (dirArg dirPathname p))

/-- `bool(self.folder_exclude_check)` -/
def exclTruthy : Option MatchObj → Bool
  | none => false
  | some o => wcRegexpTruthy o

/-- the walk configuration from the two compiled checks: `WcWalk.Cfg.ofFlags` (the five walk flags) with the
    tables replaced by the compiled matchers (`none` = the empty pattern) -/
def cfgOfChecks (flags : Nat) (fchk xchk : Option MatchObj) : WcWalk.Cfg :=
  WcWalk.Cfg.ofFlags flags fchk.isNone (!exclTruthy xchk) (fileDecOf fchk) (dirExclOf (wcDirPathname flags) xchk)

/-- **`WcMatch.__init__`**: flags, the file check first, then the folder-exclude check -/
def Cfg.ofPatterns (w : World) (flags : Nat) (limit : Int) (filePat exclPat : Pat) : Except Err WcWalk.Cfg :=
  match compileFile w flags limit filePat with
  | .error e => .error e
  | .ok fchk =>
    match compileExclude w flags limit exclPat with
    | .error e => .error e
    | .ok xchk => .ok (cfgOfChecks flags fchk xchk)

end WcModel.WcCompile

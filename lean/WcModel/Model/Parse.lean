import WcModel.Model.Regex
import WcModel.Model.Flags
import WcModel.Model.Frag
import WcModel.Model.Posix
/-
  Faithful port of `_wcparse.WcParse` (wcmatch/_wcparse.py:921-1681).  Same branches in the
  same order; "try X, on StopIteration rewind and emit the literal" is `match … with
  | none => …`.  The output is a list of `Item`s whose `render` is, character for character,
  the regex text Python builds (checked by correspondence stream K1), and whose `toRe` is
  the regex AST the theorems talk about.

  Python line numbers in comments refer to wcmatch/_wcparse.py at the pinned commit.
-/
namespace WcModel

inductive GKind | q | s | p | a
  deriving DecidableEq, Repr, Inhabited

/-- how a translated extended group is wrapped: not at all, `((?#)…)` (a capture once the
    comment is stripped), or `(?:…)` after the `(?#)` → `?:` rewrite inside a `!(` copy -/
inductive Capt | no | yes | erased
  deriving DecidableEq, Repr, Inhabited

/-- one element of Python's `current` / `extended` string lists -/
inductive Item
  | re (r : Re)
  | empty                                                 -- `''`
  | bar                                                   -- `'|'`
  | group (k : GKind) (cap : Capt) (body : List Item)     -- `?(` `*(` `+(` `@(` closed
  | invOpen (cap : Bool) (body : List Item)               -- `(?:(?!(?:body)`
  | ph (star : Re)                                        -- `InvPlaceholder(star)`
  | closed (tail : List Item) (eop : Option Re) (star : Re) -- `TAIL EOP ) STAR )`
  deriving Repr, Inhabited

/-- string iterator (`util.StringIter`): `idx` characters consumed, `rest` still to read -/
structure It where
  idx : Nat
  rest : List Char
  deriving Repr, Inhabited

def It.next (i : It) : Option (Char × It) :=
  match i.rest with
  | [] => none
  | c :: r => some (c, ⟨i.idx + 1, r⟩)

def It.advance (i : It) (n : Nat) : It := ⟨i.idx + n, i.rest.drop n⟩

/-- immutable configuration computed by `WcParse.__init__` (924-977) -/
structure Cfg where
  isBytes : Bool
  noAbs : Bool
  pathname : Bool
  globstarlong : Bool
  globstar0 : Bool
  follow : Bool
  realpath : Bool
  translate : Bool
  globstarCapture : Bool
  dot : Bool
  extend : Bool
  matchbase0 : Bool
  extmatchbase0 : Bool
  anchor : Bool
  nodotdir : Bool
  capture : Bool
  caseSensitive : Bool
  unix : Bool
  winDriveDetect : Bool
  bslashAbort : Bool
  deriving Repr, Inhabited

def Cfg.ofFlags (isBytes : Bool) (f : Flags) : Cfg :=
  let pathname := f.pathname
  let globstarlong := pathname && f.globstarlong
  let realpath := f.realpath && pathname
  let unix := isUnixStyle f
  { isBytes := isBytes
    noAbs := f.noabsolute
    pathname := pathname
    globstarlong := globstarlong
    globstar0 := pathname && (globstarlong || f.globstar)
    follow := f.follow
    realpath := realpath
    translate := f.translate
    globstarCapture := realpath && !f.translate && !f.noGlobstarCapture
    dot := f.dotmatch
    extend := f.extmatch
    matchbase0 := f.matchbase
    extmatchbase0 := f.extmatchbase
    anchor := f.anchor
    nodotdir := f.nodotdir
    capture := f.translate
    caseSensitive := getCase f
    unix := unix
    winDriveDetect := if unix then false else pathname
    bslashAbort := if unix then false else pathname }

def Cfg.win (c : Cfg) : Bool := !c.unix
def Cfg.needChar (c : Cfg) : Re := if c.pathname then Frag.needCharPath c.win else Frag.needChar
def Cfg.eop (c : Cfg) : Re := if c.pathname then Frag.pathEop c.win else .eos

/-- mutable parser state -/
structure PS where
  afterStart : Bool := false
  dirStart : Bool := false
  inList : Bool := false
  invNest : Bool := false
  invExt : Nat := 0
  matchDotDir : Bool := false
  matchbase : Bool := false
  extmatchbase : Bool := false
  globstar : Bool := false
  deriving Repr, Inhabited

def PS.setAfterStart (p : PS) : PS := { p with afterStart := true, dirStart := false }
def PS.setStartDir (p : PS) : PS := { p with dirStart := true, afterStart := false }
def PS.resetDirTrack (p : PS) : PS := { p with dirStart := false, afterStart := false }
/-- `update_dir_state` (997-1009) -/
def PS.updateDirState (p : PS) : PS :=
  if p.dirStart && !p.afterStart then p.setAfterStart
  else if !p.dirStart && p.afterStart then p.resetDirTrack
  else p

def extTypes : List Char := Gen.extTypes.toList
def setOperators : List Char := Gen.setOperators.toList

/-- `_restrict_extended_slash` (1011) -/
def restrictExtendedSlash (cfg : Cfg) : Option Re :=
  if cfg.pathname then some (Frag.seqPath cfg.win) else none

/-- `_restrict_sequence` (1016-1027): the prefix (possibly empty) and the new state -/
def restrictSequence (cfg : Cfg) (ps : PS) : Re × PS :=
  let v : Re :=
    if cfg.pathname then
      let v := if ps.afterStart && !cfg.dot then Frag.seqPathDot cfg.win else Frag.seqPath cfg.win
      if ps.afterStart then .cat (Frag.noDir cfg.win) v else v
    else
      if ps.afterStart && !cfg.dot then Frag.noDot else .eps
  (v, ps.resetDirTrack)

/-- concatenation that drops an empty prefix, so that the text is unchanged -/
def catE (a b : Re) : Re := if a = .eps then b else .cat a b

/-! ### bracket expressions (`_sequence`, 1069-1169) -/

/-- tokens of Python's `result` list inside `_sequence` -/
inductive CTok
  | opn                          -- `[`
  | caret                        -- `^`
  | dash                         -- bare `-` (range operator)
  | chr (c : Char) (esc : Bool)  -- `c` or `\c`
  | posix (n : PosixName)        -- spliced table text
  | sepBare                      -- `\\/` (bare_sep on Windows, non-path)
  deriving DecidableEq, Repr, Inhabited

/-- `ord(first[1:2] if len(first) > 1 else first)` (1044-1045) -/
def CTok.key (isBytes : Bool) : CTok → Nat
  | .opn => '['.toNat
  | .caret => '^'.toNat
  | .dash => '-'.toNat
  | .chr c _ => c.toNat
  | .posix n => ((posixText isBytes n).getD 1 ' ').toNat
  | .sepBare => '\\'.toNat

/-- `_references(i, sequence=True)` (1171-1209) -/
inductive RefSeq
  | val (t : CTok) (it : It)
  | stop
  | pathname
  | dot (it : It)

def referencesSeq (cfg : Cfg) (it : It) : RefSeq :=
  match it.next with
  | none => .stop
  | some (c, it') =>
    if c = '\\' then
      if cfg.bslashAbort then .pathname
      else if !cfg.unix then .val .sepBare it'
      else .val (.chr '\\' true) it'
    else if c = '/' then
      if cfg.pathname then .pathname
      else if cfg.unix then .val (.chr '/' false) it' else .val .sepBare it'
    else if c = '.' then .dot it
    else .val (.chr c (c ∈ reEscapeSet)) it'

/-- `_sequence_range_check` (1029-1052) on the reversed token stack -/
def seqRangeCheck (isBytes : Bool) (res : List CTok) (last : CTok) : List CTok × Bool :=
  match res with
  | t1 :: first :: rest =>
    if last.key isBytes < first.key isBytes then (rest, true) else (last :: t1 :: first :: rest, false)
  | _ => (last :: res, false)

/-- `_handle_posix` (1054-1067) -/
def handlePosix (it : It) (res : List CTok) (endRange : Nat) : Option (It × List CTok) :=
  match matchPosix it.rest with
  | none => none
  | some (n, len, rest') =>
    let it' : It := ⟨it.idx + len, rest'⟩
    let res :=
      if endRange != 0 && it'.idx - 1 ≥ endRange then
        match res with
        | .dash :: r => .chr '-' true :: r
        | .chr c false :: r => .chr c true :: r
        | r => r
      else res
    some (it', .posix n :: res)

structure SeqSt where
  res : List CTok
  endRange : Nat
  escapeHyphen : Int
  removed : Bool
  lastPosix : Bool
  deriving Inhabited

/-- the `while c != ']'` loop; `none` = StopIteration -/
def seqLoop (cfg : Cfg) : Nat → Char → It → SeqSt → Option (It × SeqSt)
  | 0, _, _, _ => none
  | fuel+1, c, it, st =>
    if c = ']' then some (it, st) else
    if c = '-' then
      let st :=
        if st.lastPosix then { st with res := .chr '-' true :: st.res, lastPosix := false }
        else if (it.idx : Int) - 1 > st.escapeHyphen then
          { st with res := .dash :: st.res, escapeHyphen := it.idx + 1, endRange := it.idx }
        else if st.endRange != 0 && it.idx - 1 ≥ st.endRange then
          let (res, rm) := seqRangeCheck cfg.isBytes st.res (.chr '-' true)
          -- the range is resolved: the very next character cannot be an operator (fix: D29)
          { st with res := res, removed := st.removed || rm, endRange := 0, escapeHyphen := it.idx }
        else { st with res := .chr '-' true :: st.res }
      match it.next with
      | none => none
      | some (c', it') => seqLoop cfg fuel c' it' st
    else
      let st := { st with lastPosix := false }
      let posixTry : Option (It × List CTok) :=
        if c = '[' then handlePosix it st.res st.endRange else none
      match posixTry with
      | some (it', res) =>
        -- a POSIX class cannot end a range: no range is pending anymore (fix: commit D27)
        let st := { st with res := res, lastPosix := true, endRange := 0 }
        match it'.next with
        | none => none
        | some (c', it'') => seqLoop cfg fuel c' it'' st
      | none =>
        let valueE : Option (CTok × It) :=
          if c = '\\' then
            match referencesSeq cfg it with
            | .val t it' => some (t, it')
            | .dot it0 =>
              match it0.next with
              | some (d, it') => some (.chr d (d ∈ reEscapeSet), it')
              | none => none
            | .pathname => none
            | .stop => none
          else if c = '/' then
            if cfg.pathname then none else some (.chr c false, it)
          else if c ∈ setOperators || c = '#' then some (.chr c true, it)
          else some (.chr c false, it)
        match valueE with
        | none => none
        | some (value, it) =>
          let st :=
            if st.endRange != 0 && it.idx - 1 ≥ st.endRange then
              let (res, rm) := seqRangeCheck cfg.isBytes st.res value
              -- `it` is the iterator after the member, however long its spelling was (fix: D29)
              { st with res := res, removed := st.removed || rm, endRange := 0, escapeHyphen := it.idx }
            else { st with res := value :: st.res }
          match it.next with
          | none => none
          | some (c', it') => seqLoop cfg fuel c' it' st

/-- turn the tokens of a finished class body into `ClsItem`s, grouping `x-y` the way
    Python's `re` reads the text -/
def tokAtoms (isBytes : Bool) : List CTok → List (Option ClsItem)   -- `none` = bare dash
  | [] => []
  | .dash :: r => none :: tokAtoms isBytes r
  | .chr c e :: r => some (.chr c e) :: tokAtoms isBytes r
  | .posix n :: r => some (posixItem isBytes n) :: tokAtoms isBytes r
  | .sepBare :: r => some (.chr '\\' true) :: some (.chr '/' false) :: tokAtoms isBytes r
  | .opn :: r => some (.chr '[' false) :: tokAtoms isBytes r
  | .caret :: r => some (.chr '^' false) :: tokAtoms isBytes r

def groupAtoms : Nat → List (Option ClsItem) → List ClsItem
  | 0, _ => []
  | _, [] => []
  | fuel+1, some (.chr lo le) :: none :: some (.chr hi he) :: r => .range lo le hi he :: groupAtoms fuel r
  | fuel+1, some (.chr lo le) :: none :: none :: r => .range lo le '-' false :: groupAtoms fuel r
  | fuel+1, none :: none :: some (.chr hi he) :: r => .range '-' false hi he :: groupAtoms fuel r
  | fuel+1, some x :: r => x :: groupAtoms fuel r
  | fuel+1, none :: r => .chr '-' false :: groupAtoms fuel r

def fullRange (isBytes : Bool) : ClsItem :=
  .range (Char.ofNat 0) false (if isBytes then Char.ofNat 0xff else Char.ofNat 0x10ffff) false

/-- `_sequence` (1069-1169).  `none` = StopIteration (the caller rewinds). -/
def sequence (cfg : Cfg) (ps : PS) (it : It) : Option (Re × PS × It) :=
  match it.next with
  | none => none
  | some (c, it) =>
    -- negate char
    let step1 : Option (Bool × Char × It) :=
      if c = '!' || c = '^' then
        match it.next with
        | none => none
        | some (c', it') => some (true, c', it')
      else some (false, c, it)
    match step1 with
    | none => none
    | some (neg, c, it) =>
      let res0 : List CTok := if neg then [.caret, .opn] else [.opn]
      -- first member
      let step2 : Option (Char × It × List CTok × Bool) :=
        if c = '[' then
          match handlePosix it res0 0 with
          | some (it', res) =>
            match it'.next with
            | none => none
            | some (c', it'') => some (c', it'', res, true)
          | none =>
            match it.next with
            | none => none
            | some (c', it') => some (c', it', .chr '[' true :: res0, false)
        else if c = '-' || c = ']' then
          match it.next with
          | none => none
          | some (c', it') => some (c', it', .chr c true :: res0, false)
        else some (c, it, res0, false)
      match step2 with
      | none => none
      | some (c, it, res, lastPosix) =>
        match seqLoop cfg (it.rest.length + 2) c it ⟨res, 0, -1, false, lastPosix⟩ with
        | none => none
        | some (it, st) =>
          let toks := st.res.reverse   -- opn [caret] members…
          let body := toks.drop (if neg then 2 else 1)
          let cls : Re :=
            if st.removed && body.isEmpty then
              -- `[]` → impossible class, `[^]` → match anything (1152-1162)
              .cls (!neg) [fullRange cfg.isBytes]
            else if st.removed && !neg && body == [.chr '^' false] then
              -- the comparison is on the joined TEXT: a lone literal `^` left over also reads `[^]`
              .cls false [fullRange cfg.isBytes]
            else
              let atoms := tokAtoms cfg.isBytes body
              .cls neg (groupAtoms (atoms.length + 1) atoms)
          if cfg.pathname || ps.afterStart then
            let (pre, ps') := restrictSequence cfg ps
            some (catE pre cls, ps', it)
          else some (cls, ps, it)

/-! ### escapes outside brackets (`_references`, sequence=False) -/

inductive RefOut
  | val (r : Re) (it : It) (ps : PS)
  | stop
  | dot (it : It)

def references (cfg : Cfg) (ps : PS) (it : It) : RefOut :=
  match it.next with
  | none => .stop
  | some (c, it') =>
    let sepVal (ps : PS) : Re × PS :=
      if !ps.inList then (Frag.sepPlus cfg.win, ps.setStartDir)
      else (match restrictExtendedSlash cfg with
            | some g => .cat g (Frag.sep cfg.win)
            | none => Frag.sep cfg.win, ps)
    if c = '\\' then
      if cfg.bslashAbort then
        let (v, ps') := sepVal ps
        .val v it' ps'
      else if !cfg.unix then .val (Frag.sep cfg.win) it' ps
      else .val (.lit '\\') it' ps
    else if c = '/' then
      if cfg.pathname then
        let (v, ps') := sepVal ps
        .val v it' ps'
      else .val (Frag.sep cfg.win) it' ps
    else if c = '.' then .dot it
    else .val (.lit c) it' ps

/-! ### `_handle_dot` (1211-1260) -/

/-- the look-ahead scan; returns `(is_current, is_previous)` -/
def dotScan (cfg : Cfg) (inList : Bool) : Nat → It → Bool → Bool → Bool × Bool
  | 0, _, cur, prev => (cur, prev)
  | fuel+1, it, cur, prev =>
    match it.next with
    | none => (cur, prev)
    | some (c, it') =>
      if c = '.' && cur then dotScan cfg inList fuel it' false true
      else if c = '.' && prev then (cur, false)
      else if (c = '|' || c = ')') && inList then (cur, prev)
      else if c = '\\' then
        match referencesSeq cfg it' with
        | .val _ _ => (false, false)
        | .dot it0 =>
          if cur then
            -- consume the dot that follows the backslash
            match it0.next with
            | some (_, it'') => dotScan cfg inList fuel it'' false true
            | none => (false, true)
          else (cur, false)
        | .pathname => (cur, prev)
        | .stop => (cur, prev)
      else if c = '/' then (cur, prev)
      else (false, false)

def handleDot (cfg : Cfg) (ps : PS) (it : It) : Re :=
  let (cur, prev) :=
    if ps.afterStart && cfg.pathname && cfg.nodotdir then
      dotScan cfg ps.inList (it.rest.length + 1) it true false
    else (true, false)
  if !cur && !prev then Frag.guardedDot cfg.win else .lit '.'

/-! ### `consume_path_sep` (1525-1548) -/

def dropWhileCount (c : Char) : List Char → Nat → Nat × List Char
  | d :: r, n => if d = c then dropWhileCount c r (n + 1) else (n, d :: r)
  | [], n => (n, [])

def consumeUnix (it : It) : It :=
  let (n, r) := dropWhileCount '/' it.rest it.idx
  ⟨n, r⟩

/-- Windows flavour: `count` as in the source; `prev` = iterator before the last char read -/
def consumeWin : Nat → It → It → Int → It
  | 0, it, _, _ => it
  | fuel+1, it, prev, count =>
    match it.next with
    | none => it
    | some (c, it') =>
      if c = '\\' then consumeWin fuel it' it (count + 1)
      else if c = '/' then
        consumeWin fuel it' it (if count % 2 != 0 then count + 1 else count + 2)
      else
        -- `i.rewind(1)` puts `c` back (= `it`); one more if an odd, positive count
        if count > 0 && count % 2 != 0 then prev else it

def consumePathSep (cfg : Cfg) (it : It) : It :=
  if cfg.bslashAbort then consumeWin (it.rest.length + 1) it it 0 else consumeUnix it

/-! ### `clean_up_inverse` (1369-1398) -/

mutual
def Item.eraseCap : Item → Item
  | .group k c body => .group k (if c = .yes then .erased else c) (Item.eraseCapL body)
  | .invOpen _ body => .invOpen false (Item.eraseCapL body)
  | .closed tail eop star => .closed (Item.eraseCapL tail) eop star
  | x => x
def Item.eraseCapL : List Item → List Item
  | [] => []
  | x :: xs => Item.eraseCap x :: Item.eraseCapL xs
end

/-- `rev` is `current` reversed (head = last element).  Returns the new list in forward
    order and the number of placeholders that were closed. -/
def cleanUpGo (cfg : Cfg) (nested : Bool) : List Item → List Item → Nat → List Item × Nat
  | [], done, n => (done, n)
  | .ph star :: rest, done, n =>
    let content := if cfg.capture then Item.eraseCapL done else done
    cleanUpGo cfg nested rest (.closed content (if nested then none else some cfg.eop) star :: done) (n + 1)
  | x :: rest, done, n => cleanUpGo cfg nested rest (x :: done) n

/-- `inv_ext` is decremented once per placeholder closed here (the `fix:` commit for D9;
    before it the counter was zeroed). -/
def cleanUpInverse (cfg : Cfg) (ps : PS) (cur : List Item) (nested : Bool) : List Item × PS :=
  if ps.invExt = 0 then (cur, ps)
  else
    let (fwd, n) := cleanUpGo cfg nested cur [] 0
    (fwd.reverse, { ps with invExt := ps.invExt - n })

/-! ### `_handle_star` (1262-1367) -/

/-- "consume duplicate stars" (1341-1354): skip a run of `*`; but a star directly before `(`
    opens an extended group (`**(a)` is `*` then `*(a)`), so it is left in place. -/
def dropStars (extend : Bool) (it : It) : It :=
  let (n, r) := dropWhileCount '*' it.rest it.idx
  if extend && n > it.idx && r.head? = some '(' then ⟨n - 1, '*' :: r⟩ else ⟨n, r⟩

def Item.isDiv (win : Bool) : Item → Bool
  | .re r => r == Frag.globstarDiv win
  | _ => false
def Item.isEmpty : Item → Bool
  | .empty => true
  | _ => false

/-- `cur` is `current` reversed -/
def handleStar (cfg : Cfg) (ps : PS) (it : It) (cur : List Item) : PS × It × List Item :=
  let win := cfg.win
  let (star, globstar) : Re × Re :=
    if cfg.pathname then
      if ps.afterStart && !cfg.dot then (Frag.pathStarDot2 win, Frag.pathGstarDot2 win)
      else if ps.afterStart then (Frag.pathStarDot1 win, Frag.pathGstarDot1 win)
      else (Frag.pathStar win, Frag.pathGstarDot1 win)
    else
      if ps.afterStart && !cfg.dot then (.cat Frag.noDot Frag.star, .eps)
      else (Frag.star, .eps)
  let capture0 := cfg.pathname && cfg.globstarCapture
  -- (isGlob, capture, iterator, state)
  let (isGlob, capture, it, ps) : Bool × Bool × It × PS :=
    if ps.afterStart && ps.globstar && !ps.inList then
      -- second (and third) star; `prev` = iterator just before the last star read
      let (skip, capture, it, prev) : Bool × Bool × It × It :=
        match it.next with
        | none => (true, capture0, it, it)
        | some (c, it1) =>
          if c != '*' then (true, capture0, it, it)
          else if cfg.globstarlong then
            match it1.next with
            | none => (false, capture0, it1, it)
            | some (c2, it2) => if c2 != '*' then (false, capture0, it1, it) else (false, false, it2, it1)
          else (false, capture0, it1, it)
      if skip then (false, capture, it, ps)
      else
        match it.next with
        | none => (true, capture, it, ps)
        | some (c, it1) =>
          if c = '\\' then
            match referencesSeq cfg it1 with
            | .val _ _ => (false, capture, it, ps)
            | .dot _ => (false, capture, it, ps)
            | .pathname =>
              -- the escape was a separator: both characters are consumed
              (true, capture, it1.advance 1, { ps with matchbase := false })
            | .stop => (true, capture, it1, ps)
          else if c = '/' then (true, capture, it1, { ps with matchbase := false })
          else if c = '(' && cfg.extend then (false, capture, prev, ps)
          else (false, capture, it, ps)
    else (false, capture0, it, ps)
  let globstar := if capture then Re.gcap globstar else globstar
  if !isGlob then
    let (value, it) :=
      if ps.afterStart then (Re.cat cfg.needChar star, dropStars cfg.extend it) else (star, it)
    (ps.resetDirTrack, it, .re value :: cur)
  else
    let ps := ps.resetDirTrack
    match cur with
    | last :: before =>
      if last.isDiv win then (ps.setStartDir, consumePathSep cfg it, cur)
      else
        let cur := if last.isEmpty then .re globstar :: before
                   else .re globstar :: .re (Frag.needSep win) :: before
        let it := consumePathSep cfg it
        (ps.setStartDir, it, .re (Frag.globstarDiv win) :: cur)
    | [] => (ps.setStartDir, it, cur)   -- unreachable: `current` is never empty

/-! ### `parse_extend` (1400-1523) -/

def qmarkItem (cfg : Cfg) (ps : PS) : Item × PS :=
  let (pre, ps') := restrictSequence cfg ps
  (.re (catE pre Frag.qmark), ps')

mutual
/-- Returns `(success, state, iterator, current)`. `cur` is `current` reversed. -/
def parseExtend (cfg : Cfg) : Nat → Char → It → PS → List Item → Bool → Bool × PS × It × List Item
  | 0, _, it, ps, cur, _ => (false, ps, it, cur)
  | fuel+1, listType, it, ps, cur, resetDot =>
    let tDirStart := ps.dirStart
    let tAfterStart := ps.afterStart
    let tInList := ps.inList
    let tInvExt := ps.invExt
    let tInvNest := ps.invNest
    let ps := { ps with inList := true, invNest := listType = '!' }
    let ps := if resetDot then { ps with matchDotDir := false } else ps
    let index := it
    let finish (success : Bool) (ps : PS) (it : It) (cur : List Item) :=
      let ps := if !tInList then { ps with inList := false } else ps
      let ps := if !tInvNest then { ps with invNest := false } else ps
      let ps := if success then ps.resetDirTrack
                else { ps with dirStart := tDirStart, afterStart := tAfterStart }
      (success, ps, it, cur)
    let fail (ps : PS) := finish false { ps with invExt := tInvExt } index cur
    match it.next with
    | none => fail ps
    | some (c, it) =>
      if c != '(' then fail ps else
      match extLoop cfg fuel it ps [] tAfterStart tInvNest with
      | .error ps' => fail ps'
      | .ok (ps, it, extended) =>
        let body := extended.reverse
        let (cur, ps) : List Item × PS :=
          if listType = '?' then (.group .q (if cfg.capture then .yes else .no) body :: cur, ps)
          else if listType = '*' then (.group .s (if cfg.capture then .yes else .no) body :: cur, ps)
          else if listType = '+' then (.group .p (if cfg.capture then .yes else .no) body :: cur, ps)
          else if listType = '@' then (.group .a (if cfg.capture then .yes else .no) body :: cur, ps)
          else
            let ps := { ps with invExt := ps.invExt + 1 }
            let star : Re :=
              if cfg.pathname then
                if !tAfterStart || ps.matchDotDir then Frag.pathStar cfg.win
                else if tAfterStart && !cfg.dot then Frag.pathStarDot2 cfg.win
                else Frag.pathStarDot1 cfg.win
              else
                if !tAfterStart || cfg.dot then Frag.star else .cat Frag.noDot Frag.star
            let star := if tAfterStart then Re.cat cfg.needChar star else star
            (.ph star :: .invOpen cfg.capture body :: cur, ps)
        let (cur, ps) :=
          if tInList then cleanUpInverse cfg ps cur (tInvNest && ps.invNest) else (cur, ps)
        finish true ps it cur

/-- the `while c != ')'` loop; `none` = StopIteration.  `ext` is `extended` reversed. -/
def extLoop (cfg : Cfg) : Nat → It → PS → List Item → Bool → Bool → Except PS (PS × It × List Item)
  | 0, _, ps, _, _, _ => .error ps
  | fuel+1, it, ps, ext, tAfterStart, tInvNest =>
    match it.next with
    | none => .error ps
    | some (c, it) =>
      let continue_ (ps : PS) (it : It) (ext : List Item) (upd : Bool) :=
        let ps := if upd then ps.updateDirState else ps
        if c = ')' then .ok (ps, it, ext)
        else extLoop cfg fuel it ps ext tAfterStart tInvNest
      let extRes : Option (Bool × PS × It × List Item) :=
        if cfg.extend && c ∈ extTypes then some (parseExtend cfg fuel c it ps ext false) else none
      match extRes with
      | some (true, ps', it', ext') => continue_ ps' it' ext' true
      | other =>
        -- a failed nested attempt still leaves `match_dot_dir`/`inv_nest` side effects
        let ps := match other with
          | some (_, ps', _, _) => ps'
          | none => ps
        if c = '*' then
          let (ps, it, ext) := handleStar cfg ps it ext
          continue_ ps it ext true
        else if c = '.' then
          let d := handleDot cfg ps it
          let ps := if ps.afterStart then
                      { ps with matchDotDir := cfg.dot && !cfg.nodotdir }.resetDirTrack
                    else ps
          continue_ ps it (.re d :: ext) true
        else if c = '?' then
          let (q, ps) := qmarkItem cfg ps
          continue_ ps it (q :: ext) true
        else if c = '/' then
          let ext := match restrictExtendedSlash cfg with
                     | some g => .re g :: ext
                     | none => ext
          continue_ ps it (.re (Frag.sep cfg.win) :: ext) true
        else if c = '|' then
          let (ext, ps) := if ps.invNest then cleanUpInverse cfg ps ext tInvNest else (ext, ps)
          let ps := if tAfterStart then ps.setStartDir else ps
          continue_ ps it (.bar :: ext) true
        else if c = '\\' then
          match references cfg ps it with
          | .val v it' ps' => continue_ ps' it' (.re v :: ext) true
          | .dot it' => continue_ ps it' ext false
          | .stop => continue_ ps it ext true
        else if c = '[' then
          match sequence cfg ps it with
          | some (r, ps', it') => continue_ ps' it' (.re r :: ext) true
          | none => continue_ ps it (.re (.lit '[') :: ext) true
        else if c != ')' then continue_ ps it (.re (.lit c) :: ext) true
        else continue_ ps it ext true
end

/-! ### Windows drives (`_get_win_drive`, 345-393) are in `Model/WinDrive.lean`; the parser
    takes the result as a parameter so that this file stays self-contained. -/

structure DriveInfo where
  rootSpecified : Bool
  drive : Option (List Item)   -- regex items for the drive (`regex=True` form)
  slash : Bool
  endIdx : Nat
  deriving Repr, Inhabited

inductive ParseErr
  | noAbsolute        -- ValueError('The pattern must be a relative path pattern')
  deriving DecidableEq, Repr, Inhabited

/-- the `for c in i:` loop of `root` (1581-1626). `cur` is `current` reversed. -/
def rootLoop (cfg : Cfg) : Nat → It → PS → List Item → PS × List Item
  | 0, _, ps, cur => (ps, cur)
  | fuel+1, it, ps, cur =>
    match it.next with
    | none => (ps, cur)
    | some (c, it) =>
      let extRes : Option (Bool × PS × It × List Item) :=
        if cfg.extend && c ∈ extTypes then
          some (parseExtend cfg (2 * it.rest.length + 8) c it ps cur true) else none
      match extRes with
      | some (true, ps', it', cur') => rootLoop cfg fuel it' ps'.updateDirState cur'
      | other =>
        let ps := match other with
          | some (_, ps', _, _) => ps'
          | none => ps
        if c = '.' then
          rootLoop cfg fuel it ps.updateDirState (.re (handleDot cfg ps it) :: cur)
        else if c = '*' then
          let (ps, it, cur) := handleStar cfg ps it cur
          rootLoop cfg fuel it ps.updateDirState cur
        else if c = '?' then
          let (q, ps) := qmarkItem cfg ps
          rootLoop cfg fuel it ps.updateDirState (q :: cur)
        else if c = '/' then
          if cfg.pathname then
            let ps := ps.setStartDir
            let (cur, ps) := cleanUpInverse cfg ps cur false
            let it := consumePathSep cfg it
            let ps := { ps with matchbase := false }
            rootLoop cfg fuel it ps.updateDirState (.re (Frag.sepPlus cfg.win) :: cur)
          else
            rootLoop cfg fuel it ps.updateDirState (.re (Frag.sep cfg.win) :: cur)
        else if c = '\\' then
          match references cfg ps it with
          | .val v it' ps' =>
            if ps'.dirStart then
              let (cur, ps') := cleanUpInverse cfg ps' cur false
              let it' := consumePathSep cfg it'
              let ps' := { ps' with matchbase := false }
              rootLoop cfg fuel it' ps'.updateDirState (.re v :: cur)
            else
              rootLoop cfg fuel it' ps'.updateDirState (.re v :: cur)
          | .dot it' => rootLoop cfg fuel it' ps cur
          | .stop => rootLoop cfg fuel it ps.updateDirState cur
        else if c = '[' then
          match sequence cfg ps it with
          | some (r, ps', it') => rootLoop cfg fuel it' ps'.updateDirState (.re r :: cur)
          | none => rootLoop cfg fuel it ps.updateDirState (.re (.lit '[') :: cur)
        else
          rootLoop cfg fuel it ps.updateDirState (.re (.lit c) :: cur)

/-- `root` (1550-1631). `cur` is `current` reversed. -/
def root (cfg : Cfg) (drive : List Char → DriveInfo) (pattern : List Char) (ps : PS)
    (cur : List Item) : Except ParseErr (PS × List Item) :=
  let ps := ps.setAfterStart
  let it : It := ⟨0, pattern⟩
  let (rootSpecified, it, cur) : Bool × It × List Item :=
    if cfg.winDriveDetect then
      let d := drive pattern
      match d.drive with
      | some items =>
        let cur := items.reverse ++ cur
        let cur := if d.slash then .re (Frag.sepPlus cfg.win) :: cur else cur
        (d.rootSpecified, consumePathSep cfg (it.advance d.endIdx), cur)
      | none => (d.rootSpecified, it, cur)
    else if cfg.pathname && pattern.head? = some '/' then (true, it, cur)
    else (false, it, cur)
  if cfg.noAbs && rootSpecified then .error .noAbsolute else
  let ps := if rootSpecified then { ps with matchbase := false, extmatchbase := false } else ps
  let cur := if !rootSpecified && cfg.realpath then
               .empty :: .re (if cfg.winDriveDetect then Frag.noWinRoot else Frag.noRoot) :: cur
             else cur
  let (ps, cur) := rootLoop cfg (it.rest.length + 1) it ps cur
  let (cur, ps) := cleanUpInverse cfg ps cur false
  let cur := if cfg.pathname then .re (Frag.pathTrail cfg.win) :: cur else cur
  .ok (ps, cur)

/-- strip leading separators (`RE_ANCHOR` / `RE_WIN_ANCHOR`); returns the rest and whether
    anything was removed -/
def stripAnchor (win : Bool) : List Char → List Char × Bool
  | '/' :: r => ((stripAnchor win r).1, true)
  | '\\' :: '\\' :: r => if win then ((stripAnchor win r).1, true) else ('\\' :: '\\' :: r, false)
  | s => (s, false)

structure Parsed where
  items : List Item      -- forward order
  ci : Bool              -- `(?si:` vs `(?s:`
  deriving Repr, Inhabited

/-- the implicit `**` / `***` prefix of MATCHBASE / `_EXTMATCHBASE` (1645-1652) -/
def parsePrepend (cfg : Cfg) (drive : List Char → DriveInfo) (ps : PS) : Except ParseErr (PS × List Item) :=
  if ps.matchbase || ps.extmatchbase then
    if cfg.globstarlong && cfg.follow then
      root cfg drive ['*', '*', '*'] ps [.empty]
    else
      match root cfg drive ['*', '*'] { ps with globstar := true } [.empty] with
      | .ok (ps', pre) => .ok ({ ps' with globstar := ps.globstar }, pre)
      | .error e => .error e
  else .ok (ps, [Item.empty])

/-- the `_ANCHOR` step of `_parse` (1639-1643) -/
def anchorStep (cfg : Cfg) (p : List Char) (ps : PS) : List Char × PS :=
  if cfg.anchor then
    let r := stripAnchor cfg.winDriveDetect p
    (r.1, if r.2 then { ps with matchbase := false, extmatchbase := false } else ps)
  else (p, ps)

/-- the body of `_parse` after the prefix has been produced (1654-1665) -/
def parseBody (cfg : Cfg) (drive : List Char → DriveInfo) (p : List Char) (ps : PS)
    (prepend : List Item) : Except ParseErr Parsed :=
  let p := if p = ['\\'] then [] else p
  match (if p.isEmpty then .ok (ps, [Item.empty]) else root cfg drive p ps [.empty]) with
  | .error e => .error e
  | .ok (ps, result) =>
    let result := if !p.isEmpty && (ps.matchbase || ps.extmatchbase) then result ++ prepend else result
    .ok { items := result.reverse, ci := !cfg.caseSensitive }

/-- `_parse` (1633-1671) -/
def parseItems (cfg : Cfg) (drive : List Char → DriveInfo) (p : List Char) : Except ParseErr Parsed :=
  let ps : PS := { matchbase := cfg.matchbase0, extmatchbase := cfg.extmatchbase0, globstar := cfg.globstar0 }
  let a := anchorStep cfg p ps
  match parsePrepend cfg drive a.2 with
  | .error e => .error e
  | .ok (ps, prepend) => parseBody cfg drive a.1 ps prepend

/-! ### printing items (what `''.join(result)` gives) -/

mutual
def Item.render : Item → List Char
  | .re r => r.render
  | .empty => []
  | .bar => ['|']
  | .group k cap body =>
    let inner := Item.renderL body
    let q := match k with
      | .q => "(?:".toList ++ inner ++ ")?".toList
      | .s => "(?:".toList ++ inner ++ ")*".toList
      | .p => "(?:".toList ++ inner ++ ")+".toList
      | .a => if cap = .no then "(?:".toList ++ inner ++ [')'] else inner
    match cap with
    | .no => q
    | .yes => ['('] ++ q ++ [')']
    | .erased => "(?:".toList ++ q ++ [')']
  | .invOpen cap body =>
    (if cap then "((?!(?:" else "(?:(?!(?:").toList ++ Item.renderL body ++ [')']
  | .ph star => star.render
  | .closed tail eop star =>
    Item.renderL tail ++ (match eop with | some e => e.render | none => []) ++ [')'] ++
      star.render ++ [')']
def Item.renderL : List Item → List Char
  | [] => []
  | x :: xs => Item.render x ++ Item.renderL xs
end

def Parsed.render (p : Parsed) : List Char :=
  "^(?s".toList ++ (if p.ci then ['i'] else []) ++ [':'] ++ Item.renderL p.items ++ ")$".toList

end WcModel

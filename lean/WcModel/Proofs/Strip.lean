import WcModel.Model.Strip
import WcModel.Proofs.Regex
namespace WcModel

theorem ClsItem.canon_has (it : ClsItem) (d : Char) : it.canon.has d = it.has d := by
  cases it <;> rfl

theorem clsMatch_canon (ci neg : Bool) (items : List ClsItem) (d : Char) :
    clsMatch ci neg (items.map ClsItem.canon) d = clsMatch ci neg items d := by
  simp only [clsMatch, List.any_map]
  congr 1
  induction items with
  | nil => rfl
  | cons it rest ih =>
    have h1 : (it.canon).hasCi ci d = it.hasCi ci d := by
      simp only [ClsItem.hasCi, ClsItem.canon_has]
    simp only [List.any_cons, Function.comp, h1]
    rw [← ih]

theorem Re.M_strip (r : Re) : ∀ md a b, Re.M md r.strip a b ↔ Re.M md r a b := by
  induction r with
  | cat r₁ r₂ ih₁ ih₂ => intro md a b; simp only [Re.strip, Re.M, ih₁, ih₂]
  | alt r₁ r₂ ih₁ ih₂ => intro md a b; simp only [Re.strip, Re.M, ih₁, ih₂]
  | grp r ih => intro md a b; simp only [Re.strip, Re.M, ih]
  | cap r ih => intro md a b; simp only [Re.strip, Re.M, ih]
  | gcap r ih => intro md a b; simp only [Re.strip, Re.M, ih]
  | opt r ih => intro md a b; simp only [Re.strip, Re.M, ih]
  | star l r ih =>
    intro md a b; simp only [Re.strip, Re.M]
    have : Re.M md r.strip = Re.M md r := by funext x y; exact propext (ih md x y)
    rw [this]
  | plus r ih =>
    intro md a b; simp only [Re.strip, Re.M]
    have : Re.M md r.strip = Re.M md r := by funext x y; exact propext (ih md x y)
    rw [this]
  | rep lo hi r ih =>
    intro md a b; simp only [Re.strip, Re.M]
    have : Re.M md r.strip = Re.M md r := by funext x y; exact propext (ih md x y)
    rw [this]
  | look neg r ih =>
    intro md a b
    cases neg <;> simp only [Re.strip, Re.M, ih]
  | flags s i r ih => intro md a b; simp only [Re.strip, Re.M, ih]
  | eps => intro md a b; simp only [Re.strip]
  | lit c => intro md a b; simp only [Re.strip]
  | any => intro md a b; simp only [Re.strip]
  | cls n i =>
    intro md a b
    simp only [Re.strip, Re.M]
    have : clsMatch md.ci n (i.map ClsItem.canon) = clsMatch md.ci n i := funext (clsMatch_canon md.ci n i)
    rw [this]
  | bos => intro md a b; simp only [Re.strip]
  | eos => intro md a b; simp only [Re.strip]

/-- the certificate: equal `strip` ⇒ same full matches for every subject -/
theorem Re.fullMatch_of_strip_eq {r₁ r₂ : Re} (h : r₁.strip = r₂.strip) (s : List Char) :
    r₁.FullMatch s ↔ r₂.FullMatch s := by
  unfold Re.FullMatch
  constructor
  · rintro ⟨b, hm⟩
    exact ⟨b, (Re.M_strip r₂ _ _ _).mp (h ▸ (Re.M_strip r₁ _ _ _).mpr hm)⟩
  · rintro ⟨b, hm⟩
    exact ⟨b, (Re.M_strip r₁ _ _ _).mp (h ▸ (Re.M_strip r₂ _ _ _).mpr hm)⟩

theorem Re.prefixMatch_of_strip_eq {r₁ r₂ : Re} (h : r₁.strip = r₂.strip) (s : List Char) :
    r₁.PrefixMatch s ↔ r₂.PrefixMatch s := by
  unfold Re.PrefixMatch
  constructor
  · rintro ⟨b, hm⟩
    exact ⟨b, (Re.M_strip r₂ _ _ _).mp (h ▸ (Re.M_strip r₁ _ _ _).mpr hm)⟩
  · rintro ⟨b, hm⟩
    exact ⟨b, (Re.M_strip r₁ _ _ _).mp (h ▸ (Re.M_strip r₂ _ _ _).mpr hm)⟩

end WcModel

import WcModel.Proofs.GlobTop
import WcModel.Proofs.GlobFormat
/-
  C12_exists: every denoted path exists, its display string resolves (string level, from
  scratch, as the OS does) to the location the walker carried along, and its `is_dir` flag is
  what the file system says.  This is where the location-carrying model is connected with the
  string-level resolver of `Model/FS.lean`: path resolution is compositional.
-/
namespace WcModel

/-- well-formed directory contents: distinct names, none empty, `.`, `..` or containing `/` -/
structure FS.WFTree (fs : FS) : Prop where
  nodup : ∀ rp es, fs.top.get rp = some (.dir es) → (es.map Prod.fst).Nodup
  names : ∀ rp es, fs.top.get rp = some (.dir es) → ∀ e ∈ es,
    e.1 ≠ [] ∧ e.1 ≠ dot ∧ e.1 ≠ dotdot ∧ ∀ c ∈ e.1, c ≠ '/'

theorem findEntry_of_nodup {n : Name} {x : Node} {es : List (Name × Node)} (hm : (n, x) ∈ es)
    (hn : (es.map Prod.fst).Nodup) : findEntry n es = some x := by
  induction es with
  | nil => cases hm
  | cons e r ih =>
    obtain ⟨m, c⟩ := e
    simp only [List.map_cons, List.nodup_cons] at hn
    unfold findEntry
    rcases List.mem_cons.1 hm with heq | hm'
    · cases heq; simp
    · have : m ≠ n := by
        intro h; subst h
        exact hn.1 (List.mem_map.2 ⟨(m, x), hm', rfl⟩)
      simp only [this, if_false]
      exact ih hm' hn.2

theorem splitSlash_ne_nil (s : List Char) : splitSlash s ≠ [] := by
  induction s with
  | nil => simp [splitSlash]
  | cons c r ih =>
    unfold splitSlash
    split
    · simp
    · split
      · simp
      · simp

theorem splitSlash_append_slash (a b : List Char) : splitSlash (a ++ '/' :: b) = splitSlash a ++ splitSlash b := by
  induction a with
  | nil => simp [splitSlash]
  | cons c r ih =>
    simp only [List.cons_append, splitSlash]
    by_cases hc : c = '/'
    · simp [hc, ih]
    · simp only [hc, if_false, ih]
      cases hs : splitSlash r with
      | nil => exact absurd hs (splitSlash_ne_nil r)
      | cons x xs => simp

theorem steps_append (fs : FS) (l : Loc) (xs ys : List Name) :
    fs.steps l (xs ++ ys) = fs.steps (fs.steps l xs) ys := by
  induction xs generalizing l with
  | nil => rfl
  | cons x r ih => simp [FS.steps, ih]

theorem step_none (fs : FS) (c : Name) : fs.step none c = none := rfl

theorem step_empty (fs : FS) (rp : RPath) :
    fs.step (some rp) [] = if (fs.entries (some rp)).isSome then some rp else none := by
  unfold FS.step
  cases he : fs.entries (some rp) <;> simp [he]

theorem step_of_not_dir (fs : FS) (rp : RPath) (n : Name) (h : fs.entries (some rp) = none) :
    fs.step (some rp) n = none := by
  unfold FS.step; simp [h]

theorem lstep_of_not_dir (fs : FS) (l : Loc) (n : Name) (h : fs.entries l = none) : fs.lstep l n = false := by
  unfold FS.lstep; simp [h]

theorem linkstep_of_not_dir (fs : FS) (l : Loc) (n : Name) (h : fs.entries l = none) : fs.linkstep l n = false := by
  unfold FS.linkstep; simp [h]

theorem step_empty_then (fs : FS) (l : Loc) (n : Name) : fs.step (fs.step l []) n = fs.step l n := by
  cases l with
  | none => rfl
  | some rp =>
    rw [step_empty]
    cases he : fs.entries (some rp) with
    | none => rw [step_of_not_dir fs rp n he]; simp [step_none]
    | some es => simp

theorem lstep_empty_then (fs : FS) (l : Loc) (n : Name) : fs.lstep (fs.step l []) n = fs.lstep l n := by
  cases l with
  | none => rfl
  | some rp =>
    rw [step_empty]
    cases he : fs.entries (some rp) with
    | none => simp [lstep_of_not_dir fs (some rp) n he]; rfl
    | some es => simp

theorem linkstep_empty_then (fs : FS) (l : Loc) (n : Name) : fs.linkstep (fs.step l []) n = fs.linkstep l n := by
  cases l with
  | none => rfl
  | some rp =>
    rw [step_empty]
    cases he : fs.entries (some rp) with
    | none => simp [linkstep_of_not_dir fs (some rp) n he]; rfl
    | some es => simp

theorem base_append {fs : FS} (a b : List Char) (ha : a ≠ []) : fs.base (a ++ b) = fs.base a := by
  cases a with
  | nil => exact absurd rfl ha
  | cons c r => unfold FS.base; simp only [List.cons_append]; split <;> split <;> simp_all

theorem exists_init_of_getLast {a : List Char} (h : a.getLast? = some '/') : ∃ a', a = a' ++ ['/'] := by
  cases hp : a.reverse with
  | nil => simp [List.reverse_eq_nil_iff.1 hp] at h
  | cons c r =>
    have ha : a = r.reverse ++ [c] := by
      have := congrArg List.reverse hp; simpa using this
    rw [ha] at h
    simp at h
    exact ⟨r.reverse, by rw [ha, h]⟩

/-- the components of `os.path.join(a, n)` for a plain name `n`, up to empty components -/
theorem resolve_pjoin (fs : FS) (a : List Char) (n : Name) (hs : ∀ c ∈ n, c ≠ '/') (hne : n ≠ []) :
    fs.resolve (pjoin a n) = fs.step (fs.resolve a) n ∧
    fs.lexists (pjoin a n) = fs.lstep (fs.resolve a) n ∧
    fs.islink (pjoin a n) = fs.linkstep (fs.resolve a) n := by
  have hhead : n.head? ≠ some '/' := by
    cases n with
    | nil => exact absurd rfl hne
    | cons c r => simpa using hs c List.mem_cons_self
  have hsn := splitSlash_noslash n hs
  have hpj : pjoin a n = if a = [] ∨ a.getLast? = some '/' then a ++ n else a ++ '/' :: n := by
    unfold pjoin
    cases n with
    | nil => exact absurd rfl hne
    | cons c r =>
      have : c ≠ '/' := by simpa using hhead
      split
      · rename_i heq; cases heq; exact absurd rfl this
      · rfl
  by_cases ha : a = []
  · subst ha
    have : pjoin [] n = n := by rw [hpj]; simp
    rw [this]
    have hb : fs.base n = some fs.cwd := base_rel hhead
    have hr0 : fs.resolve [] = fs.step (some fs.cwd) [] := by simp [FS.resolve, FS.base, splitSlash, FS.steps]
    rw [hr0]
    have e1 : fs.resolve n = fs.step (some fs.cwd) n := by simp [FS.resolve, hsn, hb, FS.steps]
    have e2 : fs.lexists n = fs.lstep (some fs.cwd) n := by simp [FS.lexists, hsn, hb, FS.steps]
    have e3 : fs.islink n = fs.linkstep (some fs.cwd) n := by simp [FS.islink, hsn, hb, FS.steps]
    rw [e1, e2, e3]
    exact ⟨(step_empty_then fs _ n).symm, (lstep_empty_then fs _ n).symm, (linkstep_empty_then fs _ n).symm⟩
  · by_cases hl : a.getLast? = some '/'
    · obtain ⟨a', rfl⟩ := exists_init_of_getLast hl
      have : pjoin (a' ++ ['/']) n = a' ++ '/' :: n := by rw [hpj]; simp [hl]
      rw [this]
      have hb : fs.base (a' ++ '/' :: n) = fs.base (a' ++ ['/']) := by
        cases a' with
        | nil => rfl
        | cons c r => unfold FS.base; simp only [List.cons_append]; split <;> split <;> simp_all
      have hsa : splitSlash (a' ++ ['/']) = splitSlash a' ++ [[]] := by
        rw [splitSlash_append_slash]; simp [splitSlash]
      have hsb : splitSlash (a' ++ '/' :: n) = splitSlash a' ++ [n] := by
        rw [splitSlash_append_slash, hsn]
      have r1 : fs.resolve (a' ++ ['/']) = fs.step (fs.steps (fs.base (a' ++ ['/'])) (splitSlash a')) [] := by
        simp [FS.resolve, hsa, steps_append, FS.steps]
      have e1 : fs.resolve (a' ++ '/' :: n) = fs.step (fs.steps (fs.base (a' ++ ['/'])) (splitSlash a')) n := by
        simp [FS.resolve, hb, hsb, steps_append, FS.steps]
      have e2 : fs.lexists (a' ++ '/' :: n) = fs.lstep (fs.steps (fs.base (a' ++ ['/'])) (splitSlash a')) n := by
        simp [FS.lexists, hb, hsb]
      have e3 : fs.islink (a' ++ '/' :: n) = fs.linkstep (fs.steps (fs.base (a' ++ ['/'])) (splitSlash a')) n := by
        simp [FS.islink, hb, hsb]
      rw [r1, e1, e2, e3]
      exact ⟨(step_empty_then fs _ n).symm, (lstep_empty_then fs _ n).symm, (linkstep_empty_then fs _ n).symm⟩
    · have : pjoin a n = a ++ '/' :: n := by rw [hpj]; simp [ha, hl]
      rw [this]
      have hb : fs.base (a ++ '/' :: n) = fs.base a := base_append a _ ha
      have hsb : splitSlash (a ++ '/' :: n) = splitSlash a ++ [n] := by
        rw [splitSlash_append_slash, hsn]
      refine ⟨?_, ?_, ?_⟩
      · simp [FS.resolve, hb, hsb, steps_append, FS.steps]
      · simp [FS.lexists, FS.resolve, hb, hsb]
      · simp [FS.islink, FS.resolve, hb, hsb]

/-- `os.path.join(a, '')` of a path that resolves to a directory: same place, and it exists -/
theorem resolve_pjoin_empty (fs : FS) (a : List Char) (hd : fs.locIsDir (fs.resolve a) = true) :
    fs.resolve (pjoin a []) = fs.resolve a ∧ fs.lexists (pjoin a []) = true := by
  have hpj : pjoin a [] = if a = [] ∨ a.getLast? = some '/' then a else a ++ ['/'] := by
    unfold pjoin; simp
  have dirEntries : ∀ l : Loc, fs.locIsDir l = true → ∃ es, fs.entries l = some es := by
    intro l h
    unfold FS.locIsDir at h
    cases he : fs.entries l with
    | none => simp [he] at h
    | some es => exact ⟨es, rfl⟩
  by_cases ha : a = []
  · subst ha
    have : pjoin [] [] = ([] : List Char) := by rw [hpj]; simp
    rw [this]
    refine ⟨rfl, ?_⟩
    have hr0 : fs.resolve [] = fs.step (some fs.cwd) [] := by simp [FS.resolve, FS.base, splitSlash, FS.steps]
    rw [hr0, step_empty] at hd
    cases he : fs.entries (some fs.cwd) with
    | none => rw [he] at hd; simp [FS.locIsDir, FS.entries] at hd
    | some es => simp [FS.lexists, splitSlash, FS.base, FS.steps, FS.lstep, he]
  · by_cases hl : a.getLast? = some '/'
    · have : pjoin a [] = a := by rw [hpj]; simp [hl]
      rw [this]
      refine ⟨rfl, ?_⟩
      obtain ⟨a', rfl⟩ := exists_init_of_getLast hl
      have hsa : splitSlash (a' ++ ['/']) = splitSlash a' ++ [[]] := by
        rw [splitSlash_append_slash]; simp [splitSlash]
      have r1 : fs.resolve (a' ++ ['/']) = fs.step (fs.steps (fs.base (a' ++ ['/'])) (splitSlash a')) [] := by
        simp [FS.resolve, hsa, steps_append, FS.steps]
      have e2 : fs.lexists (a' ++ ['/']) = fs.lstep (fs.steps (fs.base (a' ++ ['/'])) (splitSlash a')) [] := by
        simp [FS.lexists, hsa]
      rw [e2]
      rw [r1] at hd
      generalize fs.steps (fs.base (a' ++ ['/'])) (splitSlash a') = X at hd ⊢
      cases X with
      | none => simp [FS.step, FS.locIsDir, FS.entries] at hd
      | some rp =>
        rw [step_empty] at hd
        cases he : fs.entries (some rp) with
        | none => rw [he] at hd; simp [FS.locIsDir, FS.entries] at hd
        | some es => simp [FS.lstep, he]
    · have : pjoin a [] = a ++ ['/'] := by rw [hpj]; simp [ha, hl]
      rw [this]
      have hb : fs.base (a ++ ['/']) = fs.base a := base_append a _ ha
      have hsb : splitSlash (a ++ ['/']) = splitSlash a ++ [[]] := by
        rw [splitSlash_append_slash]; simp [splitSlash]
      have e1 : fs.resolve (a ++ ['/']) = fs.step (fs.resolve a) [] := by
        simp [FS.resolve, hb, hsb, steps_append, FS.steps]
      have e2 : fs.lexists (a ++ ['/']) = fs.lstep (fs.resolve a) [] := by
        simp [FS.lexists, FS.resolve, hb, hsb]
      rw [e1, e2]
      obtain ⟨es, hes⟩ := dirEntries _ hd
      cases hr : fs.resolve a with
      | none => rw [hr] at hes; simp [FS.entries] at hes
      | some rp =>
        rw [hr] at hes
        refine ⟨?_, ?_⟩
        · rw [step_empty]; simp [hes]
        · simp [FS.lstep, hes]

/-- the display path resolves to the carried location, exists, its `is_dir` flag is the file
    system's, and it ends with a separator only if it is a directory -/
structure Y.Good (fs : FS) (v : Y) : Prop where
  resolves : fs.resolve v.path = v.loc
  exists_ : fs.lexists v.path = true
  isDir : v.isDir = fs.locIsDir v.loc
  sepDir : endsWithSep v.path = true → v.isDir = true

def Dir.Rel (fs : FS) (d : Dir) : Prop := fs.resolve d.path = d.loc ∧ fs.locIsDir d.loc = true

theorem name_noSep {n : Name} (hne : n ≠ []) (hs : ∀ c ∈ n, c ≠ '/') (a : List Char) :
    endsWithSep (pjoin a n) = false := by
  have hh : n.head? ≠ some '/' := by
    cases n with
    | nil => exact absurd rfl hne
    | cons c r => simpa using hs c List.mem_cons_self
  unfold endsWithSep
  rw [pjoin_getLast a n hne hh]
  cases hl : n.getLast? with
  | none => simp
  | some c =>
    have : c ∈ n := List.mem_of_getLast? hl
    have := hs c this
    simp [this]

/-- an entry of a directory we stand in: it is where the walker says it is -/
theorem entry_good {fs : FS} (hwf : fs.WFTree) {d : Dir} (hr : Dir.Rel fs d) {o : Offer} (ho : o ∈ entriesOf fs d) :
    Y.Good fs (o.toY d) ∧ (o.name ≠ [] ∧ ∀ c ∈ o.name, c ≠ '/') := by
  unfold entriesOf at ho
  cases hsc : fs.scandir d.loc with
  | none => simp [hsc] at ho
  | some ds =>
    simp only [hsc, List.mem_map] at ho
    obtain ⟨x, hx, rfl⟩ := ho
    obtain ⟨rp, es, hl, hg, hds⟩ := FS.scandir_some hsc
    subst hds
    obtain ⟨⟨n, nd⟩, hmem, rfl⟩ := List.mem_map.1 hx
    obtain ⟨hn1, hn2, hn3, hn4⟩ := hwf.names rp es hg (n, nd) hmem
    have hfind := findEntry_of_nodup hmem (hwf.nodup rp es hg)
    have hent : fs.entries (some rp) = some es := by simp [FS.entries, hg]
    have hstep : fs.step (some rp) n = childLoc rp n nd := by
      simp only at hn1 hn2 hn3
      simp [FS.step, hent, hn1, hn2, hn3, hfind]
    have hlstep : fs.lstep (some rp) n = true := by
      simp [FS.lstep, hent, hfind]
    obtain ⟨e1, e2, _⟩ := resolve_pjoin fs d.path n hn4 hn1
    refine ⟨⟨?_, ?_, ?_, ?_⟩, hn1, hn4⟩
    · simp only [Offer.toY]; rw [e1, hr.1, hl, hstep]
    · simp only [Offer.toY]; rw [e2, hr.1, hl, hlstep]
    · simp [Offer.toY, FS.nodeIsDir]
    · intro h; simp only [Offer.toY] at h; rw [name_noSep hn1 hn4] at h; cases h

/-- anything a directory offers (its entries, `.`, `..`) is where the walker says it is -/
theorem offer_good {fs : FS} (hwf : fs.WFTree) {d : Dir} (hr : Dir.Rel fs d) {o : Offer} (ho : o ∈ offered fs d) :
    Y.Good fs (o.toY d) := by
  unfold offered at ho
  simp only [hr.2, if_true, List.cons_append, List.nil_append, List.mem_cons] at ho
  obtain ⟨rp, hrp⟩ : ∃ rp, d.loc = some rp := by
    cases h : d.loc with
    | none => have := hr.2; simp [h, FS.locIsDir, FS.entries] at this
    | some rp => exact ⟨rp, rfl⟩
  have hdir : fs.locIsDir (some rp) = true := hrp ▸ hr.2
  have lstepTrue : ∀ n, (n = dot ∨ n = dotdot) → fs.lstep (some rp) n = true := by
    intro n hn
    unfold FS.locIsDir at hdir
    cases he : fs.entries (some rp) with
    | none => simp [he] at hdir
    | some es => rcases hn with rfl | rfl <;> simp [FS.lstep, he]
  rcases ho with rfl | rfl | ho
  · obtain ⟨e1, e2, _⟩ := resolve_pjoin fs d.path dot noslash_dot (by decide)
    refine ⟨?_, ?_, ?_, ?_⟩
    · simp only [Offer.toY]; rw [e1, hr.1]
    · simp only [Offer.toY]; rw [e2, hr.1, hrp]; exact lstepTrue dot (Or.inl rfl)
    · simp only [Offer.toY]; rw [hrp, step_dot hdir]; exact hdir.symm
    · intro _; rfl
  · obtain ⟨e1, e2, _⟩ := resolve_pjoin fs d.path dotdot noslash_dotdot (by decide)
    refine ⟨?_, ?_, ?_, ?_⟩
    · simp only [Offer.toY]; rw [e1, hr.1]
    · simp only [Offer.toY]; rw [e2, hr.1, hrp]; exact lstepTrue dotdot (Or.inr rfl)
    · simp only [Offer.toY]; rw [hrp, step_dotdot hdir]; exact (dropLast_isDir hdir).symm
    · intro _; rfl
  · exact (entry_good hwf hr ho).1

theorem offer_rel {fs : FS} (hwf : fs.WFTree) {d : Dir} (hr : Dir.Rel fs d) {o : Offer} (ho : o ∈ offered fs d)
    (hd : o.isDir = true) : Dir.Rel fs ⟨pjoin d.path o.name, o.loc⟩ := by
  have g := offer_good hwf hr ho
  exact ⟨g.resolves, by have := g.isDir; simp only [Offer.toY] at this; rw [← this]; exact hd⟩

theorem entriesOf_sub_offered {fs : FS} {d : Dir} {o : Offer} (ho : o ∈ entriesOf fs d) : o ∈ offered fs d := by
  have hdir : fs.locIsDir d.loc = true := by
    unfold entriesOf at ho
    cases hsc : fs.scandir d.loc with
    | none => simp [hsc] at ho
    | some ds => exact FS.locIsDir_iff.2 ⟨ds, hsc⟩
  unfold offered
  simp only [hdir, if_true]
  exact List.mem_append_right _ ho

theorem below_rel {fs : FS} (hwf : fs.WFTree) {c : WalkCfg} {long : Bool} {d d' : Dir}
    (h : Below fs c long d d') (hr : Dir.Rel fs d) : Dir.Rel fs d' := by
  induction h with
  | here => exact hr
  | down _ ho hdesc ih =>
    simp only [descends, Bool.and_eq_true] at hdesc
    exact offer_rel hwf ih (entriesOf_sub_offered ho) hdesc.1.1

/-- **everything a part list denotes below a directory is well formed** -/
theorem denotes_good {fs : FS} (hwf : fs.WFTree) {c : WalkCfg} {parts : List GPart} {d : Dir} {v : Y}
    (h : Denotes fs c parts d v) (hr : Dir.Rel fs d) : Y.Good fs v := by
  induction h with
  | last _ ho _ _ => exact offer_good hwf hr ho
  | inner _ ho _ hd _ ih => exact ih (offer_rel hwf hr ho hd)
  | starSelf _ _ =>
    obtain ⟨e1, e2⟩ := resolve_pjoin_empty fs _ (hr.1 ▸ hr.2)
    exact ⟨by rw [e1, hr.1], e2, by simp [hr.2], fun _ => rfl⟩
  | starAny _ hb ho _ _ => exact offer_good hwf (below_rel hwf hb hr) (entriesOf_sub_offered ho)
  | starLast _ hb ho _ _ => exact offer_good hwf (below_rel hwf hb hr) ho
  | starInner _ hb ho _ hd _ ih => exact ih (offer_rel hwf (below_rel hwf hb hr) ho hd)

theorem denotes_dirOnly {fs : FS} {c : WalkCfg} {parts : List GPart} {d : Dir} {v : Y}
    (h : Denotes fs c parts d v) (hdo : dirOnlyOf parts = true) : v.isDir = true := by
  induction h with
  | last _ _ _ hd => exact hd hdo
  | inner _ _ _ _ _ ih => exact ih (by simpa [dirOnlyOf, List.getLast?_cons_cons] using hdo)
  | starSelf _ _ => rfl
  | starAny _ _ _ _ hd => exact hd hdo
  | starLast _ _ _ _ hd => exact hd (by simpa [dirOnlyOf, List.getLast?_cons_cons] using hdo)
  | starInner _ _ _ _ _ _ ih => exact ih (by simpa [dirOnlyOf, List.getLast?_cons_cons] using hdo)

theorem rootDir_rel {fs : FS} (h : fs.locIsDir (some fs.cwd) = true) : Dir.Rel fs fs.rootDir := by
  refine ⟨?_, h⟩
  have hr0 : fs.resolve [] = fs.step (some fs.cwd) [] := by simp [FS.resolve, FS.base, splitSlash, FS.steps]
  simp only [FS.rootDir]
  rw [hr0, step_empty]
  unfold FS.locIsDir at h
  simp [h]

/-- **everything a pattern denotes is well formed** -/
theorem denotesTop_good {fs : FS} (hwf : fs.WFTree) (hroot : fs.locIsDir (some fs.cwd) = true) {c : WalkCfg}
    {parts : List GPart} {v : Y} (h : DenotesTop fs c parts v) : Y.Good fs v := by
  cases h with
  | magic _ h => exact denotes_good hwf h (rootDir_rel hroot)
  | writtenOnly _ ha =>
    obtain ⟨hd, hl⟩ := written_isDir hroot ha
    exact ⟨rfl, hl, hd.symm, fun _ => rfl⟩
  | writtenThen _ ha h =>
    obtain ⟨hd, _⟩ := written_isDir hroot ha
    exact denotes_good hwf h ⟨rfl, hd⟩
  | @nameOnly p o _ _ _ ho _ _ =>
    have hr := rootDir_rel hroot
    obtain ⟨g, hn1, hn4⟩ := entry_good hwf hr ho
    have hp : pjoin ([] : List Char) o.name = o.name := by
      unfold pjoin
      cases hn : o.name with
      | nil => exact absurd hn hn1
      | cons ch r =>
        have : ch ≠ '/' := hn4 ch (by rw [hn]; exact List.mem_cons_self)
        split
        · rename_i heq; cases heq; exact absurd rfl this
        · simp
    have e : o.toY fs.rootDir = ⟨o.name, o.isDir, o.loc⟩ := by simp [Offer.toY, FS.rootDir, hp]
    rw [e] at g
    exact g
  | @nameThen p q rest o _ _ _ _ ho _ hd h =>
    have hr := rootDir_rel hroot
    obtain ⟨_, hn1, hn4⟩ := entry_good hwf hr ho
    have hp : pjoin ([] : List Char) o.name = o.name := by
      unfold pjoin
      cases hn : o.name with
      | nil => exact absurd hn hn1
      | cons ch r =>
        have : ch ≠ '/' := hn4 ch (by rw [hn]; exact List.mem_cons_self)
        split
        · rename_i heq; cases heq; exact absurd rfl this
        · simp
    have := offer_rel hwf hr (entriesOf_sub_offered ho) hd
    simp only [FS.rootDir, hp] at this
    exact denotes_good hwf h this

theorem denotesTop_dirOnly {fs : FS} {c : WalkCfg} {parts : List GPart} {v : Y}
    (h : DenotesTop fs c parts v) (hdo : dirOnlyOf parts = true) : v.isDir = true := by
  cases h with
  | magic _ h => exact denotes_dirOnly h hdo
  | writtenOnly _ _ => rfl
  | writtenThen _ _ h => exact denotes_dirOnly h (by simpa [dirOnlyOf, List.getLast?_cons_cons] using hdo)
  | nameOnly _ _ _ _ _ hd => exact hd hdo
  | nameThen _ _ _ _ _ _ h => exact denotes_dirOnly h (by simpa [dirOnlyOf, List.getLast?_cons_cons] using hdo)

/-- what `glob()` returns for one pattern, in terms of the specification -/
theorem perPattern_iff_denotesTop (w : WCtx) (fs : FS) (hc : w.followLinks = false) (fuel : Nat)
    (hf : fs.top.height < fuel) (parts : List GPart) (hl : NoLong parts) (hwf : WFParts parts)
    (hag : SegAgree fs w.toWalkCfg parts) (ht : TopOK fs w.toWalkCfg parts) (x : List Char) :
    x ∈ perPattern w fs fuel parts ↔
      ∃ v, DenotesTop fs w.toWalkCfg parts v ∧ isExcluded w v = false ∧ x = formatPath w (dirOnlyOf parts) v := by
  rw [perPattern_eq]
  simp only [List.mem_map, List.mem_filter, Bool.not_eq_true']
  constructor
  · rintro ⟨v, ⟨hv, he⟩, rfl⟩
    exact ⟨v, (globPattern_iff_denotesTop w.toWalkCfg fs hc fuel hf parts hl hwf hag ht v).1 hv, he, rfl⟩
  · rintro ⟨v, hv, he, rfl⟩
    exact ⟨v, ⟨(globPattern_iff_denotesTop w.toWalkCfg fs hc fuel hf parts hl hwf hag ht v).2 hv, he⟩, rfl⟩

/-- a well-formed candidate, formatted: it exists, and it ends with a separator only if it is
    a directory -/
theorem format_good (w : WCtx) (fs : FS) (dirOnly : Bool) (v : Y) (g : Y.Good fs v)
    (hdo : dirOnly = true → v.isDir = true) :
    fs.lexists (formatPath w dirOnly v) = true ∧
      (endsWithSep (formatPath w dirOnly v) = true → fs.isdir (formatPath w dirOnly v) = true) := by
  unfold formatPath
  by_cases hc : (dirOnly || (w.mark && v.isDir)) = true
  · simp only [hc, if_true]
    have hd : v.isDir = true := by
      simp only [Bool.or_eq_true, Bool.and_eq_true] at hc
      rcases hc with h | ⟨_, h⟩
      · exact hdo h
      · exact h
    have hdir : fs.locIsDir (fs.resolve v.path) = true := by rw [g.resolves, ← g.isDir]; exact hd
    obtain ⟨e1, e2⟩ := resolve_pjoin_empty fs v.path hdir
    exact ⟨e2, fun _ => by unfold FS.isdir; rw [e1]; exact hdir⟩
  · have hc' : (dirOnly || (w.mark && v.isDir)) = false := by simpa using hc
    simp only [hc', Bool.false_eq_true, if_false]
    refine ⟨g.exists_, fun hs => ?_⟩
    have hd := g.sepDir hs
    unfold FS.isdir
    rw [g.resolves, ← g.isDir]; exact hd

/-! ### a decidable check for `WFTree` (used for the non-vacuity examples) -/

def nameOkB (n : Name) : Bool := n != [] && n != dot && n != dotdot && n.all (· != '/')

def namesNodupB : List Name → Bool
  | [] => true
  | n :: r => !r.contains n && namesNodupB r

mutual
def Node.wfB : Node → Bool
  | .dir es => (es.map Prod.fst).all nameOkB && namesNodupB (es.map Prod.fst) && Node.wfBL es
  | _ => true
def Node.wfBL : List (Name × Node) → Bool
  | [] => true
  | (_, n) :: r => n.wfB && Node.wfBL r
end

theorem namesNodupB_nodup : ∀ (l : List Name), namesNodupB l = true → l.Nodup := by
  intro l
  induction l with
  | nil => intro _; exact List.nodup_nil
  | cons n r ih =>
    intro h
    simp only [namesNodupB, Bool.and_eq_true, Bool.not_eq_true'] at h
    refine List.nodup_cons.2 ⟨?_, ih h.2⟩
    intro hm
    have : r.contains n = true := List.contains_iff_mem.2 hm
    rw [this] at h; cases h.1

theorem wfBL_mem {es : List (Name × Node)} (h : Node.wfBL es = true) {n : Name} {c : Node} (hm : (n, c) ∈ es) :
    c.wfB = true := by
  induction es with
  | nil => cases hm
  | cons e r ih =>
    obtain ⟨m, d⟩ := e
    simp only [Node.wfBL, Bool.and_eq_true] at h
    rcases List.mem_cons.1 hm with heq | hm'
    · cases heq; exact h.1
    · exact ih h.2 hm'

theorem wfB_get : ∀ (rp : RPath) (nd : Node), nd.wfB = true → ∀ es, nd.get rp = some (.dir es) →
    (es.map Prod.fst).Nodup ∧ ∀ e ∈ es, e.1 ≠ [] ∧ e.1 ≠ dot ∧ e.1 ≠ dotdot ∧ ∀ c ∈ e.1, c ≠ '/' := by
  intro rp
  induction rp with
  | nil =>
    intro nd h es hg
    simp [Node.get] at hg; subst hg
    simp only [Node.wfB, Bool.and_eq_true] at h
    refine ⟨namesNodupB_nodup _ h.1.2, ?_⟩
    intro e he
    have := List.all_eq_true.1 h.1.1 e.1 (List.mem_map.2 ⟨e, he, rfl⟩)
    simp only [nameOkB, Bool.and_eq_true, bne_iff_ne, ne_eq, List.all_eq_true] at this
    exact ⟨this.1.1.1, this.1.1.2, this.1.2, fun c hc => this.2 c hc⟩
  | cons a r ih =>
    intro nd h es hg
    cases nd with
    | file => simp [Node.get] at hg
    | link t => simp [Node.get] at hg
    | dir es' =>
      simp only [Node.get] at hg
      cases hf : findEntry a es' with
      | none => simp [hf] at hg
      | some c =>
        simp only [hf] at hg
        simp only [Node.wfB, Bool.and_eq_true] at h
        exact ih c (wfBL_mem h.2 (findEntry_mem hf)) es hg

theorem wfTree_of_wfB (fs : FS) (h : fs.top.wfB = true) : fs.WFTree :=
  ⟨fun rp es hg => (wfB_get rp fs.top h es hg).1, fun rp es hg => (wfB_get rp fs.top h es hg).2⟩

end WcModel

import WcModel.Proofs.PassPrint
import WcModel.Properties.C03faithful
/-
  The strict reader and the first token: if the pattern TEXT begins with a written dot (`.` or `\.`,
  `C03F.FirstTokIsDot`) and the strict reader accepts it as `g`, then the first token of `g` is the
  written dot (`g.headTok = some (.lit '.')`).  Links the text-level condition of
  `C03_upper_faithful` with the AST-level hypothesis of `C03_lower_faithful`.
-/
namespace WcModel.HL
open Grammar PP

/-- whatever `parseSeq` returns extends the tokens it was given -/
theorem parseSeq_acc : ∀ (F : Nat) (ig : Bool) (s : List Char) (acc : List Pat) (g : Pat) (r : List Char),
    parseSeq true F ig s acc = some (g, r) → ∃ more, g = seqOf (acc ++ more) := by
  intro F
  induction F with
  | zero => intro ig s acc g r h; simp [parseSeq] at h
  | succ F ih =>
    intro ig s acc g r h
    cases s with
    | nil =>
      simp only [parseSeq] at h
      split at h
      · cases h
      · simp only [Option.some.injEq, Prod.mk.injEq] at h
        exact ⟨[], by simp [h.1]⟩
    | cons c rest =>
      rw [parseSeq_cons] at h
      split at h
      · simp only [Option.some.injEq, Prod.mk.injEq] at h
        exact ⟨[], by simp [h.1]⟩
      · split at h
        · cases h
        · obtain ⟨more, hm⟩ := ih _ _ _ _ _ h
          exact ⟨_, by rw [hm, List.append_assoc]⟩
        · unfold plainOf at h
          split at h
          · split at h
            · obtain ⟨more, hm⟩ := ih _ _ _ _ _ h
              exact ⟨_, by rw [hm, List.append_assoc]⟩
            · cases h
          · split at h
            · obtain ⟨more, hm⟩ := ih _ _ _ _ _ h
              split at hm
              · exact ⟨more, hm⟩
              · exact ⟨_, by rw [hm, List.append_assoc]⟩
            · split at h
              · obtain ⟨more, hm⟩ := ih _ _ _ _ _ h
                exact ⟨_, by rw [hm, List.append_assoc]⟩
              · split at h
                · split at h
                  · obtain ⟨more, hm⟩ := ih _ _ _ _ _ h
                    exact ⟨_, by rw [hm, List.append_assoc]⟩
                  · cases h
                · obtain ⟨more, hm⟩ := ih _ _ _ _ _ h
                  exact ⟨_, by rw [hm, List.append_assoc]⟩

theorem headTok_seqOf_lit (c : Char) (more : List Pat) : (seqOf (.lit c :: more)).headTok = some (.lit c) := by
  cases more with
  | nil => rfl
  | cons m ms => simp [seqOf, Pat.headTok]

/-- **a pattern text that begins with a written dot is read as a pattern whose first token is
    that dot** -/
theorem headTok_of_firstTokIsDot (p : List Char) (g : Pat) (hread : parsePat true p = some g)
    (hdot : C03F.FirstTokIsDot p) : g.headTok = some (.lit '.') := by
  unfold parsePat at hread
  split at hread
  · rename_i g' hps
    simp only [Option.some.injEq] at hread
    subst hread
    rcases hdot with ⟨t, rfl⟩ | ⟨t, rfl⟩
    · have hF : 2 * ('.' :: t).length + 4 = (2 * t.length + 5) + 1 := by simp; omega
      rw [hF, PS_lit _ _ _ _ _ (by decide)] at hps
      obtain ⟨more, hm⟩ := parseSeq_acc _ _ _ _ _ _ hps
      rw [hm]
      exact headTok_seqOf_lit '.' more
    · have hF : 2 * ('\\' :: '.' :: t).length + 4 = (2 * t.length + 7) + 1 := by simp; omega
      rw [hF, PS_esc] at hps
      obtain ⟨more, hm⟩ := parseSeq_acc _ _ _ _ _ _ hps
      rw [hm]
      exact headTok_seqOf_lit '.' more
  · cases hread

end WcModel.HL

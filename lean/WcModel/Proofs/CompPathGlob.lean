import WcModel.Proofs.CompPath
/-
  Part (c): path patterns WITH globstars.  Under the visibility hypothesis on the subject a
  globstar `(?:(?!(?:[/]|^)\.).)*?` / its DOTGLOB variant is `.*?`; the divider
  `(?:^|$|[/])+` forces the text consumed by `**/` to be empty at the very start of the subject
  or to end in a separator — i.e. to consist of whole pieces.
-/
namespace WcModel

/-! ### pieces of a concatenation -/

theorem cutAtSlash_ne_nil (x : List Char) : ∃ h t, cutAtSlash x = h :: t := ⟨_, _, rfl⟩

theorem cutAtSlash_append_slash (x y : List Char) :
    cutAtSlash (x ++ '/' :: y) = cutAtSlash x ++ cutAtSlash y := by
  induction x with
  | nil => simp [cutAtSlash_cons_slash, cutAtSlash_last [] (by simp)]
  | cons c x ih =>
    by_cases hc : c = '/'
    · subst hc
      simp only [List.cons_append, cutAtSlash_cons_slash, ih]
    · obtain ⟨h, t, e⟩ := cutAtSlash_ne_nil x
      rw [List.cons_append, cutAtSlash_cons_ne c hc (x ++ '/' :: y) h (t ++ cutAtSlash y) (by rw [ih, e]; rfl),
        cutAtSlash_cons_ne c hc x h t e]
      rfl

theorem pieces_append_slash (x y : List Char) : pieces (x ++ '/' :: y) = pieces x ++ pieces y := by
  simp [pieces, cutAtSlash_append_slash]

/-- the text consumed by `**/` before a segment: nothing (only at the very start of the
    subject), or something that ends in a separator -/
def GapOK (f : Bool) (T : List Char) : Prop := (T = [] ∧ f = true) ∨ ∃ T', T = T' ++ ['/']

theorem pieces_gap (T r : List Char) (h : T = [] ∨ ∃ T', T = T' ++ ['/']) :
    pieces (T ++ r) = pieces T ++ pieces r := by
  rcases h with rfl | ⟨T', rfl⟩
  · simp [pieces_nil]
  · rw [List.append_assoc, List.singleton_append, pieces_append_slash, pieces_append_slash, pieces_nil,
      List.append_nil]

theorem allSl_snoc (pre : List Char) (h : allSl pre = true) (hne : pre ≠ []) : ∃ T', pre = T' ++ ['/'] := by
  refine ⟨pre.dropLast, ?_⟩
  have hl := allSl_getLast pre h hne
  rw [List.getLast?_eq_some_getLast hne] at hl
  simp only [Option.some.injEq] at hl
  rw [← hl]
  exact (List.dropLast_concat_getLast hne).symm

/-! ### the hypotheses on the subject, with globstars -/

/-- every piece is visible, and the subject does not end in a newline (the `$` of
    `_GLOBSTAR_DIV` and of `_NO_DIR` accepts before a final newline: D3) -/
def VisG (dot : Bool) (t : List Char) : Prop :=
  (∀ p ∈ pieces t, visible dot p = true) ∧ t.getLast? ≠ some '\n'

theorem VisG.vis {dot : Bool} {t : List Char} (h : VisG dot t) : Vis dot t := ⟨h.1, Or.inr h.2⟩

theorem VisG.tail {dot : Bool} {x r : List Char} (h : VisG dot (x ++ r))
    (hsub : ∀ p ∈ pieces r, p ∈ pieces (x ++ r)) : VisG dot r := by
  refine ⟨fun p hp => h.1 p (hsub p hp), ?_⟩
  cases r with
  | nil => simp
  | cons y ys =>
    have := h.2
    rwa [getLast_append_ne x (y :: ys) (by simp)] at this

theorem suffix_getLast {pre u : List Char} (hne : u ≠ []) (h : (pre ++ u).getLast? ≠ some '\n') :
    u.getLast? ≠ some '\n' := by
  rwa [getLast_append_ne pre u hne] at h

/-- the first piece of a text that begins with a non-separator -/
theorem first_piece (u : List Char) (d : Char) (v : List Char) (e : u = d :: v) (hd : d ≠ '/') :
    ∃ p r, u = p ++ r ∧ p ≠ [] ∧ '/' ∉ p ∧ AtSep r ∧ p.head? = some d ∧ p ∈ pieces u := by
  obtain ⟨p, r, e', hp, hr⟩ := piece_decomp u
  have hne : p ≠ [] := by
    rintro rfl
    rcases hr with rfl | ⟨r', rfl⟩
    · rw [e] at e'; simp at e'
    · rw [e] at e'; simp at e'; exact hd e'.1
  refine ⟨p, r, e', hne, hp, hr, ?_, ?_⟩
  · cases p with
    | nil => exact absurd rfl hne
    | cons x p' => rw [e] at e'; simp at e'; simp [e'.1]
  · rw [e', pieces_append p r hp hne hr]; exact List.mem_cons_self

/-- after a separator (or at the very beginning) of a subject with visible pieces, `_NO_DIR`
    does not fire -/
theorem noDirOK_of_visG (md : Mode) (dot : Bool) (t pre u : List Char) (hv : VisG dot t)
    (e : t = pre ++ u) (hpre : pre = [] ∨ ∃ T', pre = T' ++ ['/']) (m : St) (hm : m.rest = u) :
    NoDirOK md m := by
  cases hu : u with
  | nil =>
    rintro ⟨c, hc⟩
    simp only [Re.M.eq_5, Re.M.eq_7, Re.M.eq_13] at hc
    obtain ⟨x, ⟨n, h1, _, hit⟩, _⟩ := hc
    cases hit with
    | zero => omega
    | succ hab _ =>
      obtain ⟨d, s, e1, _, _⟩ := hab
      rw [hm, hu] at e1; simp at e1
  | cons d v =>
    by_cases hd : d = '/'
    · subst hd
      rintro ⟨c, hc⟩
      simp only [Re.M.eq_5, Re.M.eq_7, Re.M.eq_13] at hc
      obtain ⟨x, ⟨n, h1, _, hit⟩, _⟩ := hc
      cases hit with
      | zero => omega
      | succ hab _ =>
        obtain ⟨d', s, e1, hd', _⟩ := (M_lit_dot md _ _).mp hab
        rw [hm, hu] at e1
        simp at e1 hd'
        rw [hd'] at e1
        exact absurd e1.1 (by decide)
    · obtain ⟨p, r, e', hne, hp, hr, _, hmem⟩ := first_piece u d v hu hd
      have hsub : p ∈ pieces t := by
        rw [e, pieces_gap pre u hpre]
        exact List.mem_append_right _ hmem
      have hune : u ≠ [] := by rw [hu]; simp
      exact noDirOK_of_piece md dot m p r (by rw [hm, e']) hp hne hr (hv.1 p hsub)
        (Or.inr (by rw [hm]; exact suffix_getLast hune (e ▸ hv.2)))

/-! ### the globstar is `.*?` on such subjects -/

theorem gstar_sound (dot ci : Bool) (a m : St) (h : Re.M ⟨true, ci⟩ (pGstar dot) a m) :
    Iter (consume1 (fun _ => true)) a m := by
  unfold pGstar at h
  split at h
  · simp only [Frag.pathGstarDot2, Re.M.eq_11] at h
    exact Iter.mono (fun x y hxy => ((gstarStep_iff ci x y).mp hxy).2) h
  · simp only [Frag.pathGstarDot1, Re.M.eq_11] at h
    refine Iter.mono (fun x y hxy => ?_) h
    simp only [Re.M.eq_7, Re.M.eq_5] at hxy
    obtain ⟨c, h1, h2⟩ := hxy
    rw [Re.M.eq_15] at h1
    rw [h1.1] at h2
    exact (M_any_dotall ci x y).mp h2

/-- the look-ahead of `_PATH_GSTAR_NO_DOTMATCH` does not fire inside a subject with visible pieces -/
theorem not_hiddenAhead (t pre : List Char) (x : St) (hv : VisG false t) (e : t = pre ++ x.rest)
    (hs : x.atStart = true → pre = []) : ¬ hiddenAhead x := by
  rintro (⟨s, hx⟩ | ⟨hst, s, hx⟩)
  · obtain ⟨p, r, _, _, _, _, hhead, hmem⟩ := first_piece ('.' :: s) '.' s rfl (by decide)
    have : p ∈ pieces t := by
      rw [e, hx, pieces_append_slash]; exact List.mem_append_right _ hmem
    have := hv.1 p this
    simp [visible, hhead] at this
  · obtain ⟨p, r, _, _, _, _, hhead, hmem⟩ := first_piece ('.' :: s) '.' s rfl (by decide)
    have : p ∈ pieces t := by rw [e, hs hst, hx]; exact hmem
    have := hv.1 p this
    simp [visible, hhead] at this

/-- the DOTGLOB look-ahead `(?!(?:[/]|^)(?:\.{1,2})(?:$|[/]))` does not fire either -/
theorem not_dirAhead (ci : Bool) (dot : Bool) (t pre : List Char) (x : St) (hv : VisG dot t) (e : t = pre ++ x.rest)
    (hs : x.atStart = true → pre = []) :
    ¬ ∃ c, Re.M ⟨true, ci⟩ (.cat (.cat (.grp (.alt (Frag.sep false) .bos)) (.grp (.rep 1 2 (.lit '.'))))
      (Frag.pathEop false)) x c := by
  rintro ⟨c, hc⟩
  rw [Re.M.eq_5] at hc
  obtain ⟨m2, h12, h3⟩ := hc
  rw [Re.M.eq_5] at h12
  obtain ⟨m1, h1, h2⟩ := h12
  have hfire : ¬ NoDirOK ⟨true, ci⟩ m1 := by
    intro hno
    apply hno
    exact ⟨c, by rw [Re.M.eq_5]; exact ⟨m2, h2, h3⟩⟩
  apply hfire
  simp only [Re.M.eq_7, Re.M.eq_6] at h1
  rcases h1 with h1 | h1
  · obtain ⟨d, s, e1, hd, rfl⟩ := (M_sep _ _ _).mp h1
    simp only [beq_iff_eq] at hd; subst hd
    exact noDirOK_of_visG _ dot t (pre ++ ['/']) s hv (by rw [e, e1]; simp) (Or.inr ⟨pre, rfl⟩) _ rfl
  · simp only [Re.M] at h1
    obtain ⟨rfl, hst⟩ := h1
    exact noDirOK_of_visG _ dot t pre m1.rest hv e (Or.inl (hs hst)) _ rfl

/-- one guarded step of either globstar, inside a subject with visible pieces -/
theorem gstar_step_free (dot ci : Bool) (t pre : List Char) (x y : St) (hv : VisG dot t) (e : t = pre ++ x.rest)
    (hs : x.atStart = true → pre = []) (h : consume1 (fun _ => true) x y) :
    (dot = false → Re.M ⟨true, ci⟩ (.grp (.cat (.look true (.cat (.grp (.alt (Frag.sep false) .bos)) (.lit '.'))) .any)) x y) ∧
    (dot = true → Re.M ⟨true, ci⟩ (.grp (.cat (.look true (.cat (.cat (.grp (.alt (Frag.sep false) .bos))
        (.grp (.rep 1 2 (.lit '.')))) (Frag.pathEop false))) .any)) x y) := by
  constructor
  · intro hd; subst hd
    exact (gstarStep_iff ci x y).mpr ⟨not_hiddenAhead t pre x hv e hs, h⟩
  · intro _
    simp only [Re.M.eq_7, Re.M.eq_5]
    refine ⟨x, ?_, (M_any_dotall ci x y).mpr h⟩
    rw [Re.M.eq_15]
    exact ⟨rfl, not_dirAhead ci dot t pre x hv e hs⟩

theorem gstar_complete_aux (dot ci : Bool) (t : List Char) (hv : VisG dot t) {x m : St}
    (h : Iter (consume1 (fun _ => true)) x m) :
    ∀ pre, t = pre ++ x.rest → (x.atStart = true → pre = []) → Re.M ⟨true, ci⟩ (pGstar dot) x m := by
  induction h with
  | refl x =>
    intro _ _ _
    unfold pGstar; split
    · simp only [Frag.pathGstarDot2, Re.M.eq_11]; exact Iter.refl _
    · simp only [Frag.pathGstarDot1, Re.M.eq_11]; exact Iter.refl _
  | step hab hbc ih =>
    rename_i x y z
    intro pre e hs
    have hstep := gstar_step_free dot ci t pre x y hv e hs hab
    obtain ⟨d, s, e1, _, hy⟩ := hab
    have ih' := ih (pre ++ [d]) (by rw [e, e1, hy]; simp) (by rw [hy]; simp)
    unfold pGstar at ih' ⊢
    cases hd : dot with
    | false =>
      simp only [hd, Bool.not_false, ite_true, Frag.pathGstarDot2, Re.M.eq_11] at ih' ⊢
      exact Iter.step (hstep.1 hd) ih'
    | true =>
      simp only [hd, Bool.not_true, Bool.false_eq_true, ite_false, Frag.pathGstarDot1, Re.M.eq_11] at ih' ⊢
      exact Iter.step (hstep.2 hd) ih'

/-- **on a subject whose pieces are all visible, a globstar consumes any text** -/
theorem gstar_free (dot ci : Bool) (t pre : List Char) (hv : VisG dot t) (a m : St) (e : t = pre ++ a.rest)
    (hs : a.atStart = true → pre = []) :
    Re.M ⟨true, ci⟩ (pGstar dot) a m ↔ Iter (consume1 (fun _ => true)) a m :=
  ⟨gstar_sound dot ci a m, fun h => gstar_complete_aux dot ci t hv h pre e hs⟩


/-! ### the divider `(?:^|$|[/])+` -/

def DivStep (md : Mode) (x y : St) : Prop := Re.M md (.grp (.alt .bos (.alt .eos (Frag.sep false)))) x y

theorem divStep_iff (md : Mode) (x y : St) :
    DivStep md x y ↔ ((y = x ∧ (x.atStart = true ∨ atEos x.rest = true)) ∨ consume1 (fun d => d == '/') x y) := by
  simp only [DivStep, Re.M.eq_7, Re.M.eq_6, Re.M.eq_16, Re.M.eq_17, M_sep]
  constructor
  · rintro (⟨rfl, h⟩ | ⟨rfl, h⟩ | h)
    · exact Or.inl ⟨rfl, Or.inl h⟩
    · exact Or.inl ⟨rfl, Or.inr h⟩
    · exact Or.inr h
  · rintro (⟨rfl, h | h⟩ | h)
    · exact Or.inl ⟨rfl, h⟩
    · exact Or.inr (Or.inl ⟨rfl, h⟩)
    · exact Or.inr (Or.inr h)

theorem iter_divStep (md : Mode) {x c : St} (h : Iter (DivStep md) x c) :
    c = x ∨ (c.atStart = false ∧ ∃ pre, pre ≠ [] ∧ allSl pre = true ∧ x.rest = pre ++ c.rest) := by
  induction h with
  | refl x => exact Or.inl rfl
  | @step x y z hab _ ih =>
    rcases (divStep_iff md x y).mp hab with ⟨rfl, _⟩ | ⟨d, s, e1, hd, rfl⟩
    · exact ih
    · simp only [beq_iff_eq] at hd; subst hd
      rcases ih with rfl | ⟨hf, pre, _, hp, e⟩
      · exact Or.inr ⟨rfl, ['/'], by simp, rfl, by simp [e1]⟩
      · exact Or.inr ⟨hf, '/' :: pre, by simp, by simpa [allSl] using hp, by simp only at e; simp [e1, e]⟩

/-- the divider: zero-width at the very start / at the end of the subject, or a non-empty run of
    separators -/
theorem M_div_iff (md : Mode) (m c : St) :
    Re.M md (Frag.globstarDiv false) m c ↔
      ((c = m ∧ (m.atStart = true ∨ atEos m.rest = true)) ∨
       (c.atStart = false ∧ ∃ pre, pre ≠ [] ∧ allSl pre = true ∧ m.rest = pre ++ c.rest)) := by
  simp only [Frag.globstarDiv, Re.M.eq_12]
  constructor
  · rintro ⟨c1, h1, h2⟩
    have h2' : Iter (DivStep md) c1 c := h2
    rcases (divStep_iff md m c1).mp h1 with ⟨rfl, hz⟩ | ⟨d, s, e1, hd, rfl⟩
    · rcases iter_divStep md h2' with rfl | hr
      · exact Or.inl ⟨rfl, hz⟩
      · exact Or.inr hr
    · simp only [beq_iff_eq] at hd; subst hd
      rcases iter_divStep md h2' with rfl | ⟨hf, pre, _, hp, e⟩
      · exact Or.inr ⟨rfl, ['/'], by simp, rfl, by simp [e1]⟩
      · exact Or.inr ⟨hf, '/' :: pre, by simp, by simpa [allSl] using hp, by simp only at e; simp [e1, e]⟩
  · rintro (⟨rfl, hz⟩ | ⟨hf, pre, hne, hp, e⟩)
    · exact ⟨c, (divStep_iff md c c).mpr (Or.inl ⟨rfl, hz⟩), Iter.refl _⟩
    · cases pre with
      | nil => exact absurd rfl hne
      | cons x pre =>
        simp only [allSl, List.all_cons, Bool.and_eq_true, beq_iff_eq] at hp
        obtain ⟨rfl, hp2⟩ := hp
        refine ⟨⟨false, pre ++ c.rest⟩,
          (divStep_iff md m _).mpr (Or.inr ⟨'/', pre ++ c.rest, by simpa using e, rfl, rfl⟩), ?_⟩
        rcases c with ⟨cf, cr⟩
        simp only at hf; subst hf
        cases pre with
        | nil => exact Iter.refl _
        | cons y pre' =>
          have := iter_of_all (p := fun d => d == '/') false (y :: pre') cr (by simp) hp2
          exact Iter.mono (fun u v huv => (divStep_iff md u v).mpr (Or.inr huv)) this

/-! ### `**/` before a segment: the gap -/

theorem iterAny_iff (a m : St) :
    Iter (consume1 (fun _ => true)) a m ↔
      (m = a ∨ (m.atStart = false ∧ ∃ pre, pre ≠ [] ∧ a.rest = pre ++ m.rest)) := by
  constructor
  · exact iter_consumeAny_split
  · rintro (rfl | ⟨hf, pre, hne, e⟩)
    · exact Iter.refl _
    · rcases a with ⟨af, ar⟩; rcases m with ⟨mf, mr⟩
      simp only at hf e; subst hf; subst e
      exact consumeAny_iter_of_split af pre mr hne

/-- "any text, then the divider", up to a state whose remainder is not empty -/
theorem gap_iff (md : Mode) (a c : St) (hnl : a.rest.getLast? ≠ some '\n') (hc : c.rest ≠ []) :
    (∃ m, Iter (consume1 (fun _ => true)) a m ∧ Re.M md (Frag.globstarDiv false) m c) ↔
      ∃ T, a.rest = T ++ c.rest ∧ GapOK a.atStart T ∧ c.atStart = (a.atStart && T.isEmpty) := by
  constructor
  · rintro ⟨m, h1, h2⟩
    rcases (M_div_iff md m c).mp h2 with ⟨rfl, hz⟩ | ⟨hf, pre, hne, hp, e⟩
    · -- zero-width: only at the very start
      rcases hz with hz | hz
      · rcases (iterAny_iff a c).mp h1 with rfl | ⟨hf, _⟩
        · exact ⟨[], rfl, Or.inl ⟨rfl, hz⟩, by simp [hz]⟩
        · rw [hf] at hz; exact absurd hz (by simp)
      · exfalso
        have hsuf : c.rest.getLast? ≠ some '\n' := by
          rcases (iterAny_iff a c).mp h1 with rfl | ⟨_, pre, _, e⟩
          · exact hnl
          · exact suffix_getLast hc (e ▸ hnl)
        unfold atEos at hz
        simp only [Bool.or_eq_true, beq_iff_eq] at hz
        rcases hz with hz | hz
        · exact hc hz
        · rw [hz] at hsuf; exact hsuf rfl
    · obtain ⟨T', hT'⟩ := allSl_snoc pre hp hne
      rcases (iterAny_iff a m).mp h1 with rfl | ⟨_, G, _, eG⟩
      · exact ⟨pre, e, Or.inr ⟨T', hT'⟩, by rw [hf]; cases pre with
          | nil => exact absurd rfl hne
          | cons _ _ => simp⟩
      · refine ⟨G ++ pre, by rw [eG, e, List.append_assoc], Or.inr ⟨G ++ T', by rw [hT', List.append_assoc]⟩, ?_⟩
        rw [hf]
        cases pre with
        | nil => exact absurd rfl hne
        | cons _ _ => simp
  · rintro ⟨T, e, hg, hf⟩
    rcases hg with ⟨rfl, hst⟩ | ⟨T', rfl⟩
    · have : c = a := by
        rcases a with ⟨af, ar⟩; rcases c with ⟨cf, cr⟩
        simp only [List.nil_append] at e
        simp only [List.isEmpty_nil, Bool.and_true] at hf
        simp only at hst
        rw [hf, e]
      subst this
      exact ⟨c, Iter.refl _, (M_div_iff md c c).mpr (Or.inl ⟨rfl, Or.inl hst⟩)⟩
    · have hf' : c.atStart = false := by
        rw [hf]; cases T' <;> simp
      by_cases hT : T' = []
      · subst hT
        exact ⟨a, Iter.refl _, (M_div_iff md a c).mpr (Or.inr ⟨hf', ['/'], by simp, rfl, by simpa using e⟩)⟩
      · refine ⟨⟨false, '/' :: c.rest⟩, (iterAny_iff a _).mpr (Or.inr ⟨rfl, T', hT, by simpa using e⟩),
          (M_div_iff md _ c).mpr (Or.inr ⟨hf', ['/'], by simp, rfl, rfl⟩)⟩

/-- `(?=[/])` -/
theorem M_needSep (md : Mode) (a b : St) :
    Re.M md (Frag.needSep false) a b ↔ b = a ∧ a.rest.head? = some '/' := by
  simp only [Frag.needSep, Re.M.eq_14]
  constructor
  · rintro ⟨rfl, c, hc⟩
    obtain ⟨d, s, e1, hd, _⟩ := (M_sep md _ _).mp hc
    simp only [beq_iff_eq] at hd; subst hd
    exact ⟨rfl, by simp [e1]⟩
  · rintro ⟨rfl, hh⟩
    cases hr : b.rest with
    | nil => simp [hr] at hh
    | cons d s =>
      simp [hr] at hh; subst hh
      exact ⟨rfl, ⟨false, s⟩, (M_sep md _ _).mpr ⟨'/', s, hr, rfl, rfl⟩⟩

theorem M_needSepIf (md : Mode) (sb : Bool) (R : Re) (a y : St) :
    Re.M md (needSepIf sb R) a y ↔ ((sb = true → a.rest.head? = some '/') ∧ Re.M md R a y) := by
  cases sb with
  | false => simp [needSepIf]
  | true =>
    simp only [needSepIf, ite_true, Re.M.eq_5, forall_const]
    constructor
    · rintro ⟨c, h1, h2⟩
      obtain ⟨rfl, hh⟩ := (M_needSep md a c).mp h1
      exact ⟨hh, h2⟩
    · rintro ⟨hh, h2⟩
      exact ⟨a, (M_needSep md a a).mpr ⟨rfl, hh⟩, h2⟩

theorem RTail_needSep (md : Mode) (R : Re) : RTail md (needSepIf true R) := by
  intro c y h _
  have := ((M_needSepIf md true R c y).mp h).1 rfl
  cases hr : c.rest with
  | nil => simp [hr] at this
  | cons d s => simp [hr] at this; exact Or.inr ⟨s, by rw [this]⟩

/-- **a globstar followed by a segment**: the text it consumes (together with the divider) is
    empty at the very start of the subject, or ends in a separator -/
theorem M_globThen_iff (dot ci sb : Bool) (R : Re) (t pre : List Char) (hv : VisG dot t) (a : St)
    (e : t = pre ++ a.rest) (hs : a.atStart = true → pre = [])
    (hR : ∀ c y, Re.M ⟨true, ci⟩ R c y → c.rest ≠ []) :
    (∃ y, y.rest = [] ∧ Re.M ⟨true, ci⟩ (needSepIf sb (.cat (pGstar dot) (.cat (Frag.globstarDiv false) R))) a y) ↔
      ((sb = true → a.rest.head? = some '/') ∧
        ∃ T r, a.rest = T ++ r ∧ GapOK a.atStart T ∧
          ∃ y, y.rest = [] ∧ Re.M ⟨true, ci⟩ R ⟨a.atStart && T.isEmpty, r⟩ y) := by
  have hnl : a.rest.getLast? ≠ some '\n' := by
    cases hr : a.rest with
    | nil => simp
    | cons d s => rw [← hr]; exact suffix_getLast (by rw [hr]; simp) (e ▸ hv.2)
  constructor
  · rintro ⟨y, hy, h⟩
    obtain ⟨hsb, h⟩ := (M_needSepIf _ sb _ a y).mp h
    rw [Re.M.eq_5] at h
    obtain ⟨m, h1, h2⟩ := h
    rw [Re.M.eq_5] at h2
    obtain ⟨c, h2, h3⟩ := h2
    have hc := hR c y h3
    obtain ⟨T, eT, hg, hf⟩ := (gap_iff _ a c hnl hc).mp ⟨m, gstar_sound dot ci a m h1, h2⟩
    refine ⟨hsb, T, c.rest, eT, hg, y, hy, ?_⟩
    rw [← hf]; exact h3
  · rintro ⟨hsb, T, r, eT, hg, y, hy, h3⟩
    have hc := hR _ y h3
    obtain ⟨m, h1, h2⟩ := (gap_iff ⟨true, ci⟩ a ⟨a.atStart && T.isEmpty, r⟩ hnl hc).mpr ⟨T, eT, hg, rfl⟩
    refine ⟨y, hy, (M_needSepIf _ sb _ a y).mpr ⟨hsb, ?_⟩⟩
    rw [Re.M.eq_5]
    refine ⟨m, (gstar_free dot ci t pre hv a m e hs).mpr h1, ?_⟩
    rw [Re.M.eq_5]
    exact ⟨_, h2, h3⟩

/-- **a final globstar** consumes whatever is left (after its written separator, if any) -/
theorem M_globEnd_iff (dot ci sb : Bool) (t pre : List Char) (hv : VisG dot t) (a : St)
    (e : t = pre ++ a.rest) (hs : a.atStart = true → pre = []) :
    (∃ y, y.rest = [] ∧ Re.M ⟨true, ci⟩ (needSepIf sb (.cat (pGstar dot) (.cat (Frag.globstarDiv false)
        (sepIf false (Frag.pathTrail false))))) a y) ↔ (sb = true → a.rest.head? = some '/') := by
  constructor
  · rintro ⟨y, _, h⟩
    exact ((M_needSepIf _ sb _ a y).mp h).1
  · intro hsb
    -- consume everything
    have hex : ∃ m, m.rest = [] ∧ Iter (consume1 (fun _ => true)) a m := by
      cases hr : a.rest with
      | nil => exact ⟨a, hr, Iter.refl _⟩
      | cons d s =>
        exact ⟨⟨false, []⟩, rfl, (iterAny_iff a _).mpr (Or.inr ⟨rfl, d :: s, by simp, by simp [hr]⟩)⟩
    obtain ⟨m, hm, hit⟩ := hex
    refine ⟨m, hm, (M_needSepIf _ sb _ a m).mpr ⟨hsb, ?_⟩⟩
    rw [Re.M.eq_5]
    refine ⟨m, (gstar_free dot ci t pre hv a m e hs).mpr hit, ?_⟩
    rw [Re.M.eq_5]
    refine ⟨m, (M_div_iff _ m m).mpr (Or.inl ⟨rfl, Or.inr (by simp [atEos, hm])⟩), ?_⟩
    simp only [sepIf, Bool.false_eq_true, ite_false, Frag.pathTrail, Re.M.eq_11]
    exact Iter.refl _


/-! ### the specification, cut the same way -/

theorem segsMatch_glob_last (ctx : PCtx) (r : DotRule) (xs : List (List Char)) (pt ptr as : Bool) :
    segsMatch ctx r [.glob] xs pt ptr as =
      (xs.all (visible ctx.dot) && (if xs.isEmpty then (!(as || pt) || ptr) else true)) := by
  simp [segsMatch]

theorem segsMatch_glob_cons (ctx : PCtx) (r : DotRule) (s : Seg) (ss : List Seg) (xs : List (List Char))
    (pt ptr as : Bool) :
    segsMatch ctx r (.glob :: s :: ss) xs pt ptr as =
      (List.range (xs.length + 1)).any (fun k =>
        (xs.take k).all (visible ctx.dot) && segsMatch ctx r (s :: ss) (xs.drop k) pt ptr true) := by
  simp [segsMatch]

theorem segsMatch_patfirst_asep (ctx : PCtx) (r : DotRule) (g : Pat) (ss : List Seg) (xs : List (List Char))
    (pt ptr a1 a2 : Bool) :
    segsMatch ctx r (.pat g :: ss) xs pt ptr a1 = segsMatch ctx r (.pat g :: ss) xs pt ptr a2 := by
  cases xs <;> simp [segsMatch]

/-- the subject from the start of its `k`-th piece on -/
theorem split_at_piece : ∀ (k : Nat) (t : List Char), k < (pieces t).length →
    ∃ T r, t = T ++ r ∧ (T = [] ∨ ∃ T', T = T' ++ ['/']) ∧ r.head? ≠ some '/' ∧ r ≠ [] ∧
      pieces r = (pieces t).drop k := by
  intro k
  induction k with
  | zero =>
    intro t hk
    obtain ⟨pre, r', e, hpre, hhead⟩ := slash_decomp t
    have hp : pieces t = pieces r' := by rw [e, pieces_allSl_append pre r' hpre]
    refine ⟨pre, r', e, ?_, hhead, ?_, by simp [hp]⟩
    · by_cases h : pre = []
      · exact Or.inl h
      · exact Or.inr (allSl_snoc pre hpre h)
    · rintro rfl
      rw [hp, pieces_nil] at hk; simp at hk
  | succ k ih =>
    intro t hk
    obtain ⟨pre, r', e, hpre, hhead⟩ := slash_decomp t
    have hp : pieces t = pieces r' := by rw [e, pieces_allSl_append pre r' hpre]
    obtain ⟨p, r'', e', hsl, hr⟩ := piece_decomp r'
    have hpne : p ≠ [] := by
      rintro rfl
      rcases hr with rfl | ⟨r3, rfl⟩
      · simp only [List.append_nil] at e'
        rw [hp, e', pieces_nil] at hk; simp at hk
      · simp [e'] at hhead
    have hp' : pieces r' = p :: pieces r'' := by rw [e', pieces_append p r'' hsl hpne hr]
    rw [hp, hp'] at hk
    simp only [List.length_cons, Nat.add_lt_add_iff_right] at hk
    obtain ⟨T2, r, e2, hT2, hrh, hrne, hpr⟩ := ih r'' hk
    refine ⟨pre ++ p ++ T2, r, by rw [e, e', e2]; simp, ?_, hrh, hrne, by rw [hpr, hp, hp']; rfl⟩
    right
    rcases hT2 with rfl | ⟨T', rfl⟩
    · -- impossible: `r''` begins with a separator, `r` does not
      exfalso
      simp only [List.nil_append] at e2
      subst e2
      rcases hr with rfl | ⟨r3, rfl⟩
      · exact hrne rfl
      · simp at hrh
    · exact ⟨pre ++ p ++ T', by simp⟩

/-- the specification from a position in the pattern and in the subject -/
def SpecAt (ctx : PCtx) (tr : Bool) (segs : List Seg) (sb : Bool) (t : List Char) : Prop :=
  match segs with
  | [] => allSl t = true ∧ (sb = true → t ≠ [])
  | .pat _ :: _ => (if sb then t.head? = some '/' else t.head? ≠ some '/') ∧
      segsMatch ctx .free segs (pieces t) tr (decide (t.getLast? = some '/')) sb = true
  | .glob :: _ => (sb = true → t.head? = some '/') ∧
      segsMatch ctx .free segs (pieces t) tr (decide (t.getLast? = some '/')) sb = true

/-- where a globstar may stand: after a written separator (then the subject is at a piece
    boundary), or at the very start of the subject -/
def CtxOK (tr : Bool) (segs : List Seg) (sb : Bool) (a : St) : Prop :=
  match segs with
  | .glob :: ss => if sb then AtSep a.rest else (a.atStart = true ∧ (ss = [] → tr = true → a.rest ≠ []))
  | _ => True

theorem nextSb_eq (tr : Bool) (rest : List Seg) :
    (if rest.isEmpty then tr else true) = (match rest with | [] => tr | _ => true) := by
  cases rest <;> rfl

/-- specification: a file-name segment takes the first piece -/
theorem spec_pat_cons (ctx : PCtx) (tr : Bool) (g : Pat) (rest : List Seg) (hgg : noGG rest = true) (t : List Char) :
    SpecAt ctx tr (.pat g :: rest) false t ↔
      ∃ p r, t = p ++ r ∧ p ≠ [] ∧ '/' ∉ p ∧ AtSep r ∧ g.Lang ctx.ci p ∧
        SpecAt ctx tr rest (if rest.isEmpty then tr else true) r := by
  simp only [SpecAt, Bool.false_eq_true, ite_false]
  constructor
  · rintro ⟨hhead, hsm⟩
    obtain ⟨p, r, e, hsl, hr⟩ := piece_decomp t
    have hpne : p ≠ [] := by
      rintro rfl
      rcases hr with rfl | ⟨r', rfl⟩
      · simp only [List.append_nil] at e
        rw [e, pieces_nil, segsMatch_pat_nil] at hsm
        exact absurd hsm (by simp)
      · simp [e] at hhead
    rw [e, pieces_append p r hsl hpne hr, segsMatch_pat_cons, segMatch_free] at hsm
    simp only [Bool.and_eq_true] at hsm
    obtain ⟨hlang, hsm⟩ := hsm
    refine ⟨p, r, e, hpne, hsl, hr, (langR_free_iff ctx.ci g p).mp hlang, ?_⟩
    cases rest with
    | nil =>
      rw [segsMatch_nil] at hsm
      simp only [Bool.and_eq_true, List.isEmpty_iff, Bool.or_eq_true, Bool.not_eq_true',
        decide_eq_true_eq] at hsm
      simp only [List.isEmpty_nil, ite_true]
      refine ⟨allSl_of_pieces_nil r hsm.1, ?_⟩
      intro htr hr0
      rcases hsm.2 with h | h
      · rw [h] at htr; exact absurd htr (by simp)
      · rw [hr0, List.append_nil] at h
        exact getLast_piece_ne_slash p hsl h
    | cons s2 rest2 =>
      have hrne : r ≠ [] := by
        rintro rfl
        rw [pieces_nil] at hsm
        cases s2 with
        | pat g2 => rw [segsMatch_pat_nil] at hsm; exact absurd hsm (by simp)
        | glob =>
          cases rest2 with
          | nil =>
            rw [segsMatch_glob_last] at hsm
            simp only [List.all_nil, List.isEmpty_nil, ite_true, Bool.true_or, Bool.not_true, Bool.false_or,
              Bool.true_and, decide_eq_true_eq, List.append_nil] at hsm
            exact getLast_piece_ne_slash p hsl hsm
          | cons s3 rest3 =>
            cases s3 with
            | glob => simp [noGG] at hgg
            | pat g3 =>
              rw [segsMatch_glob_cons] at hsm
              simp [segsMatch_pat_nil] at hsm
      have hlast : (p ++ r).getLast? = r.getLast? := getLast_append_ne p r hrne
      have hrhead : r.head? = some '/' := by
        rcases hr with rfl | ⟨r', rfl⟩
        · exact absurd rfl hrne
        · rfl
      rw [hlast] at hsm
      cases s2 with
      | pat g2 => exact ⟨by simpa using hrhead, hsm⟩
      | glob => exact ⟨fun _ => hrhead, hsm⟩
  · rintro ⟨p, r, e, hpne, hsl, hr, hlang, hrest⟩
    refine ⟨e ▸ head_not_slash_of_piece p r hsl hpne, ?_⟩
    rw [e, pieces_append p r hsl hpne hr, segsMatch_pat_cons, segMatch_free,
      (langR_free_iff ctx.ci g p).mpr hlang, Bool.true_and]
    cases rest with
    | nil =>
      simp only [List.isEmpty_nil, ite_true] at hrest
      obtain ⟨hall, htr⟩ := hrest
      rw [pieces_allSl r hall, segsMatch_nil]
      simp only [List.isEmpty_nil, Bool.true_and, Bool.or_eq_true, Bool.not_eq_true', decide_eq_true_eq]
      cases htr' : tr with
      | false => exact Or.inl rfl
      | true =>
        right
        have hrne := htr htr'
        rw [getLast_append_ne p r hrne]
        exact allSl_getLast r hall hrne
    | cons s2 rest2 =>
      cases s2 with
      | pat g2 =>
        simp only [List.isEmpty_cons, Bool.false_eq_true, ite_false, ite_true] at hrest
        obtain ⟨hh, hsm⟩ := hrest
        have hrne : r ≠ [] := by rintro rfl; simp at hh
        rw [getLast_append_ne p r hrne]; exact hsm
      | glob =>
        simp only [List.isEmpty_cons, Bool.false_eq_true, ite_false] at hrest
        obtain ⟨hh, hsm⟩ := hrest
        have hrne : r ≠ [] := by rintro rfl; simp at hh
        rw [getLast_append_ne p r hrne]; exact hsm

/-- specification: a written separator before a file-name segment -/
theorem spec_sep (ctx : PCtx) (tr : Bool) (g : Pat) (rest : List Seg) (t : List Char) :
    SpecAt ctx tr (.pat g :: rest) true t ↔
      ∃ pre r', pre ≠ [] ∧ allSl pre = true ∧ t = pre ++ r' ∧ SpecAt ctx tr (.pat g :: rest) false r' := by
  simp only [SpecAt, ite_true, Bool.false_eq_true, ite_false]
  constructor
  · rintro ⟨hh, hsm⟩
    obtain ⟨pre, r', e, hpre, hr'head⟩ := slash_decomp t
    have hprene : pre ≠ [] := by
      rintro rfl
      simp only [List.nil_append] at e
      subst e
      exact hr'head hh
    rw [e, pieces_allSl_append pre r' hpre] at hsm
    have hr'ne : r' ≠ [] := by
      rintro rfl
      rw [pieces_nil, segsMatch_pat_nil] at hsm
      exact absurd hsm (by simp)
    rw [getLast_append_ne pre r' hr'ne, segsMatch_patfirst_asep ctx .free g rest _ _ _ true false] at hsm
    exact ⟨pre, r', hprene, hpre, e, hr'head, hsm⟩
  · rintro ⟨pre, r', hprene, hpre, e, hr'head, hsm⟩
    have hr'ne : r' ≠ [] := by
      rintro rfl
      rw [pieces_nil, segsMatch_pat_nil] at hsm
      exact absurd hsm (by simp)
    refine ⟨?_, ?_⟩
    · rw [e]
      rcases allSl_head pre hpre with rfl | ⟨x, rfl⟩
      · exact absurd rfl hprene
      · rfl
    · rw [e, pieces_allSl_append pre r' hpre, getLast_append_ne pre r' hr'ne,
        segsMatch_patfirst_asep ctx .free g rest _ _ _ true false]
      exact hsm

/-- specification: a final globstar takes all the remaining pieces -/
theorem spec_glob_end (ctx : PCtx) (tr sb f : Bool) (t : List Char)
    (hvis : ∀ p ∈ pieces t, visible ctx.dot p = true)
    (hctx : if sb then AtSep t else (f = true ∧ (tr = true → t ≠ []))) :
    SpecAt ctx tr [.glob] sb t ↔ (sb = true → t.head? = some '/') := by
  simp only [SpecAt]
  constructor
  · exact fun h => h.1
  · intro hsb
    refine ⟨hsb, ?_⟩
    rw [segsMatch_glob_last]
    have hall : (pieces t).all (visible ctx.dot) = true := by
      rw [List.all_eq_true]; exact hvis
    rw [hall, Bool.true_and]
    cases hp : pieces t with
    | cons x xs => simp
    | nil =>
      simp only [List.isEmpty_nil, ite_true, Bool.or_eq_true, Bool.not_eq_true', Bool.or_eq_false_iff,
        decide_eq_true_eq]
      have hsl := allSl_of_pieces_nil t hp
      cases sb with
      | true =>
        right
        have hh := hsb rfl
        have hne : t ≠ [] := by rintro rfl; simp at hh
        exact allSl_getLast t hsl hne
      | false =>
        simp only [Bool.false_eq_true, ite_false] at hctx
        cases htr : tr with
        | false => exact Or.inl ⟨rfl, rfl⟩
        | true => exact Or.inr (allSl_getLast t hsl (hctx.2 htr))

/-- specification: a globstar followed by a file-name segment takes whole pieces -/
theorem spec_glob_cons (ctx : PCtx) (tr sb f : Bool) (g2 : Pat) (ss : List Seg) (t : List Char)
    (hvis : ∀ p ∈ pieces t, visible ctx.dot p = true) (hctx : sb = false → f = true) :
    SpecAt ctx tr (.glob :: .pat g2 :: ss) sb t ↔
      ((sb = true → t.head? = some '/') ∧
        ∃ T r, t = T ++ r ∧ GapOK f T ∧ SpecAt ctx tr (.pat g2 :: ss) false r) := by
  simp only [SpecAt, Bool.false_eq_true, ite_false]
  constructor
  · rintro ⟨hsb, hsm⟩
    refine ⟨hsb, ?_⟩
    rw [segsMatch_glob_cons, List.any_eq_true] at hsm
    obtain ⟨k, hk, hsm⟩ := hsm
    simp only [Bool.and_eq_true] at hsm
    have hklt : k < (pieces t).length := by
      by_cases h : k < (pieces t).length
      · exact h
      · exfalso
        have : (pieces t).drop k = [] := List.drop_eq_nil_iff.mpr (by omega)
        rw [this, segsMatch_pat_nil] at hsm
        exact absurd hsm.2 (by simp)
    obtain ⟨T, r, e, hT, hrh, hrne, hpr⟩ := split_at_piece k t hklt
    refine ⟨T, r, e, ?_, hrh, ?_⟩
    · rcases hT with rfl | hT
      · left
        refine ⟨rfl, ?_⟩
        cases hsb' : sb with
        | false => exact hctx hsb'
        | true =>
          exfalso
          simp only [List.nil_append] at e
          subst e
          exact hrh (hsb hsb')
      · exact Or.inr hT
    · rw [hpr, ← getLast_append_ne T r hrne, ← e, segsMatch_patfirst_asep ctx .free g2 ss _ _ _ false true]
      exact hsm.2
  · rintro ⟨hsb, T, r, e, hg, hrh, hsm⟩
    refine ⟨hsb, ?_⟩
    have hrne : r ≠ [] := by
      rintro rfl
      rw [pieces_nil, segsMatch_pat_nil] at hsm
      exact absurd hsm (by simp)
    have hT : T = [] ∨ ∃ T', T = T' ++ ['/'] := by
      rcases hg with ⟨h, _⟩ | h
      · exact Or.inl h
      · exact Or.inr h
    have hp : pieces t = pieces T ++ pieces r := by rw [e, pieces_gap T r hT]
    rw [segsMatch_glob_cons, List.any_eq_true]
    refine ⟨(pieces T).length, List.mem_range.mpr (by rw [hp]; simp; omega), ?_⟩
    simp only [Bool.and_eq_true]
    refine ⟨?_, ?_⟩
    · rw [List.all_eq_true]
      intro x hx
      exact hvis x (List.mem_of_mem_take hx)
    · rw [hp, List.drop_left, e, getLast_append_ne T r hrne,
        segsMatch_patfirst_asep ctx .free g2 ss _ _ _ true false]
      exact hsm


/-! ### the compiled pattern, segment by segment -/

/-- the position of a state inside the subject `t`: what has been read, whether that is nothing,
    and that the unread part cuts into pieces of `t` -/
def Pos (t : List Char) (a : St) : Prop :=
  ∃ pre, t = pre ++ a.rest ∧ (a.atStart = true → pre = []) ∧ (∀ p ∈ pieces a.rest, p ∈ pieces t)

theorem Pos.visG {dot : Bool} {t : List Char} {a : St} (hv : VisG dot t) (h : Pos t a) : VisG dot a.rest := by
  obtain ⟨pre, e, _, hsub⟩ := h
  exact VisG.tail (x := pre) (e ▸ hv) (fun p hp => e ▸ hsub p hp)

theorem Pos.after_piece {t : List Char} {a : St} (h : Pos t a) (p r : List Char) (e : a.rest = p ++ r)
    (hsl : '/' ∉ p) (hne : p ≠ []) (hr : AtSep r) : Pos t ⟨false, r⟩ := by
  obtain ⟨pre, et, _, hsub⟩ := h
  refine ⟨pre ++ p, by rw [et, e, List.append_assoc], by simp, ?_⟩
  intro q hq
  apply hsub
  rw [e, pieces_append p r hsl hne hr]
  exact List.mem_cons_of_mem _ hq

theorem Pos.after_sep {t : List Char} {a : St} (h : Pos t a) (pre0 r' : List Char) (e : a.rest = pre0 ++ r')
    (hp : allSl pre0 = true) : Pos t ⟨false, r'⟩ := by
  obtain ⟨pre, et, _, hsub⟩ := h
  refine ⟨pre ++ pre0, by rw [et, e, List.append_assoc], by simp, ?_⟩
  intro q hq
  apply hsub
  rw [e, pieces_allSl_append pre0 r' hp]
  exact hq

theorem Pos.after_gap {t : List Char} {a : St} (h : Pos t a) (T r : List Char) (e : a.rest = T ++ r)
    (hg : GapOK a.atStart T) : Pos t ⟨a.atStart && T.isEmpty, r⟩ := by
  obtain ⟨pre, et, hs, hsub⟩ := h
  refine ⟨pre ++ T, by rw [et, e, List.append_assoc], ?_, ?_⟩
  · intro hf
    simp only [Bool.and_eq_true, List.isEmpty_iff] at hf
    rw [hs hf.1, hf.2]; rfl
  · intro q hq
    apply hsub
    have hT : T = [] ∨ ∃ T', T = T' ++ ['/'] := by
      rcases hg with ⟨h, _⟩ | h
      · exact Or.inl h
      · exact Or.inr h
    rw [e, pieces_gap T r hT]
    exact List.mem_append_right _ hq

theorem pathRe_pat_unfold (dot tr : Bool) (g : Pat) (rest : List Seg) :
    pathRe dot tr (.pat g :: rest) false =
      .cat (compSeg dot true g) (pathRe dot tr rest (if rest.isEmpty then tr else true)) := by
  simp [pathRe, sepIf]

theorem pathRe_glob_unfold (dot tr sb : Bool) (rest : List Seg) :
    pathRe dot tr (.glob :: rest) sb =
      needSepIf sb (.cat (pGstar dot) (.cat (Frag.globstarDiv false) (pathRe dot tr rest false))) := by
  simp [pathRe]

theorem RTail_rest (md : Mode) (dot tr : Bool) (rest : List Seg) :
    RTail md (pathRe dot tr rest (if rest.isEmpty then tr else true)) := by
  cases rest with
  | nil => simp only [List.isEmpty_nil, ite_true, pathRe]; exact RTail_end md tr
  | cons s rest' =>
    simp only [List.isEmpty_cons, Bool.false_eq_true, ite_false]
    cases s with
    | pat g => rw [pathRe_true]; exact RTail_sep md _
    | glob => rw [pathRe_glob_unfold]; exact RTail_needSep md _

/-- a file-name segment needs something to read -/
theorem pathRe_pat_ne (dot ci tr : Bool) (g : Pat) (hg : g.segScope = true) (rest : List Seg) (c y : St)
    (h : Re.M ⟨true, ci⟩ (pathRe dot tr (.pat g :: rest) false) c y) : c.rest ≠ [] := by
  obtain ⟨hn, hs, _, hsol⟩ := (segScope_iff g).mp hg
  rw [pathRe_pat_unfold, Re.M.eq_5] at h
  obtain ⟨m, h1, _⟩ := h
  rcases compSeg_solid dot ci g hn hs true hsol c m h1 with hlt | ⟨_, hna⟩
  · intro h0; rw [h0] at hlt; simp at hlt
  · intro h0; exact hna (Or.inl h0)

theorem ctx_after_piece (tr : Bool) (rest : List Seg) (r : List Char) (hr : AtSep r) :
    CtxOK tr rest (if rest.isEmpty then tr else true) ⟨false, r⟩ := by
  cases rest with
  | nil => trivial
  | cons s rest' =>
    cases s with
    | pat g => trivial
    | glob => simpa [CtxOK] using hr

/-- **the compiled pattern from any position, against the specification from that position** -/
theorem pathRe_sem (ctx : PCtx) (tr : Bool) (t : List Char) (hv : VisG ctx.dot t) :
    ∀ segs, noGG segs = true → (∀ s ∈ segs, s.scope = true) → ∀ sb a, Pos t a → CtxOK tr segs sb a →
      ((∃ y, y.rest = [] ∧ Re.M ⟨true, ctx.ci⟩ (pathRe ctx.dot tr segs sb) a y) ↔
        SpecAt ctx tr segs sb a.rest) := by
  intro segs
  induction segs with
  | nil =>
    intro _ _ sb a _ _
    simp only [pathRe, SpecAt]
    exact M_end_iff _ sb a
  | cons s rest ih =>
    intro hgg hsc sb a hpos hctx
    cases s with
    | pat g =>
      have hg : g.segScope = true := by simpa [Seg.scope] using hsc (.pat g) List.mem_cons_self
      have hgg' : noGG rest = true := by simpa [noGG] using hgg
      have ih' := ih hgg' (fun s hs => hsc s (List.mem_cons_of_mem _ hs))
      have Hf : ∀ a : St, Pos t a →
          ((∃ y, y.rest = [] ∧ Re.M ⟨true, ctx.ci⟩ (pathRe ctx.dot tr (.pat g :: rest) false) a y) ↔
            SpecAt ctx tr (.pat g :: rest) false a.rest) := by
        intro a hpos
        rw [pathRe_pat_unfold, M_segThen_iff ctx.dot ctx.ci g hg _ (RTail_rest _ _ _ rest) a (hpos.visG hv).vis,
          spec_pat_cons ctx tr g rest hgg' a.rest]
        constructor
        · rintro ⟨p, r, e, hpne, hsl, hr, hlang, hrest⟩
          exact ⟨p, r, e, hpne, hsl, hr, hlang,
            (ih' _ ⟨false, r⟩ (hpos.after_piece p r e hsl hpne hr) (ctx_after_piece tr rest r hr)).mp hrest⟩
        · rintro ⟨p, r, e, hpne, hsl, hr, hlang, hrest⟩
          exact ⟨p, r, e, hpne, hsl, hr, hlang,
            (ih' _ ⟨false, r⟩ (hpos.after_piece p r e hsl hpne hr) (ctx_after_piece tr rest r hr)).mpr hrest⟩
      cases sb with
      | false => exact Hf a hpos
      | true =>
        rw [pathRe_true, M_sepThen_iff, spec_sep]
        constructor
        · rintro ⟨pre0, r', hne, hp, e, hrest⟩
          exact ⟨pre0, r', hne, hp, e, (Hf ⟨false, r'⟩ (hpos.after_sep pre0 r' e hp)).mp hrest⟩
        · rintro ⟨pre0, r', hne, hp, e, hrest⟩
          exact ⟨pre0, r', hne, hp, e, (Hf ⟨false, r'⟩ (hpos.after_sep pre0 r' e hp)).mpr hrest⟩
    | glob =>
      have hvis : ∀ p ∈ pieces a.rest, visible ctx.dot p = true := (hpos.visG hv).1
      obtain ⟨pre, e, hs, hsub⟩ := hpos
      cases rest with
      | nil =>
        rw [pathRe_glob_unfold]
        have : pathRe ctx.dot tr [] false = sepIf false (Frag.pathTrail false) := by simp [pathRe]
        rw [this, M_globEnd_iff ctx.dot ctx.ci sb t pre hv a e hs]
        refine (spec_glob_end ctx tr sb a.atStart a.rest hvis ?_).symm
        cases sb with
        | true => simpa [CtxOK] using hctx
        | false => simpa [CtxOK] using hctx
      | cons s2 ss =>
        cases s2 with
        | glob => simp [noGG] at hgg
        | pat g2 =>
          have hg2 : g2.segScope = true := by
            simpa [Seg.scope] using hsc (.pat g2) (List.mem_cons_of_mem _ List.mem_cons_self)
          have hgg' : noGG (.pat g2 :: ss) = true := by simpa [noGG] using hgg
          have ih' := ih hgg' (fun s hs => hsc s (List.mem_cons_of_mem _ hs))
          have hctx' : sb = false → a.atStart = true := by
            intro hsb; subst hsb
            simp only [CtxOK, Bool.false_eq_true, ite_false] at hctx
            exact hctx.1
          rw [pathRe_glob_unfold, M_globThen_iff ctx.dot ctx.ci sb _ t pre hv a e hs
              (fun c y h => pathRe_pat_ne ctx.dot ctx.ci tr g2 hg2 ss c y h),
            spec_glob_cons ctx tr sb a.atStart g2 ss a.rest hvis hctx']
          have hpos : Pos t a := ⟨pre, e, hs, hsub⟩
          constructor
          · rintro ⟨hsb, T, r, eT, hgap, hrest⟩
            exact ⟨hsb, T, r, eT, hgap, (ih' false _ (hpos.after_gap T r eT hgap) trivial).mp hrest⟩
          · rintro ⟨hsb, T, r, eT, hgap, hrest⟩
            exact ⟨hsb, T, r, eT, hgap, (ih' false _ (hpos.after_gap T r eT hgap) trivial).mpr hrest⟩

/-! ### whole patterns -/

theorem specAt_top (ctx : PCtx) (abs tr : Bool) (segs : List Seg) (hwf : segs = [] → abs = true) (s : List Char) :
    SpecAt ctx tr segs abs s ↔ pathLangR ctx .free ⟨abs, segs, tr⟩ s = true := by
  unfold pathLangR
  cases segs with
  | nil =>
    have habs := hwf rfl
    subst habs
    simp only [SpecAt, forall_const, ite_true, segsMatch_nil, Bool.and_eq_true, decide_eq_true_eq,
      List.isEmpty_iff, Bool.or_eq_true, Bool.not_eq_true']
    constructor
    · rintro ⟨hall, hne⟩
      refine ⟨?_, pieces_allSl s hall, Or.inr (allSl_getLast s hall hne)⟩
      rcases allSl_head s hall with rfl | ⟨r', rfl⟩
      · exact absurd rfl hne
      · rfl
    · rintro ⟨hh, hnil, _⟩
      refine ⟨allSl_of_pieces_nil s hnil, ?_⟩
      rintro rfl
      simp at hh
  | cons sg rest =>
    cases sg with
    | pat g => cases abs <;> simp [SpecAt, pieces]
    | glob => cases abs <;> simp [SpecAt, pieces]

/-- **semantics of the tidy path compiler, patterns with globstars** -/
theorem compPath_glob_sem (ctx : PCtx) (pp : PathPat)
    (hsc : pp.segs.all Seg.scope = true) (hgg : noGG pp.segs = true) (hwf : pp.segs = [] → pp.abs = true)
    (s : List Char) (hv : VisG ctx.dot s)
    (hex : pp.segs = [.glob] → pp.abs = false → pp.trailing = true → s ≠ []) :
    (wrapRe ctx.ci (compPath ctx.dot pp)).FullMatch s ↔ pathLangR ctx .free pp s = true := by
  rcases pp with ⟨abs, segs, tr⟩
  simp only at hsc hgg hwf hex
  rw [wrapRe_fullmatch, ← specAt_top ctx abs tr segs hwf s]
  unfold compPath
  simp only
  have hsc' : ∀ sg ∈ segs, sg.scope = true := by
    rw [List.all_eq_true] at hsc; exact hsc
  have hpos : Pos s ⟨true, s⟩ := ⟨[], rfl, fun _ => rfl, fun p hp => hp⟩
  by_cases hc : CtxOK tr segs abs ⟨true, s⟩
  · exact pathRe_sem ctx tr s hv segs hgg hsc' abs ⟨true, s⟩ hpos hc
  · -- only possible for an absolute pattern that begins with a globstar, on a relative subject
    cases segs with
    | nil => exact absurd trivial hc
    | cons sg rest =>
      cases sg with
      | pat g => exact absurd trivial hc
      | glob =>
        cases abs with
        | false =>
          exfalso; apply hc
          simp only [CtxOK, Bool.false_eq_true, ite_false, true_and]
          intro hr htr
          exact hex (by rw [hr]) rfl htr
        | true =>
          simp only [CtxOK, ite_true] at hc
          have hhead : s.head? ≠ some '/' := by
            intro hh
            apply hc
            cases s with
            | nil => exact Or.inl rfl
            | cons d v => simp at hh; exact Or.inr ⟨v, by rw [hh]⟩
          constructor
          · rintro ⟨y, _, h⟩
            rw [pathRe_glob_unfold] at h
            exact absurd (((M_needSepIf _ true _ _ y).mp h).1 rfl) hhead
          · intro h
            simp only [SpecAt, forall_const] at h
            exact absurd h.1 hhead

end WcModel

import WcModel.Proofs.GlobFlags
/-
  Two facts about flag words that the path-mode C09 corollary needs:
    * `Flags.ofNat_toNat` — decoding the integer that `Flags.toNat` builds gives the record back
      (`compilePart` hands `f.toNat` to the parser driver, which decodes it again);
    * what `glob._flag_transform` does to each bit of an arbitrary user flag word.
-/
namespace WcModel

theorem bitIf_eq (b : Bool) (v : Nat) : ∃ y, y ≤ 1 ∧ (y = 1 ↔ b = true) ∧ bitIf b v = v * y := by
  cases b
  · exact ⟨0, by omega, by simp, by simp [bitIf]⟩
  · exact ⟨1, by omega, by simp, by simp [bitIf]⟩

theorem tb_div (n k : Nat) : n.testBit k = decide (n / 2 ^ k % 2 = 1) := Nat.testBit_eq_decide_div_mod_eq

set_option maxHeartbeats 1000000 in
/-- `Flags.ofNat` is a left inverse of `Flags.toNat` (27 independent bits) -/
theorem Flags.ofNat_toNat (f : Flags) : Flags.ofNat f.toNat = f := by
  obtain ⟨b0,b1,b2,b3,b4,b5,b6,b7,b8,b9,b10,b11,b12,b13,b14,b15,b16,b17,b18,b19,b20,b21,b22,b23,b24,b25,b26⟩ := f
  obtain ⟨y0, l0, e0, h0⟩ := bitIf_eq b0 Gen.FCASE
  obtain ⟨y1, l1, e1, h1⟩ := bitIf_eq b1 Gen.FIGNORECASE
  obtain ⟨y2, l2, e2, h2⟩ := bitIf_eq b2 Gen.FRAWCHARS
  obtain ⟨y3, l3, e3, h3⟩ := bitIf_eq b3 Gen.FNEGATE
  obtain ⟨y4, l4, e4, h4⟩ := bitIf_eq b4 Gen.FMINUSNEGATE
  obtain ⟨y5, l5, e5, h5⟩ := bitIf_eq b5 Gen.FPATHNAME
  obtain ⟨y6, l6, e6, h6⟩ := bitIf_eq b6 Gen.FDOTMATCH
  obtain ⟨y7, l7, e7, h7⟩ := bitIf_eq b7 Gen.FEXTMATCH
  obtain ⟨y8, l8, e8, h8⟩ := bitIf_eq b8 Gen.FGLOBSTAR
  obtain ⟨y9, l9, e9, h9⟩ := bitIf_eq b9 Gen.FBRACE
  obtain ⟨y10, l10, e10, h10⟩ := bitIf_eq b10 Gen.FREALPATH
  obtain ⟨y11, l11, e11, h11⟩ := bitIf_eq b11 Gen.FFOLLOW
  obtain ⟨y12, l12, e12, h12⟩ := bitIf_eq b12 Gen.FSPLIT
  obtain ⟨y13, l13, e13, h13⟩ := bitIf_eq b13 Gen.FMATCHBASE
  obtain ⟨y14, l14, e14, h14⟩ := bitIf_eq b14 Gen.FNODIR
  obtain ⟨y15, l15, e15, h15⟩ := bitIf_eq b15 Gen.FNEGATEALL
  obtain ⟨y16, l16, e16, h16⟩ := bitIf_eq b16 Gen.FFORCEWIN
  obtain ⟨y17, l17, e17, h17⟩ := bitIf_eq b17 Gen.FFORCEUNIX
  obtain ⟨y18, l18, e18, h18⟩ := bitIf_eq b18 Gen.FGLOBTILDE
  obtain ⟨y19, l19, e19, h19⟩ := bitIf_eq b19 Gen.FNOUNIQUE
  obtain ⟨y20, l20, e20, h20⟩ := bitIf_eq b20 Gen.FNODOTDIR
  obtain ⟨y21, l21, e21, h21⟩ := bitIf_eq b21 Gen.FGLOBSTARLONG
  obtain ⟨y22, l22, e22, h22⟩ := bitIf_eq b22 Gen.F_TRANSLATE
  obtain ⟨y23, l23, e23, h23⟩ := bitIf_eq b23 Gen.F_ANCHOR
  obtain ⟨y24, l24, e24, h24⟩ := bitIf_eq b24 Gen.F_EXTMATCHBASE
  obtain ⟨y25, l25, e25, h25⟩ := bitIf_eq b25 Gen.F_NOABSOLUTE
  obtain ⟨y26, l26, e26, h26⟩ := bitIf_eq b26 Gen.F_NO_GLOBSTAR_CAPTURE
  simp only [Flags.toNat, h0,h1,h2,h3,h4,h5,h6,h7,h8,h9,h10,h11,h12,h13,h14,h15,h16,h17,h18,h19,h20,h21,h22,h23,h24,h25,h26]
  simp only [Flags.ofNat, Flags.mk.injEq]
  have hb : ∀ (n k : Nat) (b : Bool) (y : Nat), (y = 1 ↔ b = true) → n / 2 ^ k % 2 = y → hasBit n (2 ^ k) = b := by
    intro n k b y e h
    rw [hasBit_pow, tb_div, h]
    cases b <;> simp_all
  refine ⟨?_, ?_, ?_, ?_, ?_, ?_, ?_, ?_, ?_, ?_, ?_, ?_, ?_, ?_, ?_, ?_, ?_, ?_, ?_, ?_, ?_, ?_, ?_, ?_, ?_, ?_, ?_⟩
  · exact hb _ 0 b0 y0 e0 (by simp only [Gen.FCASE, Gen.FIGNORECASE, Gen.FRAWCHARS, Gen.FNEGATE, Gen.FMINUSNEGATE, Gen.FPATHNAME, Gen.FDOTMATCH, Gen.FEXTMATCH, Gen.FGLOBSTAR, Gen.FBRACE, Gen.FREALPATH, Gen.FFOLLOW, Gen.FSPLIT, Gen.FMATCHBASE, Gen.FNODIR, Gen.FNEGATEALL, Gen.FFORCEWIN, Gen.FFORCEUNIX, Gen.FGLOBTILDE, Gen.FNOUNIQUE, Gen.FNODOTDIR, Gen.FGLOBSTARLONG, Gen.F_TRANSLATE, Gen.F_ANCHOR, Gen.F_EXTMATCHBASE, Gen.F_NOABSOLUTE, Gen.F_NO_GLOBSTAR_CAPTURE]; omega)
  · exact hb _ 1 b1 y1 e1 (by simp only [Gen.FCASE, Gen.FIGNORECASE, Gen.FRAWCHARS, Gen.FNEGATE, Gen.FMINUSNEGATE, Gen.FPATHNAME, Gen.FDOTMATCH, Gen.FEXTMATCH, Gen.FGLOBSTAR, Gen.FBRACE, Gen.FREALPATH, Gen.FFOLLOW, Gen.FSPLIT, Gen.FMATCHBASE, Gen.FNODIR, Gen.FNEGATEALL, Gen.FFORCEWIN, Gen.FFORCEUNIX, Gen.FGLOBTILDE, Gen.FNOUNIQUE, Gen.FNODOTDIR, Gen.FGLOBSTARLONG, Gen.F_TRANSLATE, Gen.F_ANCHOR, Gen.F_EXTMATCHBASE, Gen.F_NOABSOLUTE, Gen.F_NO_GLOBSTAR_CAPTURE]; omega)
  · exact hb _ 2 b2 y2 e2 (by simp only [Gen.FCASE, Gen.FIGNORECASE, Gen.FRAWCHARS, Gen.FNEGATE, Gen.FMINUSNEGATE, Gen.FPATHNAME, Gen.FDOTMATCH, Gen.FEXTMATCH, Gen.FGLOBSTAR, Gen.FBRACE, Gen.FREALPATH, Gen.FFOLLOW, Gen.FSPLIT, Gen.FMATCHBASE, Gen.FNODIR, Gen.FNEGATEALL, Gen.FFORCEWIN, Gen.FFORCEUNIX, Gen.FGLOBTILDE, Gen.FNOUNIQUE, Gen.FNODOTDIR, Gen.FGLOBSTARLONG, Gen.F_TRANSLATE, Gen.F_ANCHOR, Gen.F_EXTMATCHBASE, Gen.F_NOABSOLUTE, Gen.F_NO_GLOBSTAR_CAPTURE]; omega)
  · exact hb _ 3 b3 y3 e3 (by simp only [Gen.FCASE, Gen.FIGNORECASE, Gen.FRAWCHARS, Gen.FNEGATE, Gen.FMINUSNEGATE, Gen.FPATHNAME, Gen.FDOTMATCH, Gen.FEXTMATCH, Gen.FGLOBSTAR, Gen.FBRACE, Gen.FREALPATH, Gen.FFOLLOW, Gen.FSPLIT, Gen.FMATCHBASE, Gen.FNODIR, Gen.FNEGATEALL, Gen.FFORCEWIN, Gen.FFORCEUNIX, Gen.FGLOBTILDE, Gen.FNOUNIQUE, Gen.FNODOTDIR, Gen.FGLOBSTARLONG, Gen.F_TRANSLATE, Gen.F_ANCHOR, Gen.F_EXTMATCHBASE, Gen.F_NOABSOLUTE, Gen.F_NO_GLOBSTAR_CAPTURE]; omega)
  · exact hb _ 4 b4 y4 e4 (by simp only [Gen.FCASE, Gen.FIGNORECASE, Gen.FRAWCHARS, Gen.FNEGATE, Gen.FMINUSNEGATE, Gen.FPATHNAME, Gen.FDOTMATCH, Gen.FEXTMATCH, Gen.FGLOBSTAR, Gen.FBRACE, Gen.FREALPATH, Gen.FFOLLOW, Gen.FSPLIT, Gen.FMATCHBASE, Gen.FNODIR, Gen.FNEGATEALL, Gen.FFORCEWIN, Gen.FFORCEUNIX, Gen.FGLOBTILDE, Gen.FNOUNIQUE, Gen.FNODOTDIR, Gen.FGLOBSTARLONG, Gen.F_TRANSLATE, Gen.F_ANCHOR, Gen.F_EXTMATCHBASE, Gen.F_NOABSOLUTE, Gen.F_NO_GLOBSTAR_CAPTURE]; omega)
  · exact hb _ 5 b5 y5 e5 (by simp only [Gen.FCASE, Gen.FIGNORECASE, Gen.FRAWCHARS, Gen.FNEGATE, Gen.FMINUSNEGATE, Gen.FPATHNAME, Gen.FDOTMATCH, Gen.FEXTMATCH, Gen.FGLOBSTAR, Gen.FBRACE, Gen.FREALPATH, Gen.FFOLLOW, Gen.FSPLIT, Gen.FMATCHBASE, Gen.FNODIR, Gen.FNEGATEALL, Gen.FFORCEWIN, Gen.FFORCEUNIX, Gen.FGLOBTILDE, Gen.FNOUNIQUE, Gen.FNODOTDIR, Gen.FGLOBSTARLONG, Gen.F_TRANSLATE, Gen.F_ANCHOR, Gen.F_EXTMATCHBASE, Gen.F_NOABSOLUTE, Gen.F_NO_GLOBSTAR_CAPTURE]; omega)
  · exact hb _ 6 b6 y6 e6 (by simp only [Gen.FCASE, Gen.FIGNORECASE, Gen.FRAWCHARS, Gen.FNEGATE, Gen.FMINUSNEGATE, Gen.FPATHNAME, Gen.FDOTMATCH, Gen.FEXTMATCH, Gen.FGLOBSTAR, Gen.FBRACE, Gen.FREALPATH, Gen.FFOLLOW, Gen.FSPLIT, Gen.FMATCHBASE, Gen.FNODIR, Gen.FNEGATEALL, Gen.FFORCEWIN, Gen.FFORCEUNIX, Gen.FGLOBTILDE, Gen.FNOUNIQUE, Gen.FNODOTDIR, Gen.FGLOBSTARLONG, Gen.F_TRANSLATE, Gen.F_ANCHOR, Gen.F_EXTMATCHBASE, Gen.F_NOABSOLUTE, Gen.F_NO_GLOBSTAR_CAPTURE]; omega)
  · exact hb _ 7 b7 y7 e7 (by simp only [Gen.FCASE, Gen.FIGNORECASE, Gen.FRAWCHARS, Gen.FNEGATE, Gen.FMINUSNEGATE, Gen.FPATHNAME, Gen.FDOTMATCH, Gen.FEXTMATCH, Gen.FGLOBSTAR, Gen.FBRACE, Gen.FREALPATH, Gen.FFOLLOW, Gen.FSPLIT, Gen.FMATCHBASE, Gen.FNODIR, Gen.FNEGATEALL, Gen.FFORCEWIN, Gen.FFORCEUNIX, Gen.FGLOBTILDE, Gen.FNOUNIQUE, Gen.FNODOTDIR, Gen.FGLOBSTARLONG, Gen.F_TRANSLATE, Gen.F_ANCHOR, Gen.F_EXTMATCHBASE, Gen.F_NOABSOLUTE, Gen.F_NO_GLOBSTAR_CAPTURE]; omega)
  · exact hb _ 8 b8 y8 e8 (by simp only [Gen.FCASE, Gen.FIGNORECASE, Gen.FRAWCHARS, Gen.FNEGATE, Gen.FMINUSNEGATE, Gen.FPATHNAME, Gen.FDOTMATCH, Gen.FEXTMATCH, Gen.FGLOBSTAR, Gen.FBRACE, Gen.FREALPATH, Gen.FFOLLOW, Gen.FSPLIT, Gen.FMATCHBASE, Gen.FNODIR, Gen.FNEGATEALL, Gen.FFORCEWIN, Gen.FFORCEUNIX, Gen.FGLOBTILDE, Gen.FNOUNIQUE, Gen.FNODOTDIR, Gen.FGLOBSTARLONG, Gen.F_TRANSLATE, Gen.F_ANCHOR, Gen.F_EXTMATCHBASE, Gen.F_NOABSOLUTE, Gen.F_NO_GLOBSTAR_CAPTURE]; omega)
  · exact hb _ 9 b9 y9 e9 (by simp only [Gen.FCASE, Gen.FIGNORECASE, Gen.FRAWCHARS, Gen.FNEGATE, Gen.FMINUSNEGATE, Gen.FPATHNAME, Gen.FDOTMATCH, Gen.FEXTMATCH, Gen.FGLOBSTAR, Gen.FBRACE, Gen.FREALPATH, Gen.FFOLLOW, Gen.FSPLIT, Gen.FMATCHBASE, Gen.FNODIR, Gen.FNEGATEALL, Gen.FFORCEWIN, Gen.FFORCEUNIX, Gen.FGLOBTILDE, Gen.FNOUNIQUE, Gen.FNODOTDIR, Gen.FGLOBSTARLONG, Gen.F_TRANSLATE, Gen.F_ANCHOR, Gen.F_EXTMATCHBASE, Gen.F_NOABSOLUTE, Gen.F_NO_GLOBSTAR_CAPTURE]; omega)
  · exact hb _ 10 b10 y10 e10 (by simp only [Gen.FCASE, Gen.FIGNORECASE, Gen.FRAWCHARS, Gen.FNEGATE, Gen.FMINUSNEGATE, Gen.FPATHNAME, Gen.FDOTMATCH, Gen.FEXTMATCH, Gen.FGLOBSTAR, Gen.FBRACE, Gen.FREALPATH, Gen.FFOLLOW, Gen.FSPLIT, Gen.FMATCHBASE, Gen.FNODIR, Gen.FNEGATEALL, Gen.FFORCEWIN, Gen.FFORCEUNIX, Gen.FGLOBTILDE, Gen.FNOUNIQUE, Gen.FNODOTDIR, Gen.FGLOBSTARLONG, Gen.F_TRANSLATE, Gen.F_ANCHOR, Gen.F_EXTMATCHBASE, Gen.F_NOABSOLUTE, Gen.F_NO_GLOBSTAR_CAPTURE]; omega)
  · exact hb _ 11 b11 y11 e11 (by simp only [Gen.FCASE, Gen.FIGNORECASE, Gen.FRAWCHARS, Gen.FNEGATE, Gen.FMINUSNEGATE, Gen.FPATHNAME, Gen.FDOTMATCH, Gen.FEXTMATCH, Gen.FGLOBSTAR, Gen.FBRACE, Gen.FREALPATH, Gen.FFOLLOW, Gen.FSPLIT, Gen.FMATCHBASE, Gen.FNODIR, Gen.FNEGATEALL, Gen.FFORCEWIN, Gen.FFORCEUNIX, Gen.FGLOBTILDE, Gen.FNOUNIQUE, Gen.FNODOTDIR, Gen.FGLOBSTARLONG, Gen.F_TRANSLATE, Gen.F_ANCHOR, Gen.F_EXTMATCHBASE, Gen.F_NOABSOLUTE, Gen.F_NO_GLOBSTAR_CAPTURE]; omega)
  · exact hb _ 12 b12 y12 e12 (by simp only [Gen.FCASE, Gen.FIGNORECASE, Gen.FRAWCHARS, Gen.FNEGATE, Gen.FMINUSNEGATE, Gen.FPATHNAME, Gen.FDOTMATCH, Gen.FEXTMATCH, Gen.FGLOBSTAR, Gen.FBRACE, Gen.FREALPATH, Gen.FFOLLOW, Gen.FSPLIT, Gen.FMATCHBASE, Gen.FNODIR, Gen.FNEGATEALL, Gen.FFORCEWIN, Gen.FFORCEUNIX, Gen.FGLOBTILDE, Gen.FNOUNIQUE, Gen.FNODOTDIR, Gen.FGLOBSTARLONG, Gen.F_TRANSLATE, Gen.F_ANCHOR, Gen.F_EXTMATCHBASE, Gen.F_NOABSOLUTE, Gen.F_NO_GLOBSTAR_CAPTURE]; omega)
  · exact hb _ 13 b13 y13 e13 (by simp only [Gen.FCASE, Gen.FIGNORECASE, Gen.FRAWCHARS, Gen.FNEGATE, Gen.FMINUSNEGATE, Gen.FPATHNAME, Gen.FDOTMATCH, Gen.FEXTMATCH, Gen.FGLOBSTAR, Gen.FBRACE, Gen.FREALPATH, Gen.FFOLLOW, Gen.FSPLIT, Gen.FMATCHBASE, Gen.FNODIR, Gen.FNEGATEALL, Gen.FFORCEWIN, Gen.FFORCEUNIX, Gen.FGLOBTILDE, Gen.FNOUNIQUE, Gen.FNODOTDIR, Gen.FGLOBSTARLONG, Gen.F_TRANSLATE, Gen.F_ANCHOR, Gen.F_EXTMATCHBASE, Gen.F_NOABSOLUTE, Gen.F_NO_GLOBSTAR_CAPTURE]; omega)
  · exact hb _ 14 b14 y14 e14 (by simp only [Gen.FCASE, Gen.FIGNORECASE, Gen.FRAWCHARS, Gen.FNEGATE, Gen.FMINUSNEGATE, Gen.FPATHNAME, Gen.FDOTMATCH, Gen.FEXTMATCH, Gen.FGLOBSTAR, Gen.FBRACE, Gen.FREALPATH, Gen.FFOLLOW, Gen.FSPLIT, Gen.FMATCHBASE, Gen.FNODIR, Gen.FNEGATEALL, Gen.FFORCEWIN, Gen.FFORCEUNIX, Gen.FGLOBTILDE, Gen.FNOUNIQUE, Gen.FNODOTDIR, Gen.FGLOBSTARLONG, Gen.F_TRANSLATE, Gen.F_ANCHOR, Gen.F_EXTMATCHBASE, Gen.F_NOABSOLUTE, Gen.F_NO_GLOBSTAR_CAPTURE]; omega)
  · exact hb _ 15 b15 y15 e15 (by simp only [Gen.FCASE, Gen.FIGNORECASE, Gen.FRAWCHARS, Gen.FNEGATE, Gen.FMINUSNEGATE, Gen.FPATHNAME, Gen.FDOTMATCH, Gen.FEXTMATCH, Gen.FGLOBSTAR, Gen.FBRACE, Gen.FREALPATH, Gen.FFOLLOW, Gen.FSPLIT, Gen.FMATCHBASE, Gen.FNODIR, Gen.FNEGATEALL, Gen.FFORCEWIN, Gen.FFORCEUNIX, Gen.FGLOBTILDE, Gen.FNOUNIQUE, Gen.FNODOTDIR, Gen.FGLOBSTARLONG, Gen.F_TRANSLATE, Gen.F_ANCHOR, Gen.F_EXTMATCHBASE, Gen.F_NOABSOLUTE, Gen.F_NO_GLOBSTAR_CAPTURE]; omega)
  · exact hb _ 16 b16 y16 e16 (by simp only [Gen.FCASE, Gen.FIGNORECASE, Gen.FRAWCHARS, Gen.FNEGATE, Gen.FMINUSNEGATE, Gen.FPATHNAME, Gen.FDOTMATCH, Gen.FEXTMATCH, Gen.FGLOBSTAR, Gen.FBRACE, Gen.FREALPATH, Gen.FFOLLOW, Gen.FSPLIT, Gen.FMATCHBASE, Gen.FNODIR, Gen.FNEGATEALL, Gen.FFORCEWIN, Gen.FFORCEUNIX, Gen.FGLOBTILDE, Gen.FNOUNIQUE, Gen.FNODOTDIR, Gen.FGLOBSTARLONG, Gen.F_TRANSLATE, Gen.F_ANCHOR, Gen.F_EXTMATCHBASE, Gen.F_NOABSOLUTE, Gen.F_NO_GLOBSTAR_CAPTURE]; omega)
  · exact hb _ 17 b17 y17 e17 (by simp only [Gen.FCASE, Gen.FIGNORECASE, Gen.FRAWCHARS, Gen.FNEGATE, Gen.FMINUSNEGATE, Gen.FPATHNAME, Gen.FDOTMATCH, Gen.FEXTMATCH, Gen.FGLOBSTAR, Gen.FBRACE, Gen.FREALPATH, Gen.FFOLLOW, Gen.FSPLIT, Gen.FMATCHBASE, Gen.FNODIR, Gen.FNEGATEALL, Gen.FFORCEWIN, Gen.FFORCEUNIX, Gen.FGLOBTILDE, Gen.FNOUNIQUE, Gen.FNODOTDIR, Gen.FGLOBSTARLONG, Gen.F_TRANSLATE, Gen.F_ANCHOR, Gen.F_EXTMATCHBASE, Gen.F_NOABSOLUTE, Gen.F_NO_GLOBSTAR_CAPTURE]; omega)
  · exact hb _ 18 b18 y18 e18 (by simp only [Gen.FCASE, Gen.FIGNORECASE, Gen.FRAWCHARS, Gen.FNEGATE, Gen.FMINUSNEGATE, Gen.FPATHNAME, Gen.FDOTMATCH, Gen.FEXTMATCH, Gen.FGLOBSTAR, Gen.FBRACE, Gen.FREALPATH, Gen.FFOLLOW, Gen.FSPLIT, Gen.FMATCHBASE, Gen.FNODIR, Gen.FNEGATEALL, Gen.FFORCEWIN, Gen.FFORCEUNIX, Gen.FGLOBTILDE, Gen.FNOUNIQUE, Gen.FNODOTDIR, Gen.FGLOBSTARLONG, Gen.F_TRANSLATE, Gen.F_ANCHOR, Gen.F_EXTMATCHBASE, Gen.F_NOABSOLUTE, Gen.F_NO_GLOBSTAR_CAPTURE]; omega)
  · exact hb _ 19 b19 y19 e19 (by simp only [Gen.FCASE, Gen.FIGNORECASE, Gen.FRAWCHARS, Gen.FNEGATE, Gen.FMINUSNEGATE, Gen.FPATHNAME, Gen.FDOTMATCH, Gen.FEXTMATCH, Gen.FGLOBSTAR, Gen.FBRACE, Gen.FREALPATH, Gen.FFOLLOW, Gen.FSPLIT, Gen.FMATCHBASE, Gen.FNODIR, Gen.FNEGATEALL, Gen.FFORCEWIN, Gen.FFORCEUNIX, Gen.FGLOBTILDE, Gen.FNOUNIQUE, Gen.FNODOTDIR, Gen.FGLOBSTARLONG, Gen.F_TRANSLATE, Gen.F_ANCHOR, Gen.F_EXTMATCHBASE, Gen.F_NOABSOLUTE, Gen.F_NO_GLOBSTAR_CAPTURE]; omega)
  · exact hb _ 20 b20 y20 e20 (by simp only [Gen.FCASE, Gen.FIGNORECASE, Gen.FRAWCHARS, Gen.FNEGATE, Gen.FMINUSNEGATE, Gen.FPATHNAME, Gen.FDOTMATCH, Gen.FEXTMATCH, Gen.FGLOBSTAR, Gen.FBRACE, Gen.FREALPATH, Gen.FFOLLOW, Gen.FSPLIT, Gen.FMATCHBASE, Gen.FNODIR, Gen.FNEGATEALL, Gen.FFORCEWIN, Gen.FFORCEUNIX, Gen.FGLOBTILDE, Gen.FNOUNIQUE, Gen.FNODOTDIR, Gen.FGLOBSTARLONG, Gen.F_TRANSLATE, Gen.F_ANCHOR, Gen.F_EXTMATCHBASE, Gen.F_NOABSOLUTE, Gen.F_NO_GLOBSTAR_CAPTURE]; omega)
  · exact hb _ 21 b21 y21 e21 (by simp only [Gen.FCASE, Gen.FIGNORECASE, Gen.FRAWCHARS, Gen.FNEGATE, Gen.FMINUSNEGATE, Gen.FPATHNAME, Gen.FDOTMATCH, Gen.FEXTMATCH, Gen.FGLOBSTAR, Gen.FBRACE, Gen.FREALPATH, Gen.FFOLLOW, Gen.FSPLIT, Gen.FMATCHBASE, Gen.FNODIR, Gen.FNEGATEALL, Gen.FFORCEWIN, Gen.FFORCEUNIX, Gen.FGLOBTILDE, Gen.FNOUNIQUE, Gen.FNODOTDIR, Gen.FGLOBSTARLONG, Gen.F_TRANSLATE, Gen.F_ANCHOR, Gen.F_EXTMATCHBASE, Gen.F_NOABSOLUTE, Gen.F_NO_GLOBSTAR_CAPTURE]; omega)
  · exact hb _ 32 b22 y22 e22 (by simp only [Gen.FCASE, Gen.FIGNORECASE, Gen.FRAWCHARS, Gen.FNEGATE, Gen.FMINUSNEGATE, Gen.FPATHNAME, Gen.FDOTMATCH, Gen.FEXTMATCH, Gen.FGLOBSTAR, Gen.FBRACE, Gen.FREALPATH, Gen.FFOLLOW, Gen.FSPLIT, Gen.FMATCHBASE, Gen.FNODIR, Gen.FNEGATEALL, Gen.FFORCEWIN, Gen.FFORCEUNIX, Gen.FGLOBTILDE, Gen.FNOUNIQUE, Gen.FNODOTDIR, Gen.FGLOBSTARLONG, Gen.F_TRANSLATE, Gen.F_ANCHOR, Gen.F_EXTMATCHBASE, Gen.F_NOABSOLUTE, Gen.F_NO_GLOBSTAR_CAPTURE]; omega)
  · exact hb _ 33 b23 y23 e23 (by simp only [Gen.FCASE, Gen.FIGNORECASE, Gen.FRAWCHARS, Gen.FNEGATE, Gen.FMINUSNEGATE, Gen.FPATHNAME, Gen.FDOTMATCH, Gen.FEXTMATCH, Gen.FGLOBSTAR, Gen.FBRACE, Gen.FREALPATH, Gen.FFOLLOW, Gen.FSPLIT, Gen.FMATCHBASE, Gen.FNODIR, Gen.FNEGATEALL, Gen.FFORCEWIN, Gen.FFORCEUNIX, Gen.FGLOBTILDE, Gen.FNOUNIQUE, Gen.FNODOTDIR, Gen.FGLOBSTARLONG, Gen.F_TRANSLATE, Gen.F_ANCHOR, Gen.F_EXTMATCHBASE, Gen.F_NOABSOLUTE, Gen.F_NO_GLOBSTAR_CAPTURE]; omega)
  · exact hb _ 34 b24 y24 e24 (by simp only [Gen.FCASE, Gen.FIGNORECASE, Gen.FRAWCHARS, Gen.FNEGATE, Gen.FMINUSNEGATE, Gen.FPATHNAME, Gen.FDOTMATCH, Gen.FEXTMATCH, Gen.FGLOBSTAR, Gen.FBRACE, Gen.FREALPATH, Gen.FFOLLOW, Gen.FSPLIT, Gen.FMATCHBASE, Gen.FNODIR, Gen.FNEGATEALL, Gen.FFORCEWIN, Gen.FFORCEUNIX, Gen.FGLOBTILDE, Gen.FNOUNIQUE, Gen.FNODOTDIR, Gen.FGLOBSTARLONG, Gen.F_TRANSLATE, Gen.F_ANCHOR, Gen.F_EXTMATCHBASE, Gen.F_NOABSOLUTE, Gen.F_NO_GLOBSTAR_CAPTURE]; omega)
  · exact hb _ 35 b25 y25 e25 (by simp only [Gen.FCASE, Gen.FIGNORECASE, Gen.FRAWCHARS, Gen.FNEGATE, Gen.FMINUSNEGATE, Gen.FPATHNAME, Gen.FDOTMATCH, Gen.FEXTMATCH, Gen.FGLOBSTAR, Gen.FBRACE, Gen.FREALPATH, Gen.FFOLLOW, Gen.FSPLIT, Gen.FMATCHBASE, Gen.FNODIR, Gen.FNEGATEALL, Gen.FFORCEWIN, Gen.FFORCEUNIX, Gen.FGLOBTILDE, Gen.FNOUNIQUE, Gen.FNODOTDIR, Gen.FGLOBSTARLONG, Gen.F_TRANSLATE, Gen.F_ANCHOR, Gen.F_EXTMATCHBASE, Gen.F_NOABSOLUTE, Gen.F_NO_GLOBSTAR_CAPTURE]; omega)
  · exact hb _ 36 b26 y26 e26 (by simp only [Gen.FCASE, Gen.FIGNORECASE, Gen.FRAWCHARS, Gen.FNEGATE, Gen.FMINUSNEGATE, Gen.FPATHNAME, Gen.FDOTMATCH, Gen.FEXTMATCH, Gen.FGLOBSTAR, Gen.FBRACE, Gen.FREALPATH, Gen.FFOLLOW, Gen.FSPLIT, Gen.FMATCHBASE, Gen.FNODIR, Gen.FNEGATEALL, Gen.FFORCEWIN, Gen.FFORCEUNIX, Gen.FGLOBTILDE, Gen.FNOUNIQUE, Gen.FNODOTDIR, Gen.FGLOBSTARLONG, Gen.F_TRANSLATE, Gen.F_ANCHOR, Gen.F_EXTMATCHBASE, Gen.F_NOABSOLUTE, Gen.F_NO_GLOBSTAR_CAPTURE]; omega)

/-! ### `glob._flag_transform`, bit by bit (this host is not Windows) -/

theorem gen_PATHNAME : Gen.FPATHNAME = 2 ^ 5 := by decide
theorem gen_MATCHBASE : Gen.FMATCHBASE = 2 ^ 13 := by decide
theorem gen_NODIR : Gen.FNODIR = 2 ^ 14 := by decide
theorem gen_FORCEUNIX : Gen.FFORCEUNIX = 2 ^ 17 := by decide
theorem gen_ANCHOR : Gen.F_ANCHOR = 2 ^ 33 := by decide
theorem gen_EXTMATCHBASE : Gen.F_EXTMATCHBASE = 2 ^ 34 := by decide
theorem gen_NOABSOLUTE : Gen.F_NOABSOLUTE = 2 ^ 35 := by decide

theorem tb_clearIf_pow (x j k : Nat) (h : j ≠ k) : (clearIf x (2 ^ j)).testBit k = x.testBit k := by
  apply tb_clearIf
  rw [Nat.testBit_two_pow]
  simp [h]

/-- every bit other than PATHNAME / FORCEWIN / FORCEUNIX: kept if inside `glob.FLAG_MASK`, else dropped -/
theorem gft_bit (n k : Nat) (h5 : k ≠ 5) (h16 : k ≠ 16) (h17 : k ≠ 17) :
    (globFlagTransform n).testBit k = (n.testBit k && Gen.globFlagMask.testBit k) := by
  have hx : (Gen.FFORCEWIN ||| Gen.FFORCEUNIX).testBit k = false := by
    rw [gen_FORCEWIN, gen_FORCEUNIX, Nat.testBit_or, Nat.testBit_two_pow, Nat.testBit_two_pow]
    simp [Ne.symm h16, Ne.symm h17]
  have hp : Gen.FPATHNAME.testBit k = false := by
    rw [gen_PATHNAME, Nat.testBit_two_pow]; simp [Ne.symm h5]
  have hw : Gen.FFORCEWIN.testBit k = false := by
    rw [gen_FORCEWIN, Nat.testBit_two_pow]; simp [Ne.symm h16]
  unfold globFlagTransform
  simp only [gen_host_not_windows, Bool.false_eq_true, if_false]
  split <;> split
  · rw [tb_clearIf hw, tb_or hp, Nat.testBit_and, tb_xor hx]
  · rw [tb_or hp, Nat.testBit_and, tb_xor hx]
  · rw [tb_clearIf hw, tb_or hp, Nat.testBit_and]
  · rw [tb_or hp, Nat.testBit_and]

/-- PATHNAME is always set -/
theorem gft_pathname (n : Nat) : (globFlagTransform n).testBit 5 = true := by
  have hp : Gen.FPATHNAME.testBit 5 = true := by decide
  have hw : Gen.FFORCEWIN.testBit 5 = false := by decide
  unfold globFlagTransform
  simp only [gen_host_not_windows, Bool.false_eq_true, if_false]
  split <;> split
  · rw [tb_clearIf hw, Nat.testBit_or, hp, Bool.or_true]
  · rw [Nat.testBit_or, hp, Bool.or_true]
  · rw [tb_clearIf hw, Nat.testBit_or, hp, Bool.or_true]
  · rw [Nat.testBit_or, hp, Bool.or_true]

/-- FORCEWIN is never introduced -/
theorem gft_forcewin (n : Nat) (h : n.testBit 16 = false) : (globFlagTransform n).testBit 16 = false := by
  have hp : Gen.FPATHNAME.testBit 16 = false := by decide
  have hclr : ∀ x : Nat, x.testBit 16 = false → (clearIf x Gen.FFORCEWIN).testBit 16 = false := by
    intro x hx
    unfold clearIf
    rw [gen_FORCEWIN, hasBit_pow, hx]
    simpa using hx
  unfold globFlagTransform
  simp only [gen_host_not_windows, Bool.false_eq_true, if_false]
  split
  · rename_i hboth
    rw [gen_FORCEWIN, hasBit_pow, h] at hboth
    simp at hboth
  · split
    · apply hclr
      rw [tb_or hp, Nat.testBit_and, h, Bool.false_and]
    · rw [tb_or hp, Nat.testBit_and, h, Bool.false_and]

end WcModel

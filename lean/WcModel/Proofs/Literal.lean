import WcModel.Model.Parse
import WcModel.Model.Escape
/-
  The faithful port of `WcParse.root`, run on a pattern made only of *literal units* (plain
  characters that are not `* ? [ \`, and backslash-escaped characters), in fnmatch mode with
  Unix rules, emits exactly one literal item per unit — for every such pattern, every flag
  record.  This is the engine of C09 (escape / non-magic patterns are literal).
-/
namespace WcModel

/-- a literal unit: `c`, or `\c` -/
structure LTok where
  c : Char
  esc : Bool
  deriving DecidableEq, Repr

def LTok.print (t : LTok) : List Char := if t.esc then ['\\', t.c] else [t.c]

def printToks (ts : List LTok) : List Char := ts.flatMap LTok.print

/-- what the pass emits for a literal character in fnmatch mode, Unix rules -/
def litRe' (c : Char) : Re := if c = '/' then Frag.sep false else .lit c
def litItem (c : Char) : Item := .re (litRe' c)

/-- fnmatch mode, Unix rules -/
structure FnUnix (cfg : Cfg) : Prop where
  pathname : cfg.pathname = false
  unix : cfg.unix = true
  bslash : cfg.bslashAbort = false
  wdd : cfg.winDriveDetect = false
  realpath : cfg.realpath = false

/-- the head of what follows is not an unescaped `(` -/
def nextNotParen (rest : List LTok) : Prop :=
  match rest with
  | [] => True
  | t :: _ => t.esc = true ∨ t.c ≠ '('

/-- the side conditions on a unit (given what follows it) -/
def okTok (cfg : Cfg) (t : LTok) (rest : List LTok) : Prop :=
  t.esc = true ∨
    (t.c ≠ '*' ∧ t.c ≠ '?' ∧ t.c ≠ '[' ∧ t.c ≠ '\\' ∧
      (cfg.extend = true → t.c ∈ extTypes → nextNotParen rest))

def okToks (cfg : Cfg) : List LTok → Prop
  | [] => True
  | t :: rest => okTok cfg t rest ∧ okToks cfg rest

/-- the parser-state invariant of a literal run at top level -/
structure TopInv (ps : PS) : Prop where
  dirStart : ps.dirStart = false
  inList : ps.inList = false
  invNest : ps.invNest = false
  mdd : ps.matchDotDir = false
  inv0 : ps.invExt = 0
  mb : ps.matchbase = false
  emb : ps.extmatchbase = false

theorem TopInv.update {ps : PS} (h : TopInv ps) : TopInv ps.updateDirState := by
  unfold PS.updateDirState
  simp only [h.dirStart, Bool.false_and, Bool.false_eq_true, ite_false, Bool.not_false, Bool.true_and]
  split
  · exact ⟨rfl, h.inList, h.invNest, h.mdd, h.inv0, h.mb, h.emb⟩
  · exact h

theorem extTypes_eq : extTypes = ['!', '*', '+', '?', '@'] := by decide

/-- a failed `parse_extend` at top level (the next character is not `(`) changes nothing -/
theorem parseExtend_fail_noparen (cfg : Cfg) (fuel : Nat) (c : Char) (it : It) (ps : PS) (cur : List Item)
    (hinv : TopInv ps) (hn : ∀ d it', it.next = some (d, it') → d ≠ '(') :
    parseExtend cfg (fuel + 1) c it ps cur true = (false, ps, it, cur) := by
  have hps : ({ afterStart := ps.afterStart, dirStart := ps.dirStart, inList := false, invNest := false,
                 invExt := ps.invExt, matchDotDir := false, matchbase := ps.matchbase,
                 extmatchbase := ps.extmatchbase, globstar := ps.globstar } : PS) = ps := by
    have h1 := hinv.inList; have h2 := hinv.invNest; have h3 := hinv.mdd
    cases ps; simp_all
  unfold parseExtend
  simp only [hinv.inList, hinv.invNest, Bool.not_false, ite_true]
  cases hnx : it.next with
  | none => simp [hps]
  | some v =>
    obtain ⟨d, it'⟩ := v
    have := hn d it' hnx
    simp [this, hps]

theorem bs_not_ext : ('\\' ∈ extTypes) = False := by rw [extTypes_eq]; decide

theorem rootLoop_plain (cfg : Cfg) (h : FnUnix cfg) (fuel i : Nat) (c : Char) (rest : List Char) (ps : PS)
    (cur : List Item) (hinv : TopInv ps)
    (h1 : c ≠ '*') (h2 : c ≠ '?') (h3 : c ≠ '[') (h4 : c ≠ '\\')
    (hext : cfg.extend = true → c ∈ extTypes → rest.head? ≠ some '(') :
    rootLoop cfg (fuel + 1) ⟨i, c :: rest⟩ ps cur =
      rootLoop cfg fuel ⟨i + 1, rest⟩ ps.updateDirState (litItem c :: cur) := by
  have hwin : cfg.win = false := by simp [Cfg.win, h.unix]
  have hfail : cfg.extend = true → c ∈ extTypes →
      parseExtend cfg (2 * rest.length + 8) c ⟨i + 1, rest⟩ ps cur true = (false, ps, ⟨i + 1, rest⟩, cur) := by
    intro he hm
    have := hext he hm
    apply parseExtend_fail_noparen cfg (2 * rest.length + 7) c ⟨i + 1, rest⟩ ps cur hinv
    intro d it' hn
    cases rest with
    | nil => simp [It.next] at hn
    | cons x xs =>
      simp [It.next] at hn
      simp at this
      rw [← hn.1]; exact this
  conv => lhs; unfold rootLoop
  simp only [It.next]
  by_cases hx : (cfg.extend && decide (c ∈ extTypes)) = true
  · simp only [Bool.and_eq_true, decide_eq_true_eq] at hx
    simp only [hx.1, hx.2, decide_true, Bool.and_self, ite_true, hfail hx.1 hx.2]
    by_cases hd : c = '.'
    · subst hd; simp [handleDot, h.pathname, litItem, litRe']
    · by_cases hs : c = '/'
      · subst hs; simp [h.pathname, litItem, litRe', hwin]
      · simp [hd, hs, h1, h2, h3, h4, litItem, litRe']
  · simp only [hx, Bool.false_eq_true, ite_false]
    by_cases hd : c = '.'
    · subst hd; simp [handleDot, h.pathname, litItem, litRe']
    · by_cases hs : c = '/'
      · subst hs; simp [h.pathname, litItem, litRe', hwin]
      · simp [hd, hs, h1, h2, h3, h4, litItem, litRe']


/-- an escaped character other than `.` : one iteration -/
theorem rootLoop_esc (cfg : Cfg) (h : FnUnix cfg) (fuel i : Nat) (c : Char) (rest : List Char) (ps : PS)
    (cur : List Item) (hinv : TopInv ps) (hd : c ≠ '.') :
    rootLoop cfg (fuel + 1) ⟨i, '\\' :: c :: rest⟩ ps cur =
      rootLoop cfg fuel ⟨i + 2, rest⟩ ps.updateDirState (litItem c :: cur) := by
  have hwin : cfg.win = false := by simp [Cfg.win, h.unix]
  conv => lhs; unfold rootLoop
  simp only [It.next, bs_not_ext, decide_false, Bool.and_false, Bool.false_eq_true, ite_false]
  by_cases hb : c = '\\'
  · subst hb
    simp [references, It.next, h.bslash, h.unix, hinv.dirStart, litItem, litRe']
  · by_cases hs : c = '/'
    · subst hs
      simp [references, It.next, h.pathname, hinv.dirStart, litItem, litRe', hwin]
    · simp [references, It.next, hb, hs, hd, hinv.dirStart, litItem, litRe']

/-- `\.` : the escape is dropped and the dot is read again (two iterations) -/
theorem rootLoop_esc_dot (cfg : Cfg) (h : FnUnix cfg) (fuel i : Nat) (rest : List Char) (ps : PS)
    (cur : List Item) (hinv : TopInv ps) :
    rootLoop cfg (fuel + 2) ⟨i, '\\' :: '.' :: rest⟩ ps cur =
      rootLoop cfg fuel ⟨i + 2, rest⟩ ps.updateDirState (litItem '.' :: cur) := by
  have step1 : rootLoop cfg (fuel + 2) ⟨i, '\\' :: '.' :: rest⟩ ps cur =
      rootLoop cfg (fuel + 1) ⟨i + 1, '.' :: rest⟩ ps cur := by
    conv => lhs; unfold rootLoop
    simp [It.next, bs_not_ext, references]
  rw [step1]
  have hne : ¬ ('.' ∈ extTypes) := by rw [extTypes_eq]; decide
  exact rootLoop_plain cfg h fuel (i + 1) '.' rest ps cur hinv (by decide) (by decide) (by decide) (by decide)
    (fun _ hm => absurd hm hne)


theorem printToks_cons (t : LTok) (ts : List LTok) : printToks (t :: ts) = t.print ++ printToks ts := by
  simp [printToks]

theorem head_printToks_ne_paren (rest : List LTok) (h : nextNotParen rest) :
    (printToks rest).head? ≠ some '(' := by
  cases rest with
  | nil => simp [printToks]
  | cons t2 r =>
    rw [printToks_cons]
    unfold nextNotParen at h
    cases he : t2.esc with
    | true => simp [LTok.print, he]
    | false =>
      have : t2.c ≠ '(' := by rcases h with h | h; · simp [he] at h
                              · exact h
      simp [LTok.print, he, this]

/-- **a run of literal units becomes a run of literal items** — any length, any flags of
    fnmatch mode / Unix rules -/
theorem rootLoop_lits (cfg : Cfg) (h : FnUnix cfg) :
    ∀ (ts : List LTok) (fuel i : Nat) (ps : PS) (cur : List Item), okToks cfg ts → TopInv ps →
      (printToks ts).length + 1 ≤ fuel →
      ∃ ps', rootLoop cfg fuel ⟨i, printToks ts⟩ ps cur =
          (ps', (ts.map (fun t => litItem t.c)).reverse ++ cur) ∧ TopInv ps' := by
  intro ts
  induction ts with
  | nil =>
    intro fuel i ps cur _ hinv hf
    cases fuel with
    | zero => simp at hf
    | succ f => exact ⟨ps, by simp [printToks, rootLoop, It.next], hinv⟩
  | cons t rest ih =>
    intro fuel i ps cur hok hinv hf
    obtain ⟨hk, hrest⟩ := hok
    rw [printToks_cons] at hf ⊢
    cases he : t.esc with
    | true =>
      simp only [LTok.print, he, ite_true, List.cons_append, List.nil_append, List.length_cons] at hf ⊢
      by_cases hd : t.c = '.'
      · obtain ⟨f, rfl⟩ : ∃ f, fuel = f + 2 := ⟨fuel - 2, by omega⟩
        rw [hd, rootLoop_esc_dot cfg h f i _ ps cur hinv]
        obtain ⟨ps', h1, h2⟩ := ih f (i + 2) ps.updateDirState (litItem '.' :: cur) hrest hinv.update (by omega)
        exact ⟨ps', by rw [h1]; simp [hd], h2⟩
      · obtain ⟨f, rfl⟩ : ∃ f, fuel = f + 1 := ⟨fuel - 1, by omega⟩
        rw [rootLoop_esc cfg h f i t.c _ ps cur hinv hd]
        obtain ⟨ps', h1, h2⟩ := ih f (i + 2) ps.updateDirState (litItem t.c :: cur) hrest hinv.update (by omega)
        exact ⟨ps', by rw [h1]; simp, h2⟩
    | false =>
      simp only [LTok.print, he, Bool.false_eq_true, ite_false, List.cons_append, List.nil_append,
        List.length_cons] at hf ⊢
      have hk' : t.c ≠ '*' ∧ t.c ≠ '?' ∧ t.c ≠ '[' ∧ t.c ≠ '\\' ∧
          (cfg.extend = true → t.c ∈ extTypes → nextNotParen rest) := by
        rcases hk with hk | hk
        · simp [he] at hk
        · exact hk
      obtain ⟨f, rfl⟩ : ∃ f, fuel = f + 1 := ⟨fuel - 1, by omega⟩
      rw [rootLoop_plain cfg h f i t.c _ ps cur hinv hk'.1 hk'.2.1 hk'.2.2.1 hk'.2.2.2.1
        (fun e m => head_printToks_ne_paren rest (hk'.2.2.2.2 e m))]
      obtain ⟨ps', h1, h2⟩ := ih f (i + 1) ps.updateDirState (litItem t.c :: cur) hrest hinv.update (by omega)
      exact ⟨ps', by rw [h1]; simp, h2⟩

end WcModel

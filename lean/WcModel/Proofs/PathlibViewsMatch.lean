import WcModel.Properties.C04cap
import WcModel.Proofs.GlobExists
/-
  C16, the regex side of `match` ⇔ `rglob` for literal one-segment patterns.

  Under `_EXTMATCHBASE` + REALPATH the pass emits, for a literal pattern `s`,

      ^(?s: (?!/) ( GSTAR ) (?:^|$|[/])+ [/]*? (?!/) s [/]*? )$          (`emLitRe`)

  (`Proofs/PathlibViewsParse.lean` proves that it does).  This file proves what `_fs_match`
  (`fsMatch`: capture spans + link loop) does with that regex on a path given as a list of
  components: `fsMatch_emLit`.
-/
namespace WcModel.PathlibViews
open WcModel

/-! ### generic: runs of regexes without capture groups, `catE'` -/

theorem MC_ncaps0 {md : Mode} {r : Re} {base : Nat} {a b : St} {cs cs' : Caps}
    (h : Re.MC md r base a cs b cs') (h0 : r.ncaps = 0) : cs' = cs := by
  obtain ⟨new, rfl, hnew⟩ := h.caps
  cases new with
  | nil => rfl
  | cons e r' =>
    obtain ⟨h1, h2, _⟩ := hnew e List.mem_cons_self
    omega

theorem MC_catE'_split {md : Mode} {a b : Re} {base : Nat} {x y : St} {cs cs' : Caps}
    (h : Re.MC md (catE' a b) base x cs y cs') :
    ∃ m cs1, Re.MC md a base x cs m cs1 ∧ Re.MC md b (base + a.ncaps) m cs1 y cs' := by
  unfold catE' at h
  split at h
  · rename_i hb; subst hb; exact ⟨y, cs', h, .eps⟩
  · split at h
    · rename_i ha; subst ha; exact ⟨x, cs, .eps, h⟩
    · cases h with
      | cat h1 h2 => exact ⟨_, _, h1, h2⟩

theorem ncaps_seqRe_cons (r : Re) (rs : List Re) : (seqRe (r :: rs)).ncaps = r.ncaps + (seqRe rs).ncaps := by
  rw [seqRe, C04cap.ncaps_catE']

/-! ### the regex -/

/-- `_PATH_GSTAR_NO_DOTMATCH` -/
def emG : Re := Frag.pathGstarDot2 false

/-- what follows the captured globstar: the divider, the prefix's `_PATH_TRAIL`, and the whole
    translation of the literal pattern `s` -/
def emRestList (cfg : Cfg) (s : List Char) : List Re :=
  Frag.globstarDiv false :: Frag.pathTrail false :: pathReList cfg s

def emList (cfg : Cfg) (s : List Char) : List Re := Frag.noRoot :: .gcap emG :: emRestList cfg s

/-- the regex of the literal pattern `s` under `_EXTMATCHBASE` and REALPATH (no DOTMATCH) -/
def emLitRe (cfg : Cfg) (s : List Char) : Re :=
  .cat .bos (.cat (.flags true (!cfg.caseSensitive) (seqRe (emList cfg s))) .eos)

theorem emG_ncaps : emG.ncaps = 0 := rfl

theorem emRest_ncaps (cfg : Cfg) (s : List Char) : (seqRe (emRestList cfg s)).ncaps = 0 := by
  unfold emRestList
  rw [ncaps_seqRe_cons, ncaps_seqRe_cons]
  have := C04cap.ncaps_pathLitRe cfg s
  unfold pathLitRe at this
  simp only [Re.ncaps, Nat.zero_add, Nat.add_zero] at this
  rw [this]
  rfl

theorem emLitRe_ncaps (cfg : Cfg) (s : List Char) : (emLitRe cfg s).ncaps = 1 := by
  unfold emLitRe emList
  simp only [Re.ncaps, Nat.zero_add, Nat.add_zero]
  rw [ncaps_seqRe_cons, ncaps_seqRe_cons, emRest_ncaps]
  rfl

/-- **one accepting run of `emLitRe`**: the span of the only group is `(0, k)`, where the globstar
    consumed the first `k` characters and the rest of the regex matches what is left -/
theorem emLit_run (cfg : Cfg) (s name : List Char) (hok : (emLitRe cfg s).repOK = true)
    (spans : List (Option (Nat × Nat))) (h : (emLitRe cfg s).fullmatchCap name = some spans) :
    ∃ a1 b, spans = [some (0, name.length - a1.rest.length)] ∧
      Re.M ⟨true, !cfg.caseSensitive⟩ emG ⟨true, name⟩ a1 ∧ name.head? ≠ some '/' ∧
      Re.M ⟨true, !cfg.caseSensitive⟩ (seqRe (emRestList cfg s)) a1 ⟨b, []⟩ := by
  obtain ⟨b, cs, m, rfl⟩ := Re.fullmatchCap_MC _ name hok spans h
  rw [emLitRe_ncaps]
  unfold emLitRe at m
  cases m with
  | cat m1 m2 =>
    cases m1 with
    | bos _ =>
      cases m2 with
      | cat m3 m4 =>
        cases m4 with
        | eos _ =>
          cases m3 with
          | flags m5 =>
            unfold emList at m5
            rw [seqRe] at m5
            obtain ⟨x1, c1, h1, h2⟩ := MC_catE'_split m5
            rw [seqRe] at h2
            obtain ⟨a1, c2, h3, h4⟩ := MC_catE'_split h2
            have hc2 := MC_ncaps0 h4 (emRest_ncaps cfg s)
            subst hc2
            cases h1 with
            | lookNeg hno =>
              cases h3 with
              | gcap h5 =>
                have hc3 := MC_ncaps0 h5 emG_ncaps
                subst hc3
                refine ⟨a1, b, ?_, h5.toM, ?_, h4.toM⟩
                · simp [Re.spansOf, Re.ncaps, Frag.noRoot]
                · intro hh
                  apply hno
                  cases name with
                  | nil => simp at hh
                  | cons d x =>
                    simp only [List.head?_cons, Option.some.injEq] at hh
                    subst hh
                    exact ⟨⟨false, x⟩, '/', x, rfl, charEq_refl _ _, rfl⟩

/-- … and every full match has such a run -/
theorem emLit_fullMatch (cfg : Cfg) (s name : List Char) :
    (emLitRe cfg s).FullMatch name ↔
      ∃ a1 b, Re.M ⟨true, !cfg.caseSensitive⟩ emG ⟨true, name⟩ a1 ∧ name.head? ≠ some '/' ∧
        Re.M ⟨true, !cfg.caseSensitive⟩ (seqRe (emRestList cfg s)) a1 ⟨b, []⟩ := by
  unfold Re.FullMatch emLitRe emList
  simp only [Re.M]
  constructor
  · rintro ⟨b, c, ⟨rfl, _⟩, c', hm, rfl, _⟩
    rw [seqRe, M_catE' _ _ _ (by simp [Frag.noRoot])] at hm
    obtain ⟨m1, h1, h2⟩ := hm
    obtain ⟨rfl, hh⟩ := (M_noRoot _ _ _).mp h1
    rw [seqRe, M_catE' _ _ _ (by simp)] at h2
    obtain ⟨a1, h3, h4⟩ := h2
    exact ⟨a1, b, h3, hh, h4⟩
  · rintro ⟨a1, b, h3, hh, h4⟩
    refine ⟨b, _, ⟨rfl, trivial⟩, _, ?_, rfl, by simp [atEos]⟩
    rw [seqRe, M_catE' _ _ _ (by simp [Frag.noRoot])]
    refine ⟨_, (M_noRoot _ _ _).mpr ⟨rfl, hh⟩, ?_⟩
    rw [seqRe, M_catE' _ _ _ (by simp)]
    exact ⟨a1, h3, h4⟩

/-! ### the globstar: no hidden segment opens inside what it consumes -/

/-- no position inside `g` (followed by `r`) is `/.`, nor `.` at the very start of the subject
    (`b` = `g` starts there) -/
def NoHid : Bool → List Char → List Char → Prop
  | _, [], _ => True
  | b, c :: g, r => ¬ hiddenAhead ⟨b, c :: g ++ r⟩ ∧ NoHid false g r

theorem emG_iff (ci : Bool) (a m : St) :
    Re.M ⟨true, ci⟩ emG a m ↔
      ∃ g, a.rest = g ++ m.rest ∧ m.atStart = (a.atStart && g.isEmpty) ∧ NoHid a.atStart g m.rest := by
  unfold emG Frag.pathGstarDot2
  rw [Re.M.eq_11]
  constructor
  · intro h
    induction h with
    | refl a => exact ⟨[], rfl, by simp, trivial⟩
    | @step a b c hab _ ih =>
      obtain ⟨hno, d, x, e, _, rfl⟩ := (gstarStep_iff ci a b).mp hab
      obtain ⟨g, e2, hf, hg⟩ := ih
      simp only at e2 hf hg
      refine ⟨d :: g, by rw [e, e2]; rfl, by simpa using hf, ?_⟩
      refine ⟨?_, hg⟩
      have : (⟨a.atStart, d :: g ++ c.rest⟩ : St) = a := by
        cases a; simp only at e; simp [e, e2]
      rw [this]; exact hno
  · rintro ⟨g, e, hf, hg⟩
    induction g generalizing a with
    | nil =>
      have : m = a := by
        cases a; cases m
        simp only [List.nil_append] at e
        simp only [List.isEmpty_nil, Bool.and_true] at hf
        simp [e, hf]
      rw [this]; exact Iter.refl _
    | cons d g ih =>
      have hstep : Re.M ⟨true, ci⟩ (.grp (.cat (.look true (.cat (.grp (.alt (Frag.sep false) .bos)) (.lit '.'))) .any))
          a ⟨false, g ++ m.rest⟩ := by
        refine (gstarStep_iff ci a _).mpr ⟨?_, d, g ++ m.rest, e, rfl, rfl⟩
        have : (⟨a.atStart, d :: g ++ m.rest⟩ : St) = a := by
          cases a; simp only at e; simp [e]
        rw [← this]; exact hg.1
      refine Iter.step hstep (ih ⟨false, g ++ m.rest⟩ rfl ?_ hg.2)
      simpa using hf

/-! ### what follows the globstar -/

theorem M_pathTrail_iff (md : Mode) (a c : St) :
    Re.M md (Frag.pathTrail false) a c ↔
      (c = a ∨ (c.atStart = false ∧ ∃ pre, pre ≠ [] ∧ allSl pre = true ∧ a.rest = pre ++ c.rest)) := by
  rw [← M_sepPlus_iff]
  simp only [Frag.pathTrail, Frag.sepPlus, Re.M]
  constructor
  · intro h
    cases h with
    | refl => exact Or.inl rfl
    | step h1 h2 => exact Or.inr ⟨_, h1, h2⟩
  · rintro (rfl | ⟨c1, h1, h2⟩)
    · exact Iter.refl _
    · exact Iter.step h1 h2

theorem allSl_append {a b : List Char} : allSl (a ++ b) = true ↔ allSl a = true ∧ allSl b = true := by
  simp [allSl, List.all_append]

/-- the divider, the prefix's `[/]*?` and the literal pattern, from a state inside a subject that
    does not end in a newline (D3): a (possibly empty) run of separators — empty only at the very
    start of the subject — and then a text the literal pattern matches to the end -/
theorem emRest_iff (cfg : Cfg) (s : List Char) (hs : s ≠ []) (hh : s.head? ≠ some '/')
    (hrp : cfg.realpath = true) (a1 : St) (hnl : a1.rest.getLast? ≠ some '\n') :
    (∃ b, Re.M ⟨true, !cfg.caseSensitive⟩ (seqRe (emRestList cfg s)) a1 ⟨b, []⟩) ↔
      ∃ sl t, a1.rest = sl ++ t ∧ allSl sl = true ∧ (sl = [] → a1.atStart = true) ∧
        PM cfg (!cfg.caseSensitive) .start s t := by
  have hne : ∀ r ∈ emRestList cfg s, r ≠ .eps := by
    intro r hr
    simp only [emRestList, List.mem_cons] at hr
    rcases hr with rfl | rfl | hr
    · simp [Frag.globstarDiv]
    · simp [Frag.pathTrail]
    · exact pathReList_ne_eps cfg s r hr
  have hlist : pathReList cfg s = Frag.noRoot :: (pathRes cfg .start s ++ [Frag.pathTrail false]) := by
    simp [pathReList, hs, hh, hrp]
  have body : ∀ c : St, (∃ b, MSeq ⟨true, !cfg.caseSensitive⟩ (pathReList cfg s) c ⟨b, []⟩) ↔
      PM cfg (!cfg.caseSensitive) .start s c.rest := by
    intro c
    rw [hlist, ← MSeq_pathRes_iff cfg ⟨true, !cfg.caseSensitive⟩ s .start c]
    simp only [MSeq]
    constructor
    · rintro ⟨b, m, hm, hrest⟩
      obtain ⟨rfl, _⟩ := (M_noRoot _ _ _).mp hm
      exact ⟨⟨b, []⟩, rfl, hrest⟩
    · rintro ⟨y, hy, hrest⟩
      obtain ⟨yb, yr⟩ := y
      simp only at hy; subst hy
      refine ⟨yb, c, (M_noRoot _ _ _).mpr ⟨rfl, ?_⟩, hrest⟩
      exact PM_head cfg _ .start s c.rest hs hh
        ((MSeq_pathRes_iff cfg ⟨true, !cfg.caseSensitive⟩ s .start c).mp ⟨_, rfl, hrest⟩)
  constructor
  · rintro ⟨b, hm⟩
    rw [M_seqRe _ _ hne] at hm
    simp only [emRestList, MSeq] at hm
    obtain ⟨c, hdiv, c', htr, hbody⟩ := hm
    have hpm := (body c').mp ⟨b, hbody⟩
    have ht : c'.rest ≠ [] := by
      intro e
      cases s with
      | nil => exact hs rfl
      | cons x r =>
        have hx : x ≠ '/' := by simpa using hh
        rw [e] at hpm
        simp [PM, hx] at hpm
    rcases (M_div_iff _ a1 c).mp hdiv with ⟨rfl, hz⟩ | ⟨hf, pre, hpne, hpre, e⟩
    · rcases (M_pathTrail_iff _ c c').mp htr with rfl | ⟨hf2, pre2, hp2ne, hpre2, e2⟩
      · rcases hz with hz | hz
        · exact ⟨[], c'.rest, rfl, rfl, fun _ => hz, hpm⟩
        · exfalso
          simp only [atEos, Bool.or_eq_true, beq_iff_eq] at hz
          rcases hz with hz | hz
          · exact ht hz
          · rw [hz] at hnl; exact hnl rfl
      · rcases hz with hz | hz
        · exact ⟨pre2, c'.rest, e2, hpre2, fun h => absurd h hp2ne, hpm⟩
        · exfalso
          simp only [atEos, Bool.or_eq_true, beq_iff_eq] at hz
          rcases hz with hz | hz
          · rw [hz] at e2
            cases pre2 with
            | nil => exact hp2ne rfl
            | cons y r => simp at e2
          · rw [hz] at e2
            cases pre2 with
            | nil => exact hp2ne rfl
            | cons y r =>
              simp only [List.cons_append, List.cons.injEq] at e2
              simp only [allSl, List.all_cons, Bool.and_eq_true, beq_iff_eq] at hpre2
              rw [← e2.1] at hpre2
              exact absurd hpre2.1 (by decide)
    · rcases (M_pathTrail_iff _ c c').mp htr with rfl | ⟨hf2, pre2, hp2ne, hpre2, e2⟩
      · exact ⟨pre, c'.rest, e, hpre, fun h => absurd h hpne, hpm⟩
      · refine ⟨pre ++ pre2, c'.rest, by rw [e, e2, List.append_assoc], allSl_append.mpr ⟨hpre, hpre2⟩, ?_, hpm⟩
        intro h
        exact absurd (List.append_eq_nil_iff.mp h).1 hpne
  · rintro ⟨sl, t, e, hsl, hst, hpm⟩
    obtain ⟨b, hbody⟩ := (body ⟨a1.atStart && sl.isEmpty, t⟩).mpr hpm
    refine ⟨b, ?_⟩
    rw [M_seqRe _ _ hne]
    simp only [emRestList, MSeq]
    refine ⟨⟨a1.atStart && sl.isEmpty, t⟩, ?_, _, (M_pathTrail_iff _ _ _).mpr (Or.inl rfl), hbody⟩
    rw [M_div_iff]
    by_cases hsle : sl = []
    · subst hsle
      left
      have := hst rfl
      refine ⟨?_, Or.inl this⟩
      cases a1
      simp only [List.nil_append] at e
      simp only at this
      simp [e, this]
    · right
      refine ⟨?_, sl, hsle, hsl, e⟩
      cases sl with
      | nil => exact absurd rfl hsle
      | cons _ _ => simp

/-! ### paths as lists of components -/

/-- the components joined by single separators -/
def joinSl : List Name → List Char
  | [] => []
  | [a] => a
  | a :: b :: r => a ++ '/' :: joinSl (b :: r)

/-- a proper path component: not empty, no separator -/
def CompOK (c : Name) : Prop := c ≠ [] ∧ ∀ ch ∈ c, ch ≠ '/'

/-- every component followed by a separator -/
def dirStr (ds : List Name) : List Char := ds.flatMap (· ++ ['/'])

theorem joinSl_cons (a : Name) (r : List Name) (hr : r ≠ []) : joinSl (a :: r) = a ++ '/' :: joinSl r := by
  cases r with
  | nil => exact absurd rfl hr
  | cons b r' => rfl

theorem joinSl_snoc (ds : List Name) (x : Name) : joinSl (ds ++ [x]) = dirStr ds ++ x := by
  induction ds with
  | nil => simp [joinSl, dirStr]
  | cons a r ih =>
    rw [List.cons_append, joinSl_cons _ _ (by simp), ih]
    simp [dirStr]

theorem dirStr_eq (ds : List Name) (h : ds ≠ []) : dirStr ds = joinSl ds ++ ['/'] := by
  induction ds with
  | nil => exact absurd rfl h
  | cons a r ih =>
    by_cases hr : r = []
    · subst hr; simp [dirStr, joinSl]
    · rw [joinSl_cons _ _ hr]
      have := ih hr
      simp only [dirStr, List.flatMap_cons] at this ⊢
      rw [this]; simp

theorem joinSl_ne_nil (ds : List Name) (h : ds ≠ []) (hok : ∀ d ∈ ds, CompOK d) : joinSl ds ≠ [] := by
  cases ds with
  | nil => exact absurd rfl h
  | cons a r =>
    have ha := (hok a List.mem_cons_self).1
    cases r with
    | nil => exact ha
    | cons b r' => simp [joinSl, ha]

theorem joinSl_head (ds : List Name) (hok : ∀ d ∈ ds, CompOK d) : (joinSl ds).head? ≠ some '/' := by
  cases ds with
  | nil => simp [joinSl]
  | cons a r =>
    obtain ⟨ha, hs⟩ := hok a List.mem_cons_self
    cases a with
    | nil => exact absurd rfl ha
    | cons c a' =>
      have hc := hs c List.mem_cons_self
      cases r with
      | nil => simpa [joinSl] using hc
      | cons b r' => simpa [joinSl] using hc

theorem comp_getLast {c : Name} (h : CompOK c) : c.getLast? ≠ some '/' := by
  intro hl
  exact h.2 '/' (List.mem_of_getLast? hl) rfl

theorem joinSl_getLast (ds : List Name) (h : ds ≠ []) (hok : ∀ d ∈ ds, CompOK d) :
    (joinSl ds).getLast? ≠ some '/' := by
  induction ds with
  | nil => exact absurd rfl h
  | cons a r ih =>
    by_cases hr : r = []
    · subst hr; exact comp_getLast (hok a List.mem_cons_self)
    · rw [joinSl_cons _ _ hr, getLast?_append_cons]
      have hne := joinSl_ne_nil r hr (fun d hd => hok d (List.mem_cons_of_mem _ hd))
      rw [getLast_cons_ne _ _ hne]
      exact ih hr (fun d hd => hok d (List.mem_cons_of_mem _ hd))

/-- `os.path.join` adds one component -/
theorem joinSl_pjoin (ds : List Name) (x : Name) (hok : ∀ d ∈ ds, CompOK d) (hx : CompOK x) :
    joinSl (ds ++ [x]) = pjoin (joinSl ds) x := by
  have hxh : ∀ r, x ≠ '/' :: r := by
    intro r e; exact hx.2 '/' (by rw [e]; exact List.mem_cons_self) rfl
  have hpj : pjoin (joinSl ds) x =
      if joinSl ds = [] ∨ (joinSl ds).getLast? = some '/' then joinSl ds ++ x else joinSl ds ++ '/' :: x := by
    unfold pjoin
    split
    · rename_i r; exact absurd rfl (hxh r)
    · rfl
  rw [hpj, joinSl_snoc]
  by_cases hds : ds = []
  · subst hds; simp [joinSl, dirStr]
  · have h1 := joinSl_ne_nil ds hds hok
    have h2 := joinSl_getLast ds hds hok
    simp only [h1, h2, or_self, if_false]
    rw [dirStr_eq ds hds]; simp

theorem joinSl_foldl_from (ds pre : List Name) (hok : ∀ d ∈ ds, CompOK d) (hpre : ∀ d ∈ pre, CompOK d) :
    ds.foldl pjoin (joinSl pre) = joinSl (pre ++ ds) := by
  induction ds generalizing pre with
  | nil => simp
  | cons d r ih =>
    have hd := hok d List.mem_cons_self
    rw [List.foldl_cons, ← joinSl_pjoin pre d hpre hd,
      ih (pre ++ [d]) (fun x hx => hok x (List.mem_cons_of_mem _ hx)) (by
        intro x hx
        rcases List.mem_append.mp hx with h | h
        · exact hpre x h
        · simp only [List.mem_singleton] at h; subst h; exact hd)]
    simp

theorem joinSl_foldl (ds : List Name) (hok : ∀ d ∈ ds, CompOK d) : ds.foldl pjoin [] = joinSl ds := by
  have := joinSl_foldl_from ds [] hok (fun _ h => by cases h)
  simpa [joinSl] using this

theorem splitSlash_joinSl (ds : List Name) (h : ds ≠ []) (hok : ∀ d ∈ ds, CompOK d) :
    splitSlash (joinSl ds) = ds := by
  induction ds with
  | nil => exact absurd rfl h
  | cons a r ih =>
    have ha := splitSlash_noslash a (hok a List.mem_cons_self).2
    by_cases hr : r = []
    · subst hr; simpa [joinSl] using ha
    · rw [joinSl_cons _ _ hr, splitSlash_append_slash, ha, ih hr (fun d hd => hok d (List.mem_cons_of_mem _ hd))]
      rfl

theorem stripSlash_id (g : List Char) (h1 : g.head? ≠ some '/') (h2 : g.getLast? ≠ some '/') :
    stripSlash g = g := by
  have dw : ∀ l : List Char, l.head? ≠ some '/' → l.dropWhile (· == '/') = l := by
    intro l hl
    cases l with
    | nil => rfl
    | cons c r =>
      have : (c == '/') = false := by simpa using hl
      simp [List.dropWhile, this]
  unfold stripSlash
  rw [dw g h1, dw g.reverse (by rwa [List.head?_reverse]), List.reverse_reverse]

/-! ### uniqueness of the decomposition -/

theorem allSl_getLast' (l : List Char) (h : allSl l = true) (hne : l ≠ []) : l.getLast? = some '/' := by
  have hm : ∀ c ∈ l, c = '/' := by
    intro c hc
    have := List.all_eq_true.mp h c hc
    simpa using this
  cases hl : l.getLast? with
  | none => simp at hl; exact absurd hl hne
  | some c => rw [hm c (List.mem_of_getLast? hl)]

/-- a text that ends in a non-separator, followed by separators: both parts are determined -/
theorem tail_unique (A₁ A₂ t₁ t₂ : List Char) (h : A₁ ++ t₁ = A₂ ++ t₂)
    (h1 : A₁.getLast? ≠ some '/') (h2 : A₂.getLast? ≠ some '/') (ht1 : allSl t₁ = true) (ht2 : allSl t₂ = true) :
    A₁ = A₂ ∧ t₁ = t₂ := by
  rcases List.append_eq_append_iff.mp h with ⟨a, e1, e2⟩ | ⟨a, e1, e2⟩
  · -- A₂ = A₁ ++ a, t₁ = a ++ t₂
    by_cases ha : a = []
    · subst ha; simp at e1 e2; exact ⟨e1.symm, e2⟩
    · exfalso
      have hal : allSl a = true := (allSl_append.mp (e2 ▸ ht1)).1
      have := allSl_getLast' a hal ha
      apply h2
      rw [e1, getLast_append_ne _ _ ha]; exact this
  · by_cases ha : a = []
    · subst ha; simp at e1 e2; exact ⟨e1, e2.symm⟩
    · exfalso
      have hal : allSl a = true := (allSl_append.mp (e2 ▸ ht2)).1
      have := allSl_getLast' a hal ha
      apply h1
      rw [e1, getLast_append_ne _ _ ha]; exact this

/-- a separator-free last piece after a prefix that is empty or ends in a separator: both are
    determined -/
theorem last_piece_unique (P₁ P₂ x₁ x₂ : List Char) (h : P₁ ++ x₁ = P₂ ++ x₂)
    (hx1 : ∀ c ∈ x₁, c ≠ '/') (hx2 : ∀ c ∈ x₂, c ≠ '/')
    (hp1 : P₁ = [] ∨ P₁.getLast? = some '/') (hp2 : P₂ = [] ∨ P₂.getLast? = some '/') :
    P₁ = P₂ ∧ x₁ = x₂ := by
  rcases List.append_eq_append_iff.mp h with ⟨a, e1, e2⟩ | ⟨a, e1, e2⟩
  · -- P₂ = P₁ ++ a, x₁ = a ++ x₂
    by_cases ha : a = []
    · subst ha; simp at e1 e2; exact ⟨e1.symm, e2⟩
    · exfalso
      have hP2 : P₂ ≠ [] := by rw [e1]; simp [ha]
      rcases hp2 with hp2 | hp2
      · exact hP2 hp2
      · rw [e1, getLast_append_ne _ _ ha] at hp2
        have hm : '/' ∈ x₁ := by rw [e2]; exact List.mem_append_left _ (List.mem_of_getLast? hp2)
        exact hx1 '/' hm rfl
  · by_cases ha : a = []
    · subst ha; simp at e1 e2; exact ⟨e1, e2.symm⟩
    · exfalso
      have hP1 : P₁ ≠ [] := by rw [e1]; simp [ha]
      rcases hp1 with hp1 | hp1
      · exact hP1 hp1
      · rw [e1, getLast_append_ne _ _ ha] at hp1
        have hm : '/' ∈ x₂ := by rw [e2]; exact List.mem_append_left _ (List.mem_of_getLast? hp1)
        exact hx2 '/' hm rfl

theorem dirStr_last (ds : List Name) : dirStr ds = [] ∨ (dirStr ds).getLast? = some '/' := by
  by_cases h : ds = []
  · subst h; exact Or.inl rfl
  · right
    obtain ⟨r, x, rfl⟩ : ∃ r x, ds = r ++ [x] := by
      rcases List.eq_nil_or_concat ds with h0 | ⟨a, b, hab⟩
      · exact absurd h0 h
      · exact ⟨a, b, by simpa using hab⟩
    simp [dirStr, List.flatMap_append]

theorem decomp_tail (ds : List Name) (hdse : ds ≠ []) (hds : ∀ d ∈ ds, CompOK d) (g sl : List Char)
    (hsl : allSl sl = true) (hg : sl = [] → g = []) (e3 : joinSl ds ++ ['/'] = g ++ sl) :
    g = joinSl ds ∧ sl = ['/'] := by
  have hJ := joinSl_getLast ds hdse hds
  have hsle : sl ≠ [] := by
    intro e; rw [hg e, e] at e3; simp at e3
  obtain ⟨sl', rfl⟩ := allSl_snoc sl hsl hsle
  rw [← List.append_assoc] at e3
  have e4 : joinSl ds = g ++ sl' := List.append_cancel_right e3
  have hsl' : allSl sl' = true := (allSl_append.mp hsl).1
  by_cases h0 : sl' = []
  · subst h0; simp at e4; exact ⟨e4.symm, rfl⟩
  · exfalso
    apply hJ
    rw [e4, getLast_append_ne _ _ h0]
    exact allSl_getLast' sl' hsl' h0

/-- **the decomposition `g · seps · s · seps` of a clean path is unique**: the path is given by its
    components (`tl` = it carries a trailing separator) -/
theorem decomp_unique (comps : List Name) (hne : comps ≠ []) (hok : ∀ c ∈ comps, CompOK c) (tl : List Char)
    (htl : allSl tl = true) (g sl s rt : List Char) (hs : CompOK s) (hsl : allSl sl = true)
    (hrt : allSl rt = true) (hg : sl = [] → g = [])
    (h : joinSl comps ++ tl = g ++ sl ++ (s ++ rt)) :
    ∃ ds, comps = ds ++ [s] ∧ g = joinSl ds ∧ rt = tl ∧ (ds ≠ [] → sl = ['/']) := by
  obtain ⟨ds, x, rfl⟩ : ∃ r x, comps = r ++ [x] := by
    rcases List.eq_nil_or_concat comps with h0 | ⟨a, b, hab⟩
    · exact absurd h0 hne
    · exact ⟨a, b, by simpa using hab⟩
  have hx : CompOK x := hok x (by simp)
  have hds : ∀ d ∈ ds, CompOK d := fun d hd => hok d (List.mem_append_left _ hd)
  rw [joinSl_snoc] at h
  have h' : (dirStr ds ++ x) ++ tl = (g ++ sl ++ s) ++ rt := by rw [h]; simp
  have hAx : (dirStr ds ++ x).getLast? ≠ some '/' := by
    rw [getLast_append_ne _ _ hx.1]; exact comp_getLast hx
  have hAs : (g ++ sl ++ s).getLast? ≠ some '/' := by
    rw [getLast_append_ne _ _ hs.1]; exact comp_getLast hs
  obtain ⟨e1, e2⟩ := tail_unique _ _ _ _ h' hAx hAs htl hrt
  have hP2 : g ++ sl = [] ∨ (g ++ sl).getLast? = some '/' := by
    by_cases hsle : sl = []
    · left; rw [hg hsle, hsle]; rfl
    · right; rw [getLast_append_ne _ _ hsle]; exact allSl_getLast' sl hsl hsle
  obtain ⟨e3, e4⟩ := last_piece_unique _ _ _ _ e1 hx.2 hs.2 (dirStr_last ds) hP2
  subst e4
  refine ⟨ds, rfl, ?_, e2.symm, ?_⟩
  · by_cases hdse : ds = []
    · subst hdse
      simp only [dirStr, List.flatMap_nil] at e3
      have := List.append_eq_nil_iff.mp e3.symm
      rw [this.1]; rfl
    · exact (decomp_tail ds hdse hds g sl hsl hg (by rw [← dirStr_eq ds hdse]; exact e3)).1
  · intro hdse
    exact (decomp_tail ds hdse hds g sl hsl hg (by rw [← dirStr_eq ds hdse]; exact e3)).2

/-! ### hidden segments inside the text the globstar consumed -/

theorem hiddenAhead_cons (b : Bool) (c : Char) (t : List Char) :
    hiddenAhead ⟨b, c :: t⟩ ↔ ((c = '/' ∧ t.head? = some '.') ∨ (b = true ∧ c = '.')) := by
  unfold hiddenAhead
  constructor
  · rintro (⟨s, e⟩ | ⟨hb, s, e⟩)
    · simp only [List.cons.injEq] at e
      left; exact ⟨e.1, by rw [e.2]; rfl⟩
    · simp only [List.cons.injEq] at e
      right; exact ⟨hb, e.1⟩
  · rintro (⟨rfl, ht⟩ | ⟨hb, rfl⟩)
    · left
      cases t with
      | nil => simp at ht
      | cons d r => simp only [List.head?_cons, Option.some.injEq] at ht; subst ht; exact ⟨r, rfl⟩
    · right; exact ⟨hb, t, rfl⟩

/-- inside a component nothing hidden can open; at its first character only at the very start -/
theorem NoHid_comp (c : Char) (d' : List Char) (hc : c ≠ '/') (hd : ∀ ch ∈ d', ch ≠ '/') (b : Bool)
    (g2 r : List Char) :
    NoHid b (c :: d' ++ g2) r ↔ ((b = true → c ≠ '.') ∧ NoHid false g2 r) := by
  induction d' generalizing c b with
  | nil =>
    simp only [List.cons_append, List.nil_append, NoHid, hiddenAhead_cons]
    constructor
    · rintro ⟨h1, h2⟩; exact ⟨fun hb hcd => h1 (Or.inr ⟨hb, hcd⟩), h2⟩
    · rintro ⟨h1, h2⟩
      refine ⟨?_, h2⟩
      rintro (⟨h, _⟩ | ⟨hb, h⟩)
      · exact hc h
      · exact h1 hb h
  | cons c2 d'' ih =>
    have hc2 : c2 ≠ '/' := hd c2 List.mem_cons_self
    have ih' := ih c2 hc2 (fun ch hch => hd ch (List.mem_cons_of_mem _ hch)) false
    simp only [List.cons_append, NoHid, hiddenAhead_cons] at ih' ⊢
    rw [ih']
    constructor
    · rintro ⟨h1, _, h2⟩; exact ⟨fun hb hcd => h1 (Or.inr ⟨hb, hcd⟩), h2⟩
    · rintro ⟨h1, h2⟩
      refine ⟨?_, (fun h => by cases h), h2⟩
      rintro (⟨h, _⟩ | ⟨hb, h⟩)
      · exact hc h
      · exact h1 hb h

theorem NoHid_slash (g2 r : List Char) :
    NoHid false ('/' :: g2) r ↔ ((g2 ++ r).head? ≠ some '.' ∧ NoHid false g2 r) := by
  simp only [NoHid, List.cons_append, hiddenAhead_cons]
  constructor
  · rintro ⟨h1, h2⟩; exact ⟨fun h => h1 (by simpa using h), h2⟩
  · rintro ⟨h1, h2⟩
    refine ⟨?_, h2⟩
    intro h
    exact h1 (by simpa using h)

theorem NoHid_joinSl (ds : List Name) (hok : ∀ d ∈ ds, CompOK d) (hne : ds ≠ []) (b : Bool) (r : List Char) :
    NoHid b (joinSl ds) r ↔
      ((b = true → ∀ d, ds.head? = some d → d.head? ≠ some '.') ∧ ∀ d ∈ ds.tail, d.head? ≠ some '.') := by
  induction ds generalizing b with
  | nil => exact absurd rfl hne
  | cons a rest ih =>
    obtain ⟨ha, has⟩ := hok a List.mem_cons_self
    cases a with
    | nil => exact absurd rfl ha
    | cons c a' =>
      have hc : c ≠ '/' := has c List.mem_cons_self
      have ha' : ∀ ch ∈ a', ch ≠ '/' := fun ch hch => has ch (List.mem_cons_of_mem _ hch)
      by_cases hr : rest = []
      · subst hr
        have := NoHid_comp c a' hc ha' b [] r
        simp only [List.append_nil] at this
        simp only [joinSl, this, NoHid, and_true, List.head?_cons, Option.some.injEq, List.tail_cons,
          List.not_mem_nil, false_implies, implies_true]
        constructor
        · intro h hb d hd; subst hd; simpa using h hb
        · intro h hb; simpa using h hb _ rfl
      · have hrok : ∀ d ∈ rest, CompOK d := fun d hd => hok d (List.mem_cons_of_mem _ hd)
        rw [joinSl_cons _ _ hr, NoHid_comp c a' hc ha' b, NoHid_slash, ih hrok hr false]
        have hhead : (joinSl rest ++ r).head? = (rest.head?.bind List.head?) := by
          cases rest with
          | nil => exact absurd rfl hr
          | cons x rest' =>
            obtain ⟨hx, _⟩ := hrok x List.mem_cons_self
            cases x with
            | nil => exact absurd rfl hx
            | cons y x' =>
              cases rest' with
              | nil => simp [joinSl]
              | cons z r'' => simp [joinSl]
        rw [hhead]
        simp only [List.head?_cons, Option.some.injEq, List.tail_cons]
        constructor
        · rintro ⟨h1, h2, _, h3⟩
          refine ⟨fun hb d hd => by subst hd; simpa using h1 hb, ?_⟩
          intro d hd
          cases rest with
          | nil => exact absurd rfl hr
          | cons x rest' =>
            rcases List.mem_cons.mp hd with rfl | hd'
            · simpa using h2
            · exact h3 d hd'
        · rintro ⟨h1, h2⟩
          refine ⟨fun hb => by simpa using h1 hb _ rfl, ?_, (fun h => by cases h), ?_⟩
          · cases rest with
            | nil => exact absurd rfl hr
            | cons x rest' => simpa using h2 x List.mem_cons_self
          · intro d hd
            exact h2 d (List.mem_of_mem_tail hd)

/-- **what the captured globstar may consume in front of `/…`**: whole visible components -/
theorem NoHid_dirs (ds : List Name) (hok : ∀ d ∈ ds, CompOK d) (r : List Char) :
    NoHid true (joinSl ds) r ↔ ∀ d ∈ ds, d.head? ≠ some '.' := by
  by_cases hne : ds = []
  · subst hne; simp [joinSl, NoHid]
  · rw [NoHid_joinSl ds hok hne true r]
    cases ds with
    | nil => exact absurd rfl hne
    | cons a rest =>
      simp only [List.head?_cons, Option.some.injEq, List.tail_cons, List.mem_cons, forall_const]
      constructor
      · rintro ⟨h1, h2⟩ d (rfl | hd)
        · exact h1 _ rfl
        · exact h2 d hd
      · intro h
        exact ⟨fun d hd => by subst hd; exact h _ (Or.inl rfl), fun d hd => h d (Or.inr hd)⟩

/-! ### a one-segment literal pattern -/

/-- the language of the literal one-segment pattern `s` (case-sensitive), on texts that do not end
    in a newline: `s` itself, then separators -/
theorem PM_oneSeg (cfg : Cfg) (hcs : cfg.caseSensitive = true) (s : List Char) (hs : CompOK s) (t : List Char)
    (hnl : t.getLast? ≠ some '\n') :
    PM cfg (!cfg.caseSensitive) .start s t ↔ ∃ rt, t = s ++ rt ∧ allSl rt = true := by
  rw [PM_split, hcs]
  simp only [Bool.not_true]
  have hd : dotNlTail LPos.start.after t = false := by
    cases h : dotNlTail LPos.start.after t with
    | false => rfl
    | true =>
      exfalso
      obtain ⟨pre, _, e | e⟩ := (C09path.dotNlTail_iff _ _).mp h
      · apply hnl; rw [e]; simp
      · apply hnl; rw [e]; simp
  have hns : '/' ∉ s := fun h => hs.2 '/' h rfl
  obtain ⟨c, r, rfl⟩ : ∃ c r, s = c :: r := by
    cases s with
    | nil => exact absurd rfl hs.1
    | cons c r => exact ⟨c, r, rfl⟩
  have hc : c ≠ '/' := hs.2 c List.mem_cons_self
  rw [PM0_nonsep_irrel false .start .mid c r t hc]
  have := PM0_run false (c :: r) hns [] t
  rw [List.append_nil] at this
  rw [this]
  constructor
  · rintro ⟨⟨p, rt, rfl, hp, hrt⟩, _⟩
    rw [C09path.ciEq_cs hp]
    exact ⟨rt, rfl, by simpa [PM0] using hrt⟩
  · rintro ⟨rt, rfl, hrt⟩
    exact ⟨⟨c :: r, rt, rfl, C09path.ciEq_refl _ _, by simpa [PM0] using hrt⟩, fun _ => hd⟩

/-! ### `_fs_match`'s link loop on whole components -/

theorem fsPieces_comps (fs : FS) (n : Nat) : ∀ (ds pre : List Name) (j : Nat), (∀ d ∈ ds, CompOK d) →
    (∀ d ∈ pre, CompOK d) →
    ((fsPieces fs false ds j n (joinSl pre)).2 = true ↔
      ∀ i, i < ds.length → fs.islink (joinSl (pre ++ ds.take (i + 1))) = false) := by
  intro ds
  induction ds with
  | nil => intro pre j _ _; simp [fsPieces]
  | cons d r ih =>
    intro pre j hok hpre
    have hd := hok d List.mem_cons_self
    have hpre' : ∀ x ∈ pre ++ [d], CompOK x := by
      intro x hx
      rcases List.mem_append.mp hx with h | h
      · exact hpre x h
      · simp only [List.mem_singleton] at h; subst h; exact hd
    simp only [fsPieces, Bool.not_false, Bool.true_or, Bool.true_and]
    rw [← joinSl_pjoin pre d hpre hd]
    cases hl : fs.islink (joinSl (pre ++ [d])) with
    | true =>
      simp only [if_true]
      constructor
      · intro h; cases h
      · intro h
        have := h 0 (by simp)
        simp only [List.take_succ_cons, List.take_zero] at this
        rw [hl] at this; cases this
    | false =>
      simp only [Bool.false_eq_true, if_false]
      rw [ih (pre ++ [d]) (j + 1) (fun x hx => hok x (List.mem_cons_of_mem _ hx)) hpre']
      constructor
      · intro h i hi
        cases i with
        | zero => simpa using hl
        | succ i' =>
          have := h i' (by simpa using hi)
          simpa [List.append_assoc] using this
      · intro h i hi
        have := h (i + 1) (by simpa using hi)
        simpa [List.append_assoc] using this

/-! ### the regex on a path given by its components -/

theorem suffix_getLast_ne {pre u : List Char} (h : (pre ++ u).getLast? ≠ some '\n') : u.getLast? ≠ some '\n' := by
  by_cases hu : u = []
  · subst hu; simp
  · rwa [getLast_append_ne pre u hu] at h

/-- the analysis of one `(globstar, rest)` split of the subject -/
theorem emLit_split (cfg : Cfg) (hcs : cfg.caseSensitive = true) (hrp : cfg.realpath = true)
    (s : List Char) (hs : CompOK s) (comps : List Name) (hne : comps ≠ []) (hc : ∀ c ∈ comps, CompOK c)
    (tl : List Char) (htl : allSl tl = true) (hnl : (joinSl comps ++ tl).getLast? ≠ some '\n') (a1 : St) (b : Bool)
    (hG : Re.M ⟨true, !cfg.caseSensitive⟩ emG ⟨true, joinSl comps ++ tl⟩ a1)
    (hR : Re.M ⟨true, !cfg.caseSensitive⟩ (seqRe (emRestList cfg s)) a1 ⟨b, []⟩) :
    ∃ ds, comps = ds ++ [s] ∧ (∀ d ∈ ds, d.head? ≠ some '.') ∧
      (joinSl comps ++ tl).length - a1.rest.length = (joinSl ds).length := by
  have hsh : s.head? ≠ some '/' := by
    obtain ⟨h1, h2⟩ := hs
    cases s with
    | nil => exact absurd rfl h1
    | cons c r => simpa using h2 c List.mem_cons_self
  obtain ⟨g, e, hf, hg⟩ := (emG_iff _ _ _).mp hG
  simp only at e hf hg
  have hnl1 : a1.rest.getLast? ≠ some '\n' := suffix_getLast_ne (e ▸ hnl)
  obtain ⟨sl, t, e2, hsl, hst, hpm⟩ := (emRest_iff cfg s hs.1 hsh hrp a1 hnl1).mp ⟨b, hR⟩
  have hnl2 : t.getLast? ≠ some '\n' := suffix_getLast_ne (e2 ▸ hnl1)
  obtain ⟨rt, rfl, hrt⟩ := (PM_oneSeg cfg hcs s hs t hnl2).mp hpm
  have hgs : sl = [] → g = [] := by
    intro h
    have := hst h
    rw [hf] at this
    simpa using this
  obtain ⟨ds, hcomps, hgd, _, _⟩ := decomp_unique comps hne hc tl htl g sl s rt hs hsl hrt hgs
    (by rw [e, e2, List.append_assoc])
  have hds : ∀ d ∈ ds, CompOK d := fun d hd => hc d (by rw [hcomps]; exact List.mem_append_left _ hd)
  refine ⟨ds, hcomps, ?_, ?_⟩
  · rw [hgd] at hg
    exact (NoHid_dirs ds hds _).mp hg
  · rw [e, ← hgd]; simp

/-- **the language of `emLitRe` on clean paths**: the last component is `s`, the ones before it are
    visible -/
theorem emLit_fullMatch_comps (cfg : Cfg) (hcs : cfg.caseSensitive = true) (hrp : cfg.realpath = true)
    (s : List Char) (hs : CompOK s) (comps : List Name) (hne : comps ≠ []) (hc : ∀ c ∈ comps, CompOK c)
    (tl : List Char) (htl : allSl tl = true) (hnl : (joinSl comps ++ tl).getLast? ≠ some '\n') :
    (emLitRe cfg s).FullMatch (joinSl comps ++ tl) ↔
      ∃ ds, comps = ds ++ [s] ∧ ∀ d ∈ ds, d.head? ≠ some '.' := by
  rw [emLit_fullMatch]
  constructor
  · rintro ⟨a1, b, hG, _, hR⟩
    obtain ⟨ds, h1, h2, _⟩ := emLit_split cfg hcs hrp s hs comps hne hc tl htl hnl a1 b hG hR
    exact ⟨ds, h1, h2⟩
  · rintro ⟨ds, rfl, hvis⟩
    have hds : ∀ d ∈ ds, CompOK d := fun d hd => hc d (List.mem_append_left _ hd)
    have hsh : s.head? ≠ some '/' := by
      obtain ⟨h1, h2⟩ := hs
      cases s with
      | nil => exact absurd rfl h1
      | cons c r => simpa using h2 c List.mem_cons_self
    have hhead : (joinSl (ds ++ [s]) ++ tl).head? ≠ some '/' := by
      have h1 := joinSl_head (ds ++ [s]) hc
      have h2 := joinSl_ne_nil (ds ++ [s]) hne hc
      cases hj : joinSl (ds ++ [s]) with
      | nil => exact absurd hj h2
      | cons x r => rw [hj] at h1; simpa using h1
    by_cases hdse : ds = []
    · subst hdse
      simp only [List.nil_append, joinSl] at hnl ⊢
      have hR := (emRest_iff cfg s hs.1 hsh hrp ⟨true, s ++ tl⟩ hnl).mpr
        ⟨[], s ++ tl, rfl, rfl, fun _ => rfl, (PM_oneSeg cfg hcs s hs _ hnl).mpr ⟨tl, rfl, htl⟩⟩
      obtain ⟨b, hR⟩ := hR
      refine ⟨⟨true, s ++ tl⟩, b, (emG_iff _ _ _).mpr ⟨[], rfl, rfl, trivial⟩, by simpa [joinSl] using hhead, hR⟩
    · have hname : joinSl (ds ++ [s]) ++ tl = joinSl ds ++ (['/'] ++ (s ++ tl)) := by
        rw [joinSl_snoc, dirStr_eq ds hdse]; simp
      rw [hname] at hnl hhead ⊢
      have hnl1 : (['/'] ++ (s ++ tl)).getLast? ≠ some '\n' := suffix_getLast_ne hnl
      have hnl2 : (s ++ tl).getLast? ≠ some '\n' := suffix_getLast_ne hnl1
      have hR := (emRest_iff cfg s hs.1 hsh hrp ⟨false, ['/'] ++ (s ++ tl)⟩ hnl1).mpr
        ⟨['/'], s ++ tl, rfl, rfl, (fun h => by cases h), (PM_oneSeg cfg hcs s hs _ hnl2).mpr ⟨tl, rfl, htl⟩⟩
      obtain ⟨b, hR⟩ := hR
      refine ⟨⟨false, ['/'] ++ (s ++ tl)⟩, b, (emG_iff _ _ _).mpr ⟨joinSl ds, rfl, ?_, ?_⟩, hhead, hR⟩
      · have := joinSl_ne_nil ds hdse hds
        cases hj : joinSl ds with
        | nil => exact absurd hj this
        | cons _ _ => rfl
      · exact (NoHid_dirs ds hds _).mpr hvis

/-- the spans `re.fullmatch` reports for `emLitRe` on a clean path -/
theorem emLit_spans (cfg : Cfg) (hcs : cfg.caseSensitive = true) (hrp : cfg.realpath = true)
    (s : List Char) (hs : CompOK s) (hok : (emLitRe cfg s).repOK = true)
    (comps : List Name) (hne : comps ≠ []) (hc : ∀ c ∈ comps, CompOK c)
    (tl : List Char) (htl : allSl tl = true) (hnl : (joinSl comps ++ tl).getLast? ≠ some '\n')
    (spans : List (Option (Nat × Nat))) (h : (emLitRe cfg s).fullmatchCap (joinSl comps ++ tl) = some spans) :
    ∃ ds, comps = ds ++ [s] ∧ (∀ d ∈ ds, d.head? ≠ some '.') ∧ spans = [some (0, (joinSl ds).length)] := by
  obtain ⟨a1, b, rfl, hG, _, hR⟩ := emLit_run cfg s _ hok spans h
  obtain ⟨ds, h1, h2, h3⟩ := emLit_split cfg hcs hrp s hs comps hne hc tl htl hnl a1 b hG hR
  exact ⟨ds, h1, h2, by rw [h3]⟩

/-- **`_fs_match`'s link loop on the span of the prefix globstar**: every directory component in
    front of the last one is tested, none may be a symbolic link -/
theorem fsGroups_dirs (fs : FS) (ds : List Name) (hds : ∀ d ∈ ds, CompOK d) (s : Name) (hs : CompOK s)
    (tl : List Char) :
    fsGroups fs (joinSl (ds ++ [s]) ++ tl) [some (0, (joinSl ds).length)] = true ↔
      ∀ i, i < ds.length → fs.islink (joinSl (ds.take (i + 1))) = false := by
  by_cases hdse : ds = []
  · subst hdse
    simp [fsGroups, joinSl]
  · have hname : joinSl (ds ++ [s]) ++ tl = joinSl ds ++ (['/'] ++ (s ++ tl)) := by
      rw [joinSl_snoc, dirStr_eq ds hdse]; simp
    have hJne := joinSl_ne_nil ds hdse hds
    have hstar : ((joinSl (ds ++ [s]) ++ tl).take (joinSl ds).length).drop 0 = joinSl ds := by
      rw [hname, List.drop_zero, List.take_left']
      rfl
    have hsne : s.length ≥ 1 := by
      obtain ⟨h1, _⟩ := hs
      cases s with
      | nil => exact absurd rfl h1
      | cons _ _ => simp
    have hatEnd : decide (((joinSl ds).length : Int) ≥ ((joinSl (ds ++ [s]) ++ tl).length : Int) - 1) = false := by
      rw [hname]
      simp only [List.length_append, List.length_cons, List.length_nil]
      simp only [decide_eq_false_iff_not]
      omega
    have hstrip : stripSlash (joinSl ds) = joinSl ds :=
      stripSlash_id _ (joinSl_head ds hds) (joinSl_getLast ds hdse hds)
    have hempty : (joinSl ds).isEmpty = false := by
      cases hj : joinSl ds with
      | nil => exact absurd hj hJne
      | cons _ _ => rfl
    have hp := fsPieces_comps fs ds.length ds [] 1 hds (fun _ h => by cases h)
    simp only [joinSl, List.nil_append] at hp
    rw [← hp]
    unfold fsGroups
    simp only [hstar, hempty, Bool.false_eq_true, if_false, hatEnd, hstrip,
      splitSlash_joinSl ds hdse hds, List.take_zero]
    cases (fsPieces fs false ds 1 ds.length []).2 <;> simp [fsGroups]

/-- **`_fs_match` with the regex of a literal one-segment pattern under `_EXTMATCHBASE`**, on a
    clean path given by its components (`tl` = trailing separators): accepted exactly when the
    last component is `s`, the ones before it are visible and none of the directory prefixes is a
    symbolic link -/
theorem fsMatch_emLit (fs : FS) (cfg : Cfg) (hcs : cfg.caseSensitive = true) (hrp : cfg.realpath = true)
    (s : List Char) (hs : CompOK s) (hok : (emLitRe cfg s).repOK = true)
    (comps : List Name) (hne : comps ≠ []) (hc : ∀ c ∈ comps, CompOK c)
    (tl : List Char) (htl : allSl tl = true) (hnl : (joinSl comps ++ tl).getLast? ≠ some '\n') :
    fsMatch fs (emLitRe cfg s) (joinSl comps ++ tl) false = true ↔
      ∃ ds, comps = ds ++ [s] ∧ (∀ d ∈ ds, d.head? ≠ some '.') ∧
        ∀ i, i < ds.length → fs.islink (joinSl (ds.take (i + 1))) = false := by
  rw [C04cap.fsMatch_iff]
  constructor
  · rintro ⟨spans, hsp, hg⟩
    obtain ⟨ds, h1, h2, rfl⟩ := emLit_spans cfg hcs hrp s hs hok comps hne hc tl htl hnl spans hsp
    have hg' : fsGroups fs (joinSl comps ++ tl) [some (0, (joinSl ds).length)] = true := by
      rcases hg with hg | hg
      · cases hg
      · exact hg
    subst h1
    have hds : ∀ d ∈ ds, CompOK d := fun d hd => hc d (List.mem_append_left _ hd)
    exact ⟨ds, rfl, h2, (fsGroups_dirs fs ds hds s hs tl).mp hg'⟩
  · rintro ⟨ds, rfl, hvis, hlinks⟩
    have hds : ∀ d ∈ ds, CompOK d := fun d hd => hc d (List.mem_append_left _ hd)
    have hfm := (emLit_fullMatch_comps cfg hcs hrp s hs _ hne hc tl htl hnl).mpr ⟨ds, rfl, hvis⟩
    have hsome := (Re.fullmatchCap_isSome_iff _ _ hok).mpr hfm
    cases hsp : (emLitRe cfg s).fullmatchCap (joinSl (ds ++ [s]) ++ tl) with
    | none => rw [hsp] at hsome; cases hsome
    | some spans =>
      obtain ⟨ds', h1, _, rfl⟩ := emLit_spans cfg hcs hrp s hs hok _ hne hc tl htl hnl spans hsp
      have : ds' = ds := (List.append_inj' h1 rfl).1.symm
      subst this
      exact ⟨_, rfl, Or.inr ((fsGroups_dirs fs ds' hds s hs tl).mpr hlinks)⟩

end WcModel.PathlibViews

import WcModel.Proofs.PassReadPathSeg
/-
  PassReadPath, part 3: a bracket inside a path segment.

  `PR.bracket_read` (Proofs/PassReadCls.lean) describes `_sequence` in fnmatch mode on the text of
  ONE file-name pattern.  In path mode the same bracket stands inside a segment that is followed
  by the rest of the path pattern (nothing, or a separator and more text).  Two facts bridge the gap:
    * locality: `_sequence` does not look beyond the segment (`seqLoopG_ext`, `matchPosix_ext`):
      appending a tail that is empty or begins with `/` to a `/`-free text changes nothing;
    * transfer: on a `/`-free text the loop of `_sequence` does not depend on PATHNAME; only the
      guard that is put in front of the class does.
  `sequence_path` puts them together.
-/
namespace WcModel
namespace PRP
open PP PPP PR

/-- the fnmatch twin of a path configuration -/
def fnOf (cfg : Cfg) : Cfg := { cfg with pathname := false }

theorem fnOf_FnX (cfg : Cfg) (h : PathX cfg) : FnX (fnOf cfg) :=
  ⟨⟨⟨rfl, h.unix, h.bslash, h.wdd, h.realpath⟩, h.anchor, h.matchbase, h.extmatchbase⟩, h.extend⟩

/-- what may follow a segment: nothing, or a separator -/
def TailOK (tail : List Char) : Prop := tail = [] ∨ ∃ u, tail = '/' :: u

/-- the iterator on the text extended by `tail` -/
def ex (tail : List Char) (it : It) : It := ⟨it.idx, it.rest ++ tail⟩

theorem next_ex (tail : List Char) {it it' : It} {c : Char} (h : it.next = some (c, it')) :
    (ex tail it).next = some (c, ex tail it') := by
  obtain ⟨i, r⟩ := it
  cases r with
  | nil => simp [It.next] at h
  | cons d r' =>
    simp only [It.next, Option.some.injEq, Prod.mk.injEq] at h
    obtain ⟨rfl, rfl⟩ := h
    rfl

theorem next_mem {it it' : It} {c : Char} (h : it.next = some (c, it')) :
    c ∈ it.rest ∧ ∀ x ∈ it'.rest, x ∈ it.rest := by
  have := It.next_some h
  rw [this.1]
  exact ⟨by simp, fun x hx => List.mem_cons_of_mem _ hx⟩

/-! ### `matchPosix` is local -/

theorem isPrefixOf_ext : ∀ (nm rest tail : List Char), '/' ∉ nm → TailOK tail →
    nm.isPrefixOf (rest ++ tail) = nm.isPrefixOf rest := by
  intro nm
  induction nm with
  | nil => intro rest tail _ _; simp
  | cons a nm' ih =>
    intro rest tail hn ht
    have ha : a ≠ '/' := fun e => hn (by rw [e]; simp)
    have hn' : '/' ∉ nm' := fun hx => hn (List.mem_cons_of_mem _ hx)
    cases rest with
    | nil =>
      rcases ht with rfl | ⟨u, rfl⟩
      · simp
      · simp [List.isPrefixOf, ha]
    | cons b rest' =>
      simp only [List.cons_append, List.isPrefixOf, ih rest' tail hn' ht]

theorem findSome?_map' {α β γ : Type} (f : α → Option β) (g : β → γ) : ∀ l : List α,
    l.findSome? (fun a => (f a).map g) = (l.findSome? f).map g := by
  intro l
  induction l with
  | nil => rfl
  | cons a l ih =>
    simp only [List.findSome?_cons]
    cases f a with
    | none => simpa using ih
    | some b => simp

theorem matchPosix_ext (s tail : List Char) (ht : TailOK tail) :
    matchPosix (s ++ tail) = (matchPosix s).map (fun v => (v.1, v.2.1, v.2.2 ++ tail)) := by
  cases s with
  | nil =>
    rcases ht with rfl | ⟨u, rfl⟩
    · rfl
    · simp [matchPosix]
  | cons c rest =>
    by_cases hc : c = ':'
    · subst hc
      simp only [List.cons_append, matchPosix]
      rw [← findSome?_map']
      congr 1
      funext n
      have hn : '/' ∉ n.name.toList := posix_noSlash n
      simp only [isPrefixOf_ext _ rest tail hn ht]
      by_cases hp : n.name.toList.isPrefixOf rest = true
      · simp only [hp, if_true]
        obtain ⟨t, ht'⟩ := List.isPrefixOf_iff_prefix.mp hp
        rw [← ht', List.append_assoc, List.drop_left, List.drop_left]
        -- what follows the name
        match t with
        | [] =>
          rcases ht with rfl | ⟨u, rfl⟩ <;> simp
        | [x] =>
          rcases ht with rfl | ⟨u, rfl⟩
          · simp
          · by_cases hx : x = ':' <;> simp [hx]
        | x :: y :: r' =>
          by_cases hx : x = ':'
          · by_cases hy : y = ']'
            · subst hx; subst hy; simp
            · subst hx; simp [hy]
          · simp [hx]
      · simp [hp]
    · have : matchPosix (c :: rest) = none := by
        unfold matchPosix
        split
        · rename_i heq; injection heq with h1 _; exact absurd h1 hc
        · rfl
      rw [this]
      unfold matchPosix
      split
      · rename_i heq
        simp only [List.cons_append] at heq
        injection heq with h1 _; exact absurd h1 hc
      · rfl

theorem handlePosix_ext (tail : List Char) (ht : TailOK tail) (it : It) (res : List CTok) (e : Nat) :
    handlePosix (ex tail it) res e = (handlePosix it res e).map (fun v => (ex tail v.1, v.2)) := by
  unfold handlePosix
  simp only [ex, matchPosix_ext it.rest tail ht]
  cases matchPosix it.rest with
  | none => rfl
  | some v => rfl

/-! ### the member loop is local, and on `/`-free text independent of PATHNAME -/

theorem valueOf_ext (cfg : Cfg) (h : PathX cfg) (tail : List Char) (c : Char) (it it2 : It) (v : CTok)
    (hc : c ≠ '/') (hns : '/' ∉ it.rest)
    (hv : valueOf (fnOf cfg) c it = some (v, it2)) :
    valueOf cfg c (ex tail it) = some (v, ex tail it2) ∧ '/' ∉ it2.rest := by
  unfold valueOf at hv ⊢
  by_cases hb : c = '\\'
  · subst hb
    simp only [if_true] at hv ⊢
    unfold referencesSeq at hv ⊢
    cases hn : it.next with
    | none => simp [hn] at hv
    | some p =>
      obtain ⟨d, it'⟩ := p
      have hm := next_mem hn
      have hd : d ≠ '/' := fun e => hns (e ▸ hm.1)
      have hns' : '/' ∉ it'.rest := fun hx => hns (hm.2 _ hx)
      simp only [hn, next_ex tail hn, h.bslash, h.unix, fnOf, Bool.false_eq_true, if_false, Bool.not_true, hd] at hv ⊢
      by_cases hdb : d = '\\'
      · simp only [hdb, if_true, Option.some.injEq, Prod.mk.injEq] at hv ⊢
        obtain ⟨rfl, rfl⟩ := hv
        exact ⟨⟨rfl, rfl⟩, hns'⟩
      · simp only [hdb, if_false] at hv ⊢
        by_cases hdd : d = '.'
        · simp only [hdd, if_true, hn, next_ex tail hn, Option.some.injEq, Prod.mk.injEq] at hv ⊢
          obtain ⟨rfl, rfl⟩ := hv
          exact ⟨⟨rfl, rfl⟩, hns'⟩
        · simp only [hdd, if_false, Option.some.injEq, Prod.mk.injEq] at hv ⊢
          obtain ⟨rfl, rfl⟩ := hv
          exact ⟨⟨rfl, rfl⟩, hns'⟩
  · simp only [hb, hc, if_false] at hv ⊢
    split at hv
    all_goals
      rename_i hm
      simp only [Option.some.injEq, Prod.mk.injEq] at hv
      obtain ⟨rfl, rfl⟩ := hv
      exact ⟨by simp [hm], hns⟩

theorem seqLoopG_ext (cfg : Cfg) (h : PathX cfg) (tail : List Char) (ht : TailOK tail) :
    ∀ (F : Nat) (c : Char) (it : It) (st : SeqSt) (it' : It) (st' : SeqSt),
      seqLoopG true (fnOf cfg) F c it st = some (it', st') → c ≠ '/' → '/' ∉ it.rest →
      ∀ G, F ≤ G → seqLoopG true cfg G c (ex tail it) st = some (ex tail it', st') := by
  intro F
  induction F with
  | zero => intro c it st it' st' hl; simp [seqLoopG] at hl
  | succ F ih =>
    intro c it st it' st' hl hc hns G hG
    obtain ⟨G', rfl⟩ : ∃ G', G = G' + 1 := ⟨G - 1, by omega⟩
    have hG' : F ≤ G' := by omega
    unfold seqLoopG at hl ⊢
    by_cases h1 : c = ']'
    · simp only [h1, if_true, Option.some.injEq, Prod.mk.injEq] at hl ⊢
      obtain ⟨rfl, rfl⟩ := hl
      exact ⟨rfl, rfl⟩
    · simp only [h1, if_false] at hl ⊢
      by_cases h2 : c = '-'
      · simp only [h2, if_true] at hl ⊢
        cases hn : it.next with
        | none => simp [hn] at hl
        | some p =>
          obtain ⟨c', it1⟩ := p
          have hm := next_mem hn
          simp only [hn] at hl
          simp only [next_ex tail hn]
          have := ih c' it1 _ it' st' hl (fun e => hns (e ▸ hm.1)) (fun hx => hns (hm.2 _ hx)) G' hG'
          exact this
      · simp only [h2, if_false] at hl ⊢
        have hpx : (if c = '[' then handlePosix (ex tail it) st.res st.endRange else none) =
            (if c = '[' then handlePosix it st.res st.endRange else none).map (fun v => (ex tail v.1, v.2)) := by
          split
          · exact handlePosix_ext tail ht it st.res st.endRange
          · rfl
        rw [hpx]
        cases hp : (if c = '[' then handlePosix it st.res st.endRange else none) with
        | some v =>
          obtain ⟨it1, res⟩ := v
          simp only [hp] at hl
          simp only [Option.map_some]
          have hsuf : ∀ x ∈ it1.rest, x ∈ it.rest := by
            split at hp
            · obtain ⟨_, ⟨pre, hpre⟩, _⟩ := handlePosix_spec hp
              intro x hx; rw [hpre]; exact List.mem_append_right _ hx
            · cases hp
          cases hn : it1.next with
          | none => simp [hn] at hl
          | some p =>
            obtain ⟨c', it2⟩ := p
            have hm := next_mem hn
            simp only [hn] at hl
            simp only [next_ex tail hn]
            exact ih c' it2 _ it' st' hl (fun e => hns (hsuf _ (e ▸ hm.1))) (fun hx => hns (hsuf _ (hm.2 _ hx))) G' hG'
        | none =>
          simp only [hp] at hl
          simp only [Option.map_none]
          cases hv : valueOf (fnOf cfg) c it with
          | none => simp [hv] at hl
          | some p =>
            obtain ⟨value, it2⟩ := p
            simp only [hv] at hl
            obtain ⟨hv', hns2⟩ := valueOf_ext cfg h tail c it it2 value hc hns hv
            simp only [hv']
            cases hn : it2.next with
            | none => simp [hn] at hl
            | some p =>
              obtain ⟨c', it3⟩ := p
              have hm := next_mem hn
              simp only [hn] at hl
              simp only [next_ex tail hn]
              exact ih c' it3 _ it' st' hl (fun e => hns2 (e ▸ hm.1)) (fun hx => hns2 (hm.2 _ hx)) G' hG'

/-! ### the whole bracket -/

theorem seqStep2_ext (tail : List Char) (ht : TailOK tail) (neg : Bool) (c : Char) (it : It)
    (c' : Char) (it' : It) (res : List CTok) (lp : Bool)
    (hs : seqStep2 neg c it = some (c', it', res, lp)) :
    seqStep2 neg c (ex tail it) = some (c', ex tail it', res, lp) ∧
      (∀ x ∈ (c' :: it'.rest), x ∈ (c :: it.rest)) := by
  unfold seqStep2 at hs ⊢
  by_cases h1 : c = '['
  · simp only [h1, if_true] at hs ⊢
    rw [handlePosix_ext tail ht]
    cases hp : handlePosix it (if neg then [.caret, .opn] else [.opn]) 0 with
    | some v =>
      obtain ⟨it1, res1⟩ := v
      simp only [hp] at hs
      simp only [Option.map_some]
      obtain ⟨_, ⟨pre, hpre⟩, _⟩ := handlePosix_spec hp
      cases hn : it1.next with
      | none => simp [hn] at hs
      | some p =>
        obtain ⟨c2, it2⟩ := p
        have hm := next_mem hn
        simp only [hn, Option.some.injEq, Prod.mk.injEq] at hs
        obtain ⟨rfl, rfl, rfl, rfl⟩ := hs
        simp only [next_ex tail hn]
        refine ⟨trivial, ?_⟩
        intro x hx
        rcases List.mem_cons.mp hx with rfl | hx
        · exact List.mem_cons_of_mem _ (by rw [hpre]; exact List.mem_append_right _ hm.1)
        · exact List.mem_cons_of_mem _ (by rw [hpre]; exact List.mem_append_right _ (hm.2 _ hx))
    | none =>
      simp only [hp] at hs
      simp only [Option.map_none]
      cases hn : it.next with
      | none => simp [hn] at hs
      | some p =>
        obtain ⟨c2, it2⟩ := p
        have hm := next_mem hn
        simp only [hn, Option.some.injEq, Prod.mk.injEq] at hs
        obtain ⟨rfl, rfl, rfl, rfl⟩ := hs
        simp only [next_ex tail hn]
        refine ⟨trivial, ?_⟩
        intro x hx
        rcases List.mem_cons.mp hx with rfl | hx
        · exact List.mem_cons_of_mem _ hm.1
        · exact List.mem_cons_of_mem _ (hm.2 _ hx)
  · simp only [h1, if_false] at hs ⊢
    by_cases h2 : (c = '-' || c = ']') = true
    · simp only [h2, if_true] at hs ⊢
      cases hn : it.next with
      | none => simp [hn] at hs
      | some p =>
        obtain ⟨c2, it2⟩ := p
        have hm := next_mem hn
        simp only [hn, Option.some.injEq, Prod.mk.injEq] at hs
        obtain ⟨rfl, rfl, rfl, rfl⟩ := hs
        simp only [next_ex tail hn]
        refine ⟨trivial, ?_⟩
        intro x hx
        rcases List.mem_cons.mp hx with rfl | hx
        · exact List.mem_cons_of_mem _ hm.1
        · exact List.mem_cons_of_mem _ (hm.2 _ hx)
    · simp only [h2, Bool.false_eq_true, if_false, Option.some.injEq, Prod.mk.injEq] at hs ⊢
      obtain ⟨rfl, rfl, rfl, rfl⟩ := hs
      exact ⟨⟨rfl, rfl, rfl, rfl⟩, fun x hx => hx⟩

/-- the class `seqFinish` builds does not depend on the mode -/
theorem seqFinish_path (cfg : Cfg) (h : PathX cfg) (ps0 ps : PS) (ha0 : ps0.afterStart = false) (neg : Bool)
    (it itx : It) (st : SeqSt) (R : Re) (ps0' : PS) (itE : It)
    (hf : seqFinish (fnOf cfg) ps0 neg it st = some (R, ps0', itE)) :
    seqFinish cfg ps neg itx st = some (.cat (pGuard cfg.dot ps.afterStart) R, ps.resetDirTrack, itx) := by
  unfold seqFinish at hf ⊢
  simp only [fnOf, ha0, Bool.or_self, Bool.false_eq_true, if_false, Option.some.injEq, Prod.mk.injEq] at hf
  simp only [h.pathname, Bool.true_or, if_true, restrictSequence_p cfg h]
  rw [← hf.1]
  simp [catE, pGuard_ne_eps]

/-- **`_sequence` in path mode, from `_sequence` in fnmatch mode on the text of the segment**:
    `s` is the text after the opening `[` up to the end of the segment (no `/`), `tail` what
    follows the segment -/
theorem sequence_path (cfg : Cfg) (h : PathX cfg) (s s' tail : List Char) (hns : '/' ∉ s) (ht : TailOK tail)
    (ps0 ps0' : PS) (ha0 : ps0.afterStart = false) (R : Re) (i j : Nat)
    (hseq : sequence (fnOf cfg) ps0 ⟨i, s⟩ = some (R, ps0', ⟨j, s'⟩)) (ps : PS) :
    sequence cfg ps ⟨i, s ++ tail⟩ =
      some (.cat (pGuard cfg.dot ps.afterStart) R, ps.resetDirTrack, ⟨j, s' ++ tail⟩) := by
  rw [sequence_eq] at hseq ⊢
  cases s with
  | nil => simp [It.next] at hseq
  | cons c r =>
    have hc : c ≠ '/' := fun e => hns (by rw [e]; simp)
    have hr : '/' ∉ r := fun hx => hns (List.mem_cons_of_mem _ hx)
    simp only [It.next, List.cons_append] at hseq ⊢
    -- the negation character
    have key : ∀ (neg : Bool) (c1 : Char) (it1 : It), c1 ≠ '/' → '/' ∉ it1.rest →
        seqBody (fnOf cfg) ps0 neg c1 it1 = some (R, ps0', ⟨j, s'⟩) →
        seqBody cfg ps neg c1 (ex tail it1) =
          some (.cat (pGuard cfg.dot ps.afterStart) R, ps.resetDirTrack, ⟨j, s' ++ tail⟩) := by
      intro neg c1 it1 hc1 hn1 hb
      unfold seqBody at hb ⊢
      cases hs2 : seqStep2 neg c1 it1 with
      | none => simp [hs2] at hb
      | some v =>
        obtain ⟨c2, it2, res, lp⟩ := v
        simp only [hs2] at hb
        obtain ⟨e2, hmem⟩ := seqStep2_ext tail ht neg c1 it1 c2 it2 res lp hs2
        simp only [e2]
        have hc2 : c2 ≠ '/' := by
          intro e
          have := hmem c2 (by simp)
          rcases List.mem_cons.mp this with hx | hx
          · exact hc1 (hx ▸ e.symm ▸ rfl)
          · exact hn1 (e ▸ hx)
        have hn2 : '/' ∉ it2.rest := by
          intro hx
          have := hmem '/' (List.mem_cons_of_mem _ hx)
          rcases List.mem_cons.mp this with hx | hx
          · exact hc1 hx.symm
          · exact hn1 hx
        cases hl : seqLoop (fnOf cfg) (it2.rest.length + 2) c2 it2 ⟨res, 0, -1, false, lp⟩ with
        | none => simp [hl] at hb
        | some w =>
          obtain ⟨it3, st3⟩ := w
          simp only [hl] at hb
          rw [← seqLoopG_true] at hl
          have hl' := seqLoopG_ext cfg h tail ht _ c2 it2 _ it3 st3 hl hc2 hn2
            ((ex tail it2).rest.length + 2) (by simp [ex])
          rw [seqLoopG_true] at hl'
          simp only [hl']
          have hfin := seqFinish_path cfg h ps0 ps ha0 neg it3 (ex tail it3) st3 R ps0' ⟨j, s'⟩ hb
          rw [hfin]
          have hit : it3 = ⟨j, s'⟩ := by
            unfold seqFinish at hb
            simp only [fnOf, ha0, Bool.or_self, Bool.false_eq_true, if_false, Option.some.injEq,
              Prod.mk.injEq] at hb
            exact hb.2.2
          rw [hit]
          rfl
    by_cases hneg : (decide (c = '!') || decide (c = '^')) = true
    · simp only [hneg, if_true] at hseq ⊢
      cases r with
      | nil => simp at hseq
      | cons c1 r1 =>
        simp only [List.cons_append] at hseq ⊢
        exact key true c1 ⟨i+1+1, r1⟩ (fun e => hr (by rw [e]; simp))
          (fun hx => hr (List.mem_cons_of_mem _ hx)) hseq
    · simp only [hneg, Bool.false_eq_true, if_false] at hseq ⊢
      exact key false c ⟨i+1, r⟩ hc hr hseq

/-! ## from the side conditions of fnmatch mode to those of path mode -/

/-- the text of a segment that the strict path reader does not take for a globstar: no
    separator, no final backslash, not `**` under GLOBSTAR, not `***` under GLOBSTARLONG -/
structure PieceOK (g long : Bool) (u : List Char) : Prop where
  noBs : u.getLast? ≠ some '\\'
  ng2 : g = true → u ≠ ['*', '*']
  ng3 : long = true → u ≠ ['*', '*', '*']

theorem head_ext {restP tail : List Char} (ht : TailOK tail) {ch : Char} (hch : ch ≠ '/')
    (h : (restP ++ tail).head? = some ch) : restP.head? = some ch := by
  cases restP with
  | nil =>
    rcases ht with rfl | ⟨u, rfl⟩
    · simp at h
    · simp at h; exact absurd h.symm hch
  | cons x r => simpa using h

theorem bareSide_ext {c : Char} {restP tail : List Char} (ht : TailOK tail) (h : bareSide c restP) :
    bareSide c (restP ++ tail) :=
  fun hm hh => h hm (head_ext ht (by decide) hh)

theorem starSide_ext {restP tail : List Char} (ht : TailOK tail) (h : starSide restP) :
    starSide (restP ++ tail) := by
  refine ⟨fun hh => h.1 (head_ext ht (by decide) hh), ?_⟩
  rcases h.2 with h2 | ⟨r, rfl⟩
  · exact .inl (fun hh => h2 (head_ext ht (by decide) hh))
  · exact .inr ⟨r ++ tail, rfl⟩

theorem isEmpty_sprint : ∀ sp : SPat, sp.isEmpty = true → sprint sp = [] := by
  intro sp
  induction sp with
  | eps => intro _; rfl
  | seq a b iha ihb =>
    intro h
    simp only [SPat.isEmpty, Bool.and_eq_true] at h
    simp [sprint, iha h.1, ihb h.2]
  | _ => intro h; simp [SPat.isEmpty] at h

theorem stars_eq_two : stars 2 = ['*', '*'] := rfl
theorem stars_eq_three : stars 3 = ['*', '*', '*'] := rfl

/-- a run of stars at the start of a segment that the reader did not take for a globstar is
    not one for `_handle_star` either -/
theorem globFree_of_piece (g long : Bool) (n : Nat) (restP tail : List Char)
    (hg : g = true) (hns : '/' ∉ restP) (hp : PieceOK g long (stars (n+1) ++ restP)) :
    globFree long n (restP ++ tail) := by
  intro hn
  have hne : restP ≠ [] := by
    rintro rfl
    rcases hn with rfl | ⟨hl, rfl⟩
    · exact hp.ng2 hg (by simp [stars_eq_two])
    · exact hp.ng3 hl (by simp [stars_eq_three])
  cases restP with
  | nil => exact absurd rfl hne
  | cons x r =>
    have hx : x ≠ '/' := fun e => hns (by rw [e]; simp)
    refine ⟨by simp, by simpa using hx, ?_⟩
    intro t e
    simp only [List.cons_append, List.cons.injEq] at e
    obtain ⟨rfl, rfl⟩ := e
    cases r with
    | nil =>
      exfalso
      apply hp.noBs
      rw [List.getLast?_append]
      simp
    | cons d u =>
      exact ⟨d, u ++ tail, rfl, fun e => hns (by rw [e]; simp)⟩

theorem guard_false (cfg : Cfg) (r : Re) : PP.guard cfg false r = r := by simp [PP.guard]

/-- **the side conditions of fnmatch mode on the text of the segment give those of path mode on
    the whole text** -/
theorem psok_of_sok (cfg : Cfg) (h : PathX cfg) (g : Bool) (tail : List Char) (ht : TailOK tail) :
    ∀ (sp : SPat) (top as : Bool) (restP : List Char),
      sok (fnOf cfg) top sp restP → '/' ∉ sprint sp ++ restP →
      (top = true → as = true → g = true → PieceOK g cfg.globstarlong (sprint sp ++ restP)) →
      psok cfg g top as sp (restP ++ tail) := by
  intro sp
  induction sp with
  | eps => intro _ _ _ _ _ _; trivial
  | lit c e =>
    intro top as restP hok hns _
    cases e with
    | true =>
      show c ≠ '/'
      intro e; exact hns (by rw [e]; simp [sprint])
    | false =>
      obtain ⟨c1, c2, c3, c4, c5, c6⟩ := hok
      exact ⟨c1, c2, c3, c4, fun e => hns (by rw [e]; simp [sprint]), bareSide_ext ht c5, c6⟩
  | any =>
    intro top as restP hok _ _
    exact fun hh => hok (head_ext ht (by decide) hh)
  | star n =>
    intro top as restP hok hns hp
    refine ⟨starSide_ext ht hok, ?_⟩
    intro h1 h2 h3
    exact globFree_of_piece g cfg.globstarlong n restP tail h3
      (fun hx => hns (List.mem_append_right _ hx)) (hp h1 h2 h3)
  | cls w neg items cis =>
    intro top as restP hok hns _
    intro ps i
    have h0 := hok {} i
    rw [guard_false] at h0
    have hns' : '/' ∉ w ++ restP := by
      intro hx
      apply hns
      simp only [sprint, List.cons_append]
      exact List.mem_cons_of_mem _ hx
    have := sequence_path cfg h (w ++ restP) restP tail hns' ht {} _ rfl _ i _ h0 ps
    rw [List.append_assoc] at this
    exact this
  | seq a b iha ihb =>
    intro top as restP hok hns hp
    simp only [sprint, List.append_assoc] at hns hp
    refine ⟨?_, ?_⟩
    · have := iha top as (sprint b ++ restP) hok.1 hns hp
      rw [List.append_assoc] at this
      exact this
    · refine ihb top (as && a.isEmpty) restP hok.2 (fun hx => hns (List.mem_append_right _ hx)) ?_
      intro h1 h2 h3
      simp only [Bool.and_eq_true] at h2
      have := hp h1 h2.1 h3
      rw [isEmpty_sprint a h2.2] at this
      exact this
  | alt a b iha ihb =>
    intro top as restP hok hns _
    simp only [sprint, List.append_assoc, List.cons_append] at hns
    refine ⟨?_, ?_⟩
    · have := iha false as ('|' :: (sprint b ++ restP)) hok.1 hns (fun hx => by cases hx)
      simp only [List.cons_append, List.append_assoc] at this
      exact this
    · exact ihb false as restP hok.2
        (fun hx => hns (List.mem_append_right _ (List.mem_cons_of_mem _ hx))) (fun hx => by cases hx)
  | ext k body ih =>
    intro top as restP hok hns _
    have hns' : '/' ∉ sprint body ++ (')' :: restP) := by
      intro hx
      apply hns
      simp only [sprint, List.cons_append, List.append_assoc]
      exact List.mem_cons_of_mem _ (List.mem_cons_of_mem _ hx)
    have := ih false as (')' :: restP) hok hns' (fun hx => by cases hx)
    exact this

theorem pgood_of_sgood (cfg : Cfg) : ∀ (sp : SPat) (b : Bool), sgood (fnOf cfg) b sp → '/' ∉ sprint sp →
    pgood cfg sp := by
  intro sp
  induction sp with
  | lit c e =>
    intro b _ hns
    show c ≠ '/'
    intro e'; apply hns; rw [e']; cases e <;> simp [sprint]
  | cls w neg items cis => intro b hg _; exact hg
  | seq p q ihp ihq =>
    intro b hg hns
    simp only [sprint] at hns
    exact ⟨ihp _ hg.1 (fun hx => hns (List.mem_append_left _ hx)),
      ihq _ hg.2 (fun hx => hns (List.mem_append_right _ hx))⟩
  | alt p q ihp ihq =>
    intro b hg hns
    simp only [sprint] at hns
    exact ⟨ihp _ hg.2.1 (fun hx => hns (List.mem_append_left _ hx)),
      ihq _ hg.2.2 (fun hx => hns (List.mem_append_right _ (List.mem_cons_of_mem _ hx)))⟩
  | ext k body ih =>
    intro b hg hns
    refine ih _ hg (fun hx => hns ?_)
    simp only [sprint]
    exact List.mem_cons_of_mem _ (List.mem_cons_of_mem _ (List.mem_append_left _ hx))
  | _ => intro b _ _; trivial

end PRP
end WcModel

import WcModel.Proofs.GlobExists
import WcModel.Proofs.CompPathGlob
/-
  C04 bridge, part 1: display paths built from clean components, on the abstract tree.

  * `pjoins a ns` = `os.path.join` folded over a list of names; for *sane* names (non-empty,
    separator-free) it is `a` followed by `/n` for every name (`pjoins_ne`, `pjoins_nil`), and the
    names can be read back (`pjoins_inj`);
  * the string-level resolver on such a path: `resolve` / `lexists` / `islink` / `isdir` walk the
    components one `FS.step` at a time (`resolve_pjoins`, `lexists_pjoins_snoc`, …);
  * the entries of a directory we stand in are exactly the clean names `lstep` accepts
    (`entry_char`, `entry_of_lstep`).
-/
namespace WcModel.Bridge

/-- a name that can be a path component: non-empty, no separator -/
def Sane (n : Name) : Prop := n ≠ [] ∧ ∀ c ∈ n, c ≠ '/'

/-- … and neither `.` nor `..`: what a directory entry is called in a well-formed tree -/
def Clean (n : Name) : Prop := n ≠ [] ∧ n ≠ dot ∧ n ≠ dotdot ∧ ∀ c ∈ n, c ≠ '/'

theorem Clean.sane {n : Name} (h : Clean n) : Sane n := ⟨h.1, h.2.2.2⟩

theorem sane_dot : Sane dot := ⟨by decide, by decide⟩
theorem sane_dotdot : Sane dotdot := ⟨by decide, by decide⟩

/-- a display path that does not end with a separator (the empty one included) -/
def NoTrail (a : List Char) : Prop := a.getLast? ≠ some '/'

theorem noTrail_nil : NoTrail [] := by simp [NoTrail]

theorem Sane.head {n : Name} (h : Sane n) : n.head? ≠ some '/' := by
  cases n with
  | nil => exact absurd rfl h.1
  | cons c r => simpa using h.2 c List.mem_cons_self

theorem Sane.noTrail {n : Name} (h : Sane n) : NoTrail n := by
  unfold NoTrail
  cases hl : n.getLast? with
  | none => simp
  | some c =>
    have := h.2 c (List.mem_of_getLast? hl)
    simp [this]

theorem pjoin_sane (a : List Char) {n : Name} (hn : Sane n) (ha : NoTrail a) :
    pjoin a n = if a = [] then n else a ++ '/' :: n := by
  unfold pjoin
  cases n with
  | nil => exact absurd rfl hn.1
  | cons c r =>
    have hc : c ≠ '/' := hn.2 c List.mem_cons_self
    split
    · rename_i heq; cases heq; exact absurd rfl hc
    · by_cases h0 : a = []
      · simp [h0]
      · have : ¬ (a = [] ∨ a.getLast? = some '/') := by
          rintro (h | h)
          · exact h0 h
          · exact ha h
        rw [if_neg this, if_neg h0]

theorem pjoin_nil_sane {n : Name} (hn : Sane n) : pjoin [] n = n := by
  rw [pjoin_sane [] hn noTrail_nil]; simp

theorem getLast?_append_of_ne_nil (a b : List Char) (hb : b ≠ []) : (a ++ b).getLast? = b.getLast? := by
  rw [List.getLast?_append]
  cases hl : b.getLast? with
  | none => exact absurd (List.getLast?_eq_none_iff.1 hl) hb
  | some c => rfl

theorem pjoin_noTrail (a : List Char) {n : Name} (hn : Sane n) (ha : NoTrail a) : NoTrail (pjoin a n) := by
  rw [pjoin_sane a hn ha]
  split
  · exact hn.noTrail
  · unfold NoTrail
    rw [getLast?_append_of_ne_nil _ _ (by simp)]
    have : ('/' :: n).getLast? = n.getLast? := by
      cases n with
      | nil => exact absurd rfl hn.1
      | cons c r => simp [List.getLast?_cons_cons]
    rw [this]
    exact hn.noTrail

theorem pjoin_ne_nil (a : List Char) {n : Name} (hn : Sane n) (ha : NoTrail a) : pjoin a n ≠ [] := by
  rw [pjoin_sane a hn ha]
  split
  · exact hn.1
  · simp

/-- `os.path.join` folded over a list of names -/
def pjoins (a : List Char) (ns : List Name) : List Char := ns.foldl pjoin a

@[simp] theorem pjoins_nil (a : List Char) : pjoins a [] = a := rfl
@[simp] theorem pjoins_cons (a : List Char) (n : Name) (ns : List Name) :
    pjoins a (n :: ns) = pjoins (pjoin a n) ns := rfl

theorem pjoins_append (a : List Char) (xs ys : List Name) : pjoins a (xs ++ ys) = pjoins (pjoins a xs) ys := by
  unfold pjoins; rw [List.foldl_append]

theorem pjoins_snoc (a : List Char) (xs : List Name) (n : Name) : pjoins a (xs ++ [n]) = pjoin (pjoins a xs) n := by
  rw [pjoins_append]; rfl

theorem pjoins_noTrail (a : List Char) (ha : NoTrail a) : ∀ (ns : List Name), (∀ n ∈ ns, Sane n) →
    NoTrail (pjoins a ns) := by
  intro ns
  induction ns generalizing a with
  | nil => intro _; exact ha
  | cons n r ih =>
    intro h
    exact ih _ (pjoin_noTrail a (h n List.mem_cons_self) ha) (fun m hm => h m (List.mem_cons_of_mem _ hm))

/-- `/n` for every name -/
def sl : List Name → List Char
  | [] => []
  | n :: r => '/' :: n ++ sl r

theorem pjoins_ne (a : List Char) (h0 : a ≠ []) (ha : NoTrail a) : ∀ (ns : List Name), (∀ n ∈ ns, Sane n) →
    pjoins a ns = a ++ sl ns := by
  intro ns
  induction ns generalizing a with
  | nil => intro _; simp [sl]
  | cons n r ih =>
    intro h
    have hn := h n List.mem_cons_self
    rw [pjoins_cons, ih _ (pjoin_ne_nil a hn ha) (pjoin_noTrail a hn ha) (fun m hm => h m (List.mem_cons_of_mem _ hm)),
      pjoin_sane a hn ha]
    simp [h0, sl]

theorem pjoins_nil_cons (n : Name) (ns : List Name) (h : ∀ m ∈ n :: ns, Sane m) :
    pjoins [] (n :: ns) = n ++ sl ns := by
  have hn := h n List.mem_cons_self
  rw [pjoins_cons, pjoin_nil_sane hn, pjoins_ne n hn.1 hn.noTrail ns (fun m hm => h m (List.mem_cons_of_mem _ hm))]

theorem pjoins_ne_nil (a : List Char) (ha : NoTrail a) (n : Name) (ns : List Name) (h : ∀ m ∈ n :: ns, Sane m) :
    pjoins a (n :: ns) ≠ [] := by
  have hn := h n List.mem_cons_self
  rw [pjoins_cons, pjoins_ne _ (pjoin_ne_nil a hn ha) (pjoin_noTrail a hn ha) ns
    (fun m hm => h m (List.mem_cons_of_mem _ hm))]
  simp [pjoin_ne_nil a hn ha]

/-- two separator-free words followed by nothing or by a separator: the words are equal -/
theorem append_sep_inj : ∀ (x y u w : List Char), (∀ c ∈ x, c ≠ '/') → (∀ c ∈ y, c ≠ '/') →
    (u = [] ∨ u.head? = some '/') → (w = [] ∨ w.head? = some '/') → x ++ u = y ++ w → x = y ∧ u = w := by
  intro x
  induction x with
  | nil =>
    intro y u w _ hy hu hw h
    cases y with
    | nil => exact ⟨rfl, by simpa using h⟩
    | cons c r =>
      exfalso
      simp only [List.nil_append, List.cons_append] at h
      have hc := hy c List.mem_cons_self
      rcases hu with hu | hu
      · subst hu; cases h
      · subst h; simp at hu; exact hc hu
  | cons a x ih =>
    intro y u w hx hy hu hw h
    cases y with
    | nil =>
      exfalso
      simp only [List.nil_append, List.cons_append] at h
      have hc := hx a List.mem_cons_self
      rcases hw with hw | hw
      · subst hw; cases h
      · subst h; simp at hw; exact hc hw
    | cons b y =>
      simp only [List.cons_append, List.cons.injEq] at h
      obtain ⟨rfl, h⟩ := h
      obtain ⟨e1, e2⟩ := ih y u w (fun c hc => hx c (List.mem_cons_of_mem _ hc))
        (fun c hc => hy c (List.mem_cons_of_mem _ hc)) hu hw h
      exact ⟨by rw [e1], e2⟩

theorem sl_head (ns : List Name) : sl ns = [] ∨ (sl ns).head? = some '/' := by
  cases ns with
  | nil => exact Or.inl rfl
  | cons n r => exact Or.inr (by simp [sl])

theorem sl_inj : ∀ (ns ms : List Name), (∀ n ∈ ns, Sane n) → (∀ n ∈ ms, Sane n) → sl ns = sl ms → ns = ms := by
  intro ns
  induction ns with
  | nil =>
    intro ms _ _ h
    cases ms with
    | nil => rfl
    | cons m r => simp [sl] at h
  | cons n r ih =>
    intro ms hn hm h
    cases ms with
    | nil => simp [sl] at h
    | cons m r' =>
      simp only [sl, List.cons_append, List.cons.injEq, true_and] at h
      obtain ⟨e1, e2⟩ := append_sep_inj n m (sl r) (sl r') (hn n List.mem_cons_self).2 (hm m List.mem_cons_self).2
        (sl_head r) (sl_head r') h
      rw [e1, ih r' (fun x hx => hn x (List.mem_cons_of_mem _ hx)) (fun x hx => hm x (List.mem_cons_of_mem _ hx)) e2]

/-- **the components can be read back** -/
theorem pjoins_inj (a : List Char) (ha : NoTrail a) (ns ms : List Name) (hn : ∀ n ∈ ns, Sane n)
    (hm : ∀ n ∈ ms, Sane n) (h : pjoins a ns = pjoins a ms) : ns = ms := by
  by_cases h0 : a = []
  · subst h0
    cases ns with
    | nil =>
      cases ms with
      | nil => rfl
      | cons m r => exact absurd h.symm (pjoins_ne_nil [] noTrail_nil m r hm)
    | cons n r =>
      cases ms with
      | nil => exact absurd h (pjoins_ne_nil [] noTrail_nil n r hn)
      | cons m r' =>
        rw [pjoins_nil_cons n r hn, pjoins_nil_cons m r' hm] at h
        obtain ⟨e1, e2⟩ := append_sep_inj n m (sl r) (sl r') (hn n List.mem_cons_self).2 (hm m List.mem_cons_self).2
          (sl_head r) (sl_head r') h
        rw [e1, sl_inj r r' (fun x hx => hn x (List.mem_cons_of_mem _ hx))
          (fun x hx => hm x (List.mem_cons_of_mem _ hx)) e2]
  · rw [pjoins_ne a h0 ha ns hn, pjoins_ne a h0 ha ms hm] at h
    exact sl_inj ns ms hn hm (List.append_cancel_left h)

/-! ### pieces of such a path -/

theorem sane_noSlash {n : Name} (h : Sane n) : '/' ∉ n := fun hm => h.2 '/' hm rfl

theorem sl_atSep (ns : List Name) : AtSep (sl ns) := by
  cases ns with
  | nil => exact Or.inl rfl
  | cons n r => exact Or.inr ⟨n ++ sl r, rfl⟩

theorem pieces_sl : ∀ (ns : List Name), (∀ n ∈ ns, Sane n) → pieces (sl ns) = ns := by
  intro ns
  induction ns with
  | nil => intro _; rfl
  | cons n r ih =>
    intro h
    have hn := h n List.mem_cons_self
    have : sl (n :: r) = '/' :: (n ++ sl r) := rfl
    rw [this, pieces_slash, pieces_append n (sl r) (sane_noSlash hn) hn.1 (sl_atSep r),
      ih (fun x hx => h x (List.mem_cons_of_mem _ hx))]

theorem pieces_sl_slash (ns : List Name) (h : ∀ n ∈ ns, Sane n) : pieces (sl ns ++ ['/']) = ns := by
  have : sl ns ++ ['/'] = sl ns ++ '/' :: [] := rfl
  rw [this, pieces_append_slash, pieces_sl ns h, pieces_nil, List.append_nil]

/-- the non-empty pieces of a relative path built from sane names are the names -/
theorem pieces_pjoins (ns : List Name) (h : ∀ n ∈ ns, Sane n) : pieces (pjoins [] ns) = ns := by
  cases ns with
  | nil => rfl
  | cons n r =>
    have hn := h n List.mem_cons_self
    rw [pjoins_nil_cons n r h, pieces_append n (sl r) (sane_noSlash hn) hn.1 (sl_atSep r),
      pieces_sl _ (fun x hx => h x (List.mem_cons_of_mem _ hx))]

theorem pieces_pjoins_slash (ns : List Name) (h : ∀ n ∈ ns, Sane n) : pieces (pjoins [] ns ++ ['/']) = ns := by
  have : pjoins [] ns ++ ['/'] = pjoins [] ns ++ '/' :: [] := rfl
  rw [this, pieces_append_slash, pieces_pjoins ns h, pieces_nil, List.append_nil]

theorem pjoins_head (n : Name) (ns : List Name) (h : ∀ m ∈ n :: ns, Sane m) :
    (pjoins [] (n :: ns)).head? ≠ some '/' := by
  rw [pjoins_nil_cons n ns h]
  have hn := h n List.mem_cons_self
  cases n with
  | nil => exact absurd rfl hn.1
  | cons c r => simpa using hn.2 c List.mem_cons_self

/-! ### the resolver on such a path -/

theorem resolve_pjoins (fs : FS) (a : List Char) : ∀ (ns : List Name), (∀ n ∈ ns, Sane n) →
    fs.resolve (pjoins a ns) = fs.steps (fs.resolve a) ns := by
  intro ns
  induction ns generalizing a with
  | nil => intro _; rfl
  | cons n r ih =>
    intro h
    have hn := h n List.mem_cons_self
    rw [pjoins_cons, ih _ (fun m hm => h m (List.mem_cons_of_mem _ hm)), (resolve_pjoin fs a n hn.2 hn.1).1]
    rfl

theorem lexists_pjoins_snoc (fs : FS) (a : List Char) (ns : List Name) (n : Name) (h : ∀ m ∈ ns, Sane m)
    (hn : Sane n) : fs.lexists (pjoins a (ns ++ [n])) = fs.lstep (fs.steps (fs.resolve a) ns) n := by
  rw [pjoins_snoc, (resolve_pjoin fs _ n hn.2 hn.1).2.1, resolve_pjoins fs a ns h]

theorem islink_pjoins_snoc (fs : FS) (a : List Char) (ns : List Name) (n : Name) (h : ∀ m ∈ ns, Sane m)
    (hn : Sane n) : fs.islink (pjoins a (ns ++ [n])) = fs.linkstep (fs.steps (fs.resolve a) ns) n := by
  rw [pjoins_snoc, (resolve_pjoin fs _ n hn.2 hn.1).2.2, resolve_pjoins fs a ns h]

theorem isdir_pjoins (fs : FS) (a : List Char) (ns : List Name) (h : ∀ m ∈ ns, Sane m) :
    fs.isdir (pjoins a ns) = fs.locIsDir (fs.steps (fs.resolve a) ns) := by
  unfold FS.isdir; rw [resolve_pjoins fs a ns h]

theorem steps_none (fs : FS) : ∀ ns : List Name, fs.steps none ns = none := by
  intro ns
  induction ns with
  | nil => rfl
  | cons n r ih => simp [FS.steps, step_none, ih]

theorem locIsDir_none (fs : FS) : fs.locIsDir none = false := rfl

/-- something resolves below `l` only if `l` is a directory -/
theorem locIsDir_of_step {fs : FS} {l : Loc} {n : Name} (h : (fs.step l n).isSome = true) : fs.locIsDir l = true := by
  cases l with
  | none => simp [step_none] at h
  | some rp =>
    unfold FS.locIsDir
    cases he : fs.entries (some rp) with
    | none => rw [step_of_not_dir fs rp n he] at h; cases h
    | some es => rfl

theorem locIsDir_of_lstep {fs : FS} {l : Loc} {n : Name} (h : fs.lstep l n = true) : fs.locIsDir l = true := by
  unfold FS.locIsDir
  cases he : fs.entries l with
  | none => rw [lstep_of_not_dir fs l n he] at h; cases h
  | some es => rfl

theorem locIsDir_isSome {fs : FS} {l : Loc} (h : fs.locIsDir l = true) : l.isSome = true := by
  cases l with
  | none => cases h
  | some rp => rfl

theorem locIsDir_of_steps {fs : FS} : ∀ (ns : List Name) (l : Loc), ns ≠ [] → (fs.steps l ns).isSome = true →
    fs.locIsDir l = true := by
  intro ns
  induction ns with
  | nil => intro l h; exact absurd rfl h
  | cons n r ih =>
    intro l _ h
    simp only [FS.steps] at h
    cases r with
    | nil => exact locIsDir_of_step h
    | cons m r' =>
      have := ih (fs.step l n) (by simp) h
      exact locIsDir_of_step (locIsDir_isSome this)

/-! ### the entries of a directory -/

theorem locIsDir_entries {fs : FS} {l : Loc} (h : fs.locIsDir l = true) : ∃ rp es, l = some rp ∧
    fs.top.get rp = some (.dir es) ∧ fs.entries l = some es := by
  unfold FS.locIsDir at h
  cases he : fs.entries l with
  | none => rw [he] at h; cases h
  | some es =>
    obtain ⟨rp, hl, hg⟩ := FS.entries_some he
    exact ⟨rp, es, hl, hg, rfl⟩

/-- an entry of a directory: a clean name, where `step` leads, what `lstep` / `linkstep` say -/
theorem entry_char {fs : FS} (hwf : fs.WFTree) {d : Dir} {o : Offer} (ho : o ∈ entriesOf fs d) :
    Clean o.name ∧ o.loc = fs.step d.loc o.name ∧ o.isDir = fs.locIsDir o.loc ∧ fs.lstep d.loc o.name = true ∧
      o.isLink = (o.isDir && fs.linkstep d.loc o.name) := by
  unfold entriesOf at ho
  cases hsc : fs.scandir d.loc with
  | none => simp [hsc] at ho
  | some ds =>
    simp only [hsc, List.mem_map] at ho
    obtain ⟨x, hx, rfl⟩ := ho
    obtain ⟨rp, es, hl, hg, hds⟩ := FS.scandir_some hsc
    subst hds
    obtain ⟨⟨n, nd⟩, hmem, rfl⟩ := List.mem_map.1 hx
    obtain ⟨hn1, hn2, hn3, hn4⟩ := hwf.names rp es hg (n, nd) hmem
    have hfind := findEntry_of_nodup hmem (hwf.nodup rp es hg)
    have hent : fs.entries (some rp) = some es := by simp [FS.entries, hg]
    simp only at hn1 hn2 hn3 hn4
    refine ⟨⟨hn1, hn2, hn3, hn4⟩, ?_, ?_, ?_, ?_⟩
    · simp [hl, FS.step, hent, hn1, hn2, hn3, hfind]
    · simp [FS.nodeIsDir]
    · simp [hl, FS.lstep, hent, hfind]
    · simp only [hl, FS.linkstep, hent, hn1, hn2, hn3, or_self, if_false, hfind]
      cases nd <;> simp [Node.isLinkNode]

/-- a clean name `lstep` accepts is an entry -/
theorem entry_of_lstep {fs : FS} {d : Dir} {n : Name} (hc : Clean n) (h : fs.lstep d.loc n = true) :
    ∃ o ∈ entriesOf fs d, o.name = n := by
  obtain ⟨rp, es, hl, hg, hent⟩ := locIsDir_entries (locIsDir_of_lstep h)
  unfold FS.lstep at h
  rw [hent] at h
  have h1 : ¬ (n = [] ∨ n = dot ∨ n = dotdot) := by
    rintro (h | h | h)
    · exact hc.1 h
    · exact hc.2.1 h
    · exact hc.2.2.1 h
  simp only [h1, if_false] at h
  cases hf : findEntry n es with
  | none => rw [hf] at h; cases h
  | some nd =>
    have hmem := findEntry_mem hf
    refine ⟨⟨n, fs.nodeIsDir rp n nd, childLoc rp n nd, fs.nodeIsDir rp n nd && nd.isLinkNode⟩, ?_, rfl⟩
    unfold entriesOf
    have : fs.scandir d.loc = some (es.map (fun e =>
        let dd := fs.nodeIsDir rp e.1 e.2
        { name := e.1, isDir := dd, isLink := dd && e.2.isLinkNode, loc := childLoc rp e.1 e.2 })) := by
      rw [hl]; simp only [FS.scandir]; rw [← hl, hent]
    rw [this]
    simp only [List.map_map, List.mem_map, Function.comp]
    exact ⟨(n, nd), hmem, by simp⟩

/-- the zero-level result of a final `**` and the trailing separator of `dir_only` results:
    one trailing separator removed -/
def untrail (p : List Char) : List Char := if p.getLast? = some '/' then p.dropLast else p

theorem untrail_noTrail {p : List Char} (h : NoTrail p) : untrail p = p := by
  unfold untrail; simp [show ¬ p.getLast? = some '/' from h]

theorem untrail_snoc (p : List Char) : untrail (p ++ ['/']) = p := by
  unfold untrail; simp

theorem pjoin_empty (a : List Char) (h0 : a ≠ []) (ha : NoTrail a) : pjoin a [] = a ++ ['/'] := by
  unfold pjoin
  have : ¬ (a = [] ∨ a.getLast? = some '/') := by
    rintro (h | h)
    · exact h0 h
    · exact ha h
  simp [this]

end WcModel.Bridge

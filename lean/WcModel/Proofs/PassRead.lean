import WcModel.Proofs.PassReadTok
import WcModel.Proofs.PassReadCls
/-
  "pass_read": the faithful port of the parser (`parseItems`), run on ANY SPELLING of a grammar
  pattern, yields the regex of the tidy compiler `comp` — up to `PP.Eqv`.

  `PP.pass_print` (Proofs/PassPrint.lean) proves this for ONE spelling per pattern (`PP.print g`).
  Here the text is described by a *spelled pattern* `SPat`: a `Pat` whose leaves remember how they
  were written —
      `lit c esc`      `c` or `\c`
      `star n`         a run of `n+1` stars
      `cls w …`        a bracket with body text `w` (any text `Grammar.bracket` accepts:
                       `bracket_read`, Proofs/PassReadCls.lean)
  `sprint` is the text, `erase` the grammar pattern, `sits` the items the pass pushes, `sok` the
  look-ahead side conditions (given what follows), `sclsOK` the link between a bracket's regex
  members and its grammar members.

  MAIN THEOREM of this file
    `pass_spelled`   `rppTop (erase sp)`, `sok cfg true sp []`, `sclsOK cfg sp`, `sprint sp ≠ ['\\']` ⊢
        ∃ parsed r, parseItems cfg drive (sprint sp) = .ok parsed ∧ parsed.toRe = some r ∧
                    Eqv r (wrap (!cfg.caseSensitive) (comp cfg.isBytes cfg.dot true (erase sp)))
  `Proofs/PassReadSpell.lean` shows that every string the strict reader accepts has such a
  spelled pattern; `Properties/C01read.lean` puts the two together.

  The structure follows PassPrint.lean part by part (B: syntax, C: items → regex, D: the pass in
  continuation style, Stage 4: one `!(…)` on the top-level spine); iteration counts are only
  bounded (`F - |w| ≤ F'`), because `\.` takes two iterations and a run of stars one or many.
-/
namespace WcModel
namespace PR
open PP

/-! ## Part B: spelled patterns -/

inductive SPat
  | eps
  | lit (c : Char) (esc : Bool)
  | any
  | star (n : Nat)
  | cls (w : List Char) (neg : Bool) (items : List SCls) (cis : List ClsItem)
  | seq (a b : SPat)
  | alt (a b : SPat)
  | ext (k : ExtKind) (body : SPat)
  deriving Repr, Inhabited

def sprint : SPat → List Char
  | .eps => []
  | .lit c esc => if esc then ['\\', c] else [c]
  | .any => ['?']
  | .star n => stars (n+1)
  | .cls w _ _ _ => '[' :: w
  | .seq a b => sprint a ++ sprint b
  | .alt a b => sprint a ++ '|' :: sprint b
  | .ext k body => extChar k :: '(' :: (sprint body ++ [')'])

def erase : SPat → Pat
  | .eps => .eps
  | .lit c _ => .lit c
  | .any => .any
  | .star _ => .star
  | .cls _ neg items _ => .cls neg items
  | .seq a b => .seq (erase a) (erase b)
  | .alt a b => .alt (erase a) (erase b)
  | .ext k body => .ext k (erase body)

def SPat.isEmpty : SPat → Bool
  | .eps => true
  | .seq a b => a.isEmpty && b.isEmpty
  | _ => false

theorem erase_isEmpty : ∀ sp : SPat, (erase sp).isEmpty = sp.isEmpty := by
  intro sp
  induction sp with
  | seq a b iha ihb => simp [erase, Pat.isEmpty, SPat.isEmpty, iha, ihb]
  | _ => rfl

/-- the items the pass pushes, in forward order; `as` = "at the start of the name" -/
def sits (cfg : Cfg) : Bool → SPat → List Item
  | _, .eps => []
  | _, .lit c _ => [litItem c]
  | as, .any => [.re (PP.guard cfg as Frag.qmark)]
  | as, .star n => starItems cfg as n
  | as, .cls _ neg _ cis => [.re (PP.guard cfg as (.cls neg cis))]
  | as, .seq a b => sits cfg as a ++ sits cfg (as && a.isEmpty) b
  | as, .alt a b => sits cfg as a ++ .bar :: sits cfg as b
  | as, .ext k body => [.group (gkind k) (HF.capOf cfg) (sits cfg as body)]

/-- the look-ahead side conditions, given what follows; `top` = "not inside a group" -/
def sok (cfg : Cfg) : Bool → SPat → List Char → Prop
  | _, .eps, _ => True
  | top, .lit c false, rest =>
    c ≠ '*' ∧ c ≠ '?' ∧ c ≠ '[' ∧ c ≠ '\\' ∧ bareSide c rest ∧ (top = false → c ≠ '|' ∧ c ≠ ')')
  | _, .lit _ true, _ => True
  | _, .any, rest => rest.head? ≠ some '('
  | _, .star _, rest => starSide rest
  | _, .cls w neg _ cis, rest =>
    ∀ (ps : PS) (i : Nat), sequence cfg ps ⟨i, w ++ rest⟩ =
      some (PP.guard cfg ps.afterStart (.cls neg cis), (if ps.afterStart then ps.resetDirTrack else ps),
        ⟨i + w.length, rest⟩)
  | top, .seq a b, rest => sok cfg top a (sprint b ++ rest) ∧ sok cfg top b rest
  | _, .alt a b, rest => sok cfg false a ('|' :: (sprint b ++ rest)) ∧ sok cfg false b rest
  | _, .ext _ body, rest => sok cfg false body (')' :: rest)

/-- a bracket's regex members are its grammar members, up to the escape flags of the regex text -/
def sclsOK (cfg : Cfg) : SPat → Prop
  | .cls _ _ items cis => cis.map unflag = items.map (SCls.toClsItem cfg.isBytes)
  | .seq a b => sclsOK cfg a ∧ sclsOK cfg b
  | .alt a b => sclsOK cfg a ∧ sclsOK cfg b
  | .ext _ body => sclsOK cfg body
  | _ => True

/-- the shape of `PP.pp` without its restriction on bracket members -/
def rpp : Bool → Pat → Bool
  | b, .alt p q => b && rpp false p && rpp true q
  | _, .seq p q => rpp false p && rpp false q
  | _, .ext k body => k != .neg && rpp true body
  | _, _ => true

/-- the shape of `PP.ppTop` without its restriction on bracket members (= C01's scope for
    `!(…)`, on right-nested sequences) -/
def rppTop : Pat → Bool
  | .seq (.ext .neg body) rest => rpp true body && rest.litOnly
  | .ext .neg body => rpp true body
  | .seq a b => rpp false a && rppTop b
  | g => rpp false g

theorem rpp_negFree : ∀ (g : Pat) (b : Bool), rpp b g = true → g.negFree = true := by
  intro g
  induction g with
  | seq p q ihp ihq =>
    intro b h; simp only [rpp, Bool.and_eq_true] at h
    simp only [Pat.negFree, Bool.and_eq_true]; exact ⟨ihp _ h.1, ihq _ h.2⟩
  | alt p q ihp ihq =>
    intro b h; simp only [rpp, Bool.and_eq_true] at h
    simp only [Pat.negFree, Bool.and_eq_true]; exact ⟨ihp _ h.1.2, ihq _ h.2⟩
  | ext k body ih =>
    intro b h; simp only [rpp, Bool.and_eq_true, bne_iff_ne, ne_eq] at h
    cases k <;> first | exact ih _ h.2 | exact absurd rfl h.1
  | _ => intro b h; rfl

theorem rpp_mono : ∀ (g : Pat), rpp false g = true → rpp true g = true := by
  intro g h
  cases g <;> first | exact h | (simp [rpp] at h)

theorem pp_rpp : ∀ (g : Pat) (b : Bool), pp b g = true → rpp b g = true := by
  intro g
  induction g with
  | seq p q ihp ihq =>
    intro b h; simp only [pp, Bool.and_eq_true] at h
    simp [rpp, ihp _ h.1, ihq _ h.2]
  | alt p q ihp ihq =>
    intro b h; simp only [pp, Bool.and_eq_true] at h
    simp [rpp, h.1.1, ihp _ h.1.2, ihq _ h.2]
  | ext k body ih =>
    intro b h; simp only [pp, Bool.and_eq_true] at h
    simp [rpp, h.1, ih _ h.2]
  | _ => intro b _; rfl

/-- `afterStart` once the pattern has been read (`as` before) -/
def sendAs (as : Bool) : SPat → Bool
  | .alt _ b => sendAs as b
  | g => as && g.isEmpty

/-! ## Part C: from the expected items to the regex of the tidy compiler -/

open HF (NoBar isBar)

theorem noBar_replicate (n : Nat) (r : Re) : NoBar (List.replicate n (.re r)) := by
  intro x hx
  rw [List.mem_replicate] at hx
  rw [hx.2]; rfl

theorem starItems_noBar (cfg : Cfg) (as : Bool) (n : Nat) : NoBar (starItems cfg as n) := by
  unfold starItems
  split
  · exact NoBar.cons rfl NoBar.nil
  · exact noBar_replicate _ _

theorem sits_noBar (cfg : Cfg) : ∀ (sp : SPat) (as : Bool), rpp false (erase sp) = true → NoBar (sits cfg as sp) := by
  intro sp
  induction sp with
  | seq p q ihp ihq =>
    intro as h; simp only [erase, rpp, Bool.and_eq_true] at h
    exact (ihp _ h.1).append (ihq _ h.2)
  | alt p q => intro as h; simp [erase, rpp] at h
  | eps => intro as _; exact NoBar.nil
  | star n => intro as _; exact starItems_noBar cfg as n
  | _ => intro as _; exact NoBar.cons rfl NoBar.nil

theorem iter_trans {R : St → St → Prop} {a b c : St} (h₁ : Iter R a b) (h₂ : Iter R b c) : Iter R a c := by
  induction h₁ with
  | refl => exact h₂
  | step h _ ih => exact Iter.step h (ih h₂)

/-- `.*?.*?` is `.*?` -/
theorem star_star_eqv (y : Re) : Eqv (.cat Frag.star (.cat Frag.star y)) (.cat Frag.star y) := by
  intro md a b
  simp only [Frag.star, Re.M]
  constructor
  · rintro ⟨c, h1, d, h2, h3⟩
    exact ⟨d, iter_trans h1 h2, h3⟩
  · rintro ⟨d, h1, h3⟩
    exact ⟨a, Iter.refl a, d, h1, h3⟩

/-- a run of `.*?` items in front of other items -/
theorem T_stars : ∀ (n f : Nat) (rest : List Item) (x : Re),
    Item.seqToRe f (List.replicate (n+1) (.re Frag.star) ++ rest) = some x →
    ∃ f' x', Item.seqToRe f' rest = some x' ∧ Eqv x (.cat Frag.star x') := by
  intro n
  induction n with
  | zero =>
    intro f rest x h
    obtain ⟨f', x', _, h2, h3⟩ := seqToRe_re h
    exact ⟨f', x', h2, by rw [h3]; exact Eqv.catE' _ _⟩
  | succ n ih =>
    intro f rest x h
    rw [List.replicate_succ, List.cons_append] at h
    obtain ⟨f1, x1, _, h2, h3⟩ := seqToRe_re h
    obtain ⟨f', x', h4, h5⟩ := ih f1 rest x1 h2
    refine ⟨f', x', h4, ?_⟩
    rw [h3]
    exact (Eqv.catE' _ _).trans (((Eqv.refl _).cat h5).trans (star_star_eqv x'))

def T (cfg : Cfg) (sp : SPat) : Prop :=
  ∀ (as : Bool) (f : Nat) (rest : List Item) (x : Re), Item.seqToRe f (sits cfg as sp ++ rest) = some x →
    ∃ f' x', Item.seqToRe f' rest = some x' ∧ Eqv x (.cat (comp cfg.isBytes cfg.dot as (erase sp)) x')

def V (cfg : Cfg) (sp : SPat) : Prop :=
  ∀ (as : Bool) (f : Nat) (xs : List Re), (splitBars (sits cfg as sp)).mapM (Item.seqToRe f) = some xs →
    Eqv (altOfList xs) (comp cfg.isBytes cfg.dot as (erase sp))

theorem V_of_T (cfg : Cfg) (sp : SPat) (hp : rpp false (erase sp) = true) (hT : T cfg sp) : V cfg sp := by
  intro as f xs h
  rw [HF.splitBars_noBar _ (sits_noBar cfg sp as hp)] at h
  simp only [List.mapM_cons, List.mapM_nil] at h
  cases h1 : Item.seqToRe f (sits cfg as sp) with
  | none => simp [h1] at h
  | some x =>
    simp [h1] at h
    subst h
    have h1' : Item.seqToRe f (sits cfg as sp ++ []) = some x := by simpa using h1
    obtain ⟨f', x', hx', he⟩ := hT as f [] x h1'
    rw [seqToRe_nil hx'] at he
    exact he.trans (Eqv.cat_eps _)

theorem T_single (cfg : Cfg) (sp : SPat) (r : Bool → Re) (hi : ∀ as, sits cfg as sp = [.re (r as)])
    (he : ∀ as, Eqv (r as) (comp cfg.isBytes cfg.dot as (erase sp))) : T cfg sp := by
  intro as f rest x h
  rw [hi] at h
  obtain ⟨f', x', _, h2, h3⟩ := seqToRe_re h
  exact ⟨f', x', h2, by rw [h3]; exact (Eqv.catE' _ _).trans ((he as).cat (Eqv.refl _))⟩

theorem cls_unflag_eqv (neg : Bool) (cis cis' : List ClsItem) (h : cis.map unflag = cis'.map unflag) :
    Eqv (.cls neg cis) (.cls neg cis') := by
  intro md a b
  simp only [Re.M]
  apply consume1_congr
  intro d
  simp only [clsMatch]
  congr 1
  have e : ∀ l : List ClsItem, l.any (fun it => it.hasCi md.ci d) = (l.map unflag).any (fun it => it.hasCi md.ci d) := by
    intro l
    induction l with
    | nil => rfl
    | cons x l ih => simp only [List.map_cons, List.any_cons, unflag_hasCi, ih]
  rw [e cis, e cis', h]

theorem unflag_toClsItem (b : Bool) (it : SCls) : unflag (it.toClsItem b) = it.toClsItem b := by
  cases it <;> rfl

theorem clsS_eqv (cfg : Cfg) (neg : Bool) (items : List SCls) (cis : List ClsItem)
    (h : cis.map unflag = items.map (SCls.toClsItem cfg.isBytes)) :
    Eqv (.cls neg cis) (.cls neg (items.map (SCls.toClsItem cfg.isBytes))) := by
  apply cls_unflag_eqv
  rw [h, List.map_map]
  apply List.map_congr_left
  intro it _
  exact (unflag_toClsItem _ it).symm

theorem sits_toRe (cfg : Cfg) : ∀ (sp : SPat), sclsOK cfg sp →
    (rpp false (erase sp) = true → T cfg sp) ∧ (rpp true (erase sp) = true → V cfg sp) := by
  intro sp
  induction sp with
  | eps =>
    intro _
    have hT : T cfg .eps := by
      intro as f rest x h
      exact ⟨f, x, h, (Eqv.eps_cat x).symm⟩
    exact ⟨fun _ => hT, fun _ => V_of_T cfg _ rfl hT⟩
  | lit c e =>
    intro _
    have hT : T cfg (.lit c e) := T_single cfg _ (fun _ => litRe' c) (fun _ => rfl) (fun _ => Eqv.refl _)
    exact ⟨fun _ => hT, fun _ => V_of_T cfg _ rfl hT⟩
  | any =>
    intro _
    have hT : T cfg .any := T_single cfg _ (fun as => PP.guard cfg as Frag.qmark) (fun _ => rfl)
      (fun as => by simpa [comp, erase] using guard_eqv cfg as (Eqv.refl Frag.qmark))
    exact ⟨fun _ => hT, fun _ => V_of_T cfg _ rfl hT⟩
  | star n =>
    intro _
    have hT : T cfg (.star n) := by
      intro as f rest x h
      cases as with
      | true =>
        simp only [sits, starItems, if_true] at h
        obtain ⟨f', x', _, h2, h3⟩ := seqToRe_re h
        refine ⟨f', x', h2, ?_⟩
        rw [h3]
        refine (Eqv.catE' _ _).trans (Eqv.cat ?_ (Eqv.refl _))
        simp only [starRe, comp, erase, if_true]
        exact (Eqv.refl _).cat (guard_eqv cfg true (Eqv.refl Frag.star))
      | false =>
        simp only [sits, starItems, Bool.false_eq_true, if_false] at h
        obtain ⟨f', x', h2, h3⟩ := T_stars n f rest x h
        exact ⟨f', x', h2, by simpa [comp, erase] using h3⟩
    exact ⟨fun _ => hT, fun _ => V_of_T cfg _ rfl hT⟩
  | cls w neg items cis =>
    intro hc
    have hT : T cfg (.cls w neg items cis) :=
      T_single cfg _ (fun as => PP.guard cfg as (.cls neg cis)) (fun _ => rfl)
        (fun as => by simpa [comp, erase] using guard_eqv cfg as (clsS_eqv cfg neg items cis hc))
    exact ⟨fun _ => hT, fun h => V_of_T cfg _ h hT⟩
  | seq p q ihp ihq =>
    intro hc
    have hT : rpp false (erase (.seq p q)) = true → T cfg (.seq p q) := by
      intro h
      simp only [erase, rpp, Bool.and_eq_true] at h
      intro as f rest x hx
      simp only [sits, List.append_assoc] at hx
      obtain ⟨f1, x1, h1, e1⟩ := (ihp hc.1).1 h.1 as f _ x hx
      obtain ⟨f2, x2, h2, e2⟩ := (ihq hc.2).1 h.2 _ f1 rest x1 h1
      refine ⟨f2, x2, h2, ?_⟩
      simp only [erase]
      rw [comp_seq _ _ _ _ _ (rpp_negFree (erase p) _ h.1), erase_isEmpty]
      exact (e1.trans ((Eqv.refl _).cat e2)).trans (Eqv.cat_assoc _ _ _).symm
    exact ⟨hT, fun h => V_of_T cfg _ h (hT h)⟩
  | alt p q ihp ihq =>
    intro hc
    refine ⟨fun h => by simp [erase, rpp] at h, fun h => ?_⟩
    simp only [erase, rpp, Bool.and_eq_true, true_and] at h
    intro as f xs hx
    simp only [sits] at hx
    rw [splitBars_append_bar _ _ (sits_noBar cfg p as h.1)] at hx
    simp only [List.mapM_cons] at hx
    cases h1 : Item.seqToRe f (sits cfg as p) with
    | none => simp [h1] at hx
    | some xp =>
      cases h2 : (splitBars (sits cfg as q)).mapM (Item.seqToRe f) with
      | none => simp [h1, h2] at hx
      | some xq =>
        simp [h1, h2] at hx
        subst hx
        have hne := mapM_ne_nil _ _ _ (splitBars_ne_nil _) h2
        have h1' : Item.seqToRe f (sits cfg as p ++ []) = some xp := by simpa using h1
        obtain ⟨f', x', hx', he⟩ := (ihp hc.1).1 h.1 as f [] xp h1'
        rw [seqToRe_nil hx'] at he
        have hq := (ihq hc.2).2 h.2 as f xq h2
        cases xq with
        | nil => exact absurd rfl hne
        | cons y ys =>
          simp only [altOfList, comp, erase]
          exact (he.trans (Eqv.cat_eps _)).alt hq
  | ext k body ih =>
    intro hc
    have hT : rpp false (erase (.ext k body)) = true → T cfg (.ext k body) := by
      intro h
      simp only [erase, rpp, Bool.and_eq_true, bne_iff_ne, ne_eq] at h
      intro as f rest x hx
      simp only [sits, List.cons_append, List.nil_append] at hx
      obtain ⟨f', b, x', _, hb, hr, he⟩ := seqToRe_group hx
      obtain ⟨f'', xs, _, hm, hb'⟩ := listToRe_inv hb
      have hV := (ih hc).2 h.2 as f'' xs hm
      refine ⟨f', x', hr, ?_⟩
      rw [he]
      refine (Eqv.catE' _ _).trans (Eqv.cat ?_ (Eqv.refl _))
      rw [hb']
      have : comp cfg.isBytes cfg.dot as (erase (.ext k body)) =
          quantRe k (comp cfg.isBytes cfg.dot as (erase body)) := by
        cases k <;> first | rfl | exact absurd rfl h.1
      rw [this]
      exact quant_eqv k h.1 _ hV
    exact ⟨hT, fun h => V_of_T cfg _ h (hT h)⟩

/-! ## Part D: the pass -/

theorem sprint_lit_len (c : Char) (e : Bool) : 1 ≤ (sprint (.lit c e)).length := by
  cases e <;> simp [sprint]

/-- the in-group claim -/
def E (cfg : Cfg) (sp : SPat) : Prop :=
  ∀ (b : Bool), rpp b (erase sp) = true → ∀ (F i : Nat) (rest : List Char) (ps : PS) (ext : List Item)
    (tA tN as : Bool),
    PP.Inv ps as true 0 → (as = true → tA = true) → (b = true → as = tA) → sok cfg false sp rest →
    (sprint sp).length ≤ F →
    ∃ ps' F', F - (sprint sp).length ≤ F' ∧
      extLoop cfg F ⟨i, sprint sp ++ rest⟩ ps ext tA tN =
        extLoop cfg F' ⟨i + (sprint sp).length, rest⟩ ps' ((sits cfg as sp).reverse ++ ext) tA tN ∧
      PP.Inv ps' (sendAs as sp) true 0

theorem E_of_run (cfg : Cfg) (sp : SPat) (w : List Char) (x : Bool → List Item) (side : List Char → Prop)
    (hs : RunE cfg w x side) (hprint : sprint sp = w) (hits : ∀ as, sits cfg as sp = x as)
    (hend : ∀ as, sendAs as sp = false) (hside : ∀ rest, sok cfg false sp rest → side rest) :
    E cfg sp := by
  intro b _ F i rest ps ext tA tN as hi _ _ hok hF
  rw [hprint] at hF ⊢
  obtain ⟨ps', F', hF', hi', e⟩ := hs as 0 F i rest ps ext tA tN hi (hside rest hok) hF
  exact ⟨ps', F', hF', by rw [hits]; exact e, by rw [hend]; exact hi'⟩

/-- a whole group `k(body)`, given the claim for its body -/
theorem parseExtend_groupS (cfg : Cfg) (k : ExtKind) (hk : k ≠ .neg) (body : SPat) (hE : E cfg body)
    (hpp : rpp true (erase body) = true) (F i : Nat) (rest : List Char) (ps : PS) (cur : List Item) (rd : Bool)
    {as il : Bool} (hi : PP.Inv ps as il 0) (hok : sok cfg false body (')' :: rest))
    (hF : (sprint body).length + 2 ≤ F) :
    ∃ ps', parseExtend cfg F (extChar k) ⟨i, '(' :: (sprint body ++ ')' :: rest)⟩ ps cur rd =
        (true, ps', ⟨i + (sprint body).length + 2, rest⟩,
          .group (gkind k) (HF.capOf cfg) (sits cfg as body) :: cur) ∧
      PP.Inv ps' false il 0 := by
  obtain ⟨F1, rfl⟩ : ∃ F1, F = F1 + 1 := ⟨F - 1, by omega⟩
  rw [HF.parseExtend_eq]
  simp only [It.next, bne_self_eq_false, Bool.false_eq_true, if_false]
  obtain ⟨ps1, F', hF', e1, hi1⟩ := hE true hpp F1 (i+1) (')' :: rest) (HF.peEnter ps (extChar k) rd) [] ps.afterStart
    ps.invNest as (hi.peEnter _ _) (fun h => hi.afterStart.trans h) (fun _ => hi.afterStart.symm) hok (by omega)
  obtain ⟨F2, hF2⟩ : ∃ F2, F' = F2 + 1 := ⟨F' - 1, by omega⟩
  rw [e1, hF2, extLoop_close]
  simp only [List.append_nil, List.reverse_reverse, peBuild_group cfg k hk]
  have hz : ps1.updateDirState.invExt = 0 := hi1.upd.invExt
  have hb' : (if ps.inList = true then
        cleanUpInverse cfg ps1.updateDirState (Item.group (gkind k) (HF.capOf cfg) (sits cfg as body) :: cur)
          (ps.invNest && ps1.updateDirState.invNest)
      else (Item.group (gkind k) (HF.capOf cfg) (sits cfg as body) :: cur, ps1.updateDirState)) =
      (Item.group (gkind k) (HF.capOf cfg) (sits cfg as body) :: cur, ps1.updateDirState) := by
    split
    · exact cleanUp_zero cfg _ _ _ hz
    · rfl
  rw [hb']
  refine ⟨HF.peFinish ps true ps1.updateDirState, ?_, ?_⟩
  · have : i + 1 + (sprint body).length + 1 = i + (sprint body).length + 2 := by omega
    rw [this]
  · exact hi.peFinish hi1.upd

theorem sendAs_rpp_false (as : Bool) (sp : SPat) (h : rpp false (erase sp) = true) :
    sendAs as sp = (as && sp.isEmpty) := by
  cases sp <;> first | rfl | (simp [erase, rpp] at h)

/-- the Stage-2 obligation: a bracket is one token -/
theorem run_cls (cfg : Cfg) (w : List Char) (neg : Bool) (items : List SCls) (cis : List ClsItem) :
    RunR cfg ('[' :: w) (fun as => [.re (PP.guard cfg as (.cls neg cis))])
      (fun rest => sok cfg true (.cls w neg items cis) rest) ∧
    RunE cfg ('[' :: w) (fun as => [.re (PP.guard cfg as (.cls neg cis))])
      (fun rest => sok cfg false (.cls w neg items cis) rest) := by
  have hne : '[' ∉ extTypes := by decide
  constructor
  · intro as k F i rest ps l hi _ hsd hF
    obtain ⟨F', rfl⟩ : ∃ F', F = F' + 1 := ⟨F - 1, by simp at hF; omega⟩
    obtain ⟨ps1, hi1, e⟩ := rootTok_plain cfg '[' ⟨i+1, w ++ rest⟩ ps l hi (fun hx => absurd hx hne)
    refine ⟨(if ps1.afterStart then ps1.resetDirTrack else ps1).updateDirState, F', by simp, ?_, ?_⟩
    · split
      · exact hi1.reset.upd
      · exact hi1.upd
    · show rootLoop cfg (F'+1) ⟨i, '[' :: (w ++ rest)⟩ ps l = _
      rw [rootLoop_cons, e]
      simp only [HF.rootPlain, show ('[' : Char) ≠ '.' by decide, show ('[' : Char) ≠ '*' by decide,
        show ('[' : Char) ≠ '?' by decide, show ('[' : Char) ≠ '/' by decide, show ('[' : Char) ≠ '\\' by decide,
        if_false, if_true, hsd ps1 (i+1), hi1.afterStart]
      simp only [List.length_cons, List.reverse_cons, List.reverse_nil, List.nil_append, List.singleton_append]
      have : i + 1 + w.length = i + (w.length + 1) := by omega
      rw [this]
  · intro as k F i rest ps l a n hi hsd hF
    obtain ⟨F', rfl⟩ : ∃ F', F = F' + 1 := ⟨F - 1, by simp at hF; omega⟩
    obtain ⟨ps1, hi1, e⟩ := extTok_plain' cfg F' '[' ⟨i+1, w ++ rest⟩ ps l a n hi (fun hx => absurd hx hne)
    refine ⟨(if ps1.afterStart then ps1.resetDirTrack else ps1).updateDirState, F', by simp, ?_, ?_⟩
    · split
      · exact hi1.reset.upd
      · exact hi1.upd
    · show extLoop cfg (F'+1) ⟨i, '[' :: (w ++ rest)⟩ ps l a n = _
      rw [extLoop_cons, e]
      simp only [HF.extPlain, show ('[' : Char) ≠ '.' by decide, show ('[' : Char) ≠ '*' by decide,
        show ('[' : Char) ≠ '?' by decide, show ('[' : Char) ≠ '/' by decide, show ('[' : Char) ≠ '\\' by decide,
        show ('[' : Char) ≠ '|' by decide,
        if_false, if_true, hsd ps1 (i+1), hi1.afterStart]
      rw [extCont_ne _ _ _ _ _ _ _ _ (by decide)]
      simp only [List.length_cons, List.reverse_cons, List.reverse_nil, List.nil_append, List.singleton_append]
      have : i + 1 + w.length = i + (w.length + 1) := by omega
      rw [this]

theorem E_all (cfg : Cfg) (h : FnX cfg) : ∀ sp : SPat, E cfg sp := by
  intro sp
  induction sp with
  | eps =>
    intro b _ F i rest ps ext tA tN as hi _ _ _ _
    exact ⟨ps, F, by simp, by simp [sprint, sits], by simpa [sendAs, SPat.isEmpty] using hi⟩
  | lit c e =>
    cases e with
    | true =>
      exact E_of_run cfg _ _ _ _ (run_esc_ext cfg h c) rfl (fun _ => rfl)
        (fun as => by simp [sendAs, SPat.isEmpty]) (fun _ _ => trivial)
    | false =>
      intro b hb F i rest ps ext tA tN as hi hA hB hok hF
      have hok' := hok
      simp only [sok] at hok'
      obtain ⟨c1, c2, c3, c4, c5, c6⟩ := hok'
      obtain ⟨c8, c10⟩ := c6 trivial
      exact E_of_run cfg _ _ _ _ (run_bare_ext cfg h c c1 c2 c3 c4 c8 c10) rfl (fun _ => rfl)
        (fun as => by simp [sendAs, SPat.isEmpty]) (fun rest hk => by simp only [sok] at hk; exact hk.2.2.2.2.1)
        b hb F i rest ps ext tA tN as hi hA hB hok hF
  | any =>
    exact E_of_run cfg _ _ _ _ (RunE_of_step (step_any cfg h) (by simp)) rfl (fun _ => rfl)
      (fun as => by simp [sendAs, SPat.isEmpty]) (fun rest hok => by simpa [sok] using hok)
  | star n =>
    exact E_of_run cfg _ _ _ _ (run_stars_ext cfg h n) rfl (fun _ => rfl)
      (fun as => by simp [sendAs, SPat.isEmpty]) (fun rest hok => by simpa [sok] using hok)
  | cls w neg items cis =>
    exact E_of_run cfg _ _ _ _ (run_cls cfg w neg items cis).2 rfl (fun _ => rfl)
      (fun as => by simp [sendAs, SPat.isEmpty]) (fun _ hk => hk)
  | seq p q ihp ihq =>
    intro b hp F i rest ps ext tA tN as hi hA _ hok hF
    simp only [erase, rpp, Bool.and_eq_true] at hp
    simp only [sok] at hok
    simp only [sprint, List.length_append] at hF
    obtain ⟨ps1, F1, hF1, e1, hi1⟩ := ihp false hp.1 F i (sprint q ++ rest) ps ext tA tN as hi hA (by simp) hok.1
      (by omega)
    rw [sendAs_rpp_false _ _ hp.1] at hi1
    obtain ⟨ps2, F2, hF2, e2, hi2⟩ := ihq false hp.2 F1 (i + (sprint p).length) rest ps1 _ tA tN _ hi1
      (fun hx => hA (by simp only [Bool.and_eq_true] at hx; exact hx.1)) (by simp) hok.2 (by omega)
    rw [sendAs_rpp_false _ _ hp.2] at hi2
    refine ⟨ps2, F2, by simp only [sprint, List.length_append]; omega, ?_,
      by simpa [sendAs, SPat.isEmpty, Bool.and_assoc] using hi2⟩
    simp only [sprint, List.append_assoc, sits, List.reverse_append, List.length_append]
    rw [e1, e2]
    have a2 : i + (sprint p).length + (sprint q).length = i + ((sprint p).length + (sprint q).length) := by omega
    rw [a2]
  | alt p q ihp ihq =>
    intro b hp F i rest ps ext tA tN as hi hA hb hok hF
    simp only [erase, rpp, Bool.and_eq_true] at hp
    simp only [sok] at hok
    simp only [sprint, List.length_append, List.length_cons] at hF
    have hat : as = tA := hb hp.1.1
    obtain ⟨ps1, F1, hF1, e1, hi1⟩ := ihp false hp.1.2 F i ('|' :: (sprint q ++ rest)) ps ext tA tN as hi hA (by simp)
      hok.1 (by omega)
    obtain ⟨F2, hF2⟩ : ∃ F2, F1 = F2 + 1 := ⟨F1 - 1, by omega⟩
    obtain ⟨ps2, hi2, e2⟩ := step_bar cfg F2 (i + (sprint p).length) (sprint q ++ rest) ps1
      ((sits cfg as p).reverse ++ ext) tA tN hi1
    obtain ⟨ps3, F3, hF3, e3, hi3⟩ := ihq true hp.2 F2 (i + (sprint p).length + 1) rest ps2 _ tA tN tA hi2
      (fun hx => hx) (fun _ => rfl) hok.2 (by omega)
    refine ⟨ps3, F3, by simp only [sprint, List.length_append, List.length_cons]; omega, ?_,
      by simpa [sendAs] using (hat ▸ hi3)⟩
    simp only [sprint, List.append_assoc, List.cons_append, sits, List.reverse_append, List.length_append,
      List.length_cons, List.reverse_cons, List.nil_append]
    rw [e1, hF2, e2, e3, hat]
    have a2 : i + (sprint p).length + 1 + (sprint q).length = i + ((sprint p).length + ((sprint q).length + 1)) := by
      omega
    rw [a2]
  | ext k body ih =>
    intro b hp F i rest ps ext tA tN as hi hA _ hok hF
    simp only [erase, rpp, Bool.and_eq_true, bne_iff_ne, ne_eq] at hp
    simp only [sok] at hok
    simp only [sprint, List.length_cons, List.length_append, List.length_nil] at hF
    obtain ⟨F', rfl⟩ : ∃ F', F = F' + 1 := ⟨F - 1, by omega⟩
    obtain ⟨ps1, e1, hi1⟩ := parseExtend_groupS cfg k hp.1 body ih hp.2 F' (i+1) rest ps ext false hi hok (by omega)
    refine ⟨ps1.updateDirState, F', by simp only [sprint, List.length_cons]; omega, ?_,
      by simpa [sendAs, SPat.isEmpty] using hi1.upd⟩
    have hx : (cfg.extend && decide (extChar k ∈ extTypes)) = true := by simp [h.extend, extChar_ext]
    simp only [sprint, List.cons_append, List.append_assoc, List.nil_append, sits, List.reverse_cons,
      List.reverse_nil]
    rw [extLoop_cons]
    unfold HF.extTok
    rw [if_pos hx, e1]
    simp only [if_true]
    rw [extCont_ne _ _ _ _ _ _ _ _ (extChar_ne_close k)]
    congr 2
    simp only [List.length_cons, List.length_append, List.length_nil]
    omega

/-- the top-level claim (negation-free).  `ps.globstar = false` is only needed at the very start
    of the name (a run of stars there must not be taken for a globstar). -/
def R (cfg : Cfg) (sp : SPat) : Prop :=
  rpp false (erase sp) = true → ∀ (F i : Nat) (rest : List Char) (ps : PS) (cur : List Item) (as : Bool),
    PP.Inv ps as false 0 → (as = true → ps.globstar = false) → sok cfg true sp rest → (sprint sp).length ≤ F →
    ∃ ps' F', F - (sprint sp).length ≤ F' ∧
      rootLoop cfg F ⟨i, sprint sp ++ rest⟩ ps cur =
        rootLoop cfg F' ⟨i + (sprint sp).length, rest⟩ ps' ((sits cfg as sp).reverse ++ cur) ∧
      PP.Inv ps' (as && sp.isEmpty) false 0 ∧ ((as && sp.isEmpty) = true → ps'.globstar = false)

theorem R_of_run (cfg : Cfg) (sp : SPat) (w : List Char) (x : Bool → List Item) (side : List Char → Prop)
    (hs : RunR cfg w x side) (hprint : sprint sp = w) (hits : ∀ as, sits cfg as sp = x as)
    (hend : sp.isEmpty = false) (hside : ∀ rest, sok cfg true sp rest → side rest) :
    R cfg sp := by
  intro _ F i rest ps cur as hi hg hok hF
  rw [hprint] at hF ⊢
  obtain ⟨ps', F', hF', hi', e⟩ := hs as 0 F i rest ps cur hi hg (hside rest hok) hF
  exact ⟨ps', F', hF', by rw [hits]; exact e, by rw [hend]; simpa using hi', by rw [hend]; simp⟩

theorem R_all (cfg : Cfg) (h : FnX cfg) : ∀ sp : SPat, R cfg sp := by
  intro sp
  induction sp with
  | eps =>
    intro _ F i rest ps cur as hi hg _ _
    exact ⟨ps, F, by simp, by simp [sprint, sits], by simpa [SPat.isEmpty] using hi,
      by simpa [SPat.isEmpty] using hg⟩
  | lit c e =>
    cases e with
    | true =>
      exact R_of_run cfg _ _ _ _ (run_esc_root cfg h c) rfl (fun _ => rfl) rfl (fun _ _ => trivial)
    | false =>
      intro hb F i rest ps cur as hi hg hok hF
      have hok' := hok
      simp only [sok] at hok'
      obtain ⟨c1, c2, c3, c4, c5, c6⟩ := hok'
      exact R_of_run cfg _ _ _ _ (run_bare_root cfg h c c1 c2 c3 c4) rfl (fun _ => rfl) rfl
        (fun rest hk => by simp only [sok] at hk; exact hk.2.2.2.2.1) hb F i rest ps cur as hi hg hok hF
  | any =>
    exact R_of_run cfg _ _ _ _ (RunR_of_step (step_any cfg h) (by simp)) rfl (fun _ => rfl) rfl
      (fun rest hok => by simpa [sok] using hok)
  | star n =>
    exact R_of_run cfg _ _ _ _ (run_stars_root cfg h n) rfl (fun _ => rfl) rfl
      (fun rest hok => by simpa [sok] using hok)
  | cls w neg items cis =>
    exact R_of_run cfg _ _ _ _ (run_cls cfg w neg items cis).1 rfl (fun _ => rfl) rfl (fun _ hk => hk)
  | seq p q ihp ihq =>
    intro hp F i rest ps cur as hi hg hok hF
    simp only [erase, rpp, Bool.and_eq_true] at hp
    simp only [sok] at hok
    simp only [sprint, List.length_append] at hF
    obtain ⟨ps1, F1, hF1, e1, hi1, hg1⟩ := ihp hp.1 F i (sprint q ++ rest) ps cur as hi hg hok.1 (by omega)
    obtain ⟨ps2, F2, hF2, e2, hi2, hg2⟩ := ihq hp.2 F1 (i + (sprint p).length) rest ps1 _ _ hi1 hg1 hok.2
      (by omega)
    refine ⟨ps2, F2, by simp only [sprint, List.length_append]; omega, ?_,
      by simpa [SPat.isEmpty, Bool.and_assoc] using hi2, by simpa [SPat.isEmpty, Bool.and_assoc] using hg2⟩
    simp only [sprint, List.append_assoc, sits, List.reverse_append, List.length_append]
    rw [e1, e2]
    have a2 : i + (sprint p).length + (sprint q).length = i + ((sprint p).length + (sprint q).length) := by omega
    rw [a2]
  | alt p q => intro hp; simp [erase, rpp] at hp
  | ext k body =>
    intro hp F i rest ps cur as hi _ hok hF
    simp only [erase, rpp, Bool.and_eq_true, bne_iff_ne, ne_eq] at hp
    simp only [sok] at hok
    simp only [sprint, List.length_cons, List.length_append, List.length_nil] at hF
    obtain ⟨F', rfl⟩ : ∃ F', F = F' + 1 := ⟨F - 1, by omega⟩
    obtain ⟨ps1, e1, hi1⟩ := parseExtend_groupS cfg k hp.1 body (E_all cfg h body) hp.2
      (2 * ('(' :: (sprint body ++ ')' :: rest)).length + 8) (i+1) rest ps cur true hi hok
      (by simp only [List.length_cons, List.length_append]; omega)
    refine ⟨ps1.updateDirState, F', by simp only [sprint, List.length_cons]; omega, ?_,
      by simpa [SPat.isEmpty] using hi1.upd, by simp [SPat.isEmpty]⟩
    have hx : (cfg.extend && decide (extChar k ∈ extTypes)) = true := by simp [h.extend, extChar_ext]
    simp only [sprint, List.cons_append, List.append_assoc, List.nil_append, sits, List.reverse_cons,
      List.reverse_nil]
    rw [rootLoop_cons]
    unfold HF.rootTok
    rw [if_pos hx]
    simp only [e1, if_true]
    congr 2
    simp only [List.length_cons, List.length_append, List.length_nil]
    omega

/-! ## Stage 4: one `!(…)` on the top-level spine, followed by literal text -/

def SPat.litOnly : SPat → Bool
  | .eps => true
  | .lit _ _ => true
  | .seq a b => a.litOnly && b.litOnly
  | _ => false

theorem erase_litOnly : ∀ sp : SPat, (erase sp).litOnly = sp.litOnly := by
  intro sp
  induction sp with
  | seq a b iha ihb => simp [erase, Pat.litOnly, SPat.litOnly, iha, ihb]
  | _ => rfl

/-- what the pass has pushed when the loop ends (the `!(` still open: a placeholder) -/
def sitsPre (cfg : Cfg) : Bool → SPat → List Item
  | as, .seq (.ext .neg body) rest =>
    .invOpen cfg.capture (sits cfg as body) :: .ph (negStar cfg.dot as) :: sits cfg false rest
  | as, .ext .neg body => [.invOpen cfg.capture (sits cfg as body), .ph (negStar cfg.dot as)]
  | as, .seq a b => sits cfg as a ++ sitsPre cfg (as && a.isEmpty) b
  | as, g => sits cfg as g

/-- … and after `clean_up_inverse` -/
def sitsTop (cfg : Cfg) : Bool → SPat → List Item
  | as, .seq (.ext .neg body) rest =>
    .invOpen cfg.capture (sits cfg as body) ::
      .closed (sits cfg false rest) (some .eos) (negStar cfg.dot as) :: sits cfg false rest
  | as, .ext .neg body =>
    [.invOpen cfg.capture (sits cfg as body), .closed [] (some .eos) (negStar cfg.dot as)]
  | as, .seq a b => sits cfg as a ++ sitsTop cfg (as && a.isEmpty) b
  | as, g => sits cfg as g

/-- `1` if the pattern has its `!(…)`, else `0` -/
def snNeg : SPat → Nat
  | .seq (.ext .neg _) _ => 1
  | .ext .neg _ => 1
  | .seq _ b => snNeg b
  | _ => 0

theorem rppTop_seq (a b : Pat) (h : ∀ body, a ≠ .ext .neg body) : rppTop (.seq a b) = (rpp false a && rppTop b) := by
  cases a with
  | ext k body => cases k <;> first | rfl | exact absurd rfl (h body)
  | _ => rfl

theorem sitsPre_seq (cfg : Cfg) (as : Bool) (a b : SPat) (h : ∀ body, a ≠ .ext .neg body) :
    sitsPre cfg as (.seq a b) = sits cfg as a ++ sitsPre cfg (as && a.isEmpty) b := by
  cases a with
  | ext k body => cases k <;> first | rfl | exact absurd rfl (h body)
  | _ => rfl

theorem sitsTop_seq (cfg : Cfg) (as : Bool) (a b : SPat) (h : ∀ body, a ≠ .ext .neg body) :
    sitsTop cfg as (.seq a b) = sits cfg as a ++ sitsTop cfg (as && a.isEmpty) b := by
  cases a with
  | ext k body => cases k <;> first | rfl | exact absurd rfl (h body)
  | _ => rfl

theorem snNeg_seq (a b : SPat) (h : ∀ body, a ≠ .ext .neg body) : snNeg (.seq a b) = snNeg b := by
  cases a with
  | ext k body => cases k <;> first | rfl | exact absurd rfl (h body)
  | _ => rfl

theorem erase_not_neg {a : SPat} (h : ∀ body, a ≠ .ext .neg body) : ∀ body, erase a ≠ .ext .neg body := by
  intro body e
  cases a with
  | ext k b =>
    simp only [erase, Pat.ext.injEq] at e
    exact h b (by rw [e.1])
  | _ => simp [erase] at e

theorem rppTop_of_rpp (sp : SPat) (h : rpp false (erase sp) = true) : rppTop (erase sp) = true ∧ snNeg sp = 0 ∧
    (∀ cfg as, sitsPre cfg as sp = sits cfg as sp) ∧ (∀ cfg as, sitsTop cfg as sp = sits cfg as sp) := by
  induction sp with
  | seq a b _ ihb =>
    simp only [erase, rpp, Bool.and_eq_true] at h
    have hn : ∀ body, a ≠ .ext .neg body := by
      intro body e; subst e; simp [erase, rpp] at h
    obtain ⟨h1, h2, h3, h4⟩ := ihb h.2
    refine ⟨by simp only [erase]; rw [rppTop_seq _ _ (erase_not_neg hn), h.1, h1]; rfl,
      by rw [snNeg_seq a b hn, h2], ?_, ?_⟩
    · intro cfg as; rw [sitsPre_seq cfg as a b hn, h3]; rfl
    · intro cfg as; rw [sitsTop_seq cfg as a b hn, h4]; rfl
  | ext k body =>
    cases k <;> first | exact ⟨h, rfl, fun _ _ => rfl, fun _ _ => rfl⟩ | (simp [erase, rpp] at h)
  | _ => exact ⟨h, rfl, fun _ _ => rfl, fun _ _ => rfl⟩

theorem slitOnly_rpp : ∀ sp : SPat, sp.litOnly = true → rpp false (erase sp) = true := by
  intro sp
  induction sp with
  | seq a b iha ihb =>
    intro h; simp only [SPat.litOnly, Bool.and_eq_true] at h
    simp [erase, rpp, iha h.1, ihb h.2]
  | eps => intro _; rfl
  | lit c e => intro _; rfl
  | _ => intro h; simp [SPat.litOnly] at h

theorem sits_litOnly (cfg : Cfg) : ∀ (sp : SPat) (as : Bool), sp.litOnly = true → sits cfg as sp = sits cfg false sp := by
  intro sp
  induction sp with
  | seq a b iha ihb =>
    intro as h; simp only [SPat.litOnly, Bool.and_eq_true] at h
    simp only [sits, iha as h.1, ihb _ h.2, Bool.false_and]
  | eps => intro _ _; rfl
  | lit c e => intro _ _; rfl
  | _ => intro _ h; simp [SPat.litOnly] at h

/-- literal text at top level, whatever the number of open `!(` -/
theorem R_lit (cfg : Cfg) (h : FnX cfg) : ∀ (sp : SPat), sp.litOnly = true →
    ∀ (k F i : Nat) (rest : List Char) (ps : PS) (cur : List Item),
      PP.Inv ps false false k → sok cfg true sp rest → (sprint sp).length ≤ F →
      ∃ ps' F', F - (sprint sp).length ≤ F' ∧
        rootLoop cfg F ⟨i, sprint sp ++ rest⟩ ps cur =
          rootLoop cfg F' ⟨i + (sprint sp).length, rest⟩ ps' ((sits cfg false sp).reverse ++ cur) ∧
        PP.Inv ps' false false k := by
  intro sp
  induction sp with
  | eps =>
    intro _ k F i rest ps cur hi _ _
    exact ⟨ps, F, by simp, by simp [sprint, sits], hi⟩
  | lit c e =>
    intro _ k F i rest ps cur hi hok hF
    cases e with
    | true =>
      obtain ⟨ps', F', hF', hi', e⟩ := run_esc_root cfg h c false k F i rest ps cur hi (by simp) trivial hF
      exact ⟨ps', F', hF', e, hi'⟩
    | false =>
      simp only [sok] at hok
      obtain ⟨c1, c2, c3, c4, c5, c6⟩ := hok
      obtain ⟨ps', F', hF', hi', e⟩ := run_bare_root cfg h c c1 c2 c3 c4 false k F i rest ps cur hi (by simp) c5 hF
      exact ⟨ps', F', hF', e, hi'⟩
  | seq p q ihp ihq =>
    intro hl k F i rest ps cur hi hok hF
    simp only [SPat.litOnly, Bool.and_eq_true] at hl
    simp only [sok] at hok
    simp only [sprint, List.length_append] at hF
    obtain ⟨ps1, F1, hF1, e1, hi1⟩ := ihp hl.1 k F i (sprint q ++ rest) ps cur hi hok.1 (by omega)
    obtain ⟨ps2, F2, hF2, e2, hi2⟩ := ihq hl.2 k F1 (i + (sprint p).length) rest ps1 _ hi1 hok.2 (by omega)
    refine ⟨ps2, F2, by simp only [sprint, List.length_append]; omega, ?_, hi2⟩
    simp only [sprint, List.append_assoc, sits, List.reverse_append, List.length_append, Bool.false_and]
    rw [e1, e2]
    have a2 : i + (sprint p).length + (sprint q).length = i + ((sprint p).length + (sprint q).length) := by omega
    rw [a2]
  | _ => intro hl; simp [SPat.litOnly] at hl

/-- `!(body)` at top level: the body, then an open placeholder -/
theorem parseExtend_negS (cfg : Cfg) (h : FnX cfg) (body : SPat) (hE : E cfg body)
    (hpp : rpp true (erase body) = true) (F i : Nat) (rest : List Char) (ps : PS) (cur : List Item)
    {as : Bool} (hi : PP.Inv ps as false 0) (hok : sok cfg false body (')' :: rest))
    (hF : (sprint body).length + 2 ≤ F) :
    ∃ ps', parseExtend cfg F '!' ⟨i, '(' :: (sprint body ++ ')' :: rest)⟩ ps cur true =
        (true, ps', ⟨i + (sprint body).length + 2, rest⟩,
          .ph (negStar cfg.dot as) :: .invOpen cfg.capture (sits cfg as body) :: cur) ∧
      PP.Inv ps' false false 1 := by
  obtain ⟨F1, rfl⟩ : ∃ F1, F = F1 + 1 := ⟨F - 1, by omega⟩
  rw [HF.parseExtend_eq]
  simp only [It.next, bne_self_eq_false, Bool.false_eq_true, if_false]
  obtain ⟨ps1, F', hF', e1, hi1⟩ := hE true hpp F1 (i+1) (')' :: rest) (HF.peEnter ps '!' true) [] ps.afterStart
    ps.invNest as (hi.peEnter _ _) (fun h => hi.afterStart.trans h) (fun _ => hi.afterStart.symm) hok (by omega)
  obtain ⟨F2, hF2⟩ : ∃ F2, F' = F2 + 1 := ⟨F' - 1, by omega⟩
  rw [e1, hF2, extLoop_close]
  have hb : HF.peBuild cfg '!' ps (sits cfg as body) cur ps1.updateDirState =
      (.ph (negStar cfg.dot as) :: .invOpen cfg.capture (sits cfg as body) :: cur,
        { ps1.updateDirState with invExt := ps1.updateDirState.invExt + 1 }) := by
    simp [HF.peBuild, invStar_fn cfg h, hi.afterStart]
  simp only [List.append_nil, List.reverse_reverse, hb, hi.inList, Bool.false_eq_true, if_false]
  refine ⟨_, ?_, hi.peFinish' hi1.upd⟩
  have : i + 1 + (sprint body).length + 1 = i + (sprint body).length + 2 := by omega
  rw [this]

theorem neg_stepS (cfg : Cfg) (h : FnX cfg) (body : SPat) (hpp : rpp true (erase body) = true)
    (F i : Nat) (rest : List Char) (ps : PS) (cur : List Item) {as : Bool} (hi : PP.Inv ps as false 0)
    (hok : sok cfg false body (')' :: rest)) :
    ∃ ps', rootLoop cfg (F+1) ⟨i, '!' :: '(' :: (sprint body ++ ')' :: rest)⟩ ps cur =
        rootLoop cfg F ⟨i + (sprint body).length + 3, rest⟩ ps'
          (.ph (negStar cfg.dot as) :: .invOpen cfg.capture (sits cfg as body) :: cur) ∧
      PP.Inv ps' false false 1 := by
  obtain ⟨ps1, e1, hi1⟩ := parseExtend_negS cfg h body (E_all cfg h body) hpp
    (2 * ('(' :: (sprint body ++ ')' :: rest)).length + 8) (i+1) rest ps cur hi hok
    (by simp only [List.length_cons, List.length_append]; omega)
  have hx : (cfg.extend && decide ('!' ∈ extTypes)) = true := by
    have : '!' ∈ extTypes := by decide
    simp [h.extend, this]
  refine ⟨ps1.updateDirState, ?_, hi1.upd⟩
  rw [rootLoop_cons]
  unfold HF.rootTok
  rw [if_pos hx]
  simp only [e1, if_true]
  have : i + 1 + (sprint body).length + 2 = i + (sprint body).length + 3 := by omega
  rw [this]

/-- the top-level claim for the Stage-4 fragment -/
def R4 (cfg : Cfg) (sp : SPat) : Prop :=
  rppTop (erase sp) = true → ∀ (F i : Nat) (rest : List Char) (ps : PS) (cur : List Item) (as : Bool),
    PP.Inv ps as false 0 → (as = true → ps.globstar = false) → sok cfg true sp rest → (sprint sp).length ≤ F →
    ∃ ps' as' F', F - (sprint sp).length ≤ F' ∧
      rootLoop cfg F ⟨i, sprint sp ++ rest⟩ ps cur =
        rootLoop cfg F' ⟨i + (sprint sp).length, rest⟩ ps' ((sitsPre cfg as sp).reverse ++ cur) ∧
      PP.Inv ps' as' false (snNeg sp)

theorem R4_of_R (cfg : Cfg) (h : FnX cfg) (sp : SPat) (hpp : rpp false (erase sp) = true) : R4 cfg sp := by
  intro _ F i rest ps cur as hi hg hok hF
  obtain ⟨_, h2, h3, _⟩ := rppTop_of_rpp sp hpp
  obtain ⟨ps', F', hF', e, hi', _⟩ := R_all cfg h sp hpp F i rest ps cur as hi hg hok hF
  exact ⟨ps', _, F', hF', by rw [h3]; exact e, by rw [h2]; exact hi'⟩

theorem R4_all (cfg : Cfg) (h : FnX cfg) : ∀ sp : SPat, R4 cfg sp := by
  intro sp
  induction sp with
  | seq a b _ ihb =>
    by_cases hn : ∃ body, a = .ext .neg body
    · obtain ⟨body, rfl⟩ := hn
      intro hp F i rest ps cur as hi _ hok hF
      simp only [erase, rppTop, Bool.and_eq_true] at hp
      simp only [sok] at hok
      simp only [sprint, List.length_cons, List.length_append, List.length_nil] at hF
      obtain ⟨F', rfl⟩ : ∃ F', F = F' + 1 := ⟨F - 1, by omega⟩
      obtain ⟨ps1, e1, hi1⟩ := neg_stepS cfg h body hp.1 F' i (sprint b ++ rest) ps cur hi hok.1
      have hlb : b.litOnly = true := by rw [← erase_litOnly]; exact hp.2
      obtain ⟨ps2, F2, hF2, e2, hi2⟩ := R_lit cfg h b hlb 1 F' (i + (sprint body).length + 3) rest ps1 _ hi1
        hok.2 (by omega)
      refine ⟨ps2, false, F2, by simp only [sprint, List.length_cons, List.length_append, List.length_nil]; omega,
        ?_, hi2⟩
      simp only [sprint, extChar, List.cons_append, List.append_assoc, List.nil_append, sitsPre,
        List.reverse_cons, List.length_cons, List.length_append]
      rw [e1, e2]
      exact rootLoop_congr cfg _ _ _ rfl (by omega)
    · have hn' : ∀ body, a ≠ .ext .neg body := fun body e => hn ⟨body, e⟩
      intro hp F i rest ps cur as hi hg hok hF
      simp only [erase] at hp
      rw [rppTop_seq _ _ (erase_not_neg hn')] at hp
      simp only [Bool.and_eq_true] at hp
      simp only [sok] at hok
      simp only [sprint, List.length_append] at hF
      obtain ⟨ps1, F1, hF1, e1, hi1, hg1⟩ := R_all cfg h a hp.1 F i (sprint b ++ rest) ps cur as hi hg hok.1
        (by omega)
      obtain ⟨ps2, as2, F2, hF2, e2, hi2⟩ := ihb hp.2 F1 (i + (sprint a).length) rest ps1 _ _ hi1 hg1 hok.2
        (by omega)
      refine ⟨ps2, as2, F2, by simp only [sprint, List.length_append]; omega, ?_,
        by rw [snNeg_seq a b hn']; exact hi2⟩
      rw [sitsPre_seq cfg as a b hn']
      simp only [sprint, List.append_assoc, List.reverse_append, List.length_append]
      rw [e1, e2]
      have a2 : i + (sprint a).length + (sprint b).length = i + ((sprint a).length + (sprint b).length) := by omega
      rw [a2]
  | ext k body =>
    by_cases hk : k = .neg
    · subst hk
      intro hp F i rest ps cur as hi _ hok hF
      simp only [erase, rppTop] at hp
      simp only [sok] at hok
      simp only [sprint, List.length_cons, List.length_append, List.length_nil] at hF
      obtain ⟨F', rfl⟩ : ∃ F', F = F' + 1 := ⟨F - 1, by omega⟩
      obtain ⟨ps1, e1, hi1⟩ := neg_stepS cfg h body hp F' i rest ps cur hi hok
      refine ⟨ps1, false, F', by simp only [sprint, List.length_cons]; omega, ?_, hi1⟩
      simp only [sprint, extChar, List.cons_append, List.append_assoc, List.nil_append, sitsPre,
        List.reverse_cons, List.length_cons, List.length_append, List.length_nil, List.reverse_nil]
      rw [e1]
      exact rootLoop_congr cfg _ _ _ rfl (by omega)
    · intro hp
      have : rpp false (erase (.ext k body)) = true := by
        cases k <;> first | exact hp | exact absurd rfl hk
      exact R4_of_R cfg h _ this hp
  | eps => exact R4_of_R cfg h _ rfl
  | lit c e => exact R4_of_R cfg h _ rfl
  | any => exact R4_of_R cfg h _ rfl
  | star n => exact R4_of_R cfg h _ rfl
  | cls w neg items cis => exact R4_of_R cfg h _ rfl
  | alt p q => intro hp; simp [erase, rppTop, rpp] at hp

/-! ### `clean_up_inverse` at the end of `root` -/

theorem noPh_replicate (n : Nat) (r : Re) : NoPh (List.replicate n (.re r)) := by
  intro x hx
  rw [List.mem_replicate] at hx
  rw [hx.2]; rfl

theorem sits_noPh (cfg : Cfg) : ∀ (sp : SPat) (as : Bool), NoPh (sits cfg as sp) := by
  intro sp
  induction sp with
  | seq a b iha ihb => intro as; exact (iha _).append (ihb _)
  | alt a b iha ihb =>
    intro as
    refine (iha _).append ?_
    intro x hx
    rcases List.mem_cons.mp hx with rfl | h
    · rfl
    · exact ihb _ x h
  | eps => intro as x hx; cases hx
  | star n =>
    intro as
    simp only [sits, starItems]
    split
    · intro x hx; simp only [List.mem_singleton] at hx; subst hx; rfl
    · exact noPh_replicate _ _
  | _ =>
    intro as x hx
    simp only [sits, List.mem_singleton] at hx
    subst hx; rfl

theorem eraseCapL_slits (cfg : Cfg) : ∀ (sp : SPat), sp.litOnly = true →
    Item.eraseCapL (sits cfg false sp) = sits cfg false sp := by
  have happ : ∀ a b : List Item, Item.eraseCapL (a ++ b) = Item.eraseCapL a ++ Item.eraseCapL b := by
    intro a b
    induction a with
    | nil => rfl
    | cons x a ih => simp [Item.eraseCapL, ih]
  intro sp
  induction sp with
  | seq a b iha ihb =>
    intro h; simp only [SPat.litOnly, Bool.and_eq_true] at h
    simp only [sits, Bool.false_and, happ, iha h.1, ihb h.2]
  | eps => intro _; rfl
  | lit c e => intro _; simp [sits, litItem, Item.eraseCapL, Item.eraseCap]
  | _ => intro h; simp [SPat.litOnly] at h

theorem cleanUp_topS (cfg : Cfg) (h : FnX cfg) : ∀ (sp : SPat), rppTop (erase sp) = true → ∀ (as : Bool) (Y : List Item),
    NoPh Y →
    cleanUpGo cfg false ((sitsPre cfg as sp).reverse ++ Y) [] 0 = (Y.reverse ++ sitsTop cfg as sp, snNeg sp) := by
  have heop : cfg.eop = .eos := by simp [Cfg.eop, h.pathname]
  have negCase : ∀ (as : Bool) (B L Y : List Item) (_ : NoPh L) (_ : Item.eraseCapL L = L) (_ : NoPh Y),
      cleanUpGo cfg false ((Item.invOpen cfg.capture B :: Item.ph (negStar cfg.dot as) :: L).reverse ++ Y) [] 0 =
        (Y.reverse ++ (Item.invOpen cfg.capture B :: Item.closed L (some .eos) (negStar cfg.dot as) :: L), 1) := by
    intro as B L Y hL hE hY
    have e1 : (Item.invOpen cfg.capture B :: Item.ph (negStar cfg.dot as) :: L).reverse ++ Y =
        L.reverse ++ (Item.ph (negStar cfg.dot as) :: Item.invOpen cfg.capture B :: Y) := by simp
    rw [e1, cleanUpGo_append cfg false _ _ _ _ hL.reverse]
    simp only [List.reverse_reverse, List.append_nil, cleanUpGo, hE, ite_self, heop, Bool.false_eq_true, if_false]
    rw [cleanUpGo_noPh _ _ _ _ _ hY]
  have plain : ∀ (sp : SPat) (as : Bool) (Y : List Item), NoPh Y → sitsPre cfg as sp = sits cfg as sp →
      sitsTop cfg as sp = sits cfg as sp → snNeg sp = 0 →
      cleanUpGo cfg false ((sitsPre cfg as sp).reverse ++ Y) [] 0 = (Y.reverse ++ sitsTop cfg as sp, snNeg sp) := by
    intro sp as Y hY e1 e2 e3
    rw [e1, e2, e3, cleanUpGo_noPh _ _ _ _ _ ((sits_noPh cfg _ as).reverse.append hY)]
    simp
  intro sp
  induction sp with
  | seq a b _ ihb =>
    by_cases hn : ∃ body, a = .ext .neg body
    · obtain ⟨body, rfl⟩ := hn
      intro hp as Y hY
      simp only [erase, rppTop, Bool.and_eq_true] at hp
      have hlb : b.litOnly = true := by rw [← erase_litOnly]; exact hp.2
      simp only [sitsPre, sitsTop, snNeg]
      exact negCase as _ _ Y (sits_noPh cfg b false) (eraseCapL_slits cfg b hlb) hY
    · have hn' : ∀ body, a ≠ .ext .neg body := fun body e => hn ⟨body, e⟩
      intro hp as Y hY
      simp only [erase] at hp
      rw [rppTop_seq _ _ (erase_not_neg hn')] at hp
      simp only [Bool.and_eq_true] at hp
      rw [sitsPre_seq cfg as a b hn', sitsTop_seq cfg as a b hn', snNeg_seq a b hn', List.reverse_append,
        List.append_assoc, ihb hp.2 _ _ ((sits_noPh cfg a as).reverse.append hY)]
      simp
  | ext k body =>
    by_cases hk : k = .neg
    · subst hk
      intro hp as Y hY
      simp only [sitsPre, sitsTop, snNeg]
      exact negCase as _ [] Y (fun x hx => by cases hx) rfl hY
    · intro hp as Y hY
      have e1 : sitsPre cfg as (.ext k body) = sits cfg as (.ext k body) := by
        cases k <;> first | rfl | exact absurd rfl hk
      have e2 : sitsTop cfg as (.ext k body) = sits cfg as (.ext k body) := by
        cases k <;> first | rfl | exact absurd rfl hk
      have e3 : snNeg (.ext k body) = 0 := by
        cases k <;> first | rfl | exact absurd rfl hk
      exact plain _ as Y hY e1 e2 e3
  | eps => intro _ as Y hY; exact plain _ as Y hY rfl rfl rfl
  | lit c e => intro _ as Y hY; exact plain _ as Y hY rfl rfl rfl
  | any => intro _ as Y hY; exact plain _ as Y hY rfl rfl rfl
  | star n => intro _ as Y hY; exact plain _ as Y hY rfl rfl rfl
  | cls w neg items cis => intro _ as Y hY; exact plain _ as Y hY rfl rfl rfl
  | alt p q => intro hp; simp [erase, rppTop, rpp] at hp

theorem sitsPre_eq_sitsTop (cfg : Cfg) : ∀ (sp : SPat) (as : Bool), snNeg sp = 0 →
    sitsPre cfg as sp = sitsTop cfg as sp := by
  intro sp
  induction sp with
  | seq a b _ ihb =>
    intro as h0
    by_cases hn : ∃ body, a = .ext .neg body
    · obtain ⟨body, rfl⟩ := hn; simp [snNeg] at h0
    · have hn' : ∀ body, a ≠ .ext .neg body := fun body e => hn ⟨body, e⟩
      rw [snNeg_seq a b hn'] at h0
      rw [sitsPre_seq cfg as a b hn', sitsTop_seq cfg as a b hn', ihb _ h0]
  | ext k body =>
    intro as h0
    cases k <;> first | rfl | (simp [snNeg] at h0)
  | _ => intro as _; rfl

/-! ### the whole pass -/

theorem root_topS (cfg : Cfg) (h : FnX cfg) (drive : List Char → DriveInfo) (sp : SPat)
    (hp : rppTop (erase sp) = true) (hok : sok cfg true sp []) (ps : PS) (hi : PP.Inv ps false false 0)
    (hg : ps.globstar = false) :
    ∃ ps', root cfg drive (sprint sp) ps [.empty] = .ok (ps', (sitsTop cfg true sp).reverse ++ [.empty]) ∧
      ps'.matchbase = false ∧ ps'.extmatchbase = false := by
  have hi' : PP.Inv ps.setAfterStart true false 0 :=
    ⟨rfl, rfl, hi.inList, hi.invExt, hi.mb, hi.emb⟩
  obtain ⟨ps1, as1, F1, hF1, e1, hi1⟩ := R4_all cfg h sp hp ((sprint sp).length + 1) 0 [] ps.setAfterStart [.empty] true
    hi' (fun _ => hg) hok (by omega)
  obtain ⟨F2, hF2⟩ : ∃ F2, F1 = F2 + 1 := ⟨F1 - 1, by omega⟩
  rw [hF2, rootLoop_end, List.append_nil] at e1
  have hclean : ∃ ps2, cleanUpInverse cfg ps1 ((sitsPre cfg true sp).reverse ++ [.empty]) false =
      ((sitsTop cfg true sp).reverse ++ [.empty], ps2) ∧ ps2.matchbase = false ∧ ps2.extmatchbase = false := by
    by_cases h0 : snNeg sp = 0
    · refine ⟨ps1, ?_, hi1.mb, hi1.emb⟩
      rw [cleanUp_zero cfg ps1 _ false (by rw [hi1.invExt, h0]), sitsPre_eq_sitsTop cfg sp true h0]
    · refine ⟨{ ps1 with invExt := ps1.invExt - snNeg sp }, ?_, hi1.mb, hi1.emb⟩
      have hne : ps1.invExt ≠ 0 := by rw [hi1.invExt]; exact h0
      unfold cleanUpInverse
      rw [if_neg hne, cleanUp_topS cfg h sp hp true [.empty] (fun x hx => by
        simp only [List.mem_singleton] at hx; subst hx; rfl)]
      simp
  obtain ⟨ps2, hc, hm, he⟩ := hclean
  refine ⟨ps2, ?_, hm, he⟩
  unfold root
  simp only [h.wdd, h.pathname, h.realpath, Bool.false_and, Bool.false_eq_true, ite_false, Bool.and_false,
    Bool.not_false]
  simp only [e1, hc]

theorem sits_nil_of_sprint_nil (cfg : Cfg) : ∀ (sp : SPat) (as : Bool), sprint sp = [] → sits cfg as sp = [] := by
  intro sp
  induction sp with
  | eps => intro as _; rfl
  | lit c e => intro as h; cases e <;> simp [sprint] at h
  | any => intro as h; simp [sprint] at h
  | star n => intro as h; simp [sprint, stars_succ] at h
  | cls w neg items cis => intro as h; simp [sprint] at h
  | seq p q ihp ihq =>
    intro as h
    simp only [sprint, List.append_eq_nil_iff] at h
    simp [sits, ihp _ h.1, ihq _ h.2]
  | alt p q => intro as h; simp [sprint] at h
  | ext k b => intro as h; simp [sprint] at h

theorem sitsTop_nil_of_sprint_nil (cfg : Cfg) : ∀ (sp : SPat) (as : Bool), sprint sp = [] → sitsTop cfg as sp = [] := by
  intro sp
  induction sp with
  | seq a b _ ihb =>
    intro as hpr
    simp only [sprint, List.append_eq_nil_iff] at hpr
    have hn' : ∀ body, a ≠ .ext .neg body := by
      intro body e; subst e; simp [sprint] at hpr
    rw [sitsTop_seq cfg as a b hn', sits_nil_of_sprint_nil cfg a as hpr.1, ihb _ hpr.2]
    rfl
  | ext k body => intro as hpr; simp [sprint] at hpr
  | eps => intro _ _; rfl
  | lit c e => intro as hpr; exact sits_nil_of_sprint_nil cfg _ as hpr
  | any => intro as hpr; simp [sprint] at hpr
  | star n => intro as hpr; simp [sprint, stars_succ] at hpr
  | cls w neg items cis => intro as hpr; simp [sprint] at hpr
  | alt p q => intro as hpr; simp [sprint] at hpr

theorem parseItems_topS (cfg : Cfg) (h : FnX cfg) (hg0 : cfg.globstar0 = false) (drive : List Char → DriveInfo)
    (sp : SPat) (hp : rppTop (erase sp) = true) (hok : sok cfg true sp []) (hbs : sprint sp ≠ ['\\']) :
    parseItems cfg drive (sprint sp) =
      .ok { items := .empty :: sitsTop cfg true sp, ci := !cfg.caseSensitive } := by
  unfold parseItems
  simp only [anchorStep, h.anchor, Bool.false_eq_true, ite_false]
  simp only [parsePrepend, h.matchbase, h.extmatchbase, Bool.or_self, Bool.false_eq_true, ite_false]
  unfold parseBody
  simp only [hbs, ite_false]
  by_cases hemp : (sprint sp).isEmpty = true
  · have : sprint sp = [] := by simpa using hemp
    simp [this, sitsTop_nil_of_sprint_nil cfg sp true this]
  · obtain ⟨ps', hr, hm, he⟩ := root_topS cfg h drive sp hp hok
      { matchbase := false, extmatchbase := false, globstar := cfg.globstar0 } ⟨rfl, rfl, rfl, rfl, rfl, rfl⟩ hg0
    simp only [hemp, Bool.false_eq_true, ite_false, hr]
    simp [hm, he]

/-! ### from the items to the regex -/

theorem WF_replicate (n : Nat) (r : Re) : WF false (List.replicate n (.re r)) := by
  induction n with
  | zero => exact .nil
  | succ n ih => rw [List.replicate_succ]; exact .re ih

theorem sits_WF (cfg : Cfg) : ∀ (sp : SPat) (b as : Bool), rpp b (erase sp) = true → WF false (sits cfg as sp) := by
  intro sp
  induction sp with
  | eps => intro b as _; exact .nil
  | lit c e => intro b as _; exact .re .nil
  | any => intro b as _; exact .re .nil
  | star n =>
    intro b as _
    simp only [sits, starItems]
    split
    · exact .re .nil
    · exact WF_replicate _ _
  | cls w neg items cis => intro b as _; exact .re .nil
  | seq p q ihp ihq =>
    intro b as h
    simp only [erase, rpp, Bool.and_eq_true] at h
    exact (ihp _ _ h.1).append (ihq _ _ h.2)
  | alt p q ihp ihq =>
    intro b as h
    simp only [erase, rpp, Bool.and_eq_true] at h
    exact (ihp _ _ h.1.2).append (.bar (ihq _ _ h.2))
  | ext k body ih =>
    intro b as h
    simp only [erase, rpp, Bool.and_eq_true] at h
    exact .group (ih _ _ h.2) .nil

/-- the look-ahead list `(?:body) tail $` -/
theorem lookahead_eqvS (cfg : Cfg) (rest : SPat) (hl : rest.litOnly = true) (hc : sclsOK cfg rest) (f : Nat)
    (b la : Re)
    (h : Item.listToRe f (.re (.grp b) :: (sits cfg false rest ++ [.re .eos])) = some la) :
    Eqv la (.cat (.grp b) (.cat (comp cfg.isBytes cfg.dot false (erase rest)) .eos)) := by
  have hpp := slitOnly_rpp rest hl
  obtain ⟨f1, xs, _, hm, hx⟩ := listToRe_inv h
  have hnb : HF.NoBar (Item.re (.grp b) :: (sits cfg false rest ++ [.re .eos])) :=
    HF.NoBar.cons rfl ((sits_noBar cfg rest false hpp).append (HF.NoBar.cons rfl HF.NoBar.nil))
  rw [HF.splitBars_noBar _ hnb] at hm
  simp only [List.mapM_cons, List.mapM_nil] at hm
  cases h1 : Item.seqToRe f1 (Item.re (.grp b) :: (sits cfg false rest ++ [.re .eos])) with
  | none => simp [h1] at hm
  | some x =>
    simp [h1] at hm
    have hla : la = x := by rw [hx, ← hm]; rfl
    obtain ⟨f2, y, _, hy, hxy⟩ := seqToRe_re h1
    obtain ⟨f3, y', hy', he⟩ := (sits_toRe cfg rest hc).1 hpp false f2 [.re .eos] y hy
    obtain ⟨f4, z, _, hz, hyz⟩ := seqToRe_re hy'
    rw [seqToRe_nil hz] at hyz
    rw [hla, hxy]
    refine (Eqv.catE' _ _).trans ((Eqv.refl _).cat (he.trans ((Eqv.refl _).cat ?_)))
    rw [hyz]
    exact (Eqv.catE' _ _).trans (Eqv.cat_eps _)

/-- the items of a Stage-4 pattern convert to the regex of the tidy compiler -/
theorem sitsTop_toRe (cfg : Cfg) : ∀ (sp : SPat), rppTop (erase sp) = true → sclsOK cfg sp →
    ∀ (as : Bool) (f : Nat) (x : Re),
    Item.seqToRe f (sitsTop cfg as sp) = some x → Eqv x (comp cfg.isBytes cfg.dot as (erase sp)) := by
  have flat : ∀ (sp : SPat), rpp false (erase sp) = true → sclsOK cfg sp → ∀ (as : Bool) (f : Nat) (x : Re),
      Item.seqToRe f (sits cfg as sp) = some x → Eqv x (comp cfg.isBytes cfg.dot as (erase sp)) := by
    intro sp hp hc as f x hx
    have hx' : Item.seqToRe f (sits cfg as sp ++ []) = some x := by simpa using hx
    obtain ⟨f', x', hx2, he⟩ := (sits_toRe cfg sp hc).1 hp as f [] x hx'
    rw [seqToRe_nil hx2] at he
    exact he.trans (Eqv.cat_eps _)
  intro sp
  induction sp with
  | seq a b _ ihb =>
    by_cases hn : ∃ body, a = .ext .neg body
    · obtain ⟨body, rfl⟩ := hn
      intro hp hc as f x hx
      simp only [erase, rppTop, Bool.and_eq_true] at hp
      have hlb : b.litOnly = true := by rw [← erase_litOnly]; exact hp.2
      simp only [sitsTop] at hx
      obtain ⟨f', bq, la, r, _, hb, hla, hr, hxe⟩ := seqToRe_inv hx
      obtain ⟨f2, xs, _, hm, hbx⟩ := listToRe_inv hb
      have hV := (sits_toRe cfg body hc.1).2 hp.1 as f2 xs hm
      rw [← hbx] at hV
      have hL := lookahead_eqvS cfg b hlb hc.2 f' bq la hla
      have hR := flat b (slitOnly_rpp b hlb) hc.2 false f' r hr
      rw [hxe]
      simp only [comp, erase]
      refine (Eqv.catE' _ _).trans (Eqv.cat (capgrp_eqv _ (Eqv.cat (Eqv.look true ?_) (Eqv.refl _))) hR)
      exact hL.trans ((Eqv.grp hV).cat (Eqv.refl _))
    · have hn' : ∀ body, a ≠ .ext .neg body := fun body e => hn ⟨body, e⟩
      intro hp hc as f x hx
      simp only [erase] at hp
      rw [rppTop_seq _ _ (erase_not_neg hn')] at hp
      simp only [Bool.and_eq_true] at hp
      rw [sitsTop_seq cfg as a b hn'] at hx
      obtain ⟨f1, x1, h1, e1⟩ := (sits_toRe cfg a hc.1).1 hp.1 as f _ x hx
      have e2 := ihb hp.2 hc.2 _ f1 x1 h1
      simp only [erase]
      rw [comp_seq _ _ _ _ _ (rpp_negFree (erase a) _ hp.1), erase_isEmpty]
      exact e1.trans ((Eqv.refl _).cat e2)
  | ext k body =>
    by_cases hk : k = .neg
    · subst hk
      intro hp hc as f x hx
      simp only [erase, rppTop] at hp
      simp only [sitsTop] at hx
      obtain ⟨f', bq, la, r, _, hb, hla, hr, hxe⟩ := seqToRe_inv hx
      obtain ⟨f2, xs, _, hm, hbx⟩ := listToRe_inv hb
      have hV := (sits_toRe cfg body hc).2 hp as f2 xs hm
      rw [← hbx] at hV
      have hL := lookahead_nil_eqv f' bq la hla
      rw [hxe, seqToRe_nil hr]
      simp only [comp, erase]
      refine (Eqv.catE' _ _).trans ((Eqv.cat_eps _).trans
        (capgrp_eqv _ (Eqv.cat (Eqv.look true ?_) (Eqv.refl _))))
      exact hL.trans ((Eqv.grp hV).cat (Eqv.refl _))
    · intro hp hc as f x hx
      have hpp : rpp false (erase (.ext k body)) = true := by
        cases k <;> first | exact hp | exact absurd rfl hk
      have e2 : sitsTop cfg as (.ext k body) = sits cfg as (.ext k body) := by
        cases k <;> first | rfl | exact absurd rfl hk
      rw [e2] at hx
      exact flat _ hpp hc as f x hx
  | eps => intro _ hc as f x hx; exact flat _ rfl hc as f x hx
  | lit c e => intro _ hc as f x hx; exact flat _ rfl hc as f x hx
  | any => intro _ hc as f x hx; exact flat _ rfl hc as f x hx
  | star n => intro _ hc as f x hx; exact flat _ rfl hc as f x hx
  | cls w neg items cis => intro hp hc as f x hx; exact flat _ rfl hc as f x hx
  | alt p q => intro hp; simp [erase, rppTop, rpp] at hp

theorem sitsTop_WF (cfg : Cfg) : ∀ (sp : SPat) (as : Bool), rppTop (erase sp) = true → WF false (sitsTop cfg as sp) := by
  intro sp
  induction sp with
  | seq a b _ ihb =>
    intro as hp
    by_cases hn : ∃ body, a = .ext .neg body
    · obtain ⟨body, rfl⟩ := hn
      simp only [erase, rppTop, Bool.and_eq_true] at hp
      have hlb : b.litOnly = true := by rw [← erase_litOnly]; exact hp.2
      have hl := sits_WF cfg b false false (slitOnly_rpp b hlb)
      exact .inv (sits_WF cfg body true as hp.1) hl hl
    · have hn' : ∀ body, a ≠ .ext .neg body := fun body e => hn ⟨body, e⟩
      simp only [erase] at hp
      rw [rppTop_seq _ _ (erase_not_neg hn')] at hp
      simp only [Bool.and_eq_true] at hp
      rw [sitsTop_seq cfg as a b hn']
      exact (sits_WF cfg a false as hp.1).append (ihb _ hp.2)
  | ext k body =>
    intro as hp
    by_cases hk : k = .neg
    · subst hk
      exact .inv (sits_WF cfg body true as hp) .nil .nil
    · have hpp : rpp false (erase (.ext k body)) = true := by
        cases k <;> first | exact hp | exact absurd rfl hk
      have e2 : sitsTop cfg as (.ext k body) = sits cfg as (.ext k body) := by
        cases k <;> first | rfl | exact absurd rfl hk
      rw [e2]; exact sits_WF cfg _ false as hpp
  | alt p q => intro as hp; simp [erase, rppTop, rpp] at hp
  | _ => intro as hp; exact sits_WF cfg _ false as hp

theorem sitsTop_noBar (cfg : Cfg) : ∀ (sp : SPat) (as : Bool), rppTop (erase sp) = true →
    HF.NoBar (sitsTop cfg as sp) := by
  intro sp
  induction sp with
  | seq a b _ ihb =>
    intro as hp
    by_cases hn : ∃ body, a = .ext .neg body
    · obtain ⟨body, rfl⟩ := hn
      simp only [erase, rppTop, Bool.and_eq_true] at hp
      have hlb : b.litOnly = true := by rw [← erase_litOnly]; exact hp.2
      exact HF.NoBar.cons rfl (HF.NoBar.cons rfl (sits_noBar cfg b false (slitOnly_rpp b hlb)))
    · have hn' : ∀ body, a ≠ .ext .neg body := fun body e => hn ⟨body, e⟩
      simp only [erase] at hp
      rw [rppTop_seq _ _ (erase_not_neg hn')] at hp
      simp only [Bool.and_eq_true] at hp
      rw [sitsTop_seq cfg as a b hn']
      exact (sits_noBar cfg a as hp.1).append (ihb _ hp.2)
  | ext k body =>
    intro as hp
    cases k <;> first | exact HF.NoBar.cons rfl (HF.NoBar.cons rfl HF.NoBar.nil) | exact HF.NoBar.cons rfl HF.NoBar.nil
  | alt p q => intro as hp; simp [erase, rppTop, rpp] at hp
  | _ => intro as hp; exact sits_noBar cfg _ as hp

theorem toRe_topS (cfg : Cfg) (sp : SPat) (hp : rppTop (erase sp) = true) (hc : sclsOK cfg sp) (ci : Bool) :
    ∃ r, (Parsed.toRe { items := .empty :: sitsTop cfg true sp, ci := ci }) = some r ∧
      Eqv r (wrap ci (comp cfg.isBytes cfg.dot true (erase sp))) := by
  have hwf : WF false (Item.empty :: sitsTop cfg true sp) := .empty (sitsTop_WF cfg sp true hp)
  obtain ⟨r, hr⟩ := Option.isSome_iff_exists.mp (Parsed.toRe_isSome_of_WF ⟨_, ci⟩ hwf)
  refine ⟨r, hr, ?_⟩
  unfold Parsed.toRe at hr
  simp only [] at hr
  cases hin : Item.listToRe (2 * Item.sizeL (Item.empty :: sitsTop cfg true sp) + 4)
      (Item.empty :: sitsTop cfg true sp) with
  | none => simp [hin] at hr
  | some inner =>
    simp [hin] at hr
    subst hr
    obtain ⟨f', xs, _, hm, hx⟩ := listToRe_inv hin
    have hnb : HF.NoBar (Item.empty :: sitsTop cfg true sp) := HF.NoBar.cons rfl (sitsTop_noBar cfg sp true hp)
    rw [HF.splitBars_noBar _ hnb] at hm
    simp only [List.mapM_cons, List.mapM_nil] at hm
    cases h1 : Item.seqToRe f' (Item.empty :: sitsTop cfg true sp) with
    | none => simp [h1] at hm
    | some x =>
      simp [h1] at hm
      have hx' : inner = x := by rw [hx, ← hm]; rfl
      cases f' with
      | zero => simp [Item.seqToRe] at h1
      | succ f =>
        simp only [Item.seqToRe] at h1
        have := sitsTop_toRe cfg sp hp hc true f x h1
        rw [hx']
        exact (Eqv.refl _).cat ((this.flags true ci).cat (Eqv.refl _))

/-- **pass_spelled**: the faithful port on any spelled pattern of the C01 scope -/
theorem pass_spelled (cfg : Cfg) (h : FnX cfg) (hg0 : cfg.globstar0 = false) (drive : List Char → DriveInfo)
    (sp : SPat) (hp : rppTop (erase sp) = true) (hok : sok cfg true sp []) (hc : sclsOK cfg sp)
    (hbs : sprint sp ≠ ['\\']) :
    ∃ parsed r, parseItems cfg drive (sprint sp) = .ok parsed ∧ parsed.toRe = some r ∧
      Eqv r (wrap (!cfg.caseSensitive) (comp cfg.isBytes cfg.dot true (erase sp))) := by
  obtain ⟨r, hr, he⟩ := toRe_topS cfg sp hp hc (!cfg.caseSensitive)
  exact ⟨_, r, parseItems_topS cfg h hg0 drive sp hp hok hbs, hr, he⟩

end PR
end WcModel

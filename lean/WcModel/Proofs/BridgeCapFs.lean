import WcModel.Proofs.BridgeCapPos
import WcModel.Proofs.BridgeFlags
import WcModel.Proofs.BridgeLink
/-
  C04 bridge, part 13: `_fs_match` on the one `**` group.

  * `fsPieces_false`   the per-piece loop of `_fs_match` (the group does not reach the end of the
                       path) is `noLinks`;
  * `fsGroups_mid`     the loop over `m.groups()` for ONE group whose span is the text `/m₁/…/m_k`
                       between a prefix `J` and a suffix of at least two characters: `noLinks fs J [m₁…m_k]`;
  * `fsMatch_one_glob` for a regex all of whose accepting runs bind group 1 to that span (and nothing
                       else): `_fs_match` = the regex matches ∧ `noLinks`.
-/
namespace WcModel.Bridge

theorem fsPieces_false (fs : FS) : ∀ (parts : List Name) (j last : Nat) (base : List Char),
    (fsPieces fs false parts j last base).2 = noLinks fs base parts := by
  intro parts
  induction parts with
  | nil => intro _ _ _; rfl
  | cons p r ih =>
    intro j last base
    simp only [fsPieces, Bool.not_false, Bool.true_or, Bool.true_and, noLinks]
    cases fs.islink (pjoin base p)
    · simp [ih]
    · simp

theorem splitSlash_join : ∀ (m : Name) (r : List Name), (∀ x ∈ m :: r, Sane x) → splitSlash (m ++ sl r) = m :: r := by
  intro m r
  induction r generalizing m with
  | nil => intro h; simpa [sl] using splitSlash_noslash m (h m List.mem_cons_self).2
  | cons x r ih =>
    intro h
    have : m ++ sl (x :: r) = m ++ '/' :: (x ++ sl r) := by simp [sl]
    rw [this, splitSlash_append_slash, splitSlash_noslash m (h m List.mem_cons_self).2,
      ih x (fun y hy => h y (List.mem_cons_of_mem _ hy))]
    rfl

theorem dropWhile_slash_sane (m : Name) (hm : Sane m) (t : List Char) :
    (m ++ t).dropWhile (· == '/') = m ++ t := by
  cases m with
  | nil => exact absurd rfl hm.1
  | cons c r =>
    have : c ≠ '/' := hm.2 c List.mem_cons_self
    simp [List.dropWhile, this]

theorem stripSlash_sl (m : Name) (r : List Name) (h : ∀ x ∈ m :: r, Sane x) :
    stripSlash (sl (m :: r)) = m ++ sl r := by
  unfold stripSlash
  have h1 : (sl (m :: r)).dropWhile (· == '/') = m ++ sl r := by
    have : sl (m :: r) = '/' :: (m ++ sl r) := rfl
    rw [this, List.dropWhile_cons_of_pos (by simp)]
    exact dropWhile_slash_sane m (h m List.mem_cons_self) _
  rw [h1]
  -- the last character is not a separator
  have hne : m ++ sl r ≠ [] := by
    have := (h m List.mem_cons_self).1
    simp [this]
  have hlast : (m ++ sl r).getLast? ≠ some '/' := by
    have := sl_noTrail (m :: r) h
    have e : sl (m :: r) = ['/'] ++ (m ++ sl r) := rfl
    rw [e, getLast?_append_of_ne_nil _ _ hne] at this
    exact this
  cases hrev : (m ++ sl r).reverse with
  | nil => exact absurd (List.reverse_eq_nil_iff.1 hrev) hne
  | cons c t =>
    have hx : m ++ sl r = t.reverse ++ [c] := by
      have := congrArg List.reverse hrev; simpa using this
    have hc : c ≠ '/' := by
      intro hc
      apply hlast
      rw [hx, hc]; simp
    rw [List.dropWhile_cons_of_neg (by simpa using hc), ← hrev, List.reverse_reverse]

/-- the loop over `m.groups()` for one group whose span is `M = /m₁/…/m_k` standing between `J` and
    a remainder `R` of at least two characters -/
theorem fsGroups_mid (fs : FS) (J R : List Char) (mid : List Name) (hmid : ∀ x ∈ mid, Sane x) (hR : 2 ≤ R.length) :
    fsGroups fs (J ++ (sl mid ++ R)) [some (J.length, J.length + (sl mid).length)] = noLinks fs J mid := by
  have htake : ((J ++ (sl mid ++ R)).take (J.length + (sl mid).length)).drop J.length = sl mid := by
    rw [← List.append_assoc, List.take_left' (by simp), List.drop_left' rfl]
  simp only [fsGroups, htake]
  cases mid with
  | nil => simp [sl, noLinks]
  | cons m r =>
    have hne : (sl (m :: r)).isEmpty = false := by simp [sl]
    simp only [hne, Bool.false_eq_true, if_false]
    have hatEnd : decide ((((J.length + (sl (m :: r)).length : Nat) : Int)) ≥ ((J ++ (sl (m :: r) ++ R)).length : Int) - 1) = false := by
      simp only [List.length_append, decide_eq_false_iff_not]
      omega
    rw [hatEnd, stripSlash_sl m r hmid, splitSlash_join m r hmid, fsPieces_false]
    have : (J ++ (sl (m :: r) ++ R)).take J.length = J := List.take_left' rfl
    rw [this]
    cases noLinks fs J (m :: r) <;> simp [fsGroups]

/-- **`_fs_match` with one `**` group whose span is determined.**  If every accepting run of `r` on `s`
    binds exactly group 1, to the span of `/m₁/…/m_k` between `J` and `R` (`|R| ≥ 2`), then
    `_fs_match(s)` (no FOLLOW) = "the regex matches ∧ none of `J/m₁`, `J/m₁/m₂`, … is a link". -/
theorem fsMatch_one_glob (fs : FS) (r : Re) (hok : r.repOK = true) (hn : r.ncaps = 1) (J R : List Char)
    (mid : List Name) (hmid : ∀ x ∈ mid, Sane x) (hR : 2 ≤ R.length)
    (hrun : ∀ (b : Bool) (cs : Caps), Re.MC ⟨false, false⟩ r 0 ⟨true, J ++ (sl mid ++ R)⟩ [] ⟨b, []⟩ cs →
      cs = [(1, (sl mid ++ R).length, R.length)]) :
    fsMatch fs r (J ++ (sl mid ++ R)) false = true ↔
      r.FullMatch (J ++ (sl mid ++ R)) ∧ noLinks fs J mid = true := by
  have hspans : ∀ spans, r.fullmatchCap (J ++ (sl mid ++ R)) = some spans →
      spans = [some (J.length, J.length + (sl mid).length)] := by
    intro spans hs
    obtain ⟨b, cs, hmc, rfl⟩ := Re.fullmatchCap_MC r _ hok spans hs
    rw [hrun b cs hmc, hn]
    simp only [Re.spansOf, List.range_one, List.map_cons, List.map_nil, Nat.zero_add, List.find?, BEq.rfl,
      List.length_append]
    congr 3 <;> omega
  rw [C04cap.fsMatch_iff]
  constructor
  · rintro ⟨spans, hs, hg⟩
    have hsp := hspans spans hs
    subst hsp
    refine ⟨(Re.fullmatchCap_isSome_iff r _ hok).mp (by rw [hs]; rfl), ?_⟩
    rcases hg with hg | hg
    · cases hg
    · rw [fsGroups_mid fs J R mid hmid hR] at hg; exact hg
  · rintro ⟨hfm, hnl⟩
    have := (Re.fullmatchCap_isSome_iff r _ hok).mpr hfm
    cases hs : r.fullmatchCap (J ++ (sl mid ++ R)) with
    | none => rw [hs] at this; cases this
    | some spans =>
      refine ⟨spans, rfl, Or.inr ?_⟩
      rw [hspans spans hs, fsGroups_mid fs J R mid hmid hR]
      exact hnl

/-! ### a globstar at the END of the pattern (after the D7 repair: `at_end = m.end(i) >= end`) -/

/-- the per-piece loop when the group reaches the end of the path: the last piece is exempt -/
theorem fsPieces_true (fs : FS) : ∀ (parts : List Name) (j last : Nat) (base : List Char),
    j + parts.length = last + 1 → (fsPieces fs true parts j last base).2 = noLinks fs base parts.dropLast := by
  intro parts
  induction parts with
  | nil => intro _ _ _ _; rfl
  | cons p r ih =>
    intro j last base hj
    cases r with
    | nil =>
      have : j = last := by simp at hj; omega
      subst this
      simp [fsPieces, noLinks]
    | cons q r' =>
      have hne : (j != last) = true := by simp at hj ⊢; omega
      simp only [fsPieces, Bool.not_true, Bool.false_or, hne, Bool.true_and, List.dropLast_cons₂, noLinks]
      cases fs.islink (pjoin base p)
      · simp only [Bool.false_eq_true, if_false, Bool.not_false, Bool.true_and]
        exact ih (j + 1) last (pjoin base p) (by simp at hj ⊢; omega)
      · simp

theorem stripSlash_sl_slash (m : Name) (r : List Name) (h : ∀ x ∈ m :: r, Sane x) :
    stripSlash (sl (m :: r) ++ ['/']) = m ++ sl r := by
  unfold stripSlash
  have h1 : (sl (m :: r) ++ ['/']).dropWhile (· == '/') = m ++ (sl r ++ ['/']) := by
    have : sl (m :: r) ++ ['/'] = '/' :: (m ++ (sl r ++ ['/'])) := by simp [sl]
    rw [this, List.dropWhile_cons_of_pos (by simp)]
    exact dropWhile_slash_sane m (h m List.mem_cons_self) _
  rw [h1]
  have e : (m ++ (sl r ++ ['/'])).reverse = '/' :: (m ++ sl r).reverse := by simp
  rw [e, List.dropWhile_cons_of_pos (by simp)]
  -- as in `stripSlash_sl`: the last character of `m ++ sl r` is not a separator
  have hne : m ++ sl r ≠ [] := by
    have := (h m List.mem_cons_self).1
    simp [this]
  have hlast : (m ++ sl r).getLast? ≠ some '/' := by
    have := sl_noTrail (m :: r) h
    have e : sl (m :: r) = ['/'] ++ (m ++ sl r) := rfl
    rw [e, getLast?_append_of_ne_nil _ _ hne] at this
    exact this
  cases hrev : (m ++ sl r).reverse with
  | nil => exact absurd (List.reverse_eq_nil_iff.1 hrev) hne
  | cons c t =>
    have hx : m ++ sl r = t.reverse ++ [c] := by
      have := congrArg List.reverse hrev; simpa using this
    have hc : c ≠ '/' := by
      intro hc
      apply hlast
      rw [hx, hc]; simp
    rw [List.dropWhile_cons_of_neg (by simpa using hc), ← hrev, List.reverse_reverse]

/-- the loop over `m.groups()` for one group that starts after `J` and reaches the end of the path
    `J/m₁/…/m_k[/]` (`l2 = 0`) or stops just before its final separator (`l2 = 1`): in both cases the
    pieces but the last one are tested -/
theorem fsGroups_end (fs : FS) (J : List Char) (ms : List Name) (hms : ∀ x ∈ ms, Sane x) (tl : List Char)
    (htl : tl = [] ∨ tl = ['/']) (l2 : Nat) (hl2 : l2 = 0 ∨ (tl = ['/'] ∧ l2 = 1)) :
    fsGroups fs (J ++ (sl ms ++ tl)) [some (J.length, (J ++ (sl ms ++ tl)).length - l2)] =
      noLinks fs J ms.dropLast := by
  -- the captured text
  obtain ⟨tl', htl', hstar⟩ : ∃ tl', (tl' = [] ∨ tl' = ['/']) ∧
      ((J ++ (sl ms ++ tl)).take ((J ++ (sl ms ++ tl)).length - l2)).drop J.length = sl ms ++ tl' := by
    rcases hl2 with rfl | ⟨rfl, rfl⟩
    · refine ⟨tl, htl, ?_⟩
      rw [Nat.sub_zero, List.take_length, List.drop_left' rfl]
    · refine ⟨[], Or.inl rfl, ?_⟩
      have e : J ++ (sl ms ++ ['/']) = (J ++ sl ms) ++ ['/'] := by simp
      rw [e, List.length_append, List.length_singleton, Nat.add_sub_cancel, List.take_left' rfl,
        List.drop_left' rfl, List.append_nil]
  have hatEnd : decide ((((J ++ (sl ms ++ tl)).length - l2 : Nat) : Int) ≥ ((J ++ (sl ms ++ tl)).length : Int) - 1) = true := by
    rw [decide_eq_true_iff]
    rcases hl2 with rfl | ⟨_, rfl⟩ <;> omega
  have htk : (J ++ (sl ms ++ tl)).take J.length = J := List.take_left' rfl
  simp only [fsGroups, hstar, hatEnd, htk]
  cases ms with
  | nil =>
    rcases htl' with rfl | rfl
    · simp [sl, noLinks]
    · simp [sl, noLinks, stripSlash, splitSlash, fsPieces, fsGroups]
  | cons m r =>
    have hne : (sl (m :: r) ++ tl').isEmpty = false := by simp [sl]
    have hstrip : stripSlash (sl (m :: r) ++ tl') = m ++ sl r := by
      rcases htl' with rfl | rfl
      · rw [List.append_nil]; exact stripSlash_sl m r hms
      · exact stripSlash_sl_slash m r hms
    simp only [hne, Bool.false_eq_true, if_false, hstrip, splitSlash_join m r hms]
    rw [fsPieces_true fs (m :: r) 1 (m :: r).length J (by omega)]
    cases noLinks fs J (m :: r).dropLast <;> simp [fsGroups]

/-- **`_fs_match` with one `**` group at the end of the pattern.**  If every accepting run of `r` on
    `J/m₁/…/m_k[/]` binds exactly group 1, from after `J` to the end or to just before the final
    separator, then `_fs_match` (no FOLLOW) = "the regex matches ∧ none of `J/m₁`, …, `J/m₁/…/m_{k-1}`
    is a link" — whichever of the two spans `re.fullmatch` reports (D7 repair). -/
theorem fsMatch_end_glob (fs : FS) (r : Re) (hok : r.repOK = true) (hn : r.ncaps = 1) (J : List Char)
    (ms : List Name) (hms : ∀ x ∈ ms, Sane x) (tl : List Char) (htl : tl = [] ∨ tl = ['/'])
    (hrun : ∀ (b : Bool) (cs : Caps), Re.MC ⟨false, false⟩ r 0 ⟨true, J ++ (sl ms ++ tl)⟩ [] ⟨b, []⟩ cs →
      ∃ l2, (l2 = 0 ∨ (tl = ['/'] ∧ l2 = 1)) ∧ cs = [(1, (sl ms ++ tl).length, l2)]) :
    fsMatch fs r (J ++ (sl ms ++ tl)) false = true ↔
      r.FullMatch (J ++ (sl ms ++ tl)) ∧ noLinks fs J ms.dropLast = true := by
  have hspans : ∀ spans, r.fullmatchCap (J ++ (sl ms ++ tl)) = some spans →
      ∃ l2, (l2 = 0 ∨ (tl = ['/'] ∧ l2 = 1)) ∧
        spans = [some (J.length, (J ++ (sl ms ++ tl)).length - l2)] := by
    intro spans hs
    obtain ⟨b, cs, hmc, rfl⟩ := Re.fullmatchCap_MC r _ hok spans hs
    obtain ⟨l2, hl2, hcs⟩ := hrun b cs hmc
    refine ⟨l2, hl2, ?_⟩
    rw [hcs, hn]
    simp only [Re.spansOf, List.range_one, List.map_cons, List.map_nil, Nat.zero_add, List.find?, BEq.rfl,
      List.length_append]
    congr 3
    omega
  rw [C04cap.fsMatch_iff]
  constructor
  · rintro ⟨spans, hs, hg⟩
    obtain ⟨l2, hl2, rfl⟩ := hspans spans hs
    refine ⟨(Re.fullmatchCap_isSome_iff r _ hok).mp (by rw [hs]; rfl), ?_⟩
    rcases hg with hg | hg
    · cases hg
    · rw [fsGroups_end fs J ms hms tl htl l2 hl2] at hg; exact hg
  · rintro ⟨hfm, hnl⟩
    have := (Re.fullmatchCap_isSome_iff r _ hok).mpr hfm
    cases hs : r.fullmatchCap (J ++ (sl ms ++ tl)) with
    | none => rw [hs] at this; cases this
    | some spans =>
      obtain ⟨l2, hl2, rfl⟩ := hspans spans hs
      refine ⟨_, rfl, Or.inr ?_⟩
      rw [fsGroups_end fs J ms hms tl htl l2 hl2]
      exact hnl

end WcModel.Bridge

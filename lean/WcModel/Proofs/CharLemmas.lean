import WcModel.Model.Regex
import WcModel.Spec.Lang
import WcModel.Model.Posix
/-
  Small facts about ASCII case folding and about the POSIX tables.
-/
namespace WcModel

theorem toNat_ofNat_small (n : Nat) (h : n < 0xd800) : (Char.ofNat n).toNat = n := by
  have hv : n.isValidChar := Or.inl h
  simp [Char.ofNat, hv, Char.ofNatAux, Char.toNat]

/-- not an ASCII letter -/
def nonLetter (c : Char) : Prop := c.toNat < 65 ∨ (90 < c.toNat ∧ c.toNat < 97) ∨ 122 < c.toNat

theorem asciiLower_eq_nonLetter {c : Char} (hc : nonLetter c) (d : Char) : asciiLower d = c ↔ d = c := by
  unfold asciiLower
  split
  · rename_i h
    have h1 : 65 ≤ d.toNat := by have := h.1; rw [Char.le_def] at this; exact this
    have h2 : d.toNat ≤ 90 := by have := h.2; rw [Char.le_def] at this; exact this
    constructor
    · intro he
      have := congrArg Char.toNat he
      rw [toNat_ofNat_small _ (by omega)] at this
      unfold nonLetter at hc; omega
    · intro he; subst he; unfold nonLetter at hc; omega
  · exact Iff.rfl

theorem asciiUpper_eq_nonLetter {c : Char} (hc : nonLetter c) (d : Char) : asciiUpper d = c ↔ d = c := by
  unfold asciiUpper
  split
  · rename_i h
    have h1 : 97 ≤ d.toNat := by have := h.1; rw [Char.le_def] at this; exact this
    have h2 : d.toNat ≤ 122 := by have := h.2; rw [Char.le_def] at this; exact this
    constructor
    · intro he
      have := congrArg Char.toNat he
      rw [toNat_ofNat_small _ (by omega)] at this
      unfold nonLetter at hc; omega
    · intro he; subst he; unfold nonLetter at hc; omega
  · exact Iff.rfl

theorem nonLetter_dot : nonLetter '.' := by unfold nonLetter; decide

/-- `[c]` for a non-letter `c` accepts exactly `c`, under either case mode -/
theorem clsChr_iff {c : Char} (hc : nonLetter c) (ci e : Bool) (d : Char) :
    clsMatch ci false [.chr c e] d = true ↔ d = c := by
  simp only [clsMatch, List.any_cons, List.any_nil, Bool.or_false, ClsItem.hasCi, ClsItem.has]
  cases ci
  · simp; exact eq_comm
  · simp only [Bool.true_and, bne_iff_ne, ne_eq, Bool.not_eq_false, Bool.or_eq_true, beq_iff_eq]
    constructor
    · rintro (h | h | h)
      · exact h.symm
      · exact (asciiLower_eq_nonLetter hc d).mp h.symm
      · exact (asciiUpper_eq_nonLetter hc d).mp h.symm
    · intro h; exact Or.inl h.symm

/-- `[.]` under either case mode accepts exactly the dot -/
theorem clsDot_iff (ci : Bool) (d : Char) :
    clsMatch ci false [.chr '.' false] d = true ↔ d = '.' := clsChr_iff nonLetter_dot ci false d

/-! ### POSIX tables: the text in posix.py denotes exactly the documented classes -/

def boundedBy (rs : List (Nat × Nat)) (m : Nat) : Bool := rs.all (fun p => p.2 < m)

theorem inRanges_false_of_bounded {rs : List (Nat × Nat)} {m k : Nat} (h : boundedBy rs m = true)
    (hk : m ≤ k) : inRanges rs k = false := by
  unfold inRanges boundedBy at *
  rw [List.all_eq_true] at h
  cases hx : rs.any (fun p => p.1 ≤ k && k ≤ p.2) with
  | false => rfl
  | true =>
    rw [List.any_eq_true] at hx
    obtain ⟨p, hp, hq⟩ := hx
    have := h p hp
    simp at this hq
    omega

def agreeBelow (r₁ r₂ : List (Nat × Nat)) (m : Nat) : Bool :=
  (List.range m).all (fun k => inRanges r₁ k == inRanges r₂ k)

theorem inRanges_eq_of {r₁ r₂ : List (Nat × Nat)} {m : Nat} (h1 : boundedBy r₁ m = true)
    (h2 : boundedBy r₂ m = true) (h3 : agreeBelow r₁ r₂ m = true) (k : Nat) :
    inRanges r₁ k = inRanges r₂ k := by
  by_cases hk : k < m
  · unfold agreeBelow at h3
    rw [List.all_eq_true] at h3
    have := h3 k (List.mem_range.mpr hk)
    simpa using this
  · rw [inRanges_false_of_bounded h1 (by omega), inRanges_false_of_bounded h2 (by omega)]

/-- every positive class of both generated tables, read as Python's `re` reads a class body,
    is bounded by 128 and agrees with the documented ranges on every code point below 128 -/
theorem posix_tables_check :
    ([true, false].all fun b => PosixName.all.all fun n =>
      boundedBy (classTextRanges (posixText b n)) 128 && boundedBy n.ranges 128 &&
      agreeBelow (classTextRanges (posixText b n)) n.ranges 128) = true := by decide +kernel

theorem PosixName.mem_all (n : PosixName) : n ∈ PosixName.all := by cases n <;> simp [PosixName.all]

/-- `posix_table_ok`: for every code point, membership in the generated table text equals
    membership in the documented class (both tables) -/
theorem posix_table_ok (b : Bool) (n : PosixName) (k : Nat) :
    inRanges (classTextRanges (posixText b n)) k = inRanges n.ranges k := by
  have h := posix_tables_check
  rw [List.all_eq_true] at h
  have hb := h b (by cases b <;> simp)
  rw [List.all_eq_true] at hb
  have hn := hb n (PosixName.mem_all n)
  simp only [Bool.and_eq_true] at hn
  exact inRanges_eq_of hn.1.1 hn.1.2 hn.2 k

theorem posixItem_has (b : Bool) (n : PosixName) (d : Char) :
    (posixItem b n).has d = (SCls.posix n).has d := by
  simp only [posixItem, ClsItem.has, SCls.has]
  exact posix_table_ok b n d.toNat

end WcModel

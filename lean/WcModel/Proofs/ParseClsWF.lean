import WcModel.Proofs.SeqWF
import WcModel.Model.WinDrive
/-
  Lifting `Re.ClsWF` from `sequence` to the whole pass: every regex fragment inside the items
  produced by `parseItems` is `ClsWF` (all classes other than those of `sequence` come from the
  constant fragments of `Model/Frag.lean` and from the Windows drive code), and `Parsed.toRe`
  only assembles those fragments.

  Everything is parametric in a switch `fix` and the hypothesis `HSeq fix cfg` ("`sequence` is
  fine on iterators whose text is `QOK fix`"); `C10cls.hseq` instantiates it with `fix = true`
  (the loop after the repair of D29, all texts).
-/
namespace WcModel

/-! ### items -/

mutual
def Item.AllWF : Item → Prop
  | .re r => r.ClsWF
  | .empty => True
  | .bar => True
  | .group _ _ body => Item.AllWFL body
  | .invOpen _ body => Item.AllWFL body
  | .ph star => star.ClsWF
  | .closed tail eop star => Item.AllWFL tail ∧ (∀ e, eop = some e → e.ClsWF) ∧ star.ClsWF
def Item.AllWFL : List Item → Prop
  | [] => True
  | x :: xs => Item.AllWF x ∧ Item.AllWFL xs
end

theorem Item.allWFL_iff (l : List Item) : Item.AllWFL l ↔ ∀ x ∈ l, x.AllWF := by
  induction l with
  | nil => simp [Item.AllWFL]
  | cons x xs ih => simp [Item.AllWFL, ih]

theorem Item.allWFL_append {a b : List Item} (ha : Item.AllWFL a) (hb : Item.AllWFL b) :
    Item.AllWFL (a ++ b) := by
  rw [Item.allWFL_iff] at *
  intro x hx
  rcases List.mem_append.1 hx with h | h
  · exact ha x h
  · exact hb x h

theorem Item.allWFL_reverse {a : List Item} (ha : Item.AllWFL a) : Item.AllWFL a.reverse := by
  rw [Item.allWFL_iff] at *
  intro x hx
  exact ha x (List.mem_reverse.1 hx)

theorem Item.allWFL_cons {x : Item} {a : List Item} (hx : x.AllWF) (ha : Item.AllWFL a) :
    Item.AllWFL (x :: a) := ⟨hx, ha⟩

mutual
theorem Item.eraseCap_wf : ∀ x : Item, x.AllWF → x.eraseCap.AllWF
  | .group _ _ body, h => by
    simp only [Item.eraseCap, Item.AllWF] at h ⊢
    exact Item.eraseCapL_wf body h
  | .invOpen _ body, h => by
    simp only [Item.eraseCap, Item.AllWF] at h ⊢
    exact Item.eraseCapL_wf body h
  | .closed tail _ _, h => by
    simp only [Item.eraseCap, Item.AllWF] at h ⊢
    exact ⟨Item.eraseCapL_wf tail h.1, h.2⟩
  | .re _, h => by simpa [Item.eraseCap] using h
  | .empty, h => by simpa [Item.eraseCap] using h
  | .bar, h => by simpa [Item.eraseCap] using h
  | .ph _, h => by simpa [Item.eraseCap] using h
theorem Item.eraseCapL_wf : ∀ l : List Item, Item.AllWFL l → Item.AllWFL (Item.eraseCapL l)
  | [], _ => by simp [Item.eraseCapL, Item.AllWFL]
  | x :: xs, h => by
    simp only [Item.eraseCapL, Item.AllWFL] at h ⊢
    exact ⟨Item.eraseCap_wf x h.1, Item.eraseCapL_wf xs h.2⟩
end

theorem Cfg.eop_clsWF (cfg : Cfg) : cfg.eop.ClsWF := by
  unfold Cfg.eop; split
  · exact Frag.pathEop_clsWF _
  · trivial

theorem Cfg.needChar_clsWF (cfg : Cfg) : cfg.needChar.ClsWF := by
  unfold Cfg.needChar; split
  · exact Frag.needCharPath_clsWF _
  · exact Frag.needChar_clsWF

theorem cleanUpGo_wf (cfg : Cfg) (nested : Bool) : ∀ (rev done : List Item) (n : Nat),
    Item.AllWFL rev → Item.AllWFL done → Item.AllWFL (cleanUpGo cfg nested rev done n).1 := by
  intro rev
  induction rev with
  | nil => intro done n _ hd; simpa [cleanUpGo] using hd
  | cons x rest ih =>
    intro done n hr hd
    have hx : x.AllWF := hr.1
    have hrest : Item.AllWFL rest := hr.2
    cases x with
    | ph star =>
      simp only [cleanUpGo]
      refine ih _ _ hrest ⟨?_, hd⟩
      simp only [Item.AllWF]
      refine ⟨?_, ?_, hx⟩
      · split
        · exact Item.eraseCapL_wf _ hd
        · exact hd
      · intro e he
        split at he
        · cases he
        · cases he; exact cfg.eop_clsWF
    | re r => simp only [cleanUpGo]; exact ih _ _ hrest ⟨hx, hd⟩
    | empty => simp only [cleanUpGo]; exact ih _ _ hrest ⟨hx, hd⟩
    | bar => simp only [cleanUpGo]; exact ih _ _ hrest ⟨hx, hd⟩
    | group k c b => simp only [cleanUpGo]; exact ih _ _ hrest ⟨hx, hd⟩
    | invOpen c b => simp only [cleanUpGo]; exact ih _ _ hrest ⟨hx, hd⟩
    | closed t e s => simp only [cleanUpGo]; exact ih _ _ hrest ⟨hx, hd⟩

theorem cleanUpInverse_wf (cfg : Cfg) (ps : PS) (cur : List Item) (nested : Bool)
    (h : Item.AllWFL cur) : Item.AllWFL (cleanUpInverse cfg ps cur nested).1 := by
  unfold cleanUpInverse
  split
  · exact h
  · exact Item.allWFL_reverse (cleanUpGo_wf cfg nested cur [] 0 h trivial)

/-! ### iterators -/

/-- the text left in the iterator is acceptable for `sequence` -/
def OKI (fix : Bool) (it : It) : Prop := QOK fix it.rest

theorem OKI.next {fix : Bool} {it it' : It} {c : Char} (h : OKI fix it)
    (hn : it.next = some (c, it')) : OKI fix it' := by
  unfold OKI at *
  rw [(It.next_some hn).1] at h
  exact QOK.suffix [c] h

theorem OKI.advance {fix : Bool} {it : It} (h : OKI fix it) (n : Nat) : OKI fix (it.advance n) := by
  unfold OKI It.advance at *
  have := List.take_append_drop n it.rest
  rw [← this] at h
  exact QOK.suffix _ h

theorem dropWhileCount_suffix (c : Char) : ∀ (l : List Char) (n : Nat),
    ∃ pre, l = pre ++ (dropWhileCount c l n).2
  | [], n => ⟨[], by simp [dropWhileCount]⟩
  | d :: r, n => by
    unfold dropWhileCount
    split
    · obtain ⟨pre, hp⟩ := dropWhileCount_suffix c r (n + 1)
      exact ⟨d :: pre, by rw [List.cons_append, ← hp]⟩
    · exact ⟨[], rfl⟩

theorem OKI.consumeUnix {fix : Bool} {it : It} (h : OKI fix it) : OKI fix (consumeUnix it) := by
  unfold OKI WcModel.consumeUnix at *
  obtain ⟨pre, hp⟩ := dropWhileCount_suffix '/' it.rest it.idx
  rw [hp] at h
  exact QOK.suffix pre h

theorem OKI.consumeWin {fix : Bool} : ∀ (fuel : Nat) (it prev : It) (count : Int),
    OKI fix it → OKI fix prev → OKI fix (consumeWin fuel it prev count) := by
  intro fuel
  induction fuel with
  | zero => intro it prev count h _; simpa [WcModel.consumeWin] using h
  | succ n ih =>
    intro it prev count h hp
    unfold WcModel.consumeWin
    split
    · exact h
    · rename_i c it' hn
      have h' := h.next hn
      split
      · exact ih _ _ _ h' h
      · split
        · exact ih _ _ _ h' h
        · split
          · exact hp
          · exact h

theorem OKI.consumePathSep {fix : Bool} (cfg : Cfg) {it : It} (h : OKI fix it) :
    OKI fix (consumePathSep cfg it) := by
  unfold WcModel.consumePathSep
  split
  · exact OKI.consumeWin _ _ _ _ h h
  · exact h.consumeUnix

theorem OKI.dropStars {fix : Bool} (ext : Bool) {it : It} (h : OKI fix it) :
    OKI fix (dropStars ext it) := by
  unfold WcModel.dropStars
  obtain ⟨pre, hp⟩ := dropWhileCount_suffix '*' it.rest it.idx
  have h2 : QOK fix (dropWhileCount '*' it.rest it.idx).2 := by
    unfold OKI at h
    rw [hp] at h
    exact QOK.suffix pre h
  dsimp only
  split
  · exact QOK.cons_ne h2 (by decide)
  · exact h2


/-! ### `_handle_star`, cut into three pieces -/

/-- the fragments chosen at the top of `handleStar` -/
def hsStars (cfg : Cfg) (ps : PS) : Re × Re :=
  let win := cfg.win
  if cfg.pathname then
    if ps.afterStart && !cfg.dot then (Frag.pathStarDot2 win, Frag.pathGstarDot2 win)
    else if ps.afterStart then (Frag.pathStarDot1 win, Frag.pathGstarDot1 win)
    else (Frag.pathStar win, Frag.pathGstarDot1 win)
  else
    if ps.afterStart && !cfg.dot then (.cat Frag.noDot Frag.star, .eps)
    else (Frag.star, .eps)

/-- the look-ahead for a second / third star -/
def hsPeek (cfg : Cfg) (capture0 : Bool) (it : It) : Bool × Bool × It × It :=
  match it.next with
  | none => (true, capture0, it, it)
  | some (c, it1) =>
    if c != '*' then (true, capture0, it, it)
    else if cfg.globstarlong then
      match it1.next with
      | none => (false, capture0, it1, it)
      | some (c2, it2) => if c2 != '*' then (false, capture0, it1, it) else (false, false, it2, it1)
    else (false, capture0, it1, it)

def hsSelCls (cfg : Cfg) (ps : PS) (it : It) : Bool × Bool × It × PS :=
  let capture0 := cfg.pathname && cfg.globstarCapture
  if ps.afterStart && ps.globstar && !ps.inList then
    let (skip, capture, it, prev) := hsPeek cfg capture0 it
    if skip then (false, capture, it, ps)
    else
      match it.next with
      | none => (true, capture, it, ps)
      | some (c, it1) =>
        if c = '\\' then
          match referencesSeq cfg it1 with
          | .val _ _ => (false, capture, it, ps)
          | .dot _ => (false, capture, it, ps)
          | .pathname => (true, capture, it1.advance 1, { ps with matchbase := false })
          | .stop => (true, capture, it1, ps)
        else if c = '/' then (true, capture, it1, { ps with matchbase := false })
        else if c = '(' && cfg.extend then (false, capture, prev, ps)
        else (false, capture, it, ps)
  else (false, capture0, it, ps)

def hsFinish (cfg : Cfg) (cur : List Item) (sg : Re × Re) (sel : Bool × Bool × It × PS) :
    PS × It × List Item :=
  let win := cfg.win
  let (star, globstar) := sg
  let (isGlob, capture, it, ps) := sel
  let globstar := if capture then Re.gcap globstar else globstar
  if !isGlob then
    let (value, it) :=
      if ps.afterStart then (Re.cat cfg.needChar star, dropStars cfg.extend it) else (star, it)
    (ps.resetDirTrack, it, .re value :: cur)
  else
    let ps := ps.resetDirTrack
    match cur with
    | last :: before =>
      if last.isDiv win then (ps.setStartDir, consumePathSep cfg it, cur)
      else
        let cur := if last.isEmpty then .re globstar :: before
                   else .re globstar :: .re (Frag.needSep win) :: before
        let it := consumePathSep cfg it
        (ps.setStartDir, it, .re (Frag.globstarDiv win) :: cur)
    | [] => (ps.setStartDir, it, cur)

theorem handleStar_eq_cls (cfg : Cfg) (ps : PS) (it : It) (cur : List Item) :
    handleStar cfg ps it cur = hsFinish cfg cur (hsStars cfg ps) (hsSelCls cfg ps it) := by
  rfl

theorem hsStars_wf (cfg : Cfg) (ps : PS) : (hsStars cfg ps).1.ClsWF ∧ (hsStars cfg ps).2.ClsWF := by
  unfold hsStars
  dsimp only
  split
  · split
    · exact ⟨Frag.pathStarDot2_clsWF _, Frag.pathGstarDot2_clsWF _⟩
    · split
      · exact ⟨Frag.pathStarDot1_clsWF _, Frag.pathGstarDot1_clsWF _⟩
      · exact ⟨Frag.pathStar_clsWF _, Frag.pathGstarDot1_clsWF _⟩
  · split
    · exact ⟨⟨Frag.noDot_clsWF, Frag.star_clsWF⟩, trivial⟩
    · exact ⟨Frag.star_clsWF, trivial⟩

theorem hsPeek_oki {fix : Bool} (cfg : Cfg) (c0 : Bool) {it : It} (h : OKI fix it) :
    OKI fix (hsPeek cfg c0 it).2.2.1 ∧ OKI fix (hsPeek cfg c0 it).2.2.2 := by
  unfold hsPeek
  split
  · exact ⟨h, h⟩
  · rename_i c it1 hn
    have h1 := h.next hn
    split
    · exact ⟨h, h⟩
    · split
      · split
        · exact ⟨h1, h⟩
        · rename_i c2 it2 hn2
          split
          · exact ⟨h1, h⟩
          · exact ⟨h1.next hn2, h1⟩
      · exact ⟨h1, h⟩

theorem hsSel_oki {fix : Bool} (cfg : Cfg) (ps : PS) {it : It} (h : OKI fix it) :
    OKI fix (hsSelCls cfg ps it).2.2.1 := by
  unfold hsSelCls
  dsimp only
  split
  · obtain ⟨ha, hb⟩ := hsPeek_oki cfg (cfg.pathname && cfg.globstarCapture) h
    rcases hpk : hsPeek cfg (cfg.pathname && cfg.globstarCapture) it with ⟨skip, capture, it2, prev⟩
    rw [hpk] at ha hb
    dsimp only at ha hb ⊢
    split
    · exact ha
    · split
      · exact ha
      · rename_i c it1 hn
        have h1 := ha.next hn
        split
        · split
          · exact ha
          · exact ha
          · exact h1.advance 1
          · exact h1
        · split
          · exact h1
          · split
            · exact hb
            · exact ha
  · exact h

theorem hsFinish_oki {fix : Bool} (cfg : Cfg) (cur : List Item) (sg : Re × Re)
    (sel : Bool × Bool × It × PS) (h : OKI fix sel.2.2.1) : OKI fix (hsFinish cfg cur sg sel).2.1 := by
  obtain ⟨isGlob, capture, it, ps⟩ := sel
  obtain ⟨star, globstar⟩ := sg
  unfold hsFinish
  dsimp only at h ⊢
  split
  · split
    · exact h.dropStars _
    · exact h
  · split
    · split
      · exact h.consumePathSep cfg
      · exact h.consumePathSep cfg
    · exact h

theorem hsFinish_wf (cfg : Cfg) (cur : List Item) (sg : Re × Re)
    (sel : Bool × Bool × It × PS) (hs : sg.1.ClsWF ∧ sg.2.ClsWF) (hc : Item.AllWFL cur) :
    Item.AllWFL (hsFinish cfg cur sg sel).2.2 := by
  obtain ⟨isGlob, capture, it, ps⟩ := sel
  obtain ⟨star, globstar⟩ := sg
  unfold hsFinish
  dsimp only at hs ⊢
  have hg : (if capture = true then Re.gcap globstar else globstar).ClsWF := by
    split
    · exact hs.2
    · exact hs.2
  split
  · split
    · exact ⟨⟨cfg.needChar_clsWF, hs.1⟩, hc⟩
    · exact ⟨hs.1, hc⟩
  · split
    · rename_i last before
      split
      · exact hc
      · refine ⟨Frag.globstarDiv_clsWF _, ?_⟩
        split
        · exact ⟨hg, hc.2⟩
        · exact ⟨hg, Frag.needSep_clsWF _, hc.2⟩
    · exact hc

theorem handleStar_oki {fix : Bool} (cfg : Cfg) (ps : PS) {it : It} (cur : List Item)
    (h : OKI fix it) : OKI fix (handleStar cfg ps it cur).2.1 := by
  rw [handleStar_eq_cls]
  exact hsFinish_oki cfg cur _ _ (hsSel_oki cfg ps h)

theorem handleStar_wf (cfg : Cfg) (ps : PS) (it : It) {cur : List Item}
    (h : Item.AllWFL cur) : Item.AllWFL (handleStar cfg ps it cur).2.2 := by
  rw [handleStar_eq_cls]
  exact hsFinish_wf cfg cur _ _ (hsStars_wf cfg ps) h


/-! ### small pieces -/

/-- what the pass needs from `sequence` -/
def HSeq (fix : Bool) (cfg : Cfg) : Prop :=
  ∀ (ps : PS) (it : It) (r : Re) (ps' : PS) (it' : It), OKI fix it →
    sequence cfg ps it = some (r, ps', it') → r.ClsWF ∧ OKI fix it'

theorem restrictExtendedSlash_wf (cfg : Cfg) (g : Re) (h : restrictExtendedSlash cfg = some g) :
    g.ClsWF := by
  unfold restrictExtendedSlash at h
  split at h
  · cases h; exact Frag.seqPath_clsWF _
  · cases h

theorem references_val {fix : Bool} {cfg : Cfg} {ps ps' : PS} {it it' : It} {v : Re}
    (h : references cfg ps it = .val v it' ps') (hi : OKI fix it) : v.ClsWF ∧ OKI fix it' := by
  unfold references at h
  split at h
  · cases h
  · rename_i c it1 hn
    have h1 := hi.next hn
    have hsep : ∀ (q : PS),
        (if (!q.inList) = true then (Frag.sepPlus cfg.win, q.setStartDir)
         else (match restrictExtendedSlash cfg with
               | some g => Re.cat g (Frag.sep cfg.win)
               | none => Frag.sep cfg.win, q)).1.ClsWF := by
      intro q
      split
      · exact Frag.sepPlus_clsWF _
      · dsimp only
        split
        · rename_i g hg
          exact ⟨restrictExtendedSlash_wf cfg g hg, Frag.sep_clsWF _⟩
        · exact Frag.sep_clsWF _
    dsimp only at h
    split at h
    · split at h
      · cases h; exact ⟨hsep ps, h1⟩
      · split at h
        · cases h; exact ⟨Frag.sep_clsWF _, h1⟩
        · cases h; exact ⟨trivial, h1⟩
    · split at h
      · split at h
        · cases h; exact ⟨hsep ps, h1⟩
        · cases h; exact ⟨Frag.sep_clsWF _, h1⟩
      · split at h
        · cases h
        · cases h; exact ⟨trivial, h1⟩

theorem references_dot {fix : Bool} {cfg : Cfg} {ps : PS} {it it' : It}
    (h : references cfg ps it = .dot it') (hi : OKI fix it) : OKI fix it' := by
  unfold references at h
  split at h
  · cases h
  · dsimp only at h
    repeat' split at h
    all_goals first | (cases h; done) | (cases h; exact hi)

theorem handleDot_wf (cfg : Cfg) (ps : PS) (it : It) : (handleDot cfg ps it).ClsWF := by
  unfold handleDot
  dsimp only
  repeat' split
  all_goals first | exact Frag.guardedDot_clsWF _ | trivial

theorem qmarkItem_wf (cfg : Cfg) (ps : PS) : (qmarkItem cfg ps).1.AllWF := by
  unfold qmarkItem
  dsimp only
  exact catE_clsWF (restrictSequence_clsWF cfg ps) Frag.qmark_clsWF


/-! ### `parse_extend` -/

def ExtOK (fix : Bool) (cfg : Cfg) (fuel : Nat) : Prop :=
  ∀ (lt : Char) (it : It) (ps : PS) (cur : List Item) (rd : Bool) (b : Bool) (ps' : PS) (it' : It)
    (cur' : List Item), OKI fix it → Item.AllWFL cur →
    parseExtend cfg fuel lt it ps cur rd = (b, ps', it', cur') → OKI fix it' ∧ Item.AllWFL cur'

def ExtLoopOK (fix : Bool) (cfg : Cfg) (fuel : Nat) : Prop :=
  ∀ (it : It) (ps : PS) (ext : List Item) (ta tn : Bool) (ps' : PS) (it' : It) (ext' : List Item),
    OKI fix it → Item.AllWFL ext →
    extLoop cfg fuel it ps ext ta tn = .ok (ps', it', ext') → OKI fix it' ∧ Item.AllWFL ext'

theorem pe_step (fix : Bool) (cfg : Cfg) (n : Nat) (ihE : ExtLoopOK fix cfg n) : ExtOK fix cfg (n+1) := by
  intro lt it ps cur rd b ps' it' cur' hi hc h
  unfold parseExtend at h
  extract_lets tDirStart tAfterStart tInList tInvExt tInvNest ps1 ps2 index finish fail at h
  have hfail : ∀ q, fail q = (b, ps', it', cur') → OKI fix it' ∧ Item.AllWFL cur' := by
    intro q hq
    have h1 : it = it' := congrArg (·.2.2.1) hq
    have h2 : cur = cur' := congrArg (·.2.2.2) hq
    subst h1 h2
    exact ⟨hi, hc⟩
  split at h
  · exact hfail _ h
  · rename_i c it1 hn
    split at h
    · exact hfail _ h
    · split at h
      · exact hfail _ h
      · rename_i ps3 it3 extended hext
        obtain ⟨hi3, he3⟩ := ihE it1 _ [] _ _ _ _ _ (hi.next hn) (by trivial) hext
        have hbody : Item.AllWFL extended.reverse := Item.allWFL_reverse he3
        extract_lets body ps6 star1 star2 at h
        split at h
        rename_i cur1 ps4 hX
        split at h
        rename_i cur2 ps5 hY
        have h1 : it3 = it' := congrArg (·.2.2.1) h
        have h2 : cur2 = cur' := congrArg (·.2.2.2) h
        subst h1 h2
        refine ⟨hi3, ?_⟩
        have hstar : star2.ClsWF := by
          have h1 : star1.ClsWF := by
            show Re.ClsWF (if _ then _ else _)
            repeat' split
            all_goals first
              | exact Frag.pathStar_clsWF _ | exact Frag.pathStarDot2_clsWF _
              | exact Frag.pathStarDot1_clsWF _ | exact Frag.star_clsWF
              | exact ⟨Frag.noDot_clsWF, Frag.star_clsWF⟩
          show Re.ClsWF (if _ then _ else _)
          split
          · exact ⟨cfg.needChar_clsWF, h1⟩
          · exact h1
        have hc1 : Item.AllWFL cur1 := by
          repeat' split at hX
          all_goals
            cases hX
            first
              | exact ⟨hbody, hc⟩
              | exact ⟨hstar, hbody, hc⟩
        split at hY
        · have := cleanUpInverse_wf cfg ps4 cur1 (tInvNest && ps4.invNest) hc1
          rw [hY] at this
          exact this
        · cases hY
          exact hc1

theorem el_step (fix : Bool) (cfg : Cfg) (hseq : HSeq fix cfg) (n : Nat) (ihP : ExtOK fix cfg n)
    (ihE : ExtLoopOK fix cfg n) : ExtLoopOK fix cfg (n+1) := by
  intro it ps ext ta tn ps' it' ext' hi hc h
  unfold extLoop at h
  split at h
  · cases h
  · rename_i c it1 hn
    have hi1 := hi.next hn
    extract_lets continue_ extRes at h
    have hcont : ∀ q i e u, OKI fix i → Item.AllWFL e → continue_ q i e u = .ok (ps', it', ext') →
        OKI fix it' ∧ Item.AllWFL ext' := by
      intro q i e u hi' he' hk
      simp only [continue_] at hk
      split at hk
      · cases hk; exact ⟨hi', he'⟩
      · exact ihE _ _ _ _ _ _ _ _ hi' he' hk
    clear_value continue_
    generalize hER : extRes = er at h
    simp only [extRes] at hER
    clear extRes
    split at h
    · rename_i ps2 it2 ext2
      split at hER
      · simp only [Option.some.injEq] at hER
        obtain ⟨hi2, he2⟩ := ihP _ _ _ _ _ _ _ _ _ hi1 hc hER
        exact (fun a b => hcont _ _ _ _ a b h) hi2 he2
      · cases hER
    · extract_lets psq at h
      clear_value psq
      split at h
      · -- star
        have h1 := handleStar_oki (fix := fix) cfg psq ext hi1
        have h2 := handleStar_wf cfg psq it1 hc
        rcases hs : handleStar cfg psq it1 ext with ⟨p3, i3, e3⟩
        rw [hs] at h h1 h2
        exact (fun a b => hcont _ _ _ _ a b h) h1 h2
      · split at h
        · exact (fun a b => hcont _ _ _ _ a b h) hi1 ⟨handleDot_wf cfg psq it1, hc⟩
        · split at h
          · have h2 := qmarkItem_wf cfg psq
            rcases hq : qmarkItem cfg psq with ⟨q3, p3⟩
            rw [hq] at h h2
            exact (fun a b => hcont _ _ _ _ a b h) hi1 ⟨h2, hc⟩
          · split at h
            · refine (fun a b => hcont _ _ _ _ a b h) hi1 ⟨Frag.sep_clsWF _, ?_⟩
              show Item.AllWFL (match restrictExtendedSlash cfg with
                | some g => Item.re g :: ext
                | none => ext)
              split
              · rename_i g hg
                exact ⟨restrictExtendedSlash_wf cfg g hg, hc⟩
              · exact hc
            · split at h
              · split at h
                rename_i e3 p3 hcl
                have he3 : Item.AllWFL e3 := by
                  split at hcl
                  · have := cleanUpInverse_wf cfg psq ext tn hc
                    rw [hcl] at this
                    exact this
                  · cases hcl; exact hc
                exact (fun a b => hcont _ _ _ _ a b h) hi1 ⟨trivial, he3⟩
              · split at h
                · split at h
                  · rename_i v i3 p3 hr
                    obtain ⟨hv, hi3⟩ := references_val hr hi1
                    exact (fun a b => hcont _ _ _ _ a b h) hi3 ⟨hv, hc⟩
                  · rename_i i3 hr
                    exact (fun a b => hcont _ _ _ _ a b h) (references_dot hr hi1) hc
                  · exact (fun a b => hcont _ _ _ _ a b h) hi1 hc
                · split at h
                  · split at h
                    · rename_i r p3 i3 hsq
                      obtain ⟨hr, hi3⟩ := hseq _ _ _ _ _ hi1 hsq
                      exact (fun a b => hcont _ _ _ _ a b h) hi3 ⟨hr, hc⟩
                    · exact (fun a b => hcont _ _ _ _ a b h) hi1 ⟨trivial, hc⟩
                  · split at h
                    · exact (fun a b => hcont _ _ _ _ a b h) hi1 ⟨trivial, hc⟩
                    · exact (fun a b => hcont _ _ _ _ a b h) hi1 hc

theorem pe_el (fix : Bool) (cfg : Cfg) (hseq : HSeq fix cfg) : ∀ fuel, ExtOK fix cfg fuel ∧ ExtLoopOK fix cfg fuel := by
  intro fuel
  induction fuel with
  | zero =>
    constructor
    · intro lt it ps cur rd b ps' it' cur' hi hc h
      simp only [parseExtend, Prod.mk.injEq] at h
      obtain ⟨_, _, rfl, rfl⟩ := h
      exact ⟨hi, hc⟩
    · intro it ps ext ta tn ps' it' ext' hi hc h
      simp [extLoop] at h
  | succ n ih => exact ⟨pe_step fix cfg n ih.2, el_step fix cfg hseq n ih.1 ih.2⟩


/-! ### `root` and `_parse` -/

theorem cleanUpInverse_wf' {cfg : Cfg} {ps ps' : PS} {cur cur' : List Item} {nested : Bool}
    (h : cleanUpInverse cfg ps cur nested = (cur', ps')) (hc : Item.AllWFL cur) : Item.AllWFL cur' := by
  have := cleanUpInverse_wf cfg ps cur nested hc
  rw [h] at this
  exact this

theorem rootLoop_wf (fix : Bool) (cfg : Cfg) (hseq : HSeq fix cfg) : ∀ (fuel : Nat) (it : It) (ps : PS)
    (cur : List Item), OKI fix it → Item.AllWFL cur → Item.AllWFL (rootLoop cfg fuel it ps cur).2 := by
  intro fuel
  induction fuel with
  | zero => intro it ps cur _ hc; simpa [rootLoop] using hc
  | succ n ih =>
    intro it ps cur hi hc
    unfold rootLoop
    split
    · exact hc
    · rename_i c it1 hn
      have hi1 := hi.next hn
      extract_lets extRes
      generalize hER : extRes = er
      simp only [extRes] at hER
      clear extRes
      split
      · rename_i ps2 it2 cur2
        split at hER
        · simp only [Option.some.injEq] at hER
          obtain ⟨hi2, he2⟩ := (pe_el fix cfg hseq _).1 _ _ _ _ _ _ _ _ _ hi1 hc hER
          exact ih _ _ _ hi2 he2
        · cases hER
      · extract_lets psq
        clear_value psq
        split
        · exact ih _ _ _ hi1 ⟨handleDot_wf cfg psq it1, hc⟩
        · split
          · have h1 := handleStar_oki (fix := fix) cfg psq cur hi1
            have h2 := handleStar_wf cfg psq it1 hc
            rcases hs : handleStar cfg psq it1 cur with ⟨p3, i3, e3⟩
            rw [hs] at h1 h2
            exact ih _ _ _ h1 h2
          · split
            · have h2 := qmarkItem_wf cfg psq
              rcases hq : qmarkItem cfg psq with ⟨q3, p3⟩
              rw [hq] at h2
              exact ih _ _ _ hi1 ⟨h2, hc⟩
            · split
              · split
                · split
                  rename_i c3 p3 hcl
                  have h2 := cleanUpInverse_wf' hcl hc
                  exact ih _ _ _ (hi1.consumePathSep cfg) ⟨Frag.sepPlus_clsWF _, h2⟩
                · exact ih _ _ _ hi1 ⟨Frag.sep_clsWF _, hc⟩
              · split
                · split
                  · rename_i v i3 p3 hr
                    obtain ⟨hv, hi3⟩ := references_val hr hi1
                    split
                    · split
                      rename_i c4 p4 hcl
                      have h2 := cleanUpInverse_wf' hcl hc
                      exact ih _ _ _ (hi3.consumePathSep cfg) ⟨hv, h2⟩
                    · exact ih _ _ _ hi3 ⟨hv, hc⟩
                  · rename_i i3 hr
                    exact ih _ _ _ (references_dot hr hi1) hc
                  · exact ih _ _ _ hi1 hc
                · split
                  · split
                    · rename_i r p3 i3 hsq
                      obtain ⟨hr, hi3⟩ := hseq _ _ _ _ _ hi1 hsq
                      exact ih _ _ _ hi3 ⟨hr, hc⟩
                    · exact ih _ _ _ hi1 ⟨trivial, hc⟩
                  · exact ih _ _ _ hi1 ⟨trivial, hc⟩

def ClsDriveOK (drive : List Char → DriveInfo) : Prop :=
  ∀ q items, (drive q).drive = some items → Item.AllWFL items

theorem root_wf (fix : Bool) (cfg : Cfg) (hseq : HSeq fix cfg) (drive : List Char → DriveInfo)
    (hd : ClsDriveOK drive) (pattern : List Char) (ps : PS) (cur : List Item) (hp : QOK fix pattern)
    (hc : Item.AllWFL cur) (ps' : PS) (cur' : List Item)
    (h : root cfg drive pattern ps cur = .ok (ps', cur')) : Item.AllWFL cur' := by
  unfold root at h
  extract_lets ps1 it0 d at h
  have hi0 : OKI fix it0 := hp
  split at h
  rename_i rs it1 cur1 hsel
  have hsel' : OKI fix it1 ∧ Item.AllWFL cur1 := by
    split at hsel
    · split at hsel
      · rename_i items hitems
        have hitm : Item.AllWFL items := hd pattern items hitems
        simp only [Prod.mk.injEq] at hsel
        obtain ⟨_, rfl, rfl⟩ := hsel
        refine ⟨(hi0.advance _).consumePathSep cfg, ?_⟩
        have hrev := Item.allWFL_append (Item.allWFL_reverse hitm) hc
        split
        · exact ⟨Frag.sepPlus_clsWF _, hrev⟩
        · exact hrev
      · cases hsel; exact ⟨hi0, hc⟩
    · split at hsel
      · cases hsel; exact ⟨hi0, hc⟩
      · cases hsel; exact ⟨hi0, hc⟩
  obtain ⟨hi1, hc1⟩ := hsel'
  split at h
  · cases h
  · extract_lets ps2 cur2 at h
    have hc2 : Item.AllWFL cur2 := by
      show Item.AllWFL (if _ then _ else _)
      split
      · refine ⟨trivial, ?_, hc1⟩
        show Re.ClsWF (if _ then _ else _)
        split
        · exact Frag.noWinRoot_clsWF
        · exact Frag.noRoot_clsWF
      · exact hc1
    have hrl := rootLoop_wf fix cfg hseq (it1.rest.length + 1) it1 ps2 cur2 hi1 hc2
    split at h
    rename_i ps3 cur3 hrl'
    rw [hrl'] at hrl
    split at h
    rename_i cur4 ps4 hcl
    have hc4 := cleanUpInverse_wf' hcl hrl
    simp only [Except.ok.injEq, Prod.mk.injEq] at h
    obtain ⟨_, rfl⟩ := h
    split
    · exact ⟨Frag.pathTrail_clsWF _, hc4⟩
    · exact hc4

theorem stripAnchor_suffix (win : Bool) : ∀ (p : List Char), ∃ pre, p = pre ++ (stripAnchor win p).1 := by
  intro p
  fun_induction stripAnchor win p with
  | case1 r ih =>
    obtain ⟨pre, hp⟩ := ih
    exact ⟨'/' :: pre, by simp [← hp]⟩
  | case2 r hw ih =>
    obtain ⟨pre, hp⟩ := ih
    subst hw
    exact ⟨'\\' :: '\\' :: pre, by simp [← hp]⟩
  | case3 r hw => exact ⟨[], by simp⟩
  | case4 s h1 h2 => exact ⟨[], rfl⟩

theorem parsePrepend_wf (fix : Bool) (cfg : Cfg) (hseq : HSeq fix cfg) (drive : List Char → DriveInfo)
    (hd : ClsDriveOK drive) (ps ps' : PS) (pre : List Item)
    (h : parsePrepend cfg drive ps = .ok (ps', pre)) : Item.AllWFL pre := by
  have hstar2 : QOK fix ['*', '*'] := .inr (by decide)
  have hstar3 : QOK fix ['*', '*', '*'] := .inr (by decide)
  have hempty : Item.AllWFL [Item.empty] := ⟨trivial, trivial⟩
  unfold parsePrepend at h
  split at h
  · split at h
    · exact root_wf fix cfg hseq drive hd _ _ _ hstar3 hempty _ _ h
    · split at h
      · rename_i ps2 pre2 hr
        cases h
        exact root_wf fix cfg hseq drive hd _ _ _ hstar2 hempty _ _ hr
      · cases h
  · cases h
    exact hempty

theorem parseBody_wf (fix : Bool) (cfg : Cfg) (hseq : HSeq fix cfg) (drive : List Char → DriveInfo)
    (hd : ClsDriveOK drive) (p : List Char) (hp : QOK fix p) (ps : PS) (pre : List Item)
    (hpre : Item.AllWFL pre) (parsed : Parsed)
    (h : parseBody cfg drive p ps pre = .ok parsed) : Item.AllWFL parsed.items := by
  have hempty : Item.AllWFL [Item.empty] := ⟨trivial, trivial⟩
  unfold parseBody at h
  extract_lets p2 at h
  have hp2 : QOK fix p2 := by
    show QOK fix (if _ then _ else _)
    split
    · exact .inr (by decide)
    · exact hp
  split at h
  · cases h
  · rename_i ps2 result hr
    have hres : Item.AllWFL result := by
      split at hr
      · cases hr; exact hempty
      · exact root_wf fix cfg hseq drive hd _ _ _ hp2 hempty _ _ hr
    cases h
    apply Item.allWFL_reverse
    split
    · exact Item.allWFL_append hres hpre
    · exact hres

theorem parseItems_wf (fix : Bool) (cfg : Cfg) (hseq : HSeq fix cfg) (drive : List Char → DriveInfo)
    (hd : ClsDriveOK drive) (p : List Char) (hp : QOK fix p) (parsed : Parsed)
    (h : parseItems cfg drive p = .ok parsed) : Item.AllWFL parsed.items := by
  unfold parseItems at h
  extract_lets ps0 a at h
  have ha : QOK fix a.1 := by
    show QOK fix (anchorStep cfg p ps0).1
    unfold anchorStep
    split
    · obtain ⟨pre, hpre⟩ := stripAnchor_suffix cfg.winDriveDetect p
      rw [hpre] at hp
      exact QOK.suffix pre hp
    · exact hp
  split at h
  · cases h
  · rename_i ps2 pre hpp
    exact parseBody_wf fix cfg hseq drive hd _ ha _ _ (parsePrepend_wf fix cfg hseq drive hd _ _ _ hpp) _ h


/-! ### `Parsed.toRe` -/

theorem catE'_wf {a b : Re} (ha : a.ClsWF) (hb : b.ClsWF) : (catE' a b).ClsWF := by
  unfold catE'
  split
  · exact ha
  · split
    · exact hb
    · exact ⟨ha, hb⟩

theorem quant_wf (k : GKind) (cap : Capt) {inner : Re} (h : inner.ClsWF) : (quant k cap inner).ClsWF := by
  unfold quant
  cases k <;> cases cap <;> simp [Re.ClsWF, h]

theorem altOfList_wf : ∀ (l : List Re), (∀ r ∈ l, r.ClsWF) → (altOfList l).ClsWF
  | [], _ => trivial
  | [r], h => h r (by simp)
  | r :: r2 :: rs, h => by
    unfold altOfList
    exact ⟨h r (by simp), altOfList_wf (r2 :: rs) (fun x hx => h x (List.mem_cons_of_mem _ hx))⟩

theorem splitBars_wf : ∀ (l : List Item), Item.AllWFL l → ∀ part ∈ splitBars l, Item.AllWFL part := by
  intro l
  induction l with
  | nil => intro _ part hp; simp [splitBars] at hp; subst hp; trivial
  | cons x rest ih =>
    intro h part hp
    have hx : x.AllWF := h.1
    have ih' := ih h.2
    cases x
    case bar =>
      simp only [splitBars, List.mem_cons] at hp
      rcases hp with rfl | hp
      · trivial
      · exact ih' part hp
    all_goals
      simp only [splitBars] at hp
      split at hp
      · simp at hp; subst hp; exact ⟨hx, trivial⟩
      · rename_i a as heq
        simp only [List.mem_cons] at hp
        rcases hp with rfl | hp
        · exact ⟨hx, ih' a (by rw [heq]; simp)⟩
        · exact ih' part (by rw [heq]; simp [hp])

theorem mapM_option_forall {α β : Type} (f : α → Option β) (P : β → Prop) :
    ∀ (l : List α) (rs : List β), l.mapM f = some rs → (∀ x ∈ l, ∀ y, f x = some y → P y) →
      ∀ y ∈ rs, P y := by
  intro l
  induction l with
  | nil => intro rs h _ y hy; simp at h; subst h; cases hy
  | cons a as ih =>
    intro rs h hP y hy
    rw [List.mapM_cons] at h
    cases hfa : f a with
    | none => simp [hfa] at h
    | some b =>
      cases hbs : as.mapM f with
      | none => simp [hfa, hbs] at h
      | some bs =>
        simp [hfa, hbs] at h
        subst h
        rcases List.mem_cons.1 hy with rfl | hy
        · exact hP a (by simp) _ hfa
        · exact ih bs hbs (fun x hx => hP x (List.mem_cons_of_mem _ hx)) y hy

def SeqToReOK (fuel : Nat) : Prop :=
  ∀ (l : List Item) (r : Re), Item.AllWFL l → Item.seqToRe fuel l = some r → r.ClsWF
def ListToReOK (fuel : Nat) : Prop :=
  ∀ (l : List Item) (r : Re), Item.AllWFL l → Item.listToRe fuel l = some r → r.ClsWF

theorem lr_step (n : Nat) (ihS : SeqToReOK n) : ListToReOK (n+1) := by
  intro l r hl h
  simp only [Item.listToRe] at h
  cases hm : (splitBars l).mapM (Item.seqToRe n) with
  | none => simp [hm] at h
  | some parts =>
    simp [hm] at h
    subst h
    apply altOfList_wf
    exact mapM_option_forall _ _ _ _ hm (fun x hx y hy => ihS x y (splitBars_wf l hl x hx) hy)

theorem sr_step (n : Nat) (ihS : SeqToReOK n) (ihL : ListToReOK n) : SeqToReOK (n+1) := by
  intro l r hl h
  unfold Item.seqToRe at h
  split at h
  · cases h
  · cases h; trivial
  · rename_i f cap body tail eop star rest heq
    cases heq
    obtain ⟨hbody, ⟨htail, heop, hstar⟩, hrest⟩ := hl
    simp only [Option.bind_eq_bind, Option.bind_eq_some_iff, Option.pure_def, Option.some.injEq] at h
    obtain ⟨b, hb, la, hla, rr, hr, rfl⟩ := h
    have hbw := ihL _ _ hbody hb
    have hlaw : la.ClsWF := by
      refine ihL _ _ ?_ hla
      refine Item.allWFL_cons (x := .re b.grp) hbw (Item.allWFL_append htail ?_)
      split
      · rename_i e
        exact ⟨heop e rfl, trivial⟩
      · trivial
    refine catE'_wf ?_ (ihS _ _ hrest hr)
    split
    · exact ⟨hlaw, hstar⟩
    · exact ⟨hlaw, hstar⟩
  · rename_i f r0 rest heq
    cases heq
    cases hr : Item.seqToRe n rest with
    | none => simp [hr] at h
    | some rr =>
      simp [hr] at h
      subst h
      exact catE'_wf hl.1 (ihS _ _ hl.2 hr)
  · rename_i f rest heq
    cases heq
    exact ihS _ _ hl.2 h
  · rename_i f k cap body rest heq
    cases heq
    cases hb : Item.listToRe n body with
    | none => simp [hb] at h
    | some b =>
      cases hr : Item.seqToRe n rest with
      | none => simp [hb, hr] at h
      | some rr =>
        simp [hb, hr] at h
        subst h
        exact catE'_wf (quant_wf _ _ (ihL _ _ hl.1 hb)) (ihS _ _ hl.2 hr)
  · cases h

theorem sr_lr : ∀ fuel, SeqToReOK fuel ∧ ListToReOK fuel := by
  intro fuel
  induction fuel with
  | zero =>
    constructor
    · intro l r _ h; simp [Item.seqToRe] at h
    · intro l r _ h; simp [Item.listToRe] at h
  | succ n ih => exact ⟨sr_step n ih.1 ih.2, lr_step n ih.1⟩

theorem toRe_wf (p : Parsed) (r : Re) (hp : Item.AllWFL p.items) (h : p.toRe = some r) : r.ClsWF := by
  unfold Parsed.toRe at h
  cases hl : Item.listToRe (2 * Item.sizeL p.items + 4) p.items with
  | none => simp [hl] at h
  | some inner =>
    simp [hl] at h
    subst h
    refine ⟨trivial, ?_, trivial⟩
    show inner.ClsWF
    exact (sr_lr _).2 _ _ hp hl


/-! ### the Windows drive prefix -/

theorem litsOf_wf : ∀ s : List Char, (Win.litsOf s).ClsWF
  | [] => trivial
  | [c] => trivial
  | c :: d :: rest => by
    unfold Win.litsOf
    exact ⟨trivial, litsOf_wf (d :: rest)⟩

theorem escapeDrive_wf (s : List Char) (cs : Bool) : (Win.escapeDrive s cs).ClsWF := by
  unfold Win.escapeDrive
  split
  · exact litsOf_wf s
  · exact litsOf_wf s

theorem joinSep_wf : ∀ l : List Re, (∀ r ∈ l, r.ClsWF) → (Win.joinSep l).ClsWF
  | [], _ => trivial
  | [r], h => h r (by simp)
  | r :: r2 :: rs, h => by
    unfold Win.joinSep
    exact ⟨h r (by simp), Frag.sep_clsWF true, joinSep_wf (r2 :: rs) (fun x hx => h x (List.mem_cons_of_mem _ hx))⟩

theorem winDrive_clsOk (cfg : Cfg) : ClsDriveOK (winDrive cfg) := by
  intro q items h
  unfold winDrive at h
  extract_lets none_ altA fin tryFrom altB at h
  have hnone : ∀ b, (none_ b).drive = some items → Item.AllWFL items := by
    intro b hb; simp [none_] at hb
  clear_value altA altB
  clear fin tryFrom
  split at h
  · extract_lets part0 isSpecial st at h
    split at h
    · simp only [Option.some.injEq] at h
      subst h
      refine ⟨⟨Frag.sep_clsWF true, joinSep_wf _ ?_⟩, trivial⟩
      intro r hr
      obtain ⟨q', _, rfl⟩ := List.mem_map.1 hr
      exact escapeDrive_wf _ _
    · exact hnone _ h
  · split at h
    · extract_lets g0 letterOk at h
      split at h
      · simp only [Option.some.injEq] at h
        subst h
        exact ⟨escapeDrive_wf _ _, trivial⟩
      · exact hnone _ h
    · split at h <;> exact hnone _ h

end WcModel

import WcModel.Proofs.HiddenLowerSpec
import WcModel.Proofs.HiddenLower
/-
  ONE compiled path-mode segment (`compSeg dot true g`) at the start of a piece that wildcards
  must not match — a piece that begins with `.` while DOTGLOB is off, or `.` / `..` whatever
  DOTGLOB says — against the two dot rules of the executable specification:

    * `compSeg_must_hidden` : whatever `Pat.endsR .must` admits from the piece start, the compiled
      segment can consume (lower bound: "the match is granted");
    * `compSeg_may_sim`     : whatever the compiled segment consumes from the piece start,
      `Pat.endsR .may` admits (upper bound), as a forward simulation between the run of the compiled
      regex and the run of the specification, indexed by a syntactic scan of the pattern
      (`Pat.scan`); `Pat.hiddenSafe` = the scan never leaves the scope: D4 (a segment-initial `*`
      followed by a wildcard) and D5 (a first group that can match empty, or one of whose
      alternatives begins with a wildcard) excluded, syntactically.
-/
namespace WcModel

/-! ### the syntactic scan behind `hiddenSafe` -/

/-- where the compiler and the specification stand while a segment pattern is read from the
    start of a hidden piece:
    `S` nothing read yet (compiler: `as = true`; spec: still at the first character);
    `H` the compiler has left the start (`as = false` — the guards are gone) but the subject may
        still be at its first character, where the spec lets only a written `.` stand: after a
        segment-initial `*`, or after a `?(…)` / `*(…)` group;
    `F` a written character was read: both sides are past the first character;
    `D` a guarded `?` / bracket stood first: the compiled pattern cannot match at all;
    `X` outside the scope of the upper bound (D4 / D5) -/
inductive HMode | S | H | F | D | X
  deriving DecidableEq, Repr

/-- both alternatives read a written character first (or cannot match) -/
def HMode.joinAlt : HMode → HMode → HMode
  | .F, .F => .F
  | .F, .D => .F
  | .D, .F => .F
  | .D, .D => .D
  | _, _ => .X

/-- after `@(…)` / `+(…)`: the body read a written character first (or cannot match) -/
def HMode.after1 : HMode → HMode
  | .F => .F
  | .D => .D
  | _ => .X

/-- after `?(…)` / `*(…)`: the same, or the group matched empty -/
def HMode.after0 : HMode → HMode
  | .F => .H
  | .D => .H
  | _ => .X

def Pat.scan : Pat → HMode → HMode
  | .eps, m => m
  | .lit _, m => match m with | .S => .F | .H => .F | m => m
  | .any, m => match m with | .S => .D | .H => .X | m => m
  | .cls _ _, m => match m with | .S => .D | .H => .X | m => m
  | .star, m => match m with | .S => .H | .H => .X | m => m
  | .seq p q, m => q.scan (p.scan m)
  | .alt p q, m => match m with
    | .S => (p.scan .S).joinAlt (q.scan .S)
    | .H => (p.scan .H).joinAlt (q.scan .H)
    | m => m
  | .ext k p, m => match m with
    | .S => (match k with
      | .one => (p.scan .S).after1 | .plus => (p.scan .S).after1
      | .opt => (p.scan .S).after0 | .star => (p.scan .S).after0
      | .neg => .X)
    | .H => (match k with
      | .one => (p.scan .H).after1 | .plus => (p.scan .H).after1
      | .opt => (p.scan .H).after0 | .star => (p.scan .H).after0
      | .neg => .X)
    | m => m

/-- the segment pattern is in the scope of the C03 upper bound for path mode.  It holds in
    particular when the first token is not an extended group (D5) and a first `*` is followed by
    literal text or by nothing (D4) — `HL.hiddenSafe_of_triggers`; it also admits a first group all
    of whose alternatives begin with a written character (`@(.git|.hg)`, `+(.)x`, `?(a).b`). -/
def Pat.hiddenSafe (g : Pat) : Bool := g.scan .S != .X

namespace HL

theorem scan_F (g : Pat) : g.scan .F = .F := by
  induction g with
  | seq p q ihp ihq => simp [Pat.scan, ihp, ihq]
  | _ => simp [Pat.scan]

theorem scan_D (g : Pat) : g.scan .D = .D := by
  induction g with
  | seq p q ihp ihq => simp [Pat.scan, ihp, ihq]
  | _ => simp [Pat.scan]

theorem scan_X (g : Pat) : g.scan .X = .X := by
  induction g with
  | seq p q ihp ihq => simp [Pat.scan, ihp, ihq]
  | _ => simp [Pat.scan]

theorem scan_isEmpty (g : Pat) (h : g.isEmpty = true) (m : HMode) : g.scan m = m := by
  induction g generalizing m with
  | eps => rfl
  | seq p q ihp ihq =>
    simp only [Pat.isEmpty, Bool.and_eq_true] at h
    simp [Pat.scan, ihp h.1, ihq h.2]
  | _ => simp [Pat.isEmpty] at h

/-- only the empty pattern leaves the scan at `S` -/
theorem scan_eq_S (g : Pat) : ∀ m, g.scan m = .S → m = .S ∧ g.isEmpty = true := by
  induction g with
  | eps => intro m h; exact ⟨h, rfl⟩
  | seq p q ihp ihq =>
    intro m h
    simp only [Pat.scan] at h
    obtain ⟨h1, h2⟩ := ihq _ h
    obtain ⟨h3, h4⟩ := ihp _ h1
    exact ⟨h3, by simp [Pat.isEmpty, h2, h4]⟩
  | alt p q _ _ =>
    intro m h
    cases m <;> simp only [Pat.scan] at h
    · generalize p.scan .S = x at h; generalize q.scan .S = y at h
      cases x <;> cases y <;> simp [HMode.joinAlt] at h
    · generalize p.scan .H = x at h; generalize q.scan .H = y at h
      cases x <;> cases y <;> simp [HMode.joinAlt] at h
    all_goals cases h
  | ext k p _ =>
    intro m h
    cases m <;> simp only [Pat.scan] at h
    · generalize p.scan .S = x at h
      cases k <;> cases x <;> simp [HMode.after1, HMode.after0] at h
    · generalize p.scan .H = x at h
      cases k <;> cases x <;> simp [HMode.after1, HMode.after0] at h
    all_goals cases h
  | _ => intro m h; cases m <;> simp [Pat.scan] at h

/-- `D` comes from `S` (or `D`) only -/
theorem scan_eq_D (g : Pat) : ∀ m, g.scan m = .D → m = .S ∨ m = .D := by
  induction g with
  | eps => intro m h; exact Or.inr h
  | seq p q ihp ihq =>
    intro m h
    simp only [Pat.scan] at h
    rcases ihq _ h with h1 | h1
    · exact Or.inl (scan_eq_S p m h1).1
    · exact ihp _ h1
  | alt p q ihp ihq =>
    intro m h
    cases m <;> simp only [Pat.scan] at h
    · exact Or.inl rfl
    · exfalso
      have hp := ihp .H
      have hq := ihq .H
      generalize p.scan .H = x at h hp
      generalize q.scan .H = y at h hq
      cases x <;> cases y <;> simp [HMode.joinAlt] at h hp hq
    all_goals first | exact Or.inr rfl | cases h
  | ext k p ih =>
    intro m h
    cases m <;> simp only [Pat.scan] at h
    · exact Or.inl rfl
    · exfalso
      have hp := ih .H
      generalize p.scan .H = x at h hp
      cases k <;> cases x <;> simp [HMode.after1, HMode.after0] at h hp
    all_goals first | exact Or.inr rfl | cases h
  | _ => intro m h; cases m <;> simp [Pat.scan] at h ⊢

theorem isEmpty_false_of_scan {g : Pat} {m m' : HMode} (h : g.scan m = m') (hne : m' ≠ m) :
    g.isEmpty = false := by
  cases he : g.isEmpty with
  | false => rfl
  | true => rw [scan_isEmpty g he m] at h; exact absurd h.symm hne

/-! ### the guards at the start of a hidden piece -/

/-- a piece that wildcards must not match, followed by a separator or the end -/
structure HidStart (dot : Bool) (p0 r : List Char) : Prop where
  head : p0.head? = some '.'
  nosl : '/' ∉ p0
  sep : AtSep r
  hid : dot = false ∨ isDotDir p0 = true

theorem HidStart.not_visible {dot : Bool} {p0 r : List Char} (h : HidStart dot p0 r) : visible dot p0 = false := by
  rcases h.hid with hd | hd
  · simp [visible, hd, h.head]
  · simp [visible, hd]

theorem hidStart_of_not_visible {dot : Bool} {p0 r : List Char} (hv : visible dot p0 = false) (hne : p0 ≠ [])
    (hsl : '/' ∉ p0) (hr : AtSep r) : HidStart dot p0 r := by
  have hhead : p0.head? = some '.' := by
    by_cases hd : isDotDir p0 = true
    · simp only [isDotDir, Bool.or_eq_true, decide_eq_true_eq] at hd
      rcases hd with rfl | rfl <;> rfl
    · simp only [visible, hd, Bool.not_false, Bool.true_and, Bool.or_eq_false_iff, bne_eq_false_iff_eq,
        Bool.not_eq_true] at hv
      exact hv.2
  refine ⟨hhead, hsl, hr, ?_⟩
  by_cases hd : isDotDir p0 = true
  · exact Or.inr hd
  · left
    simp only [visible, hd, Bool.not_false, Bool.true_and, Bool.or_eq_false_iff] at hv
    exact hv.1

/-- `_NO_DIR` fires at `.` / `..` followed by a separator or the end -/
theorem noDir_fires (md : Mode) (a : St) (p0 r : List Char) (e : a.rest = p0 ++ r)
    (hd : isDotDir p0 = true) (hr : AtSep r) : ¬ NoDirOK md a := by
  intro hno
  apply hno
  have hend : ∀ m : St, m.rest = r → ∃ c, Re.M md (Frag.pathEop false) m c := by
    intro m hm
    simp only [Frag.pathEop, Re.M.eq_7, Re.M.eq_6]
    rcases hr with rfl | ⟨r', rfl⟩
    · exact ⟨m, Or.inl (by simp [Re.M, atEos, hm])⟩
    · exact ⟨⟨false, r'⟩, Or.inr ((M_sep md _ _).mpr ⟨'/', r', hm, rfl, rfl⟩)⟩
  simp only [isDotDir, Bool.or_eq_true, decide_eq_true_eq] at hd
  simp only [Re.M.eq_5, Re.M.eq_7, Re.M.eq_13]
  rcases hd with rfl | rfl
  · obtain ⟨c, hc⟩ := hend ⟨false, r⟩ rfl
    refine ⟨c, ⟨false, r⟩, ⟨1, by omega, by omega, ?_⟩, hc⟩
    exact IterN.succ ((M_lit_dot md _ _).mpr ⟨'.', r, by simpa using e, rfl, rfl⟩) (IterN.zero _)
  · obtain ⟨c, hc⟩ := hend ⟨false, r⟩ rfl
    refine ⟨c, ⟨false, r⟩, ⟨2, by omega, by omega, ?_⟩, hc⟩
    exact IterN.succ (b := ⟨false, '.' :: r⟩) ((M_lit_dot md _ _).mpr ⟨'.', '.' :: r, by simpa using e, rfl, rfl⟩)
      (IterN.succ ((M_lit_dot md _ _).mpr ⟨'.', r, rfl, rfl, rfl⟩) (IterN.zero _))

theorem head_of_hid {dot : Bool} {p0 r : List Char} (h : HidStart dot p0 r) (a : St) (e : a.rest = p0 ++ r) :
    a.rest.head? = some '.' := by
  have := h.head
  cases p0 with
  | nil => simp at this
  | cons x p => simpa [e] using this

/-- the guard of `?` / `[…]` at the segment start refuses a hidden piece -/
theorem pGuard_hidden (md : Mode) {dot : Bool} {p0 r : List Char} (h : HidStart dot p0 r) (a c : St)
    (e : a.rest = p0 ++ r) : ¬ Re.M md (pGuard dot true) a c := by
  intro hM
  simp only [pGuard, ite_true, Re.M.eq_5] at hM
  obtain ⟨m, h1, h2⟩ := hM
  obtain ⟨rfl, hok⟩ := (M_noDir md a m).mp h1
  rcases h.hid with hd | hd
  · subst hd
    simp only [Bool.not_false, ite_true] at h2
    exact ((M_seqPathDot md m c).mp h2).2.2 (head_of_hid h m e)
  · exact noDir_fires md m p0 r e hd h.sep hok

/-- `*` at the segment start consumes nothing of a hidden piece -/
theorem pStar_hidden (md : Mode) {dot : Bool} {p0 r : List Char} (h : HidStart dot p0 r) (a c : St)
    (e : a.rest = p0 ++ r) (hM : Re.M md (pStar dot true) a c) : c = a := by
  simp only [pStar, ite_true, Re.M.eq_5] at hM
  obtain ⟨m, h1, h2⟩ := hM
  obtain ⟨rfl, _⟩ := (M_needCharPath md a m).mp h1
  cases hd : dot with
  | false =>
    simp only [hd, Bool.not_false, ite_true] at h2
    exact pathStarDot2_at_dot md m c (head_of_hid h m e) h2
  | true =>
    exfalso
    simp only [hd, Bool.not_true, Bool.false_eq_true, ite_false, Frag.pathStarDot1, Re.M.eq_5] at h2
    obtain ⟨m', h3, _⟩ := h2
    obtain ⟨_, hok⟩ := (M_noDir md m m').mp h3
    rcases h.hid with hd' | hd'
    · rw [hd] at hd'; cases hd'
    · exact noDir_fires md m p0 r e hd' h.sep hok

/-! ### list bookkeeping -/

/-- a separator-free prefix of `q ++ r` (with `q` separator-free, `r` at a separator) is a prefix of `q` -/
theorem prefix_in_piece : ∀ (pre q r x : List Char), q ++ r = pre ++ x → '/' ∉ pre → '/' ∉ q → AtSep r →
    ∃ q2, q = pre ++ q2 ∧ x = q2 ++ r := by
  intro pre
  induction pre with
  | nil => intro q r x e _ _ _; exact ⟨q, rfl, by simpa using e.symm⟩
  | cons y pre ih =>
    intro q r x e hp hq hr
    cases q with
    | nil =>
      exfalso
      rcases hr with rfl | ⟨r', rfl⟩
      · simp at e
      · simp only [List.nil_append, List.cons_append, List.cons.injEq] at e
        exact hp (by rw [← e.1]; exact List.mem_cons_self)
    | cons z q =>
      simp only [List.cons_append, List.cons.injEq] at e
      simp only [List.mem_cons, not_or] at hp hq
      obtain ⟨q2, e1, e2⟩ := ih q r x e.2 hp.2 hq.2 hr
      exact ⟨q2, by simp [e.1, e1], e2⟩

theorem suf_noSl {b a : St} (h : St.Suf b a) (hsl : '/' ∉ a.rest) : '/' ∉ b.rest := by
  obtain ⟨pre, e⟩ := h.pre
  rw [e] at hsl
  exact fun hm => hsl (List.mem_append_right _ hm)

/-- free completeness through a frame: what the documented language consumes inside a
    separator-free text, the segment compiled away from its start consumes in place -/
theorem false_complete_framed (dot ci : Bool) (q : Pat) (hn : q.negFree = true) (r : List Char) (c' b' : St)
    (hL : Pat.L ci q c' b') (hsl : '/' ∉ c'.rest) (c : St) (e : c.rest = c'.rest ++ r) :
    ∃ b, b.rest = b'.rest ++ r ∧ Re.M ⟨true, ci⟩ (compSeg dot false q) c b := by
  obtain ⟨b, eb, hb⟩ := L_frame ci q hn r c' b' hL c e
  refine ⟨b, eb, compSeg_false_complete dot ci q hn c b hb ?_⟩
  obtain ⟨pre, ep⟩ := (Pat.L_suf ci q c' b' hL).pre
  refine ⟨pre, by rw [e, ep, eb, List.append_assoc], ?_⟩
  rw [ep] at hsl
  exact fun hm => hsl (List.mem_append_left _ hm)

theorem compSeg_isEmpty (dot as ci : Bool) (p : Pat) (h : p.isEmpty = true) (a b : St) :
    Re.M ⟨true, ci⟩ (compSeg dot as p) a b ↔ b = a := by
  induction p generalizing as a b with
  | eps => simp [compSeg, Re.M]
  | seq p q ihp ihq =>
    simp only [Pat.isEmpty, Bool.and_eq_true] at h
    rw [compSeg_seq _ _ _ _ (negFree_of_isEmpty p h.1)]
    simp only [Re.M.eq_5, ihp _ h.1, ihq _ h.2]
    constructor
    · rintro ⟨c, rfl, rfl⟩; rfl
    · rintro rfl; exact ⟨_, rfl, rfl⟩
  | _ => simp [Pat.isEmpty] at h

/-! ### lower bound: what `.must` admits, the compiled segment consumes -/

theorem notDot_start_dot (p0 : List Char) (hh : p0.head? = some '.') : notDotAtStart ⟨true, p0⟩ = false := by
  simp [notDotAtStart, hh]

/-- **segment-level lower bound.**  `p0` begins with a dot and contains no separator; whatever end
    state the rule `.must` admits for `g` from the start of `p0`, the compiled segment reaches in
    place (with any text `r` behind the piece).  No hypothesis on DOTGLOB, none on `r`. -/
theorem compSeg_must_hidden (dot ci : Bool) (p0 r : List Char) (hh : p0.head? = some '.') (hsl : '/' ∉ p0)
    (g : Pat) (hn : g.negFree = true) (hst : g.startSafe false = true) :
    ∀ b', b' ∈ Pat.endsR ci .must g ⟨true, p0⟩ → ∀ a : St, a.rest = p0 ++ r →
      ∃ b, b.rest = b'.rest ++ r ∧ Re.M ⟨true, ci⟩ (compSeg dot true g) a b := by
  have hnd := notDot_start_dot p0 hh
  induction g with
  | eps =>
    intro b' hb a e
    simp only [Pat.endsR, List.mem_singleton] at hb
    subst hb
    exact ⟨a, e, by simp [compSeg, Re.M]⟩
  | lit ch =>
    intro b' hb a e
    simp only [Pat.endsR] at hb
    obtain ⟨d, s, e1, hp, rfl⟩ := mem_step1.mp hb
    simp only at e1
    refine ⟨⟨false, s ++ r⟩, rfl, ?_⟩
    simp only [compSeg, Re.M]
    exact ⟨d, s ++ r, by rw [e, e1]; rfl, hp, rfl⟩
  | any => intro b' hb; simp [Pat.endsR, hnd] at hb
  | cls n i => intro b' hb; simp [Pat.endsR, hnd] at hb
  | star => intro b' hb; simp [Pat.endsR, hnd] at hb
  | seq p q ihp ihq =>
    intro b' hb a e
    simp only [Pat.negFree, Bool.and_eq_true] at hn
    simp only [Pat.startSafe, Bool.and_eq_true] at hst
    simp only [Pat.endsR, mem_dedup, List.mem_flatMap] at hb
    obtain ⟨c1', hc1, hb⟩ := hb
    obtain ⟨c1, ec1, hM1⟩ := ihp hn.1 hst.1 c1' hc1 a e
    rw [compSeg_seq _ _ _ _ hn.1]
    cases he : p.isEmpty with
    | true =>
      have hq : q.startSafe false = true := by simpa [he] using hst.2
      have h1 : c1' = ⟨true, p0⟩ := (endsR_isEmpty ci .must p he _ _).mp hc1
      have h2 : c1 = a := (compSeg_isEmpty dot true ci p he a c1).mp hM1
      subst h1; subst h2
      obtain ⟨b, eb, hM2⟩ := ihq hn.2 hq b' hb c1 e
      refine ⟨b, eb, ?_⟩
      rw [Re.M.eq_5]
      exact ⟨c1, hM1, by simpa using hM2⟩
    | false =>
      have hL1 := endsR_sub ci .must p _ _ hc1
      have hsl1 : '/' ∉ c1'.rest := suf_noSl (Pat.L_suf ci p _ _ hL1) hsl
      obtain ⟨b, eb, hM2⟩ := false_complete_framed dot ci q hn.2 r c1' b' (endsR_sub ci .must q _ _ hb) hsl1 c1 ec1
      refine ⟨b, eb, ?_⟩
      rw [Re.M.eq_5]
      exact ⟨c1, hM1, by simpa using hM2⟩
  | alt p q ihp ihq =>
    intro b' hb a e
    simp only [Pat.negFree, Bool.and_eq_true] at hn
    simp only [Pat.startSafe, Bool.and_eq_true] at hst
    simp only [Pat.endsR, mem_dedup, List.mem_append] at hb
    simp only [compSeg, Re.M]
    rcases hb with hb | hb
    · obtain ⟨b, eb, hM⟩ := ihp hn.1 hst.1 b' hb a e
      exact ⟨b, eb, Or.inl hM⟩
    · obtain ⟨b, eb, hM⟩ := ihq hn.2 hst.2 b' hb a e
      exact ⟨b, eb, Or.inr hM⟩
  | ext k p ih =>
    intro b' hb a e
    -- repeated groups at the start are guard-free (D1p): compiled as away from the start
    have hrep : (k = .star ∨ k = .plus) → p.guardFree false = true →
        ∃ b, b.rest = b'.rest ++ r ∧ Re.M ⟨true, ci⟩ (compSeg dot true (.ext k p)) a b := by
      intro hk hgf
      have hnf : p.negFree = true := by rcases hk with rfl | rfl <;> simpa [Pat.negFree] using hn
      have heq : compSeg dot true (.ext k p) = compSeg dot false (.ext k p) := by
        rcases hk with rfl | rfl <;> simp only [compSeg, compSeg_guardFree dot p hgf hnf]
      rw [heq]
      exact false_complete_framed dot ci (.ext k p) hn r ⟨true, p0⟩ b' (endsR_sub ci .must _ _ _ hb) hsl a e
    cases k with
    | neg => simp [Pat.negFree] at hn
    | star => exact hrep (Or.inl rfl) (by simpa [Pat.startSafe] using hst)
    | plus => exact hrep (Or.inr rfl) (by simpa [Pat.startSafe] using hst)
    | opt =>
      simp only [Pat.endsR, hnd, Bool.not_false, Bool.and_true, beq_self_eq_true, ite_true] at hb
      obtain ⟨b, eb, hM⟩ := ih (by simpa [Pat.negFree] using hn) (by simpa [Pat.startSafe] using hst) b' hb a e
      exact ⟨b, eb, by simp only [compSeg, quantRe, Re.M]; exact Or.inr hM⟩
    | one =>
      simp only [Pat.endsR] at hb
      obtain ⟨b, eb, hM⟩ := ih (by simpa [Pat.negFree] using hn) (by simpa [Pat.startSafe] using hst) b' hb a e
      exact ⟨b, eb, by simp only [compSeg, quantRe, Re.M]; exact hM⟩

/-! ### upper bound: what the compiled segment consumes, `.may` admits -/

/-- the simulation: `a'` is a state of the specification run on the piece `p0` alone, `x` the state
    of the compiled pattern on the subject (`p0` followed by `r`) -/
def Sim (p0 r : List Char) : HMode → St → St → Prop
  | .S, a', x => a' = ⟨true, p0⟩ ∧ x.rest = p0 ++ r
  | .H, a', x => (a' = ⟨true, p0⟩ ∧ x.rest = p0 ++ r) ∨
      (a'.atStart = false ∧ x.atStart = false ∧ x.rest = a'.rest ++ r ∧ '/' ∉ a'.rest)
  | .F, a', x => a'.atStart = false ∧ x.atStart = false ∧ x.rest = a'.rest ++ r ∧ '/' ∉ a'.rest
  | .D, _, _ => False
  | .X, _, _ => True

theorem Sim.H_of_S {p0 r : List Char} {a' x : St} (h : Sim p0 r .S a' x) : Sim p0 r .H a' x := Or.inl h
theorem Sim.H_of_F {p0 r : List Char} {a' x : St} (h : Sim p0 r .F a' x) : Sim p0 r .H a' x := Or.inr h

/-- **past the first character both sides are free**: soundness of the compiled pattern (at
    whatever `as`) carried through the frame, then `endsR_sup` -/
theorem sim_F_step (dot ci : Bool) {p0 r : List Char} (hr : AtSep r) (g : Pat)
    (hn : g.negFree = true) (hs : g.noSlash = true) (as : Bool) (a' x y : St)
    (hsim : Sim p0 r .F a' x) (hM : Re.M ⟨true, ci⟩ (compSeg dot as g) x y) :
    ∃ b', b' ∈ Pat.endsR ci .may g a' ∧ Sim p0 r .F b' y := by
  obtain ⟨hfa, hfx, ex, hsl⟩ := hsim
  obtain ⟨hL, pre, epre, hpre⟩ := compSeg_sound dot ci g hn hs as x y hM
  obtain ⟨q2, eq1, e2⟩ := prefix_in_piece pre a'.rest r y.rest (by rw [← ex, epre]) hpre hsl hr
  obtain ⟨b', eb', hLb⟩ := L_unframe ci g hn r x y hL a' q2 ex e2
  have hfb : b'.atStart = false := by
    rcases Pat.L_suf ci g _ _ hLb with h | ⟨h, _⟩
    · rw [h]; exact hfa
    · exact h
  have hfy : y.atStart = false := by
    rcases Pat.L_suf ci g _ _ hL with h | ⟨h, _⟩
    · rw [h]; exact hfx
    · exact h
  refine ⟨b', endsR_sup ci .may g _ _ (notDot_of_not_atStart hfa) hLb, hfb, hfy, by rw [e2, eb'], ?_⟩
  rw [eb']
  rw [eq1] at hsl
  exact fun hm => hsl (List.mem_append_right _ hm)

/-- the compile flag that goes with a scan mode -/
def Compat (m : HMode) (as : Bool) : Prop := (m = .S → as = true) ∧ (m = .H → as = false)

/-- from `H`, the free alternative of the simulation, whatever the pattern -/
theorem sim_H_free (dot ci : Bool) {p0 r : List Char} (hr : AtSep r) (g : Pat)
    (hn : g.negFree = true) (hs : g.noSlash = true) (as : Bool) (a' x y : St)
    (hsim : Sim p0 r .F a' x) (hM : Re.M ⟨true, ci⟩ (compSeg dot as g) x y) :
    g.scan .H = .X ∨ ∃ b', b' ∈ Pat.endsR ci .may g a' ∧ Sim p0 r (g.scan .H) b' y := by
  obtain ⟨b', hb, hsF⟩ := sim_F_step dot ci hr g hn hs as a' x y hsim hM
  cases hm : g.scan .H with
  | X => exact Or.inl rfl
  | F => exact Or.inr ⟨b', hb, hsF⟩
  | H => exact Or.inr ⟨b', hb, Or.inr hsF⟩
  | S => exact absurd (scan_eq_S g .H hm).1 (by decide)
  | D => rcases scan_eq_D g .H hm with h | h <;> cases h

theorem mem_closeN_trans {f : St → List St} (hle : ∀ a b, b ∈ f a → St.Le b a) {a c b : St}
    (hc : c ∈ f a) (hb : b ∈ closeN f (c.rest.length + 1) [c]) : b ∈ closeN f (a.rest.length + 1) [a] := by
  obtain ⟨x, hx, hxy⟩ := closeN_sound (R := fun u v => v ∈ f u) (fun _ _ h => h) _ _ hb
  rw [List.mem_singleton] at hx
  subst hx
  exact closeN_complete (R := fun u v => v ∈ f u) (fun _ _ h => h) hle (Iter.step hc hxy) _ _
    (List.mem_singleton.mpr rfl) (by omega)

/-- **segment-level upper bound (simulation).**  One compiled pattern `g`, started in scan mode `m`
    (with the matching compile flag) from related states, ends in related states for the mode the scan
    ends in — unless the scan leaves the scope (`X`). -/
theorem compSeg_may_sim (dot ci : Bool) {p0 r : List Char} (hs : HidStart dot p0 r)
    (g : Pat) (hn : g.negFree = true) (hsl : g.noSlash = true) :
    ∀ (m : HMode) (as : Bool) (a' x y : St), Compat m as → Sim p0 r m a' x →
      Re.M ⟨true, ci⟩ (compSeg dot as g) x y →
      g.scan m = .X ∨ ∃ b', b' ∈ Pat.endsR ci .may g a' ∧ Sim p0 r (g.scan m) b' y := by
  have hnd := notDot_start_dot p0 hs.head
  have hr := hs.sep
  induction g with
  | eps =>
    intro m as a' x y _ hsim hM
    simp only [compSeg, Re.M] at hM
    subst hM
    exact Or.inr ⟨a', by simp [Pat.endsR], hsim⟩
  | lit ch =>
    intro m as a' x y _ hsim hM
    -- at the start: the literal reads the dot
    have key : a' = ⟨true, p0⟩ ∧ x.rest = p0 ++ r →
        ∃ b', b' ∈ Pat.endsR ci .may (.lit ch) a' ∧ Sim p0 r .F b' y := by
      rintro ⟨rfl, e⟩
      simp only [compSeg, Re.M] at hM
      obtain ⟨d, s, e1, hp, rfl⟩ := hM
      have hh := hs.head
      have hns := hs.nosl
      cases p0 with
      | nil => simp at hh
      | cons c0 q =>
        rw [e] at e1
        simp only [List.cons_append, List.cons.injEq] at e1
        simp only [List.mem_cons, not_or] at hns
        refine ⟨⟨false, q⟩, ?_, rfl, rfl, by simp [e1.2], hns.2⟩
        simp only [Pat.endsR]
        exact mem_step1.mpr ⟨c0, q, rfl, by rw [e1.1]; exact hp, rfl⟩
    cases m with
    | S => exact Or.inr (key hsim)
    | H =>
      rcases hsim with h | h
      · exact Or.inr (key h)
      · exact Or.inr (sim_F_step dot ci hr (.lit ch) hn hsl as a' x y h hM)
    | F => exact Or.inr (sim_F_step dot ci hr (.lit ch) hn hsl as a' x y hsim hM)
    | D => exact absurd hsim id
    | X => exact Or.inl rfl
  | any =>
    intro m as a' x y hc hsim hM
    cases m with
    | S =>
      exfalso
      have has := hc.1 rfl
      subst has
      simp only [compSeg, Re.M.eq_5] at hM
      obtain ⟨z, h1, _⟩ := hM
      exact pGuard_hidden _ hs x z hsim.2 h1
    | H => exact Or.inl rfl
    | F => exact Or.inr (sim_F_step dot ci hr .any hn hsl as a' x y hsim hM)
    | D => exact absurd hsim id
    | X => exact Or.inl rfl
  | cls neg items =>
    intro m as a' x y hc hsim hM
    cases m with
    | S =>
      exfalso
      have has := hc.1 rfl
      subst has
      simp only [compSeg, Re.M.eq_5] at hM
      obtain ⟨z, h1, _⟩ := hM
      exact pGuard_hidden _ hs x z hsim.2 h1
    | H => exact Or.inl rfl
    | F => exact Or.inr (sim_F_step dot ci hr (.cls neg items) hn hsl as a' x y hsim hM)
    | D => exact absurd hsim id
    | X => exact Or.inl rfl
  | star =>
    intro m as a' x y hc hsim hM
    cases m with
    | S =>
      have has := hc.1 rfl
      subst has
      simp only [compSeg] at hM
      have hy := pStar_hidden _ hs x y hsim.2 hM
      subst hy
      obtain ⟨rfl, e⟩ := hsim
      exact Or.inr ⟨⟨true, p0⟩, by simp [Pat.endsR, hnd], Or.inl ⟨rfl, e⟩⟩
    | H => exact Or.inl rfl
    | F => exact Or.inr (sim_F_step dot ci hr .star hn hsl as a' x y hsim hM)
    | D => exact absurd hsim id
    | X => exact Or.inl rfl
  | seq p q ihp ihq =>
    intro m as a' x y hc hsim hM
    simp only [Pat.negFree, Bool.and_eq_true] at hn
    simp only [Pat.noSlash, Bool.and_eq_true] at hsl
    rw [compSeg_seq _ _ _ _ hn.1, Re.M.eq_5] at hM
    obtain ⟨z, hM1, hM2⟩ := hM
    simp only [Pat.scan]
    rcases ihp hn.1 hsl.1 m as a' x z hc hsim hM1 with hX | ⟨c', hc', hsim1⟩
    · rw [hX, scan_X]; exact Or.inl rfl
    · have hc2 : Compat (p.scan m) (as && p.isEmpty) := by
        constructor
        · intro h1
          obtain ⟨hmS, hpe⟩ := scan_eq_S p m h1
          rw [hc.1 hmS, hpe]; rfl
        · intro h1
          by_cases hmH : m = .H
          · rw [hc.2 hmH]; rfl
          · rw [isEmpty_false_of_scan h1 (fun h => hmH h.symm)]; simp
      rcases ihq hn.2 hsl.2 (p.scan m) _ c' z y hc2 hsim1 hM2 with hX | ⟨b', hb', hsim2⟩
      · exact Or.inl hX
      · refine Or.inr ⟨b', ?_, hsim2⟩
        simp only [Pat.endsR, mem_dedup, List.mem_flatMap]
        exact ⟨c', hc', hb'⟩
  | alt p q ihp ihq =>
    intro m as a' x y hc hsim hM
    have hnq := hn
    have hslq := hsl
    simp only [Pat.negFree, Bool.and_eq_true] at hn
    simp only [Pat.noSlash, Bool.and_eq_true] at hsl
    have hMM := hM
    simp only [compSeg, Re.M] at hM
    -- one branch, in a start mode
    have branch : ∀ (m : HMode), (m = .S ∨ m = .H) → Compat m as → Sim p0 r m a' x →
        (p.scan m).joinAlt (q.scan m) = .X ∨
          ∃ b', b' ∈ Pat.endsR ci .may (.alt p q) a' ∧ Sim p0 r ((p.scan m).joinAlt (q.scan m)) b' y := by
      intro m _ hc hsim
      rcases hM with hM | hM
      · rcases ihp hn.1 hsl.1 m as a' x y hc hsim hM with hX | ⟨b', hb', hs1⟩
        · left; rw [hX]; rfl
        · cases h1 : p.scan m <;> cases h2 : q.scan m <;>
            first
            | exact Or.inl rfl
            | (rw [h1] at hs1; exact absurd hs1 id)
            | (rw [h1] at hs1
               exact Or.inr ⟨b', by simp only [Pat.endsR, mem_dedup, List.mem_append]; exact Or.inl hb', hs1⟩)
      · rcases ihq hn.2 hsl.2 m as a' x y hc hsim hM with hX | ⟨b', hb', hs1⟩
        · left; rw [hX]; cases p.scan m <;> rfl
        · cases h1 : p.scan m <;> cases h2 : q.scan m <;>
            first
            | exact Or.inl rfl
            | (rw [h2] at hs1; exact absurd hs1 id)
            | (rw [h2] at hs1
               exact Or.inr ⟨b', by simp only [Pat.endsR, mem_dedup, List.mem_append]; exact Or.inr hb', hs1⟩)
    cases m with
    | S => exact branch .S (Or.inl rfl) hc hsim
    | H =>
      rcases hsim with h | h
      · exact branch .H (Or.inr rfl) hc (Or.inl h)
      · exact sim_H_free dot ci hr (.alt p q) hnq hslq as a' x y h hMM
    | F => exact Or.inr (sim_F_step dot ci hr (.alt p q) hnq hslq as a' x y hsim hMM)
    | D => exact absurd hsim id
    | X => exact Or.inl rfl
  | ext k p ih =>
    intro m as a' x y hc hsim hM
    cases k with
    | neg => simp [Pat.negFree] at hn
    | one =>
      have hn' : p.negFree = true := by simpa [Pat.negFree] using hn
      have hs' : p.noSlash = true := by simpa [Pat.noSlash] using hsl
      have hMM := hM
      simp only [compSeg, quantRe, Re.M] at hM
      have branch : ∀ (m : HMode), Compat m as → Sim p0 r m a' x →
          (p.scan m).after1 = .X ∨
            ∃ b', b' ∈ Pat.endsR ci .may (.ext .one p) a' ∧ Sim p0 r (p.scan m).after1 b' y := by
        intro m hc hsim
        rcases ih hn' hs' m as a' x y hc hsim hM with hX | ⟨b', hb', hs1⟩
        · left; rw [hX]; rfl
        · cases h1 : p.scan m <;>
            first
            | exact Or.inl rfl
            | (rw [h1] at hs1; exact absurd hs1 id)
            | (rw [h1] at hs1; exact Or.inr ⟨b', by simpa [Pat.endsR] using hb', hs1⟩)
      cases m with
      | S => exact branch .S hc hsim
      | H =>
        rcases hsim with h | h
        · exact branch .H hc (Or.inl h)
        · exact sim_H_free dot ci hr (.ext .one p) hn hsl as a' x y h hMM
      | F => exact Or.inr (sim_F_step dot ci hr (.ext .one p) hn hsl as a' x y hsim hMM)
      | D => exact absurd hsim id
      | X => exact Or.inl rfl
    | opt =>
      have hn' : p.negFree = true := by simpa [Pat.negFree] using hn
      have hs' : p.noSlash = true := by simpa [Pat.noSlash] using hsl
      have hMM := hM
      simp only [compSeg, quantRe, Re.M] at hM
      have branch : ∀ (m : HMode), Compat m as → Sim p0 r m a' x → Sim p0 r .H a' x →
          (p.scan m).after0 = .X ∨
            ∃ b', b' ∈ Pat.endsR ci .may (.ext .opt p) a' ∧ Sim p0 r (p.scan m).after0 b' y := by
        intro m hc hsim hsimH
        have hmem : ∀ b', b' = a' ∨ b' ∈ Pat.endsR ci .may p a' → b' ∈ Pat.endsR ci .may (.ext .opt p) a' := by
          intro b' hb'
          simp only [Pat.endsR]
          rw [if_neg (by simp), mem_dedup, List.mem_cons]
          exact hb'
        rcases hM with rfl | hM
        · cases h1 : p.scan m <;>
            first
            | exact Or.inl rfl
            | exact Or.inr ⟨a', hmem a' (Or.inl rfl), hsimH⟩
        · rcases ih hn' hs' m as a' x y hc hsim hM with hX | ⟨b', hb', hs1⟩
          · left; rw [hX]; rfl
          · cases h1 : p.scan m <;>
              first
              | exact Or.inl rfl
              | (rw [h1] at hs1; exact absurd hs1 id)
              | (rw [h1] at hs1; exact Or.inr ⟨b', hmem b' (Or.inr hb'), Or.inr hs1⟩)
      cases m with
      | S => exact branch .S hc hsim (Or.inl hsim)
      | H =>
        rcases hsim with h | h
        · exact branch .H hc (Or.inl h) (Or.inl h)
        · exact sim_H_free dot ci hr (.ext .opt p) hn hsl as a' x y h hMM
      | F => exact Or.inr (sim_F_step dot ci hr (.ext .opt p) hn hsl as a' x y hsim hMM)
      | D => exact absurd hsim id
      | X => exact Or.inl rfl
    | plus =>
      have hn' : p.negFree = true := by simpa [Pat.negFree] using hn
      have hs' : p.noSlash = true := by simpa [Pat.noSlash] using hsl
      have hnS : (Pat.ext .star p).negFree = true := by simpa [Pat.negFree] using hn'
      have hsS : (Pat.ext .star p).noSlash = true := by simpa [Pat.noSlash] using hs'
      have hMM := hM
      simp only [compSeg, quantRe, Re.M] at hM
      obtain ⟨z, hM1, hM2⟩ := hM
      have hM2' : Re.M ⟨true, ci⟩ (compSeg dot as (.ext .star p)) z y := by
        simpa only [compSeg, quantRe, Re.M] using hM2
      have branch : ∀ (m : HMode), Compat m as → Sim p0 r m a' x →
          (p.scan m).after1 = .X ∨
            ∃ b', b' ∈ Pat.endsR ci .may (.ext .plus p) a' ∧ Sim p0 r (p.scan m).after1 b' y := by
        intro m hc hsim
        rcases ih hn' hs' m as a' x z hc hsim hM1 with hX | ⟨c', hc', hs1⟩
        · left; rw [hX]; rfl
        · cases h1 : p.scan m <;>
            first
            | exact Or.inl rfl
            | (rw [h1] at hs1; exact absurd hs1 id)
            | (rw [h1] at hs1
               obtain ⟨b', hb', hs2⟩ := sim_F_step dot ci hr (.ext .star p) hnS hsS as c' z y hs1 hM2'
               refine Or.inr ⟨b', ?_, hs2⟩
               simp only [Pat.endsR, mem_dedup, List.mem_flatMap]
               refine ⟨c', hc', ?_⟩
               simp only [Pat.endsR] at hb'
               rw [if_neg (by simp)] at hb'
               exact hb')
      cases m with
      | S => exact branch .S hc hsim
      | H =>
        rcases hsim with h | h
        · exact branch .H hc (Or.inl h)
        · exact sim_H_free dot ci hr (.ext .plus p) hn hsl as a' x y h hMM
      | F => exact Or.inr (sim_F_step dot ci hr (.ext .plus p) hn hsl as a' x y hsim hMM)
      | D => exact absurd hsim id
      | X => exact Or.inl rfl
    | star =>
      have hn' : p.negFree = true := by simpa [Pat.negFree] using hn
      have hs' : p.noSlash = true := by simpa [Pat.noSlash] using hsl
      have hMM := hM
      simp only [compSeg, quantRe, Re.M] at hM
      have hle : ∀ u v, v ∈ Pat.endsR ci .may p u → St.Le v u :=
        fun u v h => Pat.L_le ci p u v (endsR_sub ci .may p u v h)
      have branch : ∀ (m : HMode), Compat m as → Sim p0 r m a' x → Sim p0 r .H a' x →
          (p.scan m).after0 = .X ∨
            ∃ b', b' ∈ Pat.endsR ci .may (.ext .star p) a' ∧ Sim p0 r (p.scan m).after0 b' y := by
        intro m hc hsim hsimH
        have hunf : Pat.endsR ci .may (.ext .star p) a' =
            closeN (fun u => Pat.endsR ci .may p u) (a'.rest.length + 1) [a'] := by
          simp only [Pat.endsR]
          rw [if_neg (by simp)]
        cases hM with
        | refl _ =>
          cases h1 : p.scan m <;>
            first
            | exact Or.inl rfl
            | exact Or.inr ⟨a', by rw [hunf]; exact subset_closeN _ _ (List.mem_singleton.mpr rfl), hsimH⟩
        | step hab hbc =>
          rename_i z
          have hM1 : Re.M ⟨true, ci⟩ (compSeg dot as p) x z := by simpa only [Re.M] using hab
          have hM2' : Re.M ⟨true, ci⟩ (compSeg dot as (.ext .star p)) z y := by
            simp only [compSeg, quantRe, Re.M]; exact hbc
          rcases ih hn' hs' m as a' x z hc hsim hM1 with hX | ⟨c', hc', hs1⟩
          · left; rw [hX]; rfl
          · cases h1 : p.scan m <;>
              first
              | exact Or.inl rfl
              | (rw [h1] at hs1; exact absurd hs1 id)
              | (rw [h1] at hs1
                 obtain ⟨b', hb', hs2⟩ := sim_F_step dot ci hr (.ext .star p) hn hsl as c' z y hs1 hM2'
                 refine Or.inr ⟨b', ?_, Or.inr hs2⟩
                 rw [hunf]
                 simp only [Pat.endsR] at hb'
                 rw [if_neg (by simp)] at hb'
                 exact mem_closeN_trans hle hc' hb')
      cases m with
      | S => exact branch .S hc hsim (Or.inl hsim)
      | H =>
        rcases hsim with h | h
        · exact branch .H hc (Or.inl h) (Or.inl h)
        · exact sim_H_free dot ci hr (.ext .star p) hn hsl as a' x y h hMM
      | F => exact Or.inr (sim_F_step dot ci hr (.ext .star p) hn hsl as a' x y hsim hMM)
      | D => exact absurd hsim id
      | X => exact Or.inl rfl

end HL
end WcModel

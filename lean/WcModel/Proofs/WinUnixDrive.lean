import WcModel.Proofs.WinUnixTwin
/-
  C17, the Windows drive scanner on patterns without a backslash:
   * `winDrive_noDrive`   — if it reports no drive, it reports a root exactly for a leading `/`
                            (the hypothesis `NoDrive` of the lock-step);
   * `winDrive_none_of_prefix` — it reports no drive unless the pattern starts with `x:` or `//`;
   * `winDrive_stars`     — the implicit `**` / `***` prefixes have no drive.
-/
namespace WcModel

open Win

theorem sep2_noBs {q : List Char} (hb : '\\' ∉ q) {n : Nat} (h : sep2 q = some n) :
    n = 1 ∧ ∃ r, q = '/' :: r := by
  unfold sep2 at h
  split at h
  · exact absurd (by simp) hb
  · cases h; exact ⟨rfl, _, rfl⟩
  · cases h

theorem isLetter_slash : isLetter '/' = false := by decide

/-- on a backslash-free pattern: no drive reported ⇒ `rootSpecified` ⇔ leading `/` -/
theorem winDrive_noDrive (cfg : Cfg) (q : List Char) (hb : '\\' ∉ q)
    (h : (winDrive cfg q).drive = none) : NoDrive (winDrive cfg q) q := by
  refine ⟨h, ?_⟩
  revert h
  unfold winDrive
  extract_lets none_ altA fin tryFrom altB
  have hA : ∀ x, altA = some x → q.head? = some '/' := by
    intro x hx
    simp only [altA] at hx
    split at hx
    · cases hx
    · rename_i n1 h1
      obtain ⟨_, r, rfl⟩ := sep2_noBs hb h1
      rfl
  have hB : ∀ x, altB = some x → q.head? ≠ some '/' := by
    intro x hx
    cases q with
    | nil =>
      simp only [altB, tryFrom] at hx
      simp at hx
    | cons l r =>
      have hl : l ≠ '\\' := fun e => hb (by simp [e])
      intro hh
      simp only [List.head?_cons, Option.some.injEq] at hh
      subst hh
      simp only [altB, tryFrom] at hx
      simp [isLetter_slash] at hx
  clear_value altA altB
  clear fin tryFrom
  split
  · rename_i g2 end0 b
    extract_lets part0 isSpecial st
    split
    · intro h; cases h
    · intro _
      simp only [none_]
      rw [hA _ rfl]; rfl
  · split
    · rename_i g3 end0 b4
      extract_lets g0 letterOk
      split
      · intro h; cases h
      · intro _
        simp only [none_]
        have := hB _ rfl
        simp [this]
    · intro _
      split
      · exact absurd (by simp) hb
      · rfl
      · rename_i h1 h2
        simp only [none_]
        cases q with
        | nil => rfl
        | cons l r =>
          have : l ≠ '/' := fun e => h2 r (by rw [e])
          simp [this]

/-- the pattern does not start with `x:` nor with `//` -/
def NoDrivePrefix (q : List Char) : Prop :=
  (∀ l r, q ≠ l :: ':' :: r) ∧ (∀ r, q ≠ '/' :: '/' :: r)

theorem winDrive_none_of_prefix (cfg : Cfg) (q : List Char) (hb : '\\' ∉ q) (hp : NoDrivePrefix q) :
    (winDrive cfg q).drive = none := by
  unfold winDrive
  extract_lets none_ altA fin tryFrom altB
  have hA : altA = none := by
    simp only [altA]
    split
    · rfl
    · rename_i n1 h1
      obtain ⟨rfl, r, rfl⟩ := sep2_noBs hb h1
      have hr : '\\' ∉ r := fun hm => hb (by simp [hm])
      split
      · rfl
      · rename_i n2 h2
        obtain ⟨rfl, r2, hr2⟩ := sep2_noBs (q := ('/' :: r).drop 1) (by simpa using hr) h2
        simp only [List.drop_succ_cons, List.drop_zero] at hr2
        subst hr2
        exact absurd rfl (hp.2 r2)
  have hB : altB = none := by
    cases q with
    | nil => simp [altB, tryFrom]
    | cons l r =>
      have hl : l ≠ '\\' := fun e => hb (by simp [e])
      have hr : '\\' ∉ r := fun hm => hb (by simp [hm])
      cases r with
      | nil => simp [altB, tryFrom, hl, fin]
      | cons m r2 =>
        have hm : m ≠ '\\' := fun e => hr (by simp [e])
        have hm2 : m ≠ ':' := fun e => hp.1 l r2 (by rw [e])
        simp [altB, tryFrom, hl, hm, fin, hm2]
  rw [hA, hB]
  dsimp only
  split <;> rfl

theorem winDrive_stars (c cfg : Cfg) : StarsNoDrive c (winDrive cfg) :=
  fun _ => ⟨⟨rfl, rfl⟩, ⟨rfl, rfl⟩⟩

end WcModel

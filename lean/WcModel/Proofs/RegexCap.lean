import WcModel.Model.RegexCap
import WcModel.Proofs.Regex
/-
  R3 — "the capture matcher is the regex semantics".

  `Re.runCap` / `Re.fullmatchCap` (Model/RegexCap.lean: the back-tracking matcher that
  returns the capture spans of the first match in Python's priority order) against the
  declarative semantics `Re.M` (Model/Regex.lean).

  (a) existence:   `Re.fullmatchCap_isSome_iff : r.repOK → ((r.fullmatchCap s).isSome = true ↔ r.FullMatch s)`
      (`Re.fullmatchCap_some_iff` is the same statement) — soundness AND completeness, for every
      subject and every regex whose repeats are well formed (`Re.repOK`: each `{lo,hi}` has
      `lo ≤ hi`; necessary — `Re.fullmatchCap_repOK_needed`: on `(?:){1,0}`, which `re.compile`
      rejects, the matcher answers "match" and `M` has none; the pass only emits `{1,2}` / `{2}`,
      `C04cap.parse_repOK`).  No side condition on nullable star bodies is needed: an empty
      iteration of a star never changes the state (`M_eq_or_lt`), so the progress check of `sre`
      loses no match (`star_greedy_iff`, `star_lazy_iff`, `plus_iff`).
      Fuel: `Re.need` is what a run needs, `Re.need_le_fuel` shows the fuel `(size r + 2) * (|s| + 2)`
      the model passes covers it, and `Re.runCap_fuel` / `Re.fullmatchCap_fuel` show that above `need`
      the result (captures included) does not depend on the fuel at all.
      General form: `Re.runCap_isSome` (any state, any continuation whose success does not
      depend on the captures); `Re.fullmatchCap_isSome_eq_fullmatch`: the two executable matchers
      (`Re.fullmatchCap`, `Re.fullmatch`) agree on existence.
  (b) captures:    `Re.MC` — `M` with captures (one derivation = one accepting run, with the
      binding list it produces);
        `Re.runCap_sound`      what `runCap` returns is the result of the continuation on ONE
                               `MC` derivation;
        `Re.MC.toM`            erasing the captures of an `MC` derivation gives an `M` match;
        `Re.MC_of_M`           every `M` match carries (at least) one `MC` derivation;
        `Re.MC.caps`           every binding added by a derivation is a span of the subject on
                               which the body of that group (`Re.groupAt`) matches, in the mode
                               in effect at the group;
        `Re.fullmatchCap_MC`, `Re.fullmatchCap_spans`   the same for `re.fullmatch`'s reported
                               spans: `spans[i] = some (st, en)` ⇒ `st ≤ en ≤ |s|` and the body of
                               group `i+1` matches `s[st:en]` (as a segment of `s`: from the state
                               "`st` characters consumed" to the state "`en` consumed").
-/
namespace WcModel

/-! ### fuel -/

/-- fuel that `runCap` needs for `r` on a state with `n` characters left -/
def Re.need : Re → Nat → Nat
  | .cat a b, n => 1 + max (a.need n) (b.need n)
  | .alt a b, n => 1 + max (a.need n) (b.need n)
  | .grp r, n => 1 + r.need n
  | .cap r, n => 1 + r.need n
  | .gcap r, n => 1 + r.need n
  | .opt r, n => 1 + r.need n
  | .star _ r, n => n + 1 + r.need n
  | .plus r, n => n + 1 + r.need n
  | .rep _ hi r, n => hi + 1 + r.need n
  | .look _ r, n => 1 + r.need n
  | .flags _ _ r, n => 1 + r.need n
  | .eps, _ => 1
  | .lit _, _ => 1
  | .any, _ => 1
  | .cls _ _, _ => 1
  | .bos, _ => 1
  | .eos, _ => 1

theorem Re.need_pos (r : Re) (n : Nat) : 1 ≤ r.need n := by
  cases r <;> simp only [Re.need] <;> omega

theorem Re.need_mono (r : Re) {m n : Nat} (h : m ≤ n) : r.need m ≤ r.need n := by
  induction r with
  | cat a b iha ihb => simp only [Re.need]; omega
  | alt a b iha ihb => simp only [Re.need]; omega
  | grp r ih => simp only [Re.need]; omega
  | cap r ih => simp only [Re.need]; omega
  | gcap r ih => simp only [Re.need]; omega
  | opt r ih => simp only [Re.need]; omega
  | star l r ih => simp only [Re.need]; omega
  | plus r ih => simp only [Re.need]; omega
  | rep lo hi r ih => simp only [Re.need]; omega
  | look neg r ih => simp only [Re.need]; omega
  | flags s i r ih => simp only [Re.need]; omega
  | eps => exact Nat.le_refl _
  | lit c => exact Nat.le_refl _
  | any => exact Nat.le_refl _
  | cls n i => exact Nat.le_refl _
  | bos => exact Nat.le_refl _
  | eos => exact Nat.le_refl _

/-- `need r n ≤ size r * (n + 1)` -/
theorem Re.need_le_size (r : Re) (n : Nat) : r.need n ≤ r.size * (n + 1) := by
  induction r with
  | cat a b iha ihb =>
    simp only [Re.need, Re.size, Nat.add_mul, Nat.one_mul]
    generalize a.size * (n + 1) = x at *; generalize b.size * (n + 1) = y at *; omega
  | alt a b iha ihb =>
    simp only [Re.need, Re.size, Nat.add_mul, Nat.one_mul]
    generalize a.size * (n + 1) = x at *; generalize b.size * (n + 1) = y at *; omega
  | grp r ih =>
    simp only [Re.need, Re.size, Nat.add_mul, Nat.one_mul]
    generalize r.size * (n + 1) = x at *; omega
  | cap r ih =>
    simp only [Re.need, Re.size, Nat.add_mul, Nat.one_mul]
    generalize r.size * (n + 1) = x at *; omega
  | gcap r ih =>
    simp only [Re.need, Re.size, Nat.add_mul, Nat.one_mul]
    generalize r.size * (n + 1) = x at *; omega
  | opt r ih =>
    simp only [Re.need, Re.size, Nat.add_mul, Nat.one_mul]
    generalize r.size * (n + 1) = x at *; omega
  | star l r ih =>
    simp only [Re.need, Re.size, Nat.add_mul, Nat.one_mul]
    generalize r.size * (n + 1) = x at *; omega
  | plus r ih =>
    simp only [Re.need, Re.size, Nat.add_mul, Nat.one_mul]
    generalize r.size * (n + 1) = x at *; omega
  | rep lo hi r ih =>
    simp only [Re.need, Re.size, Nat.add_mul, Nat.one_mul]
    have : hi ≤ hi * (n + 1) := Nat.le_mul_of_pos_right _ (by omega)
    generalize r.size * (n + 1) = x at *; generalize hi * (n + 1) = y at *; omega
  | look neg r ih =>
    simp only [Re.need, Re.size, Nat.add_mul, Nat.one_mul]
    generalize r.size * (n + 1) = x at *; omega
  | flags s i r ih =>
    simp only [Re.need, Re.size, Nat.add_mul, Nat.one_mul]
    generalize r.size * (n + 1) = x at *; omega
  | eps => simp only [Re.need, Re.size]; omega
  | lit c => simp only [Re.need, Re.size]; omega
  | any => simp only [Re.need, Re.size]; omega
  | cls n i => simp only [Re.need, Re.size]; omega
  | bos => simp only [Re.need, Re.size]; omega
  | eos => simp only [Re.need, Re.size]; omega

/-- **fuel adequacy**: the fuel `Re.fullmatchCap` passes covers what `runCap` needs -/
theorem Re.need_le_fuel (r : Re) (n : Nat) : r.need n ≤ (r.size + 2) * (n + 2) := by
  have h := Re.need_le_size r n
  have h1 : r.size * (n + 1) ≤ (r.size + 2) * (n + 2) := Nat.mul_le_mul (by omega) (by omega)
  omega

/-! ### small facts -/

theorem stepC_eq_some {p : Char → Bool} {a b : St} : stepC p a = some b ↔ consume1 p a b := by
  unfold stepC consume1
  cases h : a.rest with
  | nil => simp
  | cons d s =>
    by_cases hp : p d = true
    · simp only [hp, if_true, Option.some.injEq]
      constructor
      · intro hb; exact ⟨d, s, rfl, hp, hb.symm⟩
      · rintro ⟨d', s', h1, _, hb⟩
        injection h1 with h1 h2; subst h1; subst h2; exact hb.symm
    · simp only [hp]
      constructor
      · intro hb; simp at hb
      · rintro ⟨d', s', h1, h2, _⟩
        injection h1 with h1 _; subst h1; exact absurd h2 hp

theorem stepC_eq_none {p : Char → Bool} {a : St} : stepC p a = none ↔ ¬ ∃ b, consume1 p a b := by
  constructor
  · rintro h ⟨b, hb⟩
    rw [← stepC_eq_some, h] at hb; cases hb
  · intro h
    cases hs : stepC p a with
    | none => rfl
    | some b => exact absurd ⟨b, stepC_eq_some.mp hs⟩ h

/-- `Re.runCap.match_3` is the matcher `match x with | some res => some res | none => y` of
    `Re.runCap` itself (a `match` written here would elaborate to a different auxiliary matcher,
    which `rw` does not identify with it) -/
theorem orElse_isSome (x : Option Caps) (y : Unit → Option Caps) :
    (Re.runCap.match_3 (fun _ => Option Caps) x (fun res => some res) y).isSome = true ↔
      (x.isSome = true ∨ (y ()).isSome = true) := by
  cases x <;> simp

/-- an empty iteration is no iteration: a chain of `R`-steps that never lengthen the rest -/
theorem M_eq_or_lt {md : Mode} {r : Re} {a b : St} (h : Re.M md r a b) :
    b = a ∨ b.rest.length < a.rest.length := by
  rcases Re.M_le md r a b h with h | ⟨_, h⟩
  · exact Or.inl h
  · exact Or.inr h

/-! ### (a) existence: `runCap` succeeds iff `M` has a match the continuation accepts -/

/-- the continuation's success on states with at most `n` characters left is the property
    `P` of the state alone (it does not depend on the captures) -/
def KOb (n : Nat) (k : Kont) (P : St → Prop) : Prop :=
  ∀ b cs, b.rest.length ≤ n → ((k b cs).isSome = true ↔ P b)

theorem KOb.mono {n m : Nat} {k : Kont} {P : St → Prop} (h : KOb n k P) (hm : m ≤ n) : KOb m k P :=
  fun b cs hb => h b cs (by omega)

theorem atom_isSome (p : Char → Bool) (a : St) (cs : Caps) (k : Kont) (P : St → Prop)
    (hk : KOb a.rest.length k P) :
    ((match stepC p a with | some b => k b cs | none => none).isSome = true ↔
      ∃ b, consume1 p a b ∧ P b) := by
  cases hs : stepC p a with
  | none =>
    simp only [Option.isSome_none, Bool.false_eq_true, false_iff]
    rintro ⟨b, hb, _⟩
    exact stepC_eq_none.mp hs ⟨b, hb⟩
  | some b =>
    have hb := stepC_eq_some.mp hs
    simp only
    rw [hk b cs (consume1_le hb).len]
    constructor
    · intro h; exact ⟨b, hb, h⟩
    · rintro ⟨b', hb', h⟩
      have : b' = b := by
        have := stepC_eq_some.mpr hb'
        rw [hs] at this; injection this with this; exact this.symm
      exact this ▸ h

/-! ### the fuel is never exhausted: above `need`, the answer does not depend on it -/

/-- **fuel irrelevance** (answer and captures): with at least `need r |rest|` units, `runCap`
    returns the same result whatever the fuel, for continuations that agree on the states it can
    reach (those with at most as many characters left) -/
theorem Re.runCap_fuel : ∀ (f₁ f₂ : Nat) (md : Mode) (r : Re) (base : Nat) (a : St) (cs : Caps)
    (k₁ k₂ : Kont), r.need a.rest.length ≤ f₁ → r.need a.rest.length ≤ f₂ →
    (∀ b cs', b.rest.length ≤ a.rest.length → k₁ b cs' = k₂ b cs') →
    Re.runCap f₁ md r base a cs k₁ = Re.runCap f₂ md r base a cs k₂ := by
  intro f₁
  induction f₁ with
  | zero => intro f₂ md r base a cs k₁ k₂ h1; have := r.need_pos a.rest.length; omega
  | succ f₁ ih =>
    intro f₂ md r base a cs k₁ k₂ h1 h2 hk
    cases f₂ with
    | zero => have := r.need_pos a.rest.length; omega
    | succ f₂ =>
      have hatom : ∀ p : Char → Bool,
          (match stepC p a with | some b => k₁ b cs | none => none) =
          (match stepC p a with | some b => k₂ b cs | none => none) := by
        intro p
        cases hs : stepC p a with
        | none => rfl
        | some b => exact hk b cs (consume1_le (stepC_eq_some.mp hs)).len
      cases r with
      | eps => simp only [Re.runCap]; exact hk a cs (Nat.le_refl _)
      | lit c => simp only [Re.runCap]; exact hatom _
      | any => simp only [Re.runCap]; exact hatom _
      | cls neg items => simp only [Re.runCap]; exact hatom _
      | bos => simp only [Re.runCap]; rw [hk a cs (Nat.le_refl _)]
      | eos => simp only [Re.runCap]; rw [hk a cs (Nat.le_refl _)]
      | cat r₁ r₂ =>
        simp only [Re.need] at h1 h2
        simp only [Re.runCap]
        exact ih f₂ md r₁ base a cs _ _ (by omega) (by omega) (fun b cs' hb =>
          ih f₂ md r₂ _ b cs' k₁ k₂ (by have := r₂.need_mono hb; omega) (by have := r₂.need_mono hb; omega)
            (fun c cs'' hc => hk c cs'' (by omega)))
      | alt r₁ r₂ =>
        simp only [Re.need] at h1 h2
        simp only [Re.runCap]
        rw [ih f₂ md r₁ base a cs k₁ k₂ (by omega) (by omega) hk,
          ih f₂ md r₂ _ a cs k₁ k₂ (by omega) (by omega) hk]
      | grp r =>
        simp only [Re.need] at h1 h2
        simp only [Re.runCap]
        exact ih f₂ md r base a cs k₁ k₂ (by omega) (by omega) hk
      | cap r =>
        simp only [Re.need] at h1 h2
        simp only [Re.runCap]
        exact ih f₂ md r _ a cs _ _ (by omega) (by omega) (fun b cs' hb => hk b _ hb)
      | gcap r =>
        simp only [Re.need] at h1 h2
        simp only [Re.runCap]
        exact ih f₂ md r _ a cs _ _ (by omega) (by omega) (fun b cs' hb => hk b _ hb)
      | opt r =>
        simp only [Re.need] at h1 h2
        simp only [Re.runCap]
        rw [ih f₂ md r base a cs k₁ k₂ (by omega) (by omega) hk, hk a cs (Nat.le_refl _)]
      | flags s i r =>
        simp only [Re.need] at h1 h2
        simp only [Re.runCap]
        exact ih f₂ ⟨s, i⟩ r base a cs k₁ k₂ (by omega) (by omega) hk
      | look neg r =>
        simp only [Re.need] at h1 h2
        have e := ih f₂ md r base a cs (fun _ cs' => some cs') (fun _ cs' => some cs') (by omega) (by omega)
          (fun _ _ _ => rfl)
        cases neg
        · simp only [Re.runCap]
          rw [e]
          split
          · exact hk a _ (Nat.le_refl _)
          · rfl
        · simp only [Re.runCap]
          rw [e]
          split
          · rfl
          · exact hk a cs (Nat.le_refl _)
      | star lzy r =>
        simp only [Re.need] at h1 h2
        have hstar : ∀ (l : Bool) (b : St) (cs' : Caps), b.rest.length < a.rest.length →
            Re.runCap f₁ md (.star l r) base b cs' k₁ = Re.runCap f₂ md (.star l r) base b cs' k₂ := by
          intro l b cs' hb
          have := r.need_mono (Nat.le_of_lt hb)
          exact ih f₂ md (.star l r) base b cs' k₁ k₂ (by simp only [Re.need]; omega)
            (by simp only [Re.need]; omega) (fun c cs'' hc => hk c cs'' (by omega))
        cases lzy
        · simp only [Re.runCap, Bool.false_eq_true, if_false]
          rw [ih f₂ md r base a cs _ (fun b cs' =>
              if b.rest.length < a.rest.length then Re.runCap f₂ md (.star false r) base b cs' k₂ else k₂ b cs')
            (by omega) (by omega) (fun b cs' hb => by
              by_cases hlt : b.rest.length < a.rest.length
              · simp only [hlt, if_true]; exact hstar false b cs' hlt
              · simp only [hlt, if_false]; exact hk b cs' hb),
            hk a cs (Nat.le_refl _)]
        · simp only [Re.runCap, if_true]
          rw [ih f₂ md r base a cs _ (fun b cs' =>
              if b.rest.length < a.rest.length then Re.runCap f₂ md (.star true r) base b cs' k₂ else none)
            (by omega) (by omega) (fun b cs' hb => by
              by_cases hlt : b.rest.length < a.rest.length
              · simp only [hlt, if_true]; exact hstar true b cs' hlt
              · simp only [hlt, if_false]),
            hk a cs (Nat.le_refl _)]
      | plus r =>
        simp only [Re.need] at h1 h2
        simp only [Re.runCap]
        exact ih f₂ md r base a cs _ _ (by omega) (by omega) (fun b cs' hb => by
          by_cases hlt : b.rest.length < a.rest.length
          · simp only [hlt, if_true]
            have := r.need_mono (Nat.le_of_lt hlt)
            exact ih f₂ md (.star false r) base b cs' k₁ k₂ (by simp only [Re.need]; omega)
              (by simp only [Re.need]; omega) (fun c cs'' hc => hk c cs'' (by omega))
          · simp only [hlt, if_false]; exact hk b cs' hb)
      | rep lo hi r =>
        simp only [Re.need] at h1 h2
        simp only [Re.runCap]
        by_cases hhi : hi = 0
        · simp only [hhi, if_true]; exact hk a cs (Nat.le_refl _)
        · simp only [hhi, if_false]
          rw [ih f₂ md r base a cs _ (fun b cs' => Re.runCap f₂ md (.rep (lo - 1) (hi - 1) r) base b cs' k₂)
            (by omega) (by omega) (fun b cs' hb => by
              have := r.need_mono hb
              exact ih f₂ md (.rep (lo - 1) (hi - 1) r) base b cs' k₁ k₂ (by simp only [Re.need]; omega)
                (by simp only [Re.need]; omega) (fun c cs'' hc => hk c cs'' (by omega))),
            hk a cs (Nat.le_refl _)]

/-- the fuel `Re.fullmatchCap` passes is as good as any larger one: the run is never cut short -/
theorem Re.fullmatchCap_fuel (r : Re) (s : List Char) (f : Nat) (hf : (r.size + 2) * (s.length + 2) ≤ f)
    (k : Kont) :
    Re.runCap f ⟨false, false⟩ r 0 ⟨true, s⟩ [] k =
      Re.runCap ((r.size + 2) * (s.length + 2)) ⟨false, false⟩ r 0 ⟨true, s⟩ [] k :=
  Re.runCap_fuel _ _ _ r 0 ⟨true, s⟩ [] k k (Nat.le_trans (Re.need_le_fuel r s.length) hf)
    (Re.need_le_fuel r s.length) (fun _ _ _ => rfl)

/-- non-vacuity: a thousand times the model's fuel gives the model's answer -/
example (k : Kont) : Re.runCap 36000 ⟨false, false⟩ (.star false (.gcap (.opt (.lit 'a')))) 0 ⟨true, "aaaa".toList⟩ [] k =
    Re.runCap 36 ⟨false, false⟩ (.star false (.gcap (.opt (.lit 'a')))) 0 ⟨true, "aaaa".toList⟩ [] k :=
  Re.fullmatchCap_fuel (.star false (.gcap (.opt (.lit 'a')))) "aaaa".toList 36000 (by decide) k

/-! ### well-formed repeats

  `runCap` on `r{lo,hi}` with `lo > hi` (which `re.compile` rejects: "min repeat greater than
  max repeat") accepts the empty iteration when `hi = 0`, while `M` has no match at all.  Every
  statement below therefore asks for `r.repOK`: every `rep lo hi` node has `lo ≤ hi`.  The pass
  only emits `{1,2}` and `{2}` (`parse_repOK` in `Properties/C04cap.lean`). -/

def Re.repOK : Re → Bool
  | .cat a b => a.repOK && b.repOK
  | .alt a b => a.repOK && b.repOK
  | .grp r => r.repOK
  | .cap r => r.repOK
  | .gcap r => r.repOK
  | .opt r => r.repOK
  | .star _ r => r.repOK
  | .plus r => r.repOK
  | .rep lo hi r => decide (lo ≤ hi) && r.repOK
  | .look _ r => r.repOK
  | .flags _ _ r => r.repOK
  | .eps => true
  | .lit _ => true
  | .any => true
  | .cls _ _ => true
  | .bos => true
  | .eos => true

/-! ### the three loops, over an abstract step relation -/

section loops
variable {R : St → St → Prop} (hR : ∀ a b, R a b → b = a ∨ b.rest.length < a.rest.length)
include hR

theorem star_greedy_iff (P : St → Prop) (a : St) :
    ((∃ b, R a b ∧ (if b.rest.length < a.rest.length then ∃ c, Iter R b c ∧ P c else P b)) ∨ P a) ↔
      ∃ c, Iter R a c ∧ P c := by
  constructor
  · rintro (⟨b, hab, h⟩ | h)
    · split at h
      · obtain ⟨c, hbc, hc⟩ := h
        exact ⟨c, Iter.step hab hbc, hc⟩
      · exact ⟨b, Iter.step hab (Iter.refl b), h⟩
    · exact ⟨a, Iter.refl a, h⟩
  · rintro ⟨c, hac, hc⟩
    induction hac with
    | refl a => exact Or.inr hc
    | step hab hbc ih =>
      rename_i a b c
      have h := ih hc
      rcases hR _ _ hab with heq | hlt
      · rw [heq] at h; exact h
      · exact Or.inl ⟨b, hab, by simp only [hlt, if_true]; exact ⟨c, hbc, hc⟩⟩

theorem star_lazy_iff (P : St → Prop) (a : St) :
    (P a ∨ ∃ b, R a b ∧ (b.rest.length < a.rest.length ∧ ∃ c, Iter R b c ∧ P c)) ↔
      ∃ c, Iter R a c ∧ P c := by
  constructor
  · rintro (h | ⟨b, hab, _, c, hbc, hc⟩)
    · exact ⟨a, Iter.refl a, h⟩
    · exact ⟨c, Iter.step hab hbc, hc⟩
  · rintro ⟨c, hac, hc⟩
    induction hac with
    | refl a => exact Or.inl hc
    | step hab hbc ih =>
      rename_i a b c
      have h := ih hc
      rcases hR _ _ hab with heq | hlt
      · rw [heq] at h; exact h
      · exact Or.inr ⟨b, hab, hlt, c, hbc, hc⟩

theorem plus_iff (P : St → Prop) (a : St) :
    (∃ b, R a b ∧ (if b.rest.length < a.rest.length then ∃ c, Iter R b c ∧ P c else P b)) ↔
      ∃ e, (∃ c, R a c ∧ Iter R c e) ∧ P e := by
  constructor
  · rintro ⟨b, hab, h⟩
    split at h
    · obtain ⟨c, hbc, hc⟩ := h
      exact ⟨c, ⟨b, hab, hbc⟩, hc⟩
    · exact ⟨b, ⟨b, hab, Iter.refl b⟩, h⟩
  · rintro ⟨e, ⟨c, hac, hce⟩, he⟩
    rcases hR _ _ hac with heq | hlt
    · subst heq
      rcases (star_greedy_iff hR P c).mpr ⟨e, hce, he⟩ with h | h
      · exact h
      · exact ⟨c, hac, by simp only [Nat.lt_irrefl, if_false]; exact h⟩
    · exact ⟨c, hac, by simp only [hlt, if_true]; exact ⟨e, hce, he⟩⟩

omit hR in
theorem rep_iff (P : St → Prop) (a : St) (lo hi : Nat) (hlh : lo ≤ hi) (hhi : hi ≠ 0) :
    ((∃ b, R a b ∧ ∃ c, (∃ n, lo - 1 ≤ n ∧ n ≤ hi - 1 ∧ IterN R n b c) ∧ P c) ∨ (lo = 0 ∧ P a)) ↔
      ∃ c, (∃ n, lo ≤ n ∧ n ≤ hi ∧ IterN R n a c) ∧ P c := by
  constructor
  · rintro (⟨b, hab, c, ⟨n, h1, h2, h3⟩, hc⟩ | ⟨h0, h⟩)
    · exact ⟨c, ⟨n + 1, by omega, by omega, IterN.succ hab h3⟩, hc⟩
    · exact ⟨a, ⟨0, by omega, by omega, IterN.zero a⟩, h⟩
  · rintro ⟨c, ⟨n, h1, h2, h3⟩, hc⟩
    cases h3 with
    | zero => exact Or.inr ⟨by omega, hc⟩
    | succ hab hbc => exact Or.inl ⟨_, hab, c, ⟨_, by omega, by omega, hbc⟩, hc⟩

end loops

/-- **(a), general form.**  With the fuel `need r |rest|` and a continuation whose success
    is a property `P` of the end state, `runCap` succeeds exactly when `M` has a match
    ending in a `P` state. -/
theorem Re.runCap_isSome : ∀ (fuel : Nat) (md : Mode) (r : Re) (base : Nat) (a : St) (cs : Caps)
    (k : Kont) (P : St → Prop), r.repOK = true → r.need a.rest.length ≤ fuel →
    KOb a.rest.length k P →
    ((Re.runCap fuel md r base a cs k).isSome = true ↔ ∃ b, Re.M md r a b ∧ P b) := by
  intro fuel
  induction fuel with
  | zero => intro md r base a cs k P _ hf; have := r.need_pos a.rest.length; omega
  | succ f ih =>
    intro md r base a cs k P hok hf hk
    have hR : ∀ (md : Mode) (r : Re) (a b : St), Re.M md r a b → b = a ∨ b.rest.length < a.rest.length :=
      fun md r a b h => M_eq_or_lt h
    cases r with
    | eps =>
      simp only [Re.runCap, Re.M]
      rw [hk a cs (Nat.le_refl _)]
      constructor
      · intro h; exact ⟨a, rfl, h⟩
      · rintro ⟨b, rfl, h⟩; exact h
    | lit c => simp only [Re.runCap, Re.M]; exact atom_isSome _ a cs k P hk
    | any => simp only [Re.runCap, Re.M]; exact atom_isSome _ a cs k P hk
    | cls neg items => simp only [Re.runCap, Re.M]; exact atom_isSome _ a cs k P hk
    | bos =>
      simp only [Re.runCap, Re.M]
      by_cases h : a.atStart = true
      · simp only [h, if_true]
        rw [hk a cs (Nat.le_refl _)]
        constructor
        · intro h'; exact ⟨a, ⟨rfl, trivial⟩, h'⟩
        · rintro ⟨b, ⟨rfl, _⟩, h'⟩; exact h'
      · simp only [h]
        simp
    | eos =>
      simp only [Re.runCap, Re.M]
      by_cases h : atEos a.rest = true
      · simp only [h, if_true]
        rw [hk a cs (Nat.le_refl _)]
        constructor
        · intro h'; exact ⟨a, ⟨rfl, trivial⟩, h'⟩
        · rintro ⟨b, ⟨rfl, _⟩, h'⟩; exact h'
      · simp only [h]
        simp
    | cat r₁ r₂ =>
      simp only [Re.repOK, Bool.and_eq_true] at hok
      simp only [Re.need] at hf
      simp only [Re.runCap, Re.M]
      have hK : KOb a.rest.length (fun b cs' => Re.runCap f md r₂ (base + r₁.ncaps) b cs' k)
          (fun b => ∃ c, Re.M md r₂ b c ∧ P c) := by
        intro b cs' hb
        exact ih md r₂ _ b cs' k P hok.2 (by have := r₂.need_mono hb; omega) (hk.mono hb)
      rw [ih md r₁ base a cs _ _ hok.1 (by omega) hK]
      constructor
      · rintro ⟨b, h1, c, h2, h3⟩; exact ⟨c, ⟨b, h1, h2⟩, h3⟩
      · rintro ⟨c, ⟨b, h1, h2⟩, h3⟩; exact ⟨b, h1, c, h2, h3⟩
    | alt r₁ r₂ =>
      simp only [Re.repOK, Bool.and_eq_true] at hok
      simp only [Re.need] at hf
      simp only [Re.runCap, Re.M]
      rw [orElse_isSome, ih md r₁ base a cs k P hok.1 (by omega) hk,
        ih md r₂ _ a cs k P hok.2 (by omega) hk]
      constructor
      · rintro (⟨b, h1, h2⟩ | ⟨b, h1, h2⟩)
        · exact ⟨b, Or.inl h1, h2⟩
        · exact ⟨b, Or.inr h1, h2⟩
      · rintro ⟨b, h1 | h1, h2⟩
        · exact Or.inl ⟨b, h1, h2⟩
        · exact Or.inr ⟨b, h1, h2⟩
    | grp r =>
      simp only [Re.repOK] at hok
      simp only [Re.need] at hf
      simp only [Re.runCap, Re.M]
      exact ih md r base a cs k P hok (by omega) hk
    | cap r =>
      simp only [Re.repOK] at hok
      simp only [Re.need] at hf
      simp only [Re.runCap, Re.M]
      exact ih md r (base + 1) a cs _ P hok (by omega) (fun b cs' hb => hk b _ hb)
    | gcap r =>
      simp only [Re.repOK] at hok
      simp only [Re.need] at hf
      simp only [Re.runCap, Re.M]
      exact ih md r (base + 1) a cs _ P hok (by omega) (fun b cs' hb => hk b _ hb)
    | opt r =>
      simp only [Re.repOK] at hok
      simp only [Re.need] at hf
      simp only [Re.runCap, Re.M]
      rw [orElse_isSome, ih md r base a cs k P hok (by omega) hk, hk a cs (Nat.le_refl _)]
      constructor
      · rintro (⟨b, h1, h2⟩ | h)
        · exact ⟨b, Or.inr h1, h2⟩
        · exact ⟨a, Or.inl rfl, h⟩
      · rintro ⟨b, rfl | h1, h2⟩
        · exact Or.inr h2
        · exact Or.inl ⟨b, h1, h2⟩
    | flags s i r =>
      simp only [Re.repOK] at hok
      simp only [Re.need] at hf
      simp only [Re.runCap, Re.M]
      exact ih ⟨s, i⟩ r base a cs k P hok (by omega) hk
    | look neg r =>
      simp only [Re.repOK] at hok
      simp only [Re.need] at hf
      have hin := ih md r base a cs (fun _ cs' => some cs') (fun _ => True) hok (by omega)
        (fun b cs _ => by simp)
      cases neg
      · simp only [Re.runCap, Re.M]
        generalize Re.runCap f md r base a cs (fun _ cs' => some cs') = o at hin
        cases o with
        | none =>
          simp only [Option.isSome_none, Bool.false_eq_true, false_iff]
          rintro ⟨b, ⟨_, c, hc⟩, _⟩
          have := hin.mpr ⟨c, hc, trivial⟩
          simp at this
        | some cs' =>
          simp only
          rw [hk a cs' (Nat.le_refl _)]
          obtain ⟨c, hc, _⟩ := hin.mp rfl
          constructor
          · intro h; exact ⟨a, ⟨rfl, c, hc⟩, h⟩
          · rintro ⟨b, ⟨rfl, _⟩, h⟩; exact h
      · simp only [Re.runCap, Re.M]
        generalize Re.runCap f md r base a cs (fun _ cs' => some cs') = o at hin
        cases o with
        | none =>
          simp only
          rw [hk a cs (Nat.le_refl _)]
          have hno : ¬ ∃ c, Re.M md r a c := by
            rintro ⟨c, hc⟩
            have := hin.mpr ⟨c, hc, trivial⟩
            simp at this
          constructor
          · intro h; exact ⟨a, ⟨rfl, hno⟩, h⟩
          · rintro ⟨b, ⟨rfl, _⟩, h⟩; exact h
        | some cs' =>
          simp only [Option.isSome_none, Bool.false_eq_true, false_iff]
          obtain ⟨c, hc, _⟩ := hin.mp rfl
          rintro ⟨b, ⟨_, hno⟩, _⟩
          exact hno ⟨c, hc⟩
    | star lzy r =>
      simp only [Re.repOK] at hok
      simp only [Re.need] at hf
      have hstar : ∀ (l : Bool) (b : St) (cs' : Caps), b.rest.length < a.rest.length →
          ((Re.runCap f md (.star l r) base b cs' k).isSome = true ↔ ∃ c, Iter (Re.M md r) b c ∧ P c) := by
        intro l b cs' hb
        have := ih md (.star l r) base b cs' k P (by simpa only [Re.repOK] using hok)
          (by simp only [Re.need]; have := r.need_mono (Nat.le_of_lt hb); omega) (hk.mono (Nat.le_of_lt hb))
        simpa only [Re.M] using this
      cases lzy
      · simp only [Re.runCap, Re.M, Bool.false_eq_true, if_false]
        have hK : KOb a.rest.length (fun b cs' =>
              if b.rest.length < a.rest.length then Re.runCap f md (.star false r) base b cs' k else k b cs')
            (fun b => if b.rest.length < a.rest.length then ∃ c, Iter (Re.M md r) b c ∧ P c else P b) := by
          intro b cs' hb
          by_cases hlt : b.rest.length < a.rest.length
          · simp only [hlt, if_true]; exact hstar false b cs' hlt
          · simp only [hlt, if_false]; exact hk b cs' hb
        rw [orElse_isSome, ih md r base a cs _ _ hok (by omega) hK, hk a cs (Nat.le_refl _)]
        exact star_greedy_iff (hR md r) P a
      · simp only [Re.runCap, Re.M, if_true]
        have hK : KOb a.rest.length (fun b cs' =>
              if b.rest.length < a.rest.length then Re.runCap f md (.star true r) base b cs' k else none)
            (fun b => b.rest.length < a.rest.length ∧ ∃ c, Iter (Re.M md r) b c ∧ P c) := by
          intro b cs' hb
          by_cases hlt : b.rest.length < a.rest.length
          · simp only [hlt, if_true, true_and]; exact hstar true b cs' hlt
          · simp only [hlt, if_false, false_and]; simp
        rw [orElse_isSome, ih md r base a cs _ _ hok (by omega) hK, hk a cs (Nat.le_refl _)]
        exact star_lazy_iff (hR md r) P a
    | plus r =>
      simp only [Re.repOK] at hok
      simp only [Re.need] at hf
      simp only [Re.runCap, Re.M]
      have hK : KOb a.rest.length (fun b cs' =>
            if b.rest.length < a.rest.length then Re.runCap f md (.star false r) base b cs' k else k b cs')
          (fun b => if b.rest.length < a.rest.length then ∃ c, Iter (Re.M md r) b c ∧ P c else P b) := by
        intro b cs' hb
        by_cases hlt : b.rest.length < a.rest.length
        · simp only [hlt, if_true]
          have := ih md (.star false r) base b cs' k P (by simpa only [Re.repOK] using hok)
            (by simp only [Re.need]; have := r.need_mono (Nat.le_of_lt hlt); omega) (hk.mono hb)
          simpa only [Re.M] using this
        · simp only [hlt, if_false]; exact hk b cs' hb
      rw [ih md r base a cs _ _ hok (by omega) hK]
      exact plus_iff (hR md r) P a
    | rep lo hi r =>
      simp only [Re.repOK, Bool.and_eq_true, decide_eq_true_eq] at hok
      simp only [Re.need] at hf
      simp only [Re.runCap, Re.M]
      by_cases hhi : hi = 0
      · simp only [hhi, if_true]
        rw [hk a cs (Nat.le_refl _)]
        constructor
        · intro h; exact ⟨a, ⟨0, by omega, by omega, IterN.zero a⟩, h⟩
        · rintro ⟨b, ⟨n, h1, h2, h3⟩, h⟩
          have : n = 0 := by omega
          subst this
          cases h3
          exact h
      · simp only [hhi, if_false]
        have hK : KOb a.rest.length (fun b cs' => Re.runCap f md (.rep (lo - 1) (hi - 1) r) base b cs' k)
            (fun b => ∃ c, (∃ n, lo - 1 ≤ n ∧ n ≤ hi - 1 ∧ IterN (Re.M md r) n b c) ∧ P c) := by
          intro b cs' hb
          have := ih md (.rep (lo - 1) (hi - 1) r) base b cs' k P
            (by simp only [Re.repOK, Bool.and_eq_true, decide_eq_true_eq]; exact ⟨by omega, hok.2⟩)
            (by simp only [Re.need]; have := r.need_mono hb; omega) (hk.mono hb)
          simpa only [Re.M] using this
        rw [orElse_isSome, ih md r base a cs _ _ hok.2 (by omega) hK]
        have h2 : ((if lo = 0 then k a cs else none).isSome = true) ↔ (lo = 0 ∧ P a) := by
          by_cases hlo : lo = 0
          · simp only [hlo, if_true, true_and]; exact hk a cs (Nat.le_refl _)
          · simp only [hlo, if_false, false_and]; simp
        rw [h2]
        exact rep_iff P a lo hi hok.1 hhi

/-- **(a)** `re.fullmatch` through the capture matcher succeeds exactly when the declarative
    semantics has a full match — soundness and completeness, with the fuel the model passes. -/
theorem Re.fullmatchCap_isSome_iff (r : Re) (s : List Char) (hok : r.repOK = true) :
    (r.fullmatchCap s).isSome = true ↔ r.FullMatch s := by
  have hk : KOb (St.mk true s).rest.length (fun b cs => if b.rest.isEmpty then some cs else none)
      (fun b => b.rest = []) := by
    intro b cs _
    cases hb : b.rest <;> simp
  have h := Re.runCap_isSome ((r.size + 2) * (s.length + 2)) ⟨false, false⟩ r 0 ⟨true, s⟩ [] _ _ hok
    (Re.need_le_fuel r s.length) hk
  have e : (r.fullmatchCap s).isSome =
      (Re.runCap ((r.size + 2) * (s.length + 2)) ⟨false, false⟩ r 0 ⟨true, s⟩ []
        (fun b cs => if b.rest.isEmpty then some cs else none)).isSome := by
    unfold Re.fullmatchCap
    simp only
    split <;> simp_all
  rw [e, h]
  unfold Re.FullMatch
  constructor
  · rintro ⟨⟨b, rest⟩, hm, hr⟩
    simp only at hr; subst hr
    exact ⟨b, hm⟩
  · rintro ⟨b, hm⟩; exact ⟨⟨b, []⟩, hm, rfl⟩

/-- the name the task statement uses -/
theorem Re.fullmatchCap_some_iff (r : Re) (s : List Char) (hok : r.repOK = true) :
    (r.fullmatchCap s).isSome ↔ r.FullMatch s := Re.fullmatchCap_isSome_iff r s hok

/-- the two executable matchers agree: the capture matcher succeeds iff the end-state matcher does -/
theorem Re.fullmatchCap_isSome_eq_fullmatch (r : Re) (s : List Char) (hok : r.repOK = true) :
    (r.fullmatchCap s).isSome = r.fullmatch s := by
  rw [Bool.eq_iff_iff, Re.fullmatchCap_isSome_iff r s hok, Re.fullmatch_iff]

theorem Re.fullmatchCap_none_iff (r : Re) (s : List Char) (hok : r.repOK = true) :
    r.fullmatchCap s = none ↔ ¬ r.FullMatch s := by
  rw [← Re.fullmatchCap_isSome_iff r s hok]
  cases r.fullmatchCap s <;> simp

/-- the `repOK` hypothesis is necessary: on the ill-formed `(?:){1,0}` the matcher reports a
    match and `M` has none (`re.compile` rejects this regex; the pass never emits it) -/
theorem Re.fullmatchCap_repOK_needed :
    ((Re.rep 1 0 .eps).fullmatchCap []).isSome = true ∧ ¬ (Re.rep 1 0 .eps).FullMatch [] := by
  refine ⟨by decide +kernel, ?_⟩
  rintro ⟨b, n, h1, h2, _⟩
  omega

/-- non-vacuity of (a): a nullable star body under a star, a lazy star, a look-ahead, `{1,2}` -/
example : (Re.cat (.star false (.grp (.star true (.lit 'a')))) (.cat (.look true (.lit 'c'))
    (.cat (.rep 1 2 (.lit 'b')) .eos))).FullMatch "aabb".toList :=
  (Re.fullmatchCap_isSome_iff _ _ (by decide)).mp (by decide +kernel)

/-! ### (b) `M` with captures -/

/-- `MC md r base a cs b cs'`: one accepting run of `r` (whose groups are numbered from
    `base + 1`) from state `a` with bindings `cs` to state `b` with bindings `cs'` — `Re.M`
    plus the bookkeeping of `sre`: a group binds when it closes, latest binding first, bindings
    made inside a positive look-ahead are kept, inside a negative one there are none. -/
inductive Re.MC : Mode → Re → Nat → St → Caps → St → Caps → Prop
  | eps {md base a cs} : Re.MC md .eps base a cs a cs
  | lit {md base a cs b c} : consume1 (charEq md.ci c) a b → Re.MC md (.lit c) base a cs b cs
  | any {md base a cs b} : consume1 (anyMatch md.dotall) a b → Re.MC md .any base a cs b cs
  | cls {md base a cs b neg items} : consume1 (clsMatch md.ci neg items) a b →
      Re.MC md (.cls neg items) base a cs b cs
  | cat {md base a cs c cs₁ b cs₂ r₁ r₂} : Re.MC md r₁ base a cs c cs₁ →
      Re.MC md r₂ (base + r₁.ncaps) c cs₁ b cs₂ → Re.MC md (.cat r₁ r₂) base a cs b cs₂
  | altL {md base a cs b cs' r₁ r₂} : Re.MC md r₁ base a cs b cs' → Re.MC md (.alt r₁ r₂) base a cs b cs'
  | altR {md base a cs b cs' r₁ r₂} : Re.MC md r₂ (base + r₁.ncaps) a cs b cs' →
      Re.MC md (.alt r₁ r₂) base a cs b cs'
  | grp {md base a cs b cs' r} : Re.MC md r base a cs b cs' → Re.MC md (.grp r) base a cs b cs'
  | cap {md base a cs b cs' r} : Re.MC md r (base + 1) a cs b cs' →
      Re.MC md (.cap r) base a cs b ((base + 1, a.rest.length, b.rest.length) :: cs')
  | gcap {md base a cs b cs' r} : Re.MC md r (base + 1) a cs b cs' →
      Re.MC md (.gcap r) base a cs b ((base + 1, a.rest.length, b.rest.length) :: cs')
  | optNone {md base a cs r} : Re.MC md (.opt r) base a cs a cs
  | optSome {md base a cs b cs' r} : Re.MC md r base a cs b cs' → Re.MC md (.opt r) base a cs b cs'
  | starNil {md base a cs l r} : Re.MC md (.star l r) base a cs a cs
  | starCons {md base a cs c cs₁ b cs₂ l r} : Re.MC md r base a cs c cs₁ →
      Re.MC md (.star l r) base c cs₁ b cs₂ → Re.MC md (.star l r) base a cs b cs₂
  | plus {md base a cs c cs₁ b cs₂ r} : Re.MC md r base a cs c cs₁ →
      Re.MC md (.star false r) base c cs₁ b cs₂ → Re.MC md (.plus r) base a cs b cs₂
  | repNil {md base a cs hi r} : Re.MC md (.rep 0 hi r) base a cs a cs
  | repCons {md base a cs c cs₁ b cs₂ lo hi r} : hi ≠ 0 → Re.MC md r base a cs c cs₁ →
      Re.MC md (.rep (lo - 1) (hi - 1) r) base c cs₁ b cs₂ → Re.MC md (.rep lo hi r) base a cs b cs₂
  | lookPos {md base a cs c cs' r} : Re.MC md r base a cs c cs' → Re.MC md (.look false r) base a cs a cs'
  | lookNeg {md base a cs r} : (¬ ∃ c, Re.M md r a c) → Re.MC md (.look true r) base a cs a cs
  | bos {md base a cs} : a.atStart = true → Re.MC md .bos base a cs a cs
  | eos {md base a cs} : atEos a.rest = true → Re.MC md .eos base a cs a cs
  | flags {md base a cs b cs' s i r} : Re.MC ⟨s, i⟩ r base a cs b cs' → Re.MC md (.flags s i r) base a cs b cs'

/-- erasing the captures of a run gives a match of the declarative semantics -/
theorem Re.MC.toM {md : Mode} {r : Re} {base : Nat} {a b : St} {cs cs' : Caps}
    (h : Re.MC md r base a cs b cs') : Re.M md r a b := by
  induction h with
  | eps => simp only [Re.M]
  | lit h => exact h
  | any h => exact h
  | cls h => exact h
  | cat _ _ ih₁ ih₂ => exact ⟨_, ih₁, ih₂⟩
  | altL _ ih => exact Or.inl ih
  | altR _ ih => exact Or.inr ih
  | grp _ ih => exact ih
  | cap _ ih => exact ih
  | gcap _ ih => exact ih
  | optNone => exact Or.inl rfl
  | optSome _ ih => exact Or.inr ih
  | starNil => exact Iter.refl _
  | starCons _ _ ih₁ ih₂ => simp only [Re.M] at ih₂ ⊢; exact Iter.step ih₁ ih₂
  | plus _ _ ih₁ ih₂ => simp only [Re.M] at ih₂ ⊢; exact ⟨_, ih₁, ih₂⟩
  | repNil => exact ⟨0, Nat.le_refl _, Nat.zero_le _, IterN.zero _⟩
  | repCons hhi _ _ ih₁ ih₂ =>
    simp only [Re.M] at ih₂ ⊢
    obtain ⟨n, h1, h2, h3⟩ := ih₂
    exact ⟨n + 1, by omega, by omega, IterN.succ ih₁ h3⟩
  | lookPos _ ih => exact ⟨rfl, _, ih⟩
  | lookNeg h => exact ⟨rfl, h⟩
  | bos h => exact ⟨rfl, h⟩
  | eos h => exact ⟨rfl, h⟩
  | flags _ ih => exact ih

theorem Re.MC_star_of_iter {md : Mode} {r : Re} {base : Nat} {l : Bool}
    (ih : ∀ (a b : St) (cs : Caps), Re.M md r a b → ∃ cs', Re.MC md r base a cs b cs') {a b : St}
    (h : Iter (Re.M md r) a b) : ∀ cs, ∃ cs', Re.MC md (.star l r) base a cs b cs' := by
  induction h with
  | refl a => intro cs; exact ⟨cs, .starNil⟩
  | step hab _ ih2 =>
    intro cs
    obtain ⟨cs₁, m1⟩ := ih _ _ cs hab
    obtain ⟨cs₂, m2⟩ := ih2 cs₁
    exact ⟨cs₂, .starCons m1 m2⟩

/-- every match of the declarative semantics is the erasure of (at least) one run -/
theorem Re.MC_of_M (r : Re) : ∀ (md : Mode) (base : Nat) (a b : St) (cs : Caps),
    Re.M md r a b → ∃ cs', Re.MC md r base a cs b cs' := by
  induction r with
  | eps => intro md base a b cs h; simp only [Re.M] at h; subst h; exact ⟨cs, .eps⟩
  | lit c => intro md base a b cs h; exact ⟨cs, .lit h⟩
  | any => intro md base a b cs h; exact ⟨cs, .any h⟩
  | cls neg items => intro md base a b cs h; exact ⟨cs, .cls h⟩
  | bos => intro md base a b cs h; simp only [Re.M] at h; obtain ⟨rfl, h⟩ := h; exact ⟨cs, .bos h⟩
  | eos => intro md base a b cs h; simp only [Re.M] at h; obtain ⟨rfl, h⟩ := h; exact ⟨cs, .eos h⟩
  | cat r₁ r₂ ih₁ ih₂ =>
    intro md base a b cs h
    obtain ⟨c, h1, h2⟩ := h
    obtain ⟨cs₁, m1⟩ := ih₁ md base a c cs h1
    obtain ⟨cs₂, m2⟩ := ih₂ md (base + r₁.ncaps) c b cs₁ h2
    exact ⟨cs₂, .cat m1 m2⟩
  | alt r₁ r₂ ih₁ ih₂ =>
    intro md base a b cs h
    rcases h with h | h
    · obtain ⟨cs', m⟩ := ih₁ md base a b cs h; exact ⟨cs', .altL m⟩
    · obtain ⟨cs', m⟩ := ih₂ md (base + r₁.ncaps) a b cs h; exact ⟨cs', .altR m⟩
  | grp r ih => intro md base a b cs h; obtain ⟨cs', m⟩ := ih md base a b cs h; exact ⟨cs', .grp m⟩
  | cap r ih => intro md base a b cs h; obtain ⟨cs', m⟩ := ih md (base + 1) a b cs h; exact ⟨_, .cap m⟩
  | gcap r ih => intro md base a b cs h; obtain ⟨cs', m⟩ := ih md (base + 1) a b cs h; exact ⟨_, .gcap m⟩
  | opt r ih =>
    intro md base a b cs h
    rcases h with h | h
    · subst h; exact ⟨cs, .optNone⟩
    · obtain ⟨cs', m⟩ := ih md base a b cs h; exact ⟨cs', .optSome m⟩
  | flags s i r ih => intro md base a b cs h; obtain ⟨cs', m⟩ := ih ⟨s, i⟩ base a b cs h; exact ⟨cs', .flags m⟩
  | look neg r ih =>
    intro md base a b cs h
    cases neg
    · simp only [Re.M] at h
      obtain ⟨rfl, c, hc⟩ := h
      obtain ⟨cs', m⟩ := ih md base b c cs hc
      exact ⟨cs', .lookPos m⟩
    · simp only [Re.M] at h
      obtain ⟨rfl, hc⟩ := h
      exact ⟨cs, .lookNeg hc⟩
  | star l r ih =>
    intro md base a b cs h
    simp only [Re.M] at h
    exact Re.MC_star_of_iter (fun a b cs h => ih md base a b cs h) h cs
  | plus r ih =>
    intro md base a b cs h
    obtain ⟨c, h1, h2⟩ := h
    obtain ⟨cs₁, m1⟩ := ih md base a c cs h1
    obtain ⟨cs₂, m2⟩ := Re.MC_star_of_iter (l := false) (fun a b cs h => ih md base a b cs h) h2 cs₁
    exact ⟨cs₂, .plus m1 m2⟩
  | rep lo hi r ih =>
    intro md base a b cs h
    obtain ⟨n, h1, h2, h3⟩ := h
    induction h3 generalizing lo hi cs with
    | zero a =>
      have : lo = 0 := by omega
      subst this
      exact ⟨cs, .repNil⟩
    | succ hab _ ih2 =>
      obtain ⟨cs₁, m1⟩ := ih md base _ _ cs hab
      obtain ⟨cs₂, m2⟩ := ih2 (lo - 1) (hi - 1) cs₁ (by omega) (by omega)
      exact ⟨cs₂, .repCons (by omega) m1 m2⟩

/-! ### what `runCap` returns is the continuation's answer on ONE run -/

theorem orElse_eq_some (x : Option Caps) (y : Unit → Option Caps) (res : Caps) :
    Re.runCap.match_3 (fun _ => Option Caps) x (fun res => some res) y = some res ↔
      (x = some res ∨ (x = none ∧ y () = some res)) := by
  cases x <;> simp

theorem atom_sound (p : Char → Bool) (a : St) (cs : Caps) (k : Kont) (res : Caps)
    (h : (match stepC p a with | some b => k b cs | none => none) = some res) :
    ∃ b, consume1 p a b ∧ k b cs = some res := by
  cases hs : stepC p a with
  | none => simp [hs] at h
  | some b => simp only [hs] at h; exact ⟨b, stepC_eq_some.mp hs, h⟩

/-- **(b), general form.**  If `runCap` answers `res`, there is one run of `r` (an `MC`
    derivation) on whose end state and bindings the continuation answers `res`. -/
theorem Re.runCap_sound : ∀ (fuel : Nat) (md : Mode) (r : Re) (base : Nat) (a : St) (cs : Caps)
    (k : Kont) (res : Caps), r.repOK = true → r.need a.rest.length ≤ fuel →
    Re.runCap fuel md r base a cs k = some res →
    ∃ b cs', Re.MC md r base a cs b cs' ∧ k b cs' = some res := by
  intro fuel
  induction fuel with
  | zero => intro md r base a cs k res _ hf; have := r.need_pos a.rest.length; omega
  | succ f ih =>
    intro md r base a cs k res hok hf h
    have hlen : ∀ {md : Mode} {r : Re} {base : Nat} {a b : St} {cs cs' : Caps},
        Re.MC md r base a cs b cs' → b.rest.length ≤ a.rest.length :=
      fun m => (Re.M_le _ _ _ _ m.toM).len
    cases r with
    | eps => simp only [Re.runCap] at h; exact ⟨a, cs, .eps, h⟩
    | lit c =>
      simp only [Re.runCap] at h
      obtain ⟨b, hb, hk⟩ := atom_sound _ a cs k res h
      exact ⟨b, cs, .lit hb, hk⟩
    | any =>
      simp only [Re.runCap] at h
      obtain ⟨b, hb, hk⟩ := atom_sound _ a cs k res h
      exact ⟨b, cs, .any hb, hk⟩
    | cls neg items =>
      simp only [Re.runCap] at h
      obtain ⟨b, hb, hk⟩ := atom_sound _ a cs k res h
      exact ⟨b, cs, .cls hb, hk⟩
    | bos =>
      simp only [Re.runCap] at h
      by_cases hs : a.atStart = true
      · simp only [hs, if_true] at h; exact ⟨a, cs, .bos hs, h⟩
      · simp [hs] at h
    | eos =>
      simp only [Re.runCap] at h
      by_cases hs : atEos a.rest = true
      · simp only [hs, if_true] at h; exact ⟨a, cs, .eos hs, h⟩
      · simp [hs] at h
    | cat r₁ r₂ =>
      simp only [Re.repOK, Bool.and_eq_true] at hok
      simp only [Re.need] at hf
      simp only [Re.runCap] at h
      obtain ⟨c, cs₁, m1, h1⟩ := ih md r₁ base a cs _ res hok.1 (by omega) h
      obtain ⟨b, cs₂, m2, h2⟩ := ih md r₂ _ c cs₁ k res hok.2
        (by have := r₂.need_mono (hlen m1); omega) h1
      exact ⟨b, cs₂, .cat m1 m2, h2⟩
    | alt r₁ r₂ =>
      simp only [Re.repOK, Bool.and_eq_true] at hok
      simp only [Re.need] at hf
      simp only [Re.runCap] at h
      rw [orElse_eq_some] at h
      rcases h with h | ⟨_, h⟩
      · obtain ⟨b, cs', m, hk⟩ := ih md r₁ base a cs k res hok.1 (by omega) h
        exact ⟨b, cs', .altL m, hk⟩
      · obtain ⟨b, cs', m, hk⟩ := ih md r₂ _ a cs k res hok.2 (by omega) h
        exact ⟨b, cs', .altR m, hk⟩
    | grp r =>
      simp only [Re.repOK] at hok
      simp only [Re.need] at hf
      simp only [Re.runCap] at h
      obtain ⟨b, cs', m, hk⟩ := ih md r base a cs k res hok (by omega) h
      exact ⟨b, cs', .grp m, hk⟩
    | cap r =>
      simp only [Re.repOK] at hok
      simp only [Re.need] at hf
      simp only [Re.runCap] at h
      obtain ⟨b, cs', m, hk⟩ := ih md r (base + 1) a cs _ res hok (by omega) h
      exact ⟨b, _, .cap m, hk⟩
    | gcap r =>
      simp only [Re.repOK] at hok
      simp only [Re.need] at hf
      simp only [Re.runCap] at h
      obtain ⟨b, cs', m, hk⟩ := ih md r (base + 1) a cs _ res hok (by omega) h
      exact ⟨b, _, .gcap m, hk⟩
    | opt r =>
      simp only [Re.repOK] at hok
      simp only [Re.need] at hf
      simp only [Re.runCap] at h
      rw [orElse_eq_some] at h
      rcases h with h | ⟨_, h⟩
      · obtain ⟨b, cs', m, hk⟩ := ih md r base a cs k res hok (by omega) h
        exact ⟨b, cs', .optSome m, hk⟩
      · exact ⟨a, cs, .optNone, h⟩
    | flags s i r =>
      simp only [Re.repOK] at hok
      simp only [Re.need] at hf
      simp only [Re.runCap] at h
      obtain ⟨b, cs', m, hk⟩ := ih ⟨s, i⟩ r base a cs k res hok (by omega) h
      exact ⟨b, cs', .flags m, hk⟩
    | look neg r =>
      simp only [Re.repOK] at hok
      simp only [Re.need] at hf
      cases neg
      · simp only [Re.runCap] at h
        cases ho : Re.runCap f md r base a cs (fun _ cs' => some cs') with
        | none => simp [ho] at h
        | some cs' =>
          simp only [ho] at h
          obtain ⟨c, cs'', m, hk⟩ := ih md r base a cs _ cs' hok (by omega) ho
          simp only [Option.some.injEq] at hk
          subst hk
          exact ⟨a, cs'', .lookPos m, h⟩
      · simp only [Re.runCap] at h
        have hin := Re.runCap_isSome f md r base a cs (fun _ cs' => some cs') (fun _ => True) hok
          (by omega) (fun b cs _ => by simp)
        cases ho : Re.runCap f md r base a cs (fun _ cs' => some cs') with
        | some cs' => simp [ho] at h
        | none =>
          simp only [ho] at h
          have hno : ¬ ∃ c, Re.M md r a c := by
            rintro ⟨c, hc⟩
            have := hin.mpr ⟨c, hc, trivial⟩
            simp [ho] at this
          exact ⟨a, cs, .lookNeg hno, h⟩
    | star lzy r =>
      simp only [Re.repOK] at hok
      simp only [Re.need] at hf
      have hstar : ∀ (l : Bool) (c : St) (cs₁ : Caps), c.rest.length < a.rest.length →
          Re.runCap f md (.star l r) base c cs₁ k = some res →
          ∃ b cs₂, Re.MC md (.star l r) base c cs₁ b cs₂ ∧ k b cs₂ = some res := by
        intro l c cs₁ hc hrun
        exact ih md (.star l r) base c cs₁ k res (by simpa only [Re.repOK] using hok)
          (by simp only [Re.need]; have := r.need_mono (Nat.le_of_lt hc); omega) hrun
      cases lzy
      · simp only [Re.runCap, Bool.false_eq_true, if_false] at h
        rw [orElse_eq_some] at h
        rcases h with h | ⟨_, h⟩
        · obtain ⟨c, cs₁, m1, h1⟩ := ih md r base a cs _ res hok (by omega) h
          split at h1
          · rename_i hlt
            obtain ⟨b, cs₂, m2, h2⟩ := hstar false c cs₁ hlt h1
            exact ⟨b, cs₂, .starCons m1 m2, h2⟩
          · exact ⟨c, cs₁, .starCons m1 .starNil, h1⟩
        · exact ⟨a, cs, .starNil, h⟩
      · simp only [Re.runCap, if_true] at h
        rw [orElse_eq_some] at h
        rcases h with h | ⟨_, h⟩
        · exact ⟨a, cs, .starNil, h⟩
        · obtain ⟨c, cs₁, m1, h1⟩ := ih md r base a cs _ res hok (by omega) h
          split at h1
          · rename_i hlt
            obtain ⟨b, cs₂, m2, h2⟩ := hstar true c cs₁ hlt h1
            exact ⟨b, cs₂, .starCons m1 m2, h2⟩
          · cases h1
    | plus r =>
      simp only [Re.repOK] at hok
      simp only [Re.need] at hf
      simp only [Re.runCap] at h
      obtain ⟨c, cs₁, m1, h1⟩ := ih md r base a cs _ res hok (by omega) h
      split at h1
      · rename_i hlt
        obtain ⟨b, cs₂, m2, h2⟩ := ih md (.star false r) base c cs₁ k res (by simpa only [Re.repOK] using hok)
          (by simp only [Re.need]; have := r.need_mono (Nat.le_of_lt hlt); omega) h1
        exact ⟨b, cs₂, .plus m1 m2, h2⟩
      · exact ⟨c, cs₁, .plus m1 .starNil, h1⟩
    | rep lo hi r =>
      simp only [Re.repOK, Bool.and_eq_true, decide_eq_true_eq] at hok
      simp only [Re.need] at hf
      simp only [Re.runCap] at h
      by_cases hhi : hi = 0
      · simp only [hhi, if_true] at h
        have : lo = 0 := by omega
        subst this; subst hhi
        exact ⟨a, cs, .repNil, h⟩
      · simp only [hhi, if_false] at h
        rw [orElse_eq_some] at h
        rcases h with h | ⟨_, h⟩
        · obtain ⟨c, cs₁, m1, h1⟩ := ih md r base a cs _ res hok.2 (by omega) h
          obtain ⟨b, cs₂, m2, h2⟩ := ih md (.rep (lo - 1) (hi - 1) r) base c cs₁ k res
            (by simp only [Re.repOK, Bool.and_eq_true, decide_eq_true_eq]; exact ⟨by omega, hok.2⟩)
            (by simp only [Re.need]; have := r.need_mono (hlen m1); omega) h1
          exact ⟨b, cs₂, .repCons hhi m1 m2, h2⟩
        · by_cases hlo : lo = 0
          · simp only [hlo, if_true] at h
            subst hlo
            exact ⟨a, cs, .repNil, h⟩
          · simp [hlo] at h

/-! ### what a binding means -/

/-- a suffix state: `b` is `a` or strictly further into the subject, and `b.rest` is a suffix of `a.rest` -/
def St.Sub (b a : St) : Prop := St.Le b a ∧ b.rest <:+ a.rest

theorem St.Sub.refl (a : St) : St.Sub a a := ⟨St.Le.refl a, List.suffix_refl _⟩
theorem St.Sub.trans {a b c : St} (h₁ : St.Sub c b) (h₂ : St.Sub b a) : St.Sub c a :=
  ⟨h₁.1.trans h₂.1, h₁.2.trans h₂.2⟩

theorem consume1_isSuffix {p : Char → Bool} {a b : St} (h : consume1 p a b) : b.rest <:+ a.rest := by
  obtain ⟨d, s, h1, _, rfl⟩ := h
  rw [h1]; exact List.suffix_cons d s

theorem Iter.isSuffix {R : St → St → Prop} (hR : ∀ a b, R a b → b.rest <:+ a.rest) {a b : St}
    (h : Iter R a b) : b.rest <:+ a.rest := by
  induction h with
  | refl a => exact List.suffix_refl _
  | step hab _ ih => exact ih.trans (hR _ _ hab)

theorem IterN.isSuffix {R : St → St → Prop} (hR : ∀ a b, R a b → b.rest <:+ a.rest) {n : Nat} {a b : St}
    (h : IterN R n a b) : b.rest <:+ a.rest := by
  induction h with
  | zero a => exact List.suffix_refl _
  | succ hab _ ih => exact ih.trans (hR _ _ hab)

theorem Re.M_isSuffix (md : Mode) (r : Re) : ∀ a b, Re.M md r a b → b.rest <:+ a.rest := by
  induction r generalizing md with
  | eps => intro a b h; simp only [Re.M] at h; exact h ▸ List.suffix_refl _
  | lit c => intro a b h; exact consume1_isSuffix h
  | any => intro a b h; exact consume1_isSuffix h
  | cls neg items => intro a b h; exact consume1_isSuffix h
  | cat r₁ r₂ ih₁ ih₂ =>
    intro a b h; obtain ⟨c, h1, h2⟩ := h
    exact (ih₂ md _ _ h2).trans (ih₁ md _ _ h1)
  | alt r₁ r₂ ih₁ ih₂ =>
    intro a b h; rcases h with h | h
    · exact ih₁ md _ _ h
    · exact ih₂ md _ _ h
  | grp r ih => intro a b h; exact ih md _ _ h
  | cap r ih => intro a b h; exact ih md _ _ h
  | gcap r ih => intro a b h; exact ih md _ _ h
  | opt r ih =>
    intro a b h; rcases h with h | h
    · exact h ▸ List.suffix_refl _
    · exact ih md _ _ h
  | star l r ih => intro a b h; exact Iter.isSuffix (ih md) h
  | plus r ih =>
    intro a b h; obtain ⟨c, h1, h2⟩ := h
    exact (Iter.isSuffix (ih md) h2).trans (ih md _ _ h1)
  | rep lo hi r ih =>
    intro a b h; obtain ⟨n, _, _, h⟩ := h
    exact IterN.isSuffix (ih md) h
  | look neg r ih =>
    intro a b h
    cases neg <;> simp only [Re.M] at h <;> exact h.1 ▸ List.suffix_refl _
  | bos => intro a b h; simp only [Re.M] at h; exact h.1 ▸ List.suffix_refl _
  | eos => intro a b h; simp only [Re.M] at h; exact h.1 ▸ List.suffix_refl _
  | flags s i r ih => intro a b h; exact ih ⟨s, i⟩ _ _ h

theorem Re.M_sub {md : Mode} {r : Re} {a b : St} (h : Re.M md r a b) : St.Sub b a :=
  ⟨Re.M_le md r a b h, Re.M_isSuffix md r a b h⟩

/-- the body of capture group number `g` of `r` (whose groups are numbered from `base + 1`, in
    the order of their `(`), with the mode in effect at the group -/
def Re.groupAt : Re → Mode → Nat → Nat → Option (Mode × Re)
  | .cat a b, md, base, g =>
    if g ≤ base + a.ncaps then a.groupAt md base g else b.groupAt md (base + a.ncaps) g
  | .alt a b, md, base, g =>
    if g ≤ base + a.ncaps then a.groupAt md base g else b.groupAt md (base + a.ncaps) g
  | .grp r, md, base, g => r.groupAt md base g
  | .cap r, md, base, g => if g = base + 1 then some (md, r) else r.groupAt md (base + 1) g
  | .gcap r, md, base, g => if g = base + 1 then some (md, r) else r.groupAt md (base + 1) g
  | .opt r, md, base, g => r.groupAt md base g
  | .star _ r, md, base, g => r.groupAt md base g
  | .plus r, md, base, g => r.groupAt md base g
  | .rep _ _ r, md, base, g => r.groupAt md base g
  | .look _ r, md, base, g => r.groupAt md base g
  | .flags s i r, _, base, g => r.groupAt ⟨s, i⟩ base g
  | .eps, _, _, _ => none
  | .lit _, _, _, _ => none
  | .any, _, _, _ => none
  | .cls _ _, _, _, _ => none
  | .bos, _, _, _ => none
  | .eos, _, _, _ => none

/-- the binding `e = (g, st, en)` made during a run of `r` from `a` is meaningful: `g` is a
    group of `r`, and the body of that group matches (`M`, in the group's mode) from a suffix
    state `a'` of `a` with `st` characters left to a state `b'` with `en` characters left -/
def CapOK (md : Mode) (r : Re) (base : Nat) (a : St) (e : Nat × Nat × Nat) : Prop :=
  base < e.1 ∧ e.1 ≤ base + r.ncaps ∧
    ∃ md' r' a' b', r.groupAt md base e.1 = some (md', r') ∧ St.Sub a' a ∧ Re.M md' r' a' b' ∧
      e.2 = (a'.rest.length, b'.rest.length)

theorem CapOK.lift {md md' : Mode} {r r' : Re} {base base' : Nat} {a a' : St} {e : Nat × Nat × Nat}
    (h : CapOK md' r' base' a' e) (hsub : St.Sub a' a) (hlo : base ≤ base')
    (hhi : base' + r'.ncaps ≤ base + r.ncaps)
    (hg : ∀ g, base' < g → g ≤ base' + r'.ncaps → r.groupAt md base g = r'.groupAt md' base' g) :
    CapOK md r base a e := by
  obtain ⟨h1, h2, md'', r'', a'', b'', h3, h4, h5, h6⟩ := h
  exact ⟨by omega, by omega, md'', r'', a'', b'', by rw [hg _ h1 h2]; exact h3, h4.trans hsub, h5, h6⟩

/-- **bindings of a run**: a run only adds bindings, and each added binding is meaningful -/
theorem Re.MC.caps {md : Mode} {r : Re} {base : Nat} {a b : St} {cs cs' : Caps}
    (h : Re.MC md r base a cs b cs') :
    ∃ new, cs' = new ++ cs ∧ ∀ e ∈ new, CapOK md r base a e := by
  induction h with
  | eps => exact ⟨[], rfl, by simp⟩
  | lit _ => exact ⟨[], rfl, by simp⟩
  | any _ => exact ⟨[], rfl, by simp⟩
  | cls _ => exact ⟨[], rfl, by simp⟩
  | optNone => exact ⟨[], rfl, by simp⟩
  | starNil => exact ⟨[], rfl, by simp⟩
  | repNil => exact ⟨[], rfl, by simp⟩
  | lookNeg _ => exact ⟨[], rfl, by simp⟩
  | bos _ => exact ⟨[], rfl, by simp⟩
  | eos _ => exact ⟨[], rfl, by simp⟩
  | @cat md base a cs c cs₁ b cs₂ r₁ r₂ m1 _ ih₁ ih₂ =>
    obtain ⟨n1, rfl, h1⟩ := ih₁
    obtain ⟨n2, rfl, h2⟩ := ih₂
    refine ⟨n2 ++ n1, (List.append_assoc _ _ _).symm, ?_⟩
    intro e he
    rcases List.mem_append.mp he with he | he
    · exact (h2 e he).lift (Re.M_sub m1.toM) (by omega) (by simp only [Re.ncaps]; omega)
        (fun g hg1 hg2 => by simp only [Re.groupAt]; rw [if_neg (by omega)])
    · exact (h1 e he).lift (St.Sub.refl a) (Nat.le_refl _) (by simp only [Re.ncaps]; omega)
        (fun g hg1 hg2 => by simp only [Re.groupAt]; rw [if_pos (by omega)])
  | @altL md base a cs b cs' r₁ r₂ _ ih =>
    obtain ⟨n1, rfl, h1⟩ := ih
    exact ⟨n1, rfl, fun e he => (h1 e he).lift (St.Sub.refl a) (Nat.le_refl _) (by simp only [Re.ncaps]; omega)
      (fun g hg1 hg2 => by simp only [Re.groupAt]; rw [if_pos (by omega)])⟩
  | @altR md base a cs b cs' r₁ r₂ _ ih =>
    obtain ⟨n1, rfl, h1⟩ := ih
    exact ⟨n1, rfl, fun e he => (h1 e he).lift (St.Sub.refl a) (by omega) (by simp only [Re.ncaps]; omega)
      (fun g hg1 hg2 => by simp only [Re.groupAt]; rw [if_neg (by omega)])⟩
  | @grp md base a cs b cs' r _ ih =>
    obtain ⟨n1, rfl, h1⟩ := ih
    exact ⟨n1, rfl, fun e he => (h1 e he).lift (St.Sub.refl a) (Nat.le_refl _) (by simp only [Re.ncaps]; omega)
      (fun g _ _ => by simp only [Re.groupAt])⟩
  | @cap md base a cs b cs' r m ih =>
    obtain ⟨n1, rfl, h1⟩ := ih
    refine ⟨(base + 1, a.rest.length, b.rest.length) :: n1, rfl, ?_⟩
    intro e he
    rcases List.mem_cons.mp he with rfl | he
    · exact ⟨by omega, by simp only [Re.ncaps]; omega, md, r, a, b, by simp only [Re.groupAt, if_true],
        St.Sub.refl a, m.toM, rfl⟩
    · exact (h1 e he).lift (St.Sub.refl a) (by omega) (by simp only [Re.ncaps]; omega)
        (fun g hg1 hg2 => by simp only [Re.groupAt]; rw [if_neg (by omega)])
  | @gcap md base a cs b cs' r m ih =>
    obtain ⟨n1, rfl, h1⟩ := ih
    refine ⟨(base + 1, a.rest.length, b.rest.length) :: n1, rfl, ?_⟩
    intro e he
    rcases List.mem_cons.mp he with rfl | he
    · exact ⟨by omega, by simp only [Re.ncaps]; omega, md, r, a, b, by simp only [Re.groupAt, if_true],
        St.Sub.refl a, m.toM, rfl⟩
    · exact (h1 e he).lift (St.Sub.refl a) (by omega) (by simp only [Re.ncaps]; omega)
        (fun g hg1 hg2 => by simp only [Re.groupAt]; rw [if_neg (by omega)])
  | @optSome md base a cs b cs' r _ ih =>
    obtain ⟨n1, rfl, h1⟩ := ih
    exact ⟨n1, rfl, fun e he => (h1 e he).lift (St.Sub.refl a) (Nat.le_refl _) (by simp only [Re.ncaps]; omega)
      (fun g _ _ => by simp only [Re.groupAt])⟩
  | @starCons md base a cs c cs₁ b cs₂ l r m1 _ ih₁ ih₂ =>
    obtain ⟨n1, rfl, h1⟩ := ih₁
    obtain ⟨n2, rfl, h2⟩ := ih₂
    refine ⟨n2 ++ n1, (List.append_assoc _ _ _).symm, ?_⟩
    intro e he
    rcases List.mem_append.mp he with he | he
    · exact (h2 e he).lift (Re.M_sub m1.toM) (Nat.le_refl _) (Nat.le_refl _) (fun g _ _ => rfl)
    · exact (h1 e he).lift (St.Sub.refl a) (Nat.le_refl _) (by simp only [Re.ncaps]; omega)
        (fun g _ _ => by simp only [Re.groupAt])
  | @plus md base a cs c cs₁ b cs₂ r m1 _ ih₁ ih₂ =>
    obtain ⟨n1, rfl, h1⟩ := ih₁
    obtain ⟨n2, rfl, h2⟩ := ih₂
    refine ⟨n2 ++ n1, (List.append_assoc _ _ _).symm, ?_⟩
    intro e he
    rcases List.mem_append.mp he with he | he
    · exact (h2 e he).lift (Re.M_sub m1.toM) (Nat.le_refl _) (by simp only [Re.ncaps]; omega)
        (fun g _ _ => by simp only [Re.groupAt])
    · exact (h1 e he).lift (St.Sub.refl a) (Nat.le_refl _) (by simp only [Re.ncaps]; omega)
        (fun g _ _ => by simp only [Re.groupAt])
  | @repCons md base a cs c cs₁ b cs₂ lo hi r _ m1 _ ih₁ ih₂ =>
    obtain ⟨n1, rfl, h1⟩ := ih₁
    obtain ⟨n2, rfl, h2⟩ := ih₂
    refine ⟨n2 ++ n1, (List.append_assoc _ _ _).symm, ?_⟩
    intro e he
    rcases List.mem_append.mp he with he | he
    · exact (h2 e he).lift (Re.M_sub m1.toM) (Nat.le_refl _) (by simp only [Re.ncaps]; omega)
        (fun g _ _ => by simp only [Re.groupAt])
    · exact (h1 e he).lift (St.Sub.refl a) (Nat.le_refl _) (by simp only [Re.ncaps]; omega)
        (fun g _ _ => by simp only [Re.groupAt])
  | @lookPos md base a cs c cs' r _ ih =>
    obtain ⟨n1, rfl, h1⟩ := ih
    exact ⟨n1, rfl, fun e he => (h1 e he).lift (St.Sub.refl a) (Nat.le_refl _) (by simp only [Re.ncaps]; omega)
      (fun g _ _ => by simp only [Re.groupAt])⟩
  | @flags md base a cs b cs' s i r _ ih =>
    obtain ⟨n1, rfl, h1⟩ := ih
    exact ⟨n1, rfl, fun e he => (h1 e he).lift (St.Sub.refl a) (Nat.le_refl _) (by simp only [Re.ncaps]; omega)
      (fun g _ _ => by simp only [Re.groupAt])⟩

/-! ### `re.fullmatch`: the reported spans -/

/-- the decoding of a binding list that `Re.fullmatchCap` applies: for each group `1 … ncaps`
    its latest binding, as offsets from the start of a subject of length `n` -/
def Re.spansOf (ncaps n : Nat) (cs : Caps) : List (Option (Nat × Nat)) :=
  (List.range ncaps).map (fun i =>
    match cs.find? (fun c => c.1 == i + 1) with
    | some (_, st, en) => some (n - st, n - en)
    | none => none)

theorem Re.fullmatchCap_eq (r : Re) (s : List Char) :
    r.fullmatchCap s =
      (Re.runCap ((r.size + 2) * (s.length + 2)) ⟨false, false⟩ r 0 ⟨true, s⟩ []
        (fun b cs => if b.rest.isEmpty then some cs else none)).map (Re.spansOf r.ncaps s.length) := by
  unfold Re.fullmatchCap
  simp only
  split
  · rename_i heq; rw [heq]; rfl
  · rename_i cs heq; rw [heq]; rfl

/-- **(b)** the spans `re.fullmatch` reports are those of ONE accepting run: an `MC` derivation
    from the start of the subject to its end, decoded by `spansOf` -/
theorem Re.fullmatchCap_MC (r : Re) (s : List Char) (hok : r.repOK = true)
    (spans : List (Option (Nat × Nat))) (h : r.fullmatchCap s = some spans) :
    ∃ b cs, Re.MC ⟨false, false⟩ r 0 ⟨true, s⟩ [] ⟨b, []⟩ cs ∧ spans = Re.spansOf r.ncaps s.length cs := by
  rw [Re.fullmatchCap_eq, Option.map_eq_some_iff] at h
  obtain ⟨cs, hrun, rfl⟩ := h
  obtain ⟨⟨b, rest⟩, cs', m, hk⟩ := Re.runCap_sound _ _ r 0 ⟨true, s⟩ [] _ cs hok (Re.need_le_fuel r s.length) hrun
  simp only at hk
  split at hk
  · rename_i he
    have : rest = [] := by simpa using he
    subst this
    simp only [Option.some.injEq] at hk
    subst hk
    exact ⟨b, cs', m, rfl⟩
  · cases hk

theorem St.Sub.eq_drop {a' : St} {s : List Char} (h : St.Sub a' ⟨true, s⟩) :
    a' = ⟨decide (s.length - a'.rest.length = 0), s.drop (s.length - a'.rest.length)⟩ := by
  obtain ⟨hle, hsuf⟩ := h
  have hd : a'.rest = s.drop (s.length - a'.rest.length) := List.suffix_iff_eq_drop.mp hsuf
  rcases hle with rfl | ⟨h1, h2⟩
  · simp
  · obtain ⟨at', rest'⟩ := a'
    simp only at h1 h2 hd ⊢
    subst h1
    have : ¬ (s.length - rest'.length = 0) := by omega
    simp only [this, decide_false]
    rw [← hd]

/-- **(b), as Python reads it.**  `m = re.fullmatch(r, s)`: there is one entry per group, and if
    group `i + 1` participated with `m.span(i + 1) = (st, en)` then `st ≤ en ≤ |s|` and the body
    of that group matches `s[st:en]` in place — from the state "`st` characters of `s` consumed"
    to the state "`en` consumed" — in the mode in effect at the group. -/
theorem Re.fullmatchCap_spans (r : Re) (s : List Char) (hok : r.repOK = true)
    (spans : List (Option (Nat × Nat))) (h : r.fullmatchCap s = some spans) :
    spans.length = r.ncaps ∧
    ∀ i st en, spans[i]? = some (some (st, en)) →
      st ≤ en ∧ en ≤ s.length ∧
      ∃ md' r', r.groupAt ⟨false, false⟩ 0 (i + 1) = some (md', r') ∧
        Re.M md' r' ⟨decide (st = 0), s.drop st⟩ ⟨decide (en = 0), s.drop en⟩ := by
  obtain ⟨b, cs, m, rfl⟩ := Re.fullmatchCap_MC r s hok spans h
  refine ⟨by simp [Re.spansOf], ?_⟩
  intro i st en hi
  obtain ⟨new, hnew, hcaps⟩ := m.caps
  simp only [List.append_nil] at hnew
  subst hnew
  simp only [Re.spansOf, List.getElem?_map] at hi
  cases hr : (List.range r.ncaps)[i]? with
  | none => simp [hr] at hi
  | some j =>
    have hj : j = i := by
      have := List.getElem?_eq_some_iff.mp hr
      obtain ⟨_, h2⟩ := this
      simpa using h2.symm
    subst hj
    simp only [hr, Option.map_some, Option.some.injEq] at hi
    cases hf : List.find? (fun c => c.1 == j + 1) cs with
    | none => simp [hf] at hi
    | some e =>
      obtain ⟨g, st', en'⟩ := e
      simp only [hf, Option.some.injEq, Prod.mk.injEq] at hi
      obtain ⟨rfl, rfl⟩ := hi
      have hmem := List.mem_of_find?_eq_some hf
      have hg : g = j + 1 := by
        have := List.find?_some hf
        simpa using this
      subst hg
      obtain ⟨_, _, md', r', a', b', hga, hsub, hM, he⟩ := hcaps _ hmem
      simp only [Prod.mk.injEq] at he
      obtain ⟨rfl, rfl⟩ := he
      have hsubb : St.Sub b' ⟨true, s⟩ := (Re.M_sub hM).trans hsub
      have h1 := hsub.1.len
      have h2 := (Re.M_le _ _ _ _ hM).len
      simp only at h1
      refine ⟨by omega, by omega, md', r', hga, ?_⟩
      rw [← hsub.eq_drop, ← hsubb.eq_drop]
      exact hM

/-- non-vacuity of (b): `(a*)(b|(c))` on `aab` — spans `(0,2)`, `(2,3)`, group 3 unset — and the
    theorem's reading of group 1 -/
example : (Re.cat (.gcap (.star false (.lit 'a'))) (.gcap (.alt (.lit 'b') (.cap (.lit 'c'))))).fullmatchCap
    "aab".toList = some [some (0, 2), some (2, 3), none] := by decide +kernel

example : Re.M ⟨false, false⟩ (.star false (.lit 'a')) ⟨true, "aab".toList⟩ ⟨false, "b".toList⟩ := by
  have h := (Re.fullmatchCap_spans (.cat (.gcap (.star false (.lit 'a'))) (.gcap (.alt (.lit 'b') (.cap (.lit 'c')))))
    "aab".toList (by decide) [some (0, 2), some (2, 3), none] (by decide +kernel)).2 0 0 2 (by decide)
  obtain ⟨_, _, md', r', hg, hM⟩ := h
  have : (md', r') = (⟨false, false⟩, Re.star false (.lit 'a')) := by
    have e : Re.groupAt (.cat (.gcap (.star false (.lit 'a'))) (.gcap (.alt (.lit 'b') (.cap (.lit 'c')))))
      ⟨false, false⟩ 0 (0 + 1) = some (⟨false, false⟩, Re.star false (.lit 'a')) := by decide +kernel
    rw [e] at hg
    exact (Option.some.inj hg).symm
  cases this
  exact hM

end WcModel

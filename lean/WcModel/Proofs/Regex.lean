import WcModel.Model.Regex
/-
  `Re.ends` (executable) computes exactly the end states of `Re.M` (declarative).
  This is the theorem that lets the correspondence check execute the semantics the
  property theorems are stated in.
-/
namespace WcModel

theorem mem_dedup [DecidableEq α] {x : α} {l : List α} : x ∈ dedup l ↔ x ∈ l := by
  unfold dedup
  induction l with
  | nil => simp
  | cons y ys ih =>
    simp only [List.foldr_cons, List.mem_cons]
    split
    · rename_i h
      constructor
      · intro h'; exact Or.inr (ih.mp h')
      · rintro (rfl | h')
        · exact h
        · exact ih.mpr h'
    · simp only [List.mem_cons, ih]

/-- `b` is `a` or a state strictly further into the subject. -/
def St.Le (b a : St) : Prop := b = a ∨ (b.atStart = false ∧ b.rest.length < a.rest.length)

theorem St.Le.refl (a : St) : St.Le a a := Or.inl rfl

theorem St.Le.trans {a b c : St} (h₁ : St.Le c b) (h₂ : St.Le b a) : St.Le c a := by
  rcases h₁ with rfl | ⟨h1, h1'⟩
  · exact h₂
  · rcases h₂ with rfl | ⟨_, h2'⟩
    · exact Or.inr ⟨h1, h1'⟩
    · exact Or.inr ⟨h1, by omega⟩

theorem St.Le.len {a b : St} (h : St.Le b a) : b.rest.length ≤ a.rest.length := by
  rcases h with rfl | ⟨_, h⟩ <;> omega

theorem St.Le.eq_of_len {a b : St} (h : St.Le b a) (hl : a.rest.length ≤ b.rest.length) :
    b = a := by
  rcases h with rfl | ⟨_, h⟩
  · rfl
  · omega

theorem consume1_le {p : Char → Bool} {a b : St} (h : consume1 p a b) : St.Le b a := by
  obtain ⟨d, s, h1, _, rfl⟩ := h
  exact Or.inr ⟨rfl, by simp [h1]⟩

theorem Iter.le {R : St → St → Prop} (hR : ∀ a b, R a b → St.Le b a) {a b : St}
    (h : Iter R a b) : St.Le b a := by
  induction h with
  | refl a => exact St.Le.refl a
  | step hab _ ih => exact ih.trans (hR _ _ hab)

theorem IterN.le {R : St → St → Prop} (hR : ∀ a b, R a b → St.Le b a) {n : Nat} {a b : St}
    (h : IterN R n a b) : St.Le b a := by
  induction h with
  | zero a => exact St.Le.refl a
  | succ hab _ ih => exact ih.trans (hR _ _ hab)

theorem Re.M_le (md : Mode) (r : Re) : ∀ a b, Re.M md r a b → St.Le b a := by
  induction r generalizing md with
  | eps => intro a b h; simp only [Re.M] at h; exact h ▸ St.Le.refl a
  | lit c => intro a b h; exact consume1_le h
  | any => intro a b h; exact consume1_le h
  | cls neg items => intro a b h; exact consume1_le h
  | cat r₁ r₂ ih₁ ih₂ =>
    intro a b h; obtain ⟨c, h1, h2⟩ := h
    exact (ih₂ md _ _ h2).trans (ih₁ md _ _ h1)
  | alt r₁ r₂ ih₁ ih₂ =>
    intro a b h; rcases h with h | h
    · exact ih₁ md _ _ h
    · exact ih₂ md _ _ h
  | grp r ih => intro a b h; exact ih md _ _ h
  | cap r ih => intro a b h; exact ih md _ _ h
  | gcap r ih => intro a b h; exact ih md _ _ h
  | opt r ih =>
    intro a b h; rcases h with h | h
    · exact h ▸ St.Le.refl a
    · exact ih md _ _ h
  | star l r ih => intro a b h; exact Iter.le (ih md) h
  | plus r ih =>
    intro a b h; obtain ⟨c, h1, h2⟩ := h
    exact (Iter.le (ih md) h2).trans (ih md _ _ h1)
  | rep lo hi r ih =>
    intro a b h; obtain ⟨n, _, _, h⟩ := h
    exact IterN.le (ih md) h
  | look neg r ih =>
    intro a b h
    cases neg <;> simp only [Re.M] at h <;> exact h.1 ▸ St.Le.refl a
  | bos => intro a b h; simp only [Re.M] at h; exact h.1 ▸ St.Le.refl a
  | eos => intro a b h; simp only [Re.M] at h; exact h.1 ▸ St.Le.refl a
  | flags s i r ih => intro a b h; exact ih ⟨s, i⟩ _ _ h

/-! ### `step1` -/

theorem mem_step1 {p : Char → Bool} {a b : St} : b ∈ step1 p a ↔ consume1 p a b := by
  unfold step1 consume1
  cases h : a.rest with
  | nil => simp
  | cons d s =>
    by_cases hp : p d = true
    · simp only [hp, if_true, List.mem_singleton]
      constructor
      · intro hb; exact ⟨d, s, rfl, hp, hb⟩
      · rintro ⟨d', s', h1, _, hb⟩
        injection h1 with h1 h2; subst h1; subst h2; exact hb
    · simp only [hp]
      constructor
      · intro hb; simp at hb
      · rintro ⟨d', s', h1, h2, _⟩
        injection h1 with h1 _; subst h1; exact absurd h2 hp

/-! ### closure computations -/

section closure
variable {f : St → List St} {R : St → St → Prop}

theorem subset_closeRound (S : List St) {x : St} (h : x ∈ S) : x ∈ closeRound f S := by
  unfold closeRound; rw [mem_dedup]; exact List.mem_append_left _ h

theorem succ_mem_closeRound {S : List St} {x y : St} (hx : x ∈ S) (hy : y ∈ f x) :
    y ∈ closeRound f S := by
  unfold closeRound; rw [mem_dedup]
  exact List.mem_append_right _ (List.mem_flatMap.mpr ⟨x, hx, hy⟩)

theorem subset_closeN (n : Nat) (S : List St) {x : St} (h : x ∈ S) : x ∈ closeN f n S := by
  induction n generalizing S with
  | zero => exact h
  | succ n ih => exact ih _ (subset_closeRound S h)

/-- soundness: everything computed is reachable from a member of the seed -/
theorem closeN_sound (hf : ∀ a b, b ∈ f a → R a b) (n : Nat) (S : List St) {y : St}
    (h : y ∈ closeN f n S) : ∃ x ∈ S, Iter R x y := by
  induction n generalizing S with
  | zero => exact ⟨y, h, Iter.refl y⟩
  | succ n ih =>
    obtain ⟨x, hx, hxy⟩ := ih _ h
    unfold closeRound at hx; rw [mem_dedup, List.mem_append] at hx
    rcases hx with hx | hx
    · exact ⟨x, hx, hxy⟩
    · obtain ⟨w, hw, hwx⟩ := List.mem_flatMap.mp hx
      exact ⟨w, hw, Iter.step (hf _ _ hwx) hxy⟩

/-- completeness: a chain that descends in `rest` length is found within that many rounds -/
theorem closeN_complete (hf : ∀ a b, R a b → b ∈ f a) (hle : ∀ a b, R a b → St.Le b a)
    {x y : St} (h : Iter R x y) :
    ∀ (n : Nat) (S : List St), x ∈ S → x.rest.length - y.rest.length ≤ n → y ∈ closeN f n S := by
  induction h with
  | refl a => intro n S hx _; exact subset_closeN n S hx
  | step hab hbc ih =>
    rename_i a b c
    intro n S hx hn
    have hle1 := hle _ _ hab
    have hle2 := Iter.le hle hbc
    rcases hle1 with rfl | ⟨_, hlt⟩
    · exact ih n S hx hn
    · cases n with
      | zero => have := hle2.len; omega
      | succ n =>
        have hb : b ∈ closeRound f S := succ_mem_closeRound hx (hf _ _ hab)
        have := hle2.len
        exact ih n _ hb (by omega)

theorem mem_closeN_iff (hf : ∀ a b, b ∈ f a ↔ R a b) (hle : ∀ a b, R a b → St.Le b a)
    (a y : St) : y ∈ closeN f (a.rest.length + 1) [a] ↔ Iter R a y := by
  constructor
  · intro h
    obtain ⟨x, hx, hxy⟩ := closeN_sound (fun a b h => (hf a b).mp h) _ _ h
    rw [List.mem_singleton] at hx; exact hx ▸ hxy
  · intro h
    exact closeN_complete (fun a b h => (hf a b).mpr h) hle h _ _ (List.mem_singleton.mpr rfl)
      (by omega)

theorem mem_iterN_iff (hf : ∀ a b, b ∈ f a ↔ R a b) (n : Nat) (S : List St) (y : St) :
    y ∈ iterN f n S ↔ ∃ x ∈ S, IterN R n x y := by
  induction n generalizing S with
  | zero =>
    constructor
    · intro h; exact ⟨y, h, IterN.zero y⟩
    · rintro ⟨x, hx, h⟩; cases h; exact hx
  | succ n ih =>
    simp only [iterN]
    rw [ih]
    constructor
    · rintro ⟨x, hx, h⟩
      rw [mem_dedup] at hx
      obtain ⟨w, hw, hwx⟩ := List.mem_flatMap.mp hx
      exact ⟨w, hw, IterN.succ ((hf _ _).mp hwx) h⟩
    · rintro ⟨x, hx, h⟩
      cases h with
      | succ hab hbc =>
        exact ⟨_, mem_dedup.mpr (List.mem_flatMap.mpr ⟨x, hx, (hf _ _).mpr hab⟩), hbc⟩

end closure

/-! ### the main equivalence -/

theorem Re.mem_ends_iff (md : Mode) (r : Re) : ∀ a b, b ∈ Re.ends md r a ↔ Re.M md r a b := by
  induction r generalizing md with
  | eps => intro a b; simp [Re.ends, Re.M]
  | lit c => intro a b; simp only [Re.ends, Re.M]; exact mem_step1
  | any => intro a b; simp only [Re.ends, Re.M]; exact mem_step1
  | cls neg items => intro a b; simp only [Re.ends, Re.M]; exact mem_step1
  | cat r₁ r₂ ih₁ ih₂ =>
    intro a b
    simp only [Re.ends, Re.M, mem_dedup, List.mem_flatMap]
    constructor
    · rintro ⟨c, hc, hb⟩; exact ⟨c, (ih₁ md _ _).mp hc, (ih₂ md _ _).mp hb⟩
    · rintro ⟨c, hc, hb⟩; exact ⟨c, (ih₁ md _ _).mpr hc, (ih₂ md _ _).mpr hb⟩
  | alt r₁ r₂ ih₁ ih₂ =>
    intro a b
    simp only [Re.ends, Re.M, mem_dedup, List.mem_append, ih₁ md, ih₂ md]
  | grp r ih => intro a b; simp only [Re.ends, Re.M]; exact ih md a b
  | cap r ih => intro a b; simp only [Re.ends, Re.M]; exact ih md a b
  | gcap r ih => intro a b; simp only [Re.ends, Re.M]; exact ih md a b
  | opt r ih =>
    intro a b
    simp only [Re.ends, Re.M, mem_dedup, List.mem_cons, ih md]
  | star l r ih =>
    intro a b
    simp only [Re.ends, Re.M]
    exact mem_closeN_iff (ih md) (Re.M_le md r) a b
  | plus r ih =>
    intro a b
    simp only [Re.ends, Re.M, mem_dedup, List.mem_flatMap]
    constructor
    · rintro ⟨c, hc, hb⟩
      exact ⟨c, (ih md _ _).mp hc, (mem_closeN_iff (ih md) (Re.M_le md r) c b).mp hb⟩
    · rintro ⟨c, hc, hb⟩
      exact ⟨c, (ih md _ _).mpr hc, (mem_closeN_iff (ih md) (Re.M_le md r) c b).mpr hb⟩
  | rep lo hi r ih =>
    intro a b
    simp only [Re.ends, Re.M, mem_dedup, List.mem_flatMap, List.mem_range]
    constructor
    · rintro ⟨k, hk, hb⟩
      obtain ⟨x, hx, h⟩ := (mem_iterN_iff (ih md) _ _ _).mp hb
      rw [List.mem_singleton] at hx; subst hx
      exact ⟨lo + k, by omega, by omega, h⟩
    · rintro ⟨n, h1, h2, h⟩
      refine ⟨n - lo, by omega, ?_⟩
      have : lo + (n - lo) = n := by omega
      rw [this]
      exact (mem_iterN_iff (ih md) _ _ _).mpr ⟨a, List.mem_singleton.mpr rfl, h⟩
  | look neg r ih =>
    intro a b
    have key : (Re.ends md r a).isEmpty = false ↔ ∃ c, Re.M md r a c := by
      constructor
      · intro h
        cases hl : Re.ends md r a with
        | nil => simp [hl] at h
        | cons c cs => exact ⟨c, (ih md a c).mp (by simp [hl])⟩
      · rintro ⟨c, hc⟩
        have := (ih md a c).mpr hc
        cases hl : Re.ends md r a with
        | nil => simp [hl] at this
        | cons _ _ => rfl
    cases neg
    · simp only [Re.ends, Re.M]
      by_cases h : (Re.ends md r a).isEmpty = true
      · have : ¬ ∃ c, Re.M md r a c := fun hc => by
          have := key.mpr hc; simp [h] at this
        simp [h, this]
      · have h' : (Re.ends md r a).isEmpty = false := by simpa using h
        have := key.mp h'
        simp [h', this]
    · simp only [Re.ends, Re.M]
      by_cases h : (Re.ends md r a).isEmpty = true
      · have : ¬ ∃ c, Re.M md r a c := fun hc => by
          have := key.mpr hc; simp [h] at this
        simp [h, this]
      · have h' : (Re.ends md r a).isEmpty = false := by simpa using h
        have := key.mp h'
        simp [h', this]
  | bos =>
    intro a b
    simp only [Re.ends, Re.M]
    by_cases h : a.atStart = true <;> simp [h]
  | eos =>
    intro a b
    simp only [Re.ends, Re.M]
    by_cases h : atEos a.rest = true <;> simp [h]
  | flags s i r ih => intro a b; simp only [Re.ends, Re.M]; exact ih ⟨s, i⟩ a b

theorem Re.fullmatch_iff (r : Re) (s : List Char) : r.fullmatch s = true ↔ r.FullMatch s := by
  unfold Re.fullmatch Re.FullMatch
  rw [List.any_eq_true]
  constructor
  · rintro ⟨e, he, hr⟩
    rcases e with ⟨b, rest⟩
    have : rest = [] := by simpa using hr
    subst this
    exact ⟨b, (Re.mem_ends_iff _ _ _ _).mp he⟩
  · rintro ⟨b, h⟩
    exact ⟨⟨b, []⟩, (Re.mem_ends_iff _ _ _ _).mpr h, rfl⟩

theorem Re.prefixmatch_iff (r : Re) (s : List Char) :
    r.prefixmatch s = true ↔ r.PrefixMatch s := by
  unfold Re.prefixmatch Re.PrefixMatch
  constructor
  · intro h
    cases hl : Re.ends ⟨false, false⟩ r ⟨true, s⟩ with
    | nil => simp [hl] at h
    | cons e es => exact ⟨e, (Re.mem_ends_iff _ _ _ _).mp (by simp [hl])⟩
  · rintro ⟨e, he⟩
    have := (Re.mem_ends_iff _ _ _ _).mpr he
    cases hl : Re.ends ⟨false, false⟩ r ⟨true, s⟩ with
    | nil => simp [hl] at this
    | cons _ _ => simp

/-- capture markers never change what is matched -/
theorem Re.M_eraseCap (r : Re) : ∀ md a b, Re.M md r.eraseCap a b ↔ Re.M md r a b := by
  induction r with
  | cat r₁ r₂ ih₁ ih₂ => intro md a b; simp only [Re.eraseCap, Re.M, ih₁, ih₂]
  | alt r₁ r₂ ih₁ ih₂ => intro md a b; simp only [Re.eraseCap, Re.M, ih₁, ih₂]
  | grp r ih => intro md a b; simp only [Re.eraseCap, Re.M, ih]
  | cap r ih => intro md a b; simp only [Re.eraseCap, Re.M, ih]
  | gcap r ih => intro md a b; simp only [Re.eraseCap, Re.M, ih]
  | opt r ih => intro md a b; simp only [Re.eraseCap, Re.M, ih]
  | star l r ih =>
    intro md a b; simp only [Re.eraseCap, Re.M]
    have : Re.M md r.eraseCap = Re.M md r := by funext x y; exact propext (ih md x y)
    rw [this]
  | plus r ih =>
    intro md a b; simp only [Re.eraseCap, Re.M]
    have : Re.M md r.eraseCap = Re.M md r := by funext x y; exact propext (ih md x y)
    rw [this]
  | rep lo hi r ih =>
    intro md a b; simp only [Re.eraseCap, Re.M]
    have : Re.M md r.eraseCap = Re.M md r := by funext x y; exact propext (ih md x y)
    rw [this]
  | look neg r ih =>
    intro md a b
    cases neg <;> simp only [Re.eraseCap, Re.M, ih]
  | flags s i r ih => intro md a b; simp only [Re.eraseCap, Re.M, ih]
  | eps => intro md a b; simp only [Re.eraseCap]
  | lit c => intro md a b; simp only [Re.eraseCap]
  | any => intro md a b; simp only [Re.eraseCap]
  | cls n i => intro md a b; simp only [Re.eraseCap]
  | bos => intro md a b; simp only [Re.eraseCap]
  | eos => intro md a b; simp only [Re.eraseCap]

end WcModel

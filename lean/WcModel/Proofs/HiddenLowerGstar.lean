import WcModel.Proofs.HiddenLowerGlob
/-
  Whole path patterns WITHOUT the visibility hypothesis on the subject — part 2: the globstar.

  `Proofs/CompPathGlob.lean` shows that on a subject ALL of whose pieces are visible either
  globstar regex is `.*?`.  Here the subject is arbitrary; what is proved is local:
    * `gap_must` / `globEnd_must` (lower bound): a globstar CAN consume any run of whole pieces that
      are all visible, whatever follows (a hidden piece may stand right behind the divider);
    * `gap_may` / `globEnd_may` (upper bound): whatever a globstar (plus its divider) consumed
      consists of visible pieces only — it never enters a hidden piece, `.` or `..`.
-/
namespace WcModel.HL

/-! ### pieces, once more -/

/-- a member of `pieces t` sits in `t` between separators (or the ends) -/
theorem mem_pieces_decomp (t x : List Char) (h : x ∈ pieces t) :
    ∃ L R, t = L ++ x ++ R ∧ (L = [] ∨ ∃ L', L = L' ++ ['/']) ∧ AtSep R ∧ '/' ∉ x ∧ x ≠ [] := by
  obtain ⟨k, hk, hx⟩ := List.mem_iff_getElem.mp h
  obtain ⟨T, r, e, hT, hrh, hrne, hpr⟩ := split_at_piece k t hk
  obtain ⟨p, r2, e2, hsl, hr2⟩ := piece_decomp r
  have hpne : p ≠ [] := by
    rintro rfl
    rcases hr2 with rfl | ⟨r', rfl⟩
    · exact hrne (by simpa using e2)
    · simp [e2] at hrh
  have hpp : pieces r = p :: pieces r2 := by rw [e2, pieces_append p r2 hsl hpne hr2]
  rw [hpp, List.drop_eq_getElem_cons hk, hx] at hpr
  have hpx : p = x := (List.cons.inj hpr).1
  subst hpx
  exact ⟨T, r2, by rw [e, e2, List.append_assoc], hT, hr2, hsl, hpne⟩

theorem pieces_append_allSl (G pre : List Char) (h : allSl pre = true) : pieces (G ++ pre) = pieces G := by
  cases pre with
  | nil => simp
  | cons x pre' =>
    simp only [allSl, List.all_cons, Bool.and_eq_true, beq_iff_eq] at h
    obtain ⟨rfl, h2⟩ := h
    rw [pieces_append_slash, pieces_allSl pre' h2, List.append_nil]

theorem atSep_append {r2 rr : List Char} (h2 : AtSep r2) (hr : AtSep rr) : AtSep (r2 ++ rr) := by
  rcases h2 with rfl | ⟨r', rfl⟩
  · simpa using hr
  · exact Or.inr ⟨r' ++ rr, rfl⟩

theorem head_dot_of_isDotDir {x : List Char} (h : isDotDir x = true) : x.head? = some '.' := by
  simp only [isDotDir, Bool.or_eq_true, decide_eq_true_eq] at h
  rcases h with rfl | rfl <;> rfl

/-! ### the two globstars as guarded iterations -/

/-- the look-ahead of `_PATH_GSTAR_DOTMATCH` fires -/
def dirAhead (ci : Bool) (x : St) : Prop :=
  ∃ c, Re.M ⟨true, ci⟩ (.cat (.cat (.grp (.alt (Frag.sep false) .bos)) (.grp (.rep 1 2 (.lit '.'))))
    (Frag.pathEop false)) x c

/-- the look-ahead of the globstar in use fires -/
def GAhead (dot ci : Bool) (x : St) : Prop := if dot then dirAhead ci x else hiddenAhead x

theorem pGstar_iff (dot ci : Bool) (a m : St) :
    Re.M ⟨true, ci⟩ (pGstar dot) a m ↔
      Iter (fun x y => ¬ GAhead dot ci x ∧ consume1 (fun _ => true) x y) a m := by
  cases dot with
  | false =>
    simp only [pGstar, Bool.not_false, ite_true, Frag.pathGstarDot2, Re.M.eq_11, GAhead, Bool.false_eq_true,
      ite_false]
    exact Iter.congr (fun x y => gstarStep_iff ci x y)
  | true =>
    simp only [pGstar, Bool.not_true, Bool.false_eq_true, ite_false, Frag.pathGstarDot1, Re.M.eq_11, GAhead,
      ite_true]
    apply Iter.congr
    intro x y
    simp only [Re.M.eq_7, Re.M.eq_5]
    constructor
    · rintro ⟨c, h1, h2⟩
      rw [Re.M.eq_15] at h1
      obtain ⟨rfl, hno⟩ := h1
      exact ⟨hno, (M_any_dotall ci c y).mp h2⟩
    · rintro ⟨hno, h2⟩
      refine ⟨x, ?_, (M_any_dotall ci x y).mpr h2⟩
      rw [Re.M.eq_15]
      exact ⟨rfl, hno⟩

/-- the DOTGLOB look-ahead fires exactly when `_NO_DIR`'s would fire right behind a separator, or
    at the very start of the subject -/
theorem dirAhead_iff (ci : Bool) (x : St) :
    dirAhead ci x ↔ ((∃ s, x.rest = '/' :: s ∧ ¬ NoDirOK ⟨true, ci⟩ ⟨false, s⟩) ∨
      (x.atStart = true ∧ ¬ NoDirOK ⟨true, ci⟩ x)) := by
  constructor
  · rintro ⟨c, hc⟩
    rw [Re.M.eq_5] at hc
    obtain ⟨m2, h12, h3⟩ := hc
    rw [Re.M.eq_5] at h12
    obtain ⟨m1, h1, h2⟩ := h12
    have hfire : ¬ NoDirOK ⟨true, ci⟩ m1 := fun hno => hno ⟨c, by rw [Re.M.eq_5]; exact ⟨m2, h2, h3⟩⟩
    simp only [Re.M.eq_7, Re.M.eq_6] at h1
    rcases h1 with h1 | h1
    · obtain ⟨d, s, e1, hd, rfl⟩ := (M_sep _ _ _).mp h1
      simp only [beq_iff_eq] at hd; subst hd
      exact Or.inl ⟨s, e1, hfire⟩
    · simp only [Re.M] at h1
      obtain ⟨rfl, hst⟩ := h1
      exact Or.inr ⟨hst, hfire⟩
  · rintro (⟨s, e1, hf⟩ | ⟨hst, hf⟩)
    · obtain ⟨c, hc⟩ := Classical.not_not.mp hf
      rw [Re.M.eq_5] at hc
      obtain ⟨m2, h2, h3⟩ := hc
      refine ⟨c, ?_⟩
      rw [Re.M.eq_5]
      refine ⟨m2, ?_, h3⟩
      rw [Re.M.eq_5]
      refine ⟨⟨false, s⟩, ?_, h2⟩
      simp only [Re.M.eq_7, Re.M.eq_6]
      exact Or.inl ((M_sep _ _ _).mpr ⟨'/', s, e1, rfl, rfl⟩)
    · obtain ⟨c, hc⟩ := Classical.not_not.mp hf
      rw [Re.M.eq_5] at hc
      obtain ⟨m2, h2, h3⟩ := hc
      refine ⟨c, ?_⟩
      rw [Re.M.eq_5]
      refine ⟨m2, ?_, h3⟩
      rw [Re.M.eq_5]
      refine ⟨x, ?_, h2⟩
      simp only [Re.M.eq_7, Re.M.eq_6]
      exact Or.inr (by simp [Re.M, hst])

/-- `_NO_DIR` cannot fire where no dot stands -/
theorem noDirOK_of_head (md : Mode) (m : St) (h : m.rest.head? ≠ some '.') : NoDirOK md m := by
  rintro ⟨c, hc⟩
  simp only [Re.M.eq_5, Re.M.eq_7, Re.M.eq_13] at hc
  obtain ⟨x, ⟨n, h1, _, hit⟩, _⟩ := hc
  cases hit with
  | zero => omega
  | succ hab _ =>
    obtain ⟨d, s, e1, hd, _⟩ := (M_lit_dot md _ _).mp hab
    simp only [beq_iff_eq] at hd; subst hd
    simp [e1] at h

/-- `_NO_DIR` does not fire in front of whole visible pieces, whatever stands behind them -/
theorem noDirOK_local (md : Mode) (dot : Bool) (m1 : St) (w rr : List Char) (hm : m1.rest = w ++ rr)
    (hrr : AtSep rr) (hv : ∀ x ∈ pieces w, visible dot x = true) (hnl : m1.rest.getLast? ≠ some '\n') :
    NoDirOK md m1 := by
  cases w with
  | nil =>
    apply noDirOK_of_head
    rcases hrr with rfl | ⟨r', rfl⟩ <;> simp [hm]
  | cons d v =>
    by_cases hd : d = '/'
    · apply noDirOK_of_head
      simp [hm, hd]
    · obtain ⟨p, r2, e', hne, hp, hr, _, hmem⟩ := first_piece (d :: v) d v rfl hd
      exact noDirOK_of_piece md dot m1 p (r2 ++ rr) (by rw [hm, e', List.append_assoc]) hp hne
        (atSep_append hr hrr) (hv p hmem) (Or.inr hnl)

/-! ### lower bound: a globstar can consume any run of whole visible pieces -/

/-- the guard of the globstar does not fire inside a run `T'` of whole visible pieces (followed by
    a separator or the end) -/
theorem not_GAhead_local (dot ci : Bool) (T' rr : List Char) (hrr : AtSep rr)
    (hv : ∀ x ∈ pieces T', visible dot x = true) (pre u : List Char) (e : T' = pre ++ u) (hu : u ≠ [])
    (x : St) (ex : x.rest = u ++ rr) (hs : x.atStart = true → pre = [])
    (hnl : dot = false ∨ x.rest.getLast? ≠ some '\n') : ¬ GAhead dot ci x := by
  cases dot with
  | false =>
    simp only [GAhead, Bool.false_eq_true, ite_false]
    have hbad : ∀ u'' : List Char, (∀ q ∈ pieces ('.' :: u''), q ∈ pieces T') → False := by
      intro u'' hsub
      obtain ⟨p, r, _, _, _, _, hhead, hmem⟩ := first_piece ('.' :: u'') '.' u'' rfl (by decide)
      have := hv p (hsub p hmem)
      simp [visible, hhead] at this
    rintro (⟨s, hx⟩ | ⟨hst, s, hx⟩)
    · cases u with
      | nil => exact hu rfl
      | cons d0 u' =>
        rw [ex] at hx
        simp only [List.cons_append, List.cons.injEq] at hx
        obtain ⟨rfl, hx⟩ := hx
        cases u' with
        | nil =>
          simp only [List.nil_append] at hx
          rcases hrr with rfl | ⟨r', rfl⟩
          · cases hx
          · simp at hx
        | cons d1 u'' =>
          simp only [List.cons_append, List.cons.injEq] at hx
          obtain ⟨rfl, _⟩ := hx
          apply hbad u''
          intro q hq
          rw [e, pieces_append_slash]
          exact List.mem_append_right _ hq
    · cases u with
      | nil => exact hu rfl
      | cons d0 u' =>
        rw [ex] at hx
        simp only [List.cons_append, List.cons.injEq] at hx
        obtain ⟨rfl, _⟩ := hx
        apply hbad u'
        intro q hq
        rw [e, hs hst]
        exact hq
  | true =>
    simp only [GAhead, ite_true]
    have hnl : x.rest.getLast? ≠ some '\n' := by
      rcases hnl with h | h
      · cases h
      · exact h
    intro hd
    rcases (dirAhead_iff ci x).mp hd with ⟨s, e1, hf⟩ | ⟨hst, hf⟩
    · apply hf
      cases u with
      | nil => exact absurd rfl hu
      | cons d0 u' =>
        rw [ex] at e1
        simp only [List.cons_append, List.cons.injEq] at e1
        obtain ⟨rfl, e1⟩ := e1
        refine noDirOK_local _ true ⟨false, s⟩ u' rr e1.symm hrr ?_ ?_
        · intro q hq
          apply hv
          rw [e, pieces_append_slash]
          exact List.mem_append_right _ hq
        · cases hs' : s with
          | nil => simp
          | cons y ys =>
            have : x.rest = ['/'] ++ s := by rw [ex, ← e1]; rfl
            rw [this] at hnl
            rw [← hs']
            exact suffix_getLast (by rw [hs']; simp) hnl
    · apply hf
      refine noDirOK_local _ true x u rr ex hrr ?_ hnl
      intro q hq
      apply hv
      rw [e, hs hst]
      exact hq

theorem gstar_complete_local (dot ci : Bool) (T' rr : List Char) (hrr : AtSep rr)
    (hv : ∀ x ∈ pieces T', visible dot x = true) (t : List Char) (ht : dot = false ∨ t.getLast? ≠ some '\n')
    {x m : St} (h : Iter (consume1 (fun _ => true)) x m) :
    ∀ pre u pre0, T' = pre ++ u → x.rest = u ++ rr → m.rest = rr → (x.atStart = true → pre = []) →
      t = pre0 ++ x.rest → Re.M ⟨true, ci⟩ (pGstar dot) x m := by
  induction h with
  | refl x => intro _ _ _ _ _ _ _ _; exact (pGstar_iff dot ci x x).mpr (Iter.refl _)
  | step hab hbc ih =>
    rename_i x y z
    intro pre u pre0 e ex hm hs et
    have hab' := hab
    obtain ⟨d, s, e1, _, hy⟩ := hab
    have hune : u ≠ [] := by
      rintro rfl
      have h1 := (Iter.suf (fun _ _ h => consume1_suf h) hbc).len
      rw [hm, hy] at h1
      simp only [List.nil_append] at ex
      rw [ex] at e1
      rw [e1] at h1
      simp at h1
      omega
    have hxne : x.rest ≠ [] := by rw [e1]; simp
    have hguard := not_GAhead_local dot ci T' rr hrr hv pre u e hune x ex hs
      (ht.imp id (fun h => suffix_getLast hxne (et ▸ h)))
    cases u with
    | nil => exact absurd rfl hune
    | cons d' u' =>
      rw [e1] at ex
      simp only [List.cons_append, List.cons.injEq] at ex
      obtain ⟨rfl, es⟩ := ex
      have ih' := ih (pre ++ [d]) u' (pre0 ++ [d]) (by rw [e]; simp) (by rw [hy]; exact es) hm
        (by rw [hy]; simp) (by rw [et, e1, hy]; simp)
      exact (pGstar_iff dot ci x z).mpr (Iter.step ⟨hguard, hab'⟩ ((pGstar_iff dot ci y z).mp ih'))

/-- **lower bound, `**/` before a segment**: a gap `T` of whole visible pieces can be consumed by
    the globstar and its divider, whatever stands behind it -/
theorem gap_must (dot ci : Bool) (a : St) (T r : List Char) (e : a.rest = T ++ r) (hg : GapOK a.atStart T)
    (hv : ∀ x ∈ pieces T, visible dot x = true) (t pre0 : List Char) (et : t = pre0 ++ a.rest)
    (ht : dot = false ∨ t.getLast? ≠ some '\n') :
    ∃ m, Re.M ⟨true, ci⟩ (pGstar dot) a m ∧
      Re.M ⟨true, ci⟩ (Frag.globstarDiv false) m ⟨a.atStart && T.isEmpty, r⟩ := by
  rcases hg with ⟨rfl, hst⟩ | ⟨T', rfl⟩
  · have hc : (⟨a.atStart && ([] : List Char).isEmpty, r⟩ : St) = a := by
      rcases a with ⟨af, ar⟩
      simp only [List.nil_append] at e
      simp [e]
    rw [hc]
    exact ⟨a, (pGstar_iff dot ci a a).mpr (Iter.refl _), (M_div_iff _ a a).mpr (Or.inl ⟨rfl, Or.inl hst⟩)⟩
  · have hf : (a.atStart && (T' ++ ['/']).isEmpty) = false := by cases T' <;> simp
    rw [hf]
    have e' : a.rest = T' ++ '/' :: r := by rw [e]; simp
    by_cases hT : T' = []
    · subst hT
      exact ⟨a, (pGstar_iff dot ci a a).mpr (Iter.refl _),
        (M_div_iff _ a _).mpr (Or.inr ⟨rfl, ['/'], by simp, rfl, by simpa using e'⟩)⟩
    · have hit : Iter (consume1 (fun _ => true)) a ⟨false, '/' :: r⟩ :=
        (iterAny_iff a _).mpr (Or.inr ⟨rfl, T', hT, e'⟩)
      have hv' : ∀ x ∈ pieces T', visible dot x = true := by
        intro x hx
        apply hv
        rw [pieces_append_slash, pieces_nil, List.append_nil]
        exact hx
      refine ⟨⟨false, '/' :: r⟩, ?_, (M_div_iff _ _ _).mpr (Or.inr ⟨rfl, ['/'], by simp, rfl, rfl⟩)⟩
      exact gstar_complete_local dot ci T' ('/' :: r) (Or.inr ⟨r, rfl⟩) hv' t ht hit [] T' pre0 rfl e' rfl
        (fun _ => rfl) et

/-- **lower bound, a final globstar**: it consumes all the remaining pieces if they are visible -/
theorem globEnd_must (dot ci sb : Bool) (a : St) (hsb : sb = true → a.rest.head? = some '/')
    (hv : ∀ x ∈ pieces a.rest, visible dot x = true) (t pre0 : List Char) (et : t = pre0 ++ a.rest)
    (ht : dot = false ∨ t.getLast? ≠ some '\n') :
    ∃ y, y.rest = [] ∧ Re.M ⟨true, ci⟩ (needSepIf sb (.cat (pGstar dot) (.cat (Frag.globstarDiv false)
        (sepIf false (Frag.pathTrail false))))) a y := by
  have hex : ∃ m, m.rest = [] ∧ Iter (consume1 (fun _ => true)) a m := by
    cases hr : a.rest with
    | nil => exact ⟨a, hr, Iter.refl _⟩
    | cons d s =>
      exact ⟨⟨false, []⟩, rfl, (iterAny_iff a _).mpr (Or.inr ⟨rfl, d :: s, by simp, by simp [hr]⟩)⟩
  obtain ⟨m, hm, hit⟩ := hex
  refine ⟨m, hm, (M_needSepIf _ sb _ a m).mpr ⟨hsb, ?_⟩⟩
  rw [Re.M.eq_5]
  refine ⟨m, gstar_complete_local dot ci a.rest [] (Or.inl rfl) hv t ht hit [] a.rest pre0 rfl (by simp) hm
    (fun _ => rfl) et, ?_⟩
  rw [Re.M.eq_5]
  refine ⟨m, (M_div_iff _ m m).mpr (Or.inl ⟨rfl, Or.inr (by simp [atEos, hm])⟩), ?_⟩
  simp only [sepIf, Bool.false_eq_true, ite_false, Frag.pathTrail, Re.M.eq_11]
  exact Iter.refl _

/-! ### upper bound: what a globstar consumed consists of visible pieces -/

/-- the guard held at every position the iteration consumed from -/
theorem iter_guard_at {P : St → Prop} {a m : St}
    (h : Iter (fun x y => P x ∧ consume1 (fun _ => true) x y) a m) :
    ∀ G1 d G2, a.rest = G1 ++ (d :: (G2 ++ m.rest)) → P ⟨a.atStart && G1.isEmpty, d :: (G2 ++ m.rest)⟩ := by
  induction h with
  | refl a =>
    intro G1 d G2 e
    have := congrArg List.length e
    simp at this
    omega
  | step hab hbc ih =>
    rename_i x y z
    intro G1 d G2 e
    obtain ⟨hP, d0, s, e1, _, rfl⟩ := hab
    cases G1 with
    | nil =>
      simp only [List.nil_append] at e
      have : (⟨x.atStart && ([] : List Char).isEmpty, d :: (G2 ++ z.rest)⟩ : St) = x := by
        rcases x with ⟨xf, xr⟩
        simp only at e
        simp [e]
      rw [this]; exact hP
    | cons g G1' =>
      rw [e1] at e
      simp only [List.cons_append, List.cons.injEq] at e
      have := ih G1' d G2 e.2
      simpa using this

/-- a piece the guard let the globstar enter is visible -/
theorem visible_of_not_GAhead (dot ci : Bool) (x R : List Char) (hx : x ≠ []) (hR : AtSep R) :
    (∀ f, ¬ GAhead dot ci ⟨f, '/' :: (x ++ R)⟩ → visible dot x = true) ∧
    (¬ GAhead dot ci ⟨true, x ++ R⟩ → visible dot x = true) := by
  cases dot with
  | false =>
    simp only [GAhead, Bool.false_eq_true, ite_false]
    have key : x.head? ≠ some '.' → visible false x = true := by
      intro hh
      have : isDotDir x = false := by
        cases hd : isDotDir x with
        | false => rfl
        | true => exact absurd (head_dot_of_isDotDir hd) hh
      simp [visible, this, hh]
    constructor
    · intro f hno
      apply key
      intro hh
      apply hno
      cases x with
      | nil => exact absurd rfl hx
      | cons d x' =>
        simp only [List.head?_cons, Option.some.injEq] at hh
        subst hh
        exact Or.inl ⟨x' ++ R, rfl⟩
    · intro hno
      apply key
      intro hh
      apply hno
      cases x with
      | nil => exact absurd rfl hx
      | cons d x' =>
        simp only [List.head?_cons, Option.some.injEq] at hh
        subst hh
        exact Or.inr ⟨rfl, x' ++ R, rfl⟩
  | true =>
    simp only [GAhead, ite_true]
    have key : ∀ z : St, z.rest = x ++ R → NoDirOK ⟨true, ci⟩ z → visible true x = true := by
      intro z ez hok
      cases hd : isDotDir x with
      | false => simp [visible, hd]
      | true => exact absurd hok (noDir_fires _ z x R ez hd hR)
    constructor
    · intro f hno
      apply key ⟨false, x ++ R⟩ rfl
      intro hfire
      exact hno ((dirAhead_iff ci _).mpr (Or.inl ⟨x ++ R, rfl, fun h => h hfire⟩))
    · intro hno
      apply key ⟨true, x ++ R⟩ rfl
      intro hfire
      exact hno ((dirAhead_iff ci _).mpr (Or.inr ⟨rfl, fun h => h hfire⟩))

/-- **what a globstar consumed, up to a separator or the end, consists of visible pieces** —
    provided it started at the very beginning of the subject or in front of a separator -/
theorem gstar_vis (dot ci : Bool) (a m : St) (h : Re.M ⟨true, ci⟩ (pGstar dot) a m)
    (hctx : a.atStart = true ∨ AtSep a.rest) :
    ∃ G, a.rest = G ++ m.rest ∧ (G = [] ∨ m.atStart = false) ∧
      (AtSep m.rest → ∀ x ∈ pieces G, visible dot x = true) := by
  have hit := (pGstar_iff dot ci a m).mp h
  have hany := (iterAny_iff a m).mp (gstar_sound dot ci a m h)
  have hG : ∃ G, a.rest = G ++ m.rest ∧ (G = [] ∨ m.atStart = false) := by
    rcases hany with rfl | ⟨hf, pre, _, e⟩
    · exact ⟨[], rfl, Or.inl rfl⟩
    · exact ⟨pre, e, Or.inr hf⟩
  obtain ⟨G, eG, hGf⟩ := hG
  refine ⟨G, eG, hGf, ?_⟩
  intro hm x hx
  obtain ⟨L, R', eL, hL, hR', hsl, hxne⟩ := mem_pieces_decomp G x hx
  have hR : AtSep (R' ++ m.rest) := atSep_append hR' hm
  obtain ⟨hv1, hv2⟩ := visible_of_not_GAhead dot ci x (R' ++ m.rest) hxne hR
  cases x with
  | nil => exact absurd rfl hxne
  | cons d x' =>
    rcases hL with rfl | ⟨L', rfl⟩
    · -- the first piece: the globstar started at the very beginning of the subject
      have e0 : a.rest = [] ++ (d :: ((x' ++ R') ++ m.rest)) := by rw [eG, eL]; simp
      have hg := iter_guard_at hit [] d (x' ++ R') e0
      rcases hctx with hst | hsep
      · apply hv2
        have : (⟨a.atStart && ([] : List Char).isEmpty, d :: ((x' ++ R') ++ m.rest)⟩ : St) =
            ⟨true, (d :: x') ++ (R' ++ m.rest)⟩ := by simp [hst]
        rw [← this]; exact hg
      · exfalso
        simp only [List.mem_cons, not_or] at hsl
        rcases hsep with h0 | ⟨r', h0⟩
        · rw [h0] at e0; simp at e0
        · rw [h0] at e0
          simp only [List.nil_append, List.cons.injEq] at e0
          exact hsl.1 e0.1
    · have e0 : a.rest = L' ++ ('/' :: (((d :: x') ++ R') ++ m.rest)) := by rw [eG, eL]; simp
      have hg := iter_guard_at hit L' '/' ((d :: x') ++ R') e0
      apply hv1 (a.atStart && L'.isEmpty)
      have : ('/' :: (((d :: x') ++ R') ++ m.rest)) = '/' :: ((d :: x') ++ (R' ++ m.rest)) := by simp
      rw [← this]; exact hg

/-- **upper bound, `**/` before a segment**: the gap consists of whole visible pieces -/
theorem gap_may (dot ci : Bool) (a m c : St) (h1 : Re.M ⟨true, ci⟩ (pGstar dot) a m)
    (h2 : Re.M ⟨true, ci⟩ (Frag.globstarDiv false) m c) (hc : c.rest ≠ [])
    (hnl : a.rest.getLast? ≠ some '\n') (hctx : a.atStart = true ∨ AtSep a.rest) :
    ∃ T, a.rest = T ++ c.rest ∧ GapOK a.atStart T ∧ c.atStart = (a.atStart && T.isEmpty) ∧
      ∀ x ∈ pieces T, visible dot x = true := by
  obtain ⟨T, eT, hg, hf⟩ := (gap_iff ⟨true, ci⟩ a c hnl hc).mp ⟨m, gstar_sound dot ci a m h1, h2⟩
  refine ⟨T, eT, hg, hf, ?_⟩
  obtain ⟨G, eG, hGf, hvis⟩ := gstar_vis dot ci a m h1 hctx
  rcases (M_div_iff _ m c).mp h2 with ⟨rfl, hz⟩ | ⟨_, pre, hne, hp, e⟩
  · -- zero-width divider: only at the very start (the end is excluded: something follows)
    have hTG : T = G := List.append_cancel_right (eT.symm.trans eG)
    subst hTG
    rcases hGf with rfl | hmf
    · simp [pieces_nil]
    · exfalso
      rcases hz with hz | hz
      · rw [hmf] at hz; cases hz
      · unfold atEos at hz
        simp only [Bool.or_eq_true, beq_iff_eq] at hz
        rcases hz with hz | hz
        · exact hc hz
        · apply hnl
          rw [eG, hz]
          simp
  · have hTG : T = G ++ pre := by
      apply List.append_cancel_right (bs := c.rest)
      rw [← eT, eG, e, List.append_assoc]
    have hm : AtSep m.rest := by
      rcases allSl_head pre hp with rfl | ⟨x, rfl⟩
      · exact absurd rfl hne
      · exact Or.inr ⟨x ++ c.rest, by rw [e]; rfl⟩
    rw [hTG, pieces_append_allSl G pre hp]
    exact hvis hm

/-- **upper bound, a final globstar**: everything that is left consists of visible pieces -/
theorem globEnd_may (dot ci sb : Bool) (a y : St) (hy : y.rest = [])
    (h : Re.M ⟨true, ci⟩ (needSepIf sb (.cat (pGstar dot) (.cat (Frag.globstarDiv false)
        (sepIf false (Frag.pathTrail false))))) a y)
    (hctx : a.atStart = true ∨ AtSep a.rest) :
    (sb = true → a.rest.head? = some '/') ∧ ∀ x ∈ pieces a.rest, visible dot x = true := by
  obtain ⟨hsb, h⟩ := (M_needSepIf _ sb _ a y).mp h
  refine ⟨hsb, ?_⟩
  rw [Re.M.eq_5] at h
  obtain ⟨m, h1, h2⟩ := h
  rw [Re.M.eq_5] at h2
  obtain ⟨c, h2, h3⟩ := h2
  have hcs : allSl c.rest = true := by
    simp only [sepIf, Bool.false_eq_true, ite_false] at h3
    exact (M_pathTrail_end _ c).mp ⟨y, hy, h3⟩
  have hms : allSl m.rest = true := by
    rcases (M_div_iff _ m c).mp h2 with ⟨rfl, _⟩ | ⟨_, pre, _, hp, e⟩
    · exact hcs
    · rw [e]
      simp only [allSl, List.all_append, Bool.and_eq_true] at hp hcs ⊢
      exact ⟨hp, hcs⟩
  obtain ⟨G, eG, _, hvis⟩ := gstar_vis dot ci a m h1 hctx
  rw [eG, pieces_append_allSl G m.rest hms]
  exact hvis (allSl_head _ hms)

end WcModel.HL

import WcModel.Proofs.EscapeWinDrive
import WcModel.Properties.C09path
/-
  C09 under Windows rules, part (3), assembly: `escape(drive ++ rest, unix=False)` through the
  faithful port with the REAL drive scanner `winDrive` (= `_get_win_drive`).

  `DriveAgree cfg drive rest` is the (decidable) hypothesis "escape's drive regex and the parser's
  drive detection agree on `drive ++ rest`":
    (i)  `RE_WIN_DRIVE` (run on the text with doubled backslashes, as `escape` does) matches exactly
         the text of `drive`;
    (ii) `_get_win_drive`, run on `escape(drive ++ rest)`, reports a drive that ends exactly where
         escape's drive text ends, with the `slash` flag of `drive`'s final separator, and whose regex
         is the one `escape_drive` builds from the text of `drive` (`driveReOf`).
  Under it the language of `escape(drive ++ rest)` is { d' ++ t | DriveEq core d', DTail … rest t }.
-/
set_option linter.unusedSimpArgs false
namespace WcModel

open EscW

/-! ### `escape(unix=False)` on `drive ++ rest` -/

theorem dbl_append (a b : List Char) : dbl (a ++ b) = dbl a ++ dbl b := by
  simp [dbl, List.flatMap_append]

theorem magicSub_dbl (s : List Char) : magicSub (dbl s) = escapeUnix s := by
  induction s with
  | nil => rfl
  | cons c r ih =>
    have e1 : dbl (c :: r) = dbl [c] ++ dbl r := dbl_append [c] r
    have e2 : ∀ x y, magicSub (x ++ y) = magicSub x ++ magicSub y := by
      intro x y; simp [magicSub, List.flatMap_append]
    rw [e1, e2, ih]
    have : escapeUnix (c :: r) = escapeChar c ++ escapeUnix r := by simp [escapeUnix]
    rw [this]
    congr 1
    unfold escapeChar
    by_cases hb : c = '\\'
    · subst hb; decide
    · by_cases hm : c ∈ magicEscapeChars
      · simp [dbl, magicSub, hb, hm]
      · simp [dbl, magicSub, hb, hm]

/-- when `RE_WIN_DRIVE` matches exactly the (doubled) text of `drive` -/
theorem escapeWin_carve (drive rest : List Char) (h : reWinDrive (dbl (drive ++ rest)) = some (dbl rest)) :
    escapeWin (drive ++ rest) = driveMagicSub (dbl drive) ++ escapeUnix rest := by
  unfold escapeWin
  simp only [h]
  rw [dbl_append, magicSub_dbl]
  congr 1
  have : (dbl drive ++ dbl rest).length - (dbl rest).length = (dbl drive).length := by simp
  rw [this]; simp

/-- when it does not match at all -/
theorem escapeWin_noCarve (s : List Char) (h : reWinDrive (dbl s) = none) : escapeWin s = escapeUnix s := by
  unfold escapeWin
  simp only [h]
  exact magicSub_dbl s

/-! ### the agreement predicate -/

/-- the text ends with a separator -/
def endsSepW (d : List Char) : Bool :=
  match d.getLast? with
  | some c => isSepW c
  | none => false

/-- the drive text without its final separator -/
def driveCore (d : List Char) : List Char := if endsSepW d then d.dropLast else d

/-- **"escape's drive regex and the parser's drive detection agree on `drive ++ rest`"** -/
def DriveAgree (cfg : Cfg) (drive rest : List Char) : Bool :=
  reWinDrive (dbl (drive ++ rest)) == some (dbl rest) &&
  (let d := winDrive cfg (escapeWin (drive ++ rest))
   d.rootSpecified && d.endIdx == (driveMagicSub (dbl drive)).length && d.slash == endsSepW drive &&
   (match d.drive with
    | some [.re r] => r == driveReOf cfg.caseSensitive (driveCore drive)
    | _ => false))

/-- the same for a string without a drive: neither finds one -/
def NoDriveAgree (cfg : Cfg) (s : List Char) : Bool :=
  reWinDrive (dbl s) == none && (winDrive cfg (escapeUnix s)).drive.isNone

theorem winDrive_nil (cfg : Cfg) : (winDrive cfg []).drive = none := by rfl
theorem winDrive_bs (cfg : Cfg) : (winDrive cfg ['\\']).drive = none := by rfl

structure DriveAgreeP (cfg : Cfg) (drive rest : List Char) : Prop where
  carve : reWinDrive (dbl (drive ++ rest)) = some (dbl rest)
  root : (winDrive cfg (escapeWin (drive ++ rest))).rootSpecified = true
  endIdx : (winDrive cfg (escapeWin (drive ++ rest))).endIdx = (driveMagicSub (dbl drive)).length
  slash : (winDrive cfg (escapeWin (drive ++ rest))).slash = endsSepW drive
  re : (winDrive cfg (escapeWin (drive ++ rest))).drive =
    some [.re (driveReOf cfg.caseSensitive (driveCore drive))]

theorem DriveAgree.toP {cfg : Cfg} {drive rest : List Char} (h : DriveAgree cfg drive rest = true) :
    DriveAgreeP cfg drive rest := by
  unfold DriveAgree at h
  simp only [Bool.and_eq_true, beq_iff_eq] at h
  obtain ⟨h1, ⟨⟨h2, h3⟩, h4⟩, h5⟩ := h
  refine ⟨h1, h2, h3, h4, ?_⟩
  split at h5
  · rename_i r e
    simp only [beq_iff_eq] at h5
    rw [e, h5]
  · cases h5

theorem DriveAgreeP.agree {cfg : Cfg} {drive rest : List Char} (h : DriveAgreeP cfg drive rest) :
    DriveAgree cfg drive rest = true := by
  unfold DriveAgree
  simp only [Bool.and_eq_true, beq_iff_eq]
  refine ⟨h.carve, ⟨⟨h.root, h.endIdx⟩, h.slash⟩, ?_⟩
  rw [h.re]
  simp

/-! ### the theorem -/

/-- **(3) the language of `escape(drive ++ rest, unix=False)`** under the agreement hypothesis:
    a drive text equal to `drive` (without its final separator) literally, case-insensitively and
    up to the choice of separator, followed by what `DTail` allows for `rest` -/
theorem escape_drive_language (cfg : Cfg) (h : PathWinDriveEntry cfg) (drive rest : List Char)
    (hag : DriveAgree cfg drive rest = true) :
    ∃ parsed r, parseItems cfg (winDrive cfg) (escapeWin (drive ++ rest)) = .ok parsed ∧
      parsed.toRe = some r ∧
      ∀ name, r.FullMatch name ↔
        ∃ d' t, name = d' ++ t ∧ DriveEq (driveCore drive) d' = true ∧ DTail cfg (endsSepW drive) rest t := by
  have ha := DriveAgree.toP hag
  have hp := escapeWin_carve drive rest ha.carve
  have hrest : (escapeWin (drive ++ rest)).drop (winDrive cfg (escapeWin (drive ++ rest))).endIdx =
      printToks (rest.map C09.tokOf) := by
    rw [ha.endIdx, hp, ← C09.escape_is_print]
    simp
  have hp1 : escapeWin (drive ++ rest) ≠ ['\\'] := by
    intro e
    have := ha.re
    rw [e, winDrive_bs] at this
    cases this
  have hp2 : escapeWin (drive ++ rest) ≠ [] := by
    intro e
    have := ha.re
    rw [e, winDrive_nil] at this
    cases this
  have hparse := parseItems_driveW cfg h (winDrive cfg) (escapeWin (drive ++ rest)) _ (rest.map C09.tokOf)
    ha.re ha.root hrest (C09path.escape_pok cfg rest) hp1 hp2
  rw [C09path.tokChars_tokOf, ha.slash] at hparse
  refine ⟨_, _, hparse, toRe_driveItemsW cfg _ _ _, ?_⟩
  intro name
  rw [driveLitReW_fullMatch]
  constructor
  · rintro ⟨m, hm, ht⟩
    obtain ⟨q, ⟨e1, _⟩, e2⟩ := (M_driveReOf _ cfg.caseSensitive (by intro e; simp [e]) _ _ _).mp hm
    exact ⟨q, m.rest, e1, e2, ht⟩
  · rintro ⟨d', t, rfl, e2, ht⟩
    refine ⟨⟨true && d'.isEmpty, t⟩, ?_, ht⟩
    exact (M_driveReOf _ cfg.caseSensitive (by intro e; simp [e]) _ _ _).mpr ⟨d', ⟨rfl, rfl⟩, e2⟩

/-! ### `DTail` cut into pieces -/

theorem DTail_slash_iff (cfg : Cfg) (rest t : List Char) :
    DTail cfg true rest t ↔
      (nrmL t).head? = some '/' ∧
      piecesEq (!cfg.caseSensitive) (pieces (nrmL rest)) (pieces (nrmL t)) = true ∧
      ((nrmL rest).getLast? = some '/' → (nrmL t).getLast? = some '/') ∧
      (cfg.nodotdir = true → dotNlTail true (nrmL t) = false) := by
  unfold DTail
  simp only [ite_true]
  rw [PM_split, PM0_slash _ .start (by decide) _ (PM0_sep_spec _ _ _ (Nat.le_refl _))]
  simp only [LPos.after, and_assoc]
  constructor
  · rintro ⟨h1, h2, h3, h4⟩
    refine ⟨h1, h2, fun hl => h3 ?_, h4⟩
    cases hr : nrmL rest with
    | nil => rfl
    | cons x r => rw [hr] at hl; rw [getLast_cons_ne _ _ (by simp)]; exact hl
  · rintro ⟨h1, h2, h3, h4⟩
    refine ⟨h1, h2, fun hl => ?_, h4⟩
    cases hr : nrmL rest with
    | nil =>
      -- nothing behind the separator: the text is separators only
      rw [hr] at h2
      have : pieces (nrmL t) = [] := by
        have := h2; rw [pieces_nil] at this; exact (piecesEq_nil_left _ _).mp this
      have hall : allSl (nrmL t) = true := (allSl_iff_pieces_nil _).mpr this
      cases ht : nrmL t with
      | nil => rw [ht] at h1; cases h1
      | cons y ys =>
        rw [ht] at hall
        exact allSl_getLast _ hall (by simp)
    | cons x r =>
      rw [hr] at hl h3
      rw [getLast_cons_ne _ _ (by simp)] at hl
      exact h3 hl

theorem DTail_noslash_iff (cfg : Cfg) (rest t : List Char) :
    DTail cfg false rest t ↔
      SepSpec (!cfg.caseSensitive) (nrmL rest) (nrmL t) ∧
      (cfg.nodotdir = true → dotNlTail true (nrmL t) = false) := by
  unfold DTail
  simp only [Bool.false_eq_true, ite_false]
  rw [PM_split, PM0_sep_spec _ _ _ (Nat.le_refl _)]
  rfl

end WcModel

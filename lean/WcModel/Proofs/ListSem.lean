import WcModel.Proofs.Limit
/- C07 lemmas: the result of a core call matches exactly what the specification says. -/
namespace WcModel.Compile

variable {R N : Type}

theorem isEmpty_congr {α} (l l' : List α) (h : ∀ r, r ∈ l ↔ r ∈ l') : l.isEmpty = l'.isEmpty := by
  cases l with
  | nil =>
    cases l' with
    | nil => rfl
    | cons a l' => exact absurd ((h a).2 (by simp)) (by simp)
  | cons a l =>
    cases l' with
    | nil => exact absurd ((h a).1 (by simp)) (by simp)
    | cons b l' => rfl

theorem exists_congr_mem {α} (l l' : List α) (h : ∀ r, r ∈ l ↔ r ∈ l') (q : α → Prop) :
    (∃ r ∈ l, q r) ↔ ∃ r ∈ l', q r :=
  ⟨fun ⟨r, hr, hq⟩ => ⟨r, (h r).1 hr, hq⟩, fun ⟨r, hr, hq⟩ => ⟨r, (h r).2 hr, hq⟩⟩

theorem any_congr_mem {α} (l l' : List α) (h : ∀ r, r ∈ l ↔ r ∈ l') (f : α → Bool) : l.any f = l'.any f := by
  rw [Bool.eq_iff_iff, List.any_eq_true, List.any_eq_true]
  exact exists_congr_mem l l' h (fun r => f r = true)

/-- executable form of `specOf` -/
def specOfB (x : Ext R) (fl : Flags) (mt : R → N → Bool) (inc exc : List R) (name : N) : Bool :=
  (if inc.isEmpty && !exc.isEmpty && fl.negateall then mt (defaultIncl x fl) name else inc.any (fun r => mt r name)) &&
  !exc.any (fun r => mt r name) && (!fl.nodir || !mt (x.noDir (isUnixStyle fl)) name)

theorem specOf_iff (x : Ext R) (fl : Flags) (mt : R → N → Bool) (inc exc : List R) (name : N) :
    specOf x fl mt inc exc name ↔ specOfB x fl mt inc exc name = true := by
  unfold specOf specOfB
  by_cases hd : (inc.isEmpty && !exc.isEmpty && fl.negateall) = true
  · simp only [hd, if_true, List.mem_singleton, exists_eq_left, Bool.and_eq_true, Bool.not_eq_true',
      List.any_eq_false, Bool.or_eq_true]
    constructor
    · rintro ⟨h1, h2, h3⟩
      refine ⟨⟨h1, fun r hr => by
        by_cases hm : mt r name = true
        · exact absurd ⟨r, hr, hm⟩ h2
        · simpa using hm⟩, ?_⟩
      by_cases hn : fl.nodir = true
      · exact Or.inr (h3 hn)
      · exact Or.inl (by simpa using hn)
    · rintro ⟨⟨h1, h2⟩, h3⟩
      refine ⟨h1, ?_, ?_⟩
      · rintro ⟨r, hr, hm⟩
        have := h2 r hr
        simp [hm] at this
      · intro hn
        rcases h3 with h3 | h3
        · simp [hn] at h3
        · exact h3
  · simp only [hd, Bool.false_eq_true, if_false, Bool.and_eq_true, Bool.not_eq_true', List.any_eq_true,
      List.any_eq_false, Bool.or_eq_true]
    constructor
    · rintro ⟨h1, h2, h3⟩
      refine ⟨⟨h1, fun r hr => by
        by_cases hm : mt r name = true
        · exact absurd ⟨r, hr, hm⟩ h2
        · simpa using hm⟩, ?_⟩
      by_cases hn : fl.nodir = true
      · exact Or.inr (h3 hn)
      · exact Or.inl (by simpa using hn)
    · rintro ⟨⟨h1, h2⟩, h3⟩
      refine ⟨h1, ?_, ?_⟩
      · rintro ⟨r, hr, hm⟩
        have := h2 r hr
        simp [hm] at this
      · intro hn
        rcases h3 with h3 | h3
        · simp [hn] at h3
        · exact h3

/-- the Boolean skeleton of "NEGATEALL default, NODIR append, then include-any / exclude-none":
    p/n = some inclusion / exclusion matches, pe/ne = the lists are empty, a = NEGATEALL,
    dd = NODIR, fd/fn = the default inclusion / the NODIR regex matches -/
theorem finish_bool : ∀ (p n pe ne a dd fd fn : Bool), (pe = true → p = false) → (ne = true → n = false) →
    ((if (!ne && pe && a) then (p || fd) else p) &&
      !(if (!(if (!ne && pe && a) then false else pe) && dd) then (n || fn) else n)) =
    ((if (pe && !ne && a) then fd else p) && !n && (!dd || !fn)) := by decide

theorem any_ite_append {α} (c : Bool) (l : List α) (a : α) (f : α → Bool) :
    (if c = true then l ++ [a] else l).any f = if c = true then (l.any f || f a) else l.any f := by
  cases c <;> simp

theorem isEmpty_ite_append {α} (c : Bool) (l : List α) (a : α) :
    (if c = true then l ++ [a] else l).isEmpty = if c = true then false else l.isEmpty := by
  cases c <;> simp

theorem any_nil_of_isEmpty {α} (l : List α) (f : α → Bool) (h : l.isEmpty = true) : l.any f = false := by
  cases l with
  | nil => rfl
  | cons _ _ => simp at h

/-- the tail of the loops (NEGATEALL default, NODIR append) followed by `_Match.match`, against
    the specification over any lists with the same members -/
theorem finish_match (x : Ext R) (fl : Flags) (mt : R → N → Bool) (P Nn P' N' : List R) (name : N)
    (hP : ∀ r, r ∈ P ↔ r ∈ P') (hN : ∀ r, r ∈ Nn ↔ r ∈ N') :
    matchPN mt (finishPN x fl ⟨P, Nn⟩).pos (finishPN x fl ⟨P, Nn⟩).neg name = true ↔ specOf x fl mt P' N' name := by
  rw [specOf_iff]
  have hPe := isEmpty_congr P P' hP
  have hNe := isEmpty_congr Nn N' hN
  have hPa := any_congr_mem P P' hP (fun r => mt r name)
  have hNa := any_congr_mem Nn N' hN (fun r => mt r name)
  have key := finish_bool (P.any fun r => mt r name) (Nn.any fun r => mt r name) P.isEmpty Nn.isEmpty fl.negateall
    fl.nodir (mt (defaultIncl x fl) name) (mt (x.noDir (isUnixStyle fl)) name)
    (any_nil_of_isEmpty P _) (any_nil_of_isEmpty Nn _)
  have hpos : (finishPN x fl ⟨P, Nn⟩).pos =
      if (!Nn.isEmpty && P.isEmpty && fl.negateall) = true then P ++ [defaultIncl x fl] else P := rfl
  have hneg : (finishPN x fl ⟨P, Nn⟩).neg =
      if (!(finishPN x fl ⟨P, Nn⟩).pos.isEmpty && fl.nodir) = true then Nn ++ [x.noDir (isUnixStyle fl)] else Nn := rfl
  have hposAny : (finishPN x fl ⟨P, Nn⟩).pos.any (fun r => mt r name) =
      if (!Nn.isEmpty && P.isEmpty && fl.negateall) = true then ((P.any fun r => mt r name) || mt (defaultIncl x fl) name)
      else P.any fun r => mt r name := by
    rw [hpos, any_ite_append]
  have hposEmpty : (finishPN x fl ⟨P, Nn⟩).pos.isEmpty =
      if (!Nn.isEmpty && P.isEmpty && fl.negateall) = true then false else P.isEmpty := by
    rw [hpos, isEmpty_ite_append]
  have hnegAny : (finishPN x fl ⟨P, Nn⟩).neg.any (fun r => mt r name) =
      if (!(if (!Nn.isEmpty && P.isEmpty && fl.negateall) = true then false else P.isEmpty) && fl.nodir) = true
      then ((Nn.any fun r => mt r name) || mt (x.noDir (isUnixStyle fl)) name) else Nn.any fun r => mt r name := by
    rw [hneg, hposEmpty, any_ite_append]
  unfold matchPN specOfB
  rw [hposAny, hnegAny, ← hPe, ← hNe, ← hPa, ← hNa]
  rw [key]

/-- members of what the loop builds = members of the specification's lists -/
theorem core_members (x : Ext R) (fl : Flags) (ps : List Pat) (neg0 : List R) (pulls0 used : Nat) :
    (∀ r, r ∈ (pureRun x fl (pnPolicy x fl) ps (coreStart neg0 pulls0 used)).out.pos ↔
          r ∈ (specIncl x fl ps).map (x.parse fl)) ∧
    (∀ r, r ∈ (pureRun x fl (pnPolicy x fl) ps (coreStart neg0 pulls0 used)).out.neg ↔
          r ∈ neg0 ++ (specExclInline x fl ps).map (x.parse (negFlags fl))) := by
  obtain ⟨h1, h2⟩ := core_out x fl ps neg0 pulls0 used
  rw [h1, h2]
  constructor
  · intro r
    simp only [specIncl, List.mem_map, List.mem_filter, mem_distinct]
  · intro r
    simp only [specExclInline, List.mem_append, List.mem_map, List.mem_filter, mem_distinct]
    constructor
    · rintro (h | ⟨e, ⟨he, hn⟩, rfl⟩)
      · exact Or.inl h
      · exact Or.inr ⟨e.drop 1, ⟨e, ⟨he, hn⟩, rfl⟩, rfl⟩
    · rintro (h | ⟨q, ⟨e, ⟨he, hn⟩, rfl⟩, rfl⟩)
      · exact Or.inl h
      · exact Or.inr ⟨e, ⟨he, hn⟩, rfl⟩

/-- one core call, matched -/
theorem core_sem (x : Ext R) (fl : Flags) (cnt : Pat → Nat) (hb : BraceOK x cnt) (mt : R → N → Bool) (L : Int)
    (ps : List Pat) (neg0 : List R) (pulls0 used : Nat) (o : Out R) (name : N)
    (h : compileCore x fl L ps neg0 pulls0 used = .ok o) :
    matchPN mt o.pos o.neg name = true ↔
      specOf x fl mt ((specIncl x fl ps).map (x.parse fl))
        (neg0 ++ (specExclInline x fl ps).map (x.parse (negFlags fl))) name := by
  obtain ⟨ho, _⟩ := core_inv x fl cnt hb L ps neg0 pulls0 used o h
  obtain ⟨h1, h2⟩ := core_members x fl ps neg0 pulls0 used
  rw [ho]
  exact finish_match x fl mt _ _ _ _ name h1 h2

/-- exclusions given through `exclude=`: their compiled forms, as the specification lists them -/
def specExclArg (tr : Bool) (x : Ext R) (fl0 : Flags) (ex : Option (List Pat)) : List R :=
  match ex with
  | none => []
  | some e => (allPieces x (flE tr fl0) e).map (x.parse (flE tr fl0))

/-- the meaning of a whole call (C07): inclusion / exclusion lists defined by expansion and sign -/
def specMatch (tr : Bool) (x : Ext R) (fl0 : Flags) (mt : R → N → Bool) (ps : List Pat) (ex : Option (List Pat))
    (name : N) : Prop :=
  let fl := flM tr fl0 ex.isSome
  specOf x fl mt ((specIncl x fl ps).map (x.parse fl))
    (specExclArg tr x fl0 ex ++ (specExclInline x fl ps).map (x.parse (negFlags fl))) name

theorem specOf_congr (x : Ext R) (fl : Flags) (mt : R → N → Bool) (P P' E E' : List R) (name : N)
    (hP : ∀ r, r ∈ P ↔ r ∈ P') (hE : ∀ r, r ∈ E ↔ r ∈ E') :
    specOf x fl mt P E name ↔ specOf x fl mt P' E' name := by
  rw [specOf_iff, specOf_iff]
  unfold specOfB
  rw [isEmpty_congr P P' hP, isEmpty_congr E E' hE, any_congr_mem P P' hP, any_congr_mem E E' hE]

theorem pn_sem (tr : Bool) (x : Ext R) (fl0 : Flags) (cnt : Pat → Nat) (hb : BraceOK x cnt) (mt : R → N → Bool)
    (L : Int) (ps : List Pat) (ex : Option (List Pat)) (o : Out R) (name : N)
    (h : pnCall tr x fl0 L ps ex = .ok o) :
    matchPN mt o.pos o.neg name = true ↔ specMatch tr x fl0 mt ps ex name := by
  cases ex with
  | none =>
    simp only [pnCall] at h
    have := core_sem x _ cnt hb mt L ps [] 0 0 o name h
    simpa [specMatch, specExclArg] using this
  | some e =>
    simp only [pnCall] at h
    cases hin : compileCore x (flE tr fl0) L e [] 0 0 with
    | error er => simp [hin] at h
    | ok oe =>
      simp only [hin] at h
      have hm := core_sem x _ cnt hb mt _ ps oe.pos oe.pulls oe.pos.length o name h
      rw [hm]
      obtain ⟨hoe, _⟩ := core_inv x _ cnt hb L e [] 0 0 oe hin
      -- the exclusion call returns one positive per distinct piece, compiled under its flags
      have hpos : ∀ r, r ∈ oe.pos ↔ r ∈ (allPieces x (flE tr fl0) e).map (x.parse (flE tr fl0)) := by
        intro r
        rw [hoe]
        have h1 := (core_members x (flE tr fl0) e ([] : List R) 0 0).1 r
        simp only [coreOut, finishPN, (flE_negate tr fl0).2, Bool.and_false, Bool.false_eq_true, if_false]
        rw [h1]
        have : specIncl x (flE tr fl0) e = allPieces x (flE tr fl0) e := by
          unfold specIncl
          apply List.filter_eq_self.mpr
          intro a _; simp [isNegative_of_no_negate _ (flE_negate tr fl0).1 a]
        rw [this]
      simp only [specMatch, specExclArg, Option.isSome_some]
      apply specOf_congr
      · intro r; rfl
      · intro r
        simp only [List.mem_append]
        rw [hpos r]

end WcModel.Compile

import WcModel.Proofs.Literal
import WcModel.Model.ToRe
import WcModel.Proofs.Regex
import WcModel.Proofs.PathFrag
namespace WcModel

/-- fnmatch entry conditions on the configuration (what `fnmatch.FLAG_MASK` guarantees) -/
structure FnEntry (cfg : Cfg) : Prop extends FnUnix cfg where
  anchor : cfg.anchor = false
  matchbase : cfg.matchbase0 = false
  extmatchbase : cfg.extmatchbase0 = false

def initPS (cfg : Cfg) : PS :=
  { matchbase := cfg.matchbase0, extmatchbase := cfg.extmatchbase0, globstar := cfg.globstar0 }

theorem root_lits (cfg : Cfg) (h : FnUnix cfg) (drive : List Char → DriveInfo) (ts : List LTok)
    (hok : okToks cfg ts) (ps : PS) (hinv : TopInv ps) :
    ∃ ps', root cfg drive (printToks ts) ps [.empty] =
      .ok (ps', (ts.map (fun t => litItem t.c)).reverse ++ [.empty]) ∧ TopInv ps' := by
  have hinv' : TopInv ps.setAfterStart :=
    ⟨rfl, hinv.inList, hinv.invNest, hinv.mdd, hinv.inv0, hinv.mb, hinv.emb⟩
  obtain ⟨ps', h1, h2⟩ := rootLoop_lits cfg h ts ((printToks ts).length + 1) 0 ps.setAfterStart [.empty]
    hok hinv' (Nat.le_refl _)
  refine ⟨ps', ?_, h2⟩
  unfold root
  simp only [h.wdd, h.pathname, h.realpath, Bool.false_and, Bool.false_eq_true, ite_false, Bool.and_false,
    Bool.not_false, Bool.true_and]
  simp only [h1, cleanUpInverse, h2.inv0, ite_true]

theorem printToks_ne_bs (ts : List LTok) (hok : ∀ t ∈ ts, t.esc = false → t.c ≠ '\\') :
    printToks ts ≠ ['\\'] := by
  cases ts with
  | nil => simp [printToks]
  | cons t r =>
    rw [printToks_cons]
    cases he : t.esc with
    | true => simp [LTok.print, he]
    | false =>
      have := hok t (List.mem_cons_self) he
      simp only [LTok.print, he, Bool.false_eq_true, ite_false, List.cons_append, List.nil_append]
      intro hc
      injection hc with hc _
      exact this hc

theorem okToks_bs (cfg : Cfg) (ts : List LTok) (hok : okToks cfg ts) : ∀ t ∈ ts, t.esc = false → t.c ≠ '\\' := by
  induction ts with
  | nil => intro t ht; cases ht
  | cons x r ih =>
    intro t ht he
    rcases List.mem_cons.mp ht with rfl | hm
    · rcases hok.1 with h | h
      · simp [he] at h
      · exact h.2.2.2.1
    · exact ih hok.2 t hm he

/-- the whole pass on a literal pattern -/
theorem parseItems_lits (cfg : Cfg) (h : FnEntry cfg) (drive : List Char → DriveInfo) (ts : List LTok)
    (hok : okToks cfg ts) :
    parseItems cfg drive (printToks ts) =
      .ok { items := .empty :: ts.map (fun t => litItem t.c), ci := !cfg.caseSensitive } := by
  unfold parseItems
  simp only [anchorStep, h.anchor, Bool.false_eq_true, ite_false]
  simp only [parsePrepend, h.matchbase, h.extmatchbase, Bool.or_self, Bool.false_eq_true, ite_false]
  unfold parseBody
  have hne := printToks_ne_bs ts (okToks_bs cfg ts hok)
  simp only [hne, ite_false]
  by_cases hemp : (printToks ts).isEmpty = true
  · have : ts = [] := by
      cases ts with
      | nil => rfl
      | cons t r =>
        rw [printToks_cons] at hemp
        cases he : t.esc <;> simp [LTok.print, he] at hemp
    subst this
    simp [printToks]
  · obtain ⟨ps', hr, hi⟩ := root_lits cfg h.toFnUnix drive ts hok
      { matchbase := false, extmatchbase := false, globstar := cfg.globstar0 } ⟨rfl, rfl, rfl, rfl, rfl, rfl, rfl⟩
    simp only [hemp, Bool.false_eq_true, ite_false, hr]
    simp [hi.mb, hi.emb]


/-! ### from the item list to the regex and its language -/

def litsRe : List Char → Re
  | [] => .eps
  | c :: cs => catE' (litRe' c) (litsRe cs)

theorem seqToRe_lits (cs : List Char) : ∀ fuel, cs.length + 1 ≤ fuel →
    Item.seqToRe fuel (cs.map litItem) = some (litsRe cs) := by
  induction cs with
  | nil => intro fuel hf; cases fuel with
    | zero => simp at hf
    | succ f => simp [Item.seqToRe, litsRe]
  | cons c cs ih =>
    intro fuel hf
    cases fuel with
    | zero => simp at hf
    | succ f =>
      have := ih f (by simp at hf; omega)
      simp [Item.seqToRe, litItem, litsRe] at this ⊢
      simp [this, litItem]

theorem splitBars_lits (cs : List Char) : splitBars (cs.map litItem) = [cs.map litItem] := by
  induction cs with
  | nil => rfl
  | cons c cs ih => simp [splitBars, litItem] at ih ⊢; simp [ih]

theorem sizeL_lits (cs : List Char) : Item.sizeL (cs.map litItem) = cs.length + 1 := by
  induction cs with
  | nil => rfl
  | cons c cs ih => simp [Item.sizeL, Item.size, litItem] at ih ⊢; omega

theorem toRe_lits (cs : List Char) (ci : Bool) :
    (Parsed.toRe { items := .empty :: cs.map litItem, ci := ci }) =
      some (.cat .bos (.cat (.flags true ci (litsRe cs)) .eos)) := by
  unfold Parsed.toRe
  have hsz : Item.sizeL (.empty :: cs.map litItem) = cs.length + 2 := by
    simp [Item.sizeL, Item.size, sizeL_lits]; omega
  rw [hsz]
  have hsplit : splitBars (.empty :: cs.map litItem) = [.empty :: cs.map litItem] := by
    simp [splitBars, splitBars_lits]
  have : 2 * (cs.length + 2) + 4 = (2 * cs.length + 6) + 1 + 1 := by omega
  rw [this]
  simp only [Item.listToRe, hsplit, List.mapM_cons, List.mapM_nil, Item.seqToRe]
  rw [seqToRe_lits cs (2 * cs.length + 6) (by omega)]
  rfl

/-- the per-character test of a literal item -/
def litP (ci : Bool) (c d : Char) : Bool := if c = '/' then d == '/' else charEq ci c d

theorem M_litRe' (md : Mode) (c : Char) (a b : St) :
    Re.M md (litRe' c) a b ↔ consume1 (litP md.ci c) a b := by
  unfold litRe' litP
  by_cases h : c = '/'
  · simp only [h, ite_true]; exact M_sep md a b
  · simp only [h, ite_false, Re.M]

theorem M_catE' (md : Mode) (r x : Re) (hr : r ≠ .eps) (a b : St) :
    Re.M md (catE' r x) a b ↔ ∃ m, Re.M md r a m ∧ Re.M md x m b := by
  unfold catE'
  by_cases hx : x = .eps
  · subst hx
    simp only [ite_true, Re.M]
    constructor
    · intro h; exact ⟨b, h, rfl⟩
    · rintro ⟨m, h, rfl⟩; exact h
  · simp only [hx, hr, ite_false, Re.M]

theorem litRe'_ne_eps (c : Char) : litRe' c ≠ .eps := by
  unfold litRe'; split <;> simp [Frag.sep]

/-- a run of literal items consumes exactly a text that matches character by character -/
def LitRun (ci : Bool) : List Char → St → St → Prop
  | [], a, b => b = a
  | c :: cs, a, b => ∃ m, consume1 (litP ci c) a m ∧ LitRun ci cs m b

theorem M_litsRe (md : Mode) (cs : List Char) : ∀ a b, Re.M md (litsRe cs) a b ↔ LitRun md.ci cs a b := by
  induction cs with
  | nil => intro a b; simp [litsRe, Re.M, LitRun]
  | cons c cs ih =>
    intro a b
    simp only [litsRe, LitRun]
    rw [M_catE' md _ _ (litRe'_ne_eps c)]
    constructor
    · rintro ⟨m, h1, h2⟩; exact ⟨m, (M_litRe' md c a m).mp h1, (ih m b).mp h2⟩
    · rintro ⟨m, h1, h2⟩; exact ⟨m, (M_litRe' md c a m).mpr h1, (ih m b).mpr h2⟩

/-- character-by-character equality under the case rule (and `/` for `/`) -/
def litEq (ci : Bool) : List Char → List Char → Bool
  | [], [] => true
  | c :: cs, d :: ds => litP ci c d && litEq ci cs ds
  | _, _ => false

theorem LitRun_iff (ci : Bool) (cs : List Char) : ∀ (t : Bool) (s : List Char),
    (∃ f, LitRun ci cs ⟨t, s⟩ ⟨f, []⟩) ↔ litEq ci cs s = true := by
  induction cs with
  | nil =>
    intro t s
    simp only [LitRun]
    constructor
    · rintro ⟨f, h⟩; injection h with _ h2; subst h2; rfl
    · intro h; cases s with
      | nil => exact ⟨t, rfl⟩
      | cons d ds => simp [litEq] at h
  | cons c cs ih =>
    intro t s
    simp only [LitRun]
    constructor
    · rintro ⟨f, m, ⟨d, r, h1, h2, rfl⟩, h3⟩
      simp only at h1; subst h1
      simp [litEq, h2, (ih false r).mp ⟨f, h3⟩]
    · intro h
      cases s with
      | nil => simp [litEq] at h
      | cons d r =>
        simp only [litEq, Bool.and_eq_true] at h
        obtain ⟨f, hf⟩ := (ih false r).mpr h.2
        exact ⟨f, ⟨false, r⟩, ⟨d, r, rfl, h.1, rfl⟩, hf⟩

/-- **the language of a literal pattern** (fnmatch mode, Unix rules): exactly the texts equal
    to it character by character under the case rule in force -/
theorem literal_language (cfg : Cfg) (h : FnEntry cfg) (drive : List Char → DriveInfo) (ts : List LTok)
    (hok : okToks cfg ts) :
    ∃ parsed r, parseItems cfg drive (printToks ts) = .ok parsed ∧ parsed.toRe = some r ∧
      ∀ s, r.FullMatch s ↔ litEq (!cfg.caseSensitive) (ts.map (·.c)) s = true := by
  refine ⟨_, .cat .bos (.cat (.flags true (!cfg.caseSensitive) (litsRe (ts.map (·.c)))) .eos),
    parseItems_lits cfg h drive ts hok, ?_, ?_⟩
  · have := toRe_lits (ts.map (·.c)) (!cfg.caseSensitive)
    simp only [List.map_map] at this
    exact this
  · intro s
    rw [← LitRun_iff (!cfg.caseSensitive) (ts.map (·.c)) true s]
    unfold Re.FullMatch
    simp only [Re.M]
    constructor
    · rintro ⟨b, c, ⟨rfl, _⟩, c', hm, rfl, _⟩
      exact ⟨b, (M_litsRe _ _ _ _).mp hm⟩
    · rintro ⟨f, hm⟩
      exact ⟨f, _, ⟨rfl, trivial⟩, _, (M_litsRe ⟨true, !cfg.caseSensitive⟩ _ _ _).mpr hm, rfl, by simp [atEos]⟩

end WcModel

import WcModel.Proofs.EscapeWinPath
import WcModel.Proofs.EscapeWinModel
/-
  C09 under Windows rules, part (3), parser side: a pattern that begins with a DRIVE.

  Layer 1 (this file, first half) — for ANY drive function and ANY pattern `p` for which it reports
  a drive `[.re dr]` that ends at `endIdx`, such that the rest of the pattern `p.drop endIdx` is a
  run of literal units (`printToks ts`): the pass emits

        ''  dr  ([\\/]+ if slash)  fragments of the rest from "just after a separator"  [\\/]*?

  (`consume_path_sep` skips the separators that follow the drive; `root_specified` switches the
  `_NO_WIN_ROOT` prefix of REALPATH off, so REALPATH needs no exclusion here), and the language of
  the regex is

        { name | ∃ m, dr matches a prefix of name leaving m ∧ DTail cfg slash rest m }

  with `DTail` the character-level statement `PM` of `LiteralPath.lean` on both sides normalised.

  Layer 2 (second half) — the drive regexes `_get_win_drive` builds (`escape_drive` of each part,
  joined by `[\\/]`, behind `[\\/]{2}`; or `escape_drive` of `x:`): for the regex `driveReOf cs core`
  built from the drive text `core`, `M md dr a m ↔ a.rest = d' ++ m.rest ∧ WinLitEq true core d'`
  — literal, ALWAYS case-insensitive (also under CASE), `/` and `\` interchangeable.
-/
set_option linter.unusedSimpArgs false
namespace WcModel

/-! ## Layer 1 : the pass -/

/-- the items behind the `''` that opens the list: drive, `[\\/]+` if the drive match ended with a
    separator, the fragments of the rest, `[\\/]*?` -/
def driveItemsW (cfg : Cfg) (dr : Re) (slash : Bool) (rest : List Char) : List Item :=
  .empty :: .re dr :: ((if slash then [Item.re (Frag.sepPlus true)] else []) ++
    pathResW cfg .sep rest ++ [.re (Frag.pathTrail true)])

theorem root_driveW (cfg : Cfg) (h : PathWin cfg) (hna : cfg.noAbs = false) (drive : List Char → DriveInfo)
    (p : List Char) (dr : Re) (ts : List LTok)
    (hd : (drive p).drive = some [.re dr]) (hrs : (drive p).rootSpecified = true)
    (hrest : p.drop (drive p).endIdx = printToks ts) (hok : pokToks cfg ts) (ps : PS) (hinv : TopInv ps) :
    ∃ ps', root cfg drive p ps [.empty] =
      .ok (ps', (driveItemsW cfg dr (drive p).slash (tokChars ts)).reverse) ∧ TopInv ps' := by
  have hwin := h.win
  rw [root_eq]
  unfold rootPre rootPost
  simp only [h.wdd, ite_true, hd, hrs, hna, Bool.false_and, Bool.false_eq_true, ite_false, Bool.not_true]
  simp only [consumePathSep, h.bslash, ite_true, It.advance, hrest, Nat.zero_add]
  obtain ⟨k, r', c1, c2, c3, c4, c5, c6⟩ := consumeWin_toks cfg ts ((printToks ts).length + 1) (drive p).endIdx
    ⟨(drive p).endIdx, printToks ts⟩ 0 hok (by decide) (by decide) (Nat.le_refl _)
  rw [c1]
  have hinv' : TopInv ({ ps.setAfterStart with matchbase := false, extmatchbase := false } : PS) :=
    ⟨rfl, hinv.inList, hinv.invNest, hinv.mdd, hinv.inv0, rfl, rfl⟩
  obtain ⟨ps', e1, e2⟩ := rootLoop_plitsW cfg h r'.length r' (Nat.le_refl _) ((printToks r').length + 1)
    ((drive p).endIdx + k) _
    (if (drive p).slash = true then Item.re (Frag.sepPlus true) :: ([Item.re dr].reverse ++ [Item.empty])
      else [Item.re dr].reverse ++ [Item.empty]) .sep c2 hinv' rfl (fun _ => c3) (Nat.le_refl _)
  refine ⟨ps', ?_, e2⟩
  simp only [e1, cleanUpInverse, e2.inv0, ite_true, hwin, h.pathname]
  have e4 : pathResW cfg .sep (tokChars ts) = pathResW cfg .sep (tokChars r') := by
    unfold pathResW; rw [c4]
  rw [← e4]
  unfold driveItemsW
  cases (drive p).slash <;> simp

/-- glob entry conditions for a pattern with a drive: path mode, Windows rules, no MATCHBASE, the
    pattern may be absolute; REALPATH is allowed -/
structure PathWinDriveEntry (cfg : Cfg) : Prop extends PathWin cfg where
  anchor : cfg.anchor = false
  matchbase : cfg.matchbase0 = false
  extmatchbase : cfg.extmatchbase0 = false
  noAbs : cfg.noAbs = false

/-- **(a) the whole pass on a pattern `drive ++ literal units`** -/
theorem parseItems_driveW (cfg : Cfg) (h : PathWinDriveEntry cfg) (drive : List Char → DriveInfo)
    (p : List Char) (dr : Re) (ts : List LTok)
    (hd : (drive p).drive = some [.re dr]) (hrs : (drive p).rootSpecified = true)
    (hrest : p.drop (drive p).endIdx = printToks ts) (hok : pokToks cfg ts)
    (hp1 : p ≠ ['\\']) (hp2 : p ≠ []) :
    parseItems cfg drive p =
      .ok { items := driveItemsW cfg dr (drive p).slash (tokChars ts), ci := !cfg.caseSensitive } := by
  unfold parseItems
  simp only [anchorStep, h.anchor, Bool.false_eq_true, ite_false]
  simp only [parsePrepend, h.matchbase, h.extmatchbase, Bool.or_self, Bool.false_eq_true, ite_false]
  unfold parseBody
  have hemp : p.isEmpty = false := by cases p <;> simp_all
  simp only [hp1, ite_false, hemp, Bool.false_eq_true]
  obtain ⟨ps', hr, hi⟩ := root_driveW cfg h.toPathWin h.noAbs drive p dr ts hd hrs hrest hok
    { matchbase := false, extmatchbase := false, globstar := cfg.globstar0 } ⟨rfl, rfl, rfl, rfl, rfl, rfl, rfl⟩
  simp only [hr]
  simp [hi.mb, hi.emb]

/-! ### the regex -/

/-- the Unix fragments whose `Re.ms` image stands behind the drive: `[/]+` (if the drive match ended
    with a separator), the rest, `[/]*?` -/
def dtailU (cfg : Cfg) (slash : Bool) (rest : List Char) : List Re :=
  (if slash then pathRes cfg .start ('/' :: nrmL rest) else pathRes cfg .sep (nrmL rest)) ++ [Frag.pathTrail false]

theorem dtailU_eq (cfg : Cfg) (slash : Bool) (rest : List Char) :
    dtailU cfg slash rest =
      (if slash then [Frag.sepPlus false] else []) ++ pathRes cfg .sep (nrmL rest) ++ [Frag.pathTrail false] := by
  unfold dtailU
  cases slash <;> simp [pathRes]

/-- the regex of `drive ++ escape(rest)` -/
def driveLitReW (cfg : Cfg) (dr : Re) (slash : Bool) (rest : List Char) : Re :=
  .cat .bos (.cat (.flags true (!cfg.caseSensitive) (seqRe (dr :: (dtailU cfg slash rest).map Re.ms))) .eos)

theorem toRe_driveItemsW (cfg : Cfg) (dr : Re) (slash : Bool) (rest : List Char) :
    (Parsed.toRe { items := driveItemsW cfg dr slash rest, ci := !cfg.caseSensitive }) =
      some (driveLitReW cfg dr slash rest) := by
  have e : driveItemsW cfg dr slash rest =
      ((none :: some dr :: ((dtailU cfg slash rest).map (fun r => some r.ms))).map optItem) := by
    rw [dtailU_eq]
    unfold driveItemsW pathResW
    cases slash <;> simp [optItem, Function.comp_def]
  rw [e, toRe_opts]
  unfold driveLitReW
  congr 6
  simp [List.filterMap_map, Function.comp_def]

/-! ### the language -/

theorem seqRe_ms : ∀ (rs : List Re), seqRe (rs.map Re.ms) = (seqRe rs).ms := by
  intro rs
  induction rs with
  | nil => rfl
  | cons r rs ih => simp only [List.map_cons, seqRe, ih, catE'_ms]

theorem dtailU_sepOK (cfg : Cfg) (slash : Bool) (rest : List Char) : ∀ r ∈ dtailU cfg slash rest, r.sepOK = true := by
  intro r hr
  unfold dtailU at hr
  simp only [List.mem_append, List.mem_singleton] at hr
  rcases hr with hr | rfl
  · split at hr
    · exact pathRes_sepOK cfg _ _ r hr
    · exact pathRes_sepOK cfg _ _ r hr
  · decide

theorem dtailU_ne_eps (cfg : Cfg) (slash : Bool) (rest : List Char) : ∀ r ∈ dtailU cfg slash rest, r ≠ .eps := by
  intro r hr
  unfold dtailU at hr
  simp only [List.mem_append, List.mem_singleton] at hr
  rcases hr with hr | rfl
  · split at hr
    · exact pathRes_ne_eps cfg _ _ r hr
    · exact pathRes_ne_eps cfg _ _ r hr
  · simp [Frag.pathTrail]

/-- what the text behind the drive must look like (character level, both sides normalised):
    if the drive match ended with a separator, one or more separators and then the rest from
    "just after a separator"; otherwise the rest (which is then empty or a lone newline) -/
def DTail (cfg : Cfg) (slash : Bool) (rest t : List Char) : Prop :=
  if slash then PM cfg (!cfg.caseSensitive) .start ('/' :: nrmL rest) (nrmL t)
  else PM cfg (!cfg.caseSensitive) .sep (nrmL rest) (nrmL t)

/-- the tail fragments, run to the end of the text -/
theorem dtail_sem (cfg : Cfg) (md : Mode) (slash : Bool) (rest : List Char) (m : St) :
    (∃ y : St, y.rest = [] ∧ Re.M md (seqRe ((dtailU cfg slash rest).map Re.ms)) m y) ↔
      (if slash then PM cfg md.ci .start ('/' :: nrmL rest) (nrmL m.rest)
       else PM cfg md.ci .sep (nrmL rest) (nrmL m.rest)) := by
  rw [seqRe_ms]
  obtain ⟨fw, bw⟩ := ms_sim (seqRe (dtailU cfg slash rest)) (seqRe_sepOK _ (dtailU_sepOK cfg slash rest))
  have key : (∃ y : St, y.rest = [] ∧ Re.M md (seqRe (dtailU cfg slash rest)).ms m y) ↔
      (∃ y : St, y.rest = [] ∧ MSeq md (dtailU cfg slash rest) (nrmS m) y) := by
    constructor
    · rintro ⟨y, hy, hm⟩
      refine ⟨nrmS y, by simp [hy], ?_⟩
      exact (M_seqRe md _ (dtailU_ne_eps cfg slash rest) _ _).mp (fw md m y hm)
    · rintro ⟨y', hy, hm⟩
      obtain ⟨y, e, hm'⟩ := bw md m y' ((M_seqRe md _ (dtailU_ne_eps cfg slash rest) _ _).mpr hm)
      refine ⟨y, ?_, hm'⟩
      have : (nrmS y).rest = [] := by rw [e]; exact hy
      simpa [nrmL] using this
  rw [key]
  unfold dtailU
  cases slash with
  | true => simpa using MSeq_pathRes_iff cfg md ('/' :: nrmL rest) .start (nrmS m)
  | false => simpa using MSeq_pathRes_iff cfg md (nrmL rest) .sep (nrmS m)

/-- `catE'` is a concatenation, whatever its arguments -/
theorem M_catE'_gen (md : Mode) (r x : Re) (a b : St) :
    Re.M md (catE' r x) a b ↔ ∃ m, Re.M md r a m ∧ Re.M md x m b := by
  unfold catE'
  by_cases hx : x = .eps
  · subst hx
    simp only [ite_true, Re.M]
    constructor
    · intro h; exact ⟨b, h, rfl⟩
    · rintro ⟨m, h, rfl⟩; exact h
  · by_cases hr : r = .eps
    · subst hr
      simp only [hx, ite_false, ite_true, Re.M]
      constructor
      · intro h; exact ⟨a, rfl, h⟩
      · rintro ⟨m, rfl, h⟩; exact h
    · simp only [hx, hr, ite_false, Re.M]

/-- **the language of `drive ++ escape(rest)`, character level** -/
theorem driveLitReW_fullMatch (cfg : Cfg) (dr : Re) (slash : Bool) (rest name : List Char) :
    (driveLitReW cfg dr slash rest).FullMatch name ↔
      ∃ m, Re.M ⟨true, !cfg.caseSensitive⟩ dr ⟨true, name⟩ m ∧ DTail cfg slash rest m.rest := by
  unfold Re.FullMatch driveLitReW
  simp only [Re.M, seqRe]
  have hsem := dtail_sem cfg ⟨true, !cfg.caseSensitive⟩ slash rest
  constructor
  · rintro ⟨b, c, ⟨rfl, _⟩, c', hm, rfl, _⟩
    obtain ⟨m, h1, h2⟩ := (M_catE'_gen _ _ _ _ _).mp hm
    exact ⟨m, h1, (hsem m).mp ⟨_, rfl, h2⟩⟩
  · rintro ⟨m, h1, h2⟩
    obtain ⟨y, hy, h3⟩ := (hsem m).mpr h2
    obtain ⟨yb, yr⟩ := y
    simp only at hy; subst hy
    exact ⟨yb, _, ⟨rfl, trivial⟩, _, (M_catE'_gen _ _ _ _ _).mpr ⟨m, h1, h3⟩, rfl, by simp [atEos]⟩

/-! ## Layer 2 : the drive regexes -/

/-- `m` is `a` advanced over the text `q` -/
def Adv (a : St) (q : List Char) (m : St) : Prop := a.rest = q ++ m.rest ∧ m.atStart = (a.atStart && q.isEmpty)

theorem Adv_nil (a m : St) : Adv a [] m ↔ m = a := by
  unfold Adv
  constructor
  · rintro ⟨h1, h2⟩
    cases a; cases m; simp_all
  · rintro rfl; simp

theorem Adv_cons (a m : St) (c : Char) (q : List Char) :
    Adv a (c :: q) m ↔ ∃ s, a.rest = c :: s ∧ Adv ⟨false, s⟩ q m := by
  unfold Adv
  constructor
  · rintro ⟨h1, h2⟩
    refine ⟨q ++ m.rest, by simpa using h1, rfl, ?_⟩
    simp at h2 ⊢; exact h2
  · rintro ⟨s, h1, h2, h3⟩
    simp only at h2 h3
    refine ⟨by rw [h1, h2]; simp, ?_⟩
    simp at h3 ⊢; exact h3

theorem Adv_append {a x m : St} {q1 q2 : List Char} (h1 : Adv a q1 x) (h2 : Adv x q2 m) : Adv a (q1 ++ q2) m := by
  unfold Adv at *
  refine ⟨by rw [h1.1, h2.1]; simp, ?_⟩
  rw [h2.2, h1.2]
  cases q1 <;> cases q2 <;> simp

theorem Adv_split {a m : St} (q1 q2 : List Char) (h : Adv a (q1 ++ q2) m) :
    ∃ x, Adv a q1 x ∧ Adv x q2 m := by
  induction q1 generalizing a with
  | nil => exact ⟨a, (Adv_nil a a).mpr rfl, by simpa using h⟩
  | cons c q1 ih =>
    rw [List.cons_append, Adv_cons] at h
    obtain ⟨s, hs, h'⟩ := h
    obtain ⟨x, hx1, hx2⟩ := ih h'
    exact ⟨x, (Adv_cons a x c q1).mpr ⟨s, hs, hx1⟩, hx2⟩

theorem consume1_iff_Adv (p : Char → Bool) (a m : St) :
    consume1 p a m ↔ ∃ d, p d = true ∧ Adv a [d] m := by
  unfold consume1
  constructor
  · rintro ⟨d, s, h1, h2, rfl⟩
    exact ⟨d, h2, (Adv_cons _ _ _ _).mpr ⟨s, h1, (Adv_nil _ _).mpr rfl⟩⟩
  · rintro ⟨d, h2, h⟩
    obtain ⟨s, h1, h3⟩ := (Adv_cons _ _ _ _).mp h
    exact ⟨d, s, h1, h2, (Adv_nil _ _).mp h3⟩

open Win in
/-- a run of literals under a case-insensitive mode -/
theorem M_litsOf (md : Mode) (hci : md.ci = true) : ∀ (p : List Char) (a m : St),
    Re.M md (litsOf p) a m ↔ ∃ q, Adv a q m ∧ ciEq true p q = true := by
  intro p
  induction p with
  | nil =>
    intro a m
    simp only [litsOf, Re.M]
    constructor
    · rintro rfl; exact ⟨[], (Adv_nil _ _).mpr rfl, rfl⟩
    · rintro ⟨q, h1, h2⟩
      have : q = [] := (ciEq_nil_left true q).mp h2
      subst this
      exact (Adv_nil _ _).mp h1
  | cons c rest ih =>
    intro a m
    have one : ∀ a m, Re.M md (.lit c) a m ↔ ∃ d, charEq true c d = true ∧ Adv a [d] m := by
      intro a m
      simp only [Re.M, hci]
      exact consume1_iff_Adv _ a m
    cases rest with
    | nil =>
      simp only [litsOf]
      rw [one]
      constructor
      · rintro ⟨d, h1, h2⟩; exact ⟨[d], h2, by simp [ciEq, h1]⟩
      · rintro ⟨q, h1, h2⟩
        cases q with
        | nil => simp [ciEq] at h2
        | cons d q' =>
          simp only [ciEq, Bool.and_eq_true] at h2
          have : q' = [] := (ciEq_nil_left true q').mp h2.2
          subst this
          exact ⟨d, h2.1, h1⟩
    | cons c2 r2 =>
      simp only [litsOf, Re.M.eq_5]
      constructor
      · rintro ⟨x, h1, h2⟩
        obtain ⟨d, hd, hadv⟩ := (one a x).mp h1
        obtain ⟨q, hq1, hq2⟩ := (ih x m).mp h2
        exact ⟨d :: q, by simpa using Adv_append hadv hq1, by simp [ciEq, hd, hq2]⟩
      · rintro ⟨q, h1, h2⟩
        cases q with
        | nil => simp [ciEq] at h2
        | cons d q' =>
          simp only [ciEq, Bool.and_eq_true] at h2
          obtain ⟨x, hx1, hx2⟩ := Adv_split [d] q' (by simpa using h1)
          exact ⟨x, (one a x).mpr ⟨d, h2.1, hx1⟩, (ih x m).mpr ⟨q', hx2, h2.2⟩⟩

open Win in
/-- **`escape_drive`** : literal and ALWAYS case-insensitive — under CASE through its own `(?i:…)`,
    otherwise through the global flag -/
theorem M_escapeDrive (md : Mode) (cs : Bool) (hci : cs = false → md.ci = true) (p : List Char) (a m : St) :
    Re.M md (escapeDrive p cs) a m ↔ ∃ q, Adv a q m ∧ ciEq true p q = true := by
  unfold escapeDrive
  cases cs with
  | true => simp only [ite_true, Re.M]; exact M_litsOf ⟨false, true⟩ rfl p a m
  | false => simp only [Bool.false_eq_true, ite_false]; exact M_litsOf md (hci rfl) p a m

/-- the parts joined by a separator -/
def joinW : List (List Char) → List Char
  | [] => []
  | [p] => p
  | p :: ps => p ++ '/' :: joinW ps

theorem M_sepW_Adv (md : Mode) (a m : St) :
    Re.M md (Frag.sep true) a m ↔ ∃ y, isSepW y = true ∧ Adv a [y] m := by
  rw [M_sepW]; exact consume1_iff_Adv _ a m

theorem WinLitEq_append (ci : Bool) : ∀ (p1 p2 q1 q2 : List Char), p1.length = q1.length →
    WinLitEq ci (p1 ++ p2) (q1 ++ q2) = (WinLitEq ci p1 q1 && WinLitEq ci p2 q2) := by
  intro p1
  induction p1 with
  | nil => intro p2 q1 q2 h; cases q1 <;> simp_all [WinLitEq]
  | cons c p1 ih =>
    intro p2 q1 q2 h
    cases q1 with
    | nil => simp at h
    | cons d q1 =>
      simp only [List.cons_append, WinLitEq, ih p2 q1 q2 (by simpa using h), Bool.and_assoc]

theorem WinLitEq_length (ci : Bool) : ∀ (p q : List Char), WinLitEq ci p q = true → p.length = q.length := by
  intro p
  induction p with
  | nil => intro q h; cases q <;> simp_all [WinLitEq]
  | cons c p ih =>
    intro q h
    cases q with
    | nil => simp [WinLitEq] at h
    | cons d q => simp only [WinLitEq, Bool.and_eq_true] at h; simp [ih q h.2]

theorem ciEq_length (ci : Bool) : ∀ (p q : List Char), ciEq ci p q = true → p.length = q.length := by
  intro p
  induction p with
  | nil => intro q h; cases q <;> simp_all [ciEq]
  | cons c p ih =>
    intro q h
    cases q with
    | nil => simp [ciEq] at h
    | cons d q => simp only [ciEq, Bool.and_eq_true] at h; simp [ih q h.2]

/-- on a separator-free text `WinLitEq` is plain case-folded equality -/
theorem WinLitEq_sepfree (ci : Bool) : ∀ (p q : List Char), (∀ c ∈ p, isSepW c = false) →
    WinLitEq ci p q = ciEq ci p q := by
  intro p
  induction p with
  | nil => intro q _; cases q <;> rfl
  | cons c p ih =>
    intro q h
    cases q with
    | nil => rfl
    | cons d q =>
      simp only [WinLitEq, ciEq, ih q (fun x hx => h x (by simp [hx])), litPW, h c (by simp),
        Bool.false_eq_true, ite_false]

open Win in
theorem M_joinSep (md : Mode) (cs : Bool) (hci : cs = false → md.ci = true) :
    ∀ (parts : List (List Char)), parts ≠ [] → (∀ p ∈ parts, ∀ c ∈ p, isSepW c = false) → ∀ (a m : St),
    Re.M md (joinSep (parts.map (fun q => escapeDrive q cs))) a m ↔
      ∃ q, Adv a q m ∧ WinLitEq true (joinW parts) q = true := by
  intro parts
  induction parts with
  | nil => intro h; exact absurd rfl h
  | cons p ps ih =>
    intro _ hfree a m
    have hp : ∀ c ∈ p, isSepW c = false := hfree p (by simp)
    cases ps with
    | nil =>
      simp only [List.map_cons, List.map_nil, joinSep, joinW]
      rw [M_escapeDrive md cs hci]
      constructor
      · rintro ⟨q, h1, h2⟩; exact ⟨q, h1, by rw [WinLitEq_sepfree _ _ _ hp]; exact h2⟩
      · rintro ⟨q, h1, h2⟩; exact ⟨q, h1, by rw [← WinLitEq_sepfree _ _ _ hp]; exact h2⟩
    | cons p2 ps2 =>
      have ih' := ih (by simp) (fun x hx => hfree x (by simp [hx]))
      simp only [List.map_cons, joinSep, joinW, Re.M.eq_5] at ih' ⊢
      constructor
      · rintro ⟨x, h1, y, h2, h3⟩
        obtain ⟨q1, a1, e1⟩ := (M_escapeDrive md cs hci p a x).mp h1
        obtain ⟨sc, hs, a2⟩ := (M_sepW_Adv md x y).mp h2
        obtain ⟨q2, a3, e3⟩ := (ih' y m).mp h3
        refine ⟨q1 ++ (sc :: q2), Adv_append a1 (by simpa using Adv_append a2 a3), ?_⟩
        rw [WinLitEq_append _ _ _ _ _ (ciEq_length _ _ _ e1), WinLitEq_sepfree _ _ _ hp, e1]
        simp only [WinLitEq, litPW, Bool.true_and, Bool.and_eq_true]
        exact ⟨by simpa [isSepW] using hs, e3⟩
      · rintro ⟨q, hadv, heq⟩
        have hlen := WinLitEq_length _ _ _ heq
        obtain ⟨q1, qr, rfl, hl1⟩ : ∃ q1 qr, q = q1 ++ qr ∧ p.length = q1.length :=
          ⟨q.take p.length, q.drop p.length, by simp, by
            simp only [List.length_append, List.length_cons] at hlen
            simp; omega⟩
        rw [WinLitEq_append _ _ _ _ _ hl1, Bool.and_eq_true] at heq
        obtain ⟨e1, e2⟩ := heq
        cases qr with
        | nil => simp [WinLitEq] at e2
        | cons sc q2 =>
          simp only [WinLitEq, litPW, Bool.and_eq_true] at e2
          obtain ⟨hs, e3⟩ := e2
          obtain ⟨x, ax, ar⟩ := Adv_split q1 (sc :: q2) hadv
          obtain ⟨y, ay, am⟩ := Adv_split [sc] q2 (by simpa using ar)
          refine ⟨x, (M_escapeDrive md cs hci p a x).mpr ⟨q1, ax, by rw [← WinLitEq_sepfree _ _ _ hp]; exact e1⟩,
            y, (M_sepW_Adv md x y).mpr ⟨sc, by simpa [isSepW] using hs, ay⟩, (ih' y m).mpr ⟨q2, am, e3⟩⟩

/-- split at the separators (`/` and `\`) -/
def splitSepW : List Char → List (List Char)
  | [] => [[]]
  | c :: r =>
    if isSepW c then [] :: splitSepW r
    else match splitSepW r with
      | h :: t => (c :: h) :: t
      | [] => [[c]]

theorem splitSepW_ne_nil (s : List Char) : splitSepW s ≠ [] := by
  cases s with
  | nil => simp [splitSepW]
  | cons c r =>
    simp only [splitSepW]
    split
    · simp
    · split <;> simp

theorem splitSepW_free : ∀ (s : List Char), ∀ p ∈ splitSepW s, ∀ c ∈ p, isSepW c = false := by
  intro s
  induction s with
  | nil => intro p hp c hc; simp [splitSepW] at hp; subst hp; cases hc
  | cons d r ih =>
    intro p hp c hc
    simp only [splitSepW] at hp
    split at hp
    · rcases List.mem_cons.mp hp with rfl | hp
      · cases hc
      · exact ih p hp c hc
    · rename_i hd
      split at hp
      · rename_i h t e
        rcases List.mem_cons.mp hp with rfl | hp
        · rcases List.mem_cons.mp hc with rfl | hc
          · simpa using hd
          · exact ih h (by rw [e]; simp) c hc
        · exact ih p (by rw [e]; simp [hp]) c hc
      · rename_i e
        exact absurd e (splitSepW_ne_nil r)

/-- the pattern side of `WinLitEq` may be normalised -/
theorem WinLitEq_nrm_left (ci : Bool) : ∀ (p q : List Char), WinLitEq ci (nrmL p) q = WinLitEq ci p q := by
  intro p
  induction p with
  | nil => intro q; rfl
  | cons c p ih =>
    intro q
    cases q with
    | nil => rfl
    | cons d q =>
      simp only [nrmL_cons, WinLitEq, ih]
      congr 1
      unfold litPW
      by_cases hc : isSepW c = true
      · have : nrm c = '/' := (nrm_eq_slash c).mpr ((isSepW_iff c).mp hc).symm
        have h1 : isSepW '/' = true := by decide
        simp only [this, hc, h1, ite_true]
      · have hc' : isSepW c = false := by simpa using hc
        rw [(nrm_nonsep hc').1]

theorem nrmL_joinW_split : ∀ (s : List Char), nrmL (joinW (splitSepW s)) = nrmL s := by
  intro s
  induction s with
  | nil => rfl
  | cons c r ih =>
    simp only [splitSepW]
    split
    · rename_i hc
      have : nrm c = '/' := (nrm_eq_slash c).mpr ((isSepW_iff c).mp hc).symm
      have hne := splitSepW_ne_nil r
      cases e : splitSepW r with
      | nil => exact absurd e hne
      | cons h t =>
        rw [e] at ih
        simp only [joinW, List.nil_append, nrmL_cons, nrm_slash, this, ih]
    · rename_i hc
      have hne := splitSepW_ne_nil r
      cases e : splitSepW r with
      | nil => exact absurd e hne
      | cons h t =>
        rw [e] at ih
        simp only
        cases t with
        | nil => simp only [joinW, nrmL_cons] at ih ⊢; rw [ih]
        | cons t1 t2 =>
          simp only [joinW, List.cons_append, nrmL_cons] at ih ⊢; rw [ih]

open Win in
/-- the regex `_get_win_drive` builds for a drive whose text (without the final separator) is `core` -/
def driveReOf (cs : Bool) (core : List Char) : Re :=
  match core with
  | x1 :: x2 :: body =>
    if isSepW x1 && isSepW x2 then
      .cat (.rep 2 2 (Frag.sep true)) (joinSep ((splitSepW body).map (fun q => escapeDrive q cs)))
    else escapeDrive core cs
  | _ => escapeDrive core cs

/-- **`d'` is the drive text `core`**: literally, ASCII case folded (always), and — for the UNC forms,
    which begin with two separators — `/` and `\` interchangeable -/
def DriveEq (core d' : List Char) : Bool :=
  match core with
  | x1 :: x2 :: _ => if isSepW x1 && isSepW x2 then WinLitEq true core d' else ciEq true core d'
  | _ => ciEq true core d'

theorem M_rep2_sepW (md : Mode) (a m : St) :
    Re.M md (.rep 2 2 (Frag.sep true)) a m ↔ ∃ y1 y2, isSepW y1 = true ∧ isSepW y2 = true ∧ Adv a [y1, y2] m := by
  simp only [Re.M]
  constructor
  · rintro ⟨n, h1, h2, h⟩
    have : n = 2 := by omega
    subst this
    cases h with
    | succ s1 h' =>
      cases h' with
      | succ s2 h'' =>
        cases h''
        obtain ⟨y1, e1, a1⟩ := (M_sepW_Adv md _ _).mp s1
        obtain ⟨y2, e2, a2⟩ := (M_sepW_Adv md _ _).mp s2
        exact ⟨y1, y2, e1, e2, by simpa using Adv_append a1 a2⟩
  · rintro ⟨y1, y2, e1, e2, h⟩
    obtain ⟨x, ax, am⟩ := Adv_split [y1] [y2] (by simpa using h)
    exact ⟨2, Nat.le_refl _, Nat.le_refl _,
      .succ ((M_sepW_Adv md _ _).mpr ⟨y1, e1, ax⟩) (.succ ((M_sepW_Adv md _ _).mpr ⟨y2, e2, am⟩) (.zero _))⟩

/-- **the language of a drive regex** -/
theorem M_driveReOf (md : Mode) (cs : Bool) (hci : cs = false → md.ci = true) (core : List Char) (a m : St) :
    Re.M md (driveReOf cs core) a m ↔ ∃ q, Adv a q m ∧ DriveEq core q = true := by
  unfold driveReOf DriveEq
  split
  · rename_i x1 x2 body
    split
    · rename_i hx
      simp only [Bool.and_eq_true] at hx
      simp only [Re.M.eq_5]
      have hj := M_joinSep md cs hci (splitSepW body) (splitSepW_ne_nil body) (splitSepW_free body)
      constructor
      · rintro ⟨x, h1, h2⟩
        obtain ⟨y1, y2, e1, e2, ax⟩ := (M_rep2_sepW md a x).mp h1
        obtain ⟨q, aq, eq⟩ := (hj x m).mp h2
        refine ⟨y1 :: y2 :: q, by simpa using Adv_append ax aq, ?_⟩
        rw [← WinLitEq_nrm_left, nrmL_joinW_split, WinLitEq_nrm_left] at eq
        simp [WinLitEq, litPW, hx.1, hx.2, e1, e2, eq]
      · rintro ⟨q, aq, eq⟩
        cases q with
        | nil => simp [WinLitEq] at eq
        | cons y1 q =>
          cases q with
          | nil => simp [WinLitEq] at eq
          | cons y2 q =>
            simp only [WinLitEq, litPW, hx.1, hx.2, ite_true, Bool.and_eq_true] at eq
            obtain ⟨e1, e2, e3⟩ := eq
            obtain ⟨x, ax, am⟩ := Adv_split [y1, y2] q (by simpa using aq)
            refine ⟨x, (M_rep2_sepW md a x).mpr ⟨y1, y2, e1, e2, ax⟩, (hj x m).mpr ⟨q, am, ?_⟩⟩
            rw [← WinLitEq_nrm_left, nrmL_joinW_split, WinLitEq_nrm_left]
            exact e3
    · exact M_escapeDrive md cs hci _ a m
  · exact M_escapeDrive md cs hci _ a m

open Win in
theorem escapeDrive_ne_eps (cs : Bool) (p : List Char) (hp : p ≠ []) : escapeDrive p cs ≠ .eps := by
  unfold escapeDrive
  split
  · simp
  · cases p with
    | nil => exact absurd rfl hp
    | cons c r => cases r <;> simp [litsOf]

theorem driveReOf_ne_eps (cs : Bool) (core : List Char) (hc : core ≠ []) : driveReOf cs core ≠ .eps := by
  unfold driveReOf
  split
  · split
    · simp
    · exact escapeDrive_ne_eps cs _ hc
  · exact escapeDrive_ne_eps cs _ hc

end WcModel

import WcModel.Proofs.HiddenLowerSeg
/-
  `Pat.hiddenSafe` (the syntactic scope of the C03 upper bound in path mode, Proofs/HiddenLowerSeg.lean)
  in terms of the trigger predicates of Spec/Scope.lean:

      the first token of g is not a group (D5; `C03.flatHead`)  ∧  ¬ d4Trigger g   →   hiddenSafe g

  (`hiddenSafe_of_triggers`).  The converse fails on purpose: `hiddenSafe` also admits a first group
  whose alternatives all begin with a written character.  `Pat.scan0` is the scan restricted to flat
  heads; `hiddenSafe0_iff` is the exact characterisation of THAT scope by the two triggers.
-/
namespace WcModel

/-- the scan without the clauses for groups: a group (or `|`) met at the start is out of scope -/
def Pat.scan0 : Pat → HMode → HMode
  | .eps, m => m
  | .lit _, m => match m with | .S => .F | .H => .F | m => m
  | .any, m => match m with | .S => .D | .H => .X | m => m
  | .cls _ _, m => match m with | .S => .D | .H => .X | m => m
  | .star, m => match m with | .S => .H | .H => .X | m => m
  | .seq p q, m => q.scan0 (p.scan0 m)
  | .alt _ _, m => match m with | .S => .X | .H => .X | m => m
  | .ext _ _, m => match m with | .S => .X | .H => .X | m => m

namespace HL

theorem scan0_F (g : Pat) : g.scan0 .F = .F := by
  induction g with
  | seq p q ihp ihq => simp [Pat.scan0, ihp, ihq]
  | _ => simp [Pat.scan0]

theorem scan0_D (g : Pat) : g.scan0 .D = .D := by
  induction g with
  | seq p q ihp ihq => simp [Pat.scan0, ihp, ihq]
  | _ => simp [Pat.scan0]

theorem scan0_X (g : Pat) : g.scan0 .X = .X := by
  induction g with
  | seq p q ihp ihq => simp [Pat.scan0, ihp, ihq]
  | _ => simp [Pat.scan0]

/-- where the restricted scan stays in scope, the full scan agrees with it -/
theorem scan_of_scan0 (g : Pat) : ∀ m, g.scan0 m ≠ .X → g.scan m = g.scan0 m := by
  induction g with
  | seq p q ihp ihq =>
    intro m h
    simp only [Pat.scan0] at h
    have hp : p.scan0 m ≠ .X := by
      intro hx; rw [hx, scan0_X] at h; exact h rfl
    simp only [Pat.scan, Pat.scan0, ihp m hp]
    exact ihq _ h
  | alt p q _ _ => intro m h; cases m <;> simp [Pat.scan0] at h <;> simp [Pat.scan, Pat.scan0]
  | ext k p _ => intro m h; cases m <;> simp [Pat.scan0] at h <;> simp [Pat.scan, Pat.scan0]
  | _ => intro m _; cases m <;> simp [Pat.scan, Pat.scan0]

def headClass : Option Pat → HMode → HMode
  | none, m => m
  | some (.lit _), _ => .F
  | some _, _ => .X

theorem scan_H_head (g : Pat) : g.scan0 .H = headClass g.headTok .H := by
  induction g with
  | seq p q ihp ihq =>
    simp only [Pat.scan0, Pat.headTok, ihp]
    cases hp : p.headTok with
    | none => simp only [headClass]; exact ihq
    | some t => cases t <;> simp [headClass, scan0_F, scan0_X]
  | _ => simp [Pat.scan0, Pat.headTok, headClass]

def headClassS (g : Pat) : HMode :=
  match g.headTok with
  | none => .S
  | some (.lit _) => .F
  | some .any => .D
  | some (.cls _ _) => .D
  | some .star => g.tailToks.scan0 .H
  | some _ => .X

theorem tailToks_of_headTok_none (p q : Pat) (h : p.headTok = none) : (Pat.seq p q).tailToks = q.tailToks := by
  simp [Pat.tailToks, C03.isEmpty_of_headTok_none p h]

theorem isEmpty_false_of_headTok {p t : Pat} (h : p.headTok = some t) : p.isEmpty = false := by
  cases he : p.isEmpty with
  | false => rfl
  | true => rw [C03.headTok_none_of_isEmpty p he] at h; cases h

theorem scan_S_head (g : Pat) : g.scan0 .S = headClassS g := by
  induction g with
  | seq p q ihp ihq =>
    simp only [Pat.scan0, ihp]
    cases hp : p.headTok with
    | none =>
      have h1 : headClassS p = .S := by simp [headClassS, hp]
      rw [h1, ihq]
      simp only [headClassS, Pat.headTok, hp, tailToks_of_headTok_none p q hp]
    | some t =>
      have hne := isEmpty_false_of_headTok hp
      have hh : (Pat.seq p q).headTok = some t := by simp [Pat.headTok, hp]
      cases t with
      | lit c => simp [headClassS, hp, hh, scan0_F]
      | any => simp [headClassS, hp, hh, scan0_D]
      | cls n i => simp [headClassS, hp, hh, scan0_D]
      | eps => simp [headClassS, hp, hh, scan0_X]
      | seq a b => simp [headClassS, hp, hh, scan0_X]
      | alt a b => simp [headClassS, hp, hh, scan0_X]
      | ext k b => simp [headClassS, hp, hh, scan0_X]
      | star =>
        simp only [headClassS, hp, hh]
        cases p with
        | seq a b => simp [Pat.tailToks, hne, Pat.scan0]
        | star => simp [Pat.tailToks, Pat.isEmpty, Pat.scan0]
        | _ => simp [Pat.headTok] at hp
  | _ => simp [Pat.scan0, Pat.headTok, headClassS, Pat.tailToks]

/-- a first token is never empty nor a sequence -/
theorem headTok_shape (g t : Pat) (h : g.headTok = some t) : t ≠ .eps ∧ ∀ a b, t ≠ .seq a b := by
  induction g with
  | eps => simp [Pat.headTok] at h
  | seq p q ihp ihq =>
    simp only [Pat.headTok] at h
    cases hp : p.headTok with
    | none => rw [hp] at h; exact ihq h
    | some u => rw [hp] at h; simp only [Option.some.injEq] at h; subst h; exact ihp hp
  | _ => simp only [Pat.headTok, Option.some.injEq] at h; subst h; simp

/-- **the scope of the upper bound, by the recorded triggers**: the first token is not an
    extended group (D5) and a segment-initial `*` is followed by literal text or by nothing (D4) -/
theorem hiddenSafe0_iff (g : Pat) : g.scan0 .S ≠ .X ↔ (C03.flatHead g = true ∧ g.d4Trigger = false) := by
  rw [scan_S_head]
  unfold headClassS C03.flatHead Pat.d4Trigger
  cases hg : g.headTok with
  | none => simp
  | some t =>
    cases t with
    | star =>
      simp only [scan_H_head]
      cases ht : g.tailToks.headTok with
      | none => simp [headClass]
      | some u => cases u <;> simp [headClass]
    | eps => exact absurd rfl (headTok_shape g _ hg).1
    | seq a b => exact absurd rfl ((headTok_shape g _ hg).2 a b)
    | _ => simp

theorem hiddenSafe_of_triggers (g : Pat) (h5 : C03.flatHead g = true) (h4 : g.d4Trigger = false) :
    g.hiddenSafe = true := by
  have h0 := (hiddenSafe0_iff g).mpr ⟨h5, h4⟩
  unfold Pat.hiddenSafe
  rw [scan_of_scan0 g .S h0]
  simpa using h0

end HL
end WcModel

import WcModel.Proofs.PassReadPathTok
/-
  PassReadPath, part 2: ONE path segment in any spelling.

  The text of a segment is described by a spelled pattern `PR.SPat` (Proofs/PassRead.lean: a `Pat`
  whose leaves remember how they were written).  In path mode
      `psits`   the items the pass pushes (guards `(?![/])` / `_NO_DIR(?![/.])`, the path stars),
      `psok`    the look-ahead side conditions given what follows — those of `PR.sok`, plus: no
                literal `/`; a bracket is read by `_sequence` with the path guard; a run of stars
                at the start of the segment, at top level, under GLOBSTAR, is not a globstar,
      `pgood`   brackets linked to their grammar members, no literal `/`.
  MAIN RESULTS
      `R_all`     the top-level loop on `sprint sp ++ rest` pushes `psits cfg as sp`
      `E_all`     the same inside a group
      `psits_toRe` the items convert to `compSeg cfg.dot as (erase sp)` (up to `PP.Eqv`)
-/
namespace WcModel
namespace PRP
open PP PPP PR

/-! ## spelled items, side conditions -/

/-- the items the pass pushes in path mode, in forward order; `as` = "at the start of the segment" -/
def psits (cfg : Cfg) : Bool → SPat → List Item
  | _, .eps => []
  | _, .lit c _ => [litItem c]
  | as, .any => [.re ((pathEmit cfg).any as)]
  | as, .star n => starItems cfg as n
  | as, .cls _ neg _ cis => [.re (.cat (pGuard cfg.dot as) (.cls neg cis))]
  | as, .seq a b => psits cfg as a ++ psits cfg (as && a.isEmpty) b
  | as, .alt a b => psits cfg as a ++ .bar :: psits cfg as b
  | as, .ext k body => [.group (gkind k) (HF.capOf cfg) (psits cfg as body)]

/-- the look-ahead side conditions in path mode, given what follows; `g` = GLOBSTAR is on,
    `top` = "not inside a group", `as` = "at the start of the segment" -/
def psok (cfg : Cfg) (g : Bool) : Bool → Bool → SPat → List Char → Prop
  | _, _, .eps, _ => True
  | top, _, .lit c false, rest =>
    c ≠ '*' ∧ c ≠ '?' ∧ c ≠ '[' ∧ c ≠ '\\' ∧ c ≠ '/' ∧ bareSide c rest ∧ (top = false → c ≠ '|' ∧ c ≠ ')')
  | _, _, .lit c true, _ => c ≠ '/'
  | _, _, .any, rest => rest.head? ≠ some '('
  | top, as, .star n, rest =>
    starSide rest ∧ (top = true → as = true → g = true → globFree cfg.globstarlong n rest)
  | _, _, .cls w neg _ cis, rest =>
    ∀ (ps : PS) (i : Nat), sequence cfg ps ⟨i, w ++ rest⟩ =
      some (.cat (pGuard cfg.dot ps.afterStart) (.cls neg cis), ps.resetDirTrack, ⟨i + w.length, rest⟩)
  | top, as, .seq a b, rest => psok cfg g top as a (sprint b ++ rest) ∧ psok cfg g top (as && a.isEmpty) b rest
  | _, as, .alt a b, rest => psok cfg g false as a ('|' :: (sprint b ++ rest)) ∧ psok cfg g false as b rest
  | _, as, .ext _ body, rest => psok cfg g false as body (')' :: rest)

/-- brackets linked to their grammar members; no literal separator -/
def pgood (cfg : Cfg) : SPat → Prop
  | .lit c _ => c ≠ '/'
  | .cls _ _ items cis => cis.map unflag = items.map (SCls.toClsItem cfg.isBytes)
  | .seq a b => pgood cfg a ∧ pgood cfg b
  | .alt a b => pgood cfg a ∧ pgood cfg b
  | .ext _ body => pgood cfg body
  | _ => True

/-- inside a group the position flag of `psok` is not looked at -/
theorem psok_false_as (cfg : Cfg) (g : Bool) : ∀ (sp : SPat) (as as' : Bool) (rest : List Char),
    psok cfg g false as sp rest → psok cfg g false as' sp rest := by
  intro sp
  induction sp with
  | seq a b iha ihb => intro as as' rest h; exact ⟨iha _ _ _ h.1, ihb _ _ _ h.2⟩
  | alt a b iha ihb => intro as as' rest h; exact ⟨iha _ _ _ h.1, ihb _ _ _ h.2⟩
  | ext k body ih => intro as as' rest h; exact ih _ _ _ h
  | star n => intro as as' rest h; exact ⟨h.1, fun hx => by cases hx⟩
  | lit c e => intro as as' rest h; cases e <;> exact h
  | _ => intro as as' rest h; exact h

/-! ## from the expected items to the regex of the tidy path compiler -/

open HF (NoBar isBar)

theorem starItems_noBar (cfg : Cfg) (as : Bool) (n : Nat) : NoBar (starItems cfg as n) := by
  unfold starItems
  split
  · exact NoBar.cons rfl NoBar.nil
  · exact noBar_replicate _ _

theorem psits_noBar (cfg : Cfg) : ∀ (sp : SPat) (as : Bool), rpp false (erase sp) = true → NoBar (psits cfg as sp) := by
  intro sp
  induction sp with
  | seq p q ihp ihq =>
    intro as h; simp only [erase, rpp, Bool.and_eq_true] at h
    exact (ihp _ h.1).append (ihq _ h.2)
  | alt p q => intro as h; simp [erase, rpp] at h
  | eps => intro as _; exact NoBar.nil
  | star n => intro as _; exact starItems_noBar cfg as n
  | _ => intro as _; exact NoBar.cons rfl NoBar.nil

/-- `[^/]*?[^/]*?` is `[^/]*?` -/
theorem pstar_pstar_eqv (y : Re) :
    Eqv (.cat (Frag.pathStar false) (.cat (Frag.pathStar false) y)) (.cat (Frag.pathStar false) y) := by
  intro md a b
  simp only [Frag.pathStar, Re.M]
  constructor
  · rintro ⟨c, h1, d, h2, h3⟩
    exact ⟨d, iter_trans h1 h2, h3⟩
  · rintro ⟨d, h1, h3⟩
    exact ⟨a, Iter.refl a, d, h1, h3⟩

/-- a run of `[^/]*?` items in front of other items -/
theorem T_pstars : ∀ (n f : Nat) (rest : List Item) (x : Re),
    Item.seqToRe f (List.replicate (n+1) (.re (Frag.pathStar false)) ++ rest) = some x →
    ∃ f' x', Item.seqToRe f' rest = some x' ∧ Eqv x (.cat (Frag.pathStar false) x') := by
  intro n
  induction n with
  | zero =>
    intro f rest x h
    obtain ⟨f', x', _, h2, h3⟩ := seqToRe_re h
    exact ⟨f', x', h2, by rw [h3]; exact Eqv.catE' _ _⟩
  | succ n ih =>
    intro f rest x h
    rw [List.replicate_succ, List.cons_append] at h
    obtain ⟨f1, x1, _, h2, h3⟩ := seqToRe_re h
    obtain ⟨f', x', h4, h5⟩ := ih f1 rest x1 h2
    refine ⟨f', x', h4, ?_⟩
    rw [h3]
    exact (Eqv.catE' _ _).trans (((Eqv.refl _).cat h5).trans (pstar_pstar_eqv x'))

def T (cfg : Cfg) (sp : SPat) : Prop :=
  ∀ (as : Bool) (f : Nat) (rest : List Item) (x : Re), Item.seqToRe f (psits cfg as sp ++ rest) = some x →
    ∃ f' x', Item.seqToRe f' rest = some x' ∧ Eqv x (.cat (compSeg cfg.dot as (erase sp)) x')

def V (cfg : Cfg) (sp : SPat) : Prop :=
  ∀ (as : Bool) (f : Nat) (xs : List Re), (splitBars (psits cfg as sp)).mapM (Item.seqToRe f) = some xs →
    Eqv (altOfList xs) (compSeg cfg.dot as (erase sp))

theorem V_of_T (cfg : Cfg) (sp : SPat) (hp : rpp false (erase sp) = true) (hT : T cfg sp) : V cfg sp := by
  intro as f xs h
  rw [HF.splitBars_noBar _ (psits_noBar cfg sp as hp)] at h
  simp only [List.mapM_cons, List.mapM_nil] at h
  cases h1 : Item.seqToRe f (psits cfg as sp) with
  | none => simp [h1] at h
  | some x =>
    simp [h1] at h
    subst h
    have h1' : Item.seqToRe f (psits cfg as sp ++ []) = some x := by simpa using h1
    obtain ⟨f', x', hx', he⟩ := hT as f [] x h1'
    rw [seqToRe_nil hx'] at he
    exact he.trans (Eqv.cat_eps _)

theorem T_single (cfg : Cfg) (sp : SPat) (r : Bool → Re) (hi : ∀ as, psits cfg as sp = [.re (r as)])
    (he : ∀ as, Eqv (r as) (compSeg cfg.dot as (erase sp))) : T cfg sp := by
  intro as f rest x h
  rw [hi] at h
  obtain ⟨f', x', _, h2, h3⟩ := seqToRe_re h
  exact ⟨f', x', h2, by rw [h3]; exact (Eqv.catE' _ _).trans ((he as).cat (Eqv.refl _))⟩

/-- **the items of a spelled segment convert to the regex of the tidy path compiler** -/
theorem psits_toRe (cfg : Cfg) (h : PathX cfg) : ∀ (sp : SPat), pgood cfg sp →
    (rpp false (erase sp) = true → T cfg sp) ∧ (rpp true (erase sp) = true → V cfg sp) := by
  intro sp
  induction sp with
  | eps =>
    intro _
    have hT : T cfg .eps := by
      intro as f rest x h
      exact ⟨f, x, h, (Eqv.eps_cat x).symm⟩
    exact ⟨fun _ => hT, fun _ => V_of_T cfg _ rfl hT⟩
  | lit c e =>
    intro hc
    have hc' : c ≠ '/' := hc
    have hT : T cfg (.lit c e) := T_single cfg _ (fun _ => .lit c)
      (fun _ => by simp [psits, litItem, litRe', hc']) (fun _ => Eqv.refl _)
    exact ⟨fun _ => hT, fun _ => V_of_T cfg _ rfl hT⟩
  | any =>
    intro _
    have hT : T cfg .any := T_single cfg _ (fun as => (pathEmit cfg).any as) (fun _ => rfl)
      (fun as => Eqv.refl _)
    exact ⟨fun _ => hT, fun _ => V_of_T cfg _ rfl hT⟩
  | star n =>
    intro _
    have hT : T cfg (.star n) := by
      intro as f rest x hx
      cases as with
      | true =>
        simp only [psits, starItems, if_true] at hx
        obtain ⟨f', x', _, h2, h3⟩ := seqToRe_re hx
        refine ⟨f', x', h2, ?_⟩
        rw [h3]
        exact Eqv.catE' _ _
      | false =>
        simp only [psits, starItems, Bool.false_eq_true, if_false] at hx
        obtain ⟨f', x', h2, h3⟩ := T_pstars n f rest x hx
        exact ⟨f', x', h2, by simpa [compSeg, erase, pStar] using h3⟩
    exact ⟨fun _ => hT, fun _ => V_of_T cfg _ rfl hT⟩
  | cls w neg items cis =>
    intro hc
    have hT : T cfg (.cls w neg items cis) :=
      T_single cfg _ (fun as => .cat (pGuard cfg.dot as) (.cls neg cis)) (fun _ => rfl)
        (fun as => by
          have := clsS_eqv cfg neg items cis hc
          rw [h.isBytes] at this
          exact (Eqv.refl _).cat this)
    exact ⟨fun _ => hT, fun hp => V_of_T cfg _ hp hT⟩
  | seq p q ihp ihq =>
    intro hc
    have hT : rpp false (erase (.seq p q)) = true → T cfg (.seq p q) := by
      intro hp
      simp only [erase, rpp, Bool.and_eq_true] at hp
      intro as f rest x hx
      simp only [psits, List.append_assoc] at hx
      obtain ⟨f1, x1, h1, e1⟩ := (ihp hc.1).1 hp.1 as f _ x hx
      obtain ⟨f2, x2, h2, e2⟩ := (ihq hc.2).1 hp.2 _ f1 rest x1 h1
      refine ⟨f2, x2, h2, ?_⟩
      simp only [erase]
      rw [compSeg_seq _ _ _ _ (rpp_negFree (erase p) _ hp.1), erase_isEmpty]
      exact (e1.trans ((Eqv.refl _).cat e2)).trans (Eqv.cat_assoc _ _ _).symm
    exact ⟨hT, fun hp => V_of_T cfg _ hp (hT hp)⟩
  | alt p q ihp ihq =>
    intro hc
    refine ⟨fun hp => by simp [erase, rpp] at hp, fun hp => ?_⟩
    simp only [erase, rpp, Bool.and_eq_true, true_and] at hp
    intro as f xs hx
    simp only [psits] at hx
    rw [splitBars_append_bar _ _ (psits_noBar cfg p as hp.1)] at hx
    simp only [List.mapM_cons] at hx
    cases h1 : Item.seqToRe f (psits cfg as p) with
    | none => simp [h1] at hx
    | some xp =>
      cases h2 : (splitBars (psits cfg as q)).mapM (Item.seqToRe f) with
      | none => simp [h1, h2] at hx
      | some xq =>
        simp [h1, h2] at hx
        subst hx
        have hne := mapM_ne_nil _ _ _ (splitBars_ne_nil _) h2
        have h1' : Item.seqToRe f (psits cfg as p ++ []) = some xp := by simpa using h1
        obtain ⟨f', x', hx', he⟩ := (ihp hc.1).1 hp.1 as f [] xp h1'
        rw [seqToRe_nil hx'] at he
        have hq := (ihq hc.2).2 hp.2 as f xq h2
        cases xq with
        | nil => exact absurd rfl hne
        | cons y ys =>
          simp only [altOfList, compSeg, erase]
          exact (he.trans (Eqv.cat_eps _)).alt hq
  | ext k body ih =>
    intro hc
    have hT : rpp false (erase (.ext k body)) = true → T cfg (.ext k body) := by
      intro hp
      simp only [erase, rpp, Bool.and_eq_true, bne_iff_ne, ne_eq] at hp
      intro as f rest x hx
      simp only [psits, List.cons_append, List.nil_append] at hx
      obtain ⟨f', b, x', _, hb, hr, he⟩ := seqToRe_group hx
      obtain ⟨f'', xs, _, hm, hb'⟩ := listToRe_inv hb
      have hV := (ih hc).2 hp.2 as f'' xs hm
      refine ⟨f', x', hr, ?_⟩
      rw [he]
      refine (Eqv.catE' _ _).trans (Eqv.cat ?_ (Eqv.refl _))
      rw [hb']
      have : compSeg cfg.dot as (erase (.ext k body)) = quantRe k (compSeg cfg.dot as (erase body)) := by
        cases k <;> first | rfl | exact absurd rfl hp.1
      rw [this]
      exact quant_eqv k hp.1 _ hV
    exact ⟨hT, fun hp => V_of_T cfg _ hp (hT hp)⟩

/-! ## the pass on one spelled segment -/

/-- the in-group claim -/
def E (cfg : Cfg) (g : Bool) (sp : SPat) : Prop :=
  ∀ (b : Bool), rpp b (erase sp) = true → ∀ (F i : Nat) (rest : List Char) (ps : PS) (ext : List Item)
    (tA tN as as0 : Bool),
    PP.Inv ps as true 0 → (as = true → tA = true) → (b = true → as = tA) → psok cfg g false as0 sp rest →
    (sprint sp).length ≤ F →
    ∃ ps' F', F - (sprint sp).length ≤ F' ∧
      extLoop cfg F ⟨i, sprint sp ++ rest⟩ ps ext tA tN =
        extLoop cfg F' ⟨i + (sprint sp).length, rest⟩ ps' ((psits cfg as sp).reverse ++ ext) tA tN ∧
      PP.Inv ps' (sendAs as sp) true 0 ∧ ps'.globstar = ps.globstar

theorem E_of_run (cfg : Cfg) (g : Bool) (sp : SPat) (w : List Char) (x : Bool → List Item) (side : List Char → Prop)
    (hs : RunE cfg w x side) (hprint : sprint sp = w) (hits : ∀ as, psits cfg as sp = x as)
    (hend : ∀ as, sendAs as sp = false) (hside : ∀ as0 rest, psok cfg g false as0 sp rest → side rest) :
    E cfg g sp := by
  intro b _ F i rest ps ext tA tN as as0 hi _ _ hok hF
  rw [hprint] at hF ⊢
  obtain ⟨ps', F', hF', hi', hg', e⟩ := hs as 0 F i rest ps ext tA tN hi (hside as0 rest hok) hF
  exact ⟨ps', F', hF', by rw [hits]; exact e, by rw [hend]; exact hi', hg'⟩

/-- a whole group `k(body)`, given the claim for its body -/
theorem parseExtend_group (cfg : Cfg) (g : Bool) (k : ExtKind) (hk : k ≠ .neg) (body : SPat) (hE : E cfg g body)
    (hpp : rpp true (erase body) = true) (F i : Nat) (rest : List Char) (ps : PS) (cur : List Item) (rd : Bool)
    {as il : Bool} (as0 : Bool) (hi : PP.Inv ps as il 0) (hok : psok cfg g false as0 body (')' :: rest))
    (hF : (sprint body).length + 2 ≤ F) :
    ∃ ps', parseExtend cfg F (extChar k) ⟨i, '(' :: (sprint body ++ ')' :: rest)⟩ ps cur rd =
        (true, ps', ⟨i + (sprint body).length + 2, rest⟩,
          .group (gkind k) (HF.capOf cfg) (psits cfg as body) :: cur) ∧
      PP.Inv ps' false il 0 ∧ ps'.globstar = ps.globstar := by
  obtain ⟨F1, rfl⟩ : ∃ F1, F = F1 + 1 := ⟨F - 1, by omega⟩
  rw [HF.parseExtend_eq]
  simp only [It.next, bne_self_eq_false, Bool.false_eq_true, if_false]
  obtain ⟨ps1, F', hF', e1, hi1, hg1⟩ := hE true hpp F1 (i+1) (')' :: rest) (HF.peEnter ps (extChar k) rd) []
    ps.afterStart ps.invNest as as0 (hi.peEnter _ _) (fun h => hi.afterStart.trans h)
    (fun _ => hi.afterStart.symm) hok (by omega)
  obtain ⟨F2, hF2⟩ : ∃ F2, F' = F2 + 1 := ⟨F' - 1, by omega⟩
  rw [e1, hF2, extLoop_close]
  simp only [List.append_nil, List.reverse_reverse, peBuild_group cfg k hk]
  have hz : ps1.updateDirState.invExt = 0 := hi1.upd.invExt
  have hb' : (if ps.inList = true then
        cleanUpInverse cfg ps1.updateDirState (Item.group (gkind k) (HF.capOf cfg) (psits cfg as body) :: cur)
          (ps.invNest && ps1.updateDirState.invNest)
      else (Item.group (gkind k) (HF.capOf cfg) (psits cfg as body) :: cur, ps1.updateDirState)) =
      (Item.group (gkind k) (HF.capOf cfg) (psits cfg as body) :: cur, ps1.updateDirState) := by
    split
    · exact cleanUp_zero cfg _ _ _ hz
    · rfl
  rw [hb']
  refine ⟨HF.peFinish ps true ps1.updateDirState, ?_, ?_, ?_⟩
  · have : i + 1 + (sprint body).length + 1 = i + (sprint body).length + 2 := by omega
    rw [this]
  · exact hi.peFinish hi1.upd
  · simpa using hg1

/-- a bracket is one token -/
theorem run_cls (cfg : Cfg) (g : Bool) (w : List Char) (neg : Bool) (items : List SCls) (cis : List ClsItem) :
    RunR cfg ('[' :: w) (fun as => [.re (.cat (pGuard cfg.dot as) (.cls neg cis))])
      (fun as g' rest => psok cfg g' true as (.cls w neg items cis) rest) ∧
    RunE cfg ('[' :: w) (fun as => [.re (.cat (pGuard cfg.dot as) (.cls neg cis))])
      (fun rest => psok cfg g false false (.cls w neg items cis) rest) := by
  have hne : '[' ∉ extTypes := by decide
  constructor
  · intro as k F i rest ps l hi hsd hF
    obtain ⟨F', rfl⟩ : ∃ F', F = F' + 1 := ⟨F - 1, by simp at hF; omega⟩
    obtain ⟨ps1, hi1, hg1, e⟩ := PPP.rootTok_plainG cfg '[' ⟨i+1, w ++ rest⟩ ps l hi (fun hx => absurd hx hne)
    refine ⟨ps1.resetDirTrack.updateDirState, F', by simp, hi1.reset.upd, by simpa [PS.resetDirTrack] using hg1, ?_⟩
    show rootLoop cfg (F'+1) ⟨i, '[' :: (w ++ rest)⟩ ps l = _
    rw [rootLoop_cons, e]
    simp only [HF.rootPlain, show ('[' : Char) ≠ '.' by decide, show ('[' : Char) ≠ '*' by decide,
      show ('[' : Char) ≠ '?' by decide, show ('[' : Char) ≠ '/' by decide, show ('[' : Char) ≠ '\\' by decide,
      if_false, if_true, hsd ps1 (i+1), hi1.afterStart]
    simp only [List.length_cons, List.reverse_cons, List.reverse_nil, List.nil_append, List.singleton_append]
    have : i + 1 + w.length = i + (w.length + 1) := by omega
    rw [this]
  · intro as k F i rest ps l a n hi hsd hF
    obtain ⟨F', rfl⟩ : ∃ F', F = F' + 1 := ⟨F - 1, by simp at hF; omega⟩
    obtain ⟨ps1, hi1, hg1, e⟩ := PPP.extTok_plainG cfg F' '[' ⟨i+1, w ++ rest⟩ ps l a n hi (fun hx => absurd hx hne)
    refine ⟨ps1.resetDirTrack.updateDirState, F', by simp, hi1.reset.upd, by simpa [PS.resetDirTrack] using hg1, ?_⟩
    show extLoop cfg (F'+1) ⟨i, '[' :: (w ++ rest)⟩ ps l a n = _
    rw [extLoop_cons, e]
    simp only [HF.extPlain, show ('[' : Char) ≠ '.' by decide, show ('[' : Char) ≠ '*' by decide,
      show ('[' : Char) ≠ '?' by decide, show ('[' : Char) ≠ '/' by decide, show ('[' : Char) ≠ '\\' by decide,
      show ('[' : Char) ≠ '|' by decide,
      if_false, if_true, hsd ps1 (i+1), hi1.afterStart]
    rw [extCont_ne _ _ _ _ _ _ _ _ (by decide)]
    simp only [List.length_cons, List.reverse_cons, List.reverse_nil, List.nil_append, List.singleton_append]
    have : i + 1 + w.length = i + (w.length + 1) := by omega
    rw [this]

theorem E_all (cfg : Cfg) (h : PathX cfg) (g : Bool) : ∀ sp : SPat, E cfg g sp := by
  intro sp
  induction sp with
  | eps =>
    intro b _ F i rest ps ext tA tN as as0 hi _ _ _ _
    exact ⟨ps, F, by simp, by simp [sprint, psits], by simpa [sendAs, SPat.isEmpty] using hi, rfl⟩
  | lit c e =>
    cases e with
    | true =>
      intro b hb F i rest ps ext tA tN as as0 hi hA hB hok hF
      have hs : c ≠ '/' := hok
      exact E_of_run cfg g _ _ _ _ (run_esc_ext cfg h c hs) rfl (fun _ => rfl)
        (fun as => by simp [sendAs, SPat.isEmpty]) (fun _ _ _ => trivial)
        b hb F i rest ps ext tA tN as as0 hi hA hB hok hF
    | false =>
      intro b hb F i rest ps ext tA tN as as0 hi hA hB hok hF
      have hok' := hok
      simp only [psok] at hok'
      obtain ⟨c1, c2, c3, c4, cs, c5, c6⟩ := hok'
      obtain ⟨c8, c10⟩ := c6 trivial
      exact E_of_run cfg g _ _ _ _ (run_bare_ext cfg h c c1 c2 c3 c4 cs c8 c10) rfl (fun _ => rfl)
        (fun as => by simp [sendAs, SPat.isEmpty]) (fun _ rest hk => by simp only [psok] at hk; exact hk.2.2.2.2.2.1)
        b hb F i rest ps ext tA tN as as0 hi hA hB hok hF
  | any =>
    exact E_of_run cfg g _ _ _ _ (RunE_of_step (step_any_p cfg h) (by simp)) rfl (fun _ => rfl)
      (fun as => by simp [sendAs, SPat.isEmpty]) (fun _ rest hok => by simpa [psok] using hok)
  | star n =>
    exact E_of_run cfg g _ _ _ _ (run_stars_ext cfg h n) rfl (fun _ => rfl)
      (fun as => by simp [sendAs, SPat.isEmpty]) (fun _ rest hok => by simp only [psok] at hok; exact hok.1)
  | cls w neg items cis =>
    exact E_of_run cfg g _ _ _ _ (run_cls cfg g w neg items cis).2 rfl (fun _ => rfl)
      (fun as => by simp [sendAs, SPat.isEmpty]) (fun _ _ hk => hk)
  | seq p q ihp ihq =>
    intro b hp F i rest ps ext tA tN as as0 hi hA _ hok hF
    simp only [erase, rpp, Bool.and_eq_true] at hp
    simp only [psok] at hok
    simp only [sprint, List.length_append] at hF
    obtain ⟨ps1, F1, hF1, e1, hi1, hg1⟩ := ihp false hp.1 F i (sprint q ++ rest) ps ext tA tN as as0 hi hA (by simp)
      hok.1 (by omega)
    rw [sendAs_rpp_false _ _ hp.1] at hi1
    obtain ⟨ps2, F2, hF2, e2, hi2, hg2⟩ := ihq false hp.2 F1 (i + (sprint p).length) rest ps1 _ tA tN _ _ hi1
      (fun hx => hA (by simp only [Bool.and_eq_true] at hx; exact hx.1)) (by simp) hok.2 (by omega)
    rw [sendAs_rpp_false _ _ hp.2] at hi2
    refine ⟨ps2, F2, by simp only [sprint, List.length_append]; omega, ?_,
      by simpa [sendAs, SPat.isEmpty, Bool.and_assoc] using hi2, hg2.trans hg1⟩
    simp only [sprint, List.append_assoc, psits, List.reverse_append, List.length_append]
    rw [e1, e2]
    have a2 : i + (sprint p).length + (sprint q).length = i + ((sprint p).length + (sprint q).length) := by omega
    rw [a2]
  | alt p q ihp ihq =>
    intro b hp F i rest ps ext tA tN as as0 hi hA hb hok hF
    simp only [erase, rpp, Bool.and_eq_true] at hp
    simp only [psok] at hok
    simp only [sprint, List.length_append, List.length_cons] at hF
    have hat : as = tA := hb hp.1.1
    obtain ⟨ps1, F1, hF1, e1, hi1, hg1⟩ := ihp false hp.1.2 F i ('|' :: (sprint q ++ rest)) ps ext tA tN as as0 hi hA
      (by simp) hok.1 (by omega)
    obtain ⟨F2, hF2⟩ : ∃ F2, F1 = F2 + 1 := ⟨F1 - 1, by omega⟩
    obtain ⟨ps2, hi2, hg2, e2⟩ := step_barG cfg F2 (i + (sprint p).length) (sprint q ++ rest) ps1
      ((psits cfg as p).reverse ++ ext) tA tN hi1
    obtain ⟨ps3, F3, hF3, e3, hi3, hg3⟩ := ihq true hp.2 F2 (i + (sprint p).length + 1) rest ps2 _ tA tN tA as0 hi2
      (fun hx => hx) (fun _ => rfl) hok.2 (by omega)
    refine ⟨ps3, F3, by simp only [sprint, List.length_append, List.length_cons]; omega, ?_,
      by simpa [sendAs] using (hat ▸ hi3), hg3.trans (hg2.trans hg1)⟩
    simp only [sprint, List.append_assoc, List.cons_append, psits, List.reverse_append, List.length_append,
      List.length_cons, List.reverse_cons, List.nil_append]
    rw [e1, hF2, e2, e3, hat]
    have a2 : i + (sprint p).length + 1 + (sprint q).length = i + ((sprint p).length + ((sprint q).length + 1)) := by
      omega
    rw [a2]
  | ext k body ih =>
    intro b hp F i rest ps ext tA tN as as0 hi hA _ hok hF
    simp only [erase, rpp, Bool.and_eq_true, bne_iff_ne, ne_eq] at hp
    simp only [psok] at hok
    simp only [sprint, List.length_cons, List.length_append, List.length_nil] at hF
    obtain ⟨F', rfl⟩ : ∃ F', F = F' + 1 := ⟨F - 1, by omega⟩
    obtain ⟨ps1, e1, hi1, hg1⟩ := parseExtend_group cfg g k hp.1 body ih hp.2 F' (i+1) rest ps ext false as0 hi hok
      (by omega)
    refine ⟨ps1.updateDirState, F', by simp only [sprint, List.length_cons]; omega, ?_,
      by simpa [sendAs, SPat.isEmpty] using hi1.upd, by simpa using hg1⟩
    have hx : (cfg.extend && decide (extChar k ∈ extTypes)) = true := by simp [h.extend, extChar_ext]
    simp only [sprint, List.cons_append, List.append_assoc, List.nil_append, psits, List.reverse_cons,
      List.reverse_nil]
    rw [extLoop_cons]
    unfold HF.extTok
    rw [if_pos hx, e1]
    simp only [if_true]
    rw [extCont_ne _ _ _ _ _ _ _ _ (extChar_ne_close k)]
    congr 2
    simp only [List.length_cons, List.length_append, List.length_nil]
    omega

/-- the top-level claim (negation-free) -/
def R (cfg : Cfg) (sp : SPat) : Prop :=
  rpp false (erase sp) = true → ∀ (F i : Nat) (rest : List Char) (ps : PS) (cur : List Item) (as : Bool),
    PP.Inv ps as false 0 → psok cfg ps.globstar true as sp rest → (sprint sp).length ≤ F →
    ∃ ps' F', F - (sprint sp).length ≤ F' ∧
      rootLoop cfg F ⟨i, sprint sp ++ rest⟩ ps cur =
        rootLoop cfg F' ⟨i + (sprint sp).length, rest⟩ ps' ((psits cfg as sp).reverse ++ cur) ∧
      PP.Inv ps' (as && sp.isEmpty) false 0 ∧ ps'.globstar = ps.globstar

theorem R_of_run (cfg : Cfg) (sp : SPat) (w : List Char) (x : Bool → List Item)
    (side : Bool → Bool → List Char → Prop)
    (hs : RunR cfg w x side) (hprint : sprint sp = w) (hits : ∀ as, psits cfg as sp = x as)
    (hend : sp.isEmpty = false) (hside : ∀ as g rest, psok cfg g true as sp rest → side as g rest) :
    R cfg sp := by
  intro _ F i rest ps cur as hi hok hF
  rw [hprint] at hF ⊢
  obtain ⟨ps', F', hF', hi', hg', e⟩ := hs as 0 F i rest ps cur hi (hside as _ rest hok) hF
  exact ⟨ps', F', hF', by rw [hits]; exact e, by rw [hend]; simpa using hi', hg'⟩

theorem R_all (cfg : Cfg) (h : PathX cfg) : ∀ sp : SPat, R cfg sp := by
  intro sp
  induction sp with
  | eps =>
    intro _ F i rest ps cur as hi _ _
    exact ⟨ps, F, by simp, by simp [sprint, psits], by simpa [SPat.isEmpty] using hi, rfl⟩
  | lit c e =>
    cases e with
    | true =>
      intro hb F i rest ps cur as hi hok hF
      have hs : c ≠ '/' := hok
      exact R_of_run cfg _ _ _ _ (run_esc_root cfg h c hs) rfl (fun _ => rfl) rfl (fun _ _ _ _ => trivial)
        hb F i rest ps cur as hi hok hF
    | false =>
      intro hb F i rest ps cur as hi hok hF
      have hok' := hok
      simp only [psok] at hok'
      obtain ⟨c1, c2, c3, c4, cs, c5, c6⟩ := hok'
      exact R_of_run cfg _ _ _ _ (run_bare_root cfg h c c1 c2 c3 c4 cs) rfl (fun _ => rfl) rfl
        (fun _ _ rest hk => by simp only [psok] at hk; exact hk.2.2.2.2.2.1) hb F i rest ps cur as hi hok hF
  | any =>
    exact R_of_run cfg _ _ _ _ (RunR_of_step (step_any_p cfg h) (by simp)) rfl (fun _ => rfl) rfl
      (fun _ _ rest hok => by simpa [psok] using hok)
  | star n =>
    exact R_of_run cfg _ _ _ _ (run_stars_root cfg h n) rfl (fun _ => rfl) rfl
      (fun as g rest hok => ⟨hok.1, hok.2 rfl⟩)
  | cls w neg items cis =>
    exact R_of_run cfg _ _ _ _ (run_cls cfg false w neg items cis).1 rfl (fun _ => rfl) rfl
      (fun _ _ _ hk => hk)
  | seq p q ihp ihq =>
    intro hp F i rest ps cur as hi hok hF
    simp only [erase, rpp, Bool.and_eq_true] at hp
    simp only [psok] at hok
    simp only [sprint, List.length_append] at hF
    obtain ⟨ps1, F1, hF1, e1, hi1, hg1⟩ := ihp hp.1 F i (sprint q ++ rest) ps cur as hi hok.1 (by omega)
    obtain ⟨ps2, F2, hF2, e2, hi2, hg2⟩ := ihq hp.2 F1 (i + (sprint p).length) rest ps1 _ _ hi1
      (by rw [hg1]; exact hok.2) (by omega)
    refine ⟨ps2, F2, by simp only [sprint, List.length_append]; omega, ?_,
      by simpa [SPat.isEmpty, Bool.and_assoc] using hi2, hg2.trans hg1⟩
    simp only [sprint, List.append_assoc, psits, List.reverse_append, List.length_append]
    rw [e1, e2]
    have a2 : i + (sprint p).length + (sprint q).length = i + ((sprint p).length + (sprint q).length) := by omega
    rw [a2]
  | alt p q => intro hp; simp [erase, rpp] at hp
  | ext k body =>
    intro hp F i rest ps cur as hi hok hF
    simp only [erase, rpp, Bool.and_eq_true, bne_iff_ne, ne_eq] at hp
    simp only [psok] at hok
    simp only [sprint, List.length_cons, List.length_append, List.length_nil] at hF
    obtain ⟨F', rfl⟩ : ∃ F', F = F' + 1 := ⟨F - 1, by omega⟩
    obtain ⟨ps1, e1, hi1, hg1⟩ := parseExtend_group cfg ps.globstar k hp.1 body (E_all cfg h _ body) hp.2
      (2 * ('(' :: (sprint body ++ ')' :: rest)).length + 8) (i+1) rest ps cur true as hi hok
      (by simp only [List.length_cons, List.length_append]; omega)
    refine ⟨ps1.updateDirState, F', by simp only [sprint, List.length_cons]; omega, ?_,
      by simpa [SPat.isEmpty] using hi1.upd, by simpa using hg1⟩
    have hx : (cfg.extend && decide (extChar k ∈ extTypes)) = true := by simp [h.extend, extChar_ext]
    simp only [sprint, List.cons_append, List.append_assoc, List.nil_append, psits, List.reverse_cons,
      List.reverse_nil]
    rw [rootLoop_cons]
    unfold HF.rootTok
    rw [if_pos hx]
    simp only [e1, if_true]
    congr 2
    simp only [List.length_cons, List.length_append, List.length_nil]
    omega

/-! ### shape facts used by the path level -/

theorem WF_replicate (n : Nat) (r : Re) : WF false (List.replicate n (.re r)) := by
  induction n with
  | zero => exact .nil
  | succ n ih => rw [List.replicate_succ]; exact .re ih

theorem psits_WF (cfg : Cfg) : ∀ (sp : SPat) (b as : Bool), rpp b (erase sp) = true → WF false (psits cfg as sp) := by
  intro sp
  induction sp with
  | eps => intro b as _; exact .nil
  | lit c e => intro b as _; exact .re .nil
  | any => intro b as _; exact .re .nil
  | star n =>
    intro b as _
    simp only [psits, starItems]
    split
    · exact .re .nil
    · exact WF_replicate _ _
  | cls w neg items cis => intro b as _; exact .re .nil
  | seq p q ihp ihq =>
    intro b as h
    simp only [erase, rpp, Bool.and_eq_true] at h
    exact (ihp _ _ h.1).append (ihq _ _ h.2)
  | alt p q ihp ihq =>
    intro b as h
    simp only [erase, rpp, Bool.and_eq_true] at h
    exact (ihp _ _ h.1.2).append (.bar (ihq _ _ h.2))
  | ext k body ih =>
    intro b as h
    simp only [erase, rpp, Bool.and_eq_true] at h
    exact .group (ih _ _ h.2) .nil

end PRP
end WcModel

import WcModel.Proofs.HiddenPathInv
/-
  The special directories `.` and `..` under DOTGLOB, path mode (stage 3): the semantic half.
  With DOTGLOB every wildcard that stands at a segment start carries the `_NO_DIR` guard
  `(?!(?:\.{1,2})(?:$|[/]))`; a piece of the subject that is exactly `.` or `..` is matched only
  through a written dot, through an extended group at a segment start (D5), or through an `!(…)`
  group whose star lost the guard (D15).

  Part 1  dot-directory pieces of a subject read piecewise (`DHid`).
  Part 2  the fragments of the DOTGLOB mode: what refuses a dot-directory piece.
  Part 3  the scan `dirScan` of the segment starts and the theorem `topOK_dir`.
-/
namespace WcModel
namespace HP
open HF (DotRefusing NoBar isBar Rel)

/-! ## Part 1: dot-directory pieces -/

/-- a piece that is exactly `.` or `..` *starts inside* `w` (which is followed by `tail`), when `w`
    is read from a position that is (`f = true`) or is not at the start of a piece -/
def DHid (f : Bool) (w tail : List Char) : Prop :=
  (f = true ∧ w ≠ [] ∧ dotDirAhead (w ++ tail) = true) ∨
  ∃ u v, w = u ++ '/' :: v ∧ v ≠ [] ∧ dotDirAhead (v ++ tail) = true

/-- the subject has a piece that is exactly `.` or `..` -/
def HasDotDir (s : List Char) : Prop := DHid true s []

theorem not_dhid_nil (f : Bool) (tail : List Char) : ¬ DHid f [] tail := by
  rintro (⟨_, h, _⟩ | ⟨u, v, h, _⟩)
  · exact h rfl
  · simp at h

theorem dotDirAhead_head {t : List Char} (h : dotDirAhead t = true) : t.head? = some '.' := by
  cases t with
  | nil => simp [dotDirAhead] at h
  | cons c x => simp only [dotDirAhead, Bool.and_eq_true, beq_iff_eq] at h; simp [h.1]

/-- reading `w₁` and then `w₂` -/
theorem DHid_append {f : Bool} {w₁ w₂ tail : List Char} (h : DHid f (w₁ ++ w₂) tail) :
    DHid f w₁ (w₂ ++ tail) ∨ DHid (nextFresh f w₁) w₂ tail := by
  rcases h with ⟨hf, hne, hd⟩ | ⟨u, v, he, hv, hd⟩
  · cases w₁ with
    | nil => right; left; exact ⟨by simpa [nextFresh] using hf, by simpa using hne, by simpa using hd⟩
    | cons d t => left; left; exact ⟨hf, by simp, by simpa using hd⟩
  · rcases List.append_eq_append_iff.mp he with ⟨a', e1, e2⟩ | ⟨c', e1, e2⟩
    · -- the separator lies in `w₂`
      right; right; exact ⟨a', v, e2, hv, hd⟩
    · cases c' with
      | nil =>
        right; right
        exact ⟨[], v, by simpa using e2.symm, hv, hd⟩
      | cons x c'' =>
        simp only [List.cons_append, List.cons.injEq] at e2
        obtain ⟨hx, e2⟩ := e2
        subst hx
        cases c'' with
        | nil =>
          -- `w₁` ends with the separator
          right; left
          simp only [List.nil_append] at e2
          subst e2
          refine ⟨?_, hv, hd⟩
          rw [e1]; simp [nextFresh]
        | cons y c''' =>
          left; right
          refine ⟨u, y :: c''', e1, by simp, ?_⟩
          rw [e2] at hd
          simpa using hd

theorem not_dhid_append {f : Bool} {w₁ w₂ tail : List Char} (h1 : ¬ DHid f w₁ (w₂ ++ tail))
    (h2 : ¬ DHid (nextFresh f w₁) w₂ tail) : ¬ DHid f (w₁ ++ w₂) tail :=
  fun h => (DHid_append h).elim h1 h2

/-- separators only -/
theorem not_dhid_noDot {f : Bool} {w tail : List Char} (hn : '.' ∉ w) : ¬ DHid f w tail := by
  rintro (⟨_, hne, hd⟩ | ⟨u, v, he, hv, hd⟩)
  · have := dotDirAhead_head hd
    cases w with
    | nil => exact hne rfl
    | cons d t => simp at this; subst this; simp at hn
  · have := dotDirAhead_head hd
    cases v with
    | nil => exact hv rfl
    | cons d t => simp at this; subst this; exact hn (by rw [he]; simp)

/-- no separator inside, and the piece that starts here (if one does) is not `.` / `..` -/
theorem not_dhid_noSlash {f : Bool} {w tail : List Char} (hn : '/' ∉ w)
    (hs : f = false ∨ dotDirAhead (w ++ tail) = false) : ¬ DHid f w tail := by
  rintro (⟨hf, _, hd⟩ | ⟨u, v, he, _, _⟩)
  · rcases hs with hs | hs
    · rw [hs] at hf; cases hf
    · rw [hs] at hd; cases hd
  · exact hn (by rw [he]; simp)

/-- the invariant of the middle of a segment: we are not at the start of a piece, or the piece that
    starts here is not `.` / `..` -/
def MidOK (f : Bool) (rest : List Char) : Prop := f = false ∨ dotDirAhead rest = false

theorem midOK_next {f : Bool} {w rest : List Char} (hn : '/' ∉ w) (h : MidOK f (w ++ rest)) :
    MidOK (nextFresh f w) rest := by
  by_cases hw : w = []
  · subst hw; simpa [nextFresh] using h
  · exact Or.inl (nextFresh_of_noSlash hw hn)

/-! ## Part 2: the fragments of the DOTGLOB mode -/

/-- `(?:\.{1,2})(?:$|[/])` matches where a `.` / `..` piece is ahead -/
theorem dirAhead_match (md : Mode) (a : St) (h : dotDirAhead a.rest = true) :
    ∃ c, Re.M md (.cat (.grp (.rep 1 2 (.lit '.'))) (Frag.pathEop false)) a c := by
  cases hr : a.rest with
  | nil => simp [hr, dotDirAhead] at h
  | cons c x =>
    rw [hr] at h
    simp only [dotDirAhead, Bool.and_eq_true, beq_iff_eq, Bool.or_eq_true] at h
    obtain ⟨rfl, h⟩ := h
    have h0 : Re.M md (.lit '.') a ⟨false, x⟩ := (M_lit_dot md a _).mpr ⟨'.', x, hr, rfl, rfl⟩
    rcases h with h | h
    · obtain ⟨c, hc⟩ := (M_pathEop_ex md ⟨false, x⟩).mpr h
      refine ⟨c, ?_⟩
      simp only [Re.M.eq_5, Re.M.eq_7, Re.M.eq_13]
      exact ⟨⟨false, x⟩, ⟨1, Nat.le_refl _, by omega, .succ h0 (.zero _)⟩, hc⟩
    · cases x with
      | nil => simp at h
      | cons d y =>
        simp only [Bool.and_eq_true, beq_iff_eq] at h
        obtain ⟨rfl, h⟩ := h
        obtain ⟨c, hc⟩ := (M_pathEop_ex md ⟨false, y⟩).mpr h
        have h1 : Re.M md (.lit '.') ⟨false, '.' :: y⟩ ⟨false, y⟩ :=
          (M_lit_dot md _ _).mpr ⟨'.', y, rfl, rfl, rfl⟩
        refine ⟨c, ?_⟩
        simp only [Re.M.eq_5, Re.M.eq_7, Re.M.eq_13]
        exact ⟨⟨false, y⟩, ⟨2, by omega, Nat.le_refl _, .succ h0 (.succ h1 (.zero _))⟩, hc⟩

/-- `_NO_DIR` fails where a `.` / `..` piece is ahead -/
theorem noDir_fact (md : Mode) (a b : St) (h : Re.M md (Frag.noDir false) a b) :
    b = a ∧ dotDirAhead a.rest = false := by
  simp only [Frag.noDir, Re.M] at h
  refine ⟨h.1, ?_⟩
  cases hd : dotDirAhead a.rest with
  | false => rfl
  | true => exact absurd (dirAhead_match md a hd) (by simpa [Re.M] using h.2)

/-- `x` consumes no separator and does not start to match where a `.` / `..` piece is ahead -/
def DirGuard (x : Re) : Prop :=
  ∀ md a m, Re.M md x a m → dotDirAhead a.rest = false ∧ ∃ w, a.rest = w ++ m.rest ∧ '/' ∉ w

theorem dirGuard_noDir_cat {x : Re} (hx : NoSlash x) : DirGuard (.cat (Frag.noDir false) x) := by
  intro md a m h
  simp only [Re.M.eq_5] at h
  obtain ⟨c, h1, h2⟩ := h
  obtain ⟨rfl, hd⟩ := noDir_fact md a c h1
  exact ⟨hd, hx md c m h2⟩

/-- the segment-start star of the DOTGLOB mode, `(?=[^/])(?!(?:\.{1,2})(?:$|[/]))[^/]*?` -/
def starRe3 : Re := .cat (Frag.needCharPath false) (Frag.pathStarDot1 false)

theorem dirGuard_star3 : DirGuard starRe3 := by
  intro md a m h
  simp only [starRe3, Re.M.eq_5] at h
  obtain ⟨c, h1, h2⟩ := h
  have : c = a := by simp only [Frag.needCharPath, Re.M] at h1; exact h1.1
  subst this
  exact dirGuard_noDir_cat .pathStar md c m (by simpa [Frag.pathStarDot1, Re.M.eq_5] using h2)

/-- the guard of `?` / `[…]` at a segment start under DOTGLOB, `(?!(?:\.{1,2})(?:$|[/]))(?![/])` -/
def guard3 : Re := .cat (Frag.noDir false) (Frag.seqPath false)

theorem dirGuard_guard3 {y : Re} (hy : OneChar y) : DirGuard (.cat guard3 y) := by
  intro md a m h
  simp only [guard3, Re.M.eq_5] at h
  obtain ⟨c, ⟨c0, h0, h1⟩, h2⟩ := h
  obtain ⟨rfl, hd⟩ := noDir_fact md a c0 h0
  refine ⟨hd, ?_⟩
  exact NoSlash.guarded guard_seqPath hy md c0 m (by simp only [Re.M.eq_5]; exact ⟨c, h1, h2⟩)

theorem dirGuard_lit {c : Char} (hc : c ≠ '.') (hn : NoSlash (.lit c)) : DirGuard (.lit c) := by
  intro md a m h
  refine ⟨?_, hn md a m h⟩
  cases hd : dotDirAhead a.rest with
  | false => rfl
  | true =>
    exfalso
    have hh := dotDirAhead_head hd
    exact HF.refuse_lit hc md a m hh h

theorem dirGuard_guardedDot : DirGuard (Frag.guardedDot false) := by
  intro md a m h
  refine ⟨?_, NoSlash.guardedDot md a m h⟩
  simp only [Frag.guardedDot, Re.M.eq_5] at h
  obtain ⟨c, h1, _⟩ := h
  rw [Re.M.eq_15] at h1
  cases hd : dotDirAhead a.rest with
  | false => rfl
  | true =>
    exfalso
    obtain ⟨rfl, hno⟩ := h1
    exact hno ((guard_iff md c).mpr hd)

/-! ### the globstar of the DOTGLOB mode -/

/-- a `.` / `..` piece starts right here (at the very beginning) or right behind the next separator -/
def dirAheadSt (a : St) : Prop :=
  (∃ t, a.rest = '/' :: t ∧ dotDirAhead t = true) ∨ (a.atStart = true ∧ dotDirAhead a.rest = true)

theorem gstar1_guard (md : Mode) (a : St) (h : dirAheadSt a) :
    ∃ c, Re.M md (.cat (.cat (.grp (.alt (Frag.sep false) .bos)) (.grp (.rep 1 2 (.lit '.'))))
      (Frag.pathEop false)) a c := by
  rcases h with ⟨t, e, hd⟩ | ⟨hs, hd⟩
  · obtain ⟨c, hc⟩ := dirAhead_match md ⟨false, t⟩ hd
    simp only [Re.M.eq_5] at hc
    obtain ⟨m, h1, h2⟩ := hc
    refine ⟨c, ?_⟩
    simp only [Re.M.eq_5]
    refine ⟨m, ⟨⟨false, t⟩, ?_, h1⟩, h2⟩
    simp only [Re.M.eq_7, Re.M.eq_6]
    exact Or.inl ((M_sep md _ _).mpr ⟨'/', t, e, rfl, rfl⟩)
  · obtain ⟨c, hc⟩ := dirAhead_match md a hd
    simp only [Re.M.eq_5] at hc
    obtain ⟨m, h1, h2⟩ := hc
    refine ⟨c, ?_⟩
    simp only [Re.M.eq_5]
    refine ⟨m, ⟨a, ?_, h1⟩, h2⟩
    simp only [Re.M.eq_7, Re.M.eq_6]
    exact Or.inr (by simp [Re.M, hs])

theorem gstar1_step (ci : Bool) (a b : St)
    (h : Re.M ⟨true, ci⟩ (.grp (.cat (.look true (.cat (.cat (.grp (.alt (Frag.sep false) .bos))
      (.grp (.rep 1 2 (.lit '.')))) (Frag.pathEop false))) .any)) a b) :
    ¬ dirAheadSt a ∧ consume1 (fun _ => true) a b := by
  simp only [Re.M.eq_7, Re.M.eq_5] at h
  obtain ⟨c, h1, h2⟩ := h
  rw [Re.M.eq_15] at h1
  obtain ⟨rfl, hno⟩ := h1
  exact ⟨fun hh => hno (gstar1_guard _ c hh), (M_any_dotall ci c b).mp h2⟩

theorem Iter.mono' {R S : St → St → Prop} (h : ∀ x y, R x y → S x y) {a b : St} (hi : Iter R a b) :
    Iter S a b := by
  induction hi with
  | refl a => exact .refl a
  | step hab _ ih => exact .step (h _ _ hab) ih

theorem gstar1_iter {a m : St} (hit : Iter (fun x y => ¬ dirAheadSt x ∧ consume1 (fun _ => true) x y) a m) :
    ∃ w, a.rest = w ++ m.rest ∧ (w ≠ [] → ¬ dirAheadSt a) ∧
      ∀ u v, w = u ++ '/' :: v → dotDirAhead (v ++ m.rest) = false := by
  induction hit with
  | refl a => exact ⟨[], by simp, fun hne => absurd rfl hne, fun u v he => by simp at he⟩
  | @step x y z hab _ ih =>
    obtain ⟨hno, d, s, e1, _, rfl⟩ := hab
    obtain ⟨w, e, _, hw2⟩ := ih
    simp only at e
    refine ⟨d :: w, by simp [e1, e], fun _ => hno, ?_⟩
    intro u v he
    cases u with
    | nil =>
      simp only [List.nil_append, List.cons.injEq] at he
      obtain ⟨rfl, rfl⟩ := he
      cases hd : dotDirAhead (w ++ z.rest) with
      | false => rfl
      | true => exact absurd (Or.inl ⟨w ++ z.rest, by rw [e1, e], hd⟩) hno
    | cons d' u' =>
      simp only [List.cons_append, List.cons.injEq] at he
      exact hw2 u' v he.2

/-- the globstar of the DOTGLOB mode, started at the very beginning of the subject or where no
    `.` / `..` piece starts: no such piece starts inside what it consumes -/
theorem gstar1_fact (ci : Bool) (g : Re) (hg : gsFor true g = true) (a m : St)
    (ha : a.atStart = true ∨ dotDirAhead a.rest = false)
    (h : Re.M ⟨true, ci⟩ g a m) : ∃ w, a.rest = w ++ m.rest ∧ ∀ f, ¬ DHid f w m.rest := by
  have h' : Re.M ⟨true, ci⟩ (Frag.pathGstarDot1 false) a m := by
    simp only [gsFor, if_true, Bool.or_eq_true, beq_iff_eq] at hg
    rcases hg with rfl | rfl
    · exact h
    · simpa [Re.M] using h
  simp only [Frag.pathGstarDot1, Re.M.eq_11] at h'
  obtain ⟨w, e, hw1, hw2⟩ := gstar1_iter (Iter.mono' (fun x y hxy => gstar1_step ci x y hxy) h')
  refine ⟨w, e, fun f => ?_⟩
  rintro (⟨_, hne, hd⟩ | ⟨u, v, he, _, hd⟩)
  · rw [← e] at hd
    rcases ha with ha | ha
    · exact hw1 hne (Or.inr ⟨ha, hd⟩)
    · rw [ha] at hd; cases hd
  · rw [hw2 u v he] at hd; cases hd


/-! ## Part 3: the scan of the segment starts under DOTGLOB -/

theorem gstar1_not_noSlash (g : Re) (hg : gsFor true g = true) : ¬ NoSlash g := by
  intro hn
  have hm : Re.M ⟨true, false⟩ g ⟨false, ['/']⟩ ⟨false, []⟩ := by
    have h' : Re.M ⟨true, false⟩ (Frag.pathGstarDot1 false) ⟨false, ['/']⟩ ⟨false, []⟩ := by
      simp only [Frag.pathGstarDot1, Re.M.eq_11]
      refine .step ?_ (.refl _)
      simp only [Re.M.eq_7, Re.M.eq_5]
      refine ⟨⟨false, ['/']⟩, ?_, (M_any_dotall false _ _).mpr ⟨'/', [], rfl, rfl, rfl⟩⟩
      rw [Re.M.eq_15]
      refine ⟨rfl, ?_⟩
      rintro ⟨c, hc⟩
      simp only [Re.M.eq_5, Re.M.eq_7, Re.M.eq_6] at hc
      obtain ⟨m1, ⟨m0, h0, h1⟩, _⟩ := hc
      have hm0 : m0 = ⟨false, []⟩ := by
        rcases h0 with h0 | h0
        · obtain ⟨d, s, e1, _, rfl⟩ := (M_sep _ _ _).mp h0
          simp at e1; rw [e1.2]
        · simp [Re.M] at h0
      subst hm0
      simp only [Re.M.eq_13] at h1
      obtain ⟨n, hn1, _, hit⟩ := h1
      cases hit with
      | zero _ => omega
      | succ hab _ =>
        obtain ⟨d, s, e1, _⟩ := (M_lit_dot _ _ _).mp hab
        simp at e1
    simp only [gsFor, if_true, Bool.or_eq_true, beq_iff_eq] at hg
    rcases hg with rfl | rfl
    · exact h'
    · simpa [Re.M] using h'
  obtain ⟨w, e, hw⟩ := hn _ _ _ hm
  simp at e
  exact hw (by rw [← e]; simp)

/-- the guarded fragments of a segment start under DOTGLOB: the star, the guarded dot of NODOTDIR,
    a literal other than `.`, and `?` / `[…]` behind `_NO_DIR` -/
def isGuardRe3 (r : Re) : Bool :=
  r == starRe3 || r == Frag.guardedDot false ||
  (match r with
   | .lit c => c != '.'
   | .cat g .any => g == guard3
   | .cat g (.cls _ _) => g == guard3
   | _ => false)

theorem guardRe3_fact (x : Re) (hx : isGuardRe3 x = true) (hn : NoSlash x) : DirGuard x := by
  simp only [isGuardRe3, Bool.or_eq_true, beq_iff_eq] at hx
  rcases hx with (rfl | rfl) | hx
  · exact dirGuard_star3
  · exact dirGuard_guardedDot
  · cases x with
    | lit c =>
      simp only [bne_iff_ne, ne_eq] at hx
      exact dirGuard_lit hx hn
    | cat g y =>
      cases y with
      | any => simp only [beq_iff_eq] at hx; subst hx; exact dirGuard_guard3 oneChar_any
      | cls neg items => simp only [beq_iff_eq] at hx; subst hx; exact dirGuard_guard3 (oneChar_cls neg items)
      | _ => simp at hx
    | _ => simp at hx

def reKind3 (r : Re) : RK :=
  if isSepRe r then .sep
  else if gsFor true r || r == Frag.noRoot then .keep
  else if isGuardRe3 r then .guard
  else .other

/-- `grp k body = true` only for groups whose regex cannot start to match where a `.` / `..` piece
    is ahead -/
def GrpOK3 (grp : GKind → List Item → Bool) : Prop :=
  ∀ k c body, grp k body = true → BodyNoSlash body →
    ∀ fuel b, Item.listToRe fuel body = some b → DirGuard (quant k c b)

theorem grpOK3_noGrp : GrpOK3 noGrp := fun _ _ _ h => by simp [noGrp] at h

/-- do all segments of the top-level list start with something that cannot match a `.` / `..`
    piece?  At a segment start (`start = true`) only separators, globstars, `_NO_ROOT`, guarded
    fragments, an `!(…)` group whose closing star is the guarded star and the extended groups `grp`
    accepts pass; everything else there — a written dot, any other extended group (D5), an
    `!(…)` whose star lost `_NO_DIR` (D15) — makes the scan fail. -/
def dirScanG (grp : GKind → List Item → Bool) : Bool → List Item → Bool
  | _, [] => true
  | start, .re r :: l =>
    match reKind3 r with
    | .sep => dirScanG grp true l
    | .keep => dirScanG grp start l
    | .guard => dirScanG grp false l
    | .other => if start then false else dirScanG grp false l
  | start, .empty :: l => dirScanG grp start l
  | start, .invOpen _ _ :: .closed _ _ star :: l =>
    if start then (star == starRe3 && dirScanG grp false l) else dirScanG grp false l
  | start, .invOpen _ _ :: .ph star :: l =>
    if start then (star == starRe3 && dirScanG grp false l) else dirScanG grp false l
  | start, .group k _ body :: l =>
    if start then (grp k body && dirScanG grp false l) else dirScanG grp false l
  | start, _ :: l => if start then false else dirScanG grp false l

theorem dirScanG_re (grp : GKind → List Item → Bool) (start : Bool) (r : Re) (l : List Item) :
    dirScanG grp start (.re r :: l) =
      match reKind3 r with
      | .sep => dirScanG grp true l
      | .keep => dirScanG grp start l
      | .guard => dirScanG grp false l
      | .other => if start then false else dirScanG grp false l := by
  rw [dirScanG]

/-- the coarse scan: every extended group at a segment start makes it fail -/
abbrev dirScan : Bool → List Item → Bool := dirScanG noGrp

theorem reKind3_sep {r : Re} (h : reKind3 r = .sep) : isSepRe r = true := by
  unfold reKind3 at h
  split at h
  · assumption
  · split at h
    · cases h
    · split at h <;> cases h

theorem reKind3_keep {r : Re} (h : reKind3 r = .keep) : gsFor true r = true ∨ r = Frag.noRoot := by
  unfold reKind3 at h
  split at h
  · cases h
  · split at h
    · rename_i hk
      simp only [Bool.or_eq_true, beq_iff_eq] at hk
      exact hk
    · split at h <;> cases h

theorem reKind3_guard {r : Re} (h : reKind3 r = .guard) : isGuardRe3 r = true := by
  unfold reKind3 at h
  split at h
  · cases h
  · split at h
    · cases h
    · split at h
      · assumption
      · cases h

theorem reKind3_gstar {g : Re} (hg : gsFor true g = true) : reKind3 g = .keep := by
  simp only [gsFor, if_true, Bool.or_eq_true, beq_iff_eq] at hg
  rcases hg with rfl | rfl <;> decide

theorem combine3 {f : Bool} {a m b : St} {w₁ : List Char} (e1 : a.rest = w₁ ++ m.rest)
    (h1 : ¬ DHid f w₁ m.rest)
    (h2 : ∃ w₂, m.rest = w₂ ++ b.rest ∧ ¬ DHid (nextFresh f w₁) w₂ b.rest) :
    ∃ w, a.rest = w ++ b.rest ∧ ¬ DHid f w b.rest := by
  obtain ⟨w₂, e2, h2⟩ := h2
  refine ⟨w₁ ++ w₂, by rw [e1, e2, List.append_assoc], not_dhid_append ?_ h2⟩
  rw [← e2]; exact h1

/-- the generic step in the middle of a segment -/
theorem mid3 {f : Bool} {a m : St} {w₁ : List Char} (e1 : a.rest = w₁ ++ m.rest) (n1 : '/' ∉ w₁)
    (hm : MidOK f a.rest) : ¬ DHid f w₁ m.rest ∧ MidOK (nextFresh f w₁) m.rest := by
  rw [e1] at hm
  exact ⟨not_dhid_noSlash n1 hm, midOK_next n1 hm⟩

/-- **the semantic theorem for top-level lists under DOTGLOB**: if every segment starts with
    something guarded, no `.` / `..` piece starts inside what the regex consumes -/
theorem topOK_dirG (grp : GKind → List Item → Bool) (hgrp : GrpOK3 grp) (ci : Bool) {st : Bool} {l : List Item}
    (h : TopOK (gsFor true) st l) :
    ∀ (fuel : Nat) (r : Re) (start f : Bool) (a b : St),
      dirScanG grp start l = true → (start = false → MidOK f a.rest) → (st = true → a.atStart = true) →
      Item.seqToRe fuel l = some r → Re.M ⟨true, ci⟩ r a b →
      ∃ w, a.rest = w ++ b.rest ∧ ¬ DHid f w b.rest := by
  induction h with
  | nil =>
    intro fuel r start f a b _ _ _ hr hm
    cases fuel with
    | zero => simp [Item.seqToRe] at hr
    | succ n =>
      simp [Item.seqToRe] at hr; subst hr
      simp only [Re.M] at hm; subst hm
      exact ⟨[], by simp, not_dhid_nil f _⟩
  | empty _ ih =>
    intro fuel r start f a b hs hf hst hr hm
    cases fuel with
    | zero => simp [Item.seqToRe] at hr
    | succ n =>
      simp only [Item.seqToRe] at hr
      exact ih n r start f a b (by simpa [dirScanG] using hs) hf hst hr hm
  | @transp st l _ ih =>
    intro fuel r start f a b hs hf hst hr hm
    cases fuel with
    | zero => simp [Item.seqToRe] at hr
    | succ n =>
      simp only [Item.seqToRe] at hr
      cases hq : Item.seqToRe n l with
      | none => simp [hq] at hr
      | some r' =>
        simp [hq] at hr; subst hr
        obtain ⟨m, h1, h2⟩ := M_catE'_split _ _ _ _ _ hm
        have : m = a := by simp only [Frag.noRoot, Re.M] at h1; exact h1.1
        subst this
        have hk : reKind3 Frag.noRoot = .keep := by decide
        rw [dirScanG_re, hk] at hs
        exact ih n r' start f m b hs hf hst hq h2
  | @re st x l hx _ ih =>
    intro fuel r start f a b hs hf hst hr hm
    cases fuel with
    | zero => simp [Item.seqToRe] at hr
    | succ n =>
      simp only [Item.seqToRe] at hr
      cases hq : Item.seqToRe n l with
      | none => simp [hq] at hr
      | some r' =>
        simp [hq] at hr; subst hr
        obtain ⟨m, h1, h2⟩ := M_catE'_split _ _ _ _ _ hm
        have mid : MidOK f a.rest → dirScanG grp false l = true → ∃ w, a.rest = w ++ b.rest ∧ ¬ DHid f w b.rest := by
          intro hmid hs'
          obtain ⟨w₁, e1, n1⟩ := hx _ a m h1
          obtain ⟨g1, g2⟩ := mid3 e1 n1 hmid
          exact combine3 e1 g1 (ih n r' false _ m b hs' (fun _ => g2) (fun hh => by cases hh) hq h2)
        rw [dirScanG_re] at hs
        cases hk : reKind3 x with
        | sep =>
          rw [hk] at hs
          obtain ⟨w₁, e1, n1⟩ := sepRe_noDot _ x (reKind3_sep hk) a m h1
          exact combine3 e1 (not_dhid_noDot n1)
            (ih n r' true _ m b hs (fun hh => by cases hh) (fun hh => by cases hh) hq h2)
        | keep =>
          rw [hk] at hs
          cases start with
          | false => exact mid (hf rfl) hs
          | true =>
            rcases reKind3_keep hk with hg | rfl
            · exact absurd hx (gstar1_not_noSlash x hg)
            · have : m = a := by simp only [Frag.noRoot, Re.M] at h1; exact h1.1
              subst this
              exact ih n r' true f m b hs (fun hh => by cases hh) (fun hh => by cases hh) hq h2
        | guard =>
          rw [hk] at hs
          obtain ⟨hd, w₁, e1, n1⟩ := guardRe3_fact x (reKind3_guard hk) hx _ a m h1
          obtain ⟨g1, g2⟩ := mid3 (f := f) e1 n1 (Or.inr hd)
          exact combine3 e1 g1 (ih n r' false _ m b hs (fun _ => g2) (fun hh => by cases hh) hq h2)
        | other =>
          rw [hk] at hs
          cases start with
          | false => exact mid (hf rfl) (by simpa using hs)
          | true => simp at hs
  | @sep st x l hx _ ih =>
    intro fuel r start f a b hs hf hst hr hm
    cases fuel with
    | zero => simp [Item.seqToRe] at hr
    | succ n =>
      simp only [Item.seqToRe] at hr
      cases hq : Item.seqToRe n l with
      | none => simp [hq] at hr
      | some r' =>
        simp [hq] at hr; subst hr
        obtain ⟨m, h1, h2⟩ := M_catE'_split _ _ _ _ _ hm
        have hk : reKind3 x = .sep := by rcases hx with rfl | rfl | rfl <;> decide
        rw [dirScanG_re, hk] at hs
        obtain ⟨w₁, e1, n1⟩ := sepRe_noDot _ x (reKind3_sep hk) a m h1
        exact combine3 e1 (not_dhid_noDot n1)
          (ih n r' true _ m b hs (fun hh => by cases hh) (fun hh => by cases hh) hq h2)
  | @gstarStart g l hg _ ih =>
    intro fuel r start f a b hs hf hst hr hm
    cases fuel with
    | zero => simp [Item.seqToRe] at hr
    | succ n =>
      simp only [Item.seqToRe] at hr
      cases n with
      | zero => simp [Item.seqToRe] at hr
      | succ n =>
        simp only [Item.seqToRe] at hr
        cases hq : Item.seqToRe n l with
        | none => simp [hq] at hr
        | some r' =>
          simp [hq] at hr; subst hr
          obtain ⟨m, h1, h2⟩ := M_catE'_split _ _ _ _ _ hm
          obtain ⟨m2, h3, h4⟩ := M_catE'_split _ _ _ _ _ h2
          have hk2 : reKind3 (Frag.globstarDiv false) = .sep := by decide
          rw [dirScanG_re, reKind3_gstar hg, dirScanG_re, hk2] at hs
          obtain ⟨w₁, e1, n1⟩ := gstar1_fact ci g hg a m (Or.inl (hst rfl)) h1
          obtain ⟨w₂, e2, n2⟩ := div_noDot _ m m2 h3
          refine combine3 e1 (n1 f) (combine3 e2 (not_dhid_noDot n2) ?_)
          exact ih n r' true _ m2 b hs (fun hh => by cases hh) (fun hh => by cases hh) hq h4
  | @gstarSep st g l hg _ ih =>
    intro fuel r start f a b hs hf hst hr hm
    cases fuel with
    | zero => simp [Item.seqToRe] at hr
    | succ n =>
      simp only [Item.seqToRe] at hr
      cases n with
      | zero => simp [Item.seqToRe] at hr
      | succ n =>
        simp only [Item.seqToRe] at hr
        cases n with
        | zero => simp [Item.seqToRe] at hr
        | succ n =>
          simp only [Item.seqToRe] at hr
          cases hq : Item.seqToRe n l with
          | none => simp [hq] at hr
          | some r' =>
            simp [hq] at hr; subst hr
            obtain ⟨m0, h0, h2⟩ := M_catE'_split _ _ _ _ _ hm
            obtain ⟨m, h1, h2⟩ := M_catE'_split _ _ _ _ _ h2
            obtain ⟨m2, h3, h4⟩ := M_catE'_split _ _ _ _ _ h2
            have hk0 : reKind3 (Frag.needSep false) = .sep := by decide
            have hk2 : reKind3 (Frag.globstarDiv false) = .sep := by decide
            rw [dirScanG_re, hk0, dirScanG_re, reKind3_gstar hg, dirScanG_re, hk2] at hs
            have hns : m0 = a ∧ dotDirAhead a.rest = false := by
              simp only [Frag.needSep, Re.M] at h0
              obtain ⟨e, c, hc⟩ := h0
              refine ⟨e, ?_⟩
              cases hd : dotDirAhead a.rest with
              | false => rfl
              | true => exact absurd hc (not_sep_at_dot _ a c (dotDirAhead_head hd))
            obtain ⟨rfl, hnd⟩ := hns
            obtain ⟨w₁, e1, n1⟩ := gstar1_fact ci g hg m0 m (Or.inr hnd) h1
            obtain ⟨w₂, e2, n2⟩ := div_noDot _ m m2 h3
            refine combine3 e1 (n1 f) (combine3 e2 (not_dhid_noDot n2) ?_)
            exact ih n r' true _ m2 b hs (fun hh => by cases hh) (fun hh => by cases hh) hq h4
  | @group st k c body l hb _ ih =>
    intro fuel r start f a b hs hf hst hr hm
    cases fuel with
    | zero => simp [Item.seqToRe] at hr
    | succ n =>
      simp only [Item.seqToRe, Option.bind_eq_bind, Option.bind_eq_some_iff, Option.pure_def,
        Option.some.injEq] at hr
      obtain ⟨b', hb', r', hq, hr⟩ := hr
      subst hr
      obtain ⟨m, h1, h2⟩ := M_catE'_split _ _ _ _ _ hm
      cases start with
      | true =>
        simp only [dirScanG, if_true, Bool.and_eq_true] at hs
        obtain ⟨hg, hs'⟩ := hs
        obtain ⟨hd, w₁, e1, n1⟩ := hgrp k c body hg hb n b' hb' _ a m h1
        obtain ⟨g1, g2⟩ := mid3 (f := f) e1 n1 (Or.inr hd)
        exact combine3 e1 g1 (ih n r' false _ m b hs' (fun _ => g2) (fun hh => by cases hh) hq h2)
      | false =>
        have hs' : dirScanG grp false l = true := by simpa [dirScanG] using hs
        obtain ⟨w₁, e1, n1⟩ := (NoSlash.quant k c (hb n b' hb')) _ a m h1
        obtain ⟨g1, g2⟩ := mid3 e1 n1 (hf rfl)
        exact combine3 e1 g1 (ih n r' false _ m b hs' (fun _ => g2) (fun hh => by cases hh) hq h2)
  | invph _ _ _ =>
    intro fuel r start f a b hs hf hst hr hm
    cases fuel with
    | zero => simp [Item.seqToRe] at hr
    | succ n => simp [Item.seqToRe] at hr
  | @invcl st c body t e star l hstar _ ih =>
    intro fuel r start f a b hs hf hst hr hm
    cases fuel with
    | zero => simp [Item.seqToRe] at hr
    | succ n =>
      simp only [Item.seqToRe, Option.bind_eq_bind, Option.bind_eq_some_iff, Option.pure_def,
        Option.some.injEq] at hr
      obtain ⟨b', _, la, _, r', hq, hr⟩ := hr
      subst hr
      obtain ⟨m, h1, h2⟩ := M_catE'_split _ _ _ _ _ hm
      have h1' : Re.M ⟨true, ci⟩ star a m := by
        have : Re.M ⟨true, ci⟩ (.cat (.look true la) star) a m := by
          cases c <;> simpa [Re.M] using h1
        simp only [Re.M.eq_5] at this
        obtain ⟨c', h3, h4⟩ := this
        have : c' = a := by simp only [Re.M] at h3; exact h3.1
        subst this
        exact h4
      cases start with
      | true =>
        simp only [dirScanG, if_true, Bool.and_eq_true, beq_iff_eq] at hs
        obtain ⟨rfl, hs'⟩ := hs
        obtain ⟨hd, w₁, e1, n1⟩ := dirGuard_star3 _ a m h1'
        obtain ⟨g1, g2⟩ := mid3 (f := f) e1 n1 (Or.inr hd)
        exact combine3 e1 g1 (ih n r' false _ m b hs' (fun _ => g2) (fun hh => by cases hh) hq h2)
      | false =>
        have hs' : dirScanG grp false l = true := by simpa [dirScanG] using hs
        obtain ⟨w₁, e1, n1⟩ := hstar _ a m h1'
        obtain ⟨g1, g2⟩ := mid3 e1 n1 (hf rfl)
        exact combine3 e1 g1 (ih n r' false _ m b hs' (fun _ => g2) (fun hh => by cases hh) hq h2)

/-- **a compiled path pattern (DOTGLOB) whose top-level list is well formed and all of whose segments
    start with something guarded matches no subject that has a `.` / `..` piece** -/
theorem toRe_no_dotdirG (grp : GKind → List Item → Bool) (hgrp : GrpOK3 grp) (parsed : Parsed)
    (hn : NoBar parsed.items) (ht : TopOK (gsFor true) true parsed.items)
    (hs : dirScanG grp true parsed.items = true) (r : Re) (hr : parsed.toRe = some r)
    (s : List Char) (hh : HasDotDir s) : ¬ r.FullMatch s := by
  unfold Parsed.toRe at hr
  cases hi : Item.listToRe (2 * Item.sizeL parsed.items + 4) parsed.items with
  | none => simp [hi] at hr
  | some inner =>
    simp [hi] at hr
    rw [← hr]
    rintro ⟨b, hm⟩
    simp only [Re.M] at hm
    obtain ⟨c, ⟨rfl, _⟩, c', hm, rfl, _⟩ := hm
    generalize 2 * Item.sizeL parsed.items + 4 = fuel at hi
    cases fuel with
    | zero => simp [Item.listToRe] at hi
    | succ n =>
      simp only [Item.listToRe, HF.splitBars_noBar parsed.items hn, List.mapM_cons, List.mapM_nil] at hi
      cases hq : Item.seqToRe n parsed.items with
      | none => simp [hq] at hi
      | some r' =>
        simp [hq, altOfList] at hi
        subst hi
        obtain ⟨w, e, hw⟩ := topOK_dirG grp hgrp parsed.ci ht n r' true true _ _ hs (fun hh => by cases hh)
          (fun _ => rfl) hq hm
        simp at e
        subst e
        exact hw hh

/-- the coarse form -/
theorem toRe_no_dotdir (parsed : Parsed) (hn : NoBar parsed.items) (ht : TopOK (gsFor true) true parsed.items)
    (hs : dirScan true parsed.items = true) (r : Re) (hr : parsed.toRe = some r)
    (s : List Char) (hh : HasDotDir s) : ¬ r.FullMatch s :=
  toRe_no_dotdirG noGrp grpOK3_noGrp parsed hn ht hs r hr s hh

end HP
end WcModel
